import IncrVerif.Proofs.Step
/-!
# Helper lemmas for C14 (expert nodes with dynamic dependencies)

Run calculus (`Proofs/Heights.lean`, `Proofs/Step.lean`) applied to the expert API of
`Engine/Expert.lean`, the edge callbacks of `Engine/Core.lean` and the `.expert` branch of
`recomputeOne`.  Everything is a closed-form `(f ..).run.run s = …` equation or a consequence of one.
-/
namespace IncrVerif.Proofs.Xp
open IncrVerif.Engine IncrVerif.Proofs IncrVerif.Proofs.Step

/-! ## arrays: `modify` at a known index -/

theorem modify_eq_set {α} (a : Array α) (i : Nat) (f : α → α) (x : α) (h : a[i]? = some x) :
    a.modify i f = a.setIfInBounds i (f x) := by
  apply Array.ext_getElem?
  intro j
  rw [Array.getElem?_modify, Array.getElem?_setIfInBounds]
  by_cases hij : i = j
  · subst hij
    obtain ⟨hlt, hx⟩ := Array.getElem?_eq_some_iff.1 h
    simp [hlt, hx]
  · simp [hij]

theorem set_set {α} (a : Array α) (i : Nat) (x y : α) :
    (a.setIfInBounds i x).setIfInBounds i y = a.setIfInBounds i y := by
  apply Array.ext_getElem?
  intro j
  simp only [Array.getElem?_setIfInBounds, Array.size_setIfInBounds]
  by_cases hij : i = j <;> simp [hij]

theorem getElem?_set_self {α} (a : Array α) (i : Nat) (x y : α) (h : a[i]? = some x) :
    (a.setIfInBounds i y)[i]? = some y := by
  have hlt := (Array.getElem?_eq_some_iff.1 h).1
  simp [Array.getElem?_setIfInBounds, hlt]

/-! ## expert records in the state -/

/-- the state with expert record `e` replaced by `x` -/
def putExpert (e : Nat) (x : ExpertRec) (s : State) : State :=
  { s with experts := s.experts.setIfInBounds e x }

theorem run_getExpert (e : Nat) (s : State) :
    (getExpert e).run.run s = match s.experts[e]? with
      | some x => (.ok x, s)
      | none => (.error (.site "model:no-such-expert"), s) := by
  simp only [getExpert, run_bind, run_get]
  cases s.experts[e]? <;> rfl

theorem run_getExpert_some {e : Nat} {s : State} {er : ExpertRec} (h : s.experts[e]? = some er) :
    (getExpert e).run.run s = (.ok er, s) := by
  rw [run_getExpert, h]

theorem run_modExpert (e : Nat) (f : ExpertRec → ExpertRec) (s : State) :
    (modExpert e f).run.run s = (.ok (), { s with experts := s.experts.modify e f }) := rfl

theorem run_modExpert_some {e : Nat} {s : State} {er : ExpertRec} (f : ExpertRec → ExpertRec)
    (h : s.experts[e]? = some er) :
    (modExpert e f).run.run s = (.ok (), putExpert e (f er) s) := by
  rw [run_modExpert, modify_eq_set _ _ _ _ h]; rfl

/-- peeling rules whose side condition is stated for the *current* state (used with `rw`, the side
condition becomes a new goal) -/
theorem run_bind_getExpert {β} {e : Nat} {S : State} (er : ExpertRec) (f : ExpertRec → M β)
    (h : S.experts[e]? = some er) : (getExpert e >>= f).run.run S = (f er).run.run S :=
  run_bind_ok (run_getExpert_some h)

theorem run_bind_modExpert {β} {e : Nat} {S : State} (er : ExpertRec) (g : ExpertRec → ExpertRec)
    (f : Unit → M β) (h : S.experts[e]? = some er) :
    (modExpert e g >>= f).run.run S = (f ()).run.run (putExpert e (g er) S) :=
  run_bind_ok (run_modExpert_some g h)

/-- `rw [t]`, then close the side condition (stated for whatever the current state is) with `h` -/
macro "rwx " t:term " with " h:term : tactic => `(tactic| (rw [$t:term]; rotate_left; exact $h))

theorem putExpert_get {e : Nat} {s : State} {er : ExpertRec} (x : ExpertRec)
    (h : s.experts[e]? = some er) : (putExpert e x s).experts[e]? = some x :=
  getElem?_set_self _ _ _ _ h

theorem putExpert_get_ne {e e' : Nat} (s : State) (x : ExpertRec) (h : e ≠ e') :
    (putExpert e x s).experts[e']? = s.experts[e']? := by
  simp [putExpert, Array.getElem?_setIfInBounds, h]

theorem putExpert_put (e : Nat) (x y : ExpertRec) (s : State) :
    putExpert e y (putExpert e x s) = putExpert e y s := by
  simp only [putExpert, set_set]

theorem putExpert_self {e : Nat} {s : State} {er : ExpertRec} (h : s.experts[e]? = some er) :
    putExpert e er s = s := by
  have : s.experts.setIfInBounds e er = s.experts := by
    apply Array.ext_getElem?
    intro j
    rw [Array.getElem?_setIfInBounds]
    by_cases hij : e = j
    · subst hij
      obtain ⟨hlt, hx⟩ := Array.getElem?_eq_some_iff.1 h
      simp [hlt, hx]
    · simp [hij]
  simp only [putExpert, this]

@[simp] theorem putExpert_nodes (e x s) : (putExpert e x s).nodes = s.nodes := rfl
@[simp] theorem putExpert_nodeD (e x s n) : (putExpert e x s).nodeD n = s.nodeD n := rfl
@[simp] theorem putExpert_isNecessary (e x s n) : (putExpert e x s).isNecessary n = s.isNecessary n := rfl
@[simp] theorem putExpert_cfg (e x s) : (putExpert e x s).cfg = s.cfg := rfl
@[simp] theorem putExpert_rch (e x s) : (putExpert e x s).rch = s.rch := rfl
@[simp] theorem putExpert_pc (e x s) : (putExpert e x s).panicCountdown = s.panicCountdown := rfl
@[simp] theorem putExpert_value (env : Env) (e : Nat) (x : ExpertRec) (s : State) (n : Nat) :
    (putExpert e x s).value env n = s.value env n :=
  value_congr env s (putExpert e x s) rfl (fun _ => rfl) n

/-- "node `n` is a valid expert node whose record is `er`" -/
structure IsExpert (s : State) (n : Nat) (nd : Node) (e : Nat) (er : ExpertRec) : Prop where
  node : s.nodes[n]? = some nd
  valid : nd.valid = true
  kind : nd.kind = .expert e
  xrec : s.experts[e]? = some er

theorem IsExpert.kind? {s n nd e er} (h : IsExpert s n nd e er) : nd.kind? = some (.expert e) := by
  simp [Node.kind?, h.valid, h.kind]

theorem run_expertOf {n : Nat} {s : State} {nd : Node} (hn : s.nodes[n]? = some nd) :
    (expertOf n).run.run s =
      (.ok (match nd.kind? with | some (.expert e) => some e | _ => none), s) := by
  unfold expertOf
  rw [run_bind_ok (run_getNode_some hn)]
  split <;> simp_all <;> rfl

theorem expertOf_match_none {nd : Node} (hk : ∀ e, nd.kind ≠ .expert e) :
    (match nd.kind? with | some (.expert e) => some e | _ => none) = (none : Option Nat) := by
  split
  · rename_i e h
    unfold Node.kind? at h
    split at h
    · exact absurd (Option.some.inj h) (hk e)
    · cases h
  · rfl

theorem IsExpert.run_expertOf {s n nd e er} (h : IsExpert s n nd e er) :
    (expertOf n).run.run s = (.ok (some e), s) := by
  rw [Xp.run_expertOf h.node, h.kind?]

theorem IsExpert.children {s n nd e er} (h : IsExpert s n nd e er) :
    s.children n = er.children.map (·.child) := by
  simp [State.children, nodeD_of_some h.node, h.kind?, h.xrec]

/-- the expert is stale whenever its `forceStale` flag is set -/
theorem IsExpert.isStale_of_forceStale {s n nd e er} (h : IsExpert s n nd e er)
    (hf : er.forceStale = true) : s.isStale n = true := by
  simp [State.isStale, nodeD_of_some h.node, h.kind?, h.xrec, hf]

theorem IsExpert.isStale {s n nd e er} (h : IsExpert s n nd e er) :
    s.isStale n = (er.forceStale || nd.recomputedAt == -1 ||
      (er.children.map (·.child)).any fun c => (s.nodeD c).changedAt > nd.recomputedAt) := by
  simp [State.isStale, nodeD_of_some h.node, h.kind?, h.xrec, h.children]

theorem IsExpert.putExpert {s n nd e er} (h : IsExpert s n nd e er) (x : ExpertRec) :
    IsExpert (putExpert e x s) n nd e x :=
  ⟨h.node, h.valid, h.kind, putExpert_get x h.xrec⟩

/-! ## the debug-build assertion `assert_currently_running_node_is_child` -/

/-- the running-node assertion passes: release build, or a node is being recomputed and it is a child -/
def runningOk (s : State) (n : Nat) : Bool :=
  !s.cfg.debug || (match s.currentlyRunning with
    | none => false
    | some cur => (s.children n).contains cur)

theorem run_assertRunningIsChild (n : Nat) (name : String) (s : State) :
    (assertRunningIsChild n name).run.run s =
      if s.cfg.debug = true then
        match s.currentlyRunning with
        | none => (.error (.site s!"expert:{name}:only-during-stabilisation"), s)
        | some cur =>
          if (s.children n).contains cur then (.ok (), s)
          else (.error (.site s!"expert:{name}:running-node-not-a-child"), s)
      else (.ok (), s) := by
  unfold assertRunningIsChild
  rw [run_bind_get]
  cases hd : s.cfg.debug
  · rfl
  · simp only [if_true]
    cases hc : s.currentlyRunning with
    | none => rfl
    | some cur =>
      simp only
      cases hm : (s.children n).contains cur <;> rfl

theorem run_assertRunningIsChild_ok {n : Nat} {name : String} {s : State} (h : runningOk s n = true) :
    (assertRunningIsChild n name).run.run s = (.ok (), s) := by
  rw [run_assertRunningIsChild]
  unfold runningOk at h
  cases hd : s.cfg.debug
  · simp
  · simp only [if_true]
    rw [hd] at h
    cases hc : s.currentlyRunning with
    | none => rw [hc] at h; simp at h
    | some cur => rw [hc] at h; simp only [Bool.not_true, Bool.false_or] at h; simp only [h, if_true]

/-- the assertion fails exactly when `runningOk` is false -/
theorem run_assertRunningIsChild_fail {n : Nat} {name : String} {s : State} (h : runningOk s n = false) :
    ∃ p, (assertRunningIsChild n name).run.run s = (.error p, s) := by
  rw [run_assertRunningIsChild]
  unfold runningOk at h
  cases hd : s.cfg.debug
  · rw [hd] at h; simp at h
  · simp only [if_true]
    rw [hd] at h
    cases hc : s.currentlyRunning with
    | none => exact ⟨_, rfl⟩
    | some cur =>
      rw [hc] at h; simp only [Bool.not_true, Bool.false_or] at h
      simp only [h, Bool.false_eq_true, if_false]; exact ⟨_, rfl⟩

/-! ## (f) `observabilityChange` -/

/-- the note `observability_change` logs for a user-defined expert: node, new observability, and
whether the engine is stabilising (what the user's callback can see through `is_stabilising()`) -/
def obsNote (er : ExpertRec) (nowObservable : Bool) (s : State) : Event :=
  .note s!"obschange n{er.node} {nowObservable} stab={s.status != .notStabilising}"

theorem observabilityChange_true_run {e : Nat} {s : State} {er : ExpertRec}
    (he : s.experts[e]? = some er) (hpk : er.pk = none) :
    (observabilityChange e true).run.run s =
      (.ok (), { s with log := obsNote er true s :: s.log }) := by
  have h1 : er.pk.isNone = true := by rw [hpk]; rfl
  unfold observabilityChange
  rw [run_bind_ok (run_getExpert_some he)]
  simp only [h1, if_true, run_bind_get, run_bind_logEv]
  rfl

theorem observabilityChange_false_run {e : Nat} {s : State} {er : ExpertRec}
    (he : s.experts[e]? = some er) (hpk : er.pk = none) :
    (observabilityChange e false).run.run s =
      (.ok (), putExpert e { er with willFireAllCallbacks := true, numInvalidChildren := 0 }
        { s with log := obsNote er false s :: s.log }) := by
  have h1 : er.pk.isNone = true := by rw [hpk]; rfl
  unfold observabilityChange
  rw [run_bind_ok (run_getExpert_some he)]
  simp only [h1, if_true, run_bind_get, run_bind_logEv, Bool.not_false]
  rw [run_modExpert_some _ (by exact he)]
  rfl

/-- an internal per-key operator node (`pk ≠ none`): the same without the log line -/
theorem observabilityChange_false_run_pk {e : Nat} {s : State} {er : ExpertRec}
    (he : s.experts[e]? = some er) (hpk : er.pk.isNone = false) :
    (observabilityChange e false).run.run s =
      (.ok (), putExpert e { er with willFireAllCallbacks := true, numInvalidChildren := 0 } s) := by
  unfold observabilityChange
  rw [run_bind_ok (run_getExpert_some he)]
  simp only [hpk, Bool.false_eq_true, if_false, Bool.not_false, if_true, pure_bind]
  rw [run_modExpert_some _ he]

theorem observabilityChange_missing {e : Nat} {s : State} (b : Bool) (he : s.experts[e]? = none) :
    (observabilityChange e b).run.run s = (.error (.site "model:no-such-expert"), s) := by
  unfold observabilityChange
  rw [run_bind, run_getExpert, he]

/-! ## (e) edge callbacks -/

/-- the state after the change callback of dependency `dep` of expert `e` (node `node`) was invoked
with value `v`: one `inv "cb"` event, the slot of `dep` now holds `v` -/
def deliver (e node dep : Nat) (v : Val) (s : State) : State :=
  { s with log := .inv "cb" node [v] s!"d{dep}" :: s.log,
           experts := s.experts.modify e fun x =>
             { x with slots := (dep, v) :: x.slots.filter (·.1 != dep) } }

/-- `Edge::on_change` as a state transformer (no fault armed) -/
def fireEdge (env : Env) (e node : Nat) (edge : ExpertEdge) (s : State) : State :=
  match edge.cb, s.value env edge.child with
  | some _, some v => deliver e node edge.dep v s
  | _, _ => s

theorem edgeOnChange_run (env : Env) {e : Nat} (edge : ExpertEdge) {s : State} {er : ExpertRec}
    (he : s.experts[e]? = some er) (hpk : er.pk = none) (hp : s.panicCountdown = none) :
    (edgeOnChange env e edge).run.run s = (.ok (), fireEdge env e er.node edge s) := by
  unfold edgeOnChange fireEdge
  cases hcb : edge.cb with
  | none => rfl
  | some c =>
    simp only [run_bind_get]
    cases hv : s.value env edge.child with
    | none => rfl
    | some v =>
      have h1 : er.pk.isNone = true := by rw [hpk]; rfl
      rw [run_bind_ok (run_getExpert_some he)]
      simp only [h1, if_true, bind_assoc]
      rw [run_bind_ok (run_tick_none s hp), run_bind_logEv]
      rfl

/-- the edge has no callback: nothing happens (even when a fault is armed) -/
theorem edgeOnChange_no_cb (env : Env) (e : Nat) (edge : ExpertEdge) (s : State)
    (hcb : edge.cb = none) : (edgeOnChange env e edge).run.run s = (.ok (), s) := by
  unfold edgeOnChange; rw [hcb]; rfl

/-- the child has no value (repaired D7): nothing happens -/
theorem edgeOnChange_no_value (env : Env) (e : Nat) (edge : ExpertEdge) (s : State)
    (hv : s.value env edge.child = none) : (edgeOnChange env e edge).run.run s = (.ok (), s) := by
  unfold edgeOnChange
  cases edge.cb with
  | none => rfl
  | some c => simp only [run_bind_get, hv]; rfl

theorem runEdgeCallback_run (env : Env) {e : Nat} (i : Nat) {s : State} {er : ExpertRec}
    (he : s.experts[e]? = some er) :
    (runEdgeCallback env e i).run.run s =
      if er.willFireAllCallbacks = true then (.ok (), s)
      else match er.children[i]? with
        | none => (.ok (), s)
        | some edge => (edgeOnChange env e edge).run.run s := by
  unfold runEdgeCallback
  rw [run_bind_ok (run_getExpert_some he)]
  cases er.willFireAllCallbacks
  · simp only [Bool.not_false, if_true, Bool.false_eq_true, if_false]
    cases er.children[i]? <;> rfl
  · rfl

/-- `child_changed` on a valid expert parent is `run_edge_callback` -/
theorem childChanged_expert_run (env : Env) (fuel p c i : Nat) (old : Option Val) {s : State}
    {nd : Node} {e : Nat} (hn : s.nodes[p]? = some nd) (hv : nd.valid = true)
    (hk : nd.kind = .expert e) :
    (childChanged env (fuel + 1) p c i old).run.run s = (runEdgeCallback env e i).run.run s := by
  unfold childChanged
  rw [run_bind_ok (run_getNode_some hn)]
  have : nd.kind? = some (.expert e) := by simp [Node.kind?, hv, hk]
  rw [this]

/-! ## (b) `expertAddDependency` -/

/-- the edge `expert_add_dependency` creates in state `s` -/
def newEdge (s : State) (child : Nat) (cb : Bool) : ExpertEdge :=
  { dep := s.nextDep, child := child, cb := if cb then some s.nextDep else none }

/-- `nextDep` bumped -/
def bumpDep (s : State) : State := { s with nextDep := s.nextDep + 1 }

theorem expertAddDependency_unnecessary (env : Env) (fuel n child : Nat) (cb : Bool) {s : State}
    {nd : Node} {e : Nat} {er : ExpertRec} (hx : IsExpert s n nd e er)
    (hnec : nd.isNecessary = false) :
    (expertAddDependency env fuel n child cb).run.run s =
      (.ok s.nextDep,
        putExpert e { er with children := er.children ++ [newEdge s child cb], forceStale := true }
          (bumpDep s)) := by
  unfold expertAddDependency
  rw [run_bind_get, run_bind_modify]
  have hx' : IsExpert { s with nextDep := s.nextDep + 1 } n nd e er := ⟨hx.node, hx.valid, hx.kind, hx.xrec⟩
  rw [run_bind_ok hx'.run_expertOf]
  simp only
  rw [run_bind_ok (run_getExpert_some hx'.xrec), run_bind_ok (run_modExpert_some _ hx'.xrec), run_bind_get]
  have hn : (putExpert e { er with
      children := er.children ++ [{ dep := s.nextDep, child := child, cb := if cb = true then some s.nextDep else none }],
      forceStale := true } { s with nextDep := s.nextDep + 1 }).isNecessary n = false := by
    simp [State.isNecessary, State.nodeD, hx.node, hnec]
  rw [hn]
  rfl

theorem expertAddDependency_invalid (env : Env) (fuel n child : Nat) (cb : Bool) {s : State}
    {nd : Node} (hn : s.nodes[n]? = some nd) (hv : nd.valid = false) :
    (expertAddDependency env fuel n child cb).run.run s = (.ok s.nextDep, bumpDep s) := by
  unfold expertAddDependency
  rw [run_bind_get, run_bind_modify]
  have hn' : ({ s with nextDep := s.nextDep + 1 } : State).nodes[n]? = some nd := hn
  rw [run_bind_ok (Xp.run_expertOf hn')]
  simp only [Node.kind?, hv, Bool.false_eq_true, if_false]
  rfl

theorem expertAddDependency_not_expert (env : Env) (fuel n child : Nat) (cb : Bool) {s : State}
    {nd : Node} (hn : s.nodes[n]? = some nd) (hk : ∀ e, nd.kind ≠ .expert e) :
    (expertAddDependency env fuel n child cb).run.run s = (.ok s.nextDep, bumpDep s) := by
  unfold expertAddDependency
  rw [run_bind_get, run_bind_modify]
  have hn' : ({ s with nextDep := s.nextDep + 1 } : State).nodes[n]? = some nd := hn
  rw [run_bind_ok (Xp.run_expertOf hn')]
  rw [expertOf_match_none hk]
  rfl

/-! ## (c) `expertMakeStale` -/

theorem expertMakeStale_invalid {n : Nat} {s : State} {nd : Node} (hn : s.nodes[n]? = some nd)
    (hv : nd.valid = false) : (expertMakeStale n).run.run s = (.ok (), s) := by
  unfold expertMakeStale
  rw [run_bind_ok (run_getNode_some hn)]
  simp only [hv, Bool.not_false, if_true]
  rfl

theorem expertMakeStale_not_expert {n : Nat} {s : State} {nd : Node} (hn : s.nodes[n]? = some nd)
    (hk : ∀ e, nd.kind ≠ .expert e) : (expertMakeStale n).run.run s = (.ok (), s) := by
  unfold expertMakeStale
  rw [run_bind_ok (run_getNode_some hn)]
  cases hv : nd.valid
  · simp only [Bool.not_false, if_true]; rfl
  · simp only [Bool.not_true, Bool.false_eq_true, if_false]
    rw [run_bind_ok (Xp.run_expertOf hn)]
    rw [expertOf_match_none hk]
    rfl

/-- the state in which `forceStale` of expert `e` is set -/
def forced (e : Nat) (er : ExpertRec) (s : State) : State := putExpert e { er with forceStale := true } s

theorem expertMakeStale_run {s : State} {n : Nat} {nd : Node} {e : Nat} {er : ExpertRec}
    (hx : IsExpert s n nd e er) (hr : runningOk s n = true) :
    (expertMakeStale n).run.run s =
      if er.forceStale = true then (.ok (), s)
      else if (nd.isNecessary && !nd.inRch) = true then (rchInsert n).run.run (forced e er s)
      else (.ok (), forced e er s) := by
  unfold expertMakeStale
  rw [run_bind_ok (run_getNode_some hx.node)]
  simp only [hx.valid, Bool.not_true, Bool.false_eq_true, if_false]
  rw [run_bind_ok hx.run_expertOf]
  simp only
  rw [run_bind_ok (run_assertRunningIsChild_ok hr), run_bind_ok (run_getExpert_some hx.xrec)]
  cases hf : er.forceStale
  · simp only [Bool.false_eq_true, if_false]
    rw [run_bind_ok (run_modExpert_some _ hx.xrec), run_bind_get]
    have h1 : (putExpert e { er with forceStale := true } s).isNecessary n = nd.isNecessary := by
      simp [State.isNecessary, nodeD_of_some hx.node]
    have h2 : ((putExpert e { er with forceStale := true } s).nodeD n).inRch = nd.inRch := by
      simp [nodeD_of_some hx.node]
    rw [h1, h2]
    cases (nd.isNecessary && !nd.inRch) <;> rfl
  · rfl

/-- the running-node assertion fails (debug build, not called from a child's recompute): panic, nothing
changed -/
theorem expertMakeStale_assert_fails {s : State} {n : Nat} {nd : Node} {e : Nat} {er : ExpertRec}
    (hx : IsExpert s n nd e er) (hr : runningOk s n = false) :
    ∃ p, (expertMakeStale n).run.run s = (.error p, s) := by
  obtain ⟨p, hp⟩ := run_assertRunningIsChild_fail (name := "make_stale") hr
  refine ⟨p, ?_⟩
  unfold expertMakeStale
  rw [run_bind_ok (run_getNode_some hx.node)]
  simp only [hx.valid, Bool.not_true, Bool.false_eq_true, if_false]
  rw [run_bind_ok hx.run_expertOf]
  simp only
  rw [run_bind, hp]

theorem forced_isExpert {s : State} {n : Nat} {nd : Node} {e : Nat} {er : ExpertRec}
    (hx : IsExpert s n nd e er) : IsExpert (forced e er s) n nd e { er with forceStale := true } :=
  hx.putExpert _

theorem forced_isStale {s : State} {n : Nat} {nd : Node} {e : Nat} {er : ExpertRec}
    (hx : IsExpert s n nd e er) : (forced e er s).isStale n = true :=
  (forced_isExpert hx).isStale_of_forceStale rfl

/-- exact run equation of `expert_make_stale` on a valid expert node, the heap insertion spelled out -/
theorem expertMakeStale_run' {s : State} {n : Nat} {nd : Node} {e : Nat} {er : ExpertRec}
    (hx : IsExpert s n nd e er) (hr : runningOk s n = true) :
    (expertMakeStale n).run.run s =
      if er.forceStale = true then (.ok (), s)
      else if (nd.isNecessary && !nd.inRch) = true then
        if s.cfg.debug = true ∧ nd.height > s.rch.maxAllowed then
          (.error (.site "recompute_heap:insert:height<=max"), forced e er s)
        else if nd.height < 0 then
          (.error (.site "recompute_heap:link:height>=0"), lowered nd.height (forced e er s))
        else if nd.height > s.rch.maxAllowed then
          (.error (.site "recompute_heap:link:height<=max"), lowered nd.height (forced e er s))
        else (.ok (), inserted n nd.height (forced e er s))
      else (.ok (), forced e er s) := by
  rw [expertMakeStale_run hx hr]
  split
  · rfl
  · split
    · rename_i hc
      rw [rchInsert_run]
      have hn' : (forced e er s).nodes[n]? = some nd := hx.node
      rw [hn']
      simp only
      have hpre : ¬ ((forced e er s).cfg.debug = true ∧
          (!nd.inRch && (forced e er s).needsToBeComputed n) = false) := by
        intro ⟨_, h⟩
        have h1 : (forced e er s).isNecessary n = nd.isNecessary := by
          simp [forced, State.isNecessary, nodeD_of_some hx.node]
        simp only [State.needsToBeComputed, forced_isStale hx, h1] at h
        simp only [Bool.and_eq_true, Bool.not_eq_true'] at hc
        simp [hc.1, hc.2] at h
      rw [if_neg hpre]
      rfl
    · rfl

/-- `make_stale` leaves the node stale (whenever it returns) -/
theorem expertMakeStale_isStale {s s' : State} {n : Nat} {nd : Node} {e : Nat} {er : ExpertRec}
    (hx : IsExpert s n nd e er) (h : (expertMakeStale n).run.run s = (.ok (), s')) :
    s'.isStale n = true := by
  cases hr : runningOk s n
  · obtain ⟨p, hp⟩ := expertMakeStale_assert_fails hx hr
    rw [hp] at h; cases h
  rw [expertMakeStale_run' hx hr] at h
  split at h
  · rename_i hf; cases h; exact hx.isStale_of_forceStale hf
  · split at h
    · split at h
      · cases h
      · split at h
        · cases h
        · split at h
          · cases h
          · cases h
            have hx' : IsExpert (inserted n nd.height (forced e er s)) n
                { nd with heightInRch := nd.height } e { er with forceStale := true } := by
              refine ⟨?_, hx.valid, hx.kind, (forced_isExpert hx).xrec⟩
              have hn' : (forced e er s).nodes[n]? = some nd := hx.node
              simp [inserted, Array.getElem?_modify, hn']
            exact hx'.isStale_of_forceStale rfl
    · cases h; exact forced_isStale hx

/-! ## (d) firing all callbacks -/

/-- the callback of `edge` applied to an expert record; child values are read in state `s0` -/
def fireRec (env : Env) (s0 : State) (er : ExpertRec) (edge : ExpertEdge) : ExpertRec :=
  match edge.cb, s0.value env edge.child with
  | some _, some v => { er with slots := (edge.dep, v) :: er.slots.filter (·.1 != edge.dep) }
  | _, _ => er

/-- the event the callback of `edge` logs (none when there is no callback or no value) -/
def cbEvent (env : Env) (s0 : State) (node : Nat) (edge : ExpertEdge) : List Event :=
  match edge.cb, s0.value env edge.child with
  | some _, some v => [.inv "cb" node [v] s!"d{edge.dep}"]
  | _, _ => []

/-- all callbacks of `edges`, in order -/
def fireAll (env : Env) (e node : Nat) (edges : List ExpertEdge) (s : State) : State :=
  edges.foldl (fun s edge => fireEdge env e node edge s) s

/-- the events of firing `edges` in order, newest first, in front of `acc` -/
def cbEvents (env : Env) (s0 : State) (node : Nat) (edges : List ExpertEdge) (acc : List Event) :
    List Event :=
  edges.foldl (fun acc edge => cbEvent env s0 node edge ++ acc) acc

theorem logged_value (env : Env) (l : List Event) (s : State) (c : Nat) :
    (logged l s).value env c = s.value env c :=
  value_congr env s (logged l s) rfl (fun _ => rfl) c

theorem logged_logged (l1 l2 : List Event) (s : State) :
    logged l1 (logged l2 s) = logged (l1 ++ l2) s := by
  simp [logged, List.append_assoc]

theorem logged_putExpert (l : List Event) (e : Nat) (x : ExpertRec) (s : State) :
    logged l (putExpert e x s) = putExpert e x (logged l s) := rfl

theorem fireEdge_eq (env : Env) (e node : Nat) (edge : ExpertEdge) {s : State} {er : ExpertRec}
    (he : s.experts[e]? = some er) :
    fireEdge env e node edge s =
      putExpert e (fireRec env s er edge) (logged (cbEvent env s node edge) s) := by
  unfold fireEdge fireRec cbEvent
  cases edge.cb with
  | none => exact (putExpert_self he).symm
  | some c =>
    cases s.value env edge.child with
    | none => exact (putExpert_self he).symm
    | some v =>
      simp only [deliver, putExpert, logged]
      rw [modify_eq_set _ _ _ _ he]
      rfl

theorem fireAll_put (env : Env) (e node : Nat) (s : State) {er0 : ExpertRec}
    (he : s.experts[e]? = some er0) (edges : List ExpertEdge) :
    ∀ (r : ExpertRec) (l : List Event),
      fireAll env e node edges (putExpert e r (logged l s)) =
        putExpert e (edges.foldl (fireRec env s) r) (logged (cbEvents env s node edges l) s) := by
  induction edges with
  | nil => intro r l; rfl
  | cons a rest ih =>
    intro r l
    have he' : (putExpert e r (logged l s)).experts[e]? = some r := putExpert_get (s := logged l s) r he
    have hval : ∀ c, (putExpert e r (logged l s)).value env c = s.value env c := by
      intro c; rw [putExpert_value, logged_value]
    have h1 : fireRec env (putExpert e r (logged l s)) r a = fireRec env s r a := by
      unfold fireRec; rw [hval]
    have h2 : cbEvent env (putExpert e r (logged l s)) node a = cbEvent env s node a := by
      unfold cbEvent; rw [hval]
    show fireAll env e node rest (fireEdge env e node a (putExpert e r (logged l s))) = _
    rw [fireEdge_eq env e node a he', h1, h2]
    have h3 : logged (cbEvent env s node a) (putExpert e r (logged l s)) =
        putExpert e r (logged (cbEvent env s node a ++ l) s) := by
      rw [← logged_logged]; rfl
    rw [h3, putExpert_put, ih]
    rfl

theorem fireAll_eq (env : Env) (e node : Nat) (edges : List ExpertEdge) {s : State} {er : ExpertRec}
    (he : s.experts[e]? = some er) :
    fireAll env e node edges s =
      putExpert e (edges.foldl (fireRec env s) er) (logged (cbEvents env s node edges []) s) := by
  have h := fireAll_put env e node s he edges er []
  have h0 : putExpert e er (logged [] s) = s := by
    have : logged [] s = s := rfl
    rw [this, putExpert_self he]
  rw [h0] at h
  exact h

/-- the record after firing: only `slots` can differ -/
theorem foldl_fireRec_fields (env : Env) (s : State) (edges : List ExpertEdge) :
    ∀ r : ExpertRec, let r' := edges.foldl (fireRec env s) r
      r'.f = r.f ∧ r'.node = r.node ∧ r'.children = r.children ∧ r'.script = r.script ∧ r'.sel = r.sel ∧
      r'.pk = r.pk ∧ r'.forceStale = r.forceStale ∧ r'.numInvalidChildren = r.numInvalidChildren ∧
      r'.willFireAllCallbacks = r.willFireAllCallbacks := by
  induction edges with
  | nil => intro r; exact ⟨rfl, rfl, rfl, rfl, rfl, rfl, rfl, rfl, rfl⟩
  | cons a rest ih =>
    intro r
    have h := ih (fireRec env s r a)
    have h0 : (fireRec env s r a).f = r.f ∧ (fireRec env s r a).node = r.node ∧
        (fireRec env s r a).children = r.children ∧ (fireRec env s r a).script = r.script ∧
        (fireRec env s r a).sel = r.sel ∧ (fireRec env s r a).pk = r.pk ∧
        (fireRec env s r a).forceStale = r.forceStale ∧
        (fireRec env s r a).numInvalidChildren = r.numInvalidChildren ∧
        (fireRec env s r a).willFireAllCallbacks = r.willFireAllCallbacks := by
      unfold fireRec
      split <;> exact ⟨rfl, rfl, rfl, rfl, rfl, rfl, rfl, rfl, rfl⟩
    simp only [List.foldl_cons] at h ⊢
    obtain ⟨a1, a2, a3, a4, a5, a6, a7, a8, a9⟩ := h
    obtain ⟨b1, b2, b3, b4, b5, b6, b7, b8, b9⟩ := h0
    exact ⟨a1.trans b1, a2.trans b2, a3.trans b3, a4.trans b4, a5.trans b5, a6.trans b6,
      a7.trans b7, a8.trans b8, a9.trans b9⟩

theorem lookup_filter_ne (d d' : Nat) (l : List (Nat × Val)) (h : d ≠ d') :
    (l.filter (·.1 != d')).lookup d = l.lookup d := by
  induction l with
  | nil => rfl
  | cons a rest ih =>
    obtain ⟨k, v⟩ := a
    by_cases hk : k = d'
    · subst hk
      have : ((k, v) :: rest).filter (·.1 != k) = rest.filter (·.1 != k) := by simp
      rw [this, ih]
      have : (d == k) = false := by simpa using h
      simp [List.lookup, this]
    · have : ((k, v) :: rest).filter (·.1 != d') = (k, v) :: rest.filter (·.1 != d') := by simp [hk]
      rw [this]
      simp only [List.lookup]
      rw [ih]

/-- a callback for another dependency leaves the slot of `d` alone -/
theorem fireRec_lookup_other (env : Env) (s : State) (r : ExpertRec) (a : ExpertEdge) (d : Nat)
    (h : a.dep ≠ d) : (fireRec env s r a).slots.lookup d = r.slots.lookup d := by
  unfold fireRec
  split
  · have : (d == a.dep) = false := by simpa using (Ne.symm h)
    simp only [List.lookup, this]
    exact lookup_filter_ne d a.dep r.slots (Ne.symm h)
  · rfl

theorem foldl_fireRec_lookup_other (env : Env) (s : State) (edges : List ExpertEdge) (d : Nat)
    (h : ∀ x ∈ edges, x.dep ≠ d) :
    ∀ r : ExpertRec, (edges.foldl (fireRec env s) r).slots.lookup d = r.slots.lookup d := by
  induction edges with
  | nil => intro r; rfl
  | cons a rest ih =>
    intro r
    rw [List.foldl_cons, ih (fun x hx => h x (List.mem_cons_of_mem _ hx)),
      fireRec_lookup_other env s r a d (h a (List.mem_cons_self ..))]

/-- after firing all callbacks, the slot of every edge that has a callback and whose child has a value
holds that value (dependency names pairwise distinct) -/
theorem foldl_fireRec_lookup (env : Env) (s : State) (edges : List ExpertEdge)
    (hnd : (edges.map (·.dep)).Nodup) :
    ∀ (r : ExpertRec) (edge : ExpertEdge) (v : Val), edge ∈ edges → edge.cb.isSome = true →
      s.value env edge.child = some v →
      (edges.foldl (fireRec env s) r).slots.lookup edge.dep = some v := by
  induction edges with
  | nil => intro r edge v h; cases h
  | cons a rest ih =>
    intro r edge v hmem hcb hv
    rw [List.map_cons, List.nodup_cons] at hnd
    rw [List.foldl_cons]
    rcases List.mem_cons.1 hmem with rfl | hin
    · rw [foldl_fireRec_lookup_other env s rest edge.dep]
      · unfold fireRec
        obtain ⟨c, hc⟩ := Option.isSome_iff_exists.1 hcb
        rw [hc, hv]
        simp [List.lookup]
      · intro x hx hxe
        exact hnd.1 (List.mem_map.2 ⟨x, hx, hxe⟩)
    · exact ih hnd.2 _ edge v hin hcb hv

/-- an edge without callback, or whose child has no value, does not touch any slot; in particular
the slot of a dependency none of whose edges fires is unchanged -/
theorem fireRec_noop (env : Env) (s : State) (r : ExpertRec) (a : ExpertEdge)
    (h : a.cb = none ∨ s.value env a.child = none) : fireRec env s r a = r := by
  unfold fireRec
  rcases h with h | h
  · rw [h]
  · rw [h]; cases a.cb <;> rfl

/-- the `for edge in children do edge.on_change()` loop of `before_main_computation` -/
theorem fireLoop_run (env : Env) (e : Nat) (edges : List ExpertEdge) :
    ∀ (s : State) (er : ExpertRec), s.experts[e]? = some er → er.pk = none → s.panicCountdown = none →
      (forIn edges PUnit.unit (fun edge (_ : PUnit) => do
          edgeOnChange env e edge
          pure (ForInStep.yield PUnit.unit) : ExpertEdge → PUnit → M (ForInStep PUnit))).run.run s =
        (.ok PUnit.unit, fireAll env e er.node edges s) := by
  induction edges with
  | nil => intro s er _ _ _; rfl
  | cons a rest ih =>
    intro s er he hpk hp
    rw [List.forIn_cons, bind_assoc, run_bind_ok (edgeOnChange_run env a he hpk hp), pure_bind]
    have he' : (fireEdge env e er.node a s).experts[e]? = some (fireRec env s er a) := by
      rw [fireEdge_eq env e er.node a he]; exact putExpert_get (s := logged _ s) _ he
    have hnode : (fireRec env s er a).node = er.node := by
      unfold fireRec; split <;> rfl
    have hpk' : (fireRec env s er a).pk = none := by
      unfold fireRec; split <;> exact hpk
    have hp' : (fireEdge env e er.node a s).panicCountdown = none := by
      rw [fireEdge_eq env e er.node a he]; exact hp
    have := ih _ _ he' hpk' hp'
    rw [hnode] at this
    exact this

/-! ## (d) the `.expert` branch of `recomputeOne` -/

/-- what the recompute closure of a user-defined expert is applied to, in state `s` for record `er`:
the current values of the dependencies (in edge order) and, for edges with a callback, the slots -/
def depValsOf (env : Env) (s : State) (er : ExpertRec) : List (Option Val) :=
  er.children.map fun edge => s.value env edge.child

def slotValsOf (er : ExpertRec) : List (Option Val) :=
  er.children.map fun edge =>
    match edge.cb with
    | some _ => er.slots.lookup edge.dep
    | none => none

def expertResult (env : Env) (s : State) (er : ExpertRec) : Val :=
  env.expertFn er.f (depValsOf env s er) (slotValsOf er)

theorem expertValue_run (env : Env) {e : Nat} {s : State} {er : ExpertRec} (d sl : List (Option Val))
    (he : s.experts[e]? = some er) (hpk : er.pk = none) :
    (expertValue env e d sl).run.run s = (.ok (env.expertFn er.f d sl), s) := by
  unfold expertValue
  rw [run_bind_ok (run_getExpert_some he), run_bind_get, hpk]
  rfl

/-- `before_main_computation` done: flags reset -/
def resetRec (er : ExpertRec) : ExpertRec := { er with forceStale := false, willFireAllCallbacks := false }

/-- the expert record when the recompute closure runs -/
def readyRec (env : Env) (s : State) (er : ExpertRec) : ExpertRec :=
  if er.willFireAllCallbacks = true then er.children.foldl (fireRec env s) (resetRec er) else resetRec er

/-- the state in which the recompute closure runs -/
def readyState (env : Env) (n e : Nat) (s : State) (er : ExpertRec) : State :=
  putExpert e (readyRec env s er)
    (logged (if er.willFireAllCallbacks = true then cbEvents env s er.node er.children [] else [])
      (started n s))

theorem started_experts (n : Nat) (s : State) : (started n s).experts = s.experts := rfl
theorem started_pc (n : Nat) (s : State) : (started n s).panicCountdown = s.panicCountdown := rfl

theorem fireRec_congr (env : Env) (s s' : State) (h : ∀ c, s'.value env c = s.value env c) :
    fireRec env s' = fireRec env s := by
  funext r a; unfold fireRec; rw [h]

theorem cbEvents_congr (env : Env) (s s' : State) (h : ∀ c, s'.value env c = s.value env c)
    (node : Nat) (edges : List ExpertEdge) (acc : List Event) :
    cbEvents env s' node edges acc = cbEvents env s node edges acc := by
  unfold cbEvents
  have : (fun acc edge => cbEvent env s' node edge ++ acc) = (fun acc edge => cbEvent env s node edge ++ acc) := by
    funext acc a; unfold cbEvent; rw [h]
  rw [this]

/-- an expert with invalid children invalidates itself instead of recomputing -/
theorem recomputeOne_expert_invalid_run (env : Env) (fuel n : Nat) {s : State} {nd : Node} {e : Nat}
    {er : ExpertRec} (hx : IsExpert s n nd e er) (hinv : er.numInvalidChildren > 0) :
    (recomputeOne env fuel n).run.run s =
      (do invalidateNode fuel n; propagateInvalidity fuel; pure none : M (Option Nat)).run.run
        (started n s) := by
  have hk? : ({ nd with recomputedAt := s.stabNum } : Node).kind? = some (.expert e) := by
    simp [Node.kind?, hx.valid, hx.kind]
  have hn' := started_getElem? n s nd hx.node
  unfold recomputeOne
  simp only [run_bind_get]
  cases hd : s.cfg.debug
  all_goals
    simp only [started, hd, Bool.false_eq_true, if_false, if_true, run_bind_modify,
      run_bind_bumpCounter, run_bind_get, run_bind_modNode] at hn' ⊢
    rw [run_bind_ok (run_getNode_some hn'), hk?]
    dsimp only
    rwx run_bind_getExpert er with hx.xrec
    rw [if_pos hinv]

/-- master equation of the expert branch (user-defined expert, no invalid children, no fault armed) -/
theorem recomputeOne_expert_run (env : Env) (fuel n : Nat) {s : State} {nd : Node} {e : Nat}
    {er : ExpertRec} (hx : IsExpert s n nd e er) (hpk : er.pk = none)
    (hp : s.panicCountdown = none) (hinv : ¬ er.numInvalidChildren > 0) :
    (recomputeOne env fuel n).run.run s =
      (maybeChangeValue env fuel n (expertResult env s (readyRec env s er))).run.run
        (logged [.inv s!"x{er.f}" n [] (expertResult env s (readyRec env s er)).render]
          (readyState env n e s er)) := by
  have hk? : ({ nd with recomputedAt := s.stabNum } : Node).kind? = some (.expert e) := by
    simp [Node.kind?, hx.valid, hx.kind]
  have hn' := started_getElem? n s nd hx.node
  have he0 : (started n s).experts[e]? = some er := hx.xrec
  have hp0 : (started n s).panicCountdown = none := hp
  have he1 : (putExpert e (resetRec er) (started n s)).experts[e]? = some (resetRec er) :=
    putExpert_get _ he0
  have hval1 : ∀ c, (putExpert e (resetRec er) (started n s)).value env c = s.value env c := by
    intro c; rw [putExpert_value, started_value]
  have hvalS : ∀ (l : List Event) (x : ExpertRec) (c : Nat),
      (putExpert e x (logged l (started n s))).value env c = s.value env c := by
    intro l x c; rw [putExpert_value, logged_value, started_value]
  have hput : ∀ (l : List Event) (x : ExpertRec),
      (putExpert e x (logged l (started n s))).experts[e]? = some x := by
    intro l x; exact putExpert_get (s := logged l (started n s)) x hx.xrec
  -- the tail: reading the record, the closure, the log line
  have tail : ∀ (d : ExpertRec → State → List (Option Val)) (g : ExpertRec → List (Option Val))
      (S : State) (r : ExpertRec), S.experts[e]? = some r → r.pk = none →
      S.panicCountdown = none →
      (do
        let er ← getExpert e
        let s ← get
        if er.pk.isNone = true then do
            tick
            let v ← expertValue env e (d er s) (g er)
            if er.pk.isNone = true then do
                logEv (Event.inv (toString "x" ++ toString er.f) n [] v.render)
                maybeChangeValue env fuel n v
              else maybeChangeValue env fuel n v
          else do
            let v ← expertValue env e (d er s) (g er)
            if er.pk.isNone = true then do
                logEv (Event.inv (toString "x" ++ toString er.f) n [] v.render)
                maybeChangeValue env fuel n v
              else maybeChangeValue env fuel n v : M (Option Nat)).run.run S =
        (maybeChangeValue env fuel n (env.expertFn r.f (d r S) (g r))).run.run
          (logged [.inv s!"x{r.f}" n [] (env.expertFn r.f (d r S) (g r)).render] S) := by
    intro d g S r hr hrpk hS
    have h1 : r.pk.isNone = true := by rw [hrpk]; rfl
    rw [run_bind_ok (run_getExpert_some hr), run_bind_get]
    simp only [h1, if_true]
    rw [run_bind_ok (run_tick_none S hS), run_bind_ok (expertValue_run env _ _ hr hrpk), run_bind_logEv]
    rfl
  unfold recomputeOne
  simp only [run_bind_get]
  cases hd : s.cfg.debug
  all_goals
    simp only [started, hd, Bool.false_eq_true, if_false, if_true, run_bind_modify,
      run_bind_bumpCounter, run_bind_get, run_bind_modNode, resetRec] at hn' he0 he1 hp0 hval1 hvalS hput tail ⊢
    rw [run_bind_ok (run_getNode_some hn'), hk?]
    dsimp only
    rwx run_bind_getExpert er with hx.xrec
    rw [if_neg hinv]
    rwx run_bind_getExpert er with hx.xrec
    rwx run_bind_modExpert er with hx.xrec
    cases hw : er.willFireAllCallbacks
    · simp only [Bool.false_eq_true, if_false]
      rw [tail _ _ _ (resetRec er)]
      rotate_left
      · exact he1
      · exact hpk
      · exact hp
      simp only [hval1, readyRec, readyState, hw, Bool.false_eq_true, if_false, started, hd, resetRec,
        expertResult, depValsOf]
      rfl
    · simp only [if_true]
      rw [run_bind_ok (run_getExpert_some he1), run_bind_ok (fireLoop_run env e _ _ _ he1 hpk hp0)]
      have hfa := fireAll_eq env e er.node er.children he1
      rw [hfa, logged_putExpert, putExpert_put]
      rw [fireRec_congr env s _ hval1, cbEvents_congr env s _ hval1]
      have hf := foldl_fireRec_fields env s er.children (resetRec er)
      rw [tail _ _ _ (er.children.foldl (fireRec env s) (resetRec er))]
      rotate_left
      · exact hput _ _
      · exact hf.2.2.2.2.2.1.trans hpk
      · exact hp
      have hf1 := hf.1
      simp only [resetRec] at hf1
      simp only [hvalS, readyRec, readyState, hw, if_true, started, hd, resetRec,
        expertResult, depValsOf, hf1]
      rfl

/-! ## `swap_remove` on lists -/

/-- `Vec::swap_remove(i)` written with `set`/`dropLast`: move the last element into position `i`, pop -/
def swapPop {α} [Inhabited α] (l : List α) (i : Nat) : List α :=
  (l.set i (l[l.length - 1]?.getD default)).dropLast

theorem swapPop_length {α} [Inhabited α] (l : List α) (i : Nat) : (swapPop l i).length = l.length - 1 := by
  simp [swapPop]

theorem set_perm_cons_eraseIdx {α} (l : List α) (i : Nat) (y : α) (hi : i < l.length) :
    (l.set i y).Perm (y :: l.eraseIdx i) := by
  induction l generalizing i with
  | nil => cases hi
  | cons a rest ih =>
    cases i with
    | zero => simp
    | succ k =>
      simp only [List.set_cons_succ, List.eraseIdx_cons_succ]
      exact ((ih k (by simpa using hi)).cons a).trans (List.Perm.swap y a _)

/-- as a multiset, `swap_remove(i)` removes exactly the element at position `i` -/
theorem swapPop_perm {α} [Inhabited α] (l : List α) (i : Nat) (hi : i < l.length) :
    (swapPop l i).Perm (l.eraseIdx i) := by
  rcases List.eq_nil_or_concat l with rfl | ⟨front, lst, h⟩
  · cases hi
  rw [List.concat_eq_append] at h
  subst h
  · have hlen : (front ++ [lst]).length - 1 = front.length := by simp
    have hlast : (front ++ [lst])[(front ++ [lst]).length - 1]?.getD default = lst := by
      rw [hlen]; simp
    unfold swapPop
    rw [hlast]
    by_cases hif : i < front.length
    · rw [List.set_append_left _ _ hif, List.dropLast_concat, List.eraseIdx_append_of_lt_length hif]
      exact (set_perm_cons_eraseIdx front i lst hif).trans (List.perm_append_singleton lst _).symm
    · have : i = front.length := by simp at hi; omega
      subst this
      rw [List.set_append_right _ _ (Nat.le_refl _), List.eraseIdx_append_of_length_le (Nat.le_refl _)]
      simp

theorem swapPop_getElem? {α} [Inhabited α] (l : List α) (i j : Nat) :
    (swapPop l i)[j]? =
      if j + 1 < l.length then (if j = i then some (l[l.length - 1]?.getD default) else l[j]?) else none := by
  unfold swapPop
  rw [List.getElem?_dropLast]
  simp only [List.length_set, List.getElem?_set]
  by_cases h1 : j + 1 < l.length
  · have h2 : j < l.length - 1 := by omega
    simp only [h1, h2, if_true]
    by_cases h3 : i = j
    · subst h3; simp [show i < l.length by omega]
    · simp [h3, Ne.symm h3]
  · have h2 : ¬ j < l.length - 1 := by omega
    simp [h1, h2]

/-- the model's `swapRemove` (`Vec::swap_remove`) is `swapPop` -/
theorem swapRemove_eq_swapPop {α} [Inhabited α] (l : List α) (i : Nat) (hi : i < l.length) :
    swapRemove l i = swapPop l i := by
  rcases List.eq_nil_or_concat l with rfl | ⟨front, lst, h⟩
  · cases hi
  rw [List.concat_eq_append] at h
  subst h
  · have hlen : (front ++ [lst]).length - 1 = front.length := by simp
    have hlast : (front ++ [lst])[(front ++ [lst]).length - 1]?.getD default = lst := by
      rw [hlen]; simp
    unfold swapRemove swapPop
    rw [hlast]
    simp only [List.getLast?_append, List.getLast?_singleton, Option.some_or]
    by_cases h : i + 1 = (front ++ [lst]).length
    · have : i = front.length := by simp at h; omega
      subst this
      simp
    · have hne : i ≠ front.length := by simp at h; omega
      simp [h, hne]

/-! ## (a) `expertRemoveDependency` on a node that is not necessary -/

theorem dropLast_set_last {α} (l : List α) (x : α) : (l.set (l.length - 1) x).dropLast = l.dropLast := by
  rw [List.dropLast_eq_take, List.dropLast_eq_take, List.length_set, List.take_set_of_le (Nat.le_refl _)]

theorem dropLast_set_set {α} (l : List α) (i : Nat) (x y : α) :
    ((l.set i x).set (l.length - 1) y).dropLast = (l.set i x).dropLast := by
  have := dropLast_set_last (l.set i x) y
  rwa [List.length_set] at this

theorem run_dassert_true (site : String) (s : State) : (dassert true site).run.run s = (.ok (), s) := by
  rw [run_dassert]; simp

/-- the last edge of the list (the one `swap_remove` moves into the hole) -/
def lastEdge (er : ExpertRec) : ExpertEdge := er.children[er.children.length - 1]?.getD default

/-- the record after `remove_dependency` of the edge at position `i` (dependency `dep`) -/
def removedRec (er : ExpertRec) (i dep : Nat) : ExpertRec :=
  { er with children := swapPop er.children i, forceStale := true,
            slots := er.slots.filter (·.1 != dep) }

theorem expertRemoveDependency_unnecessary (fuel n dep : Nat) {s : State} {nd : Node} {e : Nat} {er : ExpertRec}
    (hx : IsExpert s n nd e er) (hr : runningOk s n = true) {i : Nat}
    (hi : er.children.findIdx? (·.dep == dep) = some i) (hnec : nd.isNecessary = false) :
    (expertRemoveDependency fuel n dep).run.run s = (.ok (), putExpert e (removedRec er i dep) s) := by
  have hnec' : ∀ x, (putExpert e x s).isNecessary n = false := by
    intro x; simp [State.isNecessary, nodeD_of_some hx.node, hnec]
  have hnec0 : s.isNecessary n = false := by
    simp [State.isNecessary, nodeD_of_some hx.node, hnec]
  unfold expertRemoveDependency
  rw [run_bind_ok hx.run_expertOf]
  simp only
  rw [run_bind_ok (run_assertRunningIsChild_ok hr), run_bind_ok (run_getExpert_some hx.xrec), hi]
  simp only
  by_cases hne : (i != er.children.length - 1) = true
  · rw [if_pos hne, run_bind_get, hnec0]
    simp only [Bool.false_eq_true, if_false]
    rw [run_bind_ok (run_modExpert_some _ hx.xrec),
      run_bind_ok (run_modExpert_some _ (putExpert_get _ hx.xrec)), putExpert_put, run_bind_get,
      (hx.putExpert _).isStale_of_forceStale rfl, run_bind_ok (run_dassert_true _ _), run_bind_get, hnec']
    simp only [Bool.false_eq_true, if_false]
    rw [run_modExpert_some _ (putExpert_get _ hx.xrec), putExpert_put]
    simp only [removedRec, swapPop]
    rw [dropLast_set_set]
  · rw [if_neg hne]
    rw [run_bind_ok (run_modExpert_some _ hx.xrec), run_bind_get,
      (hx.putExpert _).isStale_of_forceStale rfl, run_bind_ok (run_dassert_true _ _), run_bind_get, hnec']
    simp only [Bool.false_eq_true, if_false]
    rw [run_modExpert_some _ (putExpert_get _ hx.xrec), putExpert_put]
    have hil : i = er.children.length - 1 := by simpa using hne
    simp only [removedRec, swapPop]
    rw [hil, dropLast_set_last]

/-! ## a frame for the notification part of a step: expert records only change in their slots -/

/-- `s'` agrees with `s` on the projection `g` -/
def Keeps {β} (g : State → β) (s s' : State) : Prop := g s' = g s

instance {β} (g : State → β) : PreOrd (Keeps g) := ⟨fun _ => rfl, fun h1 h2 => h2.trans h1⟩

def stripSlots (x : ExpertRec) : ExpertRec := { x with slots := [] }

/-- all expert records, slots erased -/
def xcore (s : State) : Array ExpertRec := s.experts.map stripSlots

theorem map_modify_of_fix {α β} (a : Array α) (i : Nat) (f : α → α) (g : α → β)
    (h : ∀ x, g (f x) = g x) : (a.modify i f).map g = a.map g := by
  apply Array.ext_getElem?
  intro j
  simp only [Array.getElem?_map, Array.getElem?_modify]
  split
  · cases a[j]? <;> simp [h]
  · rfl

macro_rules
  | `(tactic| qleaf) => `(tactic| ((with_reducible apply Pres.modify); intro _; exact (rfl : xcore _ = xcore _)))

theorem K.modExpert (e : Nat) (f : ExpertRec → ExpertRec) (hf : ∀ x, stripSlots (f x) = stripSlots x) :
    Pres (Keeps xcore) (modExpert e f) := by
  unfold Engine.modExpert
  apply Pres.modify
  intro s
  exact map_modify_of_fix s.experts e f stripSlots hf

theorem K.logEv (e) : Pres (Keeps xcore) (logEv e) := by unfold Engine.logEv; qpres
macro_rules | `(tactic| qleaf) => `(tactic| with_reducible apply K.logEv)
theorem K.modNode (n f) : Pres (Keeps xcore) (modNode n f) := by unfold Engine.modNode; qpres
macro_rules | `(tactic| qleaf) => `(tactic| with_reducible apply K.modNode)
theorem K.bumpCounter (f) : Pres (Keeps xcore) (bumpCounter f) := by unfold Engine.bumpCounter; qpres
macro_rules | `(tactic| qleaf) => `(tactic| with_reducible apply K.bumpCounter)
theorem K.tick : Pres (Keeps xcore) tick := by unfold Engine.tick; qpres
macro_rules | `(tactic| qleaf) => `(tactic| with_reducible apply K.tick)
theorem K.shouldCutoff (env n o v) : Pres (Keeps xcore) (shouldCutoff env n o v) := by
  unfold Engine.shouldCutoff; qpres
macro_rules | `(tactic| qleaf) => `(tactic| with_reducible apply K.shouldCutoff)
theorem K.edgeOnChange (env e edge) : Pres (Keeps xcore) (edgeOnChange env e edge) := by
  unfold Engine.edgeOnChange; qpres
  all_goals (apply K.modExpert; intro x; rfl)
macro_rules | `(tactic| qleaf) => `(tactic| with_reducible apply K.edgeOnChange)
theorem K.runEdgeCallback (env e i) : Pres (Keeps xcore) (runEdgeCallback env e i) := by
  unfold Engine.runEdgeCallback; qpres
macro_rules | `(tactic| qleaf) => `(tactic| with_reducible apply K.runEdgeCallback)
theorem K.handleAfterStabilisation (n) : Pres (Keeps xcore) (handleAfterStabilisation n) := by
  unfold Engine.handleAfterStabilisation; qpres
macro_rules | `(tactic| qleaf) => `(tactic| with_reducible apply K.handleAfterStabilisation)
theorem K.maybeHandleAfterStabilisation (n) : Pres (Keeps xcore) (maybeHandleAfterStabilisation n) := by
  unfold Engine.maybeHandleAfterStabilisation; qpres
macro_rules | `(tactic| qleaf) => `(tactic| with_reducible apply K.maybeHandleAfterStabilisation)
theorem K.rchMinHeight : Pres (Keeps xcore) rchMinHeight := by unfold Engine.rchMinHeight; qpres
macro_rules | `(tactic| qleaf) => `(tactic| with_reducible apply K.rchMinHeight)
theorem K.rchLink (n) : Pres (Keeps xcore) (rchLink n) := by unfold Engine.rchLink; qpres
macro_rules | `(tactic| qleaf) => `(tactic| with_reducible apply K.rchLink)
theorem K.rchInsert (n) : Pres (Keeps xcore) (rchInsert n) := by unfold Engine.rchInsert; qpres
macro_rules | `(tactic| qleaf) => `(tactic| with_reducible apply K.rchInsert)
theorem K.parentIterCanRecomputeNow (p child) : Pres (Keeps xcore) (parentIterCanRecomputeNow p child) := by
  unfold Engine.parentIterCanRecomputeNow; qpres
macro_rules | `(tactic| qleaf) => `(tactic| with_reducible apply K.parentIterCanRecomputeNow)

theorem K.childChanged (env : Env) (fuel p child ci : Nat) (o : Option Val) :
    Pres (Keeps xcore) (childChanged env fuel p child ci o) := by
  induction fuel generalizing p child ci o with
  | zero => unfold Engine.childChanged; qpres
  | succ fuel ih =>
    unfold Engine.childChanged
    qpres
    all_goals (apply Pres.forIn; intro a b; qpres; exact ih _ _ _ _)
macro_rules | `(tactic| qleaf) => `(tactic| with_reducible apply K.childChanged)

theorem K.maybeChangeValueManual (env fuel n o d r) :
    Pres (Keeps xcore) (maybeChangeValueManual env fuel n o d r) := by
  unfold Engine.maybeChangeValueManual
  qpres
  all_goals (apply Pres.forIn; intro a b; qpres)
macro_rules | `(tactic| qleaf) => `(tactic| with_reducible apply K.maybeChangeValueManual)

theorem K.maybeChangeValue (env fuel n v) : Pres (Keeps xcore) (maybeChangeValue env fuel n v) := by
  unfold Engine.maybeChangeValue; qpres

/-- reading a record through `xcore` -/
theorem xcore_get {s s' : State} (h : Keeps xcore s s') (e : Nat) :
    (s'.experts[e]?).map stripSlots = (s.experts[e]?).map stripSlots := by
  have := congrArg (fun a => a[e]?) h
  simpa [xcore, Array.getElem?_map] using this

/-- the dependency is not attached: hard panic, nothing changed -/
theorem expertRemoveDependency_not_attached (fuel n dep : Nat) {s : State} {nd : Node} {e : Nat}
    {er : ExpertRec} (hx : IsExpert s n nd e er) (hr : runningOk s n = true)
    (hi : er.children.findIdx? (·.dep == dep) = none) :
    (expertRemoveDependency fuel n dep).run.run s =
      (.error (.site "expert:remove_dependency:edge-not-attached"), s) := by
  unfold expertRemoveDependency
  rw [run_bind_ok hx.run_expertOf]
  simp only
  rw [run_bind_ok (run_assertRunningIsChild_ok hr), run_bind_ok (run_getExpert_some hx.xrec), hi]
  rfl

/-- debug build, not called from a child's recompute: panic, nothing changed -/
theorem expertRemoveDependency_assert_fails (fuel n dep : Nat) {s : State} {nd : Node} {e : Nat}
    {er : ExpertRec} (hx : IsExpert s n nd e er) (hr : runningOk s n = false) :
    ∃ p, (expertRemoveDependency fuel n dep).run.run s = (.error p, s) := by
  obtain ⟨p, hp⟩ := run_assertRunningIsChild_fail (name := "remove_dependency") hr
  refine ⟨p, ?_⟩
  unfold expertRemoveDependency
  rw [run_bind_ok hx.run_expertOf]
  simp only
  rw [run_bind, hp]

/-- on an invalid node or a non-expert `remove_dependency` does nothing -/
theorem expertRemoveDependency_invalid (fuel n dep : Nat) {s : State} {nd : Node}
    (hn : s.nodes[n]? = some nd) (hv : nd.valid = false) :
    (expertRemoveDependency fuel n dep).run.run s = (.ok (), s) := by
  unfold expertRemoveDependency
  rw [run_bind_ok (Xp.run_expertOf hn)]
  simp only [Node.kind?, hv, Bool.false_eq_true, if_false]
  rfl

/-! ## consequences for `removedRec` -/

/-- what `findIdx?` returns: the first edge named `dep` -/
theorem findIdx_facts (l : List ExpertEdge) (dep i : Nat)
    (h : l.findIdx? (·.dep == dep) = some i) :
    i < l.length ∧ (∃ edge, l[i]? = some edge ∧ edge.dep = dep) ∧
      ∀ j x, j < i → l[j]? = some x → x.dep ≠ dep := by
  rw [List.findIdx?_eq_some_iff_getElem] at h
  obtain ⟨hlt, hp, hbefore⟩ := h
  refine ⟨hlt, ⟨l[i], by simp [hlt], by simpa using hp⟩, ?_⟩
  intro j x hj hx
  have hjl : j < l.length := by omega
  have := hbefore j hj
  rw [List.getElem?_eq_getElem hjl] at hx
  cases hx
  simpa using this

/-- the dependency is attached iff `findIdx?` finds it -/
theorem findIdx_some_of_mem (l : List ExpertEdge) (dep : Nat) (h : ∃ x ∈ l, x.dep = dep) :
    ∃ i, l.findIdx? (·.dep == dep) = some i := by
  obtain ⟨x, hx, hd⟩ := h
  cases hf : l.findIdx? (·.dep == dep) with
  | some i => exact ⟨i, rfl⟩
  | none =>
    rw [List.findIdx?_eq_none_iff] at hf
    have := hf x hx
    simp [hd] at this

theorem removedRec_slots (er : ExpertRec) (i dep : Nat) :
    ∀ p ∈ (removedRec er i dep).slots, p.1 ≠ dep := by
  intro p hp
  simp only [removedRec, List.mem_filter] at hp
  simpa using hp.2

theorem removedRec_length (er : ExpertRec) (i dep : Nat) :
    (removedRec er i dep).children.length = er.children.length - 1 := swapPop_length _ _

theorem removedRec_perm (er : ExpertRec) (i dep : Nat) (hi : i < er.children.length) :
    (removedRec er i dep).children.Perm (er.children.eraseIdx i) := swapPop_perm _ _ hi

/-- with pairwise distinct dependency names, no remaining edge is named `dep` -/
theorem removedRec_no_dep (er : ExpertRec) (i dep : Nat)
    (hi : er.children.findIdx? (·.dep == dep) = some i)
    (hnd : (er.children.map (·.dep)).Nodup) :
    ∀ x ∈ (removedRec er i dep).children, x.dep ≠ dep := by
  obtain ⟨hlt, ⟨edge, hedge, hdep⟩, _⟩ := findIdx_facts _ _ _ hi
  intro x hx
  have hx' := (removedRec_perm er i dep hlt).mem_iff.1 hx
  rw [List.mem_eraseIdx_iff_getElem?] at hx'
  obtain ⟨j, hji, hj⟩ := hx'
  intro hxd
  have hjl : j < er.children.length := by
    rcases Nat.lt_or_ge j er.children.length with h | h
    · exact h
    · rw [List.getElem?_eq_none h] at hj; cases hj
  have h1 : (er.children.map (·.dep))[j]? = some dep := by simp [hj, hxd]
  have h2 : (er.children.map (·.dep))[i]? = some dep := by simp [hedge, hdep]
  have := (List.getElem?_inj (by simpa using hjl) hnd).1 (h1.trans h2.symm)
  exact hji this

/-! ## consequences of the master equation of the expert branch -/

theorem readyRec_fields (env : Env) (s : State) (er : ExpertRec) :
    let r := readyRec env s er
    r.f = er.f ∧ r.node = er.node ∧ r.children = er.children ∧ r.script = er.script ∧ r.sel = er.sel ∧
    r.pk = er.pk ∧ r.forceStale = false ∧ r.numInvalidChildren = er.numInvalidChildren ∧
    r.willFireAllCallbacks = false := by
  unfold readyRec
  split
  · exact foldl_fireRec_fields env s er.children (resetRec er)
  · exact ⟨rfl, rfl, rfl, rfl, rfl, rfl, rfl, rfl, rfl⟩

/-- "on the first recompute after the node became observed again, every dependency's callback has
been invoked with the child's current value" -/
theorem readyRec_slots (env : Env) (s : State) (er : ExpertRec) (hw : er.willFireAllCallbacks = true)
    (hnd : (er.children.map (·.dep)).Nodup) (edge : ExpertEdge) (v : Val)
    (hmem : edge ∈ er.children) (hcb : edge.cb.isSome = true) (hv : s.value env edge.child = some v) :
    (readyRec env s er).slots.lookup edge.dep = some v := by
  unfold readyRec
  rw [if_pos hw]
  exact foldl_fireRec_lookup env s er.children hnd _ edge v hmem hcb hv

/-- no "fire all" pending: the recompute closure sees the slots as they were -/
theorem readyRec_slots_unchanged (env : Env) (s : State) (er : ExpertRec)
    (hw : er.willFireAllCallbacks = false) : (readyRec env s er).slots = er.slots := by
  unfold readyRec
  simp [hw, resetRec]

/-- whatever `recompute_one` on a (user-defined, no invalid children) expert does afterwards, the
record of the expert ends up with `forceStale = false`, `willFireAllCallbacks = false`, the same edge
list and the same invalid-children count -/
theorem recomputeOne_expert_flags (env : Env) (fuel n : Nat) {s : State} {nd : Node} {e : Nat}
    {er : ExpertRec} (hx : IsExpert s n nd e er) (hpk : er.pk = none)
    (hp : s.panicCountdown = none) (hinv : ¬ er.numInvalidChildren > 0)
    (r : Except Panic (Option Nat)) (s' : State)
    (h : (recomputeOne env fuel n).run.run s = (r, s')) :
    ∃ er', s'.experts[e]? = some er' ∧ er'.forceStale = false ∧ er'.willFireAllCallbacks = false ∧
      er'.children = er.children ∧ er'.numInvalidChildren = er.numInvalidChildren ∧ er'.f = er.f := by
  rw [recomputeOne_expert_run env fuel n hx hpk hp hinv] at h
  have hk := (K.maybeChangeValue env fuel n _).h _ _ _ h
  have hg := xcore_get hk e
  have he : (logged [.inv s!"x{er.f}" n [] (expertResult env s (readyRec env s er)).render]
      (readyState env n e s er)).experts[e]? = some (readyRec env s er) := by
    exact putExpert_get (s := logged _ (started n s)) _ hx.xrec
  rw [he] at hg
  cases hs' : s'.experts[e]? with
  | none => rw [hs'] at hg; cases hg
  | some er' =>
    rw [hs'] at hg
    simp only [Option.map_some, Option.some.injEq] at hg
    obtain ⟨f1, _, f3, _, _, _, f7, f8, f9⟩ := readyRec_fields env s er
    have g : ∀ {α} (p : ExpertRec → α), (∀ x, p (stripSlots x) = p x) → p er' = p (readyRec env s er) := by
      intro α p hpx
      rw [← hpx er', hg, hpx]
    refine ⟨er', rfl, ?_, ?_, ?_, ?_, ?_⟩
    · rw [g (·.forceStale) (fun _ => rfl)]; exact f7
    · rw [g (·.willFireAllCallbacks) (fun _ => rfl)]; exact f9
    · rw [g (·.children) (fun _ => rfl)]; exact f3
    · rw [g (·.numInvalidChildren) (fun _ => rfl)]; exact f8
    · rw [g (·.f) (fun _ => rfl)]; exact f1

/-! ## (a) `expertRemoveDependency` on a necessary node -/

/-- the simultaneous renaming `(n,i) ↔ (n,j)` of parent-list entries -/
def renameIdx (n i j : Nat) (pc : Nat × Nat) : Nat × Nat :=
  if pc == (n, i) then (n, j) else if pc == (n, j) then (n, i) else pc

def renameNode (n i j : Nat) (x : Node) : Node := { x with parents := x.parents.map (renameIdx n i j) }

/-- the node array after `swapEdgeIndices n c1 i c2 j`: the renaming is applied to `c1`'s list and, if
it is a different node, to `c2`'s list — once each (repaired D8: also once when `c1 = c2`) -/
def renameAt (n i j c : Nat) (s : State) : State :=
  { s with nodes := s.nodes.modify c (renameNode n i j) }

def swappedIdx (n c1 i c2 j : Nat) (s : State) : State :=
  if c2 != c1 then renameAt n i j c2 (renameAt n i j c1 s) else renameAt n i j c1 s

theorem renameAt_nodeD (n i j c : Nat) (s : State) (m : Nat) :
    (renameAt n i j c s).nodeD m =
      if c = m ∧ m < s.nodes.size then renameNode n i j (s.nodeD m) else s.nodeD m :=
  nodeD_modify s c m _

theorem swapEdgeIndices_run (n c1 i c2 j : Nat) (s : State) :
    (swapEdgeIndices n c1 i c2 j).run.run s = (.ok (), swappedIdx n c1 i c2 j s) := by
  unfold swapEdgeIndices swappedIdx
  simp only [run_bind_modNode]
  cases h : (c2 != c1)
  · simp only [Bool.false_eq_true, if_false]; rfl
  · simp only [if_true]; rfl

theorem removeParent_run {child index parent : Nat} {s : State} {cnd : Node}
    (hn : s.nodes[child]? = some cnd) :
    (removeParent child index parent).run.run s =
      match cnd.parents.idxOf? (parent, index) with
      | none => (.error (.site "node:remove_parent:not-a-parent"), s)
      | some pi => (.ok (), { s with nodes := s.nodes.modify child fun x =>
          { x with parents := swapRemove x.parents pi } }) := by
  unfold removeParent
  rw [run_bind_ok (run_getNode_some hn)]
  cases cnd.parents.idxOf? (parent, index) <;> rfl

theorem checkIfUnnecessary_noop (fuel c : Nat) (s : State) (h : s.isNecessary c = true) :
    (checkIfUnnecessary (fuel + 1) c).run.run s = (.ok (), s) := by
  unfold checkIfUnnecessary
  rw [run_bind_get]
  simp only [h, Bool.not_true, Bool.false_eq_true, if_false]
  rfl

/-- the tail of `expert_remove_dependency` on a necessary node, after the `check_if_unnecessary` call -/
def rmFinish (n e child dep : Nat) : M Unit := do
  if !(← getNode n).inRch then rchInsert n
  if !(← getNode child).valid then
    modExpert e fun x => { x with numInvalidChildren := x.numInvalidChildren - 1 }
  modExpert e fun x => { x with children := x.children.dropLast, forceStale := true,
                                slots := x.slots.filter (·.1 != dep) }

/-- both swapped positions exchanged (the removed edge is now last) -/
def swapToEnd (l : List ExpertEdge) (i : Nat) : List ExpertEdge :=
  (l.set i (l[l.length - 1]?.getD default)).set (l.length - 1) (l[i]?.getD default)

theorem swapToEnd_last (l : List ExpertEdge) (i : Nat) (hi : i < l.length) (h : i = l.length - 1) :
    swapToEnd l i = l := by
  unfold swapToEnd
  subst h
  rw [List.set_set]
  apply List.ext_getElem?
  intro j
  rw [List.getElem?_set]
  split
  · rename_i hj; subst hj; simp [hi]
  · rfl

theorem swapToEnd_dropLast (l : List ExpertEdge) (i : Nat) : (swapToEnd l i).dropLast = swapPop l i :=
  dropLast_set_set l i _ _

/-- the state in which `remove_parent` runs: indices renamed (if the edge is not last), the removed
edge moved to the end of the list, `forceStale` set -/
def rmPrepared (n e : Nat) (er : ExpertRec) (i : Nat) (s : State) : State :=
  putExpert e { er with children := swapToEnd er.children i, forceStale := true }
    (if (i != er.children.length - 1) = true then
      swappedIdx n (er.children[i]?.getD default).child i
        (er.children[er.children.length - 1]?.getD default).child (er.children.length - 1) s
     else s)

theorem renameNode_isNecessary (n i j : Nat) (x : Node) : (renameNode n i j x).isNecessary = x.isNecessary := by
  simp [renameNode, Node.isNecessary]

theorem swappedIdx_nodeD (n c1 i c2 j : Nat) (s : State) (m : Nat) :
    (swappedIdx n c1 i c2 j s).nodeD m =
      if (m = c1 ∨ m = c2) ∧ m < s.nodes.size then renameNode n i j (s.nodeD m) else s.nodeD m := by
  unfold swappedIdx
  have hsz : (renameAt n i j c1 s).nodes.size = s.nodes.size := by simp [renameAt]
  by_cases h : (c2 != c1) = true
  · have hne : c2 ≠ c1 := by simpa using h
    simp only [h, if_true]
    rw [renameAt_nodeD, renameAt_nodeD, hsz]
    by_cases hm2 : c2 = m
    · subst hm2
      have : ¬ (c1 = c2) := fun h => hne h.symm
      simp [this]
    · by_cases hm1 : c1 = m
      · subst hm1; simp [hm2]
      · simp [hm1, hm2, Ne.symm hm1, Ne.symm hm2]
  · have he : c2 = c1 := by simpa using h
    have h' : (c2 != c1) = false := by simpa using h
    simp only [h', Bool.false_eq_true, if_false]
    rw [renameAt_nodeD]
    subst he
    by_cases hm : c2 = m
    · subst hm; simp
    · simp [hm, Ne.symm hm]

theorem swappedIdx_size (n c1 i c2 j : Nat) (s : State) :
    (swappedIdx n c1 i c2 j s).nodes.size = s.nodes.size := by
  unfold swappedIdx; split <;> simp [renameAt]

theorem swappedIdx_isNecessary (n c1 i c2 j : Nat) (s : State) (m : Nat) :
    (swappedIdx n c1 i c2 j s).isNecessary m = s.isNecessary m := by
  simp only [State.isNecessary, swappedIdx_nodeD]
  split
  · exact renameNode_isNecessary ..
  · rfl

theorem swappedIdx_experts (n c1 i c2 j : Nat) (s : State) :
    (swappedIdx n c1 i c2 j s).experts = s.experts := by
  unfold swappedIdx; split <;> rfl

theorem swappedIdx_cfg (n c1 i c2 j : Nat) (s : State) : (swappedIdx n c1 i c2 j s).cfg = s.cfg := by
  unfold swappedIdx; split <;> rfl

/-- node `n` is still the same valid expert after the renaming -/
theorem IsExpert.swappedIdx {s : State} {n : Nat} {nd : Node} {e : Nat} {er : ExpertRec}
    (hx : IsExpert s n nd e er) (n' c1 i c2 j : Nat) :
    ∃ nd', IsExpert (Xp.swappedIdx n' c1 i c2 j s) n nd' e er ∧ nd'.isNecessary = nd.isNecessary ∧
      nd'.inRch = nd.inRch ∧ nd'.height = nd.height := by
  have hlt := lt_of_some hx.node
  have hlt' : n < (Xp.swappedIdx n' c1 i c2 j s).nodes.size := by rw [swappedIdx_size]; exact hlt
  have hnd : (Xp.swappedIdx n' c1 i c2 j s).nodeD n =
      if (n = c1 ∨ n = c2) ∧ n < s.nodes.size then renameNode n' i j nd else nd := by
    rw [swappedIdx_nodeD, nodeD_of_some hx.node]
  refine ⟨(Xp.swappedIdx n' c1 i c2 j s).nodeD n, ⟨some_of_lt hlt', ?_, ?_, ?_⟩, ?_, ?_, ?_⟩
  · rw [hnd]; split <;> exact hx.valid
  · rw [hnd]; split <;> exact hx.kind
  · rw [swappedIdx_experts]; exact hx.xrec
  · rw [hnd]; split
    · exact renameNode_isNecessary ..
    · rfl
  · rw [hnd]; split <;> rfl
  · rw [hnd]; split <;> rfl

theorem expertRemoveDependency_necessary (fuel n dep : Nat) {s : State} {nd : Node} {e : Nat}
    {er : ExpertRec} (hx : IsExpert s n nd e er) (hr : runningOk s n = true) {i : Nat}
    (hi : er.children.findIdx? (·.dep == dep) = some i) (hnec : nd.isNecessary = true) :
    (expertRemoveDependency fuel n dep).run.run s =
      (do removeParent (er.children[i]?.getD default).child (er.children.length - 1) n
          checkIfUnnecessary fuel (er.children[i]?.getD default).child
          rmFinish n e (er.children[i]?.getD default).child dep : M Unit).run.run
        (rmPrepared n e er i s) := by
  have hnec0 : s.isNecessary n = true := by
    simp [State.isNecessary, nodeD_of_some hx.node, hnec]
  obtain ⟨hlt, _, _⟩ := findIdx_facts _ _ _ hi
  unfold expertRemoveDependency
  rw [run_bind_ok hx.run_expertOf]
  simp only
  rw [run_bind_ok (run_assertRunningIsChild_ok hr), run_bind_ok (run_getExpert_some hx.xrec), hi]
  simp only
  by_cases hne : (i != er.children.length - 1) = true
  · obtain ⟨nd', hx', hnec', _, _⟩ := hx.swappedIdx n (er.children[i]?.getD default).child i
      (er.children[er.children.length - 1]?.getD default).child (er.children.length - 1)
    rw [if_pos hne, run_bind_get, hnec0]
    simp only [if_true]
    rw [run_bind_ok (swapEdgeIndices_run ..), run_bind_ok (run_modExpert_some _ hx'.xrec),
      run_bind_ok (run_modExpert_some _ (putExpert_get _ hx'.xrec)), putExpert_put, run_bind_get,
      (hx'.putExpert _).isStale_of_forceStale rfl, run_bind_ok (run_dassert_true _ _), run_bind_get]
    have hn1 : ∀ x, (putExpert e x (swappedIdx n (er.children[i]?.getD default).child i
        (er.children[er.children.length - 1]?.getD default).child (er.children.length - 1) s)).isNecessary n
        = true := by
      intro x; rw [putExpert_isNecessary, swappedIdx_isNecessary]; exact hnec0
    rw [hn1]
    simp only [if_true]
    unfold rmPrepared rmFinish
    rw [if_pos hne]
    rfl
  · rw [if_neg hne]
    rw [run_bind_ok (run_modExpert_some _ hx.xrec), run_bind_get,
      (hx.putExpert _).isStale_of_forceStale rfl, run_bind_ok (run_dassert_true _ _), run_bind_get]
    have hn1 : ∀ x, (putExpert e x s).isNecessary n = true := by
      intro x; rw [putExpert_isNecessary]; exact hnec0
    rw [hn1]
    simp only [if_true]
    have hil : i = er.children.length - 1 := by simpa using hne
    unfold rmPrepared rmFinish
    rw [if_neg hne, swapToEnd_last _ _ hlt hil]

/-- the record `rmFinish` leaves: count of invalid children decremented iff the removed child is
invalid (repaired D6), last edge popped, `forceStale`, slots of `dep` dropped -/
def finishRec (r : ExpertRec) (childInvalid : Bool) (dep : Nat) : ExpertRec :=
  { r with numInvalidChildren := if childInvalid then r.numInvalidChildren - 1 else r.numInvalidChildren,
           children := r.children.dropLast, forceStale := true,
           slots := r.slots.filter (·.1 != dep) }

/-- the second half of `rmFinish` (after the heap insertion) -/
theorem rmFinish_tail_run {S : State} {e child dep : Nat} {r : ExpertRec} {cnd : Node}
    (hr : S.experts[e]? = some r) (hc : S.nodes[child]? = some cnd) :
    (do
      if !(← getNode child).valid then
        modExpert e fun x => { x with numInvalidChildren := x.numInvalidChildren - 1 }
      modExpert e fun x => { x with children := x.children.dropLast, forceStale := true,
                                    slots := x.slots.filter (·.1 != dep) } : M Unit).run.run S =
      (.ok (), putExpert e (finishRec r (!cnd.valid) dep) S) := by
  rw [run_bind_ok (run_getNode_some hc)]
  cases hv : cnd.valid
  · simp only [Bool.not_false, if_true]
    rw [run_bind_ok (run_modExpert_some _ hr), run_modExpert_some _ (putExpert_get _ hr), putExpert_put]
    rfl
  · simp only [Bool.not_true, Bool.false_eq_true, if_false, pure_bind]
    rw [run_modExpert_some _ hr]
    rfl

/-- `rmFinish` when `n` is already in the recompute heap -/
theorem rmFinish_run_queued {S : State} {n e child dep : Nat} {ndn : Node} {r : ExpertRec} {cnd : Node}
    (hn : S.nodes[n]? = some ndn) (hq : ndn.inRch = true)
    (hr : S.experts[e]? = some r) (hc : S.nodes[child]? = some cnd) :
    (rmFinish n e child dep).run.run S = (.ok (), putExpert e (finishRec r (!cnd.valid) dep) S) := by
  unfold rmFinish
  rw [run_bind_ok (run_getNode_some hn)]
  simp only [hq, Bool.not_true, Bool.false_eq_true, if_false, pure_bind]
  exact rmFinish_tail_run hr hc

/-- `rmFinish` when `n` has to be inserted -/
theorem rmFinish_run_insert {S : State} {n e child dep : Nat} {ndn : Node} {r : ExpertRec} {cnd : Node}
    (hn : S.nodes[n]? = some ndn) (hq : ndn.inRch = false)
    (hr : S.experts[e]? = some r) (hc : S.nodes[child]? = some cnd) :
    (rmFinish n e child dep).run.run S =
      match (rchInsert n).run.run S with
      | (.error p, S') => (.error p, S')
      | (.ok _, _) => (.ok (), putExpert e (finishRec r (!cnd.valid) dep) (inserted n ndn.height S)) := by
  unfold rmFinish
  rw [run_bind_ok (run_getNode_some hn)]
  simp only [hq, Bool.not_false, if_true]
  rw [run_bind]
  rcases hins : (rchInsert n).run.run S with ⟨_ | u, S'⟩
  · rfl
  · obtain ⟨nd1, hn1, _, _, rfl⟩ := rchInsert_ok_inv hins
    rw [hn] at hn1; cases hn1
    have hc' : (inserted n ndn.height S).nodes[child]? =
        some (if n = child then { cnd with heightInRch := ndn.height } else cnd) := by
      simp only [inserted, Array.getElem?_modify, hc]
      split <;> simp
    have hr' : (inserted n ndn.height S).experts[e]? = some r := hr
    have := rmFinish_tail_run (dep := dep) hr' hc'
    refine this.trans ?_
    split <;> rfl

/-- node `m` of the prepared state -/
def prepNode (n : Nat) (er : ExpertRec) (i m : Nat) (x : Node) : Node :=
  if (i != er.children.length - 1) = true ∧
      (m = (er.children[i]?.getD default).child ∨
        m = (er.children[er.children.length - 1]?.getD default).child) then
    renameNode n i (er.children.length - 1) x
  else x

theorem rmPrepared_nodeD (n e : Nat) (er : ExpertRec) (i : Nat) (s : State) (m : Nat) :
    (rmPrepared n e er i s).nodeD m = if m < s.nodes.size then prepNode n er i m (s.nodeD m) else s.nodeD m := by
  unfold rmPrepared prepNode
  rw [putExpert_nodeD]
  by_cases hne : (i != er.children.length - 1) = true
  · simp only [hne, if_true, true_and]
    rw [swappedIdx_nodeD]
    by_cases hlt : m < s.nodes.size
    · simp [hlt]
    · simp [hlt]
  · simp [hne]

theorem rmPrepared_size (n e : Nat) (er : ExpertRec) (i : Nat) (s : State) :
    (rmPrepared n e er i s).nodes.size = s.nodes.size := by
  unfold rmPrepared
  show (ite _ _ _ : State).nodes.size = _
  split
  · exact swappedIdx_size ..
  · rfl

theorem rmPrepared_node {n e : Nat} {er : ExpertRec} {i : Nat} {s : State} {m : Nat} {x : Node}
    (h : s.nodes[m]? = some x) : (rmPrepared n e er i s).nodes[m]? = some (prepNode n er i m x) := by
  have hlt := lt_of_some h
  have hlt' : m < (rmPrepared n e er i s).nodes.size := by rw [rmPrepared_size]; exact hlt
  rw [some_of_lt hlt', rmPrepared_nodeD, if_pos hlt, nodeD_of_some h]

theorem rmPrepared_expert {n e : Nat} {er : ExpertRec} {i : Nat} {s : State}
    (h : s.experts[e]? = some er) :
    (rmPrepared n e er i s).experts[e]? =
      some { er with children := swapToEnd er.children i, forceStale := true } := by
  unfold rmPrepared
  apply putExpert_get
  · show (ite _ _ _ : State).experts[e]? = some er
    split
    · rw [swappedIdx_experts]; exact h
    · exact h

/-- `remove_parent` of the (renamed) entry, as a state transformer -/
def parentRemoved (c pi : Nat) (S : State) : State :=
  { S with nodes := S.nodes.modify c fun x => { x with parents := swapRemove x.parents pi } }

theorem renameIdx_invol (n i j : Nat) (pc : Nat × Nat) : renameIdx n i j (renameIdx n i j pc) = pc := by
  unfold renameIdx
  by_cases h1 : pc = (n, i)
  · subst h1
    by_cases hij : i = j
    · subst hij; simp
    · have : ((n, j) == (n, i)) = false := by simp; omega
      simp [this]
  · by_cases h2 : pc = (n, j)
    · subst h2
      have : ((n, j) == (n, i)) = false := by simpa using h1
      simp [this]
    · have e1 : (pc == (n, i)) = false := by simpa using h1
      have e2 : (pc == (n, j)) = false := by simpa using h2
      simp [e1, e2]

theorem renameIdx_inj (n i j : Nat) {a b : Nat × Nat} (h : renameIdx n i j a = renameIdx n i j b) : a = b := by
  have := congrArg (renameIdx n i j) h
  rwa [renameIdx_invol, renameIdx_invol] at this

theorem renameIdx_left (n i j : Nat) : renameIdx n i j (n, i) = (n, j) := by simp [renameIdx]

theorem idxOf?_map_inj {α} [BEq α] [LawfulBEq α] (f : α → α) (hf : ∀ a b, f a = f b → a = b) (a : α) (l : List α) :
    (l.map f).idxOf? (f a) = l.idxOf? a := by
  induction l with
  | nil => rfl
  | cons x rest ih =>
    simp only [List.map_cons, List.idxOf?_cons]
    by_cases hx : x = a
    · subst hx; simp
    · have h1 : (x == a) = false := by simpa using hx
      have h2 : (f x == f a) = false := by
        simp only [beq_eq_false_iff_ne, ne_eq]
        intro h; exact hx (hf _ _ h)
      simp [h1, h2, ih]

/-- where `remove_parent` finds the entry: at the position of `(n, i)` in the child's original list -/
theorem prepNode_idxOf (n : Nat) (er : ExpertRec) (i : Nat) (cnd : Node) :
    (prepNode n er i (er.children[i]?.getD default).child cnd).parents.idxOf? (n, er.children.length - 1) =
      cnd.parents.idxOf? (n, i) := by
  unfold prepNode
  by_cases hne : (i != er.children.length - 1) = true
  · simp only [hne, true_or, and_self, if_true, renameNode]
    rw [← renameIdx_left n i (er.children.length - 1)]
    exact idxOf?_map_inj _ (fun a b => renameIdx_inj n i _) _ _
  · have : i = er.children.length - 1 := by simpa using hne
    rw [if_neg (fun h => hne h.1), ← this]

/-- `remove_parent` on the prepared state -/
theorem rmPrepared_removeParent {n e : Nat} {er : ExpertRec} {i : Nat} {s : State} {cnd : Node}
    (hc : s.nodes[(er.children[i]?.getD default).child]? = some cnd) :
    (removeParent (er.children[i]?.getD default).child (er.children.length - 1) n).run.run
        (rmPrepared n e er i s) =
      match cnd.parents.idxOf? (n, i) with
      | none => (.error (.site "node:remove_parent:not-a-parent"), rmPrepared n e er i s)
      | some pi => (.ok (), parentRemoved (er.children[i]?.getD default).child pi (rmPrepared n e er i s)) := by
  rw [removeParent_run (rmPrepared_node hc), prepNode_idxOf]
  rfl

/-- the child keeps another reason to be necessary: the whole call is the prepared state, the parent
entry removed, and the tail `rmFinish` (the `check_if_unnecessary` cascade does not start) -/
theorem expertRemoveDependency_necessary_stays (fuel n dep : Nat) {s : State} {nd : Node} {e : Nat}
    {er : ExpertRec} (hx : IsExpert s n nd e er) (hr : runningOk s n = true) {i : Nat}
    (hi : er.children.findIdx? (·.dep == dep) = some i) (hnec : nd.isNecessary = true)
    {cnd : Node} (hc : s.nodes[(er.children[i]?.getD default).child]? = some cnd) {pi : Nat}
    (hpi : cnd.parents.idxOf? (n, i) = some pi)
    (hstay : (parentRemoved (er.children[i]?.getD default).child pi (rmPrepared n e er i s)).isNecessary
      (er.children[i]?.getD default).child = true) :
    (expertRemoveDependency (fuel + 1) n dep).run.run s =
      (rmFinish n e (er.children[i]?.getD default).child dep).run.run
        (parentRemoved (er.children[i]?.getD default).child pi (rmPrepared n e er i s)) := by
  rw [expertRemoveDependency_necessary (fuel + 1) n dep hx hr hi hnec,
    run_bind_ok (by rw [rmPrepared_removeParent hc, hpi]),
    run_bind_ok (checkIfUnnecessary_noop fuel _ _ hstay)]

/-- not listed as a parent by the child (asymmetric edge): hard panic in `remove_parent` -/
theorem expertRemoveDependency_necessary_asym (fuel n dep : Nat) {s : State} {nd : Node} {e : Nat}
    {er : ExpertRec} (hx : IsExpert s n nd e er) (hr : runningOk s n = true) {i : Nat}
    (hi : er.children.findIdx? (·.dep == dep) = some i) (hnec : nd.isNecessary = true)
    {cnd : Node} (hc : s.nodes[(er.children[i]?.getD default).child]? = some cnd)
    (hpi : cnd.parents.idxOf? (n, i) = none) :
    (expertRemoveDependency fuel n dep).run.run s =
      (.error (.site "node:remove_parent:not-a-parent"), rmPrepared n e er i s) := by
  rw [expertRemoveDependency_necessary fuel n dep hx hr hi hnec, run_bind, rmPrepared_removeParent hc, hpi]

/-! ### after `rmFinish` the node is in the recompute heap -/

macro_rules
  | `(tactic| qleaf) =>
    `(tactic| ((with_reducible apply Pres.modify); intro _; exact (rfl : State.nodes _ = State.nodes _)))

theorem KN.modExpert (e f) : Pres (Keeps State.nodes) (modExpert e f) := by unfold Engine.modExpert; qpres
macro_rules | `(tactic| qleaf) => `(tactic| with_reducible apply KN.modExpert)

theorem rmFinish_inHeap {S S' : State} {n e child dep : Nat}
    (h : (rmFinish n e child dep).run.run S = (.ok (), S')) :
    n < S'.nodes.size ∧ (S'.nodeD n).inRch = true := by
  have hk : Pres (Keeps State.nodes) (do
      if !(← getNode child).valid then
        modExpert e fun x => { x with numInvalidChildren := x.numInvalidChildren - 1 }
      modExpert e fun x => { x with children := x.children.dropLast, forceStale := true,
                                    slots := x.slots.filter (·.1 != dep) } : M Unit) := by
    qpres
  unfold rmFinish at h
  dsimp only at h
  obtain ⟨ndn, S0, h0, h2⟩ := bind_ok_inv h
  obtain ⟨hS0, hn⟩ := getNode_ok_inv h0
  subst hS0
  by_cases hq : ndn.inRch = true
  · simp only [hq, Bool.not_true, Bool.false_eq_true, if_false] at h2
    have hnodes : S'.nodes = S0.nodes := hk.h _ _ _ h2
    have key : n < S0.nodes.size ∧ (S0.nodeD n).inRch = true :=
      ⟨lt_of_some hn, by rw [nodeD_of_some hn]; exact hq⟩
    simpa [State.nodeD, hnodes] using key
  · have hq' : ndn.inRch = false := by simpa using hq
    simp only [hq', Bool.not_false, if_true] at h2
    obtain ⟨u, S1, h1, h3⟩ := bind_ok_inv h2
    have hnodes : S'.nodes = S1.nodes := hk.h _ _ _ h3
    have key := rchInsert_ok_inRch h1
    simpa [State.nodeD, hnodes] using key

/-! ### edge symmetry is preserved (repaired D8, duplicates on one child included) -/

/-- edge symmetry of expert node `n` with edge list `L`: node `c` lists `(n, j)` exactly once if edge
`j` points at `c`, and not at all otherwise.  (As multisets: the `(n, ·)` entries across all nodes are
exactly `{(n, j) | j < L.length}`, entry `(n, j)` sitting in the list of `L[j].child`.) -/
def EdgeSym (s : State) (n : Nat) (L : List ExpertEdge) : Prop :=
  ∀ c j, (s.nodeD c).parents.count (n, j) = if (L[j]?.map (·.child)) = some c then 1 else 0

/-- the transposition `(i k)` on indices -/
def swapNat (i k j : Nat) : Nat := if j = i then k else if j = k then i else j

theorem renameIdx_same (n i k j : Nat) : renameIdx n i k (n, j) = (n, swapNat i k j) := by
  unfold renameIdx swapNat
  by_cases h1 : j = i
  · simp [h1]
  · by_cases h2 : j = k
    · subst h2
      have : ¬ i = j := fun h => h1 h.symm
      simp [h1, this]
    · simp [h1, h2]

theorem count_map_invol {α} [BEq α] [LawfulBEq α] (f : α → α) (hf : ∀ a, f (f a) = a) (a : α) (l : List α) :
    (l.map f).count a = l.count (f a) := by
  induction l with
  | nil => rfl
  | cons x rest ih =>
    simp only [List.map_cons, List.count_cons, ih]
    congr 1
    by_cases h : x = f a
    · subst h; simp [hf]
    · have h1 : (x == f a) = false := by simpa using h
      have h2 : (f x == a) = false := by
        simp only [beq_eq_false_iff_ne, ne_eq]
        intro h'; apply h; rw [← h', hf]
      simp [h1, h2]

theorem count_eraseIdx_getElem {α} [BEq α] [LawfulBEq α] (l : List α) (k : Nat) (hk : k < l.length) (a : α) :
    (l.eraseIdx k).count a + (if (l[k] == a) = true then 1 else 0) = l.count a := by
  induction l generalizing k with
  | nil => cases hk
  | cons x rest ih =>
    cases k with
    | zero =>
      simp only [List.eraseIdx_cons_zero, List.getElem_cons_zero, List.count_cons]
    | succ k =>
      simp only [List.eraseIdx_cons_succ, List.getElem_cons_succ, List.count_cons]
      have := ih k (by simpa using hk)
      omega

theorem idxOf?_some {α} [BEq α] [LawfulBEq α] (l : List α) (x : α) (k : Nat) (h : l.idxOf? x = some k) :
    ∃ hk : k < l.length, l[k] = x := by
  unfold List.idxOf? at h
  rw [List.findIdx?_eq_some_iff_getElem] at h
  obtain ⟨hk, hp, _⟩ := h
  exact ⟨hk, by simpa using hp⟩

theorem count_swapRemove {α} [BEq α] [LawfulBEq α] [Inhabited α] (l : List α) (x : α) (k : Nat)
    (h : l.idxOf? x = some k) (a : α) :
    (swapRemove l k).count a + (if (x == a) = true then 1 else 0) = l.count a := by
  obtain ⟨hk, hx⟩ := idxOf?_some l x k h
  rw [swapRemove_eq_swapPop l k hk, (swapPop_perm l k hk).count_eq, ← hx]
  exact count_eraseIdx_getElem l k hk a

theorem swapToEnd_getElem? (l : List ExpertEdge) (i : Nat) (hi : i < l.length) (j : Nat) :
    (swapToEnd l i)[j]? = l[swapNat i (l.length - 1) j]? := by
  unfold swapToEnd swapNat
  have hl : l.length - 1 < l.length := by omega
  simp only [List.getElem?_set, List.length_set]
  by_cases h2 : l.length - 1 = j
  · subst h2
    simp only [if_true, hl]
    by_cases h1 : l.length - 1 = i
    · simp [h1, hi]
    · have : ¬ i = l.length - 1 := fun h => h1 h.symm
      simp [h1, hi]
  · have h2' : ¬ j = l.length - 1 := fun h => h2 h.symm
    simp only [h2, if_false, h2']
    by_cases h1 : i = j
    · subst h1; simp [hi, hl]
    · have h1' : ¬ j = i := fun h => h1 h.symm
      simp [h1, h1']

theorem swapToEnd_length (l : List ExpertEdge) (i : Nat) : (swapToEnd l i).length = l.length := by
  simp [swapToEnd]

/-- step A: after the renaming, edge symmetry holds for the swapped edge list -/
theorem EdgeSym.prepared {s : State} {n e : Nat} {er : ExpertRec} {i : Nat}
    (h : EdgeSym s n er.children) (hi : i < er.children.length) :
    EdgeSym (rmPrepared n e er i s) n (swapToEnd er.children i) := by
  intro m j
  rw [rmPrepared_nodeD, swapToEnd_getElem? _ _ hi]
  have hdef : ∀ k, (s.nodeD m).parents.count (n, k) =
      if (er.children[k]?.map (·.child)) = some m then 1 else 0 := fun k => h m k
  have hl : er.children.length - 1 < er.children.length := by omega
  by_cases hne : (i != er.children.length - 1) = true
  · -- in every node, the count of `(n, j)` is now the old count of `(n, σ j)`
    have hni : ¬ i = er.children.length - 1 := by simpa using hne
    have key : (if m < s.nodes.size then prepNode n er i m (s.nodeD m) else s.nodeD m).parents.count (n, j) =
        (s.nodeD m).parents.count (n, swapNat i (er.children.length - 1) j) := by
      unfold prepNode
      by_cases hm : m < s.nodes.size ∧ (m = (er.children[i]?.getD default).child ∨
          m = (er.children[er.children.length - 1]?.getD default).child)
      · rw [if_pos hm.1, if_pos ⟨hne, hm.2⟩]
        simp only [renameNode]
        rw [count_map_invol _ (renameIdx_invol n i _), renameIdx_same]
      · have hP : (if m < s.nodes.size then
            (if (i != er.children.length - 1) = true ∧ (m = (er.children[i]?.getD default).child ∨
                m = (er.children[er.children.length - 1]?.getD default).child) then
              renameNode n i (er.children.length - 1) (s.nodeD m) else s.nodeD m)
            else s.nodeD m) = s.nodeD m := by
          split
          · rw [if_neg]; intro hh; exact hm ⟨by assumption, hh.2⟩
          · rfl
        rw [hP]
        -- `m` is not one of the two children, or does not exist: both counts agree
        by_cases hlt : m < s.nodes.size
        · have hm' : ¬ (m = (er.children[i]?.getD default).child ∨
              m = (er.children[er.children.length - 1]?.getD default).child) := fun hh => hm ⟨hlt, hh⟩
          have hc1 : ¬ (er.children[i]?.map (·.child)) = some m := by
            intro hh; apply hm'; left
            rw [List.getElem?_eq_getElem hi] at hh ⊢
            simpa using hh.symm
          have hc2 : ¬ (er.children[er.children.length - 1]?.map (·.child)) = some m := by
            intro hh; apply hm'; right
            rw [List.getElem?_eq_getElem hl] at hh ⊢
            simpa using hh.symm
          unfold swapNat
          by_cases hj1 : j = i
          · subst hj1; rw [if_pos rfl, hdef, hdef, if_neg hc1, if_neg hc2]
          · rw [if_neg hj1]
            by_cases hj2 : j = er.children.length - 1
            · subst hj2; rw [if_pos rfl, hdef, hdef, if_neg hc1, if_neg hc2]
            · rw [if_neg hj2]
        · have : s.nodeD m = default := by
            simp [State.nodeD, Array.getElem?_eq_none (Nat.le_of_not_lt hlt)]
          rw [this]; rfl
    rw [key, hdef]
  · have hil : i = er.children.length - 1 := by simpa using hne
    have hP : (if m < s.nodes.size then prepNode n er i m (s.nodeD m) else s.nodeD m) = s.nodeD m := by
      unfold prepNode
      split
      · rw [if_neg (fun hh => hne hh.1)]
      · rfl
    rw [hP, hdef]
    have : swapNat i (er.children.length - 1) j = j := by
      unfold swapNat; rw [← hil]; split
      · rename_i h1; exact h1.symm
      · rfl
    rw [this]

theorem parentRemoved_nodeD (c pi : Nat) (S : State) (m : Nat) :
    (parentRemoved c pi S).nodeD m =
      if c = m ∧ m < S.nodes.size then
        { S.nodeD m with parents := swapRemove (S.nodeD m).parents pi } else S.nodeD m :=
  nodeD_modify S c m _

/-- steps B and C: after `remove_parent` of the (renamed) entry, edge symmetry holds for the list with
the removed edge swapped to the end and popped.  This covers the repaired D8: when the removed edge and
the last edge point at the SAME child, that child's list is renamed once, and exactly one entry
disappears. -/
theorem EdgeSym.removed {s : State} {n e : Nat} {er : ExpertRec} {i : Nat}
    (h : EdgeSym s n er.children) (hi : i < er.children.length)
    {cnd : Node} (hc : s.nodes[(er.children[i]?.getD default).child]? = some cnd) {pi : Nat}
    (hpi : cnd.parents.idxOf? (n, i) = some pi) :
    EdgeSym (parentRemoved (er.children[i]?.getD default).child pi (rmPrepared n e er i s)) n
      (swapPop er.children i) := by
  have hA := h.prepared (e := e) hi
  have hl : er.children.length - 1 < er.children.length := by omega
  have hlt := lt_of_some hc
  have hnode := rmPrepared_node (n := n) (e := e) (er := er) (i := i) hc
  have hidx := prepNode_idxOf n er i cnd
  rw [hpi] at hidx
  -- the last edge of the swapped list is the removed one
  have hlastEdge : (swapToEnd er.children i)[er.children.length - 1]?.map (·.child) =
      some (er.children[i]?.getD default).child := by
    rw [swapToEnd_getElem? _ _ hi]
    have : swapNat i (er.children.length - 1) (er.children.length - 1) = i := by
      unfold swapNat; split
      · rename_i h1; exact h1
      · simp
    rw [this, List.getElem?_eq_getElem hi]; simp
  intro m j
  -- the popped list, position by position
  have hpop : (swapPop er.children i)[j]? =
      if j < er.children.length - 1 then (swapToEnd er.children i)[j]? else none := by
    rw [← swapToEnd_dropLast, List.getElem?_dropLast, swapToEnd_length]
  rw [parentRemoved_nodeD, rmPrepared_size]
  by_cases hm : (er.children[i]?.getD default).child = m ∧ m < s.nodes.size
  · obtain ⟨rfl, _⟩ := hm
    rw [if_pos ⟨rfl, hlt⟩]
    simp only
    rw [nodeD_of_some hnode]
    have hcount := count_swapRemove _ _ _ hidx (n, j)
    have hAj := hA (er.children[i]?.getD default).child j
    rw [nodeD_of_some hnode] at hAj
    rw [hpop]
    by_cases hj : j < er.children.length - 1
    · have : ¬ (((n, er.children.length - 1) == (n, j)) = true) := by simp; omega
      rw [if_neg this] at hcount
      rw [if_pos hj, ← hAj]; omega
    · rw [if_neg hj]
      simp only [Option.map_none, reduceCtorEq, if_false]
      by_cases hj2 : j = er.children.length - 1
      · subst hj2
        rw [if_pos (by simp)] at hcount
        rw [hlastEdge, if_pos rfl] at hAj
        omega
      · have hnone : (swapToEnd er.children i)[j]? = none := by
          apply List.getElem?_eq_none; rw [swapToEnd_length]; omega
        rw [hnone] at hAj
        simp only [Option.map_none, reduceCtorEq, if_false] at hAj
        have : ¬ (((n, er.children.length - 1) == (n, j)) = true) := by
          simp; exact fun h => hj2 h.symm
        rw [if_neg this] at hcount
        omega
  · rw [if_neg hm]
    have hAj := hA m j
    rw [hAj, hpop]
    by_cases hj : j < er.children.length - 1
    · rw [if_pos hj]
    · rw [if_neg hj]
      simp only [Option.map_none, reduceCtorEq, if_false]
      by_cases hj2 : j = er.children.length - 1
      · subst hj2
        rw [hlastEdge]
        have hne : ¬ (er.children[i]?.getD default).child = m := by
          intro hh; apply hm; exact ⟨hh, hh ▸ hlt⟩
        simp [hne]
      · have hnone : (swapToEnd er.children i)[j]? = none := by
          apply List.getElem?_eq_none; rw [swapToEnd_length]; omega
        rw [hnone]; simp

/-! ### the parents lists after `rmFinish`, and the complete post-condition -/

/-- every node's `parents` list -/
def parentsOf (s : State) : Nat → List (Nat × Nat) := fun c => (s.nodeD c).parents

theorem EdgeSym.congr {s s' : State} {n : Nat} {L : List ExpertEdge} (h : EdgeSym s n L)
    (hp : parentsOf s' = parentsOf s) : EdgeSym s' n L := by
  intro c j
  have := congrFun hp c
  simp only [parentsOf] at this
  rw [this]; exact h c j

macro_rules
  | `(tactic| qleaf) =>
    `(tactic| ((with_reducible apply Pres.modify); intro _; exact (rfl : parentsOf _ = parentsOf _)))

theorem KP.modNode (n : Nat) (f : Node → Node) (hf : ∀ x, (f x).parents = x.parents) :
    Pres (Keeps parentsOf) (modNode n f) := by
  unfold Engine.modNode
  apply Pres.modify
  intro s
  funext c
  simp only [parentsOf]
  rw [nodeD_modify]
  split
  · exact hf _
  · rfl
macro_rules
  | `(tactic| qleaf) => `(tactic| ((with_reducible apply KP.modNode); intro _; rfl))

theorem KP.modExpert (e f) : Pres (Keeps parentsOf) (modExpert e f) := by unfold Engine.modExpert; qpres
macro_rules | `(tactic| qleaf) => `(tactic| with_reducible apply KP.modExpert)
theorem KP.rchLink (n) : Pres (Keeps parentsOf) (rchLink n) := by unfold Engine.rchLink; qpres
macro_rules | `(tactic| qleaf) => `(tactic| with_reducible apply KP.rchLink)
theorem KP.rchInsert (n) : Pres (Keeps parentsOf) (rchInsert n) := by unfold Engine.rchInsert; qpres
macro_rules | `(tactic| qleaf) => `(tactic| with_reducible apply KP.rchInsert)
theorem KP.rmFinish (n e child dep) : Pres (Keeps parentsOf) (rmFinish n e child dep) := by
  unfold Xp.rmFinish; qpres

/-- the expert record after a successful `rmFinish` -/
theorem rmFinish_ok_expert {S S' : State} {n e child dep : Nat} {ndn : Node} {r : ExpertRec} {cnd : Node}
    (hn : S.nodes[n]? = some ndn) (hr : S.experts[e]? = some r) (hc : S.nodes[child]? = some cnd)
    (h : (rmFinish n e child dep).run.run S = (.ok (), S')) :
    S'.experts[e]? = some (finishRec r (!cnd.valid) dep) := by
  cases hq : ndn.inRch
  · rw [rmFinish_run_insert hn hq hr hc] at h
    rcases hins : (rchInsert n).run.run S with ⟨_ | u, S1⟩
    · rw [hins] at h; cases h
    · rw [hins] at h
      simp only at h
      cases h
      exact putExpert_get (s := inserted n ndn.height S) _ hr
  · rw [rmFinish_run_queued hn hq hr hc] at h
    cases h
    exact putExpert_get _ hr

theorem finishRec_fields (r : ExpertRec) (b : Bool) (dep : Nat) :
    (finishRec r b dep).children = r.children.dropLast ∧ (finishRec r b dep).forceStale = true ∧
    (finishRec r b dep).slots = r.slots.filter (·.1 != dep) ∧
    (finishRec r b dep).numInvalidChildren = (if b then r.numInvalidChildren - 1 else r.numInvalidChildren) ∧
    (finishRec r b dep).f = r.f ∧ (finishRec r b dep).willFireAllCallbacks = r.willFireAllCallbacks :=
  ⟨rfl, rfl, rfl, rfl, rfl, rfl⟩

/-- complete post-condition of a successful `expert_remove_dependency` on a necessary node whose removed
child stays necessary (no cascade) in an edge-symmetric state -/
theorem expertRemoveDependency_necessary_post (fuel n dep : Nat) {s s' : State} {nd : Node} {e : Nat}
    {er : ExpertRec} (hx : IsExpert s n nd e er) (hr : runningOk s n = true) {i : Nat}
    (hi : er.children.findIdx? (·.dep == dep) = some i) (hnec : nd.isNecessary = true)
    {cnd : Node} (hc : s.nodes[(er.children[i]?.getD default).child]? = some cnd) {pi : Nat}
    (hpi : cnd.parents.idxOf? (n, i) = some pi)
    (hstay : (parentRemoved (er.children[i]?.getD default).child pi (rmPrepared n e er i s)).isNecessary
      (er.children[i]?.getD default).child = true)
    (hsym : EdgeSym s n er.children)
    (h : (expertRemoveDependency (fuel + 1) n dep).run.run s = (.ok (), s')) :
    ∃ er', s'.experts[e]? = some er' ∧
      er'.children = swapPop er.children i ∧ er'.forceStale = true ∧
      er'.slots = er.slots.filter (·.1 != dep) ∧
      er'.numInvalidChildren = (if cnd.valid = true then er.numInvalidChildren else er.numInvalidChildren - 1) ∧
      er'.f = er.f ∧ er'.willFireAllCallbacks = er.willFireAllCallbacks ∧
      EdgeSym s' n er'.children ∧
      n < s'.nodes.size ∧ (s'.nodeD n).inRch = true := by
  obtain ⟨hlt, _, _⟩ := findIdx_facts _ _ _ hi
  rw [expertRemoveDependency_necessary_stays fuel n dep hx hr hi hnec hc hpi hstay] at h
  -- facts about the state `rmFinish` starts from
  have hnlt : n < (parentRemoved (er.children[i]?.getD default).child pi (rmPrepared n e er i s)).nodes.size := by
    simp only [parentRemoved, Array.size_modify, rmPrepared_size]; exact lt_of_some hx.node
  have hn2 := some_of_lt hnlt
  have hr2 : (parentRemoved (er.children[i]?.getD default).child pi (rmPrepared n e er i s)).experts[e]? =
      some { er with children := swapToEnd er.children i, forceStale := true } := rmPrepared_expert hx.xrec
  have hclt : (er.children[i]?.getD default).child <
      (parentRemoved (er.children[i]?.getD default).child pi (rmPrepared n e er i s)).nodes.size := by
    simp only [parentRemoved, Array.size_modify, rmPrepared_size]; exact lt_of_some hc
  have hc2 := some_of_lt hclt
  have hvalid : ((parentRemoved (er.children[i]?.getD default).child pi (rmPrepared n e er i s)).nodeD
      (er.children[i]?.getD default).child).valid = cnd.valid := by
    rw [parentRemoved_nodeD, rmPrepared_size, if_pos ⟨rfl, lt_of_some hc⟩]
    simp only
    rw [rmPrepared_nodeD, if_pos (lt_of_some hc), nodeD_of_some hc]
    unfold prepNode; split <;> rfl
  have hex := rmFinish_ok_expert hn2 hr2 hc2 h
  rw [hvalid] at hex
  have hpar := (KP.rmFinish n e _ dep).h _ _ _ h
  have hsym' := (hsym.removed (e := e) hlt hc hpi).congr hpar
  obtain ⟨hin1, hin2⟩ := rmFinish_inHeap h
  refine ⟨_, hex, ?_, rfl, rfl, ?_, rfl, rfl, ?_, hin1, hin2⟩
  · exact swapToEnd_dropLast _ _
  · cases cnd.valid <;> rfl
  · show EdgeSym s' n (swapToEnd er.children i).dropLast
    rw [swapToEnd_dropLast]; exact hsym'

/-! ## example environment and states (non-vacuity witnesses used by `Props/C14.lean`) -/

/-- `Step.exEnv` with an expert closure that shows its inputs: function id + sum of the dependency
values + 10 × sum of the slot values -/
def xEnv : Env :=
  { exEnv with
    expertFn := fun f deps slots =>
      Val.int ((f : Int) + deps.foldl (fun a v => a + (v.getD Val.unit).toInt) 0
        + 10 * slots.foldl (fun a v => a + (v.getD Val.unit).toInt) 0) }

/-- node 0: a var (value 5); node 1: constant 7; node 2: expert 0 (function 3) with edges
`d0 → node 0` (with callback, slot holds a stale 4) and `d1 → node 1` (no callback).  Nobody observes
node 2 (it is not necessary).  Debug build, node 0 is the node being recomputed. -/
def exU : State :=
  { State.init 8 with
    nodes := #[
      { kind := .var 0, createdIn := .top, value := some (.int 5), recomputedAt := 0, changedAt := 0,
        height := 0 },
      { kind := .const (.int 7), createdIn := .top, value := some (.int 7), recomputedAt := 0,
        changedAt := 0, height := 0 },
      { kind := .expert 0, createdIn := .top }],
    vars := #[{ value := .int 5, setAt := 0, node := 0 }],
    experts := #[{ f := 3, node := 2, children := [⟨0, 0, some 0⟩, ⟨1, 1, none⟩],
                   slots := [(0, .int 4)], willFireAllCallbacks := true }],
    nextDep := 2, stabNum := 1, status := .stabilising, currentlyRunning := some 0 }

/-- the same graph with node 2 observed (necessary, height 1, the children list it as a parent) and
never recomputed -/
def exN : State :=
  { exU with
    nodes := #[
      { kind := .var 0, createdIn := .top, value := some (.int 5), recomputedAt := 0, changedAt := 0,
        height := 0, parents := [(2, 0)] },
      { kind := .const (.int 7), createdIn := .top, value := some (.int 7), recomputedAt := 0,
        changedAt := 0, height := 0, parents := [(2, 1)] },
      { kind := .expert 0, createdIn := .top, height := 1, observers := [0] }] }

/-- `exN` after a first recompute: callbacks individually armed (`willFireAllCallbacks = false`) -/
def exN' : State :=
  { exN with experts := #[{ f := 3, node := 2, children := [⟨0, 0, some 0⟩, ⟨1, 1, none⟩],
                            slots := [(0, .int 4)], willFireAllCallbacks := false }] }

/-- `exU` with node 2 invalidated -/
def exI : State :=
  { exU with nodes := exU.nodes.modify 2 fun x => { x with valid := false } }

/-- `exN` with one invalid child counted -/
def exNbad : State :=
  { exN with experts := #[{ f := 3, node := 2, children := [⟨0, 0, some 0⟩, ⟨1, 1, none⟩],
                            numInvalidChildren := 1 }] }

/-- `exN` with node 0 also observed directly (it stays necessary when the expert drops it) -/
def exN2 : State :=
  { exN with
    nodes := #[
      { kind := .var 0, createdIn := .top, value := some (.int 5), recomputedAt := 0, changedAt := 0,
        height := 0, parents := [(2, 0)], observers := [1] },
      { kind := .const (.int 7), createdIn := .top, value := some (.int 7), recomputedAt := 0,
        changedAt := 0, height := 0, parents := [(2, 1)] },
      { kind := .expert 0, createdIn := .top, height := 1, observers := [0] }] }

/-- duplicates on one child (the D8 situation): edges `d0 → 0`, `d1 → 1`, `d2 → 0`; node 0 lists the
expert twice, with indices 0 and 2, and is observed itself -/
def exDup : State :=
  { exN with
    nodes := #[
      { kind := .var 0, createdIn := .top, value := some (.int 5), recomputedAt := 0, changedAt := 0,
        height := 0, parents := [(2, 0), (2, 2)], observers := [1] },
      { kind := .const (.int 7), createdIn := .top, value := some (.int 7), recomputedAt := 0,
        changedAt := 0, height := 0, parents := [(2, 1)] },
      { kind := .expert 0, createdIn := .top, height := 1, observers := [0] }],
    experts := #[{ f := 3, node := 2, children := [⟨0, 0, some 0⟩, ⟨1, 1, none⟩, ⟨2, 0, none⟩],
                   willFireAllCallbacks := false }],
    nextDep := 3 }

theorem exDup_edgeSym : EdgeSym exDup 2 [⟨0, 0, some 0⟩, ⟨1, 1, none⟩, ⟨2, 0, none⟩] := by
  intro c j
  match c, j with
  | 0, 0 => rfl
  | 0, 1 => rfl
  | 0, 2 => rfl
  | 1, 0 => rfl
  | 1, 1 => rfl
  | 1, 2 => rfl
  | 2, 0 => rfl
  | 2, 1 => rfl
  | 2, 2 => rfl
  | c + 3, 0 => simp [exDup, State.nodeD]; rfl
  | c + 3, 1 => simp [exDup, State.nodeD]; rfl
  | c + 3, 2 => simp [exDup, State.nodeD]; rfl
  | 0, j + 3 => simp [exDup, exN, State.nodeD]
  | 1, j + 3 => simp [exDup, exN, State.nodeD]
  | 2, j + 3 => simp [exDup, exN, State.nodeD]
  | c + 3, j + 3 => simp [exDup, State.nodeD]; rfl

end IncrVerif.Proofs.Xp
