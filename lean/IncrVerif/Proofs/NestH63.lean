import IncrVerif.Proofs.NestH59
/-!
# Nested binds (F2), part 5f: the contract "the closure run registers exactly the image of the closure's template"
-/
namespace IncrVerif.Proofs.NestH
open IncrVerif.Engine IncrVerif.Proofs IncrVerif.Proofs.Step IncrVerif.Proofs.Sched IncrVerif.Proofs.Quiet
open IncrVerif.Proofs.BindH

/-- after `lhsRunClosure` the list of registered nodes of bind `b`, in creation order, is the image (`ElabOf2`) of the template the closure yields for the stored
value `v` of the lhs (inner binds: change detector and main node, the main node being the local), and the result is the resolved `ret` operand -/
def ClosureElabSpec2 (env : Env) : Prop :=
  ∀ (n b rhs : Nat) (br : BindRec) (rk : Nat → Nat) (s s' : State) (ex : Nat → Prop),
    (Inval.lhsRunClosure env n b br).run.run s = (.ok rhs, s') →
    GInv2 env rk s allClosed ex [] → AhhEmpty s → s.binds[b]? = some br → br.lhsChange = n →
    (s.nodeD n).valid = true →
    (∃ f, BodyOK2 env rk s n f br.body) →
    (∀ (k r : Nat), s.top[k]? = some r →
      r < s.nodes.size ∧ (s.nodeD r).createdIn = .top ∧ ∀ b', (s.nodeD r).kind ≠ .bindLhsChange b') →
    ∃ v l locs, (s.nodeD br.lhs).value = some v ∧ s'.binds[b]? = some { br with allNodesCreatedOnRhs := l } ∧
      ElabOf2 s' (env.body br.body v) v l locs rhs

end IncrVerif.Proofs.NestH
