import IncrVerif.Proofs.PerKeyH35
/-!
# A run of a per-key change detector, part 2b: the frame `LKF` (operator records, kinds, record cores, naming table)
of the engine calls of the loop — `expertAddDependency`, `expertMakeStale`, `maybeChangeValue` (ladder as `ExpertH32`)
-/
namespace IncrVerif.Proofs.PerKeyH
open IncrVerif.Engine IncrVerif.Driver IncrVerif.Proofs IncrVerif.Proofs.Step IncrVerif.Proofs.Sched
open IncrVerif.Proofs.ExpertH IncrVerif.Proofs.EffH IncrVerif.Proofs.DriverH IncrVerif.Proofs.ExpertH.QR

/-- what the engine calls of the loop never change: the operator records, the number and kinds of the nodes, the
number of records and their `f`, `node`, `pk`, `script`, `sel` (NOT `numInvalidChildren`: `observabilityChange` and
`propagateInvalidity` write it), the naming table
(+ `handles`, `slots`, `memos`, `cfg`, `currentlyRunning`) -/
structure LKF (a b : State) : Prop where
  perkeys : b.perkeys = a.perkeys
  size : b.nodes.size = a.nodes.size
  kind : ∀ m, (b.nodeD m).kind = (a.nodeD m).kind
  xsize : b.experts.size = a.experts.size
  xcore : ∀ e : Nat,
    (b.experts[e]?).map (fun er => (er.f, er.node, er.pk, er.script, er.sel)) =
    (a.experts[e]?).map (fun er => (er.f, er.node, er.pk, er.script, er.sel))
  top : b.top = a.top
  handles : b.handles = a.handles
  slots : b.slots = a.slots
  memos : b.memos = a.memos
  cfg : b.cfg = a.cfg
  currentlyRunning : b.currentlyRunning = a.currentlyRunning

theorem LKF.refl (s : State) : LKF s s := ⟨rfl, rfl, fun _ => rfl, rfl, fun _ => rfl, rfl, rfl, rfl, rfl, rfl, rfl⟩
theorem LKF.trans {a b c : State} (h1 : LKF a b) (h2 : LKF b c) : LKF a c :=
  ⟨h2.perkeys.trans h1.perkeys, h2.size.trans h1.size, fun m => (h2.kind m).trans (h1.kind m),
    h2.xsize.trans h1.xsize, fun e => (h2.xcore e).trans (h1.xcore e), h2.top.trans h1.top,
    h2.handles.trans h1.handles, h2.slots.trans h1.slots, h2.memos.trans h1.memos, h2.cfg.trans h1.cfg,
    h2.currentlyRunning.trans h1.currentlyRunning⟩
instance : Step.PreOrd LKF := ⟨LKF.refl, LKF.trans⟩

theorem LKF.of_nodes {s s' : State} (h1 : s'.nodes = s.nodes) (h2 : s'.experts = s.experts)
    (h3 : s'.perkeys = s.perkeys) (h4 : s'.top = s.top) (h5 : s'.handles = s.handles) (h6 : s'.slots = s.slots)
    (h7 : s'.memos = s.memos) (h8 : s'.cfg = s.cfg) (h9 : s'.currentlyRunning = s.currentlyRunning) :
    LKF s s' := by
  refine ⟨h3, by rw [h1], fun m => ?_, by rw [h2], fun e => by rw [h2], h4, h5, h6, h7, h8, h9⟩
  have : s'.nodeD m = s.nodeD m := by simp [State.nodeD, h1]
  rw [this]

theorem LKF.modNode (s : State) (n : Nat) (f : Node → Node) (hf : ∀ x, (f x).kind = x.kind) :
    LKF s { s with nodes := s.nodes.modify n f } := by
  refine ⟨rfl, by simp, fun m => ?_, rfl, fun _ => rfl, rfl, rfl, rfl, rfl, rfl, rfl⟩
  rw [nodeD_modify]; split
  · exact hf _
  · rfl

theorem LKF.modExpert (s : State) (e : Nat) (f : ExpertRec → ExpertRec)
    (hf : ∀ x : ExpertRec, ((f x).f, (f x).node, (f x).pk, (f x).script, (f x).sel) =
      (x.f, x.node, x.pk, x.script, x.sel)) :
    LKF s { s with experts := s.experts.modify e f } := by
  refine ⟨rfl, rfl, fun _ => rfl, by simp, fun j => ?_, rfl, rfl, rfl, rfl, rfl, rfl⟩
  simp only [Array.getElem?_modify]
  split
  · cases s.experts[j]? <;> simp [hf]
  · rfl

theorem PresLK.modNode (n : Nat) (f : Node → Node) (hf : ∀ x, (f x).kind = x.kind) :
    Step.Pres LKF (Engine.modNode n f) := by
  unfold Engine.modNode; exact Step.Pres.modify fun s => LKF.modNode s n f hf

theorem PresLK.modExpert (e : Nat) (f : ExpertRec → ExpertRec)
    (hf : ∀ x : ExpertRec, ((f x).f, (f x).node, (f x).pk, (f x).script, (f x).sel) =
      (x.f, x.node, x.pk, x.script, x.sel)) :
    Step.Pres LKF (Engine.modExpert e f) := by
  unfold Engine.modExpert; exact Step.Pres.modify fun s => LKF.modExpert s e f hf

/-- leaves of the `LKF` ladder (a private copy of `qleaf`/`lkpres` of `Proofs/Step.lean`: the global `qleaf` carries
an unrestricted `apply Pres.forIn` that makes failing leaves very slow) -/
syntax "lkleaf" : tactic
macro_rules | `(tactic| lkleaf) => `(tactic| fail "no leaf")

macro "lkstep" : tactic => `(tactic| first
  | with_reducible apply Step.Pres.pure | with_reducible apply Step.Pres.get | with_reducible apply Step.Pres.panic
  | with_reducible apply Step.Pres.throw
  | with_reducible apply Step.Pres.bind | with_reducible apply Step.Pres.map | with_reducible apply Step.Pres.mapM
  | with_reducible apply Step.Pres.getNode | with_reducible apply Step.Pres.dassert
  | with_reducible apply Step.Pres.getBind | with_reducible apply Step.Pres.getExpert
  | with_reducible apply Step.Pres.getVar | with_reducible apply Step.Pres.assertM
  | with_reducible apply Step.Pres.forIn
  | with_reducible apply Step.Pres.valueUnwrap | with_reducible apply Step.Pres.scopeHeight
  | lkleaf
  | intro _ | split | dsimp only)

macro "lkpres" : tactic => `(tactic| repeat (any_goals lkstep))

macro_rules
  | `(tactic| lkleaf) =>
    `(tactic| ((with_reducible apply Step.Pres.modify); intro _;
               exact LKF.of_nodes rfl rfl rfl rfl rfl rfl rfl rfl rfl))
macro_rules
  | `(tactic| lkleaf) => `(tactic| ((with_reducible apply PresLK.modNode); intro _; rfl))
macro_rules
  | `(tactic| lkleaf) => `(tactic| ((with_reducible apply PresLK.modExpert); intro _; rfl))

macro "lk_leaf " n:ident : command =>
  `(macro_rules | `(tactic| lkleaf) => `(tactic| with_reducible apply $n))

theorem PresLK.discard {α} {x : M α} (h : Step.Pres LKF x) : Step.Pres LKF (discard x) := by
  unfold Functor.discard; exact Step.Pres.map _ h
lk_leaf PresLK.discard

theorem PresLK.logEv (e) : Step.Pres LKF (Engine.logEv e) := by unfold Engine.logEv; lkpres
lk_leaf PresLK.logEv
theorem PresLK.tick : Step.Pres LKF Engine.tick := by unfold Engine.tick; lkpres
lk_leaf PresLK.tick
theorem PresLK.bumpCounter (f) : Step.Pres LKF (Engine.bumpCounter f) := by unfold Engine.bumpCounter; lkpres
lk_leaf PresLK.bumpCounter
theorem PresLK.modBind (b f) : Step.Pres LKF (Engine.modBind b f) := by unfold Engine.modBind; lkpres
lk_leaf PresLK.modBind
theorem PresLK.addParent (c i p) : Step.Pres LKF (Engine.addParent c i p) := by unfold Engine.addParent; lkpres
lk_leaf PresLK.addParent
theorem PresLK.removeParent (c i p) : Step.Pres LKF (Engine.removeParent c i p) := by
  unfold Engine.removeParent; lkpres
lk_leaf PresLK.removeParent
theorem PresLK.setHeight (n h) : Step.Pres LKF (Engine.setHeight n h) := by unfold Engine.setHeight; lkpres
lk_leaf PresLK.setHeight
theorem PresLK.rchLink (n) : Step.Pres LKF (Engine.rchLink n) := by unfold Engine.rchLink; lkpres
lk_leaf PresLK.rchLink
theorem PresLK.rchUnlink (n) : Step.Pres LKF (Engine.rchUnlink n) := by unfold Engine.rchUnlink; lkpres
lk_leaf PresLK.rchUnlink
theorem PresLK.rchInsert (n) : Step.Pres LKF (Engine.rchInsert n) := by unfold Engine.rchInsert; lkpres
lk_leaf PresLK.rchInsert
theorem PresLK.rchRemove (n) : Step.Pres LKF (Engine.rchRemove n) := by unfold Engine.rchRemove; lkpres
lk_leaf PresLK.rchRemove
theorem PresLK.rchRemoveMin : Step.Pres LKF Engine.rchRemoveMin := by unfold Engine.rchRemoveMin; lkpres
lk_leaf PresLK.rchRemoveMin
theorem PresLK.rchMinHeight : Step.Pres LKF Engine.rchMinHeight := by unfold Engine.rchMinHeight; lkpres
lk_leaf PresLK.rchMinHeight
theorem PresLK.rchIncreaseHeight (n) : Step.Pres LKF (Engine.rchIncreaseHeight n) := by
  unfold Engine.rchIncreaseHeight; lkpres
lk_leaf PresLK.rchIncreaseHeight
theorem PresLK.ahhAddUnlessMem (n) : Step.Pres LKF (Engine.ahhAddUnlessMem n) := by
  unfold Engine.ahhAddUnlessMem; lkpres
lk_leaf PresLK.ahhAddUnlessMem
theorem PresLK.ahhRemoveMin : Step.Pres LKF Engine.ahhRemoveMin := by unfold Engine.ahhRemoveMin; lkpres
lk_leaf PresLK.ahhRemoveMin
theorem PresLK.ensureHeightRequirement (oc op c p) : Step.Pres LKF (Engine.ensureHeightRequirement oc op c p) := by
  unfold Engine.ensureHeightRequirement; lkpres
lk_leaf PresLK.ensureHeightRequirement

theorem PresLK.adjustHeightsLoop (oc op fuel) : Step.Pres LKF (Engine.adjustHeightsLoop oc op fuel) := by
  induction fuel with
  | zero => unfold Engine.adjustHeightsLoop; lkpres
  | succ fuel ih =>
    unfold Engine.adjustHeightsLoop
    lkpres
    all_goals exact ih
lk_leaf PresLK.adjustHeightsLoop

theorem PresLK.adjustHeights (oc op fuel) : Step.Pres LKF (Engine.adjustHeights oc op fuel) := by
  unfold Engine.adjustHeights; lkpres
lk_leaf PresLK.adjustHeights

theorem PresLK.scopeIsNecessary (sc) : Step.Pres LKF (Engine.scopeIsNecessary sc) := by
  unfold Engine.scopeIsNecessary; lkpres
lk_leaf PresLK.scopeIsNecessary
theorem PresLK.handleAfterStabilisation (n) : Step.Pres LKF (Engine.handleAfterStabilisation n) := by
  unfold Engine.handleAfterStabilisation; lkpres
lk_leaf PresLK.handleAfterStabilisation
theorem PresLK.maybeHandleAfterStabilisation (n) : Step.Pres LKF (Engine.maybeHandleAfterStabilisation n) := by
  unfold Engine.maybeHandleAfterStabilisation; lkpres
lk_leaf PresLK.maybeHandleAfterStabilisation
theorem PresLK.edgeOnChange (env e edge) : Step.Pres LKF (Engine.edgeOnChange env e edge) := by
  unfold Engine.edgeOnChange; lkpres
lk_leaf PresLK.edgeOnChange
theorem PresLK.runEdgeCallback (env e i) : Step.Pres LKF (Engine.runEdgeCallback env e i) := by
  unfold Engine.runEdgeCallback; lkpres
lk_leaf PresLK.runEdgeCallback
theorem PresLK.observabilityChange (e b) : Step.Pres LKF (Engine.observabilityChange e b) := by
  unfold Engine.observabilityChange; lkpres
lk_leaf PresLK.observabilityChange

theorem PresLK.markMapRefUnknown (fuel n) : Step.Pres LKF (Engine.markMapRefUnknown fuel n) := by
  induction fuel generalizing n with
  | zero => unfold Engine.markMapRefUnknown; lkpres
  | succ fuel ih =>
    unfold Engine.markMapRefUnknown
    lkpres
    all_goals exact ih _
lk_leaf PresLK.markMapRefUnknown

theorem PresLK.link (env : Env) (fuel : Nat) :
    (∀ n, Step.Pres LKF (Engine.becameNecessary env fuel n)) ∧
    (∀ c i p, Step.Pres LKF (Engine.addParentWithoutAdjustingHeights env fuel c i p)) := by
  induction fuel with
  | zero =>
    constructor
    · intro n; unfold Engine.becameNecessary; lkpres
    · intro c i p; unfold Engine.addParentWithoutAdjustingHeights; lkpres
  | succ fuel ih =>
    constructor
    · intro n
      unfold Engine.becameNecessary
      lkpres
      all_goals exact ih.2 _ _ _
    · intro c i p
      unfold Engine.addParentWithoutAdjustingHeights
      lkpres
      all_goals exact ih.1 _

theorem PresLK.becameNecessary (env fuel n) : Step.Pres LKF (Engine.becameNecessary env fuel n) :=
  (PresLK.link env fuel).1 n
lk_leaf PresLK.becameNecessary
theorem PresLK.addParentWithoutAdjustingHeights (env fuel c i p) :
    Step.Pres LKF (Engine.addParentWithoutAdjustingHeights env fuel c i p) :=
  (PresLK.link env fuel).2 c i p
lk_leaf PresLK.addParentWithoutAdjustingHeights

theorem PresLK.unlink (fuel : Nat) :
    (∀ n, Step.Pres LKF (Engine.becameUnnecessary fuel n)) ∧
    (∀ n, Step.Pres LKF (Engine.checkIfUnnecessary fuel n)) ∧
    (∀ n, Step.Pres LKF (Engine.removeChildren fuel n)) := by
  induction fuel with
  | zero =>
    refine ⟨?_, ?_, ?_⟩
    · intro n; unfold Engine.becameUnnecessary; lkpres
    · intro n; unfold Engine.checkIfUnnecessary; lkpres
    · intro n; unfold Engine.removeChildren; lkpres
  | succ fuel ih =>
    refine ⟨?_, ?_, ?_⟩
    · intro n
      unfold Engine.becameUnnecessary
      lkpres
      all_goals exact ih.2.2 _
    · intro n
      unfold Engine.checkIfUnnecessary
      lkpres
      all_goals exact ih.1 _
    · intro n
      unfold Engine.removeChildren
      lkpres
      all_goals exact ih.2.1 _

theorem PresLK.becameUnnecessary (fuel n) : Step.Pres LKF (Engine.becameUnnecessary fuel n) :=
  (PresLK.unlink fuel).1 n
lk_leaf PresLK.becameUnnecessary
theorem PresLK.checkIfUnnecessary (fuel n) : Step.Pres LKF (Engine.checkIfUnnecessary fuel n) :=
  (PresLK.unlink fuel).2.1 n
lk_leaf PresLK.checkIfUnnecessary
theorem PresLK.removeChildren (fuel n) : Step.Pres LKF (Engine.removeChildren fuel n) :=
  (PresLK.unlink fuel).2.2 n
lk_leaf PresLK.removeChildren

theorem PresLK.invalidateNode (fuel n) : Step.Pres LKF (Engine.invalidateNode fuel n) := by
  induction fuel generalizing n with
  | zero => unfold Engine.invalidateNode; lkpres
  | succ fuel ih =>
    unfold Engine.invalidateNode
    lkpres
    all_goals exact ih _
lk_leaf PresLK.invalidateNode

theorem PresLK.propagateInvalidity (fuel) : Step.Pres LKF (Engine.propagateInvalidity fuel) := by
  induction fuel with
  | zero => unfold Engine.propagateInvalidity; lkpres
  | succ fuel ih =>
    unfold Engine.propagateInvalidity
    lkpres
    all_goals exact ih
lk_leaf PresLK.propagateInvalidity

theorem PresLK.becameNecessaryPropagate (env fuel n) :
    Step.Pres LKF (Engine.becameNecessaryPropagate env fuel n) := by
  unfold Engine.becameNecessaryPropagate; lkpres
lk_leaf PresLK.becameNecessaryPropagate
theorem PresLK.stateAddParent (env fuel c i p) : Step.Pres LKF (Engine.stateAddParent env fuel c i p) := by
  unfold Engine.stateAddParent; lkpres
lk_leaf PresLK.stateAddParent
theorem PresLK.shouldCutoff (env n o v) : Step.Pres LKF (Engine.shouldCutoff env n o v) := by
  unfold Engine.shouldCutoff; lkpres
lk_leaf PresLK.shouldCutoff

theorem PresLK.childChanged (env : Env) (fuel p c ci : Nat) (o : Option Val) :
    Step.Pres LKF (Engine.childChanged env fuel p c ci o) := by
  induction fuel generalizing p c ci o with
  | zero => unfold Engine.childChanged; lkpres
  | succ fuel ih =>
    unfold Engine.childChanged
    lkpres
    all_goals exact ih _ _ _ _
lk_leaf PresLK.childChanged

theorem PresLK.parentIterCanRecomputeNow (p c : Nat) : Step.Pres LKF (Engine.parentIterCanRecomputeNow p c) := by
  unfold Engine.parentIterCanRecomputeNow; lkpres
lk_leaf PresLK.parentIterCanRecomputeNow

theorem PresLK.maybeChangeValueManual (env fuel n o d b) :
    Step.Pres LKF (Engine.maybeChangeValueManual env fuel n o d b) := by
  unfold Engine.maybeChangeValueManual
  lkpres
lk_leaf PresLK.maybeChangeValueManual

/-- **`maybeChangeValue` touches no operator record, no kind, no record core** -/
theorem PresLK.maybeChangeValue (env fuel n v) : Step.Pres LKF (Engine.maybeChangeValue env fuel n v) := by
  unfold Engine.maybeChangeValue; lkpres

theorem PresLK.assertRunningIsChild (n name) : Step.Pres LKF (Engine.assertRunningIsChild n name) := by
  unfold Engine.assertRunningIsChild; lkpres
lk_leaf PresLK.assertRunningIsChild
theorem PresLK.expertOf (n) : Step.Pres LKF (Engine.expertOf n) := by unfold Engine.expertOf; lkpres
lk_leaf PresLK.expertOf

/-- **`expertMakeStale`** -/
theorem PresLK.expertMakeStale (n) : Step.Pres LKF (Engine.expertMakeStale n) := by
  unfold Engine.expertMakeStale; lkpres

/-- **`expertAddDependency`** -/
theorem PresLK.expertAddDependency (env fuel n c cb) : Step.Pres LKF (Engine.expertAddDependency env fuel n c cb) := by
  unfold Engine.expertAddDependency; lkpres

/-! ## reading the frame -/

theorem LKF.xrec {s s' : State} (h : LKF s s') {e : Nat} {er : ExpertRec} (he : s.experts[e]? = some er) :
    ∃ er', s'.experts[e]? = some er' ∧ er'.f = er.f ∧ er'.node = er.node ∧ er'.pk = er.pk ∧
      er'.script = er.script ∧ er'.sel = er.sel := by
  have := h.xcore e
  rw [he] at this
  cases h' : s'.experts[e]? with
  | none => rw [h'] at this; cases this
  | some er' =>
    rw [h'] at this
    simp only [Option.map_some, Option.some.injEq, Prod.mk.injEq] at this
    exact ⟨er', rfl, this⟩

theorem LKF.xrec_back {s s' : State} (h : LKF s s') {e : Nat} {er' : ExpertRec} (he : s'.experts[e]? = some er') :
    ∃ er, s.experts[e]? = some er ∧ er'.f = er.f ∧ er'.node = er.node ∧ er'.pk = er.pk ∧
      er'.script = er.script ∧ er'.sel = er.sel := by
  have := h.xcore e
  rw [he] at this
  cases h' : s.experts[e]? with
  | none => rw [h'] at this; cases this
  | some er =>
    rw [h'] at this
    simp only [Option.map_some, Option.some.injEq, Prod.mk.injEq] at this
    exact ⟨er, rfl, this⟩

theorem LKF.xnone {s s' : State} (h : LKF s s') {e : Nat} (he : s.experts[e]? = none) : s'.experts[e]? = none := by
  have := h.xcore e
  rw [he] at this
  cases h' : s'.experts[e]? with
  | none => rfl
  | some er' => rw [h'] at this; cases this

/-- run forms -/
theorem expertAddDependency_lkf {env : Env} {fuel n c : Nat} {cb : Bool} {s s' : State} {r : Except Panic Nat}
    (h : (Engine.expertAddDependency env fuel n c cb).run.run s = (r, s')) : LKF s s' :=
  (PresLK.expertAddDependency env fuel n c cb).h s r s' h

theorem expertMakeStale_lkf {n : Nat} {s s' : State} {r : Except Panic Unit}
    (h : (Engine.expertMakeStale n).run.run s = (r, s')) : LKF s s' :=
  (PresLK.expertMakeStale n).h s r s' h

theorem maybeChangeValue_lkf {env : Env} {fuel n : Nat} {v : Val} {s s' : State} {r : Except Panic (Option Nat)}
    (h : (Engine.maybeChangeValue env fuel n v).run.run s = (r, s')) : LKF s s' :=
  (PresLK.maybeChangeValue env fuel n v).h s r s' h

end IncrVerif.Proofs.PerKeyH
