import IncrVerif.Proofs.PerKeyH53
/-!
# A run of a per-key change detector, part 7d: the frame from `s` to the final state `s'`, the bookkeeping invariant
`PKOK env s'`
-/
namespace IncrVerif.Proofs.PerKeyH
open IncrVerif.Engine IncrVerif.Driver IncrVerif.Proofs IncrVerif.Proofs.Step IncrVerif.Proofs.Sched
open IncrVerif.Proofs.ExpertH IncrVerif.Proofs.EffH IncrVerif.Proofs.DriverH IncrVerif.Proofs.ExpertH.QR
open IncrVerif.Proofs.Xp

/-! ## frames -/

theorem bf_of_sf (D : Nat → Prop) {a b : State} (sf : SF a b)
    (hst : ∀ m e, m < a.nodes.size → (a.nodeD m).kind = .expert e → ((V a).nodeD m).recomputedAt = -1 →
      ((V b).nodeD m).recomputedAt = -1) : BF D a b := by
  refine ⟨Nat.le_of_eq sf.size.symm, fun x _ => sf.kind x, sf.top, fun e er he => ?_, hst⟩
  obtain ⟨er', he', -, h2, h3, h4, -⟩ := sf.xf.xrec he
  exact ⟨er', he', h2, h4, fun _ => h3, [], by rw [h3, List.append_nil]⟩

theorem bf_started' (D : Nat → Prop) (n : Nat) (s : State) (hn : ∀ e, (s.nodeD n).kind ≠ .expert e) :
    BF D s (started n s) :=
  ⟨Nat.le_of_eq (started_size n s).symm, fun x _ => started_kind n s x, rfl,
    fun _ er h => ⟨er, h, rfl, rfl, fun _ => rfl, [], (List.append_nil _).symm⟩,
    fun m e _ hk hs => V_stamp_keep hk (started_kind n s m) (by
      rw [started_nodeD]
      split
      · rename_i h
        have : m = n := h.1.symm
        subst this
        exact absurd hk (hn e)
      · rfl) (fun h => h) hs⟩

section
variable {env : Env} {s s2 s' : State} {n op eres fuel : Nat} {pr : PerKeyRec} {m : List (Int × Int)} {r : Option Nat}

/-- the final static step of the change detector keeps the virtual stamps of the expert nodes -/
theorem lc_stamp_final (B : LcBase env s n op pr eres) (E : LE env s n op pr eres m s2) {ch : Bool} {r0 : Int}
    (R : BindH.StepRelB n .unit ch r (unstamp n r0 (V s2)) (V s')) :
    ∀ x e, x < s2.nodes.size → (s2.nodeD x).kind = .expert e → ((V s2).nodeD x).recomputedAt = -1 →
      ((V s').nodeD x).recomputedAt = -1 := by
  intro x e _ hk hs
  obtain ⟨-, -, -, -, -, -, -, -, -, hnlt, hnk⟩ := B.facts
  have hxn : x ≠ n := by
    rintro rfl
    rw [(lf_old E.lf hnlt).1, hnk] at hk
    cases hk
  have O := R.other x hxn
  rw [unstamp_other _ _ _ hxn] at O
  rw [O.recomputedAt]; exact hs

/-- the bookkeeping frame of the whole run -/
theorem lc_bf (B : LcBase env s n op pr eres) (E : LE env s n op pr eres m s2) {ch : Bool} {r0 : Int}
    (R : BindH.StepRelB n .unit ch r (unstamp n r0 (V s2)) (V s')) (sf : SF s2 s') :
    BF (fun e => e = eres) s s' :=
  ((bf_started' _ n s B.n_not_expert).trans E.lf.bf).trans (bf_of_sf _ sf (lc_stamp_final B E R))

/-- the old nodes after the whole run -/
theorem lc_old_final (E : LE env s n op pr eres m s2) {ch : Bool} {r0 : Int}
    (R : BindH.StepRelB n .unit ch r (unstamp n r0 (V s2)) (V s')) (sf : SF s2 s') {x : Nat}
    (hx : x < s.nodes.size) :
    (s'.nodeD x).kind = (s.nodeD x).kind ∧ (s'.nodeD x).observers = (s.nodeD x).observers ∧
    (s'.nodeD x).valid = (s.nodeD x).valid ∧
    (x ≠ n → (s'.nodeD x).value = (s.nodeD x).value ∧ (s'.nodeD x).changedAt = (s.nodeD x).changedAt ∧
      ((∀ e, (s.nodeD x).kind ≠ .expert e) → (s'.nodeD x).recomputedAt = (s.nodeD x).recomputedAt)) := by
  obtain ⟨k1, -, -, k4, k5, k6, k7, -, -, k10⟩ := lf_old E.lf hx
  obtain ⟨-, h2, -, -, -, h6, -⟩ := shape_actualV (lc_shv R) x
  refine ⟨(sf.kind x).trans k1, h6.trans k7, h2.trans k5, fun hxn => ?_⟩
  have O := R.other x hxn
  rw [unstamp_other _ _ _ hxn] at O
  refine ⟨?_, ?_, fun hne => ?_⟩
  · have := O.value; rw [V_nodeD, V_nodeD] at this; exact this.trans k4
  · have := O.changedAt; rw [V_nodeD, V_nodeD] at this; exact this.trans k6
  · have := O.recomputedAt
    rw [V_recomputedAt_of_not_expert s' x (fun e he => hne e (by rw [← k1, ← sf.kind]; exact he)),
      V_recomputedAt_of_not_expert s2 x (fun e he => hne e (by rw [← k1]; exact he)), k10, if_neg hxn] at this
    exact this

/-- the conversion node of any operator is not the running change detector -/
theorem LcBase.conv_ne (B : LcBase env s n op pr eres) {op' x e : Nat} {pr' : PerKeyRec}
    (N : OpNodes s op' pr' x e) : pr'.result - 1 ≠ n ∧ pr'.result - 1 < s.nodes.size ∧ x ≠ n ∧ x < s.nodes.size := by
  obtain ⟨-, -, -, -, -, -, -, -, -, -, hnk⟩ := B.facts
  have h0 := N.lt
  have h1 := N.xlt
  refine ⟨?_, by omega, ?_, by omega⟩
  · intro h
    have := N.conv
    rw [h, hnk] at this
    injection this with e1 e2
    simp only [fnIdent, fnPerKey] at e1
    omega
  · rintro rfl
    obtain ⟨c, hc⟩ := N.xvar
    rw [hnk] at hc; cases hc

/-- the change detector of another operator is not the running change detector -/
theorem LcBase.lc_ne (B : LcBase env s n op pr eres) {op' x e : Nat} {pr' : PerKeyRec}
    (N : OpNodes s op' pr' x e) (hne : op' ≠ op) : pr'.lhsChange ≠ n ∧ pr'.lhsChange < s.nodes.size ∧
      (s.nodeD pr'.lhsChange).kind = .map (fnPerKey + op') [pr'.result - 1] := by
  obtain ⟨-, -, -, -, -, -, -, -, -, -, hnk⟩ := B.facts
  have h0 := N.lt
  have hk : (s.nodeD pr'.lhsChange).kind = .map (fnPerKey + op') [pr'.result - 1] := by
    rw [N.lc]; exact N.lcKind
  refine ⟨?_, by rw [N.lc]; omega, hk⟩
  intro h
  rw [h, hnk] at hk
  injection hk with e1 e2
  exact hne (by omega)

/-- the staleness of the change detector of another operator is unchanged by the whole run -/
theorem lc_stale_other (B : LcBase env s n op pr eres) (E : LE env s n op pr eres m s2) {ch : Bool} {r0 : Int}
    (R : BindH.StepRelB n .unit ch r (unstamp n r0 (V s2)) (V s')) (sf : SF s2 s') {op' x e : Nat}
    {pr' : PerKeyRec} (N : OpNodes s op' pr' x e) (hne : op' ≠ op) :
    s'.isStale pr'.lhsChange = s.isStale pr'.lhsChange := by
  obtain ⟨h1, h2, hk⟩ := B.lc_ne N hne
  obtain ⟨c1, c2, -, -⟩ := B.conv_ne N
  obtain ⟨k1, -, k3, k4⟩ := lc_old_final E R sf h2
  obtain ⟨-, -, k6⟩ := k4 h1
  refine isStale_map_congr hk (by rw [k1]; exact hk) k3 (k6 fun e he => by rw [hk] at he; cases he) fun c hc => ?_
  rw [List.mem_singleton] at hc
  subst hc
  exact ((lc_old_final E R sf c2).2.2.2 c1).2.1


/-! ## the operator records -/

/-- the operator records of the final state -/
theorem lc_perkeys (E : LE env s n op pr eres m s2) (sf : SF s2 s') {op' : Nat} {pr' : PerKeyRec}
    (h : s'.perkeys[op']? = some pr') :
    (op' = op ∧ ∃ pn, pr' = { pr with prevNodes := pn, prevMap := m }) ∨ (op' ≠ op ∧ s.perkeys[op']? = some pr') := by
  rw [sf.perkeys] at h
  by_cases hop : op' = op
  · subst hop
    obtain ⟨pn, hpn⟩ := E.pop
    rw [hpn] at h
    cases h
    exact Or.inl ⟨rfl, pn, rfl⟩
  · rw [E.pother op' hop] at h
    exact Or.inr ⟨hop, h⟩

/-- **the bookkeeping of the running operator in the final state** -/
theorem lc_opok_self (B : LcBase env s n op pr eres) (E : LE env s n op pr eres m s2) {ch : Bool} {r0 : Int}
    (R : BindH.StepRelB n .unit ch r (unstamp n r0 (V s2)) (V s')) (sf : SF s2 s') {pr2 : PerKeyRec}
    (h2 : s2.perkeys[op]? = some pr2) : OpOK env s' op pr2 := by
  obtain ⟨pn, hpn⟩ := E.pop
  rw [hpn] at h2
  cases h2
  have C := E.core _ hpn
  have C' : OpCore env s' op { pr with prevNodes := pn, prevMap := m } :=
    C.bf_same_size (bf_of_sf (fun _ => False) sf (lc_stamp_final B E R)) E.frag sf.size
      (fun e er er' he he' => by
        obtain ⟨er1, he1, -, -, h3, -⟩ := sf.xf.xrec he
        rw [he'] at he1; cases he1; exact h3)
      (fun x _ => (shape_actualV (lc_shv R) x).2.2.2.2.2.1)
  refine C'.toOK (E.dom _ hpn) fun _ => ?_
  obtain ⟨x0, -, hN, -⟩ := B.facts
  obtain ⟨c1, c2, -, -⟩ := B.conv_ne hN
  show (s'.nodeD (pr.result - 1)).value = some (.map m)
  rw [((lc_old_final E R sf c2).2.2.2 c1).1]
  exact E.conv

/-- **the bookkeeping of another operator in the final state** -/
theorem lc_opok_other (B : LcBase env s n op pr eres) (E : LE env s n op pr eres m s2) {ch : Bool} {r0 : Int}
    (R : BindH.StepRelB n .unit ch r (unstamp n r0 (V s2)) (V s')) (sf : SF s2 s') {op' : Nat} {pr' : PerKeyRec}
    (hne : op' ≠ op) (hp : s.perkeys[op']? = some pr') : OpOK env s' op' pr' := by
  have A := B.pd.aux
  have H := A.pk.ops op' pr' hp
  obtain ⟨x, e, er, hN, -⟩ := H.nodes
  obtain ⟨c1, c2, -, -⟩ := B.conv_ne hN
  refine OpOK.bf_other (lc_bf B E R sf) A.frag B.hop hp hne B.opok B.hres H
    (fun x hx => (lc_old_final E R sf hx).2.1) ?_ ?_ (lc_stale_other B E R sf hN hne)
    ((lc_old_final E R sf c2).2.2.2 c1).1
  · intro c x hc1 hc2 hx
    rw [kidsX_frame sf.xf] at hx
    rw [sf.size] at hc2
    exact E.newKids c x hc1 hc2 hx
  · intro er er' he he' ed hed
    obtain ⟨er2, he2, -, -, h3, -⟩ := sf.xf.xrec_back he'
    rw [h3] at hed
    exact E.resKids er er2 he he2 ed hed


theorem lf_observers {D : Nat → Prop} (lf : LF D (started n s) s2) : s2.observers = s.observers := by
  have h := lf.key.trans (eKey_started n s)
  simp only [eKey, Prod.mk.injEq] at h
  exact h.2.2.2.2.2.2.1

/-- **part C, `pk`**: the bookkeeping invariant of the final state -/
theorem lc_pkok (B : LcBase env s n op pr eres) (E : LE env s n op pr eres m s2) {ch : Bool} {r0 : Int}
    (R : BindH.StepRelB n .unit ch r (unstamp n r0 (V s2)) (V s')) (sf : SF s2 s') : PKOK env s' := by
  have A := B.pd.aux
  obtain ⟨pn, hpn⟩ := E.pop
  refine ⟨fun op' pr' h => ?_, ?_, ?_, fun x f args hx hk hf => ?_, fun o ob ho => ?_, fun op' pr' h v hv => ?_⟩
  · -- ops
    rw [sf.perkeys] at h
    by_cases hop : op' = op
    · subst hop; exact lc_opok_self B E R sf h
    · rw [E.pother op' hop] at h
      exact lc_opok_other B E R sf hop h
  · -- recs
    refine recsOK_bf (op := op) A.pk.recs (fun e er he => ?_) (fun e er' he' => ?_) (fun op' pr' hp => ?_)
      (fun e er' hge he' => ?_)
    · obtain ⟨er', he', h1, h2, -⟩ := (lc_bf B E R sf).xrec e er he
      exact ⟨er', he', h2, h1⟩
    · by_cases he : e < s.experts.size
      · exact Or.inl ⟨s.experts[e], Array.getElem?_eq_getElem he⟩
      · exact Or.inr (Nat.le_of_not_lt he)
    · by_cases hop : op' = op
      · subst hop
        rw [B.hop] at hp; cases hp
        exact ⟨{ pr with prevNodes := pn, prevMap := m }, by rw [sf.perkeys]; exact hpn, rfl,
          fun ⟨k, p, d⟩ hx => E.pnOld _ hpn k p d hx⟩
      · exact ⟨pr', by rw [sf.perkeys, E.pother op' hop]; exact hp, rfl, fun _ h => h⟩
    · obtain ⟨er2, he2, -, h2, -, h4, -⟩ := sf.xf.xrec_back he'
      obtain ⟨pr2, key, d, k1, k2, k3⟩ := E.newrec e er2 hge he2
      exact ⟨pr2, key, d, by rw [sf.perkeys]; exact k1, by rw [h4]; exact k2, by rw [h2]; exact k3⟩
  · -- pot
    obtain ⟨ψ, hψ⟩ := E.pot
    exact ⟨ψ, hψ.of_frame sf.size sf.kind (fun e => (xRec_frame sf.xf e).2.1) sf.top sf.perkeys⟩
  · -- lcs
    rw [sf.size] at hx
    rw [sf.kind] at hk
    rw [sf.perkeys]
    by_cases hxs : x < s.nodes.size
    · rw [(lf_old E.lf hxs).1] at hk
      obtain ⟨pr0, hp0, hl0⟩ := A.pk.lcs x f args hxs hk hf
      by_cases hop : f - fnPerKey = op
      · rw [hop] at hp0 ⊢
        rw [B.hop] at hp0; cases hp0
        exact ⟨{ pr with prevNodes := pn, prevMap := m }, hpn, hl0⟩
      · exact ⟨pr0, by rw [E.pother _ hop]; exact hp0, hl0⟩
    · have := (lf_new E.lf (Nat.le_of_not_lt hxs) hx).notLc f args hk
      omega
  · -- obsTop
    rw [sf.stObservers, lf_observers E.lf] at ho
    rw [sf.top, (lf_key E.lf).2.2.2.1]
    exact A.pk.obsTop o ob ho
  · -- maps
    rw [sf.perkeys] at h
    by_cases hop : op' = op
    · subst hop
      rw [hpn] at h; cases h
      obtain ⟨x0, -, hN, -⟩ := B.facts
      obtain ⟨c1, c2, -, -⟩ := B.conv_ne hN
      have hv' : (s.nodeD (pr.result - 1)).value = some v := by
        rw [← ((lc_old_final E R sf c2).2.2.2 c1).1]; exact hv
      exact A.pk.maps op' pr B.hop v hv'
    · rw [E.pother op' hop] at h
      obtain ⟨x, e, er, hN, -⟩ := (A.pk.ops op' pr' h).nodes
      obtain ⟨c1, c2, -, -⟩ := B.conv_ne hN
      exact A.pk.maps op' pr' h v (by rw [← ((lc_old_final E R sf c2).2.2.2 c1).1]; exact hv)

end

end IncrVerif.Proofs.PerKeyH
