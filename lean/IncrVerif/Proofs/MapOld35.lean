import IncrVerif.Proofs.MapOld34
/-!
# parsed values are canonical: the history parser normalises map literals (`canonPairs`), so every value of a parsed
history satisfies `Canon`
-/
namespace IncrVerif.Proofs.MapOldH
open IncrVerif IncrVerif.Engine IncrVerif.Driver

theorem canonPairs_ins_sorted (acc : List (Int × Int)) (kv : Int × Int) (h : AMap.Sorted acc) :
    AMap.Sorted ((acc.filter fun x => x.1 < kv.1) ++ [kv] ++ (acc.filter fun x => kv.1 < x.1)) := by
  unfold AMap.Sorted AMap.keys at *
  simp only [List.map_append, List.map_cons, List.map_nil]
  have h1 : List.Pairwise (· < ·) ((acc.filter fun x => x.1 < kv.1).map (·.1)) :=
    h.sublist (List.Sublist.map _ List.filter_sublist)
  have h2 : List.Pairwise (· < ·) ((acc.filter fun x => kv.1 < x.1).map (·.1)) :=
    h.sublist (List.Sublist.map _ List.filter_sublist)
  have m1 : ∀ a, a ∈ (acc.filter fun x => x.1 < kv.1).map (·.1) → a < kv.1 := by
    intro a ha
    obtain ⟨x, hx, rfl⟩ := List.mem_map.1 ha
    simpa using (List.mem_filter.1 hx).2
  have m2 : ∀ b, b ∈ (acc.filter fun x => kv.1 < x.1).map (·.1) → kv.1 < b := by
    intro b hb
    obtain ⟨x, hx, rfl⟩ := List.mem_map.1 hb
    simpa using (List.mem_filter.1 hx).2
  rw [List.pairwise_append, List.pairwise_append]
  refine ⟨⟨h1, List.pairwise_singleton _ _, fun a ha b hb => ?_⟩, h2, fun a ha b hb => ?_⟩
  · simp only [List.mem_singleton] at hb; rw [hb]; exact m1 a ha
  · rcases List.mem_append.1 ha with ha | ha
    · exact Int.lt_trans (m1 a ha) (m2 b hb)
    · simp only [List.mem_singleton] at ha; rw [ha]; exact m2 b hb

theorem canonPairs_sorted (l : List (Int × Int)) : AMap.Sorted (canonPairs l) := by
  unfold canonPairs
  have : ∀ (l : List (Int × Int)) (acc : List (Int × Int)), AMap.Sorted acc →
      AMap.Sorted (l.foldl (fun (acc : List (Int × Int)) (kv : Int × Int) =>
        (acc.filter fun x => x.1 < kv.1) ++ [kv] ++ (acc.filter fun x => kv.1 < x.1)) acc) := by
    intro l
    induction l with
    | nil => intro acc h; exact h
    | cons kv l ih => intro acc h; exact ih _ (canonPairs_ins_sorted acc kv h)
  exact this l [] (by unfold AMap.Sorted AMap.keys; exact List.Pairwise.nil)

/-- every value the history parser produces is canonical -/
theorem parseVal_canon {str : String} {v : Val} (h : parseVal str = some v) : Canon v := by
  unfold parseVal at h
  simp only at h
  split at h
  · cases h; exact canon_unit
  · split at h
    · cases hp : parsePairs (((trim str).drop 1).dropEnd 1).toString with
      | none => rw [hp] at h; cases h
      | some l =>
        rw [hp] at h
        cases h
        exact canon_map.2 (canonPairs_sorted l)
    · split at h
      · split at h
        · rename_i a b _
          cases ha : parseInt? a with
          | none => simp [ha] at h
          | some x =>
            cases hb : parseInt? b with
            | none => simp [ha, hb] at h
            | some y =>
              simp [ha, hb] at h
              rw [← h]
              exact canon_pair.2 ⟨canon_int x, canon_int y⟩
        · cases h
      · cases hi : parseInt? (trim str) with
        | none => rw [hi] at h; cases h
        | some x => rw [hi] at h; cases h; exact canon_int x

end IncrVerif.Proofs.MapOldH
