import IncrVerif.Proofs.ExpertH68
/-!
# Expert nodes, E2: fragment X2 = X1 + closures that read the slots ("cbsum"), all of whose dependencies have callbacks

`stabilise_eq`, `step_eq`, `run_eq`: the engine behaves identically under `env` and `envS env`; hence the whole-history
theorems of fragment X1 (for `envS env`) hold for the actual runs under `env` (`history_stabilise_x2`).
-/
namespace IncrVerif.Proofs.ExpertH
open IncrVerif.Engine IncrVerif.Driver IncrVerif.Proofs IncrVerif.Proofs.Step IncrVerif.Proofs.Sched
open IncrVerif.Proofs.ExpertH.QR IncrVerif.Proofs.Xp

section
variable {env : Env}

/-- **`stabilise` behaves identically under `env` and `envS env`** -/
theorem stabilise_eq {rk : Nat → Nat} {fuel : Nat} {s : State} (Q : QInvX (envS env) rk s)
    (L : SlotInv (envS env) s) (C : CbInv env s) :
    (stabilise env fuel).run.run s = (stabilise (envS env) fuel).run.run s := by
  unfold stabilise
  rw [show addNewObservers (envS env) fuel = addNewObservers env fuel from addNewObservers_withX env _ fuel,
    show stabiliseEnd (envS env) fuel = stabiliseEnd env fuel from stabiliseEnd_withX env _ fuel]
  rw [run_bind_get, run_bind_get]
  refine bind_run_congr rfl fun _ sa ha => ?_
  have hsa : sa = s := by
    rw [run_assertM] at ha
    split at ha <;> cases ha
    rfl
  rw [hsa, run_bind_modify, run_bind_modify]
  refine bind_run_congr rfl fun _ t1 h1 => ?_
  refine bind_run_congr rfl fun _ t2 h2 => ?_
  have h1' : (addNewObservers (envS env) fuel).run.run { s with status := .stabilising } = (.ok (), t1) := by
    rw [show addNewObservers (envS env) fuel = addNewObservers env fuel from addNewObservers_withX env _ fuel]
    exact h1
  obtain ⟨D2, U2⟩ := stabilise_prefixX Q h1' h2
  have hv0 : ∀ m, (({ s with status := .stabilising } : State).nodeD m).valid = true := Q.frag.validD
  have hp0 : ({ s with status := .stabilising } : State).propagateInvalidity = [] := Q.pinv
  have L1 := addNewObservers_slots hv0 hp0 (slotInv_status L .stabilising) h1'
  have hv1 : ∀ m, (t1.nodeD m).valid = true :=
    (((PresC.addNewObservers (envS env) fuel).h _ _ _ h1') hv0 hp0).1.allValid hv0
  have L2 := unlinkDisallowedObservers_slots hv1 L1 h2
  have C0 : CbInv env ({ s with status := .stabilising } : State) := C
  have C2 : CbInv env t2 :=
    (C0.of_xw (XW.of_xf ((PresX.addNewObservers (envS env) fuel).h _ _ _ h1'))).of_xw
      (XW.of_xf ((PresX.unlinkDisallowedObservers fuel).h _ _ _ h2))
  exact bind_run_congr (drainHeap_eq fuel t2 D2 U2 L2 C2) fun _ _ _ => rfl

/-- `stabilise` keeps `CbInv` -/
theorem stabilise_cbInv {rk : Nat → Nat} {fuel : Nat} {s s' : State} (Q : QInvX (envS env) rk s) (C : CbInv env s)
    (h : (stabilise (envS env) fuel).run.run s = (.ok (), s')) : CbInv env s' := by
  have R := stabiliseX Q h
  intro e er' he'
  -- kinds/records: `f` and `children` are kept by every phase; use the from-scratch frame of `StabilisedX`
  obtain ⟨t1, t2, t3, h1, h2, D2, U2, h3, -, E⟩ := R.runs
  have C0 : CbInv env ({ s with status := .stabilising } : State) := C
  have C2 : CbInv env t2 :=
    (C0.of_xw (XW.of_xf ((PresX.addNewObservers (envS env) fuel).h _ _ _ h1))).of_xw
      (XW.of_xf ((PresX.unlinkDisallowedObservers fuel).h _ _ _ h2))
  have C3 : CbInv env t3 := by
    -- through the drain
    have key : ∀ (fuel : Nat) (s s' : State), DInvX (envS env) s none → UnnecOK (virtEnv (envS env)) (virt s) →
        CbInv env s → (drainHeap (envS env) fuel).run.run s = (.ok (), s') → CbInv env s' := by
      intro fuel
      induction fuel with
      | zero => intro s s' _ _ _ h; unfold drainHeap at h; cases h
      | succ fuel ih =>
        intro s s' D U C h
        unfold drainHeap at h
        obtain ⟨r, s1, h1, h2⟩ := bind_ok_inv h
        cases r with
        | none =>
          have C1 : CbInv env s1 := C.of_xw (XW.of_xf ((PresX.rchRemoveMin).h _ _ _ h1))
          obtain ⟨-, e⟩ := pure_ok_inv h2
          rw [e]; exact C1
        | some n =>
          obtain ⟨_, s2, h3, h4⟩ := bind_ok_inv h2
          obtain ⟨hv, F1, hp1, A1⟩ := popX D h1
          obtain ⟨I1, -⟩ := pop_inv D.inv hv
          have D1 : DInvX (envS env) s1 (some n) := ⟨F1, I1, hp1, A1⟩
          have U1 := pop_unnec D.inv.heap U hv
          have C1 : CbInv env s1 := C.of_xw (XW.of_xf ((PresX.rchRemoveMin).h _ _ _ h1))
          obtain ⟨D2, -⟩ := recomputeX_inv fuel n s1 s2 D1 h3
          obtain ⟨U2, C2⟩ := recompute_keeps fuel n s1 s2 D1 U1 C1 h3
          exact ih s2 s' D2 U2 C2 h4
    exact key fuel t2 t3 D2 U2 C2 h3
  rw [E.experts] at he'
  exact C3 e er' he'

end

/-! ## fragment X2 -/

/-- the API actions of fragment X2: those of X1 relative to `envS env` (so `create (expert f)` needs `XEnvCb env f`), and
an `addDep` WITHOUT callback only on an expert node whose closure does not read the slots -/
def XActionOK2 (env : Env) (s : State) : Action → Prop
  | .addDep eo co cb => AddDepOK s eo co ∧ (cb = true ∨
      ∀ kn n e er, eo = .outer kn → s.top[kn]? = some n → (s.nodeD n).kind = .expert e →
        s.experts[e]? = some er → XEnvOK env er.f)
  | a => XActionOK (envS env) s a

theorem XActionOK2.x1 {env : Env} {s : State} {a : Action} (h : XActionOK2 env s a) : XActionOK (envS env) s a := by
  cases a <;> first | exact h | exact h.1

section
variable {env : Env}

theorem cbInv_added {s : State} {e c : Nat} {er : ExpertRec} {cb : Bool} (C : CbInv env s)
    (hx : s.experts[e]? = some er) (hcb : cb = true ∨ XEnvOK env er.f) : CbInv env (addedState e er c cb s) := by
  intro e' er' he'
  by_cases h : e' = e
  · subst h
    rw [addedState_get hx] at he'
    cases he'
    rcases C e' er hx with hok | hall
    · exact Or.inl hok
    · rcases hcb with hcb | hok
      · refine Or.inr fun ed hed => ?_
        rcases List.mem_append.1 hed with h1 | h1
        · exact hall ed h1
        · have : ed = newEdge s c cb := by simpa using h1
          rw [this, hcb]; rfl
      · exact Or.inl hok
  · rw [addedState_get_ne h] at he'; exact C e' er' he'

/-- `addDep` keeps `CbInv` -/
theorem addDep_cbInv {rk : Nat → Nat} {s s' : State} {eo co : Opnd} {cb : Bool} {tk : Array Nat}
    {r : String × Array Nat} (Q : QInvX (envS env) rk s) (C : CbInv env s)
    (hok : XActionOK2 env s (.addDep eo co cb))
    (h : (stepAction (envS env) (.addDep eo co cb) tk).run.run s = (.ok r, s')) : CbInv env s' := by
  obtain ⟨hok1, hok2⟩ := hok
  cases eo <;> try exact hok1.elim
  rename_i kn
  cases co <;> try exact hok1.elim
  rename_i kc
  unfold stepAction at h
  dsimp only at h
  obtain ⟨n, s1, h1, h⟩ := bind_ok_inv h
  obtain ⟨e1, hn⟩ := resolve_outer_inv h1
  rw [e1] at h
  obtain ⟨c, s2, h2, h⟩ := bind_ok_inv h
  obtain ⟨e2, hcc⟩ := resolve_outer_inv h2
  rw [e2] at h
  obtain ⟨dep, s3, h3, h⟩ := bind_ok_inv h
  obtain ⟨-, e3⟩ := pure_ok_inv h
  rw [← e3] at h3
  obtain ⟨⟨e, hk⟩, hacyc⟩ := hok1 n c hn hcc
  have hnlt : n < s.nodes.size := Q.frag.lt_of_expert hk
  have hclt : c < s.nodes.size := by
    have := Q.q.top kc c hcc; rwa [virt_size] at this
  obtain ⟨er, hx, -⟩ := Q.frag.xrec n e hnlt hk
  have hX : IsExpert s n (s.nodeD n) e er := ⟨some_of_lt hnlt, Q.frag.valid n hnlt, hk, hx⟩
  have hcb : cb = true ∨ XEnvOK env er.f := hok2.elim Or.inl fun h => Or.inr (h kn n e er rfl hn hk hx)
  have CA := cbInv_added (c := c) C hx hcb
  cases hnec : (s.nodeD n).isNecessary with
  | false =>
    obtain ⟨rk', -, -, -, e'⟩ := addDep_unnec Q.frag Q.q Q.ahh hX hnec hclt hacyc h3
    rw [e']; exact CA
  | true =>
    rw [expertAddDependency_necessary_factor (envS env) fuelDefault n c cb hX hnec] at h3
    have hP : Step.Pres XF (do stateAddParent (envS env) fuelDefault c er.children.length n
                               dassert ((← get).needsToBeComputed n) "node:expert_add_dependency:needs-to-be-computed"
                               if !(← getNode n).inRch then rchInsert n
                               pure s.nextDep : M Nat) := by qpres
    exact CA.of_xw (XW.of_xf (hP.h _ _ _ h3))

/-- every action of fragment X2 keeps `CbInv` -/
theorem step_cbInv {rk : Nat → Nat} {s s' : State} {a : Action} {tk : Array Nat} {r : String × Array Nat}
    (Q : QInvX (envS env) rk s) (C : CbInv env s) (ha : XActionOK2 env s a)
    (h : (stepAction (envS env) a tk).run.run s = (.ok r, s')) : CbInv env s' := by
  by_cases h1 : ∃ eo co cb, a = .addDep eo co cb
  · obtain ⟨eo, co, cb, rfl⟩ := h1
    exact addDep_cbInv Q C ha h
  by_cases h2 : a = .stabilise
  · subst h2; exact stabilise_cbInv Q C (step_stabilise h)
  by_cases h3 : ∃ i, a = .create i
  · obtain ⟨i, rfl⟩ := h3
    by_cases h4 : ∃ f, i = .expert f
    · obtain ⟨f, rfl⟩ := h4
      have hsc : s.currentScope = .top := Q.q.struct.static.scope
      rw [step_create_expert_inv hsc h]
      intro e er he
      have he' : (s.experts.push { f := f, node := s.nodes.size })[e]? = some er := he
      by_cases hlt : e < s.experts.size
      · rw [Array.getElem?_push_lt hlt] at he'
        exact C e er (by rw [Array.getElem?_eq_getElem hlt]; exact he')
      · by_cases heq : e = s.experts.size
        · subst heq
          simp at he'
          subst he'
          exact Or.inr fun ed hed => by cases hed
        · rw [Array.getElem?_eq_none (by simp; omega)] at he'; cases he'
    · have hst : XStaticAction (envS env) (.create i) := by
        cases i <;> first | exact ha | exact absurd ⟨_, rfl⟩ h4
      obtain ⟨-, hx, -⟩ := create_pushed hst h
      intro e er he; rw [hx] at he; exact C e er he
  · have hx : XAct a := by
      cases a <;> first | trivial | exact absurd rfl h2 | exact absurd ⟨_, rfl⟩ h3 | exact absurd ⟨_, _, _, rfl⟩ h1
    exact C.of_xw (XW.of_xf ((PresX.stepAction (envS env) a tk hx).h _ _ _ h))

/-- **every action of fragment X2 behaves identically under `env` and `envS env`** -/
theorem step_eq {rk : Nat → Nat} {s : State} {a : Action} {tk : Array Nat} (Q : QInvX (envS env) rk s)
    (L : SlotInv (envS env) s) (C : CbInv env s) :
    (stepAction env a tk).run.run s = (stepAction (envS env) a tk).run.run s := by
  by_cases h : a = .stabilise
  · subst h
    unfold stepAction
    dsimp only
    exact bind_run_congr (stabilise_eq Q L C) fun _ _ _ => rfl
  · rw [show stepAction (envS env) a tk = stepAction env a tk from stepAction_withX env _ a tk h]

/-- every action of a run is an action of fragment X2, in the state in which it is executed -/
def RunOK2 (env : Env) : List Action → State → Array Nat → Prop
  | [], _, _ => True
  | a :: as, s, tk => XActionOK2 env s a ∧
      ∀ r s', (stepAction env a tk).run.run s = (.ok r, s') → RunOK2 env as s' r.2

theorem RunOK2.append {as bs : List Action} {s s1 : State} {tk tk1 : Array Nat}
    (h : RunOK2 env (as ++ bs) s tk) (h1 : runActions env as s tk = .ok (s1, tk1)) :
    RunOK2 env as s tk ∧ RunOK2 env bs s1 tk1 := by
  induction as generalizing s tk with
  | nil => simp only [runActions] at h1; cases h1; exact ⟨trivial, h⟩
  | cons a as ih =>
    simp only [runActions] at h1
    rcases hx : (stepAction env a tk).run.run s with ⟨_ | r, s2⟩
    · rw [hx] at h1; cases h1
    · rw [hx] at h1
      obtain ⟨ha, hrest⟩ := h
      obtain ⟨i1, i2⟩ := ih (hrest r s2 hx) h1
      refine ⟨⟨ha, fun r' s' hx' => ?_⟩, i2⟩
      rw [hx] at hx'; cases hx'; exact i1

/-- **whole runs**: identical under `env` and `envS env`; a run of X2 under `env` is a run of X1 under `envS env`; the
three invariants hold at the end -/
theorem run_eq {rk : Nat → Nat} {acts : List Action} {s : State} {tk : Array Nat} (Q : QInvX (envS env) rk s)
    (L : SlotInv (envS env) s) (C : CbInv env s) (ha : RunOK2 env acts s tk) :
    runActions env acts s tk = runActions (envS env) acts s tk ∧ RunOK (envS env) acts s tk ∧
      ∀ s' tk', runActions (envS env) acts s tk = .ok (s', tk') →
        ∃ rk', QInvX (envS env) rk' s' ∧ SlotInv (envS env) s' ∧ CbInv env s' := by
  induction acts generalizing s tk rk with
  | nil => exact ⟨rfl, trivial, fun s' tk' h => by simp only [runActions] at h; cases h; exact ⟨rk, Q, L, C⟩⟩
  | cons a as ih =>
    have he := step_eq (a := a) (tk := tk) Q L C
    simp only [runActions]
    rcases hx : (stepAction (envS env) a tk).run.run s with ⟨_ | r, s1⟩
    · rw [hx] at he
      refine ⟨by rw [he], ⟨ha.1.x1, fun r s' hr => ?_⟩, fun s' tk' h => by cases h⟩
      rw [hx] at hr; cases hr
    · rw [hx] at he
      obtain ⟨rk1, Q1⟩ := step_x Q ha.1.x1 hx
      have L1 := step_x_slots Q L ha.1.x1 hx
      have C1 := step_cbInv Q C ha.1 hx
      obtain ⟨i1, i2, i3⟩ := ih Q1 L1 C1 (ha.2 r s1 he)
      refine ⟨by rw [he]; exact i1, ⟨ha.1.x1, fun r' s' hr => ?_⟩, i3⟩
      rw [hx] at hr; cases hr; exact i2

theorem cbInv_init (env : Env) (N : Nat) (d : Bool) : CbInv env (State.init N d) :=
  fun e er h => by simp [State.init] at h

/-- `evalX` does not read the closure table -/
theorem evalX_envS (s : State) (k n : Nat) : evalX (envS env) s k n = evalX env s k n := by
  induction k generalizing n with
  | zero => rfl
  | succ k ih =>
    unfold evalX
    have : (fun a => evalX (envS env) s k a) = fun a => evalX env s k a := funext ih
    rw [this]
    rfl

theorem readsOKX_envS {s : State} (h : ReadsOKX (envS env) s) : ReadsOKX env s := by
  intro o ob ho hst k hk
  obtain ⟨v, h1, h2⟩ := h o ob ho hst k hk
  exact ⟨v, h1, by rw [← evalX_envS]; exact h2⟩

/-- **E2 for fragment X2 (closures that read the slots).**  At every `stabilise` of a history of X2 that runs (under the
ACTUAL environment `env`) from the initial state: afterwards every observer in use reads `evalX` of its node (an expert
node, also a "cbsum" one: the sum of the from-scratch values of its current dependencies), every callback slot of every
necessary expert node is current, and both invariants hold (for `envS env`). -/
theorem history_stabilise_x2 {N : Nat} {d : Bool} {as bs : List Action} {s : State} {tk : Array Nat}
    (ha : RunOK2 env (as ++ Action.stabilise :: bs) (State.init N d) #[])
    (h : runActions env (as ++ Action.stabilise :: bs) (State.init N d) #[] = .ok (s, tk)) :
    ∃ s1 tk1 s2 rk1, runActions env as (State.init N d) #[] = .ok (s1, tk1) ∧ QInvX (envS env) rk1 s1 ∧
      SlotInv (envS env) s1 ∧ CbInv env s1 ∧
      (stabilise env fuelDefault).run.run s1 = (.ok (), s2) ∧ StabilisedX (envS env) rk1 fuelDefault s1 s2 ∧
      SlotInv (envS env) s2 ∧ SlotsCurrent env s2 ∧ ReadsOKX env s2 ∧
      runActions env bs s2 tk1 = .ok (s, tk) := by
  obtain ⟨s1, tk1, hp1, hp2⟩ := runActions_prefix h
  obtain ⟨i1, i2⟩ := ha.append hp1
  obtain ⟨e1, -, fin1⟩ :=
    run_eq (qinvX_init (envS env) N d) (slotInv_init (envS env) N d) (cbInv_init env N d) i1
  obtain ⟨rk1, Q1, L1, C1⟩ := fin1 s1 tk1 (by rw [← e1]; exact hp1)
  simp only [runActions] at hp2
  rcases hx : (stepAction env .stabilise tk1).run.run s1 with ⟨_ | r, s2⟩
  · rw [hx] at hp2; cases hp2
  · rw [hx] at hp2
    replace hp2 : runActions env bs s2 r.2 = .ok (s, tk) := hp2
    have hst := step_stabilise hx
    have hr : r.2 = tk1 := by
      unfold stepAction at hx
      dsimp only at hx
      obtain ⟨u, s1', h1', h2'⟩ := bind_ok_inv hx
      obtain ⟨e, -⟩ := pure_ok_inv h2'
      subst e; rfl
    rw [hr] at hp2
    have hst' : (stabilise (envS env) fuelDefault).run.run s1 = (.ok (), s2) := by
      rw [← stabilise_eq Q1 L1 C1]; exact hst
    have R := stabiliseX Q1 hst'
    have L2 := stabilise_slots Q1 L1 hst'
    have SC' : SlotsCurrent (envS env) s2 := slotsCurrent_of_stabilised R L2
    have SC : SlotsCurrent env s2 := SC'
    exact ⟨s1, tk1, s2, rk1, hp1, Q1, L1, C1, hst, R, L2, SC, readsOKX_envS (stabilisedX_reads R).1, hp2⟩

end
end IncrVerif.Proofs.ExpertH
