import IncrVerif.Proofs.TidyH25
/-!
# T3b part 2: one immediate write returns; the var phase of `stabilise_end` and the handlers' writes return

`didSet_returns`: `did_set_var_while_not_stabilising` cannot fail on a linked cell whose watch node is valid, has an
old stamp and a height within the heap.  `EP`: what the end phase of `stabilise` keeps (the subscription invariant
read with the status reset, the height bound, the room, linked cells with live handles, the bound on written
variables).
-/
namespace IncrVerif.Proofs.TidyH.EffT
open IncrVerif.Engine IncrVerif.Driver IncrVerif.Proofs IncrVerif.Proofs.Step IncrVerif.Proofs.Sched
open IncrVerif.Proofs.Quiet IncrVerif.Proofs.EffH

/-- **`did_set_var_while_not_stabilising` returns** -/
theorem didSet_returns {s : State} {v : Nat} {vc : VarCell} (hv : s.vars[v]? = some vc)
    (hl : vc.linked = true) (hlt : vc.node < s.nodes.size) (hkind : (s.nodeD vc.node).kind = .var v)
    (hvalid : (s.nodeD vc.node).valid = true) (hrec : (s.nodeD vc.node).recomputedAt < s.stabNum)
    (hh : s.isNecessary vc.node = true →
      0 ≤ (s.nodeD vc.node).height ∧ (s.nodeD vc.node).height ≤ s.rch.maxAllowed) :
    ∃ s', (didSetVarWhileNotStabilising v).run.run s = (.ok (), s') := by
  rw [didSet_run v s vc hv, if_neg (by rw [hl]; intro e; cases e)]
  by_cases h2 : s.stabNum ≤ vc.setAt
  · rw [if_pos h2]; exact ⟨_, rfl⟩
  rw [if_neg h2]
  dsimp only
  have hn : (bumped (withCell v { vc with setAt := s.stabNum } s)).nodes[vc.node]? = some (s.nodeD vc.node) := by
    show s.nodes[vc.node]? = _
    rw [State.nodeD, Array.getElem?_eq_getElem hlt]; rfl
  have hstale : (bumped (withCell v { vc with setAt := s.stabNum } s)).isStale vc.node = true := by
    have hc : (bumped (withCell v { vc with setAt := s.stabNum } s)).vars[v]? =
        some { vc with setAt := s.stabNum } := withCell_get v _ vc s hv
    rw [isStale_var _ _ v _ _ hn hkind hc, hvalid]
    simpa using hrec
  rw [if_neg (by rw [hvalid, hstale]; rintro ⟨-, h⟩; cases h)]
  by_cases h4 : ((s.nodeD vc.node).valid && s.isNecessary vc.node && !(s.nodeD vc.node).inRch) = true
  · rw [if_pos h4]
    have h4' : (s.nodeD vc.node).valid = true ∧ s.isNecessary vc.node = true ∧
        (s.nodeD vc.node).inRch = false := by
      simp only [Bool.and_eq_true, Bool.not_eq_true'] at h4
      exact ⟨h4.1.1, h4.1.2, h4.2⟩
    obtain ⟨h0, hle⟩ := hh h4'.2.1
    rw [rchInsert_run, hn]
    dsimp only
    have hpre : ¬ ((bumped (withCell v { vc with setAt := s.stabNum } s)).cfg.debug = true ∧
        (!(s.nodeD vc.node).inRch &&
          (bumped (withCell v { vc with setAt := s.stabNum } s)).needsToBeComputed vc.node) = false) := by
      rintro ⟨-, hp⟩
      have hnec : (bumped (withCell v { vc with setAt := s.stabNum } s)).isNecessary vc.node = true := h4'.2.1
      simp [State.needsToBeComputed, hstale, hnec, h4'.2.2] at hp
    have e2 : (bumped (withCell v { vc with setAt := s.stabNum } s)).rch = s.rch := rfl
    rw [if_neg hpre, e2, if_neg (by rintro ⟨-, h⟩; omega), if_neg (by omega), if_neg (by omega)]
    exact ⟨_, rfl⟩
  · rw [if_neg h4]; exact ⟨_, rfl⟩

/-- what the end phase of `stabilise` (var phase, update handlers with immediate writes) keeps -/
structure EP (env0 : Env) (N B : Nat) (t : State) : Prop where
  q : SubsH.QInv env0 (quiet t)
  hb : HBo t allClosed
  room : Room N t
  linked : ∀ (c : Nat) (vc : VarCell), t.vars[c]? = some vc → vc.linked = true
  handles : HandlesOK t
  bound : B ≤ t.vars.size

/-- `did_set` after the cell `v` was overwritten by a cell watching the same node -/
theorem EP.didSet_returns {env0 : Env} {N B : Nat} {t : State} (E : EP env0 N B t) {v : Nat} {vc0 vc1 : VarCell}
    (hv : t.vars[v]? = some vc0) (hnode : vc1.node = vc0.node) (hl : vc1.linked = vc0.linked) :
    ∃ s', (didSetVarWhileNotStabilising v).run.run (withCell v vc1 t) = (.ok (), s') := by
  have Q := E.q
  have I : GInv env0 (quiet t) allClosed := Q.struct
  have hcell := Q.vars.cell v vc0 hv
  have hsz : vc0.node < t.nodes.size := hcell.1
  have hkn : (t.nodeD vc0.node).kind = .var v := hcell.2
  have hval : (t.nodeD vc0.node).valid = true := (I.node hcell.1).valid
  have hst : (t.nodeD vc0.node).recomputedAt < t.stabNum := (Q.stamps vc0.node).1
  refine EffT.didSet_returns (s := withCell v vc1 t) (vc := vc1) (withCell_get v vc1 vc0 t hv)
    (by rw [hl]; exact E.linked v vc0 hv) (by rw [hnode]; exact hsz) (by rw [hnode]; exact hkn)
    (by rw [hnode]; exact hval) (by rw [hnode]; exact hst) ?_
  rw [hnode]
  intro hnec
  have hnec' : t.isNecessary vc0.node = true := hnec
  have h0 : 0 ≤ (t.nodeD vc0.node).height := I.hpos _ hnec' rfl
  have hle := E.hb _ hnec' rfl
  have hmax : t.rch.maxAllowed = (N : Int) := E.room.rch
  have hN := E.room.size
  refine ⟨h0, ?_⟩
  show (t.nodeD vc0.node).height ≤ t.rch.maxAllowed
  omega

/-- the frame of one immediate write, as far as `EP` reads it -/
structure Wr (t t' : State) : Prop where
  size : t'.nodes.size = t.nodes.size
  node : ∀ m, ∃ h b, t'.nodeD m = { t.nodeD m with heightInRch := h, inHandleAfterStab := b }
  ahh : t'.ahh = t.ahh
  qsize : t'.rch.queues.size = t.rch.queues.size
  vsize : t'.vars.size = t.vars.size
  cell : ∀ (w : Nat) (c : VarCell), t.vars[w]? = some c →
    ∃ c', t'.vars[w]? = some c' ∧ c'.linked = c.linked ∧ c'.handles = c.handles

theorem Wr.refl (t : State) : Wr t t := ⟨rfl, fun _ => ⟨_, _, rfl⟩, rfl, rfl, rfl, fun _ c h => ⟨c, h, rfl, rfl⟩⟩

theorem Wr.trans {a b c : State} (h1 : Wr a b) (h2 : Wr b c) : Wr a c := by
  refine ⟨h2.size.trans h1.size, fun m => ?_, h2.ahh.trans h1.ahh, h2.qsize.trans h1.qsize,
    h2.vsize.trans h1.vsize, fun w x hx => ?_⟩
  · obtain ⟨x, bx, hx⟩ := h1.node m
    obtain ⟨y, b2, hy⟩ := h2.node m
    exact ⟨y, b2, by rw [hy, hx]⟩
  · obtain ⟨y, hy, l1, k1⟩ := h1.cell w x hx
    obtain ⟨z, hz, l2, k2⟩ := h2.cell w y hy
    exact ⟨z, hz, l2.trans l1, k2.trans k1⟩

theorem Wr.back {t t' : State} (W : Wr t t') {w : Nat} {c' : VarCell} (h : t'.vars[w]? = some c') :
    ∃ c, t.vars[w]? = some c ∧ c'.linked = c.linked ∧ c'.handles = c.handles := by
  have hlt : w < t.vars.size := W.vsize ▸ e2_lt_of_some h
  obtain ⟨c, hc⟩ := e2_some_of_lt hlt
  obtain ⟨c2, h2, h3, h4⟩ := W.cell w c hc
  rw [h] at h2; cases h2
  exact ⟨c, hc, h3, h4⟩

theorem EP.step {env0 : Env} {N B : Nat} {t t' : State} (E : EP env0 N B t) (W : Wr t t')
    (Q' : SubsH.QInv env0 (quiet t')) : EP env0 N B t' := by
  have hnec : ∀ m, t'.isNecessary m = t.isNecessary m := by
    intro m
    obtain ⟨h, b, e⟩ := W.node m
    rw [State.isNecessary, State.isNecessary, e]; rfl
  have hh : ∀ m, (t'.nodeD m).height = (t.nodeD m).height := by
    intro m
    obtain ⟨h, b, e⟩ := W.node m
    rw [e]
  refine ⟨Q', fun m hm ho => ?_, ⟨by rw [W.ahh]; exact E.room.ahh, ?_, by rw [W.size]; exact E.room.size⟩,
    fun w c' h => ?_, fun w c' h => ?_, by rw [W.vsize]; exact E.bound⟩
  · rw [hnec] at hm; rw [hh]; exact E.hb m hm ho
  · rw [← E.room.rch]; exact maxAllowed_congr W.qsize
  · obtain ⟨c, hc, hl, -⟩ := W.back h
    rw [hl]; exact E.linked w c hc
  · obtain ⟨c, hc, -, hk⟩ := W.back h
    rw [hk]; exact E.handles w c hc

theorem didSetFinal_qsize (v : Nat) (vc : VarCell) (s : State) :
    (didSetFinal v vc s).rch.queues.size = s.rch.queues.size := by
  unfold didSetFinal
  split
  · rfl
  · split
    · simp [inserted, bumped, withCell]
    · rfl

theorem didSetFinal_ahh (v : Nat) (vc : VarCell) (s : State) : (didSetFinal v vc s).ahh = s.ahh := by
  unfold didSetFinal
  split
  · rfl
  · split <;> rfl

theorem applyCell_linked (now : Int) (c : VarCell) : (applyCell now c).linked = c.linked := by
  unfold applyCell; split <;> rfl

theorem applyCell_handles' (now : Int) (c : VarCell) : (applyCell now c).handles = c.handles := by
  unfold applyCell; split <;> rfl

/-! ## the var phase -/

/-- one deferred write of the var phase returns -/
theorem applyPending_total {env0 : Env} {N B : Nat} {t : State} {v : Nat} (E : EP env0 N B t)
    (hv : v < t.vars.size) :
    ∃ c, (applyPending v).run.run t = (.ok (), c) ∧ EP env0 N B c ∧ Wr t c ∧ c.status = t.status := by
  obtain ⟨vc, hvc⟩ := e2_some_of_lt hv
  have hrun := applyPending_run v t
  rw [hvc] at hrun
  dsimp only at hrun
  cases hp : vc.pending with
  | none =>
    rw [hp] at hrun
    exact ⟨t, hrun, E, Wr.refl t, rfl⟩
  | some x =>
    rw [hp] at hrun
    dsimp only at hrun
    obtain ⟨c, hc⟩ := E.didSet_returns (vc1 := { vc with pending := none, value := x }) hvc rfl rfl
    rw [hc] at hrun
    obtain ⟨Q', A⟩ := applyPending_qU E.q hrun
    obtain ⟨vc', hv', hvc', hoth, -, hst, -, -⟩ := applyPending_ok v t c () hrun
    rw [hvc] at hv'; cases hv'
    have hfin := (e6_didSet_ok v _ _ _ _ (withCell_get v { vc with pending := none, value := x } vc t hvc) hc).1
    have W : Wr t c := by
      refine ⟨A.size, fun m => (A.node m).elim fun h e => ⟨h, _, e⟩, ?_, ?_, A.vsize, fun w cw hw => ?_⟩
      · rw [hfin, didSetFinal_ahh]; rfl
      · rw [hfin, didSetFinal_qsize]; rfl
      · by_cases e : w = v
        · rw [e] at hw ⊢
          rw [hvc] at hw; cases hw
          exact ⟨_, hvc', applyCell_linked _ _, applyCell_handles' _ _⟩
        · exact ⟨cw, by rw [hoth w e]; exact hw, rfl, rfl⟩
    exact ⟨c, hrun, E.step W Q', W, hst⟩

/-- **the var phase returns** when every variable on the stack exists -/
theorem applyAll_total {env0 : Env} {N B : Nat} : ∀ (stack : List Nat) (t : State), EP env0 N B t →
    (∀ v, v ∈ stack → v < t.vars.size) →
    ∃ c, (applyAll stack).run.run t = (.ok (), c) ∧ EP env0 N B c ∧ Wr t c ∧ c.status = t.status := by
  intro stack
  induction stack with
  | nil => intro t E _; exact ⟨t, rfl, E, Wr.refl t, rfl⟩
  | cons v vs ih =>
    intro t E hs
    obtain ⟨c1, h1, E1, W1, s1⟩ := applyPending_total E (hs v (List.mem_cons_self ..))
    obtain ⟨c2, h2, E2, W2, s2⟩ := ih c1 E1 (fun w hw => by
      rw [W1.vsize]; exact hs w (List.mem_cons_of_mem _ hw))
    refine ⟨c2, ?_, E2, W1.trans W2, s2.trans s1⟩
    simp only [applyAll]
    rw [run_bind_ok h1]; exact h2

/-! ## immediate writes of update handlers -/

theorem write_imm_run (v : Nat) (f : Val → Val) (isSet : Bool) (k : Val → M Unit) (note : Val → List Event)
    (hk : ∀ x s, (k x).run.run s = (.ok (), logged (note x) s)) {env0 : Env} {N B : Nat} {s : State}
    (E : EP env0 N B s) (hst : s.status ≠ .stabilising) (hv : v < s.vars.size) :
    ∃ s1, (withVarHandle v (writeVar v f isSet >>= k)).run.run s = (.ok (), s1) := by
  obtain ⟨vc, hvc⟩ := e2_some_of_lt hv
  obtain ⟨s2, h2⟩ := E.didSet_returns (vc1 := { vc with value := f vc.value }) hvc rfl rfl
  rw [e2_run_withVarHandle _ _ _ E.handles, run_bind, writeVar_outside_run v f isSet s vc hvc hst, h2]
  simp only [mapOk, hk]
  exact ⟨_, rfl⟩

/-- one write effect of a handler returns -/
theorem runEffectBasic_imm_run {env env0 : Env} {N B : Nat} {e : Effect} {s : State} (E : EP env0 N B s)
    (hst : s.status ≠ .stabilising) (hw : (effWrite e).isSome = true)
    (hex : ∀ v f, effWrite e = some (v, f) → v < s.vars.size) :
    ∃ s1, (runEffectBasic env e).run.run s = (.ok (), s1) := by
  cases e <;> first | (exact Bool.noConfusion hw) | skip
  case setVar v x =>
    unfold runEffectBasic
    simp only [e2_discard_eq]
    exact write_imm_run v _ _ (fun _ => (pure () : M Unit)) (fun _ => []) (fun _ _ => rfl) E hst (hex v _ rfl)
  case modifyVar v d =>
    unfold runEffectBasic
    simp only [e2_discard_eq]
    exact write_imm_run v _ _ (fun _ => (pure () : M Unit)) (fun _ => []) (fun _ _ => rfl) E hst (hex v _ rfl)
  case updateVar v d =>
    unfold runEffectBasic
    simp only [e2_discard_eq]
    exact write_imm_run v _ _ (fun _ => (pure () : M Unit)) (fun _ => []) (fun _ _ => rfl) E hst (hex v _ rfl)
  case replaceVar v x =>
    unfold runEffectBasic
    exact write_imm_run v _ _ (fun old => logEv (.note s!"replace v{v} -> {old.render}"))
      (fun old => [.note s!"replace v{v} -> {old.render}"]) (fun _ _ => rfl) E hst (hex v _ rfl)
  case replaceWithVar v d =>
    unfold runEffectBasic
    exact write_imm_run v _ _ (fun old => logEv (.note s!"replacewith v{v} -> {old.render}"))
      (fun old => [.note s!"replacewith v{v} -> {old.render}"]) (fun _ _ => rfl) E hst (hex v _ rfl)

theorem cellAfter_linked (now : Int) (fs : List (Val → Val)) (c : VarCell) :
    (cellAfter now fs c).linked = c.linked ∧ (cellAfter now fs c).handles = c.handles := by
  unfold cellAfter; split <;> exact ⟨rfl, rfl⟩

/-- the frame of one immediate write followed by a log entry -/
theorem wr_wrote {env0 : Env} {s : State} {v : Nat} {vc : VarCell} (f : Val → Val) (es : List Event)
    (hes : ∀ e, e ∈ es → ∃ str, e = .note str) (hh : HandlesOK s) (Q : SubsH.QInv env0 (quiet s))
    (hv : s.vars[v]? = some vc)
    (hht : vc.setAt < s.stabNum →
      ((s.nodeD vc.node).valid && s.isNecessary vc.node && !(s.nodeD vc.node).inRch) = true →
      0 ≤ (s.nodeD vc.node).height ∧ (s.nodeD vc.node).height ≤ s.rch.maxAllowed) :
    Wr s (logged es (wroteOutside v vc (f vc.value) s)) := by
  obtain ⟨-, -, -, A, -, hc⟩ := e12_wrote f es hes hh Q hv hht
  have hS := Quiet.P27.wroteOutside_sizes v vc (f vc.value) s
  have hF := wroteOutside_frame v vc (f vc.value) s
  refine ⟨A.size, fun m => (A.node m).elim fun h e => ⟨h, _, e⟩, hF.2.2.2.2.1, hS.2, A.vsize, fun w c hw => ?_⟩
  exact ⟨_, hc w c hw, (cellAfter_linked _ _ _).1, (cellAfter_linked _ _ _).2⟩

/-- **the write effects of a handler return** (immediate writes on existing variables), `EP` is kept -/
theorem runEffects_imm_total {env env0 : Env} {N B : Nat} {fuel : Nat} {es : List Effect} {arg : Int} {s : State}
    (E : EP env0 N B s) (hst : s.status ≠ .stabilising) (hw : ∀ e, e ∈ es → (effWrite e).isSome = true)
    (hex : ∀ e, e ∈ es → ∀ v f, effWrite e = some (v, f) → v < B) :
    ∃ s', (runEffects env fuel es arg).run.run s = (.ok (), s') ∧ EP env0 N B s' ∧ Wr s s' ∧ AppliedL s s' := by
  induction es generalizing s with
  | nil =>
    rw [runEffects_nil]
    exact ⟨s, rfl, E, Wr.refl s, AppliedL.refl s⟩
  | cons e es ih =>
    have he := hw e (List.mem_cons_self ..)
    obtain ⟨s1, h1⟩ := runEffectBasic_imm_run (env := env) E hst he
      (fun v f hv => Nat.lt_of_lt_of_le (hex e (List.mem_cons_self ..) v f hv) E.bound)
    obtain ⟨v, f, vc, hwe, hv, e1, hht⟩ := e12_runEffectBasic_imm hst he E.handles h1
    obtain ⟨hst1, -, Q1, A1, -, -⟩ :=
      e12_wrote f (effNote e vc.value) (e12_effNote_notes e vc.value) E.handles E.q hv hht
    have W1 := wr_wrote f (effNote e vc.value) (e12_effNote_notes e vc.value) E.handles E.q hv hht
    rw [← e1] at hst1 Q1 A1 W1
    have E1 := E.step W1 Q1
    obtain ⟨s', h2, E2, W2, A2⟩ := ih (s := s1) E1 (by rw [hst1]; exact hst)
      (fun e' he' => hw e' (List.mem_cons_of_mem _ he')) (fun e' he' => hex e' (List.mem_cons_of_mem _ he'))
    refine ⟨s', ?_, E2, W1.trans W2, A1.trans A2⟩
    rw [e2_runEffects_cons env fuel e es arg he, run_bind_ok h1]
    exact h2

end IncrVerif.Proofs.TidyH.EffT
