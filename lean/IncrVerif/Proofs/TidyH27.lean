import IncrVerif.Proofs.TidyH26
/-!
# T3b part 3: `run_all` and `stabilise_end` return when update handlers have write effects
-/
namespace IncrVerif.Proofs.TidyH.EffT
open IncrVerif.Engine IncrVerif.Driver IncrVerif.Proofs IncrVerif.Proofs.Step IncrVerif.Proofs.Sched
open IncrVerif.Proofs.Quiet IncrVerif.Proofs.EffH
open IncrVerif.Proofs.TidyH.SubsT (run_tick_ok)

/-- the frame of the handler loop: bookkeeping (handler records, notifications) and immediate writes -/
structure RB (t t' : State) : Prop where
  wr : Wr t t'
  pc : t'.panicCountdown = t.panicCountdown
  status : t'.status = t.status
  top : t'.top = t.top
  newObs : t'.newObservers = t.newObservers
  obsSize : t'.observers.size = t.observers.size
  obs : ∀ (o : Nat) (ob : ObsRec), t.observers[o]? = some ob →
    ∃ ob', t'.observers[o]? = some ob' ∧ ob'.node = ob.node ∧ ob'.state = ob.state

theorem RB.refl (t : State) : RB t t :=
  ⟨Wr.refl t, rfl, rfl, rfl, rfl, rfl, fun _ ob h => ⟨ob, h, rfl, rfl⟩⟩

theorem RB.trans {a b c : State} (h1 : RB a b) (h2 : RB b c) : RB a c := by
  refine ⟨h1.wr.trans h2.wr, h2.pc.trans h1.pc, h2.status.trans h1.status, h2.top.trans h1.top,
    h2.newObs.trans h1.newObs, h2.obsSize.trans h1.obsSize, fun o ob h => ?_⟩
  obtain ⟨ob1, e1, n1, s1⟩ := h1.obs o ob h
  obtain ⟨ob2, e2, n2, s2⟩ := h2.obs o ob1 e1
  exact ⟨ob2, e2, n2.trans n1, s2.trans s1⟩

theorem Wr.value {t t' : State} (W : Wr t t') (env : Env) (n : Nat) : t'.value env n = t.value env n := by
  refine Step.value_congr env t t' W.size (fun m => ?_) n
  obtain ⟨x, b, hx⟩ := W.node m
  rw [hx]; rfl

/-- the bookkeeping of one delivery (handler record stepped, notification logged) keeps `EP` -/
theorem EP.book {env0 : Env} {N B : Nat} {t : State} (E : EP env0 N B t) (X : Array ObsRec) (L : List Event)
    (hX : X.size = t.observers.size)
    (hXo : ∀ (o : Nat) (ob : ObsRec), t.observers[o]? = some ob →
      ∃ ob', X[o]? = some ob' ∧ ob'.node = ob.node ∧ ob'.state = ob.state) :
    EP env0 N B { t with observers := X, log := L } ∧ RB t { t with observers := X, log := L } := by
  have Q2 : SubsH.QInv env0 (quiet { t with observers := X, log := L }) :=
    qinvU_congr E.q rfl rfl (fun m => ⟨_, rfl⟩) hX hXo
  exact ⟨⟨Q2, E.hb, ⟨E.room.ahh, E.room.rch, E.room.size⟩, E.linked, E.handles, E.bound⟩,
    ⟨⟨rfl, fun _ => ⟨_, _, rfl⟩, rfl, rfl, rfl, fun _ c h => ⟨c, h, rfl, rfl⟩⟩, rfl, rfl, rfl, rfl, hX, hXo⟩⟩

theorem RB.of_appliedL {t t' : State} (W : Wr t t') (A : AppliedL t t') : RB t t' := by
  have ho : t'.observers = t.observers := by rw [A.eq]
  refine ⟨W, by rw [A.eq], by rw [A.eq], by rw [A.eq], by rw [A.eq], by rw [ho], fun o ob h => ?_⟩
  exact ⟨ob, by rw [ho]; exact h, rfl, rfl⟩

/-- the record update of `run_all` keeps node and state of every observer -/
theorem modify_handlers_obs (A : Array ObsRec) (o : Nat) (g : List HandlerRec → List HandlerRec) :
    (A.modify o fun x => { x with handlers := g x.handlers }).size = A.size ∧
    ∀ (o' : Nat) (ob : ObsRec), A[o']? = some ob →
      ∃ ob', (A.modify o fun x => { x with handlers := g x.handlers })[o']? = some ob' ∧
        ob'.node = ob.node ∧ ob'.state = ob.state := by
  refine ⟨Array.size_modify .., fun o' ob h => ?_⟩
  rw [Array.getElem?_modify]
  by_cases e : o = o'
  · rw [if_pos e, h]; exact ⟨_, rfl, rfl, rfl⟩
  · rw [if_neg e]; exact ⟨ob, h, rfl, rfl⟩

/-- the tail of one delivery: tick, notification, the handler's writes -/
theorem deliver_tail_total {env : Env} {N B fuel : Nat} {t : State} {tok hid : Nat} {upd : Update}
    (hH : WHandlers env) (hHb : HBound env B) (E : EP (noEff env) N B t) (hst : t.status ≠ .stabilising)
    (hpc : t.panicCountdown = none) :
    Tot (do
        tick
        logEv (.notif tok upd)
        runEffects env fuel (env.handler hid upd)
        pure (ForInStep.yield PUnit.unit)) t
      (fun r t' => r = .yield PUnit.unit ∧ EP (noEff env) N B t' ∧ RB t t') := by
  refine Tot.bind_ok (run_tick_ok hpc) ?_
  refine Tot.bind_ok (run_logEv _ _) ?_
  obtain ⟨E2, R2⟩ := E.book t.observers (Event.notif tok upd :: t.log) rfl
    (fun o ob h => ⟨ob, h, rfl, rfl⟩)
  obtain ⟨t3, h3, E3, W3, A3⟩ := runEffects_imm_total (env := env) (fuel := fuel) (arg := 0)
    (es := env.handler hid upd) E2 (by exact hst) (fun e he => hH hid upd e he)
    (fun e he w f hw => hHb hid upd e w f he hw)
  exact Tot.bind_ok h3 (Tot.pure ⟨rfl, E3, R2.trans (RB.of_appliedL W3 A3)⟩)

/-- **`run_all` returns** when the handlers have write effects on existing variables -/
theorem runAll_total_w {env : Env} {N B fuel o n : Nat} {nu : NodeUpdate} {now : Int} {s : State} {ob : ObsRec}
    (hH : WHandlers env) (hHb : HBound env B) (E : EP (noEff env) N B s) (hst : s.status ≠ .stabilising)
    (hpc : s.panicCountdown = none) (hob : s.observers[o]? = some ob)
    (hstate : ob.state = .inUse ∨ ob.state = .disallowed)
    (hnu : nu = .changed ∨ nu = .necessary) (hv : (s.value env n).isSome = true) :
    Tot (runAll env fuel o n nu now) s (fun _ s' => EP (noEff env) N B s' ∧ RB s s') := by
  unfold runAll
  refine P23.Tot.bind_getObs hob ?_
  dsimp only
  refine Tot.bind (P23.forIn_tot' _ ob.handlers
    (fun _ (_ : PUnit) t => EP (noEff env) N B t ∧ RB s t) ?_ _ _ ⟨E, RB.refl s⟩)
    (fun _ _ _ h => Tot.pure h)
  intro j a b t hj ⟨Et, Rt⟩
  obtain ⟨obt, hobt, -, hstt⟩ := Rt.obs o ob hob
  obtain ⟨v, hvs⟩ := Option.isSome_iff_exists.1 hv
  have hvt : t.value env n = some v := (Rt.wr.value env n).trans hvs
  have hpct : t.panicCountdown = none := Rt.pc.trans hpc
  have hstt' : t.status ≠ .stabilising := by rw [Rt.status]; exact hst
  -- the state after the record update of a delivery
  have book : ∀ g : List HandlerRec → List HandlerRec,
      EP (noEff env) N B { t with observers := t.observers.modify o fun x => { x with handlers := g x.handlers } } ∧
      RB t { t with observers := t.observers.modify o fun x => { x with handlers := g x.handlers } } ∧
      State.value env { t with observers := t.observers.modify o fun x => { x with handlers := g x.handlers } } n
        = some v := by
    intro g
    obtain ⟨hX, hXo⟩ := modify_handlers_obs t.observers o g
    obtain ⟨E1, R1⟩ := Et.book (t.observers.modify o fun x => { x with handlers := g x.handlers }) t.log hX hXo
    exact ⟨E1, R1, (R1.wr.value env n).trans hvt⟩
  refine P23.Tot.bind_getObs hobt ?_
  rcases hstate with hs | hs
  · rw [hstt, hs]
    dsimp only
    split
    · rcases SubsH.P8.handlerStep_cases (p := a.prev) hnu with hd | hd | hd
      · rw [hd]
        exact Tot.pure ⟨_, rfl, Et, Rt⟩
      · rw [hd]
        dsimp only
        refine P23.Tot.bind_modObs ?_
        obtain ⟨E1, R1, hv1⟩ := book (fun l => l.map fun h' =>
          if h'.token == a.token then { h' with prev := NodeUpdate.changed.toPrev } else h')
        refine Tot.bind_ok (SubsH.P8.run_valueUnwrap hv1) ?_
        simp only [pure_bind]
        refine (deliver_tail_total hH hHb E1 (by exact hstt') (by exact hpct)).mono ?_
        rintro r t' ⟨hr, E', R'⟩
        exact ⟨_, hr, E', Rt.trans (R1.trans R')⟩
      · rw [hd]
        dsimp only
        refine P23.Tot.bind_modObs ?_
        obtain ⟨E1, R1, hv1⟩ := book (fun l => l.map fun h' =>
          if h'.token == a.token then { h' with prev := NodeUpdate.necessary.toPrev } else h')
        refine Tot.bind_ok (SubsH.P8.run_valueUnwrap hv1) ?_
        simp only [pure_bind]
        refine (deliver_tail_total hH hHb E1 (by exact hstt') (by exact hpct)).mono ?_
        rintro r t' ⟨hr, E', R'⟩
        exact ⟨_, hr, E', Rt.trans (R1.trans R')⟩
    · exact Tot.pure ⟨_, rfl, Et, Rt⟩
  · rw [hstt, hs]
    dsimp only
    exact Tot.pure ⟨_, rfl, Et, Rt⟩

end IncrVerif.Proofs.TidyH.EffT
