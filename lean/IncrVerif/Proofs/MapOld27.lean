import IncrVerif.Proofs.MapOld25
import IncrVerif.Proofs.MapOld26
/-!
# map_with_old fragment, instantiated for the definitions tables of the history language

`Defs.toEnv d`, the value predicate `Canon` (maps are strictly sorted), `machSpec d` (operator closures compute their
non-incremental definition `opSpec`, the machines `echo` / `flag true` / undefined compute the identity).
A decidable sufficient condition `okAction d a` for `WAction d.toEnv Canon (machSpec d) a`; the decoding of the operator
ids used by the `mapOp` instruction; what the observer of an operator's output reads.
-/
namespace IncrVerif.Proofs.MapOldH
open IncrVerif IncrVerif.Engine IncrVerif.Driver IncrVerif.MapOps IncrVerif.Proofs IncrVerif.Proofs.Step IncrVerif.Proofs.Sched IncrVerif.Proofs.Quiet

/-! ## a decidable test for the actions of the fragment -/

def canonB : Val → Bool
  | .map m => decide (AMap.Sorted m)
  | .pair a b => canonB a && canonB b
  | _ => true

theorem canonB_sound : ∀ {v : Val}, canonB v = true → Canon v
  | .map m, h => by simp only [canonB, decide_eq_true_eq] at h; exact canon_map.2 h
  | .pair a b, h => by
    simp only [canonB, Bool.and_eq_true] at h
    exact canon_pair.2 ⟨canonB_sound h.1, canonB_sound h.2⟩
  | .unit, _ => canon_unit
  | .int i, _ => canon_int i

def outerB : Opnd → Bool
  | .outer _ => true
  | _ => false

theorem outerB_sound {o : Opnd} (h : outerB o = true) : OpndOK o := by
  cases o <;> first | trivial | cases h

theorem outerB_all {l : List Opnd} (h : l.all outerB = true) : ∀ a, a ∈ l → OpndOK a :=
  fun a ha => outerB_sound (List.all_eq_true.1 h a ha)

/-- user function `f` of the definitions table has no effects -/
def pureFn (d : Defs) (f : Nat) : Bool :=
  match d.fns.lookup f with
  | some fd => fd.effects.isEmpty
  | none => true

theorem pureFn_sound {d : Defs} {f : Nat} (h : pureFn d f = true) (vals : List Val) : d.toEnv.fnEff f vals = [] := by
  unfold pureFn at h
  show (match d.fns.lookup f with | some fd => fd.effects | none => []) = []
  cases hl : d.fns.lookup f with
  | none => rfl
  | some fd => rw [hl] at h; simpa using h

/-- a user-written machine that computes the identity: `echo`, `flag true`, or undefined -/
def idMachB (d : Defs) (g : Nat) : Bool :=
  match d.olds.lookup g with
  | some .echo => true
  | some (.flag true) => true
  | none => true
  | _ => false

theorem idMachB_sound {d : Defs} {g : Nat} (h : idMachB d g = true) :
    d.olds.lookup g = some .echo ∨ d.olds.lookup g = some (.flag true) ∨ d.olds.lookup g = none := by
  unfold idMachB at h
  cases hl : d.olds.lookup g with
  | none => exact Or.inr (Or.inr rfl)
  | some k =>
    rw [hl] at h
    cases k with
    | echo => exact Or.inl rfl
    | sum m => cases h
    | flag b => cases b <;> first | exact Or.inr (Or.inl rfl) | cases h

theorem opBase_le_opId (op : MapOpK) : opBase ≤ opId op := by
  cases op <;> simp only [opId] <;> omega

def okInstr (d : Defs) : Instr → Bool
  | .const v => canonB v
  | .var v => canonB v
  | .map f args => decide (f < woBase) && (decide (fnZip ≤ f) || pureFn d f) && args.all outerB
  | .fold _ init cs => canonB init && cs.all outerB
  | .zip a b => outerB a && outerB b
  | .mapWithOld g i => decide (g < 400000) && idMachB d g && outerB i
  | .mapOp op => decide (opId op < opBase + 400000) && (opOpnds op).all outerB
  | _ => false

/-- the actions of the fragment, decidably: creation of `const`/`var`/`fold` with canonical literals, pure `map`, `zip`,
`mapold g` with an identity machine, every `mapop`; `observe`, `cloneObs`, `dropObs`, `disallow`; the writes (canonical
values), `get`; `stabilise`, `isStable`, `stats` -/
def okAction (d : Defs) : Action → Bool
  | .create i => okInstr d i
  | .observe n => outerB n
  | .cloneObs _ | .dropObs _ | .disallow _ => true
  | .set _ x => canonB x
  | .replace _ x => canonB x
  | .modify _ _ | .update _ _ | .replaceWith _ _ | .get _ => true
  | .stabilise | .isStable | .stats => true
  | _ => false

theorem okInstr_sound {d : Defs} {i : Instr} (h : okInstr d i = true) : WInstr d.toEnv Canon (machSpec d) i := by
  cases i <;> simp only [okInstr] at h <;> try (cases h; done)
  case const v => exact canonB_sound h
  case var v => exact canonB_sound h
  case map f args =>
    simp only [Bool.and_eq_true, Bool.or_eq_true, decide_eq_true_eq] at h
    refine ⟨h.1.1, fun hf vals => ?_, outerB_all h.2⟩
    rcases h.1.2 with h2 | h2
    · omega
    · exact pureFn_sound h2 vals
  case fold f init cs =>
    simp only [Bool.and_eq_true] at h
    exact ⟨canonB_sound h.1, outerB_all h.2⟩
  case zip a b =>
    simp only [Bool.and_eq_true] at h
    exact ⟨outerB_sound h.1, outerB_sound h.2⟩
  case mapWithOld g i =>
    simp only [Bool.and_eq_true, decide_eq_true_eq] at h
    exact ⟨Or.inl h.1.1, machGood d g (Or.inr (idMachB_sound h.1.2)), outerB_sound h.2⟩
  case mapOp op =>
    simp only [Bool.and_eq_true, decide_eq_true_eq] at h
    exact ⟨Or.inr ⟨opBase_le_opId op, h.1⟩, machGood d _ (Or.inl (opBase_le_opId op)), outerB_all h.2⟩

theorem okAction_sound {d : Defs} {a : Action} (h : okAction d a = true) : WAction d.toEnv Canon (machSpec d) a := by
  cases a <;> simp only [okAction] at h <;> simp only [WAction, WPlain] <;> try (first | trivial | (cases h; done))
  case create i => exact okInstr_sound h
  case observe n => exact outerB_sound h
  case set v x => exact canonB_sound h
  case replace v x => exact canonB_sound h

/-! ## decoding the operator ids of the `mapOp` instruction -/

theorem decodeOp_fm {m : Nat} (hm : m < 100000) : decodeOp (opBase + m) = (.fm, m) := by
  have h1 : (opBase + m - opBase) / 100000 = 0 := by rw [Nat.add_sub_cancel_left]; exact Nat.div_eq_of_lt hm
  have h2 : (opBase + m - opBase) % 100000 = m := by rw [Nat.add_sub_cancel_left]; exact Nat.mod_eq_of_lt hm
  show (if ((opBase + m - opBase) / 100000 == 0) = true then _ else _) = _
  rw [h1, h2]; rfl

theorem decodeOp_merge {m : Nat} (hm : m < 100000) : decodeOp (opBase + 200000 + m) = (.merge, m) := by
  have e : opBase + 200000 + m - opBase = 200000 + m := by omega
  have h1 : (opBase + 200000 + m - opBase) / 100000 = 2 := by rw [e]; omega
  have h2 : (opBase + 200000 + m - opBase) % 100000 = m := by rw [e]; omega
  show (if ((opBase + 200000 + m - opBase) / 100000 == 0) = true then _ else _) = _
  rw [h1, h2]; rfl

theorem decodeOp_part {m : Nat} (hm : m < 100000) : decodeOp (opBase + 300000 + m) = (.part, m) := by
  have e : opBase + 300000 + m - opBase = 300000 + m := by omega
  have h1 : (opBase + 300000 + m - opBase) / 100000 = 3 := by rw [e]; omega
  have h2 : (opBase + 300000 + m - opBase) % 100000 = m := by rw [e]; omega
  show (if ((opBase + 300000 + m - opBase) / 100000 == 0) = true then _ else _) = _
  rw [h1, h2]; rfl

theorem decodeOp_fold {m : Nat} (rev upd : Bool) (hm : m < 10000) :
    decodeOp (opBase + 100000 + (if rev then 20000 else 0) + (if upd then 10000 else 0) + m) = (.fold rev upd, m) := by
  cases rev <;> cases upd <;> simp only [Bool.false_eq_true, if_false, if_true, Nat.add_zero]
  · have e : opBase + 100000 + m - opBase = 100000 + m := by omega
    have h1 : (opBase + 100000 + m - opBase) / 100000 = 1 := by rw [e]; omega
    have h2 : (opBase + 100000 + m - opBase) % 100000 = m := by rw [e]; omega
    show (if ((opBase + 100000 + m - opBase) / 100000 == 0) = true then _ else _) = _
    rw [h1, h2]
    have : m % 20000 = m := Nat.mod_eq_of_lt (by omega)
    have h3 : m % 10000 = m := Nat.mod_eq_of_lt hm
    simp [this, h3]; omega
  · have e : opBase + 100000 + 10000 + m - opBase = 110000 + m := by omega
    have h1 : (opBase + 100000 + 10000 + m - opBase) / 100000 = 1 := by rw [e]; omega
    have h2 : (opBase + 100000 + 10000 + m - opBase) % 100000 = 10000 + m := by rw [e]; omega
    show (if ((opBase + 100000 + 10000 + m - opBase) / 100000 == 0) = true then _ else _) = _
    rw [h1, h2]
    have : (10000 + m) % 20000 = 10000 + m := Nat.mod_eq_of_lt (by omega)
    have h3 : (10000 + m) % 10000 = m := by omega
    simp [this, h3]; omega
  · have e : opBase + 100000 + 20000 + m - opBase = 120000 + m := by omega
    have h1 : (opBase + 100000 + 20000 + m - opBase) / 100000 = 1 := by rw [e]; omega
    have h2 : (opBase + 100000 + 20000 + m - opBase) % 100000 = 20000 + m := by rw [e]; omega
    show (if ((opBase + 100000 + 20000 + m - opBase) / 100000 == 0) = true then _ else _) = _
    rw [h1, h2]
    have : (20000 + m) % 20000 = m := by omega
    have h3 : (20000 + m) % 10000 = m := by omega
    simp [this, h3]; omega
  · have e : opBase + 100000 + 20000 + 10000 + m - opBase = 130000 + m := by omega
    have h1 : (opBase + 100000 + 20000 + 10000 + m - opBase) / 100000 = 1 := by rw [e]; omega
    have h2 : (opBase + 100000 + 20000 + 10000 + m - opBase) % 100000 = 30000 + m := by rw [e]; omega
    show (if ((opBase + 100000 + 20000 + 10000 + m - opBase) / 100000 == 0) = true then _ else _) = _
    rw [h1, h2]
    have : (30000 + m) % 20000 = 10000 + m := by omega
    have h3 : (30000 + m) % 10000 = m := by omega
    simp [this, h3]; omega

/-! ## what the observer of an operator's output reads -/

theorem toEnv_fn_ident (d : Defs) (v : Val) : d.toEnv.fn fnIdent [v] = v := rfl

theorem toEnv_fn_zip (d : Defs) (a b : Val) : d.toEnv.fn fnZip [a, b] = .pair a b := rfl

variable {d : Defs} {s : State}

/-- **unary operators.** In a state where every observer in use reads its from-scratch value, the observer of the
output node of a unary operator (`conv → mapWithOld g → conv` over node `x`) reads the plain function of the machine
applied to what `x` evaluates to. -/
theorem reads_unary {o : Nat} {ob : ObsRec} {g x : Nat} (R : ReadsOKW d.toEnv (machSpec d) s)
    (ho : s.observers[o]? = some ob) (hu : ob.state = .inUse) (U : UnaryOp s ob.node g x) :
    ∃ k vx, evalW d.toEnv (machSpec d) s k x = some vx ∧ s.tryGetValue d.toEnv o = .ok (machSpec d g vx) := by
  obtain ⟨v, hr, hev⟩ := R o ob ho hu ((s.nodeD ob.node).height.toNat + 3) (by omega)
  rw [evalW_unary U] at hev
  cases hx : evalW d.toEnv (machSpec d) s (s.nodeD ob.node).height.toNat x with
  | none => rw [hx] at hev; cases hev
  | some vx =>
    rw [hx] at hev
    simp only [Option.map_some, toEnv_fn_ident, Option.some.injEq] at hev
    exact ⟨_, vx, hx, by rw [hr, hev]⟩

/-- the same when the input `x` is a variable: the observer reads the plain function of the CURRENT value of the
variable -/
theorem reads_unary_var {o : Nat} {ob : ObsRec} {g x c : Nat} {vc : VarCell} (R : ReadsOKW d.toEnv (machSpec d) s)
    (ho : s.observers[o]? = some ob) (hu : ob.state = .inUse) (U : UnaryOp s ob.node g x)
    (hx : (s.nodeD x).kind = .var c) (hc : s.vars[c]? = some vc) :
    s.tryGetValue d.toEnv o = .ok (machSpec d g vc.value) := by
  obtain ⟨v, hr, hev⟩ := R o ob ho hu ((s.nodeD ob.node).height.toNat + 1 + 3) (by omega)
  rw [evalW_unary U, evalW_var hx, hc] at hev
  simp only [Option.map_some, toEnv_fn_ident, Option.some.injEq] at hev
  rw [hr, hev]

/-- **merge over two variables**: the observer reads the plain merge of the CURRENT values of the two variables -/
theorem reads_merge_var {o : Nat} {ob : ObsRec} {g x y cx cy : Nat} {vx vy : VarCell}
    (R : ReadsOKW d.toEnv (machSpec d) s) (ho : s.observers[o]? = some ob) (hu : ob.state = .inUse)
    (U : MergeOp s ob.node g x y) (hx : (s.nodeD x).kind = .var cx) (hy : (s.nodeD y).kind = .var cy)
    (hcx : s.vars[cx]? = some vx) (hcy : s.vars[cy]? = some vy) :
    s.tryGetValue d.toEnv o = .ok (machSpec d g (.pair vx.value vy.value)) := by
  obtain ⟨v, hr, hev⟩ := R o ob ho hu ((s.nodeD ob.node).height.toNat + 1 + 4) (by omega)
  rw [evalW_merge U, evalW_var hx, evalW_var hy, hcx, hcy] at hev
  simp only [Option.map_some, toEnv_fn_ident, toEnv_fn_zip, Option.some.injEq] at hev
  rw [hr, hev]

end IncrVerif.Proofs.MapOldH
