import IncrVerif.Proofs.DriverH16
/-!
# `RmSpec`, part 8: the call on an UNNECESSARY expert node, and the contract `RmSpec E`
-/
namespace IncrVerif.Proofs.DriverH
open IncrVerif.Engine IncrVerif.Driver IncrVerif.Proofs IncrVerif.Proofs.Step IncrVerif.Proofs.Sched
open IncrVerif.Proofs.ExpertH IncrVerif.Proofs.ExpertH.QR IncrVerif.Proofs.Xp

theorem rm_unnec {E : Env} {s s' : State} {fuel x dep e i : Nat} {er : ExpertRec}
    (M : Mid E s) (hlt : x < s.nodes.size) (hk : (s.nodeD x).kind = .expert e) (hx : s.experts[e]? = some er)
    (hi : er.children.findIdx? (·.dep == dep) = some i) (hnec : s.isNecessary x = false)
    (h : (expertRemoveDependency fuel x dep).run.run s = (.ok (), s')) : RmOut E e x i er s s' := by
  have F := M.frag
  obtain ⟨rk, I⟩ := M.st
  have fr := M.fr
  have hxE : IsExpert s x (s.nodeD x) e er := ⟨some_of_lt hlt, F.valid x hlt, hk, hx⟩
  have hrun : runningOk s x = true := by
    cases hr : runningOk s x with
    | true => rfl
    | false =>
      obtain ⟨p, hp⟩ := expertRemoveDependency_assert_fails fuel x dep hxE hr
      rw [hp] at h; cases h
  have hnecN : (s.nodeD x).isNecessary = false := hnec
  rw [expertRemoveDependency_unnecessary fuel x dep hxE hrun hi hnecN] at h
  have hs' : s' = putExpert e (removedRec er i dep) s := by cases h; rfl
  obtain ⟨hil, -, -⟩ := findIdx_facts _ _ _ hi
  have R := rekind_putExpert (r' := removedRec er i dep) hlt hk hx (fun m hm => F.xinj hm hk) rfl
  have hsub : ∀ c, c ∈ (swapPop er.children i).map (·.child) → c ∈ kids ((virt s).nodeD x).kind := by
    intro c hc
    rw [virt_kids_expert hk hx]
    obtain ⟨ed, hed, rfl⟩ := List.mem_map.1 hc
    have := (swapPop_perm er.children i hil).mem_iff.1 hed
    exact List.mem_map.2 ⟨ed, List.mem_of_mem_eraseIdx this, rfl⟩
  have A2 : AllStatic (virtEnv E) rk (virt (putExpert e (removedRec er i dep) s)) := by
    refine ⟨by rw [R.pc]; exact I.static.pc, by rw [R.scope]; exact I.static.scope, fun m hm => ?_,
      I.static.inj, by rw [R.size]; exact I.static.top⟩
    rw [R.size] at hm
    have sn := I.static.node m hm
    by_cases e0 : m = x
    · subst e0
      refine ⟨by rw [R.self]; exact sn.valid, by rw [R.self]; trivial, by rw [R.self]; exact sn.cutoff,
        by rw [R.self]; exact sn.top, by rw [R.self]; exact sn.force, ?_, ?_⟩
      · intro c hc; rw [R.kind_self] at hc; exact sn.kidsLt c (hsub c hc)
      · intro c hc; rw [R.kind_self] at hc; rw [R.size]; exact sn.kidsIn c (hsub c hc)
    · refine ⟨by rw [R.other m e0]; exact sn.valid, by rw [R.other m e0]; exact sn.kind,
        by rw [R.other m e0]; exact sn.cutoff, by rw [R.other m e0]; exact sn.top,
        by rw [R.other m e0]; exact sn.force, by rw [R.other m e0]; exact sn.kidsLt,
        by rw [R.other m e0, R.size]; exact sn.kidsIn⟩
  have hnv : (virt s).isNecessary x = false := by rw [virt_isNecessary]; exact hnec
  have S' := GInv.rekind_unnec I R A2 hnv
  rw [hs']
  refine ⟨⟨rk, S'⟩, ⟨fr.pc, fr.valid, fr.pinv, fr.kind, fun e' r0 h0 => ?_⟩, ⟨_, putExpert_get _ hx, rfl, rfl⟩, ?_,
    rfl, fun _ _ => rfl⟩
  · by_cases he : e' = e
    · subst he
      rw [putExpert_get _ hx] at h0
      cases h0; exact fr.ni e' er hx
    · rw [putExpert_get_ne _ _ (Ne.symm he)] at h0; exact fr.ni e' r0 h0
  · intro e' er0 er0' he h0 h0'
    rw [putExpert_get_ne _ _ (Ne.symm he), h0] at h0'
    cases h0'; exact ⟨rfl, rfl⟩

/-- **the contract of `expert_remove_dependency` between two effects** -/
theorem rmSpec (E : Env) : RmSpec E := by
  intro fuel x dep e i s s' er M hlt hk hx hi h
  have O : RmOut E e x i er s s' := by
    cases hn : s.isNecessary x with
    | true => exact rm_nec M hlt hk hx hi hn h
    | false => exact rm_unnec M hlt hk hx hi hn h
  have cf := (PresF.expertRemoveDependency fuel x dep).h _ _ _ h
  have ahf := (PresAh.expertRemoveDependency fuel x dep).h _ _ _ h
  have hasf := (PresH.expertRemoveDependency fuel x dep).h _ _ _ h
  have xg := (PresG.expertRemoveDependency fuel x dep).h _ _ _ h
  have xs := (PresS.expertRemoveDependency fuel x dep).h _ _ _ h
  obtain ⟨er', he', hc', hf'⟩ := O.self
  obtain ⟨er'', he'', hs1, hs2⟩ := xs.get hx
  rw [he'] at he''; cases he''
  refine ⟨⟨XFrag.of_xg M.frag xg O.fr, ahhEmpty_of_ahf M.ahh ahf, O.st, O.fr.pinv, (hasf M.handlers).2⟩, ?_,
    xg.nextDep, ⟨er', he', hc', hs1, hs2, hf'⟩, O.nec, O.necAll⟩
  refine EF.of_frames cf hasf M.handlers M.pinv O.fr.pinv M.frag.pc xg (fun e' hne => Or.inr ?_) ?_
  · intro er0 er0' h0 h0'
    obtain ⟨k1, k2⟩ := O.other e' er0 er0' hne h0 h0'
    obtain ⟨er1, h1, k3, k4⟩ := xs.get h0
    rw [h0'] at h1; cases h1
    simp only [recK, k1, k2, k3, k4]
  · intro er0 h0
    rw [he'] at h0; cases h0; exact hf'

end IncrVerif.Proofs.DriverH
