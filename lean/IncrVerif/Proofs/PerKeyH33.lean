import IncrVerif.Proofs.PerKeyH32
/-!
# twin simulation, part 11: `elabInstr`, `elabTemplateBase` for instructions that create nodes of twin-invariant kinds
-/
namespace IncrVerif.Proofs.PerKeyH
open IncrVerif.Engine IncrVerif.Driver IncrVerif.Proofs IncrVerif.Proofs.Step IncrVerif.Proofs.Sched
open IncrVerif.Proofs.ExpertH IncrVerif.Proofs.EffH

/-- creation instructions whose nodes have the same kind in the twin (`twKind k = k`) -/
def TwInstr : Instr → Prop
  | .const _ => True
  | .lhsConst => True
  | .var _ => True
  | .map f _ => f < fnPerKey
  | .fold _ _ _ => True
  | .zip _ _ => True
  | .dependOn _ _ => True
  | _ => False

theorem TSimL.createNode_same {s : State} {l : List Event} {k : Kind} (sc : Scope) (c : CutoffK) (hk : XK k)
    (htw : twKind k = k) : TSimL s l (Engine.createNode k sc c) (Engine.createNode k sc c) := by
  have := TSimL.createNode (s := s) (l := l) sc c hk
  rwa [htw] at this

theorem TSim.forIn_mem {β γ : Type} (xs : List γ) {f f' : γ → β → M (ForInStep β)}
    (h : ∀ a, a ∈ xs → ∀ b, TSim (f a b) (f' a b)) (b : β) : TSim (ForIn.forIn xs b f) (ForIn.forIn xs b f') := by
  apply TSim.ofL
  induction xs generalizing b with
  | nil => intro s l; rw [List.forIn_nil, List.forIn_nil]; exact TSimL.ret _
  | cons a xs ih =>
    intro s l
    rw [List.forIn_cons, List.forIn_cons]
    refine TSimL.seq ((h a (List.mem_cons_self ..) b).atL s l) fun r s1 l1 _ => ?_
    cases r with
    | done b' => exact TSimL.ret _
    | yield b' => exact ih (fun a' ha' => h a' (List.mem_cons_of_mem _ ha')) b' s1 l1

/-- `some <$> createNode k sc c` for a twin-invariant kind -/
macro "tcr_node" : tactic => `(tactic|
  exact IncrVerif.Proofs.PerKeyH.TSimL.map _
    (IncrVerif.Proofs.PerKeyH.TSimL.createNode_same _ _ trivial (by first | rfl | exact twKind_small ‹_›)))

theorem fnZip_lt_fnPerKey : fnZip < fnPerKey := by decide
theorem fnFirst_lt_fnPerKey : fnFirst < fnPerKey := by decide

theorem TSim.elabInstr (loc : List Nat) (lhsVal : Val) {i : Instr} (hR : TwInstr i) :
    TSim (Engine.elabInstr loc lhsVal i) (Engine.elabInstr loc lhsVal i) := by
  apply TSim.ofL; intro s l
  unfold Engine.elabInstr
  cases i <;> simp only [TwInstr] at hR <;> refine TSimL.get_seq ?_ <;> try tnorm
  case const v => tcr_node
  case lhsConst => tcr_node
  case var v => exact TSimL.map _ ((TSim.createVar v .top).atL s l)
  case map f args =>
    refine TSimL.seq ((TSim.mapM (fun a => TSim.resolveOpnd loc a) args).atL s l) fun as s1 l1 _ => ?_
    tcr_node
  case fold f init cs =>
    refine TSimL.seq ((TSim.mapM (fun a => TSim.resolveOpnd loc a) cs).atL s l) fun as s1 l1 _ => ?_
    refine TSimL.cond Iff.rfl (fun _ => ?_) (fun _ => ?_) <;> tcr_node
  case zip a b =>
    refine TSimL.seq ((TSim.resolveOpnd loc a).atL s l) fun x s1 l1 _ => ?_
    refine TSimL.seq ((TSim.resolveOpnd loc b).atL s1 l1) fun y s2 l2 _ => ?_
    refine TSimL.seq ((TSim.isConstant x).atL s2 l2) fun cx s3 l3 _ => ?_
    refine TSimL.seq ((TSim.isConstant y).atL s3 l3) fun cy s4 l4 _ => ?_
    have hz := fnZip_lt_fnPerKey
    split <;> tcr_node
  case dependOn a b =>
    refine TSimL.seq ((TSim.resolveOpnd loc a).atL s l) fun x s1 l1 _ => ?_
    refine TSimL.seq ((TSim.resolveOpnd loc b).atL s1 l1) fun y s2 l2 _ => ?_
    have hz := fnFirst_lt_fnPerKey
    tcr_node

theorem TSim.elabTemplateBase (t : Template) (lhsVal : Val) (init : List Nat)
    (ht : ∀ i, i ∈ t.instrs → TwInstr i) :
    TSim (Engine.elabTemplateBase t lhsVal init) (Engine.elabTemplateBase t lhsVal init) := by
  apply TSim.ofL; intro s l
  unfold Engine.elabTemplateBase
  refine TSimL.seq ((TSim.forIn_mem t.instrs (fun i hi loc => ?_) init).atL s l) fun loc s1 l1 _ => ?_
  · apply TSim.ofL; intro s l
    refine TSimL.seq ((TSim.elabInstr loc lhsVal (ht i hi)).atL s l) fun r s1 l1 _ => ?_
    cases r <;> exact TSimL.ret _
  · exact (TSim.resolveOpnd loc t.ret).atL s1 l1

end IncrVerif.Proofs.PerKeyH
