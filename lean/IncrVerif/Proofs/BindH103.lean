import IncrVerif.Proofs.BindH97
import IncrVerif.Proofs.BindH102
import IncrVerif.Proofs.BindH100
/-!
# Binds, part 5g1: "generations are current" (`GenOK`) through a drain, part 1 — what `GenOK` reads; `remove_min`; a run of a static / `bindMain` node

`GenOK env s` reads: the bind table, the naming table `top` (only the entries a template's `.outer k` operands name), the KINDS of the registered nodes,
the stored value of each bind's lhs, and the staleness of each bind's change detector (its `recomputedAt` stamp against the `changedAt` stamp of the lhs).
-/
namespace IncrVerif.Proofs.BindH
open IncrVerif.Engine IncrVerif.Proofs IncrVerif.Proofs.Step IncrVerif.Proofs.Sched IncrVerif.Proofs.Quiet

namespace C3g

/-! ## `ElabOf` reads the naming table and the kinds of the listed nodes, monotonically in the naming table -/

theorem resolveP_mono {s s' : State} (htop : ∀ (k n : Nat), s.top[k]? = some n → s'.top[k]? = some n) (locs : List Nat)
    (o : Opnd) (n : Nat) (h : resolveP s locs o = some n) : resolveP s' locs o = some n := by
  cases o with
  | outer k => exact htop k n h
  | loc j => exact h
  | abs _ => cases h
  | slot _ => cases h

theorem resolveAll_mono {s s' : State} (htop : ∀ (k n : Nat), s.top[k]? = some n → s'.top[k]? = some n) (locs : List Nat) :
    ∀ (os : List Opnd) (ns : List Nat), resolveAll s locs os = some ns → resolveAll s' locs os = some ns := by
  intro os
  induction os with
  | nil => intro ns h; exact h
  | cons o os ih =>
    intro ns h
    simp only [resolveAll] at h ⊢
    cases h1 : resolveP s locs o with
    | none => rw [h1] at h; cases h
    | some n =>
      cases h2 : resolveAll s locs os with
      | none => rw [h1, h2] at h; cases h
      | some ms =>
        rw [h1, h2] at h
        rw [resolveP_mono htop locs o n h1, ih ms h2]
        exact h

theorem kindOfInstr_mono {s s' : State} (htop : ∀ (k n : Nat), s.top[k]? = some n → s'.top[k]? = some n) (locs : List Nat)
    (v : Val) (i : Instr) (k : Kind) (h : kindOfInstr s locs v i = some k) : kindOfInstr s' locs v i = some k := by
  cases i <;> simp only [kindOfInstr] at h ⊢ <;> try exact h
  · rename_i f args
    cases h1 : resolveAll s locs args with
    | none => rw [h1] at h; cases h
    | some ns => rw [h1] at h; rw [resolveAll_mono htop locs args ns h1]; exact h
  · rename_i f init cs
    cases h1 : resolveAll s locs cs with
    | none => rw [h1] at h; cases h
    | some ns => rw [h1] at h; rw [resolveAll_mono htop locs cs ns h1]; exact h

/-- `ElabOf` only reads the entries of the naming table that resolve, and the KINDS of the listed nodes -/
theorem elabOf_mono {s s' : State} {t : Template} {v : Val} {locs : List Nat} {rhs : Nat}
    (htop : ∀ (k n : Nat), s.top[k]? = some n → s'.top[k]? = some n)
    (hk : ∀ m, m ∈ locs → (s'.nodeD m).kind = (s.nodeD m).kind) (E : ElabOf s t v locs rhs) :
    ElabOf s' t v locs rhs where
  len := E.len
  kinds j i m hi hm := by
    rw [hk m (List.mem_of_getElem? hm)]
    exact kindOfInstr_mono htop _ v i _ (E.kinds j i m hi hm)
  ret := resolveP_mono htop locs t.ret rhs E.ret

theorem top_mono_of_eq {s s' : State} (h : s'.top = s.top) : ∀ (k n : Nat), s.top[k]? = some n → s'.top[k]? = some n :=
  fun k n hk => by rw [h]; exact hk

/-! ## facts about a bind record -/

/-- the child list of a change detector -/
theorem children_lc {s : State} {m b : Nat} {br : BindRec} (hv : (s.nodeD m).valid = true)
    (hk : (s.nodeD m).kind = .bindLhsChange b) (hb : s.binds[b]? = some br) : s.children m = [br.lhs] := by
  simp only [State.children, Node.kind?, hv, if_true, hk, hb]

/-- staleness of a change detector: its stamp against the `changedAt` stamp of the lhs -/
theorem isStale_lc {s : State} {m b : Nat} {br : BindRec} (hv : (s.nodeD m).valid = true)
    (hk : (s.nodeD m).kind = .bindLhsChange b) (hb : s.binds[b]? = some br) :
    s.isStale m = ((s.nodeD m).recomputedAt == -1 ||
      decide ((s.nodeD br.lhs).changedAt > (s.nodeD m).recomputedAt)) := by
  unfold State.isStale
  simp only [children_lc hv hk hb, Node.kind?, hv, if_true, hk, List.any_cons, List.any_nil, Bool.or_false]

/-- the change detector and the lhs of a bind record, in fragment F1 -/
theorem rec_facts {env : Env} {s : State} {b : Nat} {br : BindRec} (A : All1 env s []) (hb : s.binds[b]? = some br) :
    br.lhsChange < s.nodes.size ∧ (s.nodeD br.lhsChange).valid = true ∧
      (s.nodeD br.lhsChange).kind = .bindLhsChange b ∧ (s.nodeD br.lhsChange).createdIn = .top ∧
      s.children br.lhsChange = [br.lhs] ∧ br.lhs < br.lhsChange ∧ (s.nodeD br.lhs).createdIn = .top ∧
      (∀ b', (s.nodeD br.lhs).kind ≠ .bindLhsChange b') ∧ br.main = br.lhsChange + 1 := by
  obtain ⟨r1, r2, r3, -, r5, -⟩ := A.recs b br hb
  have hlt : br.lhsChange < s.nodes.size := by omega
  have N := A.node _ hlt
  have hv := (N.top r5).1
  have hch := children_lc hv r3 hb
  have hmem : br.lhs ∈ s.children br.lhsChange := by rw [hch]; exact List.mem_singleton.2 rfl
  refine ⟨hlt, hv, r3, r5, hch, ?_, ?_, ?_, r1⟩
  · rcases (N.top r5).2 _ hmem with ⟨-, h⟩ | ⟨b', lc, h, -⟩
    · exact h
    · rw [r3] at h; cases h
  · rcases (N.top r5).2 _ hmem with ⟨h, -⟩ | ⟨b', lc, h, -⟩
    · exact h
    · rw [r3] at h; cases h
  · intro b' hk'
    have := N.lcChild _ b' hmem hk'
    rw [r3] at this; cases this

/-! ## transfer of `GenOK` -/

/-- one record: the obligation of `GenOK` moves to a state that agrees on the lhs value, on the naming table and on the kinds of the registered nodes -/
theorem gen_rec {env : Env} {s s' : State} {b : Nat} {br : BindRec} (G : GenOK env s)
    (hb : s.binds[b]? = some br) (hst : s.isStale br.lhsChange = false)
    (htop : ∀ (k n : Nat), s.top[k]? = some n → s'.top[k]? = some n)
    (hval : (s'.nodeD br.lhs).value = (s.nodeD br.lhs).value)
    (hk : ∀ m, m ∈ br.allNodesCreatedOnRhs → (s'.nodeD m).kind = (s.nodeD m).kind) :
    ∃ v r, (s'.nodeD br.lhs).value = some v ∧ br.rhs = some r ∧
      ElabOf s' (env.body br.body v) v br.allNodesCreatedOnRhs r := by
  obtain ⟨v, r, h1, h2, h3⟩ := G b br hb hst
  exact ⟨v, r, by rw [hval]; exact h1, h2, elabOf_mono htop hk h3⟩

/-- **transfer of `GenOK`**: every record of `s'` whose change detector is not stale in `s'` is a record of `s` whose change detector was not stale, with the same lhs
value and the same kinds of registered nodes -/
theorem genOK_transfer {env : Env} {s s' : State} (G : GenOK env s)
    (htop : ∀ (k n : Nat), s.top[k]? = some n → s'.top[k]? = some n)
    (H : ∀ (b : Nat) (br : BindRec), s'.binds[b]? = some br → s'.isStale br.lhsChange = false →
      s.binds[b]? = some br ∧ s.isStale br.lhsChange = false ∧
      (s'.nodeD br.lhs).value = (s.nodeD br.lhs).value ∧
      ∀ m, m ∈ br.allNodesCreatedOnRhs → (s'.nodeD m).kind = (s.nodeD m).kind) : GenOK env s' := by
  intro b br hb hst
  obtain ⟨h1, h2, h3, h4⟩ := H b br hb hst
  exact gen_rec G h1 h2 htop h3 h4

/-- a frame that keeps the bind table, the naming table, and the kind, validity, value and stamps of every node keeps `GenOK` (the cells may change) -/
theorem genOK_frame {env : Env} {s s' : State} (G : GenOK env s) (A : All1 env s [])
    (hb : s'.binds = s.binds) (htop : s'.top = s.top)
    (hk : ∀ m, (s'.nodeD m).kind = (s.nodeD m).kind) (hv : ∀ m, (s'.nodeD m).valid = (s.nodeD m).valid)
    (hr : ∀ m, (s'.nodeD m).recomputedAt = (s.nodeD m).recomputedAt)
    (hc : ∀ m, (s'.nodeD m).changedAt = (s.nodeD m).changedAt)
    (hval : ∀ m, (s'.nodeD m).value = (s.nodeD m).value) : GenOK env s' := by
  refine genOK_transfer G (top_mono_of_eq htop) ?_
  intro b br hbr hst
  rw [hb] at hbr
  obtain ⟨-, f2, f3, -⟩ := rec_facts A hbr
  refine ⟨hbr, ?_, hval _, fun m _ => hk m⟩
  rw [isStale_lc (by rw [hv]; exact f2) (by rw [hk]; exact f3) (by rw [hb]; exact hbr), hr, hc] at hst
  rw [isStale_lc f2 f3 hbr]; exact hst

/-! ## `remove_min` -/

theorem pop_gen {env : Env} {s s1 : State} {n : Nat} (I : DInv env s none) (A : F1Inv env s) (G : GenOK env s)
    (hr : rchRemoveMin.run.run s = (.ok (some n), s1)) : GenOK env s1 := by
  have hpop := rchRemoveMin_inv I.heap hr
  simp only at hpop
  obtain ⟨-, -, -, hs1, -⟩ := hpop
  have hnode : ∀ m, s1.nodeD m =
      if n = m ∧ m < s.nodes.size then { s.nodeD m with heightInRch := -1 } else s.nodeD m := by
    intro m
    rw [hs1]
    exact nodeD_modify { s with rch := s1.rch } n m (fun x => { x with heightInRch := -1 })
  refine genOK_frame G A.frag (by rw [hs1]) (by rw [hs1]) (fun m => ?_) (fun m => ?_) (fun m => ?_) (fun m => ?_)
    (fun m => ?_) <;> (rw [hnode]; split <;> rfl)

/-! ## a run of a static or `bindMain` node -/

theorem static_gen {env : Env} {fuel n : Nat} {s s' : State} {r : Option Nat} (I : DInv env s (some n))
    (A : F1Inv env s) (G : GenOK env s)
    (hk : StaticKind env (s.nodeD n).kind ∨ ∃ b lc, (s.nodeD n).kind = .bindMain b lc)
    (h : (recomputeOne env fuel n).run.run s = (.ok r, s')) : GenOK env s' := by
  have g := I.graph
  obtain ⟨hn, hnlt, hnv, -, -⟩ := I.cur_facts
  obtain ⟨v, ch, -, R⟩ := recomputeOne_stepB g I.heap hn hk I.kids_values h
  have K := BF.recomputeOne_keyD_B g hn hk I.kids_values h
  simp only [KeyD, stateKeyD, Prod.mk.injEq] at K
  obtain ⟨-, -, -, htop, -⟩ := K
  refine genOK_transfer G (top_mono_of_eq htop) ?_
  intro b br hb hst
  rw [R.binds] at hb
  obtain ⟨f1, f2, f3, -, f5, -⟩ := rec_facts A.frag hb
  have hne : br.lhsChange ≠ n := by
    intro e
    rw [e] at f3
    rcases hk with hk | ⟨_, _, hk⟩
    · rw [f3] at hk; exact hk
    · rw [f3] at hk; cases hk
  rcases stepB_stale_other I R hne f1 f2 with ⟨h1, h2⟩ | ⟨-, -, h1⟩
  · refine ⟨hb, by rw [← h1]; exact hst, ?_, fun m _ => (R.shapes m).kind⟩
    by_cases e : br.lhs = n
    · have hchf : ch = false := by
        rcases h2 with h2 | h2
        · exact h2
        · exfalso; apply h2; rw [f5, e]; exact List.mem_singleton.2 rfl
      rw [e, R.value, (R.unch hchf).1]
    · exact (R.other _ e).value
  · rw [h1] at hst; cases hst

end C3g

end IncrVerif.Proofs.BindH
