import IncrVerif.Proofs.BindH99
/-!
# Binds, part 5d2: with current generations, the stored values of the necessary top-level nodes are the from-scratch values `den`

The induction is on the FUEL, with the invariant "every necessary top-level node with index `< k` has `den env s k n = value n`": in fragment F1 the
top-level children of a top-level node are older (`N1.top`), a bind's lhs is older than its change detector, and the top-level nodes a closure's nodes
read are older than the change detector (`N1.inScope`).  No height argument is needed.
-/
namespace IncrVerif.Proofs.BindH
open IncrVerif.Engine IncrVerif.Proofs IncrVerif.Proofs.Step IncrVerif.Proofs.Sched

namespace C3d

/-! ## operands: nodes vs values -/

theorem resolveAll_mem (s : State) (L : List Nat) :
    ∀ (args : List Opnd) (cs : List Nat), resolveAll s L args = some cs →
      ∀ o, o ∈ args → ∀ c, resolveP s L o = some c → c ∈ cs := by
  intro args
  induction args with
  | nil => intro cs _ o ho; cases ho
  | cons a as ih =>
    intro cs e o ho c hc
    simp only [resolveAll] at e
    cases h1 : resolveP s L a with
    | none => rw [h1] at e; cases e
    | some n =>
      cases h2 : resolveAll s L as with
      | none => rw [h1, h2] at e; cases e
      | some ns =>
        rw [h1, h2] at e
        cases e
        rcases List.mem_cons.1 ho with rfl | ho
        · rw [h1] at hc; cases hc; exact List.mem_cons_self ..
        · exact List.mem_cons_of_mem _ (ih ns h2 o ho c hc)

/-- if each operand's value is the stored value of the node it resolves to, the operand values are the stored values of the resolved nodes -/
theorem allSome_resolve (s : State) (L : List Nat) (f : Opnd → Option Val) :
    ∀ (args : List Opnd) (cs : List Nat), resolveAll s L args = some cs →
      (∀ o, o ∈ args → ∀ c, resolveP s L o = some c → f o = (s.nodeD c).value) →
      allSome (args.map f) = plainVals s cs := by
  intro args
  induction args with
  | nil => intro cs e _; simp only [resolveAll] at e; cases e; rfl
  | cons a as ih =>
    intro cs e h
    simp only [resolveAll] at e
    cases h1 : resolveP s L a with
    | none => rw [h1] at e; cases e
    | some n =>
      cases h2 : resolveAll s L as with
      | none => rw [h1, h2] at e; cases e
      | some ns =>
        rw [h1, h2] at e
        cases e
        have e1 := h a (List.mem_cons_self ..) n h1
        have e2 := ih ns h2 (fun o ho c hc => h o (List.mem_cons_of_mem _ ho) c hc)
        unfold plainVals at e2 ⊢
        simp only [List.map_cons, allSome, evalArgs]
        rw [e1, e2]
        cases (s.nodeD n).value <;> cases evalArgs (fun a => (s.nodeD a).value) ns <;> rfl

/-! ## the image of a template: values of the locals -/

/-- the values `V` computed so far are the stored values of the NECESSARY locals `L` created so far -/
def Agree (s : State) (L : List Nat) (V : List (Option Val)) : Prop :=
  V.length = L.length ∧
    ∀ (j m : Nat), L[j]? = some m → s.isNecessary m = true → (V[j]?).join = (s.nodeD m).value

theorem Agree.nil (s : State) : Agree s [] [] := ⟨rfl, fun j m h _ => by simp at h⟩

/-- the operands of one instruction -/
theorem opnds_agree {s : State} (ev : Nat → Option Val) (lcN : Nat)
    (hev : ∀ c, s.isNecessary c = true → (s.nodeD c).createdIn = .top → c < lcN → ev c = (s.nodeD c).value)
    (htop : ∀ (k r : Nat), s.top[k]? = some r → (s.nodeD r).createdIn = .top)
    {L : List Nat} {V : List (Option Val)} (hA : Agree s L V) (args : List Opnd) (cs : List Nat)
    (hr : resolveAll s L args = some cs)
    (hcs : ∀ c, c ∈ cs → s.isNecessary c = true ∧ ((s.nodeD c).createdIn = .top → c < lcN)) :
    allSome (args.map (denOpnd ev s.top V)) = plainVals s cs := by
  apply allSome_resolve s L _ args cs hr
  intro o ho c hc
  obtain ⟨hn, hlt⟩ := hcs c (resolveAll_mem s L args cs hr o ho c hc)
  cases o with
  | outer k =>
    simp only [resolveP] at hc
    simp only [denOpnd, hc]
    exact hev c hn (htop k c hc) (hlt (htop k c hc))
  | loc j =>
    simp only [resolveP] at hc
    simp only [denOpnd]
    exact hA.2 j c hc hn
  | abs _ => simp only [resolveP] at hc; cases hc
  | slot _ => simp only [resolveP] at hc; cases hc

/-- one instruction: the value `denInstr` computes is the stored value of the node the instruction created, if that node is necessary -/
theorem step_instr {env : Env} {s : State} (g : BGraph env s) (ev : Nat → Option Val) (v : Val) (lcN : Nat)
    (hall : ∀ m, s.isNecessary m = true → ConsistentB env s m)
    (hev : ∀ c, s.isNecessary c = true → (s.nodeD c).createdIn = .top → c < lcN → ev c = (s.nodeD c).value)
    (htop : ∀ (k r : Nat), s.top[k]? = some r → (s.nodeD r).createdIn = .top)
    {L : List Nat} {V : List (Option Val)} (hA : Agree s L V) {i : Instr} {m : Nat}
    (hk : kindOfInstr s L v i = some (s.nodeD m).kind)
    (hm : s.isNecessary m = true)
    (hkids : ∀ c, c ∈ s.children m → (s.nodeD c).createdIn = .top → c < lcN) :
    denInstr env ev s.top v V i = (s.nodeD m).value := by
  obtain ⟨w, ht, hv⟩ := hall m hm
  have hmv := (g.nec m hm).1
  have hnec : ∀ c, c ∈ s.children m → s.isNecessary c = true := by
    intro c hc
    exact (g.edge_nec hm (Edge.child hc)).1
  unfold TargetB at ht
  rw [hv]
  cases i <;> simp only [kindOfInstr] at hk <;> try (cases hk; done)
  · -- const
    rename_i w'
    injection hk with hk
    rw [← hk] at ht
    simp only [Target, ← hk] at ht
    simp only [denInstr, ht]
  · -- lhsConst
    injection hk with hk
    rw [← hk] at ht
    simp only [Target, ← hk] at ht
    simp only [denInstr, ht]
  · -- map
    rename_i f args
    cases hr : resolveAll s L args with
    | none => rw [hr] at hk; cases hk
    | some cs =>
      rw [hr] at hk
      simp only [Option.map_some] at hk
      injection hk with hk
      have hch : s.children m = cs := by unfold State.children Node.kind?; rw [hmv, ← hk]; rfl
      rw [← hk] at ht
      simp only [Target, ← hk] at ht
      obtain ⟨vals, h1, h2⟩ := ht
      simp only [denInstr]
      rw [opnds_agree ev lcN hev htop hA args cs hr
        (fun c hc => ⟨hnec c (by rw [hch]; exact hc), hkids c (by rw [hch]; exact hc)⟩), h1, h2]
      rfl
  · -- fold
    rename_i f init args
    cases hr : resolveAll s L args with
    | none => rw [hr] at hk; cases hk
    | some cs =>
      rw [hr] at hk
      simp only [Option.map_some] at hk
      injection hk with hk
      simp only [denInstr]
      cases cs with
      | nil =>
        simp only [List.isEmpty_nil, if_true] at hk
        rw [← hk] at ht
        simp only [Target, ← hk] at ht
        rw [opnds_agree ev lcN hev htop hA args [] hr (fun c hc => by cases hc), ht]
        rfl
      | cons c0 cs =>
        simp only [List.isEmpty_cons, Bool.false_eq_true, if_false] at hk
        have hch : s.children m = c0 :: cs := by unfold State.children Node.kind?; rw [hmv, ← hk]; rfl
        rw [← hk] at ht
        simp only [Target, ← hk] at ht
        obtain ⟨vals, h1, h2⟩ := ht
        rw [opnds_agree ev lcN hev htop hA args (c0 :: cs) hr
          (fun c hc => ⟨hnec c (by rw [hch]; exact hc), hkids c (by rw [hch]; exact hc)⟩), h1, h2]
        rfl

theorem Agree.snoc {s : State} {L : List Nat} {V : List (Option Val)} (hA : Agree s L V) {m : Nat} {a : Option Val}
    (ha : s.isNecessary m = true → a = (s.nodeD m).value) : Agree s (L ++ [m]) (V ++ [a]) := by
  obtain ⟨hl, hp⟩ := hA
  refine ⟨by simp only [List.length_append, hl, List.length_cons, List.length_nil], ?_⟩
  intro j m' hj hn
  by_cases h1 : j < L.length
  · rw [List.getElem?_append_left h1] at hj
    rw [List.getElem?_append_left (by omega)]
    exact hp j m' hj hn
  · by_cases h2 : j = L.length
    · subst h2
      rw [List.getElem?_append_right (Nat.le_refl _)] at hj
      rw [List.getElem?_append_right (by omega)]
      simp only [Nat.sub_self, List.getElem?_cons_zero, Option.some.injEq] at hj
      subst hj
      rw [← hl]
      simp only [Nat.sub_self, List.getElem?_cons_zero, Option.join_some]
      exact ha hn
    · rw [List.getElem?_eq_none (by simp only [List.length_append, List.length_cons, List.length_nil]; omega)] at hj
      cases hj

/-- all instructions of a template -/
theorem agree_instrs {env : Env} {s : State} (g : BGraph env s) (ev : Nat → Option Val) (v : Val) (lcN : Nat)
    (hall : ∀ m, s.isNecessary m = true → ConsistentB env s m)
    (hev : ∀ c, s.isNecessary c = true → (s.nodeD c).createdIn = .top → c < lcN → ev c = (s.nodeD c).value)
    (htop : ∀ (k r : Nat), s.top[k]? = some r → (s.nodeD r).createdIn = .top) :
    ∀ (is : List Instr) (ms L : List Nat) (V : List (Option Val)), Agree s L V → is.length = ms.length →
      (∀ j i m, is[j]? = some i → ms[j]? = some m →
        kindOfInstr s (L ++ ms.take j) v i = some (s.nodeD m).kind) →
      (∀ m, m ∈ ms → s.isNecessary m = true →
        ∀ c, c ∈ s.children m → (s.nodeD c).createdIn = .top → c < lcN) →
      Agree s (L ++ ms) (denInstrs env ev s.top v is V) := by
  intro is
  induction is with
  | nil =>
    intro ms L V hA hl _ _
    cases ms with
    | nil => simpa only [List.append_nil, denInstrs] using hA
    | cons _ _ => cases hl
  | cons i is ih =>
    intro ms L V hA hl hk hm
    cases ms with
    | nil => cases hl
    | cons m ms =>
      simp only [denInstrs]
      have h0 := hk 0 i m rfl rfl
      simp only [List.take_zero, List.append_nil] at h0
      have hA1 : Agree s (L ++ [m]) (V ++ [denInstr env ev s.top v V i]) :=
        hA.snoc (fun hn => step_instr g ev v lcN hall hev htop hA h0 hn (hm m (List.mem_cons_self ..) hn))
      have := ih ms (L ++ [m]) _ hA1 (by simpa using hl)
        (fun j i' m' h1 h2 => by
          have := hk (j+1) i' m' (by simpa using h1) (by simpa using h2)
          simpa only [List.take_succ_cons, List.append_assoc, List.singleton_append] using this)
        (fun m' hm' => hm m' (List.mem_cons_of_mem _ hm'))
      simpa only [List.append_assoc, List.singleton_append] using this

/-! ## the main induction -/

theorem den_aux {env : Env} {s : State} (g : BGraph env s) (A : F1Inv env s) (G : GenOK env s)
    (hall : ∀ m, s.isNecessary m = true → s.isStale m = false ∧ ConsistentB env s m) :
    ∀ k n, s.isNecessary n = true → (s.nodeD n).createdIn = .top → n < k →
      den env s k n = (s.nodeD n).value := by
  intro k
  induction k with
  | zero => intro n _ _ h; omega
  | succ k ih =>
    intro n hn htopn hk
    obtain ⟨w, ht, hv⟩ := (hall n hn).2
    have hnlt := g.nec_lt hn
    have hnv := (g.nec n hn).1
    have N := A.frag.node n hnlt
    have hnec : ∀ c, c ∈ s.children n → s.isNecessary c = true := fun c hc => (g.edge_nec hn (Edge.child hc)).1
    rw [hv]
    unfold TargetB at ht
    unfold den
    cases hkd : (s.nodeD n).kind with
    | const w' => rw [hkd] at ht; simp only [Target, hkd] at ht; simp only [ht]
    | var c =>
      rw [hkd] at ht
      simp only [Target, hkd] at ht
      obtain ⟨vc, h1, h2⟩ := ht
      simp only [h1, h2, Option.map_some]
    | map f args =>
      rw [hkd] at ht
      have hcs : s.children n = args := by unfold State.children Node.kind?; rw [hnv, hkd]; rfl
      have hkids : ∀ a, a ∈ args → den env s k a = (s.nodeD a).value := by
        intro a ha
        rw [← hcs] at ha
        rcases (N.top htopn).2 a ha with ⟨h1, h2⟩ | ⟨b, lc, h1, _⟩
        · exact ih a (hnec a ha) h1 (by omega)
        · rw [hkd] at h1; cases h1
      simp only [Target, hkd] at ht
      obtain ⟨vals, h1, h2⟩ := ht
      simp only
      rw [evalArgs_congr _ _ args (fun a ha => hkids a ha)]
      unfold plainVals at h1
      rw [h1, h2]; rfl
    | fold f init cs =>
      rw [hkd] at ht
      have hcs : s.children n = cs := by unfold State.children Node.kind?; rw [hnv, hkd]; rfl
      have hkids : ∀ a, a ∈ cs → den env s k a = (s.nodeD a).value := by
        intro a ha
        rw [← hcs] at ha
        rcases (N.top htopn).2 a ha with ⟨h1, h2⟩ | ⟨b, lc, h1, _⟩
        · exact ih a (hnec a ha) h1 (by omega)
        · rw [hkd] at h1; cases h1
      simp only [Target, hkd] at ht
      obtain ⟨vals, h1, h2⟩ := ht
      simp only
      rw [evalArgs_congr _ _ cs (fun a ha => hkids a ha)]
      unfold plainVals at h1
      rw [h1, h2]; rfl
    | bindLhsChange b => rw [hkd] at ht; simp only at ht; rw [ht]
    | bindMain b lc =>
      rw [hkd] at ht
      obtain ⟨br', r', hb', hrhs', hrv⟩ := ht
      obtain ⟨br, hb, hmain, hlc, -⟩ := g.mainRec n b lc hnlt hnv hkd
      rw [hb] at hb'
      injection hb' with hb'
      rw [← hb'] at hrhs'
      obtain ⟨hm1, -, hlck, -, hlctop, -⟩ := A.frag.recs b br hb
      -- the change detector
      have hlcmem : lc ∈ s.children n := by
        unfold State.children Node.kind?
        rw [hnv, hkd]
        simp only [if_true, hb]
        exact List.mem_cons_self ..
      have hlcn := hnec lc hlcmem
      have hlcv := (g.nec lc hlcn).1
      have hlclt := g.nec_lt hlcn
      have hlcst := (hall lc hlcn).1
      obtain ⟨v, r, hlv, hrhs, E⟩ := G b br hb (by rw [hlc]; exact hlcst)
      rw [hrhs] at hrhs'
      injection hrhs' with hrhs'
      rw [← hrhs'] at hrv
      have hrmem : r ∈ s.children n := by
        unfold State.children Node.kind?
        rw [hnv, hkd]
        simp only [if_true, hb, hrhs]
        simp
      have hrn := hnec r hrmem
      -- the lhs
      rw [hlc] at hlck hlctop hm1
      have hlhsmem : br.lhs ∈ s.children lc := by
        unfold State.children Node.kind?
        rw [hlcv, hlck]
        simp only [if_true, hb]
        exact List.mem_singleton.2 rfl
      have hlhsn := (g.edge_nec hlcn (Edge.child hlhsmem)).1
      have hlhs : den env s k br.lhs = some v := by
        rw [← hlv]
        rcases ((A.frag.node lc hlclt).top hlctop).2 br.lhs hlhsmem with ⟨h1, h2⟩ | ⟨b', lc', h1, _⟩
        · exact ih br.lhs hlhsn h1 (by omega)
        · rw [hlck] at h1; cases h1
      simp only [hb, hlhs]
      -- the template
      have hev : ∀ c, s.isNecessary c = true → (s.nodeD c).createdIn = .top → c < lc →
          den env s k c = (s.nodeD c).value := fun c h1 h2 h3 => ih c h1 h2 (by omega)
      have htopT : ∀ (k' r' : Nat), s.top[k']? = some r' → (s.nodeD r').createdIn = .top :=
        fun k' r' h => (A.topOK k' r' h).2.1
      have hAg := agree_instrs g (den env s k) v lc (fun m hm => (hall m hm).2) hev htopT
        (env.body br.body v).instrs br.allNodesCreatedOnRhs [] [] (Agree.nil s) E.len.symm
        (fun j i m h1 h2 => by simpa only [List.nil_append] using E.kinds j i m h1 h2)
        (fun m hm hmn c hc hct => by
          obtain ⟨hmlt, -, hmsc⟩ := (A.frag.gen b br hb m).1 (Or.inl hm)
          obtain ⟨-, -, br2, hb2, -, hkids⟩ := (A.frag.node m hmlt).inScope b hmsc
          rw [hb] at hb2; cases hb2
          rcases hkids c hc with ⟨_, h2⟩ | ⟨h1, _⟩
          · rw [hlc] at h2; exact h2
          · rw [hct] at h1; cases h1)
      rw [List.nil_append] at hAg
      have hret := E.ret
      unfold denT
      rw [← hrv]
      generalize (env.body br.body v).ret = o at hret ⊢
      cases o with
      | outer k' =>
        simp only [resolveP] at hret
        simp only [denOpnd, hret]
        have hrt := htopT k' r hret
        rcases (N.top htopn).2 r hrmem with ⟨_, h2⟩ | ⟨b', lc', _, h2⟩
        · exact ih r hrn hrt (by omega)
        · rw [hrt] at h2; cases h2
      | loc j =>
        simp only [resolveP] at hret
        simp only [denOpnd]
        exact hAg.2 j r hret hrn
      | abs _ => simp only [resolveP] at hret; cases hret
      | slot _ => simp only [resolveP] at hret; cases hret
    | mapRef _ _ => rw [hkd] at ht; simp only [Target, hkd] at ht
    | mapWithOld _ _ => rw [hkd] at ht; simp only [Target, hkd] at ht
    | expert _ => rw [hkd] at ht; simp only [Target, hkd] at ht

end C3d

/-- **values = from-scratch semantics.**  In a state at rest in which every necessary node is consistent and not stale (e.g. after a drain:
`DInv env s none` with an empty heap), with the fragment facts `F1Inv` and current generations `GenOK`: every necessary TOP-LEVEL node's stored value is
its from-scratch value, for enough fuel (any fuel `> n` does). -/
theorem den_of_consistent {env : Env} {s : State} (g : BGraph env s) (A : F1Inv env s) (G : GenOK env s)
    (hall : ∀ m, s.isNecessary m = true → s.isStale m = false ∧ ConsistentB env s m)
    (n : Nat) (hn : s.isNecessary n = true) (htop : (s.nodeD n).createdIn = .top) :
    ∃ k, den env s k n = (s.nodeD n).value ∧ (s.nodeD n).value.isSome = true := by
  refine ⟨n + 1, C3d.den_aux g A G hall (n + 1) n hn htop (Nat.lt_succ_self n), ?_⟩
  obtain ⟨w, -, hv⟩ := (hall n hn).2
  rw [hv]; rfl

/-- the uniform-fuel form: any fuel above the node's index does -/
theorem den_of_consistent_fuel {env : Env} {s : State} (g : BGraph env s) (A : F1Inv env s) (G : GenOK env s)
    (hall : ∀ m, s.isNecessary m = true → s.isStale m = false ∧ ConsistentB env s m)
    (n : Nat) (hn : s.isNecessary n = true) (htop : (s.nodeD n).createdIn = .top) (k : Nat) (hk : n < k) :
    den env s k n = (s.nodeD n).value :=
  C3d.den_aux g A G hall k n hn htop hk

end IncrVerif.Proofs.BindH
