import IncrVerif.Proofs.DriverH4
/-!
# Drivers, part 4: contracts of the `stabilise` and history level
-/
namespace IncrVerif.Proofs.DriverH
open IncrVerif.Engine IncrVerif.Driver IncrVerif.Proofs IncrVerif.Proofs.Step IncrVerif.Proofs.Sched
open IncrVerif.Proofs.ExpertH IncrVerif.Proofs.ExpertH.QR IncrVerif.Proofs.EffH

/-- what a `stabilise` of a program with drivers establishes (`E = noEff env`) -/
structure StabilisedD (env : Env) (fuel : Nat) (s s' : State) : Prop where
  /-- the invariant between API actions again (for some rank: the drivers may have changed the graph) -/
  inv : ∃ rk', QInvX (noEff env) rk' s'
  /-- every necessary node is not stale and READS its from-scratch value in the FINAL graph (an expert node: the sum of
  the from-scratch values of its CURRENT dependencies, as left by the drivers' last runs) -/
  values : ∀ n, s'.isNecessary n = true → ∀ k, (s'.nodeD n).height.toNat < k →
    s'.isStale n = false ∧ s'.value env n = evalX env s' k n ∧ (evalX env s' k n).isSome = true
  reads : ReadsOKX env s'
  settled : ObsSettled s'
  /-- the drivers are still well-formed -/
  drv : DrvOK env s'
  vars : s'.vars = s.vars
  stabNum : s'.stabNum = s.stabNum + 1
  size : s'.nodes.size = s.nodes.size
  /-- the phases: the drain starts and ends in the drain invariant, its heap is empty at the end, NO NODE RAN TWICE -/
  drain : ∃ t1 t2 t3, (addNewObservers env fuel).run.run { s with status := .stabilising } = (.ok (), t1) ∧
    (unlinkDisallowedObservers fuel).run.run t1 = (.ok (), t2) ∧ DD env t2 none ∧
    (drainHeap env fuel).run.run t2 = (.ok (), t3) ∧ DD env t3 none ∧ t3.rch.length = 0 ∧
    (drainTrace env fuel t2).Nodup ∧ (stabiliseEnd env fuel).run.run t3 = (.ok (), s')

/-- **`stabilise` with drivers** -/
def StabSpec (env : Env) : Prop :=
  ∀ (rk : Nat → Nat) (fuel : Nat) (s s' : State), QInvX (noEff env) rk s → DrvOK env s →
    (stabilise env fuel).run.run s = (.ok (), s') → StabilisedD env fuel s s'

/-- the API actions of the fragment with drivers, relative to the state in which the action is executed: those of
fragment X1 for the effect-free environment (so ANY `map` with a user function may be created: its effects are not
looked at), and `stabilise` only when the drivers are well-formed (`DrvOK`: every effect of every user `map` node is
`xAdd`/`xRm`/`xSel`/`xStale` on an expert node to which the node is attached by a protected dependency, targets static
and expert-free) -/
def DActionOK (env : Env) (s : State) : Action → Prop
  | .stabilise => DrvOK env s
  | a => XActionOK (noEff env) s a

/-- every action of a run is an action of the fragment, in the state in which it is executed -/
def RunOKD (env : Env) : List Action → State → Array Nat → Prop
  | [], _, _ => True
  | a :: as, s, tk => DActionOK env s a ∧
      ∀ r s', (stepAction env a tk).run.run s = (.ok r, s') → RunOKD env as s' r.2

end IncrVerif.Proofs.DriverH
