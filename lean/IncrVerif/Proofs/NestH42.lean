import IncrVerif.Proofs.NestH41
import IncrVerif.Proofs.NestH3
/-!
# Nested binds, fragment F2 end to end (modulo the lc-step theorem) — the hypothesis `LcStepsOK2` of the scheduling theorem

Port of `BindH79` (`C1g`).  The auxiliary invariant of a drain is `Aux2 env s := ∃ rk, F2Inv env rk s` (the ghost rank is re-chosen by every run of a
change detector, which creates nodes; runs of the other nodes and `remove_min` keep it, `NF1`).  The description of a run of a change detector
(`LcStepF2`, the composition of the four phases) is TAKEN AS A HYPOTHESIS here.
-/
namespace IncrVerif.Proofs.NestH
open IncrVerif.Engine IncrVerif.Proofs IncrVerif.Proofs.Step IncrVerif.Proofs.Sched IncrVerif.Proofs.Quiet
open IncrVerif.Proofs.BindH

/-- the auxiliary invariant of a drain in fragment F2: `F2Inv` for SOME rank -/
def Aux2 (env : Env) (s : State) : Prop := ∃ rk, F2Inv env rk s

/-- the lc-step theorem of fragment F2 (statement): a successful run of a change detector from a state with the drain invariant and `F2Inv` is described by
`StepL2` and ends with `F2Inv` for a rank that orders the old nodes as before -/
def LcStepF2 (env : Env) : Prop :=
  ∀ (fuel n b : Nat) (rk : Nat → Nat) (s s' : State) (r : Option Nat),
    DInv env s (some n) → F2Inv env rk s → (s.nodeD n).kind = .bindLhsChange b →
    (recomputeOne env fuel n).run.run s = (.ok r, s') →
    ∃ br br' rk', StepL2 env n b br br' r s s' ∧ F2Inv env rk' s' ∧ RkExt rk rk' s.nodes.size

/-- **In fragment F2 every step of a drain is described by the step relations** and keeps `Aux2` (given the lc-step theorem). -/
theorem lcStepsOK_F2 {env : Env} (H : LcStepF2 env) : LcStepsOK2 env (Aux2 env) where
  lc fuel n b s s' r I A hk h := by
    obtain ⟨rk, A⟩ := A
    obtain ⟨br, br', rk', R, A', -⟩ := H fuel n b rk s s' r I A hk h
    exact ⟨⟨br, br', R⟩, rk', A'⟩
  other _ _ _ _ _ I A hk h := by
    obtain ⟨rk, A⟩ := A
    exact ⟨rk, recomputeOne_stepB_F2 I.graph I.heap I.cur_facts.1 hk I.kids_values h A⟩
  pop _ _ _ I A h := by
    obtain ⟨rk, A⟩ := A
    exact ⟨rk, pop_F2 I.heap h A⟩

/-- **The drain in fragment F2** (given the lc-step theorem): from the drain invariant and `Aux2`, a successful `drainHeap` ends with both again, an empty
heap, the cells and the round number unchanged, and every necessary node valid, non-stale and equal (stored value and observer read) to its from-scratch value `evalB`
in the FINAL graph. -/
theorem drainHeap_F2 {env : Env} (H : LcStepF2 env) {fuel : Nat} {s s' : State} (I : DInv env s none) (A : Aux2 env s)
    (h : (drainHeap env fuel).run.run s = (.ok (), s')) :
    DInv env s' none ∧ Aux2 env s' ∧ s'.rch.length = 0 ∧ s'.vars = s.vars ∧ s'.stabNum = s.stabNum ∧
    ∀ n, s'.isNecessary n = true → ∀ k, (s'.nodeD n).height.toNat < k →
      (s'.nodeD n).valid = true ∧ s'.isStale n = false ∧
        (s'.nodeD n).value = evalB env s' k n ∧ s'.value env n = evalB env s' k n ∧
        (evalB env s' k n).isSome = true :=
  drainHeap_valuesB2 (lcStepsOK_F2 H) I A h

/-- **No node runs twice, and no node of a generation that dies in the drain runs in it** (fragment F2, given the lc-step theorem): the nodes run by the drain
are pairwise distinct, each had not run in this round before, and each is still VALID at the end of the drain (so no node of a generation of a bind or of an
inner bind that is invalidated during this drain was recomputed in it). -/
theorem drain_once_F2 {env : Env} (H : LcStepF2 env) (fuel : Nat) (s s' : State) (I : DInv env s none) (A : Aux2 env s)
    (h : (drainHeap env fuel).run.run s = (.ok (), s')) :
    (drainTrace env fuel s).Nodup ∧ ∀ m, m ∈ drainTrace env fuel s → RanOnceB s s' m :=
  drain_onceB2 (lcStepsOK_F2 H) fuel s s' I A h

end IncrVerif.Proofs.NestH
