import IncrVerif.Proofs.TidyH61
/-!
# T1b, part 5: `childChanged` through map_ref parents — invisible in the virtual state, and it RETURNS

`childChanged env fuel p child ci old` on a map_ref parent `p` reads the value of `child` (which must exist), updates the
flag of `p` and recurses through the recorded parents of `p`.  With `P2 N K` those are younger than `p` and exist, so
`N ≤ fuel + p` is enough fuel.
-/
namespace IncrVerif.Proofs.TidyH.RT
open IncrVerif.Engine IncrVerif.Driver IncrVerif.Proofs IncrVerif.Proofs.Step IncrVerif.Proofs.Sched IncrVerif.Proofs.Quiet
open IncrVerif.Proofs.MapRefH

section
variable {g : Nat → Option Val} {N : Nat} {K : Nat → Kind}

/-- flag-only work does not change what the nodes read -/
theorem veq_value {s s' : State} (v : VEq g s s') (hfr : Fr s) (env : Env) (m : Nat) :
    s'.value env m = s.value env m := by
  have hnd : ∀ k, (virt g s').nodeD k = (virt g s).nodeD k := fun k => by rw [v.veq]
  have hsz : s'.nodes.size = s.nodes.size := by
    have := congrArg (fun t : State => t.nodes.size) v.veq
    simpa [virt_size] using this
  refine value_congr_mr env s s' hsz (fun k => ⟨v.kind k, ?_, ?_⟩) m
  · have := congrArg Node.valid (hnd k)
    rwa [virt_nodeD, virt_nodeD, virtNode_valid, virtNode_valid] at this
  · by_cases hk : ∀ p i, (s.nodeD k).kind ≠ .mapRef p i
    · left
      have := congrArg Node.value (hnd k)
      rwa [virt_nodeD, virt_nodeD, virtNode_value_of_not_mapRef _ _ hk,
        virtNode_value_of_not_mapRef _ _ (by rw [v.kind]; exact hk)] at this
    · right
      refine ⟨isMapRef_iff.2 ?_, hfr.valid k⟩
      cases hkd : (s.nodeD k).kind <;> first | exact ⟨_, _, rfl⟩ | (exfalso; apply hk; intro p i; rw [hkd]; intro h; cases h)

/-- the carried invariant of a notification walk from node `n`: `P2`, and `n` has a value -/
structure P3 (N : Nat) (K : Nat → Kind) (env : Env) (n : Nat) (s : State) : Prop where
  p2 : P2 N K s
  val : (s.value env n).isSome = true

instance (env : Env) (n : Nat) : Keeps (P3 N K env n) where
  fr h := h.p2.fr
  of_nodes {s s'} h e1 e2 := by
    refine ⟨Keeps.of_nodes h.p2 e1 e2, ?_⟩
    have hn : ∀ k, s'.nodeD k = s.nodeD k := fun k => by simp [State.nodeD, e1]
    rw [value_congr env s s' (by rw [e1]) (fun k => by rw [hn])]; exact h.val
  modify {s} m f h hk := by
    refine ⟨Keeps.modify m f h.p2 hk, ?_⟩
    rw [value_congr env s _ (by simp) (fun k => ?_)]
    · exact h.val
    · rw [nodeD_modify]; split
      · simp only [valueCore, (hk _).1, (hk _).2.1, (hk _).2.2.2.2]
      · rfl
  rmParent {s} c k h := by
    refine ⟨Keeps.rmParent c k h.p2, ?_⟩
    rw [value_congr env s _ (by simp) (fun k => ?_)]
    · exact h.val
    · rw [nodeD_modify]; split <;> rfl

theorem P3.of_veq {env : Env} {n : Nat} {s s' : State} (h : P3 N K env n s) (v : VEq g s s') : P3 N K env n s' :=
  ⟨h.p2.of_veq v, by rw [veq_value v h.p2.fr]; exact h.val⟩

/-- **`childChanged` returns.** -/
theorem childChanged_returns (env : Env) : ∀ (fuel p c ci : Nat) (o : Option Val) (s : State), P2 N K s →
    c ∈ kidsR (K p) → N ≤ fuel + p → (s.value env c).isSome = true →
    ∃ s', (childChanged env fuel p c ci o).run.run s = (.ok (), s') := by
  intro fuel
  induction fuel with
  | zero =>
    intro p c ci o s hp hc hf _
    have := hp.lt_of_kid hc; omega
  | succ fuel ih =>
    intro p c ci o s hp hc hf hval
    have hpN := hp.lt_of_kid hc
    have hlt : p < s.nodes.size := by rw [hp.size]; exact hpN
    suffices T : Tot (childChanged env (fuel + 1) p c ci o) s (fun _ _ => True) by
      obtain ⟨_, s', h, -⟩ := T; exact ⟨s', h⟩
    unfold childChanged
    refine Tot.bind_getNode hlt ?_
    have hk? : (s.nodeD p).kind? = some (K p) := by simp [Node.kind?, hp.fr.valid p, hp.kind p]
    rw [hk?]
    have hfk := hp.fragK p
    cases hkp : K p <;> rw [hkp] at hfk hc <;> try exact hfk.elim
    case mapRef pr i =>
      dsimp only
      have hci : c = i := by simpa [kidsR] using hc
      obtain ⟨cv, hcv⟩ := Option.isSome_iff_exists.1 hval
      refine Tot.bind_ok (a := cv) (s1 := s) (by rw [run_valueUnwrap, hcv]) ?_
      -- the cutoff of a map_ref node is `.eq`
      have hcut : (s.nodeD p).cutoff = .eq := hp.fr.cut p pr i (by rw [hp.kind, hkp])
      have hsc : ∀ (a b : Val), (shouldCutoff env p a b).run.run s = (.ok (a == b), s) := by
        intro a b
        unfold shouldCutoff
        rw [run_bind_ok (run_getNode_some (some_of_lt hlt)), hcut]; rfl
      suffices tail : ∀ (oo : Option Val) (did : Bool), Tot (do
          modNode p fun x => { x with didChange := x.didChange || did }
          let nd ← getNode p
          forIn nd.parents PUnit.unit fun x _ => do
            childChanged env fuel x.fst p x.snd oo
            pure (ForInStep.yield PUnit.unit)
          pure ()) s (fun _ _ => True) by
        cases o with
        | none =>
          simp only [Option.map_none, pure_bind]
          exact tail _ true
        | some ov =>
          simp only [Option.map_some]
          refine Tot.bind_ok (hsc _ _) ?_
          simp only [pure_bind]
          exact tail _ _
      intro oo did
      refine Tot.bind_modNode ?_
      have v1 : VEq (fun _ => none) s { s with nodes := s.nodes.modify p fun x => { x with didChange := x.didChange || did } } :=
        VEq.modNode s p _ (by vflag)
      have hp1 := hp.of_veq v1
      have hval1 : ∀ m, ({ s with nodes := s.nodes.modify p fun x => { x with didChange := x.didChange || did } } :
          State).value env m = s.value env m := veq_value v1 hp.fr env
      generalize ({ s with nodes := s.nodes.modify p fun x => { x with didChange := x.didChange || did } } : State)
        = s1 at hp1 hval1
      have hlt1 : p < s1.nodes.size := by rw [hp1.size]; exact hpN
      refine Tot.bind_getNode hlt1 ?_
      -- `p` has a value, through the whole walk
      have hvp : (s1.value env p).isSome = true := by
        rw [hval1]
        have F : MapRefsBack s := by
          intro n nd q j hn hk
          have e := nodeD_of_some hn
          have : j ∈ kidsR (K n) := by rw [← hp.kind n, e, hk]; simp [kidsR]
          exact hp.back n j this
        unfold State.value
        rw [valueWith_succ']
        have hcore : valueCore (s.nodeD p) = (.mapRef pr i, true, (s.nodeD p).value) := by
          simp [valueCore, hp.kind p, hkp, hp.fr.valid p]
        rw [hcore]
        simp only [valueStep']
        have hi : i < p := hp.back p i (by rw [hkp]; simp [kidsR])
        have := valueWith_congr_below env.proj s s F i (fun _ _ => rfl) (s.nodes.size) (s.nodes.size + 1)
          (by omega) (by omega)
        rw [← this]
        rw [hci] at hval
        unfold State.value at hval
        cases hx : State.valueWith env.proj s (s.nodes.size + 1) i with
        | none => rw [hx] at hval; cases hval
        | some x => rfl
      refine Tot.bind (Q := fun _ _ => True) ?_ (fun _ _ _ _ => Tot.pure trivial)
      have key := forIn_tot (fun (x : Nat × Nat) (r : PUnit) => do
          let _ ← childChanged env fuel x.1 p x.2 oo
          pure (ForInStep.yield PUnit.unit)) (s1.nodeD p).parents
        (fun _ _ t => P2 N K t ∧ (t.value env p).isSome = true) ?_
        (s1.nodeD p).parents 0 PUnit.unit s1 (by simp) (Nat.zero_le _) ⟨hp1, hvp⟩
      · obtain ⟨b', s', h, -⟩ := key
        exact ⟨b', s', h, trivial⟩
      · intro j a b t hj ⟨hpt, hvt⟩
        have hmem : a ∈ (s1.nodeD p).parents := List.mem_of_getElem? hj
        obtain ⟨pp, ci'⟩ := a
        obtain ⟨h1, h2, h3⟩ := hp1.parent_facts hmem
        obtain ⟨t', ht'⟩ := ih pp p ci' _ t hpt h3 (by omega) hvt
        have v := childChanged_veq (g := fun _ => none) hpt.fr ht'
        exact ⟨PUnit.unit, t', by rw [run_bind_ok ht', run_pure], hpt.of_veq v, by rw [veq_value v hpt.fr]; exact hvt⟩
    all_goals exact Tot.pure trivial

/-- the leaf: `childChanged` from the changed node `n` to a recorded parent `p` -/
theorem BSimAt.childChanged {env : Env} {fuel p n ci : Nat} {o o' : Option Val} {s : State}
    (hk : n ∈ kidsR (K p)) (hf : N ≤ fuel + p) :
    BSimAt (P3 N K env n) g s (Engine.childChanged env fuel p n ci o)
      (Engine.childChanged (virtEnv env) fuel p n ci o') := by
  intro hp
  refine ⟨fun r s' hr => ?_, fun r t hr => ?_⟩
  · exact ⟨(Sim.childChanged (g := g) env fuel p n ci o o' s hp.p2.fr r s' hr).1,
      hp.of_veq (childChanged_veq (g := g) hp.p2.fr hr)⟩
  · obtain ⟨s', hs'⟩ := childChanged_returns env fuel p n ci o s hp.p2 hk hf hp.val
    exact ⟨s', hs'⟩

end
end IncrVerif.Proofs.TidyH.RT
