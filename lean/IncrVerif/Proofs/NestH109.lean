import IncrVerif.Proofs.NestH87
import IncrVerif.Proofs.NestH43
/-!
# Total correctness for nested binds, the CONTRACTS between the layers (runs that create nodes)

A run that creates nodes (a run of a change detector, the drain, `stabilise`, a history) is shown to return under the proviso that THE STATE IT ENDS IN — whatever the
outcome; `M` keeps the state when a panic is raised — still has room: at most `N` nodes (the height limit: heights are bounded by the position in the rank order of all
nodes ever created, `HBo2`) and `needFuel` of its node count `≤ fuel` (`TotIf`, `T2a.lean`).  The node count only grows (`Step.Stamp`), so every intermediate state has room too.
-/
namespace IncrVerif.Proofs.NestH
open IncrVerif.Engine IncrVerif.Driver IncrVerif.Proofs IncrVerif.Proofs.Step IncrVerif.Proofs.Sched IncrVerif.Proofs.Quiet
open IncrVerif.Proofs.BindH

/-- both heaps have `N + 1` buckets -/
structure Lim (N : Nat) (s : State) : Prop where
  ahh : s.ahh.maxAllowed = (N : Int)
  rch : s.rch.maxAllowed = (N : Int)

theorem Lim.room {N : Nat} {s : State} (L : Lim N s) (h : s.nodes.size ≤ N) : Room N s := ⟨L.ahh, L.rch, h⟩
theorem Room.lim {N : Nat} {s : State} (R : Room N s) : Lim N s := ⟨R.ahh, R.rch⟩

/-- fuel that suffices for every cascade / loop inside one step of the drain, and for the steps themselves, in a state with `sz` nodes -/
def needFuel (sz : Nat) : Nat := 4 * sz + 8

/-- the room proviso on the final state -/
def HasRoom (N fuel : Nat) (s' : State) : Prop := s'.nodes.size ≤ N ∧ needFuel s'.nodes.size ≤ fuel

/-- what the "no panic" argument carries through a drain besides `DInv`: the auxiliary structural invariant (for some ghost rank), the height bound, "a change detector
that has run has installed a right-hand side", the bucket counts -/
def DT (env : Env) (N : Nat) (s : State) : Prop :=
  ∃ rk, F2Inv env rk s ∧ HBo2 rk s allClosed ∧ RhsRan s ∧ Lim N s

/-- CONTRACT: a run of a change detector returns if the state it ends in has room -/
def LcStepTot (env : Env) (N : Nat) : Prop :=
  ∀ (fuel n b : Nat) (s : State), DInv env s (some n) → DT env N s → (s.nodeD n).kind = .bindLhsChange b →
    TotIf (recomputeOne env fuel n) s (HasRoom N fuel) (fun _ s' => DT env N s')

/-- CONTRACT: the drain returns if the state it ends in has room; `fuel0` is the fuel `stabilise` was called with (the drain's own fuel is the same) -/
def DrainTot (env : Env) (N : Nat) : Prop :=
  ∀ (fuel : Nat) (s : State), DInv env s none → DT env N s →
    TotIf (drainHeap env fuel) s (HasRoom N fuel) (fun _ s' => DT env N s')

/-- the invariant between API actions for the "no panic" argument -/
def QT (env : Env) (N : Nat) (s : State) : Prop :=
  ∃ rk, QInv2 env rk s ∧ TInv2 rk N s ∧ RhsRan s

/-- CONTRACT: `stabilise` returns if the state it ends in has room -/
def StabTot (env : Env) (N : Nat) : Prop :=
  ∀ (fuel : Nat) (s : State), QT env N s →
    TotIf (stabilise env fuel) s (HasRoom N fuel) (fun _ s' => QT env N s')

end IncrVerif.Proofs.NestH
