import IncrVerif.Proofs.ExpertH51
/-!
# Expert nodes (fragment X1): a decidable check of `RunOK`, and the harness' "sumdeps" closure

* `acyclicB s c n`: computes the set of nodes below `c`, CHECKS that it is closed under child edges and does not
  contain `n`; sound for `¬ Below s c n` (no completeness claim).
* `runOKB …`: runs the history on the model and checks every action; `runOKB_sound`.
* `toEnv_xEnvOK`: the recompute closure `expert sumdeps m` of the harness (`Defs.toEnv`, `f = 10 * m`) is `XEnvOK`.
-/
namespace IncrVerif.Proofs.ExpertH
open IncrVerif.Engine IncrVerif.Driver IncrVerif.Proofs IncrVerif.Proofs.Step IncrVerif.Proofs.Sched
open IncrVerif.Proofs.ExpertH.QR IncrVerif.Proofs.Xp

/-! ## acyclicity check -/

/-- the children of node `a` in the actual graph -/
def kidsOf (s : State) (a : Nat) : List Nat := kidsX s.experts (s.nodeD a).kind

def descB (s : State) : Nat → List Nat → List Nat
  | 0, D => D
  | k+1, D => descB s k (D ++ (D.flatMap (kidsOf s)).filter fun x => !D.contains x)

def closedB (s : State) (D : List Nat) : Bool := D.all fun a => (kidsOf s a).all fun x => D.contains x

def acyclicB (s : State) (c n : Nat) : Bool :=
  let D := descB s s.nodes.size [c]
  D.contains c && closedB s D && !D.contains n

theorem below_closed {s : State} {D : List Nat} (hcl : closedB s D = true) {a m : Nat} (h : Below s a m)
    (ha : a ∈ D) : m ∈ D := by
  induction h with
  | refl a => exact ha
  | step hb _ ih =>
    apply ih
    have := List.all_eq_true.1 hcl _ ha
    have := List.all_eq_true.1 this _ hb
    simpa using this

theorem acyclicB_sound {s : State} {c n : Nat} (h : acyclicB s c n = true) : ¬ Below s c n := by
  unfold acyclicB at h
  simp only [Bool.and_eq_true, Bool.not_eq_true', List.contains_eq_mem, decide_eq_true_eq,
    decide_eq_false_iff_not] at h
  obtain ⟨⟨hc, hcl⟩, hn⟩ := h
  intro hb
  exact hn (below_closed hcl hb hc)

/-! ## the action check -/

def isExpertB : Kind → Bool
  | .expert _ => true
  | _ => false

def addDepOKB (s : State) : Opnd → Opnd → Bool
  | .outer kn, .outer kc =>
    match s.top[kn]?, s.top[kc]? with
    | some n, some c => isExpertB (s.nodeD n).kind && acyclicB s c n
    | _, _ => true
  | _, _ => false

theorem addDepOKB_sound {s : State} {eo co : Opnd} (h : addDepOKB s eo co = true) : AddDepOK s eo co := by
  cases eo <;> cases co <;> simp only [addDepOKB] at h <;> try (first | exact h | cases h)
  rename_i kn kc
  intro n c hn hc
  rw [hn, hc] at h
  simp only [Bool.and_eq_true] at h
  refine ⟨?_, acyclicB_sound h.2⟩
  cases hk : (s.nodeD n).kind <;> rw [hk] at h <;> simp only [isExpertB] at h <;>
    first | exact ⟨_, rfl⟩ | (exact absurd h.1 (by decide))

def opndB : Opnd → Bool
  | .outer _ => true
  | _ => false

theorem opndB_sound {o : Opnd} (h : opndB o = true) : OpndOK o := by
  cases o <;> first | trivial | cases h

/-- `mapOK f`: the user function `f` may be used in `map` nodes; `xOK f`: the closure `f` in expert nodes -/
def instrOKB (mapOK xOK : Nat → Bool) : Instr → Bool
  | .const _ | .var _ => true
  | .map f args => mapOK f && args.all opndB
  | .fold f _ cs => decide (f < xBase) && cs.all opndB
  | .zip a b => opndB a && opndB b
  | .expert f => xOK f
  | _ => false

def actionOKB (mapOK xOK : Nat → Bool) (s : State) : Action → Bool
  | .create i => instrOKB mapOK xOK i
  | .addDep eo co _ => addDepOKB s eo co
  | .observe o => opndB o
  | .cloneObs _ | .dropObs _ | .disallow _ => true
  | .set _ _ | .modify _ _ | .update _ _ | .replace _ _ | .replaceWith _ _ | .get _ => true
  | .stabilise | .isStable | .stats => true
  | _ => false

theorem actionOKB_sound {env : Env} {mapOK xOK : Nat → Bool}
    (hm : ∀ f, mapOK f = true → f < fnPerKey ∧ (f < fnZip → ∀ vals, env.fnEff f vals = []))
    (hx : ∀ f, xOK f = true → XEnvOK env f ∧ f < xBase) {s : State} {a : Action}
    (h : actionOKB mapOK xOK s a = true) : XActionOK env s a := by
  have hall : ∀ (l : List Opnd), l.all opndB = true → ∀ a, a ∈ l → OpndOK a :=
    fun l hl a ha => opndB_sound (List.all_eq_true.1 hl a ha)
  cases a <;> simp only [actionOKB] at h <;> try (first | trivial | cases h)
  case create i =>
    cases i <;> simp only [instrOKB] at h <;> try (first | trivial | cases h)
    case map f args =>
      simp only [Bool.and_eq_true] at h
      exact ⟨(hm f h.1).1, (hm f h.1).2, hall args h.2⟩
    case fold f init cs =>
      simp only [Bool.and_eq_true, decide_eq_true_eq] at h
      exact ⟨h.1, hall cs h.2⟩
    case zip a b =>
      simp only [Bool.and_eq_true] at h
      exact ⟨opndB_sound h.1, opndB_sound h.2⟩
    case expert f => exact hx f h
  case addDep eo co cb => exact addDepOKB_sound h
  case observe o => exact opndB_sound h

/-- run the history on the model and check every action in the state in which it is executed -/
def runOKB (env : Env) (mapOK xOK : Nat → Bool) : List Action → State → Array Nat → Bool
  | [], _, _ => true
  | a :: as, s, tk =>
    actionOKB mapOK xOK s a &&
      match (stepAction env a tk).run.run s with
      | (.ok r, s') => runOKB env mapOK xOK as s' r.2
      | (.error _, _) => true

theorem runOKB_sound {env : Env} {mapOK xOK : Nat → Bool}
    (hm : ∀ f, mapOK f = true → f < fnPerKey ∧ (f < fnZip → ∀ vals, env.fnEff f vals = []))
    (hx : ∀ f, xOK f = true → XEnvOK env f ∧ f < xBase) :
    ∀ (acts : List Action) (s : State) (tk : Array Nat), runOKB env mapOK xOK acts s tk = true →
      RunOK env acts s tk := by
  intro acts
  induction acts with
  | nil => intro s tk _; trivial
  | cons a as ih =>
    intro s tk h
    simp only [runOKB, Bool.and_eq_true] at h
    refine ⟨actionOKB_sound hm hx h.1, fun r s' hr => ?_⟩
    have h2 := h.2
    rw [hr] at h2
    exact ih s' r.2 h2

/-! ## the harness' closure -/

theorem foldl_un_some (vals : List Val) (a : Int) :
    (vals.map some).foldl (fun a (o : Option Val) => a + (match o with | some v => v.toInt | none => 100)) a =
      (vals.map Val.toInt).foldl (· + ·) a := by
  induction vals generalizing a with
  | nil => rfl
  | cons v vs ih => simp only [List.map_cons, List.foldl_cons]; exact ih _

/-- **the harness' `expert sumdeps m` closure** (`f = 10 * m + 0`) is the sum of the dependencies modulo `m` -/
theorem toEnv_xEnvOK (d : Defs) (f : Nat) (h : f % 10 = 0) : XEnvOK d.toEnv f := by
  intro vals slots
  rw [foldl_xStep]
  show (if (f % 10 == 0) = true then _ else _) = _
  rw [if_pos (by simp [h])]
  have e1 := foldl_un_some vals 0
  have e2 : ((f : Int) / 10) = ((f / 10 : Nat) : Int) := by omega
  show Val.int (emod (List.foldl (fun a (o : Option Val) => a + (match o with | some v => v.toInt | none => 100)) 0
    (List.map some vals)) ((f : Int) / 10)) = _
  rw [e1, e2]

end IncrVerif.Proofs.ExpertH
