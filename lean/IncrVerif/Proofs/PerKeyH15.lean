import IncrVerif.Proofs.PerKeyH14
/-!
# A run of a per-key change detector, part 3b: FRAME LEMMAS for whole operators

* `bf_priv_lt`, `priv_kind`: private nodes exist; the only change detector among the private nodes of `op` is its own
* `OpCore.bf_gen`: the bookkeeping of an operator NONE of whose records is in `D`, along `BF D a b`
* `OpOK.bf_other` (another operator during a run), `OpCore.bf_same` (no record's children change)
* `NoRemOp.bf`, `NoRemOp.bf_run`, `recsOK_bf`
* `bf_priv_cons`, `own_extend`: ownership of the running operator after one new entry
-/
namespace IncrVerif.Proofs.PerKeyH
open IncrVerif.Engine IncrVerif.Driver IncrVerif.Proofs IncrVerif.Proofs.Step IncrVerif.Proofs.Sched
open IncrVerif.Proofs.ExpertH IncrVerif.Proofs.EffH IncrVerif.Proofs.DriverH IncrVerif.Proofs.ExpertH.QR

/-! ## 3. another operator -/

/-- a private node exists -/
theorem bf_priv_lt {env : Env} {s : State} {op : Nat} {pr : PerKeyRec} (h : OpCore env s op pr) {x : Nat}
    (hx : Priv env pr x) : x < s.nodes.size := by
  obtain ⟨x0, e, er, hN, he, hpk, hch, hent, hout⟩ := h.nodes
  rcases hx with rfl | ⟨key, p, d, hm, h1, h2⟩
  · have := hN.lt; have := hN.lc; omega
  · obtain ⟨ed, -, -, -, hlt⟩ := (hent key p d hm).consec
    omega

/-- the only change-detector node among the private nodes of `op` is the change detector of `op` -/
theorem priv_kind {env : Env} {s : State} {op : Nat} {pr : PerKeyRec} (h : OpCore env s op pr) {x f : Nat}
    {args : List Nat} (hx : Priv env pr x) (hk : (s.nodeD x).kind = .map f args) (hf : fnPerKey ≤ f) :
    f = fnPerKey + op := by
  obtain ⟨x0, e, er, hN, he, hpk, hch, hent, hout⟩ := h.nodes
  rcases hx with rfl | ⟨key, p, d, hm, h1, h2⟩
  · have := hN.lcKind
    rw [← hN.lc, hk] at this
    injection this
  · have E := hent key p d hm
    by_cases hxp : x = p
    · subst hxp
      obtain ⟨ep, erp, d0, hkp, -⟩ := E.pnode
      rw [hk] at hkp; cases hkp
    · obtain ⟨ed, -, -, hI, hlt⟩ := E.consec
      have hj : x - (p + 1) < (env.perKey pr.fam).instrs.length := by omega
      obtain ⟨i, hi⟩ : ∃ i, (env.perKey pr.fam).instrs[x - (p + 1)]? = some i :=
        ⟨_, List.getElem?_eq_getElem hj⟩
      have hr : (List.range' (p + 1) (env.perKey pr.fam).instrs.length)[x - (p + 1)]? = some x := by
        rw [List.getElem?_range' hj]
        congr 1; omega
      have hkind := hI.kind _ i x hi hr
      have hT := h.templ.instr i (List.mem_of_getElem? hi)
      rw [hk] at hkind
      cases i <;> simp only [instrKind, TInstrOK] at hkind hT <;> try (first | cases hkind | exact hT.elim)
      · rename_i f' args'
        simp only [Option.map_eq_some_iff] at hkind
        obtain ⟨l, -, hl⟩ := hkind
        injection hl with h1 h2
        subst h1
        have : f' < fnZip := hT.1
        simp only [fnZip, fnPerKey] at this hf
        omega
      · rename_i f' init cs
        split at hkind
        · cases hkind
        · simp only [Option.map_eq_some_iff] at hkind
          obtain ⟨l, -, hl⟩ := hkind
          cases hl

/-- **the bookkeeping of an operator none of whose records is in `D`**.  `hown`: what the new nodes and the nodes whose
record is in `D` reference in `b` is not private, or was referenced in `a` already. -/
theorem OpCore.bf_gen {env : Env} {D : Nat → Prop} {a b : State} {op : Nat} {pr : PerKeyRec} (B : BF D a b)
    (F : PFrag env a) (h : OpCore env a op pr)
    (hD : ∀ (e : Nat) (er : ExpertRec) (k : Option Int), D e → a.experts[e]? = some er → er.pk ≠ some (op, k))
    (hobs : ∀ x, x < a.nodes.size → (a.nodeD x).observers = [] → (b.nodeD x).observers = [])
    (hown : ∀ c x, c < b.nodes.size → (a.nodes.size ≤ c ∨ ∃ e, D e ∧ (a.nodeD c).kind = .expert e) →
      x ∈ kidsX b.experts (b.nodeD c).kind → ¬ Priv env pr x ∨ x ∈ kidsX a.experts (a.nodeD c).kind) :
    OpCore env b op pr := by
  refine ⟨h.cut, fun c x hc hx hp => ?_, fun x hp => hobs x (bf_priv_lt h hp) (h.noObs x hp),
    fun k x hk hp => h.privTop k x (by rw [← B.top]; exact hk) hp, h.templ, ?_, h.keys, h.deps, h.sorted⟩
  · by_cases hlt : c < a.nodes.size
    · by_cases hd : ∃ e, D e ∧ (a.nodeD c).kind = .expert e
      · rcases hown c x hc (Or.inr hd) hx with h1 | h1
        · exact absurd hp h1
        · exact h.own c x hlt h1 hp
      · rw [kidsX_bf_same B hlt fun e hk => ⟨fun hde => hd ⟨e, hde, hk⟩, ?_⟩] at hx
        · exact h.own c x hlt hx hp
        · obtain ⟨er, he, -⟩ := F.xrec c e hlt hk
          exact ⟨er, he⟩
    · rcases hown c x hc (Or.inl (by omega)) hx with h1 | h1
      · exact absurd hp h1
      · rw [bf_kidsX_ge a c (by omega)] at h1; cases h1
  · obtain ⟨x, e, er, hN, he, hpk, hch, hent, hout⟩ := h.nodes
    obtain ⟨er', he', -, k3, k4, -⟩ := B.xrec e er he
    have hne : ¬ D e := fun hd => hD e er none hd he hpk
    refine ⟨x, e, er', hN.bf B rfl rfl, he', k3.trans hpk, by rw [k4 hne]; exact hch,
      fun key p d hm => (hent key p d hm).bf_core B (fun ep erp h1 h2 hd => hD ep erp (some key) hd h1 h2)
        (fun ed hed => by rw [k4 hne]; exact hed) rfl rfl rfl, fun k hk => ?_⟩
    rw [B.top]; exact hout k hk

/-- **another operator `op' ≠ op` during a run of the change detector of `op`** -/
theorem OpOK.bf_other {env : Env} {a b : State} {eres op op' : Nat} {pr pr' : PerKeyRec}
    (B : BF (fun e => e = eres) a b) (F : PFrag env a) (hop : a.perkeys[op]? = some pr)
    (hop' : a.perkeys[op']? = some pr') (hne : op' ≠ op) (Hop : OpOK env a op pr)
    (hres : (a.nodeD pr.result).kind = .expert eres) (H : OpOK env a op' pr')
    (hobs : ∀ m, m < a.nodes.size → (b.nodeD m).observers = (a.nodeD m).observers)
    (newKids : ∀ c x : Nat, a.nodes.size ≤ c → c < b.nodes.size → x ∈ kidsX b.experts (b.nodeD c).kind →
      x = pr.lhsChange ∨ a.nodes.size ≤ x ∨ ∃ k : Nat, a.top[k]? = some x)
    (resKids : ∀ er er', a.experts[eres]? = some er → b.experts[eres]? = some er' → ∀ ed : ExpertEdge,
      ed ∈ er'.children → ed ∈ er.children ∨ a.nodes.size ≤ ed.child ∨ ∃ k : Nat, a.top[k]? = some ed.child)
    (hstale : b.isStale pr'.lhsChange = a.isStale pr'.lhsChange)
    (hval : (b.nodeD (pr'.result - 1)).value = (a.nodeD (pr'.result - 1)).value) : OpOK env b op' pr' := by
  obtain ⟨x0, e0, er0, hN0, he0, hpk0, -⟩ := Hop.nodes
  have hee : e0 = eres := by
    have := hN0.result
    rw [hres] at this
    injection this with this
    exact this.symm
  subst hee
  /- the kinds of `pr.lhsChange`: not private of `op'` -/
  have hlc : ¬ Priv env pr' pr.lhsChange := by
    intro hp
    have hk := hN0.lcKind
    rw [← hN0.lc] at hk
    have := priv_kind H.core hp hk (Nat.le_add_right _ _)
    omega
  have hnotpriv : ∀ x, (x = pr.lhsChange ∨ a.nodes.size ≤ x ∨ ∃ k : Nat, a.top[k]? = some x) → ¬ Priv env pr' x := by
    intro x hx hp
    rcases hx with rfl | hx | ⟨k, hk⟩
    · exact hlc hp
    · have := bf_priv_lt H.core hp; omega
    · exact H.privTop k x hk hp
  have C : OpCore env b op' pr' := by
    refine H.core.bf_gen B F ?_ (fun x hx h0 => by rw [hobs x hx]; exact h0) ?_
    · intro e er k hd he hpk
      subst hd
      rw [he0] at he
      cases he
      rw [hpk0] at hpk
      injection hpk with hpk
      injection hpk with h1 h2
      exact hne h1.symm
    · intro c x hc hcase hx
      rcases hcase with hge | ⟨e, hd, hk⟩
      · exact Or.inl (hnotpriv x (newKids c x hge hc hx))
      · subst hd
        have hlt : c < a.nodes.size := by
          refine Nat.lt_of_not_le fun hge => ?_
          rw [bf_nodeD_ge a c hge] at hk
          cases hk
        obtain ⟨er1, he1, -, -, -, -⟩ := B.xrec e er0 he0
        rw [B.kind c hlt, hk] at hx
        simp only [kidsX, xRec_some he1, List.mem_map] at hx
        obtain ⟨ed, hed, rfl⟩ := hx
        rcases resKids er0 er1 he0 he1 ed hed with h1 | h1
        · refine Or.inr ?_
          rw [hk]
          simp only [kidsX, xRec_some he0, List.mem_map]
          exact ⟨ed, h1, rfl⟩
        · exact Or.inl (hnotpriv _ (Or.inr h1))
  exact C.toOK H.dom fun hs => by rw [hval]; exact H.input (by rw [← hstale]; exact hs)

/-- **no old record's children change** (e.g. an `.unequal` iteration); new nodes, if any, reference no private node -/
theorem OpCore.bf_same {env : Env} {D : Nat → Prop} {a b : State} {op : Nat} {pr : PerKeyRec} (B : BF D a b)
    (F : PFrag env a) (h : OpCore env a op pr)
    (hch : ∀ (e : Nat) (er er' : ExpertRec), a.experts[e]? = some er → b.experts[e]? = some er' →
      er'.children = er.children)
    (hobs : ∀ m, m < a.nodes.size → (b.nodeD m).observers = (a.nodeD m).observers)
    (hnew : ∀ c x, a.nodes.size ≤ c → c < b.nodes.size → x ∈ kidsX b.experts (b.nodeD c).kind → ¬ Priv env pr x) :
    OpCore env b op pr := by
  have B' : BF (fun _ => False) a b := by
    refine ⟨B.grow, B.kind, B.top, fun e er he => ?_, B.stamp⟩
    obtain ⟨er', he', k2, k3, -, k5⟩ := B.xrec e er he
    exact ⟨er', he', k2, k3, fun _ => hch e er er' he he', k5⟩
  refine h.bf_gen B' F (fun _ _ _ hd => hd.elim) (fun x hx h0 => by rw [hobs x hx]; exact h0) ?_
  intro c x hc hcase hx
  rcases hcase with hge | ⟨e, hd, -⟩
  · exact Or.inl (hnew c x hge hc hx)
  · exact hd.elim

/-- the same-size case of `OpCore.bf_same` -/
theorem OpCore.bf_same_size {env : Env} {D : Nat → Prop} {a b : State} {op : Nat} {pr : PerKeyRec} (B : BF D a b)
    (F : PFrag env a) (h : OpCore env a op pr) (hsz : b.nodes.size = a.nodes.size)
    (hch : ∀ (e : Nat) (er er' : ExpertRec), a.experts[e]? = some er → b.experts[e]? = some er' →
      er'.children = er.children)
    (hobs : ∀ m, m < a.nodes.size → (b.nodeD m).observers = (a.nodeD m).observers) : OpCore env b op pr :=
  h.bf_same B F hch hobs fun c x h1 h2 _ => by omega

/-! ## 4. `NoRemOp` -/

theorem NoRemOp.bf {a b : State} {pr pr' : PerKeyRec} (h : NoRemOp a pr) (hr : pr'.result = pr.result)
    (hm : pr'.prevMap = pr.prevMap) (hv : b.vars = a.vars)
    (hk : ∀ m, m < a.nodes.size → (b.nodeD m).kind = (a.nodeD m).kind)
    (hlt : pr.result - 1 < a.nodes.size)
    (hxlt : ∀ x, (a.nodeD (pr.result - 1)).kind = .map fnIdent [x] → x < a.nodes.size)
    (hval : (b.nodeD (pr.result - 1)).value = (a.nodeD (pr.result - 1)).value)
    (hvalx : ∀ x, (a.nodeD (pr.result - 1)).kind = .map fnIdent [x] → (b.nodeD x).value = (a.nodeD x).value) :
    NoRemOp b pr' := by
  obtain ⟨x, c, vc, mv, h1, h2, h3, h4, h5, h6, h7, h8⟩ := h.input
  refine ⟨x, c, vc, mv, ?_, ?_, by rw [hv]; exact h3, h4, h5, by rw [hm]; exact h6, ?_, ?_⟩
  · rw [hr, hk _ hlt]; exact h1
  · rw [hk _ (hxlt x h1)]; exact h2
  · rw [hvalx x h1, hm]; exact h7
  · rw [hr, hval, hvalx x h1, hm]; exact h8

/-- the form the run of a change detector `n` uses: the values of all old nodes but `n` are kept -/
theorem NoRemOp.bf_run {a b : State} {op : Nat} {pr pr' : PerKeyRec} {x e n : Nat} (h : NoRemOp a pr)
    (N : OpNodes a op pr x e) (hr : pr'.result = pr.result) (hm : pr'.prevMap = pr.prevMap) (hv : b.vars = a.vars)
    (hk : ∀ m, m < a.nodes.size → (b.nodeD m).kind = (a.nodeD m).kind)
    (hn : ∃ f args, (a.nodeD n).kind = .map f args ∧ fnPerKey ≤ f)
    (hval : ∀ m, m < a.nodes.size → m ≠ n → (b.nodeD m).value = (a.nodeD m).value) : NoRemOp b pr' := by
  have h0 := N.lt
  have h1 := N.xlt
  obtain ⟨f, args, hnk, hf⟩ := hn
  have hne1 : pr.result - 1 ≠ n := by
    rintro rfl
    rw [N.conv] at hnk
    injection hnk with e1 e2
    subst e1
    simp only [fnIdent, fnPerKey] at hf
    omega
  have hne2 : x ≠ n := by
    rintro rfl
    obtain ⟨c, hc⟩ := N.xvar
    rw [hc] at hnk
    cases hnk
  have hx : ∀ x', (a.nodeD (pr.result - 1)).kind = .map fnIdent [x'] → x' = x := by
    intro x' hx'
    rw [N.conv] at hx'
    injection hx' with e1 e2
    injection e2 with e2
    exact e2.symm
  refine h.bf hr hm hv hk (by omega) (fun x' hx' => by rw [hx x' hx']; omega) (hval _ (by omega) hne1)
    fun x' hx' => ?_
  rw [hx x' hx']
  exact hval x (by omega) hne2

/-! ## 5. `RecsOK` -/

theorem recsOK_bf {a b : State} {op : Nat} (h : RecsOK a)
    (hold : ∀ (e : Nat) (er : ExpertRec), a.experts[e]? = some er → ∃ er', b.experts[e]? = some er' ∧ er'.pk = er.pk ∧ er'.node = er.node)
    (hx : ∀ (e : Nat) (er' : ExpertRec), b.experts[e]? = some er' → (∃ er, a.experts[e]? = some er) ∨ a.experts.size ≤ e)
    (hpk : ∀ (op' : Nat) (pr' : PerKeyRec), a.perkeys[op']? = some pr' → ∃ pr2, b.perkeys[op']? = some pr2 ∧ pr2.result = pr'.result ∧
      ∀ x, x ∈ pr'.prevNodes → x ∈ pr2.prevNodes)
    (hnew : ∀ (e : Nat) (er' : ExpertRec), a.experts.size ≤ e → b.experts[e]? = some er' → ∃ pr2 key d, b.perkeys[op]? = some pr2 ∧
      er'.pk = some (op, some key) ∧ (key, (er'.node, d)) ∈ pr2.prevNodes) : RecsOK b := by
  intro e er' he'
  rcases hx e er' he' with ⟨er, he⟩ | hge
  · obtain ⟨er1, he1, k1, k2⟩ := hold e er he
    rw [he'] at he1
    cases he1
    obtain ⟨op', pr', hp, hcase⟩ := h e er he
    obtain ⟨pr2, hp2, hr2, hn2⟩ := hpk op' pr' hp
    refine ⟨op', pr2, hp2, ?_⟩
    rw [k1, k2, hr2]
    rcases hcase with h1 | ⟨key, d, h1, h2⟩
    · exact Or.inl h1
    · exact Or.inr ⟨key, d, h1, hn2 _ h2⟩
  · obtain ⟨pr2, key, d, hp2, h1, h2⟩ := hnew e er' hge he'
    exact ⟨op, pr2, hp2, Or.inr ⟨key, d, h1, h2⟩⟩

/-! ## 6. ownership of the running operator after one new entry -/

/-- the private nodes after one more entry -/
theorem bf_priv_cons {env : Env} {pr1 pr2 : PerKeyRec} {key : Int} {p d : Nat}
    (hl : pr2.lhsChange = pr1.lhsChange) (hf : pr2.fam = pr1.fam)
    (hpn : pr2.prevNodes = (key, (p, d)) :: pr1.prevNodes) (x : Nat) :
    Priv env pr2 x ↔ (Priv env pr1 x ∨ (p ≤ x ∧ x ≤ p + (env.perKey pr1.fam).instrs.length)) := by
  unfold Priv
  rw [hl, hf, hpn]
  constructor
  · rintro (h | ⟨k, p', d', hm, h1, h2⟩)
    · exact Or.inl (Or.inl h)
    · rcases List.mem_cons.1 hm with heq | hm
      · injection heq with e1 e2
        injection e2 with e2 e3
        subst e2
        exact Or.inr ⟨h1, h2⟩
      · exact Or.inl (Or.inr ⟨k, p', d', hm, h1, h2⟩)
  · rintro ((h | ⟨k, p', d', hm, h1, h2⟩) | ⟨h1, h2⟩)
    · exact Or.inl h
    · exact Or.inr ⟨k, p', d', List.mem_cons_of_mem _ hm, h1, h2⟩
    · exact Or.inr ⟨key, p, d, List.mem_cons_self .., h1, h2⟩

/-- **ownership after a `.right` iteration**: the new entry `(key, (p, d))`, `p = a.nodes.size`, owns all new nodes -/
theorem own_extend {env : Env} {D : Nat → Prop} {a b : State} {eres : Nat} {pr1 pr2 : PerKeyRec} {key : Int}
    {d : Nat} (B : BF D a b) (hD : ∀ e, e < a.experts.size → D e → e = eres) (F : PFrag env a)
    (hres : (a.nodeD pr1.result).kind = .expert eres) (hrlt : pr1.result < a.nodes.size)
    (hr : pr2.result = pr1.result) (hl : pr2.lhsChange = pr1.lhsChange) (hf : pr2.fam = pr1.fam)
    (hpn : pr2.prevNodes = (key, (a.nodes.size, d)) :: pr1.prevNodes)
    (hsz : b.nodes.size ≤ a.nodes.size + 1 + (env.perKey pr1.fam).instrs.length)
    (hkids : ∀ c x, c < a.nodes.size → x ∈ kidsX a.experts (a.nodeD c).kind → x < a.nodes.size)
    (own : ∀ c x, c < a.nodes.size → x ∈ kidsX a.experts (a.nodeD c).kind → Priv env pr1 x →
      c = pr1.result ∨ Priv env pr1 c) :
    ∀ c x, c < b.nodes.size → x ∈ kidsX b.experts (b.nodeD c).kind → Priv env pr2 x →
      c = pr2.result ∨ Priv env pr2 c := by
  intro c x hc hx hp
  rw [bf_priv_cons hl hf hpn, hr]
  by_cases hlt : c < a.nodes.size
  · by_cases hk : (a.nodeD c).kind = .expert eres
    · left
      obtain ⟨er, he, hn⟩ := F.xrec c eres hlt hk
      obtain ⟨er2, he2, hn2⟩ := F.xrec pr1.result eres hrlt hres
      rw [he] at he2
      cases he2
      exact hn.symm.trans hn2
    · rw [kidsX_bf_same B hlt fun e hke => ?_] at hx
      · have hxlt := hkids c x hlt hx
        rw [bf_priv_cons hl hf hpn] at hp
        rcases hp with hp | ⟨h1, -⟩
        · rcases own c x hlt hx hp with h1 | h1
          · exact Or.inl h1
          · exact Or.inr (Or.inl h1)
        · omega
      · obtain ⟨er, he, -⟩ := F.xrec c e hlt hke
        refine ⟨fun hd => hk ?_, er, he⟩
        rw [hke, hD e (Array.getElem?_eq_some_iff.1 he).1 hd]
  · exact Or.inr (Or.inr ⟨by omega, by omega⟩)

end IncrVerif.Proofs.PerKeyH
