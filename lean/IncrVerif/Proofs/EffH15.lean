import IncrVerif.Proofs.EffH12
/-!
# Effects, part 15 (V3): `stabiliseEnd` when update handlers have write effects (closed form `EndedW`)
-/
namespace IncrVerif.Proofs.EffH
open IncrVerif.Engine IncrVerif.Driver IncrVerif.Proofs IncrVerif.Proofs.Step IncrVerif.Proofs.Sched
open IncrVerif.Proofs.Quiet

namespace P15

/-- everything the handler loop (bookkeeping + immediate writes) leaves alone -/
def coreW (s : State) : State :=
  { s with vars := #[], nodes := #[], rch := mkHeap 0, counters := ({} : Counters), observers := #[], log := [] }

/-- `t'` is `t` after some handler deliveries: notifications `lg` (delivery order) were logged, the effects `effs`
(write effects, delivery order) were executed as immediate writes; observer records are NOT described here -/
structure StepW (t t' : State) (lg : List Event) (effs : List Effect) : Prop where
  core : coreW t' = coreW t
  size : t'.nodes.size = t.nodes.size
  node : ∀ m, ∃ h, t'.nodeD m = { t.nodeD m with heightInRch := h }
  vsize : t'.vars.size = t.vars.size
  logN : notifs t'.log = lg.reverse ++ notifs t.log
  logExt : ∃ new, t'.log = new ++ t.log ∧ ∀ e, e ∈ new → isNotif e = true ∨ ∃ str, e = .note str
  cells : ∀ (v : Nat) (c : VarCell), t.vars[v]? = some c →
    t'.vars[v]? = some (cellAfter t.stabNum (writesTo v (writesOf effs)) c)

theorem StepW.refl (t : State) : StepW t t [] [] :=
  ⟨rfl, rfl, fun _ => ⟨_, rfl⟩, rfl, rfl, ⟨[], rfl, fun _ h => by cases h⟩, fun _ _ h => h⟩

theorem writesTo_writesOf_append (v : Nat) (es fs : List Effect) :
    writesTo v (writesOf (es ++ fs)) = writesTo v (writesOf es) ++ writesTo v (writesOf fs) := by
  unfold writesOf
  rw [List.filterMap_append, e2_writesTo_append]

theorem StepW.stabNum {t t' : State} {lg : List Event} {effs : List Effect} (h : StepW t t' lg effs) :
    t'.stabNum = t.stabNum := (congrArg State.stabNum h.core :)

theorem StepW.status {t t' : State} {lg : List Event} {effs : List Effect} (h : StepW t t' lg effs) :
    t'.status = t.status := (congrArg State.status h.core :)

theorem StepW.pc {t t' : State} {lg : List Event} {effs : List Effect} (h : StepW t t' lg effs) :
    t'.panicCountdown = t.panicCountdown := (congrArg State.panicCountdown h.core :)

theorem StepW.value {t t' : State} {lg : List Event} {effs : List Effect} (h : StepW t t' lg effs) (env : Env)
    (n : Nat) : t'.value env n = t.value env n := by
  refine Step.value_congr env t t' h.size (fun m => ?_) n
  obtain ⟨x, hx⟩ := h.node m
  rw [hx]; rfl

theorem StepW.trans {a b c : State} {l1 l2 : List Event} {e1 e2 : List Effect} (h1 : StepW a b l1 e1)
    (h2 : StepW b c l2 e2) : StepW a c (l1 ++ l2) (e1 ++ e2) where
  core := h2.core.trans h1.core
  size := h2.size.trans h1.size
  node m := by
    obtain ⟨x, hx⟩ := h1.node m
    obtain ⟨y, hy⟩ := h2.node m
    exact ⟨y, by rw [hy, hx]⟩
  vsize := h2.vsize.trans h1.vsize
  logN := by rw [h2.logN, h1.logN, List.reverse_append, List.append_assoc]
  logExt := by
    obtain ⟨n1, g1, k1⟩ := h1.logExt
    obtain ⟨n2, g2, k2⟩ := h2.logExt
    refine ⟨n2 ++ n1, by rw [g2, g1, List.append_assoc], fun e he => ?_⟩
    rcases List.mem_append.1 he with he | he
    · exact k2 e he
    · exact k1 e he
  cells v c hc := by
    rw [h2.cells v _ (h1.cells v c hc), h1.stabNum, cellAfter_cellAfter, writesTo_writesOf_append]

theorem notifs_notes {new : List Event} (h : ∀ e, e ∈ new → ∃ str, e = .note str) (l : List Event) :
    notifs (new ++ l) = notifs l := by
  unfold notifs
  rw [List.filter_append]
  have : new.filter isNotif = [] := by
    rw [List.filter_eq_nil_iff]
    intro e he
    obtain ⟨str, rfl⟩ := h e he
    simp [isNotif]
  rw [this, List.nil_append]

theorem StepW.of_appliedL {t t' : State} {effs : List Effect} (A : AppliedL t t')
    (hc : ∀ (v : Nat) (c : VarCell), t.vars[v]? = some c →
      t'.vars[v]? = some (cellAfter t.stabNum (writesTo v (writesOf effs)) c)) : StepW t t' [] effs where
  core := by rw [A.eq]; rfl
  size := A.size
  node := A.node
  vsize := A.vsize
  logN := by
    obtain ⟨new, g, k⟩ := A.log
    rw [g, notifs_notes k]; rfl
  logExt := by
    obtain ⟨new, g, k⟩ := A.log
    exact ⟨new, g, fun e he => Or.inr (k e he)⟩
  cells := hc

/-- the bookkeeping of one delivery: the observer records change, one notification is logged -/
theorem StepW.of_notif (t : State) (X : Array ObsRec) (tok : Nat) (upd : Update) :
    StepW t { t with observers := X, log := .notif tok upd :: t.log } [.notif tok upd] [] where
  core := rfl
  size := rfl
  node _ := ⟨_, rfl⟩
  vsize := rfl
  logN := by
    show notifs (Event.notif tok upd :: t.log) = _
    unfold notifs
    rw [List.filter_cons_of_pos (by rfl)]; rfl
  logExt := ⟨[.notif tok upd], rfl, fun e he => Or.inl (by
    rw [List.mem_singleton] at he; subst he; rfl)⟩
  cells v c hc := by simpa [writesOf, writesTo, cellAfter] using hc

/-- **one delivery**: after the record update and the notification, the handler's write effects run as immediate
writes -/
theorem handler_step {env : Env} {fuel : Nat} {tj t3 : State} {X : Array ObsRec} {tok hid : Nat} {upd : Update}
    {u : Unit} {arg : Int} (hH : WHandlers env) (hst : tj.status ≠ .stabilising) (hh : HandlesOK tj)
    (Q : SubsH.QInv (noEff env) (quiet tj)) (hX : X.size = tj.observers.size)
    (hXo : ∀ (o : Nat) (ob : ObsRec), tj.observers[o]? = some ob →
      ∃ ob', X[o]? = some ob' ∧ ob'.node = ob.node ∧ ob'.state = ob.state)
    (h : (runEffects env fuel (env.handler hid upd) arg).run.run
      { tj with observers := X, log := .notif tok upd :: tj.log } = (.ok u, t3)) :
    StepW tj t3 [.notif tok upd] (env.handler hid upd) ∧ t3.observers = X ∧
      SubsH.QInv (noEff env) (quiet t3) ∧ HandlesOK t3 := by
  have Q2 : SubsH.QInv (noEff env) (quiet { tj with observers := X, log := .notif tok upd :: tj.log }) :=
    qinvU_congr Q rfl rfl (fun m => ⟨_, rfl⟩) hX hXo
  obtain ⟨-, Q3, A, hh3, hc⟩ := runEffects_imm (env0 := noEff env) (s := { tj with observers := X, log := .notif tok upd :: tj.log })
    hst (fun e he => hH hid upd e he) hh Q2 h
  refine ⟨?_, by rw [A.eq], Q3, hh3⟩
  have := (StepW.of_notif tj X tok upd).trans (StepW.of_appliedL A hc)
  simpa using this

theorem modify_handlers_facts {A : Array ObsRec} {o : Nat} (g : List HandlerRec → List HandlerRec) :
    (A.modify o (fun x => { x with handlers := g x.handlers })).size = A.size ∧
    ∀ (o' : Nat) (ob : ObsRec), A[o']? = some ob →
      ∃ ob', (A.modify o (fun x => { x with handlers := g x.handlers }))[o']? = some ob' ∧
        ob'.node = ob.node ∧ ob'.state = ob.state := by
  refine ⟨Array.size_modify .., fun o' ob hob => ?_⟩
  rw [Array.getElem?_modify]
  by_cases e : o = o'
  · rw [if_pos e, hob]; exact ⟨_, rfl, rfl, rfl⟩
  · rw [if_neg e, hob]; exact ⟨_, rfl, rfl, rfl⟩

def setPrev (tok : Nat) (p : Previously) (h' : HandlerRec) : HandlerRec :=
  if h'.token == tok then { h' with prev := p } else h'

/-- the tail of one iteration of `runAll` that delivers `upd` to handler `a` -/
theorem deliver_tail {env : Env} {fuel o : Nat} {nu : NodeUpdate} {t tj t3 : State} {ob : ObsRec} {a : HandlerRec}
    {j : Nat} {upd : Update} {d : NodeUpdate} {u : Unit} {arg : Int} {lg : List Event} {effs : List Effect}
    (hH : WHandlers env) (hob : t.observers[o]? = some ob)
    (hnd : (ob.handlers.map (·.token)).Nodup) (hj : ob.handlers[j]? = some a)
    (hd : SubsH.stepPrev nu a = { a with prev := d.toPrev })
    (S : StepW t tj lg effs) (hstt : t.status ≠ .stabilising)
    (hobs : tj.observers = t.observers.modify o (fun x =>
      { x with handlers := (ob.handlers.take j).map (SubsH.stepPrev nu) ++ ob.handlers.drop j }))
    (Q : SubsH.QInv (noEff env) (quiet tj)) (hh : HandlesOK tj)
    (h : (runEffects env fuel (env.handler a.hid upd) arg).run.run
      { tj with
          observers := tj.observers.modify o (fun x => { x with handlers := x.handlers.map (setPrev a.token d.toPrev) }),
          log := .notif a.token upd :: tj.log } = (.ok u, t3)) :
    StepW t t3 (lg ++ [.notif a.token upd]) (effs ++ env.handler a.hid upd) ∧
    t3.observers = t.observers.modify o (fun x =>
      { x with handlers := (ob.handlers.take (j + 1)).map (SubsH.stepPrev nu) ++ ob.handlers.drop (j + 1) }) ∧
    SubsH.QInv (noEff env) (quiet t3) ∧ HandlesOK t3 := by
  obtain ⟨hsz, hXo⟩ := modify_handlers_facts (A := tj.observers) (o := o) (fun L => L.map fun h' =>
            if h'.token == a.token then { h' with prev := d.toPrev } else h')
  obtain ⟨S3, ho3, Q3, hh3⟩ := handler_step hH (by rw [S.status]; exact hstt) hh Q hsz hXo h
  refine ⟨S.trans S3, ?_, Q3, hh3⟩
  obtain ⟨htk, hdr⟩ := SubsH.P8.take_succ hj
  obtain ⟨hn1, hn2⟩ := SubsH.P8.nodup_split nu hj hnd
  rw [ho3, hobs, array_modify_modify]
  refine SubsH.P8.modify_congr hob ?_
  show ({ ob with handlers := _ } : ObsRec) = { ob with handlers := _ }
  congr 1
  show List.map _ (_ ++ _) = _
  rw [hdr, SubsH.P8.map_upd _ _ _ _ hn1 hn2, htk, List.map_append, List.map_cons, List.map_nil, hd,
    List.append_assoc]
  rfl

/-- **`run_all` with write effects in the handlers**, on an observer in use whose node reports `changed` or
`necessary` and has a value: the bookkeeping is that of `SubsH.runAll_spec`; the handlers' effects are executed as
immediate writes, in handler order -/
theorem runAll_specW {env : Env} {fuel o n : Nat} {nu : NodeUpdate} {now : Int} {t t' : State} {ob : ObsRec}
    {v : Val} (hH : WHandlers env) (hpc : t.panicCountdown = none) (hstt : t.status ≠ .stabilising)
    (hob : t.observers[o]? = some ob) (hst : ob.state = .inUse)
    (hnu : nu = .changed ∨ nu = .necessary) (hv : t.value env n = some v)
    (hnd : (ob.handlers.map (·.token)).Nodup) (hca : ∀ h, h ∈ ob.handlers → h.createdAt < now)
    (Q : SubsH.QInv (noEff env) (quiet t)) (hh : HandlesOK t)
    (h : (runAll env fuel o n nu now).run.run t = (.ok (), t')) :
    StepW t t' (ob.handlers.filterMap (SubsH.notifOf nu v)) (ob.handlers.flatMap (effsOf env nu v)) ∧
    t'.observers = t.observers.modify o (fun x => { x with handlers := x.handlers.map (SubsH.stepPrev nu) }) ∧
    SubsH.QInv (noEff env) (quiet t') ∧ HandlesOK t' := by
  unfold runAll at h
  obtain ⟨ob1, s1, h1, h⟩ := bind_ok_inv h
  obtain ⟨e1, hob1⟩ := getObs_ok_inv14 h1
  rw [e1] at h
  rw [hob] at hob1; cases hob1
  obtain ⟨_, s2, hl, h⟩ := bind_ok_inv h
  obtain ⟨_, e3⟩ := pure_ok_inv h
  rw [e3]
  have hI := forIn_ok_inv _ ob.handlers
    (fun j _ tj => StepW t tj ((ob.handlers.take j).filterMap (SubsH.notifOf nu v))
        ((ob.handlers.take j).flatMap (effsOf env nu v)) ∧
      tj.observers = t.observers.modify o (fun x =>
        { x with handlers := (ob.handlers.take j).map (SubsH.stepPrev nu) ++ ob.handlers.drop j }) ∧
      SubsH.QInv (noEff env) (quiet tj) ∧ HandlesOK tj) ?step ob.handlers 0 _ t _ s2 rfl (Nat.zero_le _)
      ?init hl
  case init =>
    refine ⟨by simpa using StepW.refl t, ?_, Q, hh⟩
    simp only [List.take_zero, List.drop_zero, List.map_nil, List.nil_append]
    rw [SubsH.P8.modify_id hob rfl]
  case step =>
    intro j a b tj r tj' hj ⟨S, hobs, Qj, hhj⟩ hb
    obtain ⟨obt, hobt, hb⟩ := P12.bind_getObs_inv hb
    obtain ⟨htk, hdr⟩ := SubsH.P8.take_succ hj
    have ha : a ∈ ob.handlers := List.mem_of_getElem? hj
    have hobt' : obt = { ob with handlers := (ob.handlers.take j).map (SubsH.stepPrev nu) ++ ob.handlers.drop j } := by
      rw [hobs, Array.getElem?_modify, if_pos rfl, hob] at hobt
      cases hobt; rfl
    subst hobt'
    simp only [hst] at hb
    rw [if_pos (hca a ha)] at hb
    rcases SubsH.P8.handlerStep_cases (p := a.prev) hnu with hd | hd | hd
    · simp only [hd] at hb
      obtain ⟨rfl, rfl⟩ := pure_ok_inv hb
      refine ⟨_, rfl, ?_⟩
      have h1 : SubsH.stepPrev nu a = a := by simp only [SubsH.stepPrev, hd]
      have h2 : SubsH.notifOf nu v a = none := by simp only [SubsH.notifOf, hd]
      have h3 : effsOf env nu v a = [] := by simp only [effsOf, hd]
      refine ⟨?_, ?_, Qj, hhj⟩
      · rw [htk, List.filterMap_append, List.flatMap_append]
        simpa [h2, h3] using S
      · rw [hobs, htk, hdr, List.map_append, List.map_cons, List.map_nil, h1, List.append_assoc]
        rfl
    · simp only [hd] at hb
      obtain ⟨t1, et1, hb⟩ := P12.bind_modObs_inv hb
      have hv1 : t1.value env n = some v := by
        exact (Obs.value_congr_nodes env (s := tj) (s' := t1) (by rw [et1]) n).trans
          ((S.value env n).trans hv)
      have hpc1 : t1.panicCountdown = none := by rw [et1]; exact S.pc.trans hpc
      rw [run_bind_ok (SubsH.P8.run_valueUnwrap hv1)] at hb
      simp only [pure_bind] at hb
      rw [run_bind_ok (run_tick_none _ hpc1), run_bind_logEv] at hb
      obtain ⟨u, t3, hr, hb⟩ := bind_ok_inv hb
      obtain ⟨rfl, rfl⟩ := pure_ok_inv hb
      refine ⟨_, rfl, ?_⟩
      subst et1
      have h1 : SubsH.stepPrev nu a = { a with prev := NodeUpdate.changed.toPrev } := by
        simp only [SubsH.stepPrev, hd]
      have h2 : SubsH.notifOf nu v a = some (.notif a.token (.changed v)) := by simp only [SubsH.notifOf, hd]
      have h3 : effsOf env nu v a = env.handler a.hid (.changed v) := by simp only [effsOf, hd]
      obtain ⟨S3, ho3, Q3, hh3⟩ := deliver_tail hH hob hnd hj h1 S hstt hobs Qj hhj hr
      refine ⟨?_, ho3, Q3, hh3⟩
      rw [htk, List.filterMap_append, List.flatMap_append]
      simpa [h2, h3] using S3
    · simp only [hd] at hb
      obtain ⟨t1, et1, hb⟩ := P12.bind_modObs_inv hb
      have hv1 : t1.value env n = some v := by
        exact (Obs.value_congr_nodes env (s := tj) (s' := t1) (by rw [et1]) n).trans
          ((S.value env n).trans hv)
      have hpc1 : t1.panicCountdown = none := by rw [et1]; exact S.pc.trans hpc
      rw [run_bind_ok (SubsH.P8.run_valueUnwrap hv1)] at hb
      simp only [pure_bind] at hb
      rw [run_bind_ok (run_tick_none _ hpc1), run_bind_logEv] at hb
      obtain ⟨u, t3, hr, hb⟩ := bind_ok_inv hb
      obtain ⟨rfl, rfl⟩ := pure_ok_inv hb
      refine ⟨_, rfl, ?_⟩
      subst et1
      have h1 : SubsH.stepPrev nu a = { a with prev := NodeUpdate.necessary.toPrev } := by
        simp only [SubsH.stepPrev, hd]
      have h2 : SubsH.notifOf nu v a = some (.notif a.token (.initialised v)) := by
        simp only [SubsH.notifOf, hd]
      have h3 : effsOf env nu v a = env.handler a.hid (.initialised v) := by simp only [effsOf, hd]
      obtain ⟨S3, ho3, Q3, hh3⟩ := deliver_tail hH hob hnd hj h1 S hstt hobs Qj hhj hr
      refine ⟨?_, ho3, Q3, hh3⟩
      rw [htk, List.filterMap_append, List.flatMap_append]
      simpa [h2, h3] using S3
  simp only [List.take_length, List.drop_length, List.append_nil] at hI
  obtain ⟨S, hobs, Q', hh'⟩ := hI
  refine ⟨S, ?_, Q', hh'⟩
  rw [hobs]
  exact SubsH.P8.modify_congr hob rfl

/-- the state during the handler loop of `stabiliseEnd`: the observers in `po` have been processed, the
notifications `lg` logged and the effects `effs` executed (cf. `SubsH.P8.Run4`) -/
structure RunW (env : Env) (s s8 t : State) (po : List Nat) (lg : List Event) (effs : List Effect) : Prop where
  step : StepW s8 t lg effs
  obsSize : t.observers.size = s.observers.size
  obs : ∀ (o : Nat) (ob : ObsRec), s.observers[o]? = some ob →
    t.observers[o]? = some (if o ∈ po then SubsH.P8.stepOb env s ob else ob)
  q : SubsH.QInv (noEff env) (quiet t)
  hh : HandlesOK t

/-- one `runAll` of the handler loop of `stabiliseEnd` -/
theorem run4_stepW {env : Env} {fuel : Nat} {s s8 t t' : State} {po : List Nat} {lg : List Event}
    {effs : List Effect} {n o : Nat}
    (hH : WHandlers env) (O : SubsH.ObsInv s [] []) (H : SubsH.HInv s)
    (hval : ∀ n, s.isNecessary n = true → (s.nodeD n).valid = true ∧ (s.value env n).isSome = true)
    (hpc : s8.panicCountdown = none) (hst8 : s8.status ≠ .stabilising)
    (hv8 : ∀ n, s8.value env n = s.value env n)
    (R : RunW env s s8 t po lg effs) (ho : o ∈ (s.nodeD n).observers) (hnp : o ∉ po)
    (hr : (runAll env fuel o n (SubsH.nuAt env s n) (s.stabNum + 1)).run.run t = (.ok (), t')) :
    RunW env s s8 t' (po ++ [o]) (lg ++ SubsH.obsNotifs env s n o) (effs ++ obsEffs env s n o) := by
  obtain ⟨ob, hob, hon, hst⟩ := (O.mem n o).1 ho
  have hst : ob.state = .inUse := by
    rcases hst with h | h
    · exact h
    · exact absurd ((O.dis o ob hob).1 h) (by simp)
  have hnec : s.isNecessary n = true := (isNecessary_iff s n).2 (Or.inr (Or.inl (List.ne_nil_of_mem ho)))
  obtain ⟨hvalid, hsome⟩ := hval n hnec
  obtain ⟨v, hv⟩ := Option.isSome_iff_exists.1 hsome
  have hobt : t.observers[o]? = some ob := by rw [R.obs o ob hob, if_neg hnp]
  have hpct : t.panicCountdown = none := R.step.pc.trans hpc
  have hstt : t.status ≠ .stabilising := by rw [R.step.status]; exact hst8
  have hvt : t.value env n = some v := by rw [R.step.value, hv8, hv]
  obtain ⟨S, hobs, Q', hh'⟩ := runAll_specW hH hpct hstt hobt hst (SubsH.P8.nuAt_cases hvalid hnec) hvt
    (H.tokNodup o ob hob) (fun h hh => Int.lt_add_one_iff.2 (H.createdAt o ob h hob hh)) R.q R.hh hr
  have e1 : SubsH.obsNotifs env s n o = ob.handlers.filterMap (SubsH.notifOf (SubsH.nuAt env s n) v) := by
    simp only [SubsH.obsNotifs, hob, hv]
  have e2 : obsEffs env s n o = ob.handlers.flatMap (effsOf env (SubsH.nuAt env s n) v) := by
    simp only [obsEffs, hob, hv]
  refine ⟨?_, ?_, ?_, Q', hh'⟩
  · rw [e1, e2]; exact R.step.trans S
  · rw [hobs, ← R.obsSize]; exact Array.size_modify ..
  · intro o' ob' hob'
    rw [hobs, Array.getElem?_modify]
    by_cases e : o = o'
    · subst e
      rw [hob] at hob'; cases hob'
      rw [if_pos rfl, hobt, if_pos (List.mem_append_right _ (List.mem_singleton_self _))]
      simp only [Option.map_some, SubsH.P8.stepOb, hon]
    · rw [if_neg e, R.obs o' ob' hob']
      have : o' ∈ po ++ [o] ↔ o' ∈ po := by
        simp only [List.mem_append, List.mem_singleton]
        exact ⟨fun h => h.resolve_right (fun h => e h.symm), Or.inl⟩
      simp only [this]

/-- the `runAll`s for the observers of one queued node -/
theorem run4_innerW {env : Env} {fuel : Nat} {s s8 t t' : State} {po : List Nat} {lg : List Event}
    {effs : List Effect} {n : Nat}
    {f : Nat → PUnit → M (ForInStep PUnit)} {u u' : PUnit}
    (hf : ∀ o b, f o b = (runAll env fuel o n (SubsH.nuAt env s n) (s.stabNum + 1) >>= fun _ =>
      pure (ForInStep.yield PUnit.unit)))
    (hH : WHandlers env) (O : SubsH.ObsInv s [] []) (H : SubsH.HInv s)
    (hval : ∀ n, s.isNecessary n = true → (s.nodeD n).valid = true ∧ (s.value env n).isSome = true)
    (hpc : s8.panicCountdown = none) (hst8 : s8.status ≠ .stabilising)
    (hv8 : ∀ n, s8.value env n = s.value env n)
    (R : RunW env s s8 t po lg effs) (hdis : ∀ o, o ∈ (s.nodeD n).observers → o ∉ po)
    (hl : (forIn (s.nodeD n).observers u f).run.run t = (.ok u', t')) :
    RunW env s s8 t' (po ++ (s.nodeD n).observers)
      (lg ++ (s.nodeD n).observers.flatMap (SubsH.obsNotifs env s n))
      (effs ++ (s.nodeD n).observers.flatMap (obsEffs env s n)) := by
  have hI := forIn_ok_inv f (s.nodeD n).observers
    (fun k _ t => RunW env s s8 t (po ++ (s.nodeD n).observers.take k)
      (lg ++ ((s.nodeD n).observers.take k).flatMap (SubsH.obsNotifs env s n))
      (effs ++ ((s.nodeD n).observers.take k).flatMap (obsEffs env s n)))
      ?step (s.nodeD n).observers 0 u t u' t' rfl (Nat.zero_le _) ?init hl
  case init =>
    simpa using R
  case step =>
    intro k o b t1 r t2 hk R1 hb
    rw [hf] at hb
    obtain ⟨x, t3, hr, hb⟩ := bind_ok_inv hb
    obtain ⟨rfl, rfl⟩ := pure_ok_inv hb
    refine ⟨_, rfl, ?_⟩
    have hmem : o ∈ (s.nodeD n).observers := List.mem_of_getElem? hk
    have hnp : o ∉ po ++ (s.nodeD n).observers.take k := by
      rw [List.mem_append, not_or]
      exact ⟨hdis o hmem, SubsH.P8.not_mem_take hk (H.obsNodup n)⟩
    have := run4_stepW hH O H hval hpc hst8 hv8 R1 hmem hnp hr
    rw [SubsH.P8.flatMap_take_succ _ hk, SubsH.P8.flatMap_take_succ _ hk, (SubsH.P8.take_succ hk).1,
      ← List.append_assoc, ← List.append_assoc, ← List.append_assoc]
    exact this
  simpa using hI

/-- the handler loop of `stabiliseEnd` -/
theorem loop4W {env : Env} {fuel : Nat} {s s8 t' : State}
    {f : Nat × NodeUpdate → PUnit → M (ForInStep PUnit)} {u u' : PUnit}
    (hf : ∀ x b, f x b = (getNode x.1 >>= fun nd =>
      forIn nd.observers PUnit.unit (fun o _ => runAll env fuel o x.1 x.2 (s.stabNum + 1) >>= fun _ =>
        pure (ForInStep.yield PUnit.unit)) >>= fun _ => pure (ForInStep.yield PUnit.unit)))
    (hH : WHandlers env) (O : SubsH.ObsInv s [] []) (H : SubsH.HInv s)
    (hval : ∀ n, s.isNecessary n = true → (s.nodeD n).valid = true ∧ (s.value env n).isSome = true)
    (hpc : s8.panicCountdown = none) (hst8 : s8.status ≠ .stabilising)
    (hv8 : ∀ n, s8.value env n = s.value env n)
    (hn8 : ∀ m, (s8.nodeD m).observers = (s.nodeD m).observers)
    (R0 : RunW env s s8 s8 [] [] [])
    (hl : (forIn (s.handleAfterStab.map fun n => (n, SubsH.nuAt env s n)) u f).run.run s8 = (.ok u', t')) :
    RunW env s s8 t' (s.handleAfterStab.flatMap fun n => (s.nodeD n).observers) (SubsH.endNotifs env s)
      (endEffs env s) := by
  have hI := forIn_ok_inv f (s.handleAfterStab.map fun n => (n, SubsH.nuAt env s n))
    (fun j _ t => RunW env s s8 t ((s.handleAfterStab.take j).flatMap fun n => (s.nodeD n).observers)
      ((s.handleAfterStab.take j).flatMap fun n => (s.nodeD n).observers.flatMap (SubsH.obsNotifs env s n))
      ((s.handleAfterStab.take j).flatMap fun n => (s.nodeD n).observers.flatMap (obsEffs env s n)))
    ?step _ 0 u s8 u' t' rfl (Nat.zero_le _) ?init hl
  case init =>
    simpa using R0
  case step =>
    intro j x b t r t2 hj R hb
    rw [List.getElem?_map] at hj
    cases hn : s.handleAfterStab[j]? with
    | none => rw [hn] at hj; cases hj
    | some n =>
      rw [hn] at hj
      simp only [Option.map_some, Option.some.injEq] at hj
      subst hj
      rw [hf] at hb
      obtain ⟨nd, hnd, hb⟩ := bind_getNode_inv hb
      have hndo : nd.observers = (s.nodeD n).observers := by
        rw [← nodeD_of_some hnd, ← hn8]
        obtain ⟨x, hx⟩ := R.step.node n
        rw [hx]
      dsimp only at hb
      rw [hndo] at hb
      obtain ⟨x, t3, hin, hb⟩ := bind_ok_inv hb
      obtain ⟨rfl, rfl⟩ := pure_ok_inv hb
      refine ⟨_, rfl, ?_⟩
      have hdis : ∀ o, o ∈ (s.nodeD n).observers →
          o ∉ (s.handleAfterStab.take j).flatMap fun n => (s.nodeD n).observers := by
        intro o ho hm
        obtain ⟨n', hn', ho'⟩ := List.mem_flatMap.1 hm
        obtain ⟨ob, hob, hon, _⟩ := (O.mem n o).1 ho
        obtain ⟨ob', hob', hon', _⟩ := (O.mem n' o).1 ho'
        rw [hob] at hob'; cases hob'
        rw [hon] at hon'; subst hon'
        exact SubsH.P8.not_mem_take hn H.has.nodup hn'
      have := run4_innerW (f := fun o _ => runAll env fuel o n (SubsH.nuAt env s n) (s.stabNum + 1) >>= fun _ =>
        pure (ForInStep.yield PUnit.unit)) (fun _ _ => rfl) hH O H hval hpc hst8 hv8 R hdis hin
      rw [SubsH.P8.flatMap_take_succ _ hn, SubsH.P8.flatMap_take_succ _ hn, SubsH.P8.flatMap_take_succ _ hn]
      exact this
  simpa [SubsH.endNotifs, endEffs] using hI

theorem nodeUpdate_congrW {env : Env} {s t : State} (hsz : t.nodes.size = s.nodes.size)
    (hnode : ∀ m, ∃ b h, t.nodeD m = { s.nodeD m with inHandleAfterStab := b, heightInRch := h })
    (hstab : t.stabNum = s.stabNum + 1) (n : Nat) : t.nodeUpdate env n = SubsH.nuAt env s n := by
  have hv : t.value env n = s.value env n := by
    refine Step.value_congr env s t hsz (fun m => ?_) n
    obtain ⟨b, x, hb⟩ := hnode m
    rw [hb]; rfl
  have hv' : State.value env { s with stabNum := s.stabNum + 1 } n = s.value env n :=
    Obs.value_congr_nodes env (s := s) (s' := { s with stabNum := s.stabNum + 1 }) rfl n
  obtain ⟨b, x, hb⟩ := hnode n
  unfold SubsH.nuAt State.nodeUpdate
  simp only [hv, hv', hb, hstab]
  rfl

/-- the loop of `stabiliseEnd` that empties the queue of nodes with handlers, started after the var phase
(cf. `SubsH.P8.loop3`) -/
theorem loop3W {env : Env} {s c6 t : State}
    {f : Nat → List (Nat × NodeUpdate) → M (ForInStep (List (Nat × NodeUpdate)))}
    {q : List (Nat × NodeUpdate)}
    (hf : ∀ n q, f n q = (modNode n (fun x => { x with inHandleAfterStab := false }) >>= fun _ =>
      get >>= fun st => pure (ForInStep.yield (q ++ [(n, st.nodeUpdate env n)]))))
    (hsz6 : c6.nodes.size = s.nodes.size)
    (hnode6 : ∀ m, ∃ h, c6.nodeD m = { s.nodeD m with heightInRch := h })
    (hstab6 : c6.stabNum = s.stabNum + 1)
    (hl : (forIn s.handleAfterStab [] f).run.run c6 = (.ok q, t)) :
    SubsH.P8.restN t = SubsH.P8.restN c6 ∧ t.nodes.size = s.nodes.size ∧
    (∀ m, t.nodeD m = { c6.nodeD m with inHandleAfterStab :=
      if m ∈ s.handleAfterStab then false else (c6.nodeD m).inHandleAfterStab }) ∧
    q = s.handleAfterStab.map fun n => (n, SubsH.nuAt env s n) := by
  have hI := forIn_ok_inv f s.handleAfterStab
    (fun j q t => SubsH.P8.restN t = SubsH.P8.restN c6 ∧ t.nodes.size = s.nodes.size ∧
      (∀ m, t.nodeD m = { c6.nodeD m with inHandleAfterStab :=
        if m ∈ (s.handleAfterStab.take j) then false else (c6.nodeD m).inHandleAfterStab }) ∧
      q = (s.handleAfterStab.take j).map fun n => (n, SubsH.nuAt env s n))
    ?step _ 0 [] c6 q t rfl (Nat.zero_le _) ?init hl
  case init =>
    refine ⟨rfl, hsz6, fun m => ?_, by simp⟩
    simp only [List.take_zero, List.not_mem_nil, if_false]
  case step =>
    intro j n b t1 r t2 hj ⟨hrest, hsz, hnode, hq⟩ hb
    rw [hf] at hb
    obtain ⟨t3, et3, hb⟩ := bind_modNode_inv hb
    rw [run_bind_get] at hb
    obtain ⟨rfl, e2⟩ := pure_ok_inv hb
    refine ⟨_, rfl, ?_⟩
    rw [e2]
    have hsz3 : t3.nodes.size = s.nodes.size := by rw [et3, ← hsz]; exact Array.size_modify ..
    have hnode3 : ∀ m, t3.nodeD m = { c6.nodeD m with inHandleAfterStab :=
        if m ∈ (s.handleAfterStab.take (j + 1)) then false else (c6.nodeD m).inHandleAfterStab } := by
      intro m
      rw [et3, nodeD_modify, hnode m, (SubsH.P8.take_succ hj).1]
      by_cases e : n = m
      · subst e
        have hin : n ∈ List.take j s.handleAfterStab ++ [n] :=
          List.mem_append_right _ (List.mem_singleton_self _)
        rw [if_pos hin]
        by_cases hlt : n < t1.nodes.size
        · rw [if_pos ⟨rfl, hlt⟩]
        · rw [if_neg (fun h => hlt h.2)]
          have hd : c6.nodeD n = default := nodeD_default c6 n (by omega)
          rw [hd, SubsH.P8.default_flag]
          simp
      · rw [if_neg (fun h => e h.1)]
        have : m ∈ List.take j s.handleAfterStab ++ [n] ↔ m ∈ List.take j s.handleAfterStab := by
          simp only [List.mem_append, List.mem_singleton]
          exact ⟨fun h => h.resolve_right (fun h => e h.symm), Or.inl⟩
        simp only [this]
    refine ⟨?_, hsz3, hnode3, ?_⟩
    · rw [et3]; exact hrest
    · have hstab : t3.stabNum = s.stabNum + 1 := by
        rw [et3]; exact (show t1.stabNum = c6.stabNum from (congrArg State.stabNum hrest :)).trans hstab6
      have hn3 : ∀ m, ∃ b h, t3.nodeD m = { s.nodeD m with inHandleAfterStab := b, heightInRch := h } := by
        intro m
        obtain ⟨x, hx⟩ := hnode6 m
        exact ⟨_, x, by rw [hnode3 m, hx]⟩
      rw [nodeUpdate_congrW hsz3 hn3 hstab n, hq, (SubsH.P8.take_succ hj).1, List.map_append]
      rfl
  simpa using hI

/-- everything but vars, nodes, heap, counters, observers, log, memos, status -/
def coreF (s : State) : State := { coreW s with memos := [], status := .notStabilising }

theorem applyCell_handles (now : Int) (c : VarCell) : (applyCell now c).handles = c.handles := by
  unfold applyCell; split <;> rfl

end P15

/-- **`stabilise_end` with deferred function writes and handlers with write effects.**  `s` is the state after the drain
(status `stabilising`; `s.setDuringStab` = the written cells, whose `pending` holds the deferred value): no observer
waiting to be added or unlinked, the handler bookkeeping `HInv s`, every necessary node valid and with a value, no var
died, every handle alive, and the state after the bump of the round number — read with the status reset — satisfies the
subscription invariant.  Then the run is described by `EndedW` (see `Proofs/EffH11.lean`). -/
theorem stabiliseEnd_specW {env : Env} {fuel : Nat} {s s' : State} (hH : WHandlers env)
    (hpc : s.panicCountdown = none) (hst : s.status = .stabilising) (h2 : s.deadVars = [])
    (O : SubsH.ObsInv s [] []) (H : SubsH.HInv s)
    (hval : ∀ n, s.isNecessary n = true → (s.nodeD n).valid = true ∧ (s.value env n).isSome = true)
    (hh : HandlesOK s) (Q : SubsH.QInv (noEff env) (quiet (bump s)))
    (h : (stabiliseEnd env fuel).run.run s = (.ok (), s')) : EndedW env s s' := by
  have _ := hst  -- implied facts: not needed by the proof
  have _ := h2   -- (`Q` already says `s.deadVars = []`)
  rw [stabiliseEnd_eq] at h
  obtain ⟨u, c, h1, h⟩ := bind_ok_inv h
  rw [stabiliseEndVars_run] at h1
  have h1' : (applyAll s.setDuringStab).run.run (bump s) = (.ok u, c) := h1
  obtain ⟨Qc, A⟩ := applyAll_qU s.setDuringStab (bump s) c u Q h1'
  have hcv := (applyAll_ok _ _ _ _ h1').2.2.2
  have hcd : c.deadVars = [] := Qc.deadVars
  have hchas : c.handleAfterStab = s.handleAfterStab := by rw [A.eq]; rfl
  -- the cells after the var phase
  have hcell : ∀ (v : Nat) (c0 : VarCell), s.vars[v]? = some c0 →
      c.vars[v]? = some (if v ∈ s.setDuringStab then applyCell (s.stabNum + 1) c0 else c0) := by
    intro v c0 h0
    have h0' : (bump s).vars[v]? = some c0 := h0
    rw [hcv v, h0']
    by_cases hm : v ∈ s.setDuringStab
    · rw [if_pos hm, if_pos hm]; rfl
    · rw [if_neg hm, if_neg hm]
  have hhc : HandlesOK c := by
    intro v cv hcv'
    have hlt : v < s.vars.size := by
      have := e2_lt_of_some hcv'
      rw [A.vsize] at this; exact this
    obtain ⟨c0, h0⟩ := e2_some_of_lt hlt
    have := hcell v c0 h0
    rw [hcv'] at this
    cases this
    split
    · rw [P15.applyCell_handles]; exact hh v c0 h0
    · exact hh v c0 h0
  unfold stabiliseEndRest at h
  rw [run_bind_get] at h
  try dsimp only at h
  obtain ⟨s4, e4, h⟩ := bind_modify_inv h
  rw [hcd, List.forIn_nil] at h
  obtain ⟨_, s5, hp5, h⟩ := bind_ok_inv h
  obtain ⟨_, e5⟩ := pure_ok_inv hp5
  rw [e5] at h
  rw [run_bind_get] at h
  try dsimp only at h
  obtain ⟨s6, e6, h⟩ := bind_modify_inv h
  have hhs : s4.handleAfterStab = s.handleAfterStab := by rw [e4]; exact hchas
  rw [hhs] at h
  clear hp5 e5
  have hs6c : s6 = { c with handleAfterStab := [] } := by rw [e6, e4, e6_dead c hcd]
  have hsz6 : s6.nodes.size = s.nodes.size := by rw [hs6c]; exact A.size
  have hnode6 : ∀ m, ∃ x, s6.nodeD m = { s.nodeD m with heightInRch := x } := by
    intro m
    obtain ⟨x, hx⟩ := A.node m
    exact ⟨x, by rw [hs6c]; exact hx⟩
  have hstab6 : s6.stabNum = s.stabNum + 1 := by rw [hs6c, A.eq]; rfl
  -- loop 3
  obtain ⟨q, s7, hl3, h⟩ := bind_ok_inv h
  obtain ⟨hrest, hsz7, hnode7, hq⟩ := P15.loop3W (env := env) (fun _ _ => rfl) hsz6 hnode6 hstab6 hl3
  clear hl3
  have hnode7' : ∀ m, ∃ x, s7.nodeD m = { s.nodeD m with inHandleAfterStab := false, heightInRch := x } := by
    intro m
    obtain ⟨x, hx⟩ := hnode6 m
    refine ⟨x, ?_⟩
    rw [hnode7 m, hx]
    by_cases hm : m ∈ s.handleAfterStab
    · rw [if_pos hm]
    · rw [if_neg hm]
      have : (s.nodeD m).inHandleAfterStab = false := by
        cases hf : (s.nodeD m).inHandleAfterStab
        · rfl
        · exact absurd ((H.has.flag m).2 hf) hm
      simp only [this]
  obtain ⟨s8, e8, h⟩ := bind_modify_inv h
  rw [run_bind_get] at h
  have hstab8 : s8.stabNum = s.stabNum + 1 := by
    rw [e8]; exact (show s7.stabNum = s6.stabNum from (congrArg State.stabNum hrest :)).trans hstab6
  have hobs8 : s8.observers = s.observers := by
    rw [e8]
    exact (show s7.observers = s6.observers from (congrArg State.observers hrest :)).trans (by rw [hs6c, A.eq]; rfl)
  have hlog8 : s8.log = s.log := by
    rw [e8]
    exact (show s7.log = s6.log from (congrArg State.log hrest :)).trans (by rw [hs6c, A.eq]; rfl)
  have hvars8 : s8.vars = c.vars := by
    rw [e8]
    exact (show s7.vars = s6.vars from (congrArg State.vars hrest :)).trans (by rw [hs6c])
  have hpc8 : s8.panicCountdown = none := by
    rw [e8]
    exact (show s7.panicCountdown = s6.panicCountdown from (congrArg State.panicCountdown hrest :)).trans
      ((show s6.panicCountdown = s.panicCountdown by rw [hs6c, A.eq]; rfl).trans hpc)
  have hst8 : s8.status ≠ .stabilising := by rw [e8]; simp
  have hnodes8 : s8.nodes = s7.nodes := by rw [e8]
  have hnd8 : ∀ m, s8.nodeD m = s7.nodeD m := fun m => by simp only [State.nodeD, hnodes8]
  have hv8 : ∀ n, s8.value env n = s.value env n := by
    intro n
    refine Step.value_congr env s s8 (by rw [hnodes8, hsz7]) (fun m => ?_) n
    obtain ⟨x, hx⟩ := hnode7' m
    rw [hnd8, hx]; rfl
  have hn8 : ∀ m, (s8.nodeD m).observers = (s.nodeD m).observers := fun m => by
    obtain ⟨x, hx⟩ := hnode7' m
    rw [hnd8, hx]
  have Q8 : SubsH.QInv (noEff env) (quiet s8) := by
    refine qinvU_congr Qc ?_ ?_ (fun m => ?_) ?_ ?_
    · have a1 : coreQ (quiet s8) = coreQ (quiet s7) := by rw [e8]; rfl
      have a2 : coreQ (quiet s7) = coreQ (quiet s6) := (congrArg (fun x => coreQ (quiet x)) hrest :)
      have a3 : coreQ (quiet s6) = coreQ (quiet c) := by rw [hs6c]; rfl
      rw [a1, a2, a3]
    · show s8.nodes.size = c.nodes.size
      rw [hnodes8, hsz7, A.size]; rfl
    · show ∃ b, s8.nodeD m = { c.nodeD m with inHandleAfterStab := b }
      refine ⟨if m ∈ s.handleAfterStab then false else (c.nodeD m).inHandleAfterStab, ?_⟩
      rw [hnd8, hnode7 m, hs6c]; rfl
    · show s8.observers.size = c.observers.size
      rw [hobs8, A.eq]; rfl
    · intro o ob hob
      have : s8.observers = c.observers := by rw [hobs8, A.eq]; rfl
      exact ⟨ob, by rw [← hob]; exact congrArg (·[o]?) this, rfl, rfl⟩
  have hh8 : HandlesOK s8 := by
    intro v cv hv; rw [hvars8] at hv; exact hhc v cv hv
  have R0 : P15.RunW env s s8 s8 [] [] [] :=
    ⟨P15.StepW.refl s8, by rw [hobs8], fun o ob hob => by rw [hobs8, hob]; simp, Q8, hh8⟩
  -- loop 4
  rw [hq, hstab8] at h
  obtain ⟨_, s9, hl4, h⟩ := bind_ok_inv h
  have R9 := P15.loop4W (fuel := fuel) (fun _ _ => rfl) hH O H hval hpc8 hst8 hv8 hn8 R0 hl4
  clear hl4
  obtain ⟨s10, e10, h⟩ := bind_modify_inv h
  rw [run_modify] at h
  obtain ⟨_, e11⟩ := Prod.mk.inj h
  clear h
  have hcore : P15.coreF s' = P15.coreF (SubsH.P8.s6 s) := by
    have a1 : P15.coreF s' = P15.coreF s9 := by rw [← e11, e10]; rfl
    have a2 : P15.coreF s9 = P15.coreF s8 :=
      congrArg (fun y : State => { y with memos := [], status := .notStabilising }) R9.step.core
    have a3 : P15.coreF s8 = P15.coreF s7 := by rw [e8]; rfl
    have a4 : P15.coreF s7 = P15.coreF s6 := (congrArg P15.coreF hrest :)
    have a5 : P15.coreF s6 = P15.coreF (SubsH.P8.s6 s) := by rw [e6, e4, A.eq]; rfl
    rw [a1, a2, a3, a4, a5]
  have hnodes : s'.nodes = s9.nodes := by rw [← e11, e10]
  have hobs : s'.observers = s9.observers := by rw [← e11, e10]
  have hlog : s'.log = s9.log := by rw [← e11, e10]
  have hvars : s'.vars = s9.vars := by rw [← e11, e10]
  have hstatus : s'.status = .notStabilising := by rw [← e11]
  have hnd' : ∀ m, s'.nodeD m = s9.nodeD m := fun m => by simp only [State.nodeD, hnodes]
  have Q' : SubsH.QInv (noEff env) s' := by
    refine qinvU_congr R9.q ?_ ?_ (fun m => ⟨(s9.nodeD m).inHandleAfterStab, ?_⟩) ?_ ?_
    · rw [← e11, e10]; rfl
    · show s'.nodes.size = s9.nodes.size; rw [hnodes]
    · show s'.nodeD m = { s9.nodeD m with inHandleAfterStab := (s9.nodeD m).inHandleAfterStab }
      rw [hnd']
    · show s'.observers.size = s9.observers.size; rw [hobs]
    · intro o ob hob
      exact ⟨ob, by rw [← hob]; exact congrArg (·[o]?) hobs, rfl, rfl⟩
  refine ⟨by rw [hnodes, R9.step.size, hnodes8, hsz7], fun m => ?_, (congrArg State.ahh hcore :),
    (congrArg State.newObservers hcore :), (congrArg State.disallowedObservers hcore :),
    (congrArg State.allObservers hcore :), (congrArg State.currentScope hcore :), (congrArg State.panicCountdown hcore :),
    (congrArg State.top hcore :), (congrArg State.handles hcore :), (congrArg State.alive hcore :),
    (congrArg State.propagateInvalidity hcore :), (congrArg State.cfg hcore :), (congrArg State.nextToken hcore :),
    (congrArg State.stabNum hcore :), hstatus, (congrArg State.setDuringStab hcore :), (congrArg State.deadVars hcore :),
    (congrArg State.handleAfterStab hcore :), by rw [hobs, R9.obsSize], fun o ob hob => ?_, ?_, ?_, Q', ?_, ?_⟩
  · obtain ⟨x, hx⟩ := R9.step.node m
    obtain ⟨y, hy⟩ := hnode7' m
    exact ⟨x, by rw [hnd', hx, hnd8, hy]⟩
  · rw [hobs, R9.obs o ob hob]
    by_cases hc : ob.state = .inUse ∧ ob.node ∈ s.handleAfterStab
    · rw [if_pos hc, if_pos ((SubsH.P8.mem_work O hob).2 hc)]; rfl
    · rw [if_neg hc, if_neg (fun hm => hc ((SubsH.P8.mem_work O hob).1 hm))]
  · rw [hlog, R9.step.logN, hlog8]
  · obtain ⟨new, g, k⟩ := R9.step.logExt
    exact ⟨new, by rw [hlog, g, hlog8], k⟩
  · rw [hvars, R9.step.vsize, hvars8, A.vsize]; rfl
  · intro v c0 h0
    rw [hvars, R9.step.cells v _ (by rw [hvars8]; exact hcell v c0 h0), hstab8]

end IncrVerif.Proofs.EffH
