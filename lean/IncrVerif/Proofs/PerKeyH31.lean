import IncrVerif.Proofs.PerKeyH22
/-! # twin simulation, part 8: observers and variables (port of ExpertH30) -/
namespace IncrVerif.Proofs.PerKeyH
open IncrVerif.Engine IncrVerif.Driver IncrVerif.Proofs IncrVerif.Proofs.Step IncrVerif.Proofs.Sched
open IncrVerif.Proofs.ExpertH IncrVerif.Proofs.EffH

theorem TSim.getObs (o : Nat) : TSim (Engine.getObs o) (Engine.getObs o) := by
  apply TSim.ofL; intro s l; unfold Engine.getObs; tsim
  split <;> tsim
macro_rules | `(tactic| tsim_leaf) => `(tactic| with_reducible exact IncrVerif.Proofs.PerKeyH.TSim.getObs _)

theorem TSim.modObs (o : Nat) (f : ObsRec → ObsRec) : TSim (Engine.modObs o f) (Engine.modObs o f) := by
  apply TSim.ofL; intro s l; unfold Engine.modObs; tsim
macro_rules | `(tactic| tsim_leaf) => `(tactic| with_reducible exact IncrVerif.Proofs.PerKeyH.TSim.modObs _ _)

theorem TSim.getVar (v : Nat) : TSim (Engine.getVar v) (Engine.getVar v) := by
  apply TSim.ofL; intro s l; unfold Engine.getVar; tsim
  split <;> tsim
macro_rules | `(tactic| tsim_leaf) => `(tactic| with_reducible exact IncrVerif.Proofs.PerKeyH.TSim.getVar _)

theorem TSim.modVar (v : Nat) (f : VarCell → VarCell) : TSim (Engine.modVar v f) (Engine.modVar v f) := by
  apply TSim.ofL; intro s l; unfold Engine.modVar; tsim
macro_rules | `(tactic| tsim_leaf) => `(tactic| with_reducible exact IncrVerif.Proofs.PerKeyH.TSim.modVar _ _)

theorem TSim.addNewObservers (env : Env) (fuel : Nat) :
    TSim (Engine.addNewObservers env fuel) (Engine.addNewObservers (twEnv env) fuel) := by
  apply TSim.ofL; intro s l; unfold Engine.addNewObservers; tsim
  split <;> tsim
macro_rules | `(tactic| tsim_leaf) => `(tactic| with_reducible exact IncrVerif.Proofs.PerKeyH.TSim.addNewObservers _ _)

theorem TSim.unlinkDisallowedObservers (fuel : Nat) :
    TSim (Engine.unlinkDisallowedObservers fuel) (Engine.unlinkDisallowedObservers fuel) := by
  apply TSim.ofL; intro s l; unfold Engine.unlinkDisallowedObservers; tsim
macro_rules | `(tactic| tsim_leaf) => `(tactic|
  with_reducible exact IncrVerif.Proofs.PerKeyH.TSim.unlinkDisallowedObservers _)

theorem TSim.disallowFutureUse (o : Nat) : TSim (Engine.disallowFutureUse o) (Engine.disallowFutureUse o) := by
  apply TSim.ofL; intro s l; unfold Engine.disallowFutureUse; tsim
  split <;> tsim
macro_rules | `(tactic| tsim_leaf) => `(tactic| with_reducible exact IncrVerif.Proofs.PerKeyH.TSim.disallowFutureUse _)

theorem TSim.didSetVarWhileNotStabilising (v : Nat) :
    TSim (Engine.didSetVarWhileNotStabilising v) (Engine.didSetVarWhileNotStabilising v) := by
  apply TSim.ofL; intro s l; unfold Engine.didSetVarWhileNotStabilising; tsim
macro_rules | `(tactic| tsim_leaf) => `(tactic|
  with_reducible exact IncrVerif.Proofs.PerKeyH.TSim.didSetVarWhileNotStabilising _)

theorem TSim.writeVar (v : Nat) (f : Val → Val) (isSet : Bool) :
    TSim (Engine.writeVar v f isSet) (Engine.writeVar v f isSet) := by
  apply TSim.ofL; intro s l; unfold Engine.writeVar; tsim
  split <;> tsim
  split <;> tsim
macro_rules | `(tactic| tsim_leaf) => `(tactic| with_reducible exact IncrVerif.Proofs.PerKeyH.TSim.writeVar _ _ _)

end IncrVerif.Proofs.PerKeyH
