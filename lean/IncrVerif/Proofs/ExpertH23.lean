import IncrVerif.Proofs.ExpertH1
/-!
# Expert fragment: the simulation calculus

`Sim x x'`: every successful run of `x` from `s` is matched by a successful run of `x'` from `virt s`, with the
same result and ending in `virt` of the final state.
-/
namespace IncrVerif.Proofs.ExpertH
open IncrVerif.Engine IncrVerif.Driver IncrVerif.Proofs IncrVerif.Proofs.Step IncrVerif.Proofs.Sched

/-- the kinds of the fragment: static + expert (no map_ref, map_with_old, bind nodes) -/
def XK : Kind → Prop
  | .const _ => True
  | .var _ => True
  | .map _ _ => True
  | .fold _ _ _ => True
  | .expert _ => True
  | _ => False

theorem XK_virtKind (xs : Array ExpertRec) (k : Kind) : XK (virtKind xs k) ↔ XK k := by
  cases k <;> simp [virtKind, XK]

/-- what the simulation needs to know of the actual state all along -/
structure Fr (s : State) : Prop where
  pc : s.panicCountdown = none
  valid : ∀ n, (s.nodeD n).valid = true
  pinv : s.propagateInvalidity = []
  kind : ∀ n, XK (s.nodeD n).kind
  /-- no expert record counts invalid children -/
  ni : ∀ (e : Nat) (er : ExpertRec), s.experts[e]? = some er → er.numInvalidChildren = 0

theorem Fr.of_nodes {s s' : State} (h : Fr s) (e : s'.nodes = s.nodes)
    (e2 : s'.propagateInvalidity = s.propagateInvalidity) (e3 : s'.panicCountdown = s.panicCountdown)
    (e4 : s'.experts = s.experts) : Fr s' := by
  have hn : ∀ n, s'.nodeD n = s.nodeD n := fun n => by simp [State.nodeD, e]
  exact ⟨by rw [e3]; exact h.pc, fun n => by rw [hn]; exact h.valid n, by rw [e2]; exact h.pinv,
    fun n => by rw [hn]; exact h.kind n, by rw [e4]; exact h.ni⟩

theorem Fr.some {s : State} (h : Fr s) {n : Nat} {nd : Node} (hn : s.nodes[n]? = some nd) :
    XK nd.kind ∧ nd.valid = true := by
  have h1 := h.kind n; have h2 := h.valid n
  rw [nodeD_of_some hn] at h1 h2; exact ⟨h1, h2⟩

theorem Fr.not_mapRef {s : State} (h : Fr s) (m p i : Nat) : (s.nodeD m).kind ≠ .mapRef p i := by
  intro hk; have := h.kind m; rw [hk] at this; exact this

def SimAt (s : State) {α} (x x' : M α) : Prop :=
  Fr s → ∀ r s', x.run.run s = (.ok r, s') → x'.run.run (virt s) = (.ok r, virt s') ∧ Fr s'

def Sim {α} (x x' : M α) : Prop := ∀ s, SimAt s x x'

section
variable {s : State} {α β : Type}

theorem Sim.at {x x' : M α} (h : Sim x x') (s : State) : SimAt s x x' := h s

theorem SimAt.ret (a : α) : SimAt s (pure a : M α) (pure a) := by
  intro hn r s' h; rw [run_pure] at h; cases h; exact ⟨rfl, hn⟩

theorem SimAt.thr (e : Panic) (x' : M α) : SimAt s (throw e : M α) x' := by
  intro _ r s' h; rw [run_throw] at h; cases h

theorem SimAt.pan (e : String) (x' : M α) : SimAt s (Engine.panic e : M α) x' := SimAt.thr _ _

theorem SimAt.seq {x x' : M α} {f f' : α → M β} (hx : SimAt s x x')
    (hf : ∀ a s1, x.run.run s = (.ok a, s1) → SimAt s1 (f a) (f' a)) :
    SimAt s (x >>= f) (x' >>= f') := by
  intro hn r s' h
  obtain ⟨a, s1, h1, h2⟩ := bind_ok_inv h
  obtain ⟨e1, n1⟩ := hx hn a s1 h1
  rw [run_bind_ok e1]
  exact hf a s1 h1 n1 r s' h2

/-- the virtual side does nothing for the first half -/
theorem SimAt.seq_left {x : M α} {f : α → M β} {y' : M β} (hx : SimAt s (x >>= fun _ => pure ()) (pure ()))
    (hf : ∀ a s1, x.run.run s = (.ok a, s1) → SimAt s1 (f a) y') :
    SimAt s (x >>= f) y' := by
  intro hn r s' h
  obtain ⟨a, s1, h1, h2⟩ := bind_ok_inv h
  have h3 : (x >>= fun _ => (pure () : M Unit)).run.run s = (.ok (), s1) := by
    rw [run_bind_ok h1, run_pure]
  obtain ⟨e1, n1⟩ := hx hn () s1 h3
  rw [run_pure] at e1
  have e2 : virt s = virt s1 := congrArg Prod.snd e1
  rw [e2]
  exact hf a s1 h1 n1 r s' h2

theorem SimAt.get_seq {k k' : State → M β} (h : SimAt s (k s) (k' (virt s))) :
    SimAt s (get >>= k) (get >>= k') := by
  intro hn r s' hr
  rw [run_bind_get] at hr ⊢
  exact h hn r s' hr

/-- a read of the state on the actual side only -/
theorem SimAt.getL_seq {k : State → M β} {x' : M β} (h : SimAt s (k s) x') :
    SimAt s (get >>= k) x' := by
  intro hn r s' hr
  rw [run_bind_get] at hr
  exact h hn r s' hr

theorem SimAt.getNode_seq {n : Nat} {k k' : Node → M β}
    (h : ∀ nd, s.nodes[n]? = some nd → XK nd.kind → nd.valid = true →
      SimAt s (k nd) (k' (virtNode s.experts nd))) :
    SimAt s (getNode n >>= k) (getNode n >>= k') := by
  intro hn r s' hr
  obtain ⟨nd, hnd, hr⟩ := bind_getNode_inv hr
  have hv : (virt s).nodes[n]? = some (virtNode s.experts nd) := by rw [virt_getElem?, hnd]; rfl
  rw [run_bind_ok (run_getNode_some hv)]
  exact h nd hnd (hn.some hnd).1 (hn.some hnd).2 hn r s' hr

/-- a read of a node on the actual side only -/
theorem SimAt.getNodeL_seq {n : Nat} {k : Node → M β} {x' : M β}
    (h : ∀ nd, s.nodes[n]? = some nd → XK nd.kind → nd.valid = true → SimAt s (k nd) x') :
    SimAt s (getNode n >>= k) x' := by
  intro hn r s' hr
  obtain ⟨nd, hnd, hr⟩ := bind_getNode_inv hr
  exact h nd hnd (hn.some hnd).1 (hn.some hnd).2 hn r s' hr

theorem bind_getExpert_inv {e : Nat} {f : ExpertRec → M β} {s s' : State} {r : β}
    (h : (getExpert e >>= f).run.run s = (.ok r, s')) :
    ∃ er, s.experts[e]? = some er ∧ (f er).run.run s = (.ok r, s') := by
  unfold Engine.getExpert at h
  rw [bind_assoc, run_bind_get] at h
  cases he : s.experts[e]? with
  | none => rw [he] at h; cases h
  | some er => rw [he] at h; exact ⟨er, rfl, h⟩

/-- the expert records exist on the actual side only -/
theorem SimAt.getExpertL_seq {e : Nat} {k : ExpertRec → M β} {x' : M β}
    (h : ∀ er, s.experts[e]? = some er → SimAt s (k er) x') :
    SimAt s (getExpert e >>= k) x' := by
  intro hn r s' hr
  obtain ⟨er, he, hr⟩ := bind_getExpert_inv hr
  exact h er he hn r s' hr

theorem SimAt.mod {f f' : State → State} (h : virt (f s) = f' (virt s)) (hn : (f s).nodes = s.nodes)
    (hp : (f s).propagateInvalidity = s.propagateInvalidity) (hc : (f s).panicCountdown = s.panicCountdown)
    (he : (f s).experts = s.experts) :
    SimAt s (modify f : M Unit) (modify f') := by
  intro hne r s' hr; rw [run_modify] at hr ⊢; cases hr; rw [h]; exact ⟨rfl, hne.of_nodes hn hp hc he⟩

theorem SimAt.mod_seq {f f' : State → State} {k k' : Unit → M β} (h : virt (f s) = f' (virt s))
    (hn : (f s).nodes = s.nodes) (hp : (f s).propagateInvalidity = s.propagateInvalidity)
    (hc : (f s).panicCountdown = s.panicCountdown) (he : (f s).experts = s.experts)
    (hk : SimAt (f s) (k ()) (k' ())) :
    SimAt s ((modify f : M Unit) >>= k) ((modify f' : M Unit) >>= k') := by
  intro hne r s' hr
  rw [run_bind_modify] at hr ⊢
  rw [← h]; exact hk (hne.of_nodes hn hp hc he) r s' hr

theorem SimAt.cond {c c' : Prop} {_ : Decidable c} {_ : Decidable c'} {a b a' b' : M α} (hc : c ↔ c')
    (ha : c → SimAt s a a') (hb : ¬ c → SimAt s b b') :
    SimAt s (if c then a else b) (if c' then a' else b') := by
  by_cases h : c
  · rw [if_pos h, if_pos (hc.1 h)]; exact ha h
  · rw [if_neg h, if_neg (fun h' => h (hc.2 h'))]; exact hb h

theorem SimAt.ite_left {c : Prop} {_ : Decidable c} {a b x' : M α}
    (ha : c → SimAt s a x') (hb : ¬ c → SimAt s b x') : SimAt s (if c then a else b) x' := by
  by_cases h : c
  · rw [if_pos h]; exact ha h
  · rw [if_neg h]; exact hb h

theorem fr_modify {s : State} (hn : Fr s) (n : Nat) (f : Node → Node)
    (hk : ∀ nd, (f nd).kind = nd.kind ∧ (f nd).valid = nd.valid) :
    Fr { s with nodes := s.nodes.modify n f } := by
  refine ⟨hn.pc, fun m => ?_, hn.pinv, fun m => ?_, hn.ni⟩
  · rw [nodeD_modify]
    split
    · rw [(hk _).2]; exact hn.valid m
    · exact hn.valid m
  · rw [nodeD_modify]
    split
    · rw [(hk _).1]; exact hn.kind m
    · exact hn.kind m

theorem map_modify (xs : Array ExpertRec) (a : Array Node) (n : Nat) (f f' : Node → Node)
    (hf : ∀ nd, virtNode xs (f nd) = f' (virtNode xs nd)) :
    (a.modify n f).map (virtNode xs) = (a.map (virtNode xs)).modify n f' := by
  apply Array.ext
  · simp
  · intro i h1 h2
    simp only [Array.getElem_map, Array.getElem_modify]
    split
    · exact hf _
    · rfl

theorem virt_modNode (s : State) (n : Nat) (f f' : Node → Node)
    (hf : ∀ nd, virtNode s.experts (f nd) = f' (virtNode s.experts nd)) :
    virt { s with nodes := s.nodes.modify n f } = { virt s with nodes := (virt s).nodes.modify n f' } := by
  simp only [virt]
  rw [map_modify s.experts s.nodes n f f' hf]

/-- a commuting node update -/
theorem Sim.modNode (n : Nat) {f f' : Node → Node} (hf : ∀ xs nd, virtNode xs (f nd) = f' (virtNode xs nd))
    (hk : ∀ nd, (f nd).kind = nd.kind ∧ (f nd).valid = nd.valid) :
    Sim (Engine.modNode n f) (Engine.modNode n f') := by
  intro s hne r s' hr
  rw [run_modNode] at hr ⊢
  cases hr
  exact ⟨by rw [virt_modNode s n f f' (hf _)], fr_modify hne n f hk⟩

theorem Sim.forIn {γ : Type} (l : List γ) {f f' : γ → β → M (ForInStep β)} (h : ∀ a b, Sim (f a b) (f' a b))
    (b : β) : Sim (ForIn.forIn l b f) (ForIn.forIn l b f') := by
  induction l generalizing b with
  | nil => intro s; rw [List.forIn_nil, List.forIn_nil]; exact SimAt.ret _
  | cons a l ih =>
    intro s
    rw [List.forIn_cons, List.forIn_cons]
    refine SimAt.seq (h a b s) fun r s1 _ => ?_
    cases r with
    | done b' => exact SimAt.ret _
    | yield b' => exact ih b' s1

theorem SimAt.map {x x' : M α} (f : α → β) (hx : SimAt s x x') : SimAt s (f <$> x) (f <$> x') := by
  rw [map_eq_pure_bind, map_eq_pure_bind]
  exact SimAt.seq hx fun _ _ _ => SimAt.ret _

theorem SimAt.discard {x x' : M α} (hx : SimAt s x x') : SimAt s (discard x) (discard x') := by
  unfold Functor.discard
  exact SimAt.map (Function.const α PUnit.unit) hx

theorem Sim.mapM {γ : Type} {f f' : γ → M β} (h : ∀ a, Sim (f a) (f' a)) (l : List γ) :
    Sim (l.mapM f) (l.mapM f') := by
  induction l with
  | nil => intro s; simp only [List.mapM_nil]; exact SimAt.ret _
  | cons a l ih =>
    intro s
    simp only [List.mapM_cons]
    exact SimAt.seq (h a s) fun _ s1 _ => SimAt.seq (ih s1) fun _ _ _ => SimAt.ret _

end

/-! ## field projections of `virt` -/
section
variable (s : State)
theorem virt_cfg : (virt s).cfg = s.cfg := rfl
theorem virt_binds : (virt s).binds = s.binds := rfl
theorem virt_observers : (virt s).observers = s.observers := rfl
theorem virt_ahh : (virt s).ahh = s.ahh := rfl
theorem virt_maxHeightSeen : (virt s).maxHeightSeen = s.maxHeightSeen := rfl
theorem virt_status : (virt s).status = s.status := rfl
theorem virt_currentScope : (virt s).currentScope = s.currentScope := rfl
theorem virt_propagateInvalidity : (virt s).propagateInvalidity = s.propagateInvalidity := rfl
theorem virt_handleAfterStab : (virt s).handleAfterStab = s.handleAfterStab := rfl
theorem virt_newObservers : (virt s).newObservers = s.newObservers := rfl
theorem virt_disallowedObservers : (virt s).disallowedObservers = s.disallowedObservers := rfl
theorem virt_allObservers : (virt s).allObservers = s.allObservers := rfl
theorem virt_setDuringStab : (virt s).setDuringStab = s.setDuringStab := rfl
theorem virt_deadVars : (virt s).deadVars = s.deadVars := rfl
theorem virt_counters : (virt s).counters = s.counters := rfl
theorem virt_nextToken : (virt s).nextToken = s.nextToken := rfl
theorem virt_nextDep : (virt s).nextDep = s.nextDep := rfl
theorem virt_panicCountdown : (virt s).panicCountdown = s.panicCountdown := rfl
theorem virt_currentlyRunning : (virt s).currentlyRunning = s.currentlyRunning := rfl
theorem virt_alive : (virt s).alive = s.alive := rfl
theorem virt_top : (virt s).top = s.top := rfl
theorem virt_handles : (virt s).handles = s.handles := rfl
theorem virt_slots : (virt s).slots = s.slots := rfl
theorem virt_memos : (virt s).memos = s.memos := rfl
theorem virt_perkeys : (virt s).perkeys = s.perkeys := rfl
end

/-- normalise everything a model function reads of `virt s` / `virtNode xs nd` (but `kind`, `recomputedAt`) -/
macro "xnorm" : tactic => `(tactic| simp only [virt_cfg, virt_binds, virt_observers, virt_ahh,
  virt_maxHeightSeen, virt_status, virt_currentScope, virt_propagateInvalidity, virt_handleAfterStab,
  virt_newObservers, virt_disallowedObservers, virt_allObservers, virt_setDuringStab, virt_deadVars, virt_counters,
  virt_nextToken, virt_nextDep, virt_currentlyRunning, virt_memos, virt_perkeys,
  virt_panicCountdown, virt_alive, virt_top, virt_handles, virt_slots, virt_vars, virt_rch, virt_stabNum,
  virt_isNecessary, virt_isStale, virt_needsToBeComputed, virt_children, virt_size, virt_nodeD,
  virtNode_valid, virtNode_cutoff, virtNode_createdIn, virtNode_parents, virtNode_observers,
  virtNode_forceNecessary, virtNode_height, virtNode_heightInRch, virtNode_heightInAhh,
  virtNode_changedAt, virtNode_value, virtNode_num, virtNode_inHas, virtNode_oldState, virtNode_didChange,
  virtNode_isNecessary, virtNode_inRch])

/-- closes `∀ xs nd, virtNode xs (f nd) = f (virtNode xs nd)` for an `f` that does not touch `kind`, `recomputedAt` -/
macro "xcomm" : tactic => `(tactic| (intro xs nd; rfl))
/-- closes `∀ nd, (f nd).kind = nd.kind ∧ (f nd).valid = nd.valid` -/
macro "xkind" : tactic => `(tactic| (intro nd; exact ⟨rfl, rfl⟩))

theorem Sim.dassert (c : Bool) (site : String) : Sim (Engine.dassert c site) (Engine.dassert c site) := by
  intro s hn r s' h
  rw [run_dassert] at h ⊢
  by_cases hc : s.cfg.debug = true ∧ c = false
  · rw [if_pos hc] at h; cases h
  · rw [if_neg hc] at h; cases h; exact ⟨if_neg hc, hn⟩

theorem Sim.assertM (c : Bool) (site : String) : Sim (Engine.assertM c site) (Engine.assertM c site) := by
  intro s hn r s' h
  rw [run_assertM] at h ⊢
  split at h
  · rename_i hc; cases h; rw [if_pos hc]; exact ⟨rfl, hn⟩
  · cases h

theorem Sim.tick : Sim Engine.tick Engine.tick := by
  intro s hn r s' h
  rw [run_tick_none s hn.pc] at h
  cases h
  exact ⟨run_tick_none (virt s) hn.pc, hn⟩

theorem Sim.logEv (e : Event) : Sim (Engine.logEv e) (if keepEv e then Engine.logEv e else pure ()) := by
  intro s hn r s' h
  rw [run_logEv] at h
  cases h
  refine ⟨?_, hn.of_nodes rfl rfl rfl rfl⟩
  cases hk : keepEv e
  · rw [if_neg (by simp), run_pure]
    simp only [virt, List.filter_cons, hk]; rfl
  · rw [if_pos rfl, run_logEv]
    simp only [virt, List.filter_cons, hk]; rfl

theorem Sim.logEv_keep (e : Event) (h : keepEv e = true) : Sim (Engine.logEv e) (Engine.logEv e) := by
  have := Sim.logEv e; rwa [if_pos h] at this

/-! ## work that is invisible in the virtual state -/

/-- `s'` has the same virtual state as `s` (and the same kinds, validity; `Fr.ni` is kept) -/
structure VEq (s s' : State) : Prop where
  veq : virt s' = virt s
  kind : ∀ m, (s'.nodeD m).kind = (s.nodeD m).kind
  valid : ∀ m, (s'.nodeD m).valid = (s.nodeD m).valid
  ni : (∀ (e : Nat) (er : ExpertRec), s.experts[e]? = some er → er.numInvalidChildren = 0) →
    ∀ (e : Nat) (er : ExpertRec), s'.experts[e]? = some er → er.numInvalidChildren = 0

theorem VEq.refl (s : State) : VEq s s := ⟨rfl, fun _ => rfl, fun _ => rfl, fun h => h⟩
theorem VEq.trans {a b c : State} (h1 : VEq a b) (h2 : VEq b c) : VEq a c :=
  ⟨h2.veq.trans h1.veq, fun m => (h2.kind m).trans (h1.kind m), fun m => (h2.valid m).trans (h1.valid m),
    fun h => h2.ni (h1.ni h)⟩

theorem VEq.pc {s s' : State} (h : VEq s s') : s'.panicCountdown = s.panicCountdown :=
  show (virt s').panicCountdown = (virt s).panicCountdown from congrArg State.panicCountdown h.veq

theorem VEq.fr {s s' : State} (h : VEq s s') (hn : Fr s) : Fr s' := by
  refine ⟨h.pc.trans hn.pc, fun n => ?_, ?_, fun n => ?_, h.ni hn.ni⟩
  · rw [h.valid]; exact hn.valid n
  · have h1 : (virt s').propagateInvalidity = (virt s).propagateInvalidity := by rw [h.veq]
    exact h1.trans hn.pinv
  · rw [h.kind]; exact hn.kind n

/-- the relation of the invisible programs: they may only be run while no fault is armed -/
def VEqP (s s' : State) : Prop := s.panicCountdown = none → VEq s s'

instance : Step.PreOrd VEqP :=
  ⟨fun s _ => VEq.refl s, fun {a b c} h1 h2 hp => (h1 hp).trans (h2 ((h1 hp).pc.trans hp))⟩

theorem VEq.of_eq {s s' : State} (h : s' = s) : VEq s s' := by subst h; exact VEq.refl _

/-- the fields of an expert record the virtual state reads are unchanged, and the invalid-children counter
is not raised -/
def InvisX (f : ExpertRec → ExpertRec) : Prop :=
  ∀ x, (f x).f = x.f ∧ (f x).children = x.children ∧ (f x).forceStale = x.forceStale ∧
    (x.numInvalidChildren = 0 → (f x).numInvalidChildren = 0)

theorem xRec_modify (xs : Array ExpertRec) (e : Nat) (f : ExpertRec → ExpertRec) (hf : InvisX f) (e' : Nat) :
    (xRec (xs.modify e f) e').f = (xRec xs e').f ∧ (xRec (xs.modify e f) e').children = (xRec xs e').children ∧
      (xRec (xs.modify e f) e').forceStale = (xRec xs e').forceStale := by
  unfold xRec
  rw [Array.getElem?_modify]
  split
  · cases h : xs[e']? with
    | none => simp
    | some er => simp only [Option.map_some, Option.getD_some]; exact ⟨(hf er).1, (hf er).2.1, (hf er).2.2.1⟩
  · exact ⟨rfl, rfl, rfl⟩

theorem virtNode_modify (xs : Array ExpertRec) (e : Nat) (f : ExpertRec → ExpertRec) (hf : InvisX f) (nd : Node) :
    virtNode (xs.modify e f) nd = virtNode xs nd := by
  rcases nd with ⟨k⟩
  cases k <;> try rfl
  rename_i e'
  obtain ⟨h1, h2, h3⟩ := xRec_modify xs e f hf e'
  simp only [virtNode, virtKind, forced, h1, h2, h3]
  try rfl

theorem VEq.modExpert (s : State) (e : Nat) (f : ExpertRec → ExpertRec) (hf : InvisX f) :
    VEq s { s with experts := s.experts.modify e f } := by
  refine ⟨?_, fun _ => rfl, fun _ => rfl, fun h e' er he => ?_⟩
  · simp only [virt]
    congr 1
    apply Array.ext
    · simp
    · intro i h1 h2
      simp only [Array.getElem_map]
      exact virtNode_modify _ _ _ hf _
  · simp only [Array.getElem?_modify] at he
    split at he
    · cases h0 : s.experts[e']? with
      | none => rw [h0] at he; cases he
      | some er0 =>
        rw [h0] at he; simp only [Option.map_some, Option.some.injEq] at he
        subst he
        exact (hf er0).2.2.2 (h e' er0 h0)
    · exact h e' er he

theorem PresV.modExpert (e : Nat) (f : ExpertRec → ExpertRec) (hf : InvisX f) :
    Step.Pres VEqP (Engine.modExpert e f) := by
  unfold Engine.modExpert; exact Step.Pres.modify fun s _ => VEq.modExpert s e f hf

theorem PresV.tick : Step.Pres VEqP Engine.tick := by
  constructor
  intro s r s' h hp
  rw [run_tick_none s hp] at h
  cases h; exact VEq.refl _

theorem VEq.logEv (s : State) (e : Event) (h : keepEv e = false) : VEq s { s with log := e :: s.log } := by
  refine ⟨?_, fun _ => rfl, fun _ => rfl, fun h => h⟩
  simp only [virt, List.filter_cons, h]; rfl

theorem PresV.logEv (e : Event) (h : keepEv e = false) : Step.Pres VEqP (Engine.logEv e) := by
  unfold Engine.logEv; exact Step.Pres.modify fun s _ => VEq.logEv s e h

/-- leaves of `xpres` -/
syntax "xqleaf" : tactic
macro_rules | `(tactic| xqleaf) => `(tactic| fail "no leaf")
macro_rules | `(tactic| xqleaf) => `(tactic| with_reducible exact PresV.tick)
macro_rules | `(tactic| xqleaf) => `(tactic| ((with_reducible apply PresV.logEv); first | rfl | exact isF_cb))
macro_rules | `(tactic| xqleaf) => `(tactic|
  ((with_reducible apply PresV.modExpert); intro x; exact ⟨rfl, rfl, rfl, fun h => by first | exact h | rfl⟩))

macro "xqstep" : tactic => `(tactic| first
  | with_reducible apply Step.Pres.pure | with_reducible apply Step.Pres.get | with_reducible apply Step.Pres.panic
  | with_reducible apply Step.Pres.throw
  | with_reducible apply Step.Pres.bind | with_reducible apply Step.Pres.map | with_reducible apply Step.Pres.mapM
  | with_reducible apply Step.Pres.getNode | with_reducible apply Step.Pres.dassert
  | with_reducible apply Step.Pres.getBind | with_reducible apply Step.Pres.getExpert
  | with_reducible apply Step.Pres.getVar | with_reducible apply Step.Pres.assertM
  | xqleaf
  | intro _ | split | dsimp only)

/-- decompose a `Pres VEqP` goal along the structure of the program -/
macro "xpres" : tactic => `(tactic| repeat (any_goals xqstep))

section
variable {s : State} {β : Type}

/-- a program that only does invisible work is simulated by doing nothing -/
theorem SimAt.of_veq {x : M Unit} (h : Step.Pres VEqP x) : SimAt s x (pure ()) := by
  intro hn r s' hr
  have hv := h.h s _ s' hr hn.pc
  rw [run_pure, hv.veq]; exact ⟨rfl, hv.fr hn⟩

/-- invisible work followed by `k` is simulated by `k'` if `k` is -/
theorem SimAt.veq_seq {x : M Unit} {k : Unit → M β} {k' : M β} (h : Step.Pres VEqP x)
    (hk : ∀ s1, VEq s s1 → SimAt s1 (k ()) k') : SimAt s (x >>= k) k' := by
  intro hn r s' hr
  obtain ⟨a, s1, h1, h2⟩ := bind_ok_inv hr
  have hv := h.h s _ s1 h1 hn.pc
  have := hk s1 hv (hv.fr hn) r s' h2
  rwa [hv.veq] at this

end

theorem PresV.observabilityChange (e : Nat) (b : Bool) : Step.Pres VEqP (Engine.observabilityChange e b) := by
  unfold Engine.observabilityChange; xpres

theorem PresV.edgeOnChange (env : Env) (e : Nat) (edge : ExpertEdge) :
    Step.Pres VEqP (Engine.edgeOnChange env e edge) := by
  unfold Engine.edgeOnChange; xpres

theorem PresV.runEdgeCallback (env : Env) (e i : Nat) : Step.Pres VEqP (Engine.runEdgeCallback env e i) := by
  unfold Engine.runEdgeCallback; xpres; exact PresV.edgeOnChange _ _ _

theorem Sim.observabilityChange (e : Nat) (b : Bool) : Sim (Engine.observabilityChange e b) (pure ()) :=
  fun _ => SimAt.of_veq (PresV.observabilityChange e b)

theorem Sim.edgeOnChange (env : Env) (e : Nat) (edge : ExpertEdge) : Sim (Engine.edgeOnChange env e edge) (pure ()) :=
  fun _ => SimAt.of_veq (PresV.edgeOnChange env e edge)

theorem Sim.runEdgeCallback (env : Env) (e i : Nat) : Sim (Engine.runEdgeCallback env e i) (pure ()) :=
  fun _ => SimAt.of_veq (PresV.runEdgeCallback env e i)

theorem kind_of_kind? {nd : Node} {k : Kind} (h : nd.kind? = some k) : nd.kind = k := by
  unfold Node.kind? at h; split at h
  · cases h; rfl
  · cases h

theorem XK.absurd_kind? {nd : Node} {k : Kind} {P : Prop} (hxk : XK nd.kind) (h : nd.kind? = some k) (hk : ¬ XK k) :
    P := by
  rw [kind_of_kind? h] at hxk; exact absurd hxk hk

theorem kind?_of_valid {nd : Node} (h : nd.valid = true) : nd.kind? = some nd.kind := by
  simp [Node.kind?, h]

end IncrVerif.Proofs.ExpertH
