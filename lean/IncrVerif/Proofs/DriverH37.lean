import IncrVerif.Proofs.DriverH35
/-!
# Drivers: a decidable sufficient check of `RunOKD`

`effOf : Nat → List Effect` with `∀ f vals, env.fnEff f vals = effOf f` (the shape of the harness' `Defs.toEnv`: the effect
list of a user function does not depend on the arguments).
* `drivesB s n x`: searches the record of `x` for a protected edge on `n`; sound for `Drives s n x`.
* `psB s c`: computes the set of nodes below `c` (as `acyclicB` of ExpertH52: fuel = number of nodes), CHECKS that it is
  closed under `kidsOf` and that no member is an expert node; sound for `PS s c` (no completeness claim).
* `effOKB`, `drvOKB effOf s`, `runOKDB env effOf mapOK xOK acts s tk`; `runOKDB_sound`.
-/
namespace IncrVerif.Proofs.DriverH
open IncrVerif.Engine IncrVerif.Driver IncrVerif.Proofs IncrVerif.Proofs.Step IncrVerif.Proofs.Sched
open IncrVerif.Proofs.ExpertH IncrVerif.Proofs.ExpertH.QR IncrVerif.Proofs.EffH

/-! ## `Drives` -/

/-- `ed` is a protected edge of the record `er` on the child `n` -/
def protB (s : State) (er : ExpertRec) (n : Nat) (ed : ExpertEdge) : Bool :=
  ed.child == n && decide (ed.dep < s.nextDep) && !er.script.contains ed.dep &&
    (match er.sel with
     | some (d, _) => d != ed.dep
     | none => true)

def drivesB (s : State) (n x : Nat) : Bool :=
  decide (x < s.nodes.size) &&
    match (s.nodeD x).kind with
    | .expert e =>
      match s.experts[e]? with
      | some er => er.children.any (protB s er n)
      | none => false
    | _ => false

theorem drivesB_sound {s : State} {n x : Nat} (h : drivesB s n x = true) : Drives s n x := by
  unfold drivesB at h
  simp only [Bool.and_eq_true, decide_eq_true_eq] at h
  obtain ⟨hx, h⟩ := h
  refine ⟨hx, ?_⟩
  cases hk : (s.nodeD x).kind <;> simp only [hk] at h <;> try (cases h)
  rename_i e
  cases he : s.experts[e]? with
  | none => rw [he] at h; exact absurd h (by simp)
  | some er =>
    rw [he] at h
    obtain ⟨ed, hmem, hp⟩ := List.any_eq_true.1 h
    unfold protB at hp
    simp only [Bool.and_eq_true, beq_iff_eq, decide_eq_true_eq, Bool.not_eq_true', List.contains_eq_mem,
      decide_eq_false_iff_not] at hp
    obtain ⟨⟨⟨h1, h2⟩, h3⟩, h4⟩ := hp
    refine ⟨e, er, rfl, he, ed, hmem, h1, h2, h3, ?_⟩
    intro d c hsel
    rw [hsel] at h4
    simpa using h4

/-! ## `PS` -/

def psB (s : State) (c : Nat) : Bool :=
  let D := descB s s.nodes.size [c]
  decide (c < s.nodes.size) && D.contains c && closedB s D && D.all fun d => !isExpertB (s.nodeD d).kind

theorem psB_sound {s : State} {c : Nat} (h : psB s c = true) : PS s c := by
  unfold psB at h
  simp only [Bool.and_eq_true, decide_eq_true_eq, List.contains_eq_mem] at h
  obtain ⟨⟨⟨hc, hcc⟩, hcl⟩, hall⟩ := h
  refine ⟨hc, fun d hb e hk => ?_⟩
  have hd := below_closed hcl hb hcc
  have := List.all_eq_true.1 hall d hd
  rw [hk] at this
  simp [isExpertB] at this

/-! ## effects, drivers -/

def drivesOB (s : State) (n : Nat) (eo : Opnd) : Bool :=
  match resOp s eo with
  | some x => drivesB s n x
  | none => false

def psOB (s : State) (co : Opnd) : Bool :=
  match resOp s co with
  | some c => psB s c
  | none => false

theorem drivesOB_sound {s : State} {n : Nat} {eo : Opnd} (h : drivesOB s n eo = true) :
    ∃ x, resOp s eo = some x ∧ Drives s n x := by
  unfold drivesOB at h
  cases hr : resOp s eo with
  | none => rw [hr] at h; cases h
  | some x => rw [hr] at h; exact ⟨x, rfl, drivesB_sound h⟩

theorem psOB_sound {s : State} {co : Opnd} (h : psOB s co = true) : ∃ c, resOp s co = some c ∧ PS s c := by
  unfold psOB at h
  cases hr : resOp s co with
  | none => rw [hr] at h; cases h
  | some x => rw [hr] at h; exact ⟨x, rfl, psB_sound h⟩

def effOKB (s : State) (n : Nat) : Effect → Bool
  | .xAdd eo co _ => drivesOB s n eo && psOB s co
  | .xRm eo _ => drivesOB s n eo
  | .xSel eo _ _ targets => drivesOB s n eo && targets.all (psOB s)
  | .xStale eo => drivesOB s n eo
  | _ => false

theorem effOKB_sound {s : State} {n : Nat} {eff : Effect} (h : effOKB s n eff = true) : EffOK s n eff := by
  cases eff <;> simp only [effOKB] at h <;> try (cases h)
  case xAdd eo co cb =>
    simp only [Bool.and_eq_true] at h
    obtain ⟨x, hx, hd⟩ := drivesOB_sound h.1
    obtain ⟨c, hc, hp⟩ := psOB_sound h.2
    exact ⟨x, c, hx, hc, hd, hp⟩
  case xRm eo i => exact drivesOB_sound h
  case xSel eo cb al targets =>
    simp only [Bool.and_eq_true] at h
    obtain ⟨x, hx, hd⟩ := drivesOB_sound h.1
    exact ⟨x, hx, hd, fun t ht => psOB_sound (List.all_eq_true.1 h.2 t ht)⟩
  case xStale eo => exact drivesOB_sound h

/-- every `map` node with a user function: every effect of its function is legal -/
def drvOKB (effOf : Nat → List Effect) (s : State) : Bool :=
  (List.range s.nodes.size).all fun n =>
    match (s.nodeD n).kind with
    | .map f _ => decide (fnZip ≤ f) || (effOf f).all (effOKB s n)
    | _ => true

theorem drvOKB_sound {env : Env} {effOf : Nat → List Effect} (heff : ∀ f vals, env.fnEff f vals = effOf f)
    {s : State} (h : drvOKB effOf s = true) : DrvOK env s := by
  intro n f args hn hk hf vals eff hmem
  rw [heff f vals] at hmem
  have := List.all_eq_true.1 h n (List.mem_range.2 hn)
  rw [hk] at this
  simp only [Bool.or_eq_true, decide_eq_true_eq] at this
  rcases this with h1 | h2
  · omega
  · exact effOKB_sound (List.all_eq_true.1 h2 eff hmem)

/-! ## actions, runs -/

def actionOKDB (effOf : Nat → List Effect) (mapOK xOK : Nat → Bool) (s : State) : Action → Bool
  | .stabilise => drvOKB effOf s
  | a => actionOKB mapOK xOK s a

theorem actionOKDB_sound {env : Env} {effOf : Nat → List Effect} (heff : ∀ f vals, env.fnEff f vals = effOf f)
    {mapOK xOK : Nat → Bool} (hm : ∀ f, mapOK f = true → f < fnPerKey)
    (hx : ∀ f, xOK f = true → XEnvOK env f ∧ f < xBase) {s : State} {a : Action}
    (h : actionOKDB effOf mapOK xOK s a = true) : DActionOK env s a := by
  have key : ∀ a, a ≠ Action.stabilise → actionOKB mapOK xOK s a = true → DActionOK env s a := by
    intro a h1 hb
    refine DActionOK.of_x h1 (actionOKB_sound (env := noEff env) (fun f hf => ⟨hm f hf, fun _ _ => rfl⟩) ?_ hb)
    intro f hf
    exact ⟨(hx f hf).1, (hx f hf).2⟩
  cases a
  case stabilise => exact drvOKB_sound heff h
  all_goals exact key _ (by intro h; cases h) h

/-- run the history on the model (with the effects) and check every action in the state in which it is executed -/
def runOKDB (env : Env) (effOf : Nat → List Effect) (mapOK xOK : Nat → Bool) :
    List Action → State → Array Nat → Bool
  | [], _, _ => true
  | a :: as, s, tk =>
    actionOKDB effOf mapOK xOK s a &&
      match (stepAction env a tk).run.run s with
      | (.ok r, s') => runOKDB env effOf mapOK xOK as s' r.2
      | (.error _, _) => true

theorem runOKDB_sound {env : Env} {effOf : Nat → List Effect} (heff : ∀ f vals, env.fnEff f vals = effOf f)
    {mapOK xOK : Nat → Bool} (hm : ∀ f, mapOK f = true → f < fnPerKey)
    (hx : ∀ f, xOK f = true → XEnvOK env f ∧ f < xBase) :
    ∀ (acts : List Action) (s : State) (tk : Array Nat), runOKDB env effOf mapOK xOK acts s tk = true →
      RunOKD env acts s tk := by
  intro acts
  induction acts with
  | nil => intro s tk _; trivial
  | cons a as ih =>
    intro s tk h
    simp only [runOKDB, Bool.and_eq_true] at h
    refine ⟨actionOKDB_sound heff hm hx h.1, fun r s' hr => ?_⟩
    have h2 := h.2
    rw [hr] at h2
    exact ih s' r.2 h2

end IncrVerif.Proofs.DriverH
