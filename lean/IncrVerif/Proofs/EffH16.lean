import IncrVerif.Proofs.EffH13
import IncrVerif.Proofs.EffH14
import IncrVerif.Proofs.EffH15
/-!
# Effects, part 16 (V3): one `stabilise` with subscriptions, write effects in node functions AND in update handlers
-/
namespace IncrVerif.Proofs.EffH
open IncrVerif.Engine IncrVerif.Driver IncrVerif.Proofs IncrVerif.Proofs.Step IncrVerif.Proofs.Sched
open IncrVerif.Proofs.Quiet
open IncrVerif.Proofs.SubsH (HInv UInv hOf numOf PrevOK HasOK Hush stepPrev nuAt endNotifs NotNotif hOf_of_some)

/-! ## the handler bookkeeping after `stabiliseEnd` (port of `SubsH.Ended.hinv`) -/

theorem EndedW.flag {env : Env} {s s' : State} (E : EndedW env s s') (m : Nat) :
    (s'.nodeD m).inHandleAfterStab = false := by
  obtain ⟨h, e⟩ := E.node m; rw [e]
theorem EndedW.nodeObs {env : Env} {s s' : State} (E : EndedW env s s') (m : Nat) :
    (s'.nodeD m).observers = (s.nodeD m).observers := by
  obtain ⟨h, e⟩ := E.node m; rw [e]
theorem EndedW.num {env : Env} {s s' : State} (E : EndedW env s s') (m : Nat) :
    (s'.nodeD m).numOnUpdateHandlers = (s.nodeD m).numOnUpdateHandlers := by
  obtain ⟨h, e⟩ := E.node m; rw [e]

theorem endedW_rec {env : Env} {s s' : State} (E : EndedW env s s') (O : SubsH.ObsInv s [] [])
    (hval : ∀ n, s.isNecessary n = true → (s.nodeD n).valid = true ∧ (s.value env n).isSome = true)
    {o : Nat} {ob' : ObsRec} (h : s'.observers[o]? = some ob') :
    ∃ ob, s.observers[o]? = some ob ∧ ob'.node = ob.node ∧ ob'.state = ob.state ∧
      ((ob' = ob ∧ ¬(ob.state = .inUse ∧ ob.node ∈ s.handleAfterStab)) ∨
       (ob.state = .inUse ∧ ob.node ∈ s.handleAfterStab ∧
        ∃ nu, (nu = .changed ∨ nu = .necessary) ∧ ob'.handlers = ob.handlers.map (stepPrev nu))) := by
  have hlt : o < s.observers.size := by
    rw [← E.obsSize]; exact (Array.getElem?_eq_some_iff.1 h).1
  have hob : s.observers[o]? = some s.observers[o] := Array.getElem?_eq_getElem hlt
  refine ⟨_, hob, ?_⟩
  have h' := E.obs o _ hob
  rw [h] at h'
  by_cases hc : (s.observers[o]).state = .inUse ∧ (s.observers[o]).node ∈ s.handleAfterStab
  · rw [if_pos hc] at h'
    cases h'
    refine ⟨rfl, rfl, Or.inr ⟨hc.1, hc.2, _, ?_, rfl⟩⟩
    have ho : o ∈ (s.nodeD (s.observers[o]).node).observers := (O.mem _ o).2 ⟨_, hob, rfl, Or.inl hc.1⟩
    have hnec := (isNecessary_iff s _).2 (Or.inr (Or.inl (List.ne_nil_of_mem ho)))
    exact SubsH.P8.nuAt_cases (hval _ hnec).1 hnec
  · rw [if_neg hc] at h'
    cases h'
    exact ⟨rfl, rfl, Or.inl ⟨rfl, hc⟩⟩

/-- the handler bookkeeping after a `stabiliseEnd` whose handlers have write effects -/
theorem EndedW.hinv {env : Env} {s s' : State} (E : EndedW env s s') (O : SubsH.ObsInv s [] []) (H : HInv s)
    (hval : ∀ n, s.isNecessary n = true → (s.nodeD n).valid = true ∧ (s.value env n).isSome = true) :
    HInv s' ∧
    ∀ (o : Nat) (ob : ObsRec) (h : HandlerRec), s'.observers[o]? = some ob → ob.state = .inUse →
      h ∈ ob.handlers → h.prev ≠ .neverBeenUpdated := by
  have hflag := E.flag
  have hobsl := E.nodeObs
  have hlen : ∀ o, (hOf s' o).length = (hOf s o).length := by
    intro o
    cases ho : s'.observers[o]? with
    | none =>
      have : s.observers[o]? = none := by
        rw [Array.getElem?_eq_none_iff] at ho ⊢
        rw [← E.obsSize]; exact ho
      simp [hOf, ho, this]
    | some ob' =>
      obtain ⟨ob, hob, _, _, hc⟩ := endedW_rec E O hval ho
      rw [hOf_of_some ho, hOf_of_some hob]
      rcases hc with ⟨rfl, _⟩ | ⟨_, _, nu, _, e⟩
      · rfl
      · rw [e, List.length_map]
  have htoks : ∀ (o : Nat) (ob' : ObsRec), s'.observers[o]? = some ob' →
      ∃ ob, s.observers[o]? = some ob ∧ ob'.handlers.map (·.token) = ob.handlers.map (·.token) := by
    intro o ob' ho
    obtain ⟨ob, hob, _, _, hc⟩ := endedW_rec E O hval ho
    refine ⟨ob, hob, ?_⟩
    rcases hc with ⟨rfl, _⟩ | ⟨_, _, nu, _, e⟩
    · rfl
    · rw [e, List.map_map]; exact List.map_congr_left fun h _ => SubsH.P8.stepPrev_token nu h
  have hlast : ∀ (o : Nat) (ob : ObsRec) (h : HandlerRec), s'.observers[o]? = some ob → ob.state = .inUse →
      h ∈ ob.handlers → h.prev ≠ .neverBeenUpdated := by
    intro o ob' h ho hst hh
    obtain ⟨ob, hob, _, est, hc⟩ := endedW_rec E O hval ho
    rcases hc with ⟨rfl, hn⟩ | ⟨_, _, nu, hnu, e⟩
    · intro hp
      exact hn ⟨hst, H.pending o ob' h hob (Or.inr hst) hh hp⟩
    · rw [e] at hh
      obtain ⟨h0, hh0, rfl⟩ := List.mem_map.1 hh
      exact (SubsH.P8.stepPrev_prev hnu (H.prev o ob h0 hob hh0)).2
  refine ⟨⟨fun n => ?_, fun n => by rw [hobsl]; exact H.obsNodup n, ?_, ?_, ⟨?_, fun n => ?_⟩, ?_, ?_, ?_⟩, hlast⟩
  · rw [E.num n, H.count n]
    unfold numOf
    rw [hobsl]
    congr 1
    exact List.map_congr_left fun o _ => by rw [hlen]
  · refine Life.TokWF.of_sub (Nat.le_of_eq E.nextToken.symm) (fun o ob' ho => ?_) H.tok
    obtain ⟨ob, hob, e⟩ := htoks o ob' ho
    exact Or.inr ⟨ob, hob, fun t ht => by unfold Life.tokensOf at ht ⊢; rw [← e]; exact ht⟩
  · intro o ob' ho
    obtain ⟨ob, hob, e⟩ := htoks o ob' ho
    rw [e]; exact H.tokNodup o ob hob
  · rw [E.handleAfterStab]; exact List.nodup_nil
  · rw [E.handleAfterStab, hflag]; simp
  · intro o ob' h ho hh
    obtain ⟨ob, hob, _, _, hc⟩ := endedW_rec E O hval ho
    rw [E.stabNum]
    rcases hc with ⟨rfl, _⟩ | ⟨_, _, nu, _, e⟩
    · have := H.createdAt o ob' h hob hh; omega
    · rw [e] at hh
      obtain ⟨h0, hh0, rfl⟩ := List.mem_map.1 hh
      rw [SubsH.P8.stepPrev_createdAt]
      have := H.createdAt o ob h0 hob hh0; omega
  · intro o ob' h ho hh
    obtain ⟨ob, hob, _, _, hc⟩ := endedW_rec E O hval ho
    rcases hc with ⟨rfl, _⟩ | ⟨_, _, nu, hnu, e⟩
    · exact H.prev o ob' h hob hh
    · rw [e] at hh
      obtain ⟨h0, hh0, rfl⟩ := List.mem_map.1 hh
      exact (SubsH.P8.stepPrev_prev hnu (H.prev o ob h0 hob hh0)).1
  · intro o ob' h ho hst hh hp
    obtain ⟨ob, hob, _, est, _⟩ := endedW_rec E O hval ho
    rcases hst with hst | hst
    · exact absurd (O.created o ob hob (est ▸ hst)) (by simp)
    · exact absurd hp (hlast o ob' h ho hst hh)


/-! ## `stabilise` -/

/-- the conclusions of `stabilise_w`: `t2`/`t3` are the states in which the drain starts/ends -/
structure WStab (env : Env) (fuel : Nat) (s t2 t3 s' : State) : Prop where
  inv : UInvE env s'
  start : DI env t2 none
  startVars : t2.vars = s.vars
  startStab : t2.stabNum = s.stabNum
  startKind : ∀ m, (t2.nodeD m).kind = (s.nodeD m).kind
  nec : ∀ m, s'.isNecessary m = t2.isNecessary m
  run : (drainHeap env fuel).run.run t2 = (.ok (), t3)
  drain : RunOK env (drainSteps env fuel t2) t2 t3
  drained : t3.rch.length = 0
  hush : Hush t2 t3
  /-- the state between the drain and `stabiliseEnd` (`mid.ended : EndedW env t3 s'`: deferred writes applied,
  handlers run — their writes are immediate; `mid.log`: nothing is delivered before the end of the drain;
  `mid.valchg`: the `changedAt` stamp of the round is exact) -/
  mid : MidStateW env s t3 s'
  /-- **the variables**: the functions' deferred writes in the order the functions ran, then the handlers' writes
  in delivery order, folded over the pre-stabilise value -/
  vars : ∀ (v : Nat) (c : VarCell), s.vars[v]? = some c →
    s'.vars[v]? = some (cellAfter (s.stabNum + 1)
      (writesTo v (stepsWrites env (drainSteps env fuel t2) ++ writesOf (endEffs env t3))) c)
  vsize : s'.vars.size = s.vars.size
  newObservers : s'.newObservers = []
  disallowedObservers : s'.disallowedObservers = []
  stabNum : s'.stabNum = s.stabNum + 1
  size : s'.nodes.size = s.nodes.size
  kind : ∀ m, (s'.nodeD m).kind = (s.nodeD m).kind
  obs : ObsMap stabilisedState s s'
  /-- every necessary node carries `eval` of the final graph on the PRE-STABILISE variables -/
  values : ∀ n, s'.isNecessary n = true → ∀ k, (s'.nodeD n).height.toNat < k →
    (s'.nodeD n).valid = true ∧ (s'.nodeD n).value = eval env { s' with vars := s.vars } k n ∧
      s'.value env n = eval env { s' with vars := s.vars } k n ∧
      (eval env { s' with vars := s.vars } k n).isSome = true
  called : ∀ (o : Nat) (ob : ObsRec) (h : HandlerRec), s'.observers[o]? = some ob → ob.state = .inUse →
    h ∈ ob.handlers → h.prev ≠ .neverBeenUpdated

set_option maxHeartbeats 1000000 in
/-- **V3: one `stabilise`** of a program with subscriptions whose node functions and update handlers have write
effects. -/
theorem stabilise_w {env : Env} (hw : WOnly env) (hH : WHandlers env) {fuel : Nat} {s s' : State}
    (UE : UInvE env s) (h : (stabilise env fuel).run.run s = (.ok (), s')) :
    ∃ t2 t3, WStab env fuel s t2 t3 s' := by
  have U := UE.u
  have Q := U.core
  unfold stabilise at h
  rw [run_bind_get] at h
  obtain ⟨_, sa, ha, h⟩ := bind_ok_inv h
  have hsa : sa = s := by
    rw [run_assertM] at ha
    split at ha <;> cases ha
    rfl
  rw [hsa] at h
  obtain ⟨s0, hs0, h⟩ := Quiet.bind_modify_inv h
  obtain ⟨_, t1, h1, h⟩ := bind_ok_inv h
  obtain ⟨_, t2, h2, h⟩ := bind_ok_inv h
  obtain ⟨_, t3, h3, h4⟩ := bind_ok_inv h
  rw [← addNewObservers_noEff] at h1
  have hnd0 : ∀ m, s0.nodeD m = s.nodeD m := fun m => by rw [hs0]; rfl
  have S0 : SubsH.SInv (noEff env) s0 s0.newObservers s0.disallowedObservers := by
    rw [hs0]
    exact ⟨Q.struct.congr (SameG.of_nodes rfl rfl rfl rfl rfl),
      ⟨Q.obs.inRange, Q.obs.mem, Q.obs.created, Q.obs.newIn, Q.obs.dis, Q.obs.disIn, Q.obs.disNodup⟩,
      Q.pinv, U.hinv.of_nodes rfl rfl rfl rfl rfl⟩
  obtain ⟨S1, hn1, hd1, F1, O1, N1, K1, L1, T1⟩ := SubsH.addNewObservers_s S0 h1
  obtain ⟨S2, hn2, hd2, F2, O2, K2, L2, T2⟩ := SubsH.unlinkDisallowedObservers_s S1 hn1 h2
  have F : SubsH.PFrame s0 t2 := F1.trans F2
  have hvars0 : s0.vars = s.vars := by rw [hs0]
  have hstab0 : s0.stabNum = s.stabNum := by rw [hs0]
  have hsz0 : s0.nodes.size = s.nodes.size := by rw [hs0]
  have hlog0 : s0.log = s.log := by rw [hs0]
  have hobs0 : s0.observers = s.observers := by rw [hs0]
  have hv2 : t2.vars = s.vars := by rw [F.vars, hvars0]
  have hst2 : t2.stabNum = s.stabNum := by rw [F.stabNum, hstab0]
  have V2 : VarsOK t2 := F.varsOK (by
    refine ⟨?_, ?_⟩
    · intro n c hn hk; rw [hnd0] at hk; rw [hvars0]; exact Q.vars.node n c (by rw [← hsz0]; exact hn) hk
    · intro c vc hc; rw [hvars0] at hc; rw [hsz0, hnd0]; exact Q.vars.cell c vc hc)
  have st2 : ∀ m, (t2.nodeD m).recomputedAt < t2.stabNum ∧ (t2.nodeD m).changedAt < t2.stabNum := by
    intro m
    rw [F.recomputedAt, F.changedAt, F.stabNum, hstab0, hnd0]; exact Q.stamps m
  have cons2 : ∀ m, m < t2.nodes.size → staleOf t2 m = false → Consistent (noEff env) t2 m := by
    intro m hm hs
    rw [F.staleOf] at hs
    have hs' : staleOf s m = false := by
      rw [← hs]; exact (staleOf_congr (by rw [hnd0]) (by rw [hnd0]) hvars0 (fun c _ => by rw [hnd0])).symm
    have hc := Q.cons m (by rw [← hsz0, ← F.size]; exact hm) hs'
    have hc0 : Consistent (noEff env) s0 m := by
      obtain ⟨w, hw, hv⟩ := hc
      exact ⟨w, Target.congr (by rw [hnd0]) hvars0 (fun c _ => by rw [hnd0]) hw, by rw [hnd0]; exact hv⟩
    exact F.consistent hc0
  have D2 : DrainInv (noEff env) t2 :=
    drainInv_of S2.struct V2 (by rw [F.stabNum, hstab0]; exact Q.now) st2
      (fun c vc hc => by rw [F.vars, hvars0] at hc; rw [F.stabNum, hstab0]; exact Q.varStamp c vc hc) cons2
  have U2 : UnnecOK (noEff env) t2 := fun m hm _ => ⟨(st2 m).1, cons2 m hm⟩
  have DI2 : DI env t2 none :=
    ⟨D2, U2, by rw [F.status, hs0], fun v c hc => (UE.cells v c (by rw [← hv2]; exact hc)).2⟩
  -- the drain
  obtain ⟨R, he3⟩ := drainHeap_eff hw fuel t2 t3 DI2 h3
  have hu3 := drainHeap_eff_hush hw fuel t2 t3 DI2 h3
  have vc3 := drainHeap_eff_valchg hw DI2 st2 (fun m hm => (S2.struct.node (nec_lt_size hm)).cutoff) h3
  have P2 : Pend t2 [] t2 :=
    Pend.start (fun v c hc => (UE.cells v c (by rw [← hv2]; exact hc)).1)
      (by rw [F.setDuringStab, hs0]; exact Q.setDuringStab)
  have P3 := R.pend t2 [] P2
  rw [List.nil_append] at P3
  generalize hW : stepsWrites env (drainSteps env fuel t2) = W at P3
  have D3 := R.di.inv
  have k3 : stateKeyD t3 = stateKeyD t2 := R.dr.keyD
  simp only [stateKeyD, Prod.mk.injEq] at k3
  obtain ⟨k_obs, k_all, k_scope, k_top, k_handles, k_alive, k_pinv, -⟩ := k3
  have hst3 : t3.stabNum = s.stabNum := by rw [R.dr.frame.stabNum, hst2]
  have hdead : t3.deadVars = [] := by rw [R.dr.calm.deadVars, F.deadVars, hs0]; exact Q.deadVars
  have hno3 : t3.newObservers = [] := by rw [R.dr.calm.newObservers]; exact hn2
  have hdo3 : t3.disallowedObservers = [] := by rw [R.dr.calm.disallowedObservers]; exact hd2
  -- the drained state without the deferred writes
  let t3c : State := { t3 with vars := t2.vars, setDuringStab := t2.setDuringStab }
  have Pc : SameP t3c t3 := ⟨rfl, P3.size, fun v a ha => P3.sameP_vars.2 v a ha⟩
  have Pc' : SameP t3 t3c := Pc.symm
  have D3c : DrainInv (noEff env) t3c := Pc'.inv D3
  have U3c : UnnecOK (noEff env) t3c := Pc'.unnecOK R.di.unnec
  have f3 : Frame t2 t3c := (R.dr.frame.trans (FrameP.of_sameP Pc')).toFrame rfl
  have S3c : Struct (noEff env) t3c := Struct.ofDrained S2.struct f3 D3c he3 k_scope
  have O3 : SubsH.ObsInv t3 [] [] :=
    SubsH.obsInv_congr' S2.obs k_obs R.dr.frame.size (fun m => (R.dr.frame.shape m).observers)
  have H3 : HInv t3 :=
    SubsH.P12u.hinv_hush S2.hinv hu3 k_obs (fun m => (R.dr.frame.shape m).observers) R.dr.frame.stabNum
  have hval3 : ∀ n, t3.isNecessary n = true →
      (t3.nodeD n).valid = true ∧ (t3.value env n).isSome = true := by
    intro n hn
    obtain ⟨v1, -, v3, -, v5⟩ := drained_values D3 he3 n hn ((t3.nodeD n).height.toNat + 1) (Nat.lt_succ_self _)
    refine ⟨v1, ?_⟩
    rw [← value_noEff, D3.graph.value_plain hn, v3]; exact v5
  -- the invariant for the state after the bump, read with the status reset
  have V3c : VarsOK t3c := by
    refine ⟨?_, ?_⟩
    · intro n c hn hk
      rw [(f3.shape n).kind] at hk
      exact V2.node n c (by rw [← f3.size]; exact hn) hk
    · intro c vc hc
      have := V2.cell c vc hc
      rw [f3.size, (f3.shape vc.node).kind]; exact this
  have hcons3 : ∀ m, m < t3c.nodes.size → staleOf t3c m = false → Consistent (noEff env) t3c m := by
    intro m hm hs
    cases hn : t3c.isNecessary m with
    | true => exact (D3c.all_consistent he3 m hn).2
    | false => exact (U3c m hm hn).2 hs
  have Qc : SubsH.QInv (noEff env) (quiet (bump t3c)) := by
    refine ⟨S3c.congr (SameG.of_nodes rfl rfl rfl rfl rfl), ⟨V3c.node, V3c.cell⟩, ?_, ?_, ?_, ?_, ?_, rfl, ?_, rfl,
      hdead, ?_, ?_⟩
    · show SubsH.ObsInv (quiet (bump t3c)) t3.newObservers t3.disallowedObservers
      rw [hno3, hdo3]
      exact ⟨O3.inRange, O3.mem, O3.created, O3.newIn, O3.dis, O3.disIn, O3.disNodup⟩
    · show 0 ≤ t3.stabNum + 1
      have := D3.stamps.now; omega
    · intro m
      show (t3.nodeD m).recomputedAt < t3.stabNum + 1 ∧ (t3.nodeD m).changedAt < t3.stabNum + 1
      have := D3.stamps.node m; omega
    · intro c vc hc
      show vc.setAt ≤ t3.stabNum + 1
      have := D3c.stamps.var c vc hc
      have e : t3c.stabNum = t3.stabNum := rfl
      omega
    · intro m hm hs
      exact hcons3 m hm hs
    · show t3.alive = true
      rw [k_alive, F.alive, hs0]; exact Q.alive
    · show t3.propagateInvalidity = []
      rw [k_pinv]; exact S2.pinv
    · intro k n hk
      have hk' : t3.top[k]? = some n := hk
      rw [k_top, F.top, hs0] at hk'
      show n < t3.nodes.size
      rw [R.dr.frame.size, F.size, hsz0]; exact Q.top k n hk'
  have PQ : SameP (quiet (bump t3c)) (quiet (bump t3)) := ⟨rfl, Pc.size, Pc.cell⟩
  have QB : SubsH.QInv (noEff env) (quiet (bump t3)) := PQ.qinvU Qc rfl
  -- the end
  have hh3 : HandlesOK t3 := R.di.handles
  have E := stabiliseEnd_specW hH D3.graph.pc R.di.status hdead O3 H3 hval3 hh3 QB h4
  obtain ⟨H', hcalled⟩ := E.hinv O3 H3 hval3
  -- the variables
  have hcell : ∀ (v : Nat) (c0 : VarCell), s.vars[v]? = some c0 →
      s'.vars[v]? = some (cellAfter (s.stabNum + 1) (writesTo v (W ++ writesOf (endEffs env t3))) c0) := by
    intro v c0 h0
    have h2c : t2.vars[v]? = some c0 := by rw [hv2]; exact h0
    have h3c := P3.cell v c0 h2c
    have hp := (UE.cells v c0 h0).1
    have hsa := Q.varStamp v c0 h0
    rw [E.vars v _ h3c, hst3, e2_writesTo_append, ← cellAfter_cellAfter]
    by_cases hm : v ∈ t3.setDuringStab
    · rw [if_pos hm, cellW_clean_applyCell _ _ _ hp (by omega)]
    · rw [if_neg hm]
      have : writesTo v W = [] := by
        cases hw' : writesTo v W with
        | nil => rfl
        | cons f fs => exact absurd ((P3.mem v).2 (by rw [hw']; exact List.cons_ne_nil _ _)) hm
      rw [this]; rfl
  have hvsz : s'.vars.size = s.vars.size := by rw [E.vsize, P3.size, hv2]
  have hcells : CellsOK s' := by
    intro v cv hcv
    have hlt : v < s.vars.size := by
      rw [← hvsz]
      rcases Nat.lt_or_ge v s'.vars.size with h | h
      · exact h
      · rw [Array.getElem?_eq_none h] at hcv; cases hcv
    have h0 : s.vars[v]? = some s.vars[v] := Array.getElem?_eq_getElem hlt
    have := hcell v _ h0
    rw [hcv] at this
    cases this
    obtain ⟨hp, hh⟩ := UE.cells v _ h0
    cases hw' : writesTo v (W ++ writesOf (endEffs env t3)) with
    | nil => exact ⟨hp, hh⟩
    | cons f fs => exact ⟨hp, hh⟩
  -- nodes
  have hnodeS : ∀ m, (s'.nodeD m).kind = (t3.nodeD m).kind ∧ (s'.nodeD m).value = (t3.nodeD m).value ∧
      (s'.nodeD m).valid = (t3.nodeD m).valid ∧ (s'.nodeD m).height = (t3.nodeD m).height ∧
      s'.isNecessary m = t3.isNecessary m := by
    intro m
    obtain ⟨hh, e⟩ := E.node m
    refine ⟨by rw [e], by rw [e], by rw [e], by rw [e], ?_⟩
    simp only [State.isNecessary, Node.isNecessary, e]
  have hnec : ∀ m, s'.isNecessary m = t2.isNecessary m := fun m => by
    rw [(hnodeS m).2.2.2.2, R.dr.frame.nec]
  have hkind2 : ∀ m, (t2.nodeD m).kind = (s.nodeD m).kind := fun m => by rw [F.kind, hnd0]
  -- observers
  have hmap3 : ObsMap stabilisedState s t3 := by
    refine ⟨by rw [k_obs, O2.1, O1.1, hs0], fun o ob ho => ?_⟩
    have ho0 : s0.observers[o]? = some ob := by rw [hs0]; exact ho
    obtain ⟨ob1, h1o, h1n, h1s⟩ := O1.2 o ob ho0
    obtain ⟨ob2, h2o, h2n, h2s⟩ := O2.2 o ob1 h1o
    exact ⟨ob2, by rw [k_obs]; exact h2o, by rw [h2n, h1n], by rw [h2s, h1s, stabilisedState_eq]⟩
  have hrec : ∀ (o : Nat) (ob : ObsRec), t3.observers[o]? = some ob →
      ∃ ob', s'.observers[o]? = some ob' ∧ ob'.node = ob.node ∧ ob'.state = ob.state := by
    intro o ob ho
    refine ⟨_, E.obs o ob ho, ?_, ?_⟩ <;> split <;> rfl
  have hmid : MidStateW env s t3 s' := by
    refine ⟨E, ?_, fun o => by rw [SubsH.hOf_congr k_obs, K2, K1, SubsH.hOf_congr hobs0], O3, hmap3, H3, hst3,
      by rw [hu3.nextToken, T2, T1, hs0], hval3,
      fun n hn => by rw [← value_noEff]; exact D3.graph.value_plain hn, fun m => ?_, fun n hc hnum => ?_⟩
    · obtain ⟨p1, e1, q1⟩ := L1
      obtain ⟨p2, e2, q2⟩ := L2
      obtain ⟨p3, e3, q3⟩ := hu3.log
      refine ⟨p3 ++ (p2 ++ p1), by rw [e3, e2, e1, hlog0]; simp only [List.append_assoc], fun e he => ?_⟩
      rcases List.mem_append.1 he with h | h
      · exact q3 e h
      · rcases List.mem_append.1 h with h | h
        · exact q2 e h
        · exact q1 e h
    · have := vc3 m
      rw [hst2, F.value, hnd0, F.changedAt, hnd0] at this
      exact this
    · refine hu3.changed S2.hinv.has n ?_ (by rw [← hu3.num]; exact hnum)
      have := (st2 n).2
      rw [hc]; omega
  refine ⟨t2, t3, ⟨⟨⟨E.q, H'⟩, hcells⟩, DI2, hv2, hst2, hkind2, hnec, h3, R, he3, hu3, hmid,
    ?_, hvsz, ?_, ?_, ?_, ?_, ?_, ?_, ?_, hcalled⟩⟩
  · rw [hW]; exact hcell
  · rw [E.newObservers]; exact hno3
  · rw [E.disallowedObservers]; exact hdo3
  · rw [E.stabNum, hst3]
  · rw [E.size, R.dr.frame.size, F.size, hsz0]
  · intro m; rw [(hnodeS m).1, (R.dr.frame.shape m).kind, hkind2]
  · refine ⟨by rw [E.obsSize]; exact hmap3.1, fun o ob ho => ?_⟩
    obtain ⟨ob3, h3o, h3n, h3s⟩ := hmap3.2 o ob ho
    obtain ⟨ob', h1, h2, h3⟩ := hrec o ob3 h3o
    exact ⟨ob', h1, by rw [h2, h3n], by rw [h3, h3s]⟩
  · intro n hn k hk
    obtain ⟨e1, e2, e3, e4, e5⟩ := hnodeS n
    have hn3 : t3.isNecessary n = true := by rw [← e5]; exact hn
    obtain ⟨v1, -, v3, -, v5⟩ := drained_values D3 he3 n hn3 k (by rw [← e4]; exact hk)
    have hev : eval env { s' with vars := s.vars } k n = eval (noEff env) t3 k n := by
      rw [R.dr.frame.eval, ← eval_noEff]
      exact eval_congr (s := t2) (s' := { s' with vars := s.vars })
        (fun m => by
          show (s'.nodeD m).kind = _
          rw [(hnodeS m).1, (R.dr.frame.shape m).kind]) hv2.symm k n
    have hval : (s'.nodeD n).value = eval env { s' with vars := s.vars } k n := by rw [e2, hev]; exact v3
    refine ⟨by rw [e3]; exact v1, hval, ?_, by rw [hev]; exact v5⟩
    rw [← value_noEff, (SubsH.QInv.quiet E.q).graph.value_plain hn]; exact hval

end IncrVerif.Proofs.EffH
