import IncrVerif.Proofs.Life4
/-!
# Observer lifecycle over whole histories, part 5: `stabilise_spec`, the queue invariants `ObsWF`
-/
namespace IncrVerif.Proofs.Life
open IncrVerif.Engine IncrVerif.Proofs.Obs

/-- the lifecycle state of observer `o` after the two observer phases of a stabilisation that starts
in state `s`, as a function of its state `st` before -/
def phase2 (s : State) (o : Nat) (st : ObsState) : ObsState :=
  if o ∈ s.disallowedObservers then .unlinked
  else if o ∈ s.newObservers ∧ st = .created then .inUse
  else st

macro "ends" : tactic =>
  `(tactic| repeat (first | (apply Ends.bind; intro _) | split | dsimp only))

theorem stabiliseEnd_status (env : Env) (fuel : Nat) :
    Ends (fun s => s.status = .notStabilising) (stabiliseEnd env fuel) := by
  unfold stabiliseEnd
  ends
  all_goals exact Ends.modify fun _ => rfl

theorem run_assertM (c : Bool) (site : String) (s : State) :
    (assertM c site).run.run s = if c = true then (.ok (), s) else (.error (.site site), s) := by
  unfold assertM; split <;> rfl

/-- the state between the observer phases and the recomputation, for a `stabilise` that returns -/
theorem stabilise_phases (env : Env) (fuel : Nat) (s s' : State)
    (hrun : (stabilise env fuel).run.run s = (.ok (), s')) :
    s.status = .notStabilising ∧ s'.status = .notStabilising ∧
    ∃ s2 : State, s2.observers.size = s.observers.size ∧ s2.newObservers = [] ∧
      s2.disallowedObservers = [] ∧ Dis s2 s' ∧
      ∀ (o : Nat) (ob : ObsRec), s.observers[o]? = some ob →
        ∃ ob2 : ObsRec, s2.observers[o]? = some ob2 ∧ ob2.node = ob.node ∧ ob2.clones = ob.clones ∧
          ob2.handlers = ob.handlers ∧ ob2.state = phase2 s o ob.state := by
  unfold stabilise at hrun
  rw [run_bind, run_get] at hrun
  simp only [] at hrun
  have hst : s.status = .notStabilising := by
    cases hs : s.status with
    | notStabilising => rfl
    | stabilising => rw [run_bind, run_assertM, hs] at hrun; simp at hrun; cases hrun
    | runningOnUpdateHandlers => rw [run_bind, run_assertM, hs] at hrun; simp at hrun; cases hrun
  have hb : (s.status == Status.notStabilising) = true := by rw [hst]; rfl
  rw [run_bind, run_assertM, hb] at hrun
  simp only [if_true, run_bind, run_modify] at hrun
  -- phase 1
  rcases h1 : (addNewObservers env fuel).run.run { s with status := .stabilising } with ⟨r1, s1⟩
  rw [h1] at hrun
  cases r1 with
  | error e => cases hrun
  | ok u1 =>
  simp only [] at hrun
  obtain ⟨m1, p1⟩ := addNewObservers_spec env fuel _ _ _ h1
  -- phase 2
  rcases h2 : (unlinkDisallowedObservers fuel).run.run s1 with ⟨r2, s2⟩
  rw [h2] at hrun
  cases r2 with
  | error e => cases hrun
  | ok u2 =>
  simp only [] at hrun
  obtain ⟨m2, p2⟩ := unlinkDisallowedObservers_spec fuel _ _ _ h2
  -- recomputation and handlers
  rcases h3 : (drainHeap env fuel).run.run s2 with ⟨r3, s3⟩
  rw [h3] at hrun
  cases r3 with
  | error e => cases hrun
  | ok u3 =>
  simp only [] at hrun
  have d3 : Dis s2 s3 := (PresD.drainHeap env fuel).h _ _ _ h3
  have d4 := (PresD.stabiliseEnd env fuel).h _ _ _ hrun
  have hend := stabiliseEnd_status env fuel _ _ _ hrun
  have hdis1 : s1.disallowedObservers = s.disallowedObservers := m1.dis
  have hnew1 : s1.newObservers = [] := m1.newObs
  refine ⟨hst, hend, s2, ?_, ?_, ?_, Dis.trans d3 d4, ?_⟩
  · rw [m2.size]; exact m1.size
  · rw [m2.newObs]; exact hnew1
  · exact m2.dis
  · intro o ob e
    obtain ⟨ob1, e1, n1, c1, hd1, mv1⟩ := m1.obs o ob e
    obtain ⟨ob2, e2, n2, c2, hd2, mv2⟩ := m2.obs o ob1 e1
    refine ⟨ob2, e2, n2.trans n1, c2.trans c1, hd2.trans hd1, ?_⟩
    -- the state after phase 1
    have st1 : ob1.state = if o ∈ s.newObservers ∧ ob.state = .created then .inUse else ob.state := by
      rcases mv1 with mv1 | ⟨hl, hf, ht⟩
      · split
        · rename_i hc
          have := p1 rfl o hc.1
          simp only [stOf, e1, Option.map_some, ne_eq, Option.some.injEq] at this
          rw [mv1] at this
          exact absurd hc.2 this
        · exact mv1
      · rw [if_pos ⟨hl, hf⟩]; exact ht
    unfold phase2
    by_cases hds : o ∈ s.disallowedObservers
    · rw [if_pos hds]
      have := p2 rfl o (by rw [hdis1]; exact hds)
      simpa [stOf, e2] using this
    · rw [if_neg hds]
      rcases mv2 with mv2 | ⟨hl, _, _⟩
      · rw [mv2, st1]
      · rw [hdis1] at hl; exact absurd hl hds

/-- O3: what a `stabilise` that returns does to the observers.  It was called with status
`notStabilising` and ends with it; no observer is added or removed; each observer keeps its node and
clone count; its state is `phase2` of its old state (in `newObservers` and created ↦ in use, in
`disallowedObservers` ↦ unlinked) or — if an effect run during this stabilisation called
`disallow_future_use` on it — `afterDisallow` of that; `newObservers` is empty; `disallowedObservers`
lists, once each, exactly the observers that went in use ↦ disallowed during this stabilisation. -/
theorem stabilise_spec (env : Env) (fuel : Nat) (s s' : State)
    (hrun : (stabilise env fuel).run.run s = (.ok (), s')) :
    s.status = .notStabilising ∧ s'.status = .notStabilising ∧
    s'.observers.size = s.observers.size ∧ s'.newObservers = [] ∧
    (∀ (o : Nat) (ob : ObsRec), s.observers[o]? = some ob →
      ∃ ob' : ObsRec, s'.observers[o]? = some ob' ∧ ob'.node = ob.node ∧ ob'.clones = ob.clones ∧
        (ob'.state = phase2 s o ob.state ∨ ob'.state = afterDisallow (phase2 s o ob.state))) ∧
    s'.disallowedObservers.Nodup ∧
    (∀ o : Nat, o ∈ s'.disallowedObservers ↔
      ∃ ob ob' : ObsRec, s.observers[o]? = some ob ∧ s'.observers[o]? = some ob' ∧
        phase2 s o ob.state = .inUse ∧ ob'.state = .disallowed) := by
  obtain ⟨h0, h1, s2, hsz, hnew, hdis, d, hobs⟩ := stabilise_phases env fuel s s' hrun
  obtain ⟨extra, hex, hnd, hmem⟩ := d.dis
  rw [hdis, List.nil_append] at hex
  refine ⟨h0, h1, d.size.trans hsz, d.newObs.trans hnew, ?_, by rw [hex]; exact hnd, ?_⟩
  · intro o ob e
    obtain ⟨ob2, e2, n2, c2, _, st2⟩ := hobs o ob e
    obtain ⟨ob', e', r⟩ := d.obs o ob2 e2
    refine ⟨ob', e', r.node.trans n2, r.clones.trans c2, ?_⟩
    rw [← st2]; exact r.state
  · intro o
    rw [hex, hmem]
    constructor
    · rintro ⟨ob2, ob', e2, e', u, dd⟩
      have hlt : o < s.observers.size := by
        rw [← hsz]; exact (Array.getElem?_eq_some_iff.1 e2).1
      have e : s.observers[o]? = some s.observers[o] := Array.getElem?_eq_getElem hlt
      obtain ⟨ob2', e2', _, _, _, st2⟩ := hobs o _ e
      rw [e2] at e2'; cases e2'
      exact ⟨_, ob', e, e', by rw [← st2]; exact u, dd⟩
    · rintro ⟨ob, ob', e, e', u, dd⟩
      obtain ⟨ob2, e2, _, _, _, st2⟩ := hobs o ob e
      exact ⟨ob2, ob', e2, e', by rw [st2]; exact u, dd⟩

end IncrVerif.Proofs.Life
