import IncrVerif.Proofs.FullH47
import IncrVerif.Proofs.OnceF2
/-!
# C02, combined fragment, part 3: AT MOST ONCE per `stabilise`

`stabilise_onceF`: from the invariant between API actions `FullH.QInvF` a successful `stabilise` is its phases (`t1`, `t2`, `t3` tied to the run by the four phase
equations); the drain starts in `t2` with the drain invariant `DInvF`, no node carries the stamp of this round there, and `OnceF.RunF` holds for the drain
(`drain_onceF`).  The proof is the prefix of `FullH.stabilise_full` (observer prefix simulated by the virtual engine, ghost invariants through the two phases) with
`drain_onceF` in place of `drainHeap_full`.  `stabilise_once_actual`: the same in terms of the ACTUAL states only.
-/
namespace IncrVerif.Proofs.OnceF
open IncrVerif.Engine IncrVerif.Driver IncrVerif.Proofs IncrVerif.Proofs.Step IncrVerif.Proofs.Sched IncrVerif.Proofs.Quiet
open IncrVerif.Proofs.FullH IncrVerif.Proofs.TidyH
open IncrVerif.Proofs.BindH (DInv BGraph StepRelB FrameB TargetB ConsistentB DKey NKey RanOnceB)
open IncrVerif.Proofs.NestH (AuxS2 Aux2 GenOK2 F2Inv StepL2 LcStepsOK2 QG2 QI2 QInv2 SInv2 den2)

section
variable {env : Env} {sp : Nat → Val → Val}

set_option maxHeartbeats 1000000 in
/-- **the drain of a `stabilise` of the combined fragment** -/
theorem stabilise_onceF (X : Kit env sp) {fuel : Nat} {s s' : State} {g : Nat → Option Val} (Q : QInvF env sp s g)
    (h : (stabilise env fuel).run.run s = (.ok (), s')) :
    ∃ t1 t2 t3 g2 g3,
      (addNewObservers env fuel).run.run { s with status := .stabilising } = (.ok (), t1) ∧
      (unlinkDisallowedObservers fuel).run.run t1 = (.ok (), t2) ∧
      (drainHeap env fuel).run.run t2 = (.ok (), t3) ∧ (stabiliseEnd env fuel).run.run t3 = (.ok (), s') ∧
      t2.stabNum = s.stabNum ∧ DInvF env sp (virt g2 t2) t2 g2 none ∧
      RunF env sp (virt g2 t2) (drainSteps env fuel t2) t2 g2 t3 g3 ∧ t3.rch.length = 0 ∧
      (∀ m, (t2.nodeD m).recomputedAt < s.stabNum) ∧
      (∀ m, ∃ b, s'.nodeD m = { t3.nodeD m with inHandleAfterStab := b }) := by
  obtain ⟨⟨rk, Qv⟩, Gv⟩ := Q.q
  have hst := h
  unfold stabilise at h
  rw [run_bind_get] at h
  obtain ⟨_, sa, ha, h⟩ := bind_ok_inv h
  have hsa : sa = s := by
    rw [run_assertM] at ha
    split at ha <;> cases ha
    rfl
  rw [hsa] at h
  obtain ⟨s0, hs0, h⟩ := bind_modify_inv h
  obtain ⟨_, t1, h1, h⟩ := bind_ok_inv h
  obtain ⟨_, t2, h2, h⟩ := bind_ok_inv h
  obtain ⟨_, t3, h3, h4⟩ := bind_ok_inv h
  have hn0 : s0.nodes = s.nodes := by rw [hs0]
  have hnd0 : ∀ m, s0.nodeD m = s.nodeD m := fun m => by simp [State.nodeD, hn0]
  have e0 : virt g s0 = { virt g s with status := .stabilising } := by rw [hs0]; rfl
  -- the virtual state with the status set
  have S0 : SInv2 (VE env sp) rk (virt g s0) (virt g s0).newObservers (virt g s0).disallowedObservers := by
    have I0 := SInv2.of_qinv2 Qv
    rw [e0]
    exact NestH.N4p.sInv2_congr I0 rfl rfl rfl rfl rfl rfl rfl rfl
  have Fr0 : Fr (FK env sp) g s0 := Q.frag.fr.of_nodes hn0
  have hp0 : s0.propagateInvalidity = [] := by
    have := Qv.f2.pinv; rw [hs0]; exact this
  -- phase 1: add_new_observers (same ghost: nothing to propagate)
  obtain ⟨g1, h1v, Fr1, R1⟩ := SimX.addNewObservers (K := FK env sp) (sp := sp) env fuel g s0 Fr0 () t1 h1
  have vm1 := R1.vm
  obtain ⟨S1, hn1, hd1, F1, O1, -⟩ := NestH.addNewObservers_s2 S0 h1v
  have M1 := NestH.addNewObservers_marks2 S0 h1v
  -- phase 2: unlink_disallowed_observers
  obtain ⟨h2v, Fr2, vm2⟩ := Sim.unlinkDisallowedObservers (K := FK env sp) (g := g1) fuel t1 Fr1 () t2 h2
  obtain ⟨S2, hn2, hd2, F2, O2⟩ := NestH.unlinkDisallowedObservers_s2 S1 hn1 h2v
  have M2 := NestH.unlinkDisallowedObservers_marks2 S1 hn1 h2v
  have F : BindH.C2s.PreF (virt g s) (virt g1 t2) := BindH.C2s.PreF.of e0 (F1.trans F2) (fun m => (M2 m).trans (M1 m))
  obtain ⟨D2, A2⟩ := NestH.N4s.drain_start2 Qv F S2
  have G2 : GenOK2 (VE env sp) (virt g1 t2) :=
    NestH.N5g.genOK2_frame Gv Qv.f2.frag F.binds F.top F.kind F.valid F.recomputedAt F.changedAt F.value
  have X2 : AuxS2 (VE env sp) (virt g1 t2) (virt g1 t2) := ⟨⟨rk, A2⟩, DKey.refl _, NKey.refl _⟩
  -- the ghost invariants through the two phases
  have F0 : FFrag env sp g s0 := ⟨Fr0, by
    intro n nd p i hn hk; exact Q.frag.back n nd p i (by rw [← hn0]; exact hn) hk, by rw [hs0]; exact Q.frag.pc⟩
  have C0 : CFrag env sp g rk (s0) := by
    refine cfrag_of_ginv2 F0 S0.struct (fun _ => rfl) (fun m => ?_)
    have := S0.noForce m
    rw [virt_nodeD, virtNode_forceNecessary] at this; exact this
  have K0' : KInv env g s0 :=
    Q.k.congr (fun m => by rw [hnd0]) (fun m => by simp [State.isNecessary, hnd0]) (fun m => by rw [hnd0])
      (fun m hd => by rw [← hnd0]; exact hd)
      (fun m p i _ _ _ _ => value_congr env s s0 (by rw [hn0]) (fun k => by simp only [valueCore, hnd0]) m)
  have T0 : Inherit env g s0 := inherit_of_cons F0 (fun m hm hv hst => by
    have := Qv.cons m (by rw [virt_size, ← hn0]; exact hm) (by rw [virt_nodeD, virtNode_valid, ← hnd0]; exact hv)
      (by rw [virt_isStale]; rw [hs0] at hst; exact hst)
    rw [e0]; exact this)
  have Mi0 : MInv env s0 := fun n m i hv hk => by
    rw [hnd0] at hv hk ⊢; exact Q.m n m i hv hk
  have Gs0 : GSome g s0 := fun m p i hv hk hd => by
    rw [hnd0] at hv hk hd; exact Q.gs m p i hv hk hd
  obtain ⟨K1g, hp1, -, -⟩ := addNewObservers_keepsK C0 T0 hp0 K0' h1
  have K1 : KInv env g1 t1 := K1g.of_ghost (fun m hv => R1.valid_eq hv)
  have Mi1 := addNewObservers_mInv C0 T0 hp0 K0' Mi0 h1
  have Gs1 : GSome g1 t1 := Gs0.of_gr R1
  obtain ⟨K2, -⟩ := unlinkDisallowedObservers_keepsK K1 h2
  have Mi2 := unlinkDisallowedObservers_mInv Mi1 h2
  have Gs2 := unlinkDisallowedObservers_gSome Gs1 h2
  have Dp0 : DepInv g s0 := fun x a b w hv hk hc hca hw => by
    rw [hnd0] at hv hk hc hw
    rw [hnd0, hnd0] at hca
    have : tv g s0 a = tv g s a := by simp only [tv, virt_nodeD, hnd0]
    rw [this]; exact Q.dep x a b w hv hk hc hca hw
  have Dp1g := addNewObservers_depInv C0 T0 hp0 K0' Dp0 h1
  have hkv1 : ∀ x c, (t1.nodeD x).valid = true → c ∈ t1.children x → (t1.nodeD c).valid = true := by
    intro x c hxv hc
    have hx : x < t1.nodes.size := by
      by_cases hx : x < t1.nodes.size
      · exact hx
      · rw [BindH.children_default t1 x (by omega)] at hc; cases hc
    have := (S1.struct.frag.node x (by rw [virt_size]; exact hx)).kidsValid c (by rw [virt_children]; exact hc)
    rw [virt_nodeD, virtNode_valid] at this; exact this
  have Dp1 : DepInv g1 t1 := Dp1g.of_ghost (fun m hv => R1.valid_eq hv) hkv1
  have Dp2 := unlinkDisallowedObservers_depInv Dp1 h2
  have C2 : CRl t2 := by
    intro m _ _ _ hcm
    exfalso
    have h1' := F.changedAt m
    have h2' := F.stabNum
    have h3' := (Qv.stamps m).2
    rw [virt_nodeD, virt_nodeD, virtNode_changedAt, virtNode_changedAt] at h1'
    rw [virt_nodeD, virtNode_changedAt] at h3'
    have e1 : (virt g1 t2).stabNum = t2.stabNum := rfl
    have e2 : (virt g s).stabNum = s.stabNum := rfl
    rw [e1, e2] at h2'
    rw [e2] at h3'
    omega
  have Fg2 : FFrag env sp g1 t2 :=
    ⟨Fr2, mapRefsBack_of_vm (mapRefsBack_of_vm F0.back vm1) vm2, D2.graph.pc⟩
  have DF2 : DInvF env sp (virt g1 t2) t2 g1 none := ⟨Fg2, D2, X2, G2, K2, Mi2, Gs2, Dp2, C2⟩
  -- the drain
  obtain ⟨g3, R3, he3⟩ := drain_onceF X fuel (virt g1 t2) t2 t3 g1 DF2 h3
  have DF3 := R3.inv
  have f3 := R3.fr
  obtain ⟨⟨rk3, A3⟩, K3, N3⟩ := DF3.aux
  have D3 := DF3.inv
  obtain ⟨V3, O3, T3⟩ := NestH.N4s.after_drain2 A3 K3 N3 f3.vars (F.varsOK Qv.vars) S2.obs S2.obsTop
  -- the end
  have hsd : t3.setDuringStab = [] := by
    have := K3.setDuringStab; have h2' := F.setDuringStab; have h3' := Qv.setDuringStab
    exact this.trans (h2'.trans h3')
  have hdv : t3.deadVars = [] := by
    have := K3.deadVars; have h2' := F.deadVars; have h3' := Qv.deadVars
    exact this.trans (h2'.trans h3')
  have hoh : ∀ (o : Nat) (ob : ObsRec), t3.observers[o]? = some ob → ob.handlers = [] :=
    fun o ob ho => (O3.inRange o ob ho).2
  have E := stabiliseEnd_fin (env := env) (fuel := fuel) hsd hdv hoh h4
  have hnE : ∀ m, ∃ b, s'.nodeD m = { t3.nodeD m with inHandleAfterStab := b } := E.node
  have hs2 : t2.stabNum = s.stabNum := F.stabNum
  have h1' : (addNewObservers env fuel).run.run { s with status := .stabilising } = (.ok (), t1) := by
    rw [hs0] at h1; exact h1
  refine ⟨t1, t2, t3, g1, g3, h1', h2, h3, h4, hs2, DF2, R3, he3, ?_, hnE⟩
  intro m
  have k1 := F.recomputedAt m
  have k3 := (Qv.stamps m).1
  rw [virt_nodeD, virt_nodeD, virtNode_recomputedAt, virtNode_recomputedAt] at k1
  rw [virt_nodeD, virtNode_recomputedAt] at k3
  have e2 : (virt g s).stabNum = s.stabNum := rfl
  rw [e2] at k3
  rw [k1]; exact k3

/-- **AT MOST ONCE PER `stabilise`, combined fragment, in terms of the actual states.**  `t2` is the state in which the drain of this `stabilise` starts.  The nodes handed
to `recomputeOne` (`drainTrace`) are pairwise distinct; each had not run in this round, carries the stamp of this round in the final state and is still VALID there; at the
moment it runs (`drainSteps`: the trace with the states) it is necessary, valid, not queued and not yet stamped, and the round number is the one of the start. -/
theorem stabilise_once_actual (X : Kit env sp) {fuel : Nat} {s s' : State} {g : Nat → Option Val} (Q : QInvF env sp s g)
    (h : (stabilise env fuel).run.run s = (.ok (), s')) :
    ∃ t1 t2 t3,
      (addNewObservers env fuel).run.run { s with status := .stabilising } = (.ok (), t1) ∧
      (unlinkDisallowedObservers fuel).run.run t1 = (.ok (), t2) ∧
      (drainHeap env fuel).run.run t2 = (.ok (), t3) ∧ (stabiliseEnd env fuel).run.run t3 = (.ok (), s') ∧
      (drainTrace env fuel t2).Nodup ∧
      (∀ m, m ∈ drainTrace env fuel t2 →
        (t2.nodeD m).recomputedAt < s.stabNum ∧ (s'.nodeD m).recomputedAt = s.stabNum ∧ (s'.nodeD m).valid = true) ∧
      (drainSteps env fuel t2).map (·.1) = drainTrace env fuel t2 ∧
      (∀ p, p ∈ drainSteps env fuel t2 →
        p.2.isNecessary p.1 = true ∧ (p.2.nodeD p.1).valid = true ∧ (p.2.nodeD p.1).inRch = false ∧
          (p.2.nodeD p.1).recomputedAt < s.stabNum ∧ p.2.stabNum = s.stabNum) ∧
      (∀ m, (t2.nodeD m).recomputedAt < s.stabNum) := by
  obtain ⟨t1, t2, t3, g2, g3, h1, h2, h3, h4, hs2, -, R, -, hlt, hE⟩ := stabilise_onceF X Q h
  have hfst := drainSteps_fst env fuel t2
  refine ⟨t1, t2, t3, h1, h2, h3, h4, ?_, ?_, hfst, ?_, hlt⟩
  · rw [← hfst]; exact R.nodup
  · intro m hm
    rw [← hfst] at hm
    obtain ⟨-, a2, a3⟩ := R.once m hm
    obtain ⟨b, hb⟩ := hE m
    rw [virt_nodeD, virtNode_recomputedAt] at a2
    rw [virt_nodeD, virtNode_valid] at a3
    have e2 : (virt g2 t2).stabNum = s.stabNum := hs2
    rw [e2] at a2
    refine ⟨hlt m, ?_, ?_⟩
    · rw [hb]; exact a2
    · rw [hb]; exact a3
  · intro p hp
    obtain ⟨gp, Dp, fp⟩ := R.steps p hp
    obtain ⟨c1, -, c3, c4, c5⟩ := Dp.inv.cur_facts
    rw [virt_isNecessary] at c1
    rw [virt_nodeD, virtNode_valid] at c3
    rw [virt_nodeD, virtNode_inRch] at c4
    rw [virt_nodeD, virtNode_recomputedAt] at c5
    have e1 : p.2.stabNum = t2.stabNum := fp.stabNum
    have e3 : (virt gp p.2).stabNum = p.2.stabNum := rfl
    rw [e3, e1, hs2] at c5
    exact ⟨c1, c3, c4, c5, e1.trans hs2⟩

end
end IncrVerif.Proofs.OnceF
