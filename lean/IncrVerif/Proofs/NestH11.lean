import IncrVerif.Proofs.NestH10
/-!
# Nested binds (F2), linking cascade, part 4: `becameNecessary` step, the mutual induction, the headline theorems

Port of `BindH52` (`CL4`) to `GInv2`.  The node that becomes necessary may be a node of a scope `b` whose kind is
`bindLhsChange b2` / `bindMain b2 lc2` (an inner bind): its first height is `height lc_b + 1` where `lc_b` is necessary,
closed (lower rank than every open node) and keeps its height; when an inner change detector becomes necessary its scope is
quiet (`GInv2.scopeQuiet_of`), exactly as for top-level change detectors.
-/
namespace IncrVerif.Proofs.NestH
open IncrVerif.Engine IncrVerif.Proofs IncrVerif.Proofs.Step IncrVerif.Proofs.Sched IncrVerif.Proofs.Quiet
open IncrVerif.Proofs.BindH

namespace NL
open BL CL

theorem bn_step2 (env : Env) (fuel : Nat) (ih : APSpec2 env fuel) : BNSpec2 env (fuel + 1) := by
  intro rk n s s' op ex dy h I hop hnq hlow hpar hnu hF hlc
  have hopn : op n ≠ .closed := by rw [hop]; exact fun e => by cases e
  have hn : n < s.nodes.size := I.opLt n hopn
  have sn := GInv2.node I hn
  have hnv : (s.nodeD n).valid = true := GInv2.valid_of_open I hopn
  have hnn : s.isNecessary n = true := I.lnec n 0 hop
  have hsq : ScopeQuiet s n := GInv2.scopeQuiet_of I hnu hF hopn hlc
  unfold becameNecessary at h
  obtain ⟨nd, hnd, h⟩ := bind_getNode_inv h
  have hndD : s.nodeD n = nd := nodeD_of_some hnd
  subst hndD
  -- the scope is necessary (else a panic)
  obtain ⟨x, s00, hx, h⟩ := bind_ok_inv h
  have e00 := scopeIsNecessary_ok_inv hx
  rw [e00] at h
  have hxt : x = true := by
    cases x with
    | true => rfl
    | false =>
      simp only [hnv, Bool.not_false, Bool.and_true, if_true] at h
      rw [run_bind, run_panic] at h
      cases h
  rw [hxt] at h
  simp only [Bool.not_true, Bool.and_false, Bool.false_eq_true, if_false] at h
  obtain ⟨s0, hs0, h⟩ := bind_modify_inv h
  obtain ⟨_, s1, h1, h⟩ := bind_ok_inv h
  obtain ⟨h0, s11, hsh, h⟩ := bind_ok_inv h
  obtain ⟨e11, hsh⟩ := scopeHeight_ok_inv hsh
  rw [e11] at h
  obtain ⟨_, s2, h2, h⟩ := bind_ok_inv h
  obtain ⟨nd2, hnd2, h⟩ := bind_getNode_inv h
  rw [run_bind_get] at h
  -- the prefix: counters, handler bookkeeping, first height
  have R0 : Irrel n s s0 := by rw [hs0]; exact Irrel.of_nodes rfl rfl rfl rfl rfl
  have R1 : Irrel n s s1 := R0.trans (Irrel.mhas h1)
  have O1 : Only n s s1 := by
    refine Only.trans ?_ (Only.mhas h1)
    rw [hs0]; exact Only.of_nodes n rfl
  have hB1 : SameB s s1 := ⟨R1.same, CFrame.binds (R1.rel (fun _ => False)).fr⟩
  have E1 : KeyEq s s1 := KeyEq.of_same hB1
  have I1 : GInv2 env rk s1 op ex dy := GInv2.congr I hB1
  have hn1 : n < s1.nodes.size := by rw [R1.same.size]; exact hn
  have hnq1 : (s1.nodeD n).inRch = false := by rw [R1.same.inRch]; exact hnq
  have hpar1 : ∀ p i, (p, i) ∈ (s1.nodeD n).parents → op p ≠ .closed := by
    intro p i hp; rw [(R1.same.node n).parents] at hp; exact hpar p i hp
  have hsq1 : ScopeQuiet s1 n := scopeQuiet_transport2 I.frag hsq E1 (only_aboveR2 O1)
  -- the initial height
  have hh0 : 0 ≤ h0 ∧ ∀ (b : Nat) (br : BindRec), (s.nodeD n).createdIn = .bind b → s.binds[b]? = some br →
      (s1.nodeD br.lhsChange).height = h0 ∧ s1.isNecessary br.lhsChange = true ∧ br.lhsChange ≠ n := by
    cases hcr : (s.nodeD n).createdIn with
    | top =>
      rw [hcr] at hsh
      have : h0 = 0 := by
        simp only [scopeHeightOf] at hsh
        injection hsh with hsh
        exact hsh.symm
      refine ⟨by omega, ?_⟩
      intro b br hc; cases hc
    | bind b =>
      rw [hcr] at hsh
      obtain ⟨-, br, hb, -, -⟩ := sn.inScope b hcr
      obtain ⟨r1, r2, -, -, -⟩ := I.frag.recs b br hb
      have hlc1 : br.lhsChange < s1.nodes.size := by rw [R1.same.size]; omega
      have hbb : s1.binds[b]? = some br := by rw [hB1.binds]; exact hb
      simp only [scopeHeightOf, hbb, some_of_lt hlc1] at hsh
      injection hsh with hsh
      have hrk := (I.frag.scope_rk hn hcr hb).1
      have hlne : br.lhsChange ≠ n := fun e => by rw [e] at hrk; exact Nat.lt_irrefl _ hrk
      have hlnec : s.isNecessary br.lhsChange = true := GInv2.scope_lc_nec I hnu hF hcr hb hnn
      have hlcl : op br.lhsChange = .closed := by
        cases e : op br.lhsChange with
        | closed => rfl
        | linking k => have := hlow br.lhsChange (by rw [e]; exact fun e => by cases e); omega
        | unlinking k => have := hlow br.lhsChange (by rw [e]; exact fun e => by cases e); omega
      have hpos := I.hpos _ hlnec hlcl
      rw [← (R1.same.node br.lhsChange).height, hsh] at hpos
      refine ⟨hpos, ?_⟩
      intro b' br' hc hb'
      cases hc
      rw [hb] at hb'; cases hb'
      exact ⟨hsh, by rw [R1.same.nec]; exact hlnec, hlne⟩
  obtain ⟨hh00, hhsc⟩ := hh0
  obtain ⟨U2, -, hl2, hh2, hoth2⟩ := setHeight_ok_upd hn1 h2
  have O2 : Only n s1 s2 := hoth2
  have I2 : GInv2 env rk s2 op ex dy := GInv2.setHeight_open I1 U2 (CFrame.binds hl2.fr) hopn hpar1 hsq1
  have hn2 : n < s2.nodes.size := by rw [U2.size]; exact hn1
  have hnq2 : (s2.nodeD n).inRch = false := by rw [U2.inRch (keeps_fHeight _)]; exact hnq1
  have hnd2D : s2.nodeD n = nd2 := nodeD_of_some hnd2
  have hh0' : nd2.height = h0 + 1 := by rw [← hnd2D]; exact hh2
  have hL2 : LRel (· = n) s s2 := (R1.rel _).trans hl2
  have hA2 : AboveR2 rk s n s2 := only_aboveR2 (Only.trans O1 O2)
  obtain ⟨b, s3, h3, h⟩ := bind_ok_inv h
  -- the loop
  have hloop := forIn_ok_inv _ (s2.children n)
    (fun j (b : Int × Nat) t => b.2 = j ∧ GInv2 env rk t (upd op n (.linking j)) ex dy ∧
      (∀ m, rk n ≤ rk m → t.nodeD m = s2.nodeD m) ∧ LRel (fun _ => False) s2 t ∧ h0 + 1 ≤ b.1 ∧
      ∀ i c, i < j → (s2.children n)[i]? = some c → (t.nodeD c).height < b.1)
    (by
      intro j c b t r t' hj ⟨hb2, It, hsame, hrel, hb1, hlt⟩ hbody
      obtain ⟨_, t1, ha, hbody⟩ := bind_ok_inv hbody
      obtain ⟨x, hx, hbody⟩ := bind_getNode_inv hbody
      have hcht : t.children n = s2.children n := KeyEq2.children2 (KeyEq.of_cframe hrel.fr) I2.frag n
      have hkj : (t.children n)[b.2]? = some c := by
        rw [hcht, hb2]; exact hj
      have hcn : rk c < rk n := It.kid_rk hkj
      have hLt : LRel (· = n) s t := hL2.trans (hrel.mono (fun _ h => h.elim))
      obtain ⟨It1, hab, hl, hnecc⟩ := ih rk c b.2 n t t1 _ ex dy ha It (by rw [upd_self, hb2]) hkj
        (by
          intro m hm
          by_cases e : m = n
          · rw [e]; exact hcn
          · rw [upd_other _ _ _ e] at hm
            have := hlow m hm
            omega)
        (by
          intro m k
          by_cases e : m = n
          · rw [e, upd_self]; exact fun e => by cases e
          · rw [upd_other _ _ _ e]; exact hnu m k)
        (hF.lrel hLt (by
          intro m ho _
          have e : m ≠ n := fun e => by rw [e] at ho; exact hopn ho
          rw [upd_other _ _ _ e]; exact ho))
      rw [upd_upd, hb2] at It1
      have hxD : t1.nodeD c = x := nodeD_of_some hx
      have hstep : ∀ h' : Int, (b.1 ≤ h' ∧ x.height < h') →
          (b.2 = j → True) → (j + 1 = j + 1) ∧ GInv2 env rk t1 (upd op n (.linking (j + 1))) ex dy ∧
          (∀ m, rk n ≤ rk m → t1.nodeD m = s2.nodeD m) ∧ LRel (fun _ => False) s2 t1 ∧ h0 + 1 ≤ h' ∧
          ∀ i c', i < j + 1 → (s2.children n)[i]? = some c' → (t1.nodeD c').height < h' := by
        intro h' ⟨hle, hxl⟩ _
        refine ⟨rfl, It1, fun m hm => (hab m ?_).trans (hsame m hm), hrel.trans hl, by omega, ?_⟩
        · omega
        intro i c' hi hc'
        by_cases e : i = j
        · rw [e, hj] at hc'
          cases hc'
          rw [hxD]; exact hxl
        · have hij : i < j := by omega
          have hk' : (t.children n)[i]? = some c' := by
            rw [hcht]; exact hc'
          have hmem := It.conv n i c' hk' ((wants_linking (upd_self _ _ _)).2 hij)
          rw [hl.hgt c' (fun h => h) (nec_of_mem_parents hmem)]
          have := hlt i c' hij hc'
          omega
      split at hbody
      · rename_i hge
        obtain ⟨hr, ht'⟩ := pure_ok_inv hbody
        subst ht'
        refine ⟨_, hr, ?_⟩
        have := hstep (x.height + 1) ⟨by omega, by omega⟩ (fun _ => trivial)
        simpa [hb2] using this
      · rename_i hge
        obtain ⟨hr, ht'⟩ := pure_ok_inv hbody
        subst ht'
        refine ⟨_, hr, ?_⟩
        have := hstep b.1 ⟨by omega, by omega⟩ (fun _ => trivial)
        simpa [hb2] using this)
    (s2.children n) 0 (nd2.height, 0) s2 b s3 (by simp) (Nat.zero_le _)
    ⟨rfl, by rw [upd_eq_self _ _ _ hop]; exact I2, fun _ _ => rfl, LRel.refl _ _, by rw [hh0']; omega,
      fun i c hi _ => by omega⟩ h3
  obtain ⟨hb2, I3, hsame3, hrel3, hb1, hlt3⟩ := hloop
  -- the final height
  obtain ⟨_, s4, h4, h⟩ := bind_ok_inv h
  have hn3 : n < s3.nodes.size := by rw [hrel3.fr.size]; exact hn2
  have hnq3 : (s3.nodeD n).inRch = false := by rw [hsame3 n (Nat.le_refl _)]; exact hnq2
  have hL3 : LRel (· = n) s s3 := hL2.trans (hrel3.mono (fun _ h => h.elim))
  have hA3 : AboveR2 rk s n s3 :=
    AboveR2.trans hA2 (fun m hm => hsame3 m (Nat.le_of_lt hm))
  have hsq3 : ScopeQuiet s3 n := scopeQuiet_transport2 I.frag hsq (KeyEq.of_cframe hL3.fr) hA3
  obtain ⟨U4, -, hl4, hh4, hoth4⟩ := setHeight_ok_upd hn3 h4
  have O4 : Only n s3 s4 := hoth4
  have hpar3 : ∀ p i, (p, i) ∈ (s3.nodeD n).parents →
      upd op n (.linking (s2.children n).length) p ≠ .closed := by
    intro p i hp
    have hpn : p ≠ n := fun e => by
      have := GInv2.par_rk I3 hp
      rw [e] at this; exact Nat.lt_irrefl _ this
    rw [upd_other _ _ _ hpn]
    rw [hsame3 n (Nat.le_refl _), U2.self.parents] at hp
    exact hpar1 p i hp
  have I4 : GInv2 env rk s4 (upd op n (.linking (s2.children n).length)) ex dy :=
    GInv2.setHeight_open I3 U4 (CFrame.binds hl4.fr) (by rw [upd_self]; exact fun e => by cases e) hpar3 hsq3
  have hn4 : n < s4.nodes.size := by rw [U4.size]; exact hn3
  have hnq4 : (s4.nodeD n).inRch = false := by rw [U4.inRch (keeps_fHeight _)]; exact hnq3
  have hL4 : LRel (· = n) s s4 := hL3.trans hl4
  have hA4 : AboveR2 rk s n s4 := AboveR2.trans hA3 (only_aboveR2 O4)
  have hsq4 : ScopeQuiet s4 n := scopeQuiet_transport2 I.frag hsq (KeyEq.of_cframe hL4.fr) hA4
  have hch4 : s4.children n = s2.children n :=
    KeyEq2.children2 (KeyEq.of_cframe (hrel3.fr.trans hl4.fr)) I2.frag n
  have hhh : ∀ (i c : Nat), (s4.children n)[i]? = some c →
      (s4.nodeD c).height < (s4.nodeD n).height := by
    intro i c hc
    rw [hch4] at hc
    have hi : i < (s2.children n).length := by
      rcases Nat.lt_or_ge i (s2.children n).length with h | h
      · exact h
      · rw [List.getElem?_eq_none h] at hc; cases hc
    have hcn : c ≠ n := GInv2.kid_ne I2 hc
    rw [hh4, hoth4 c hcn]
    exact hlt3 i c hi hc
  have hklen : (s4.children n).length ≤ (s2.children n).length := by rw [hch4]; exact Nat.le_refl _
  have h04 : 0 ≤ (s4.nodeD n).height := by rw [hh4]; omega
  have hself4 : ∀ (b' : Nat) (br : BindRec), (s4.nodeD n).createdIn = .bind b' → s4.binds[b']? = some br →
      (s4.nodeD br.lhsChange).height < (s4.nodeD n).height := by
    intro b' br hc hb'
    rw [(KeyEq.of_cframe hL4.fr).createdIn] at hc
    rw [CFrame.binds hL4.fr] at hb'
    obtain ⟨e1, e2, e3⟩ := hhsc b' br hc hb'
    rw [hh4, hoth4 _ e3, hrel3.hgt _ (fun h => h) (by rw [U2.nec_other e3]; exact e2), hoth2 _ e3, e1]
    omega
  rw [run_bind_get] at h
  replace h := bind_dassert_inv h
  replace h := bind_dassert_inv h
  have hnv4 : (s4.nodeD n).valid = true := by rw [(KeyEq.of_cframe hL4.fr).valid]; exact hnv
  -- the tail: not an expert node
  have tail : ∀ (t t' : State), CFrame s4 t → t.nodes.size = s4.nodes.size →
      (do let x ← getNode n
          match x.kind? with
          | some (.expert e) => observabilityChange e true
          | _ => pure ()).run.run t = (.ok (), t') → t' = t := by
    intro t t' hf hsz ht
    obtain ⟨pn, hpn, ht⟩ := bind_getNode_inv ht
    have hpk : pn.kind? = some (s4.nodeD n).kind := by
      have e : t.nodeD n = pn := nodeD_of_some hpn
      have := hf.node n
      simp only [nodeKey, Prod.mk.injEq] at this
      rw [← e, Node.kind?, this.2.2.2.2.1, this.1, hnv4]; rfl
    rw [hpk] at ht
    have hsk := (GInv2.node I4 hn4).kind
    cases hkd : (s4.nodeD n).kind <;> rw [hkd] at ht hsk <;>
      first | exact (pure_ok_inv ht).2 | exact False.elim hsk
  cases hst : s4.isStale n with
  | false =>
    rw [hst] at h
    simp only [Bool.false_eq_true, if_false] at h
    have e := tail s4 s' (CFrame.refl _) rfl h
    subst e
    have I5 := GInv2.close_link_fresh I4 (upd_self _ _ _) hnq4 hklen hhh h04 hsq4 hself4 hst
    rw [upd_upd] at I5
    exact ⟨I5, hA4, hL4⟩
  | true =>
    rw [hst] at h
    simp only [if_true] at h
    obtain ⟨_, s5, h5, h⟩ := bind_ok_inv h
    obtain ⟨_, s6, h6, h⟩ := bind_ok_inv h
    have e5 : s5 = s4 := markMapRefUnknown_B hnv4 (GInv2.node I4 hn4).kind h5
    rw [e5] at h6
    obtain ⟨nd6, hnd6, -, hmax6, e6, -, hl6⟩ := rchInsert_rel h6
    have hnd6D : s4.nodeD n = nd6 := nodeD_of_some hnd6
    have e := tail s6 s' (hl6 (· = n)).fr (hl6 (· = n)).fr.size h
    rw [e]
    have I5 := GInv2.close_link_stale I4 (upd_self _ _ _) hnq4 hklen hhh h04 hsq4 hself4
      (by rw [hnd6D]; exact hmax6) hst
    rw [upd_upd, hnd6D, ← e6] at I5
    have O6 : Only n s4 s6 := by
      rw [e6]; intro m hm
      rw [inserted_nodeD, if_neg (fun e => hm e.1.symm)]
    exact ⟨I5, AboveR2.trans hA4 (only_aboveR2 O6), hL4.trans (hl6 _)⟩

theorem link_spec2 (env : Env) (fuel : Nat) : BNSpec2 env fuel ∧ APSpec2 env fuel := by
  induction fuel with
  | zero =>
    constructor
    · intro rk n s s' op ex dy h; unfold becameNecessary at h; cases h
    · intro rk c idx p s s' op ex dy h; unfold addParentWithoutAdjustingHeights at h; cases h
  | succ fuel ih => exact ⟨bn_step2 env fuel ih.2, ap_step2 env fuel ih.1⟩


end NL

open BL CL in
/-- **The linking cascade, fragment F2 (nested binds).** A successful `becameNecessary n` on a node that has just become
necessary (labelled `.linking 0`: none of its child edges is recorded yet), that is not queued, all of whose recorded parents
are open and which has the lowest RANK among the open nodes, closes `n`: the structural invariant holds with `n` closed; nodes
of higher rank than `n` are untouched; parent lists only grew; necessary nodes other than `n` kept their height.
`n` may be a node of a scope, and may itself be the change detector or the main node of an inner bind.
Extra hypotheses (as in F1): no node is unlinking; a forced node of a scope has its scope's change detector necessary and
closed; if `n` is the change detector of a bind, the bind's main node does not want the edge to its right-hand side. -/
theorem becameNecessary_spec2 {env : Env} {rk : Nat → Nat} {fuel n : Nat} {s s' : State} {op : Nat → Op} {ex : Nat → Prop}
    {dy : List Nat}
    (h : (becameNecessary env fuel n).run.run s = (.ok (), s')) (I : GInv2 env rk s op ex dy)
    (hop : op n = .linking 0) (hnq : (s.nodeD n).inRch = false)
    (hlow : ∀ m, op m ≠ .closed → rk n ≤ rk m)
    (hpar : ∀ p i, (p, i) ∈ (s.nodeD n).parents → op p ≠ .closed)
    (hnu : ∀ m k, op m ≠ .unlinking k)
    (hF : ∀ m b br, (s.nodeD m).forceNecessary = true → (s.nodeD m).createdIn = .bind b → s.binds[b]? = some br →
      s.isNecessary br.lhsChange = true ∧ op br.lhsChange = .closed)
    (hlc : ∀ (b : Nat) (br : BindRec), s.binds[b]? = some br → br.lhsChange = n → ¬ Wants s op br.main 1) :
    GInv2 env rk s' (upd op n .closed) ex dy ∧ AboveR2 rk s n s' ∧ LRel (· = n) s s' :=
  (NL.link_spec2 env fuel).1 rk n s s' op ex dy h I hop hnq hlow hpar hnu hF hlc

open BL CL in
/-- `add_parent_without_adjusting_heights child index parent`, fragment F2: `parent` is open (`.linking index`; it MAY be
queued), `child` is its `index`-th child, every open node has higher rank than `child`.  Afterwards the edge is recorded,
`child` is necessary and closed; nodes of higher rank than `child` are untouched; parent lists only grew; all nodes that
were necessary kept their height. -/
theorem addParentWithoutAdjustingHeights_spec2 {env : Env} {rk : Nat → Nat} {fuel c idx p : Nat} {s s' : State}
    {op : Nat → Op} {ex : Nat → Prop} {dy : List Nat}
    (h : (addParentWithoutAdjustingHeights env fuel c idx p).run.run s = (.ok (), s')) (I : GInv2 env rk s op ex dy)
    (hop : op p = .linking idx) (hk : (s.children p)[idx]? = some c)
    (hlow : ∀ m, op m ≠ .closed → rk c < rk m)
    (hnu : ∀ m k, op m ≠ .unlinking k)
    (hF : ∀ m b br, (s.nodeD m).forceNecessary = true → (s.nodeD m).createdIn = .bind b → s.binds[b]? = some br →
      s.isNecessary br.lhsChange = true ∧ op br.lhsChange = .closed) :
    GInv2 env rk s' (upd op p (.linking (idx + 1))) ex dy ∧ AboveR2 rk s c s' ∧ LRel (fun _ => False) s s' ∧
      s'.isNecessary c = true :=
  (NL.link_spec2 env fuel).2 rk c idx p s s' op ex dy h I hop hk hlow hnu hF

end IncrVerif.Proofs.NestH
