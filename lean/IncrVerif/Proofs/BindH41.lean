import IncrVerif.Proofs.BindH40
/-!
# Binds, the run of a change detector in fragment F0, part 6: `F0Inv` is kept; the headline theorem
-/
namespace IncrVerif.Proofs.BindH
open IncrVerif.Engine IncrVerif.Proofs IncrVerif.Proofs.Step IncrVerif.Proofs.Sched IncrVerif.Proofs.Quiet
namespace BC

namespace Mid
variable {env : Env} {n b rhs : Nat} {br : BindRec} {r : Option Nat} {s t s' : State}

/-- a record of the final bind table against the record of the same bind before the run -/
theorem bind_back (X : Mid env n b rhs br r s t s') {b' : Nat} {br' : BindRec} (h : s'.binds[b']? = some br') :
    ∃ br0, s.binds[b']? = some br0 ∧ br'.lhs = br0.lhs ∧ br'.body = br0.body ∧
      br'.lhsChange = br0.lhsChange ∧ br'.main = br0.main ∧
      br'.allNodesCreatedOnRhs = br0.allNodesCreatedOnRhs ∧
      (br'.rhs = br0.rhs ∨ (b' = b ∧ br0 = br ∧ br'.rhs = some rhs)) := by
  rw [X.step.binds] at h
  rcases X.rel.bind_cases X.hb b' with ⟨e, h1, h2⟩ | ⟨-, h1⟩
  · rw [h1] at h
    cases h
    exact ⟨br, h2, rfl, rfl, rfl, rfl, rfl, Or.inr ⟨e, rfl, rfl⟩⟩
  · rw [h1] at h
    exact ⟨br', h, rfl, rfl, rfl, rfl, rfl, Or.inl rfl⟩

theorem top (X : Mid env n b rhs br r s t s') : s'.top = s.top := X.last.top.trans X.rel.top

end Mid

/-- **the run of a change detector in F0 keeps `F0Inv`** -/
theorem f0Inv_of_mid {env : Env} {n b rhs : Nat} {br : BindRec} {r : Option Nat} {s t s' : State}
    (A : F0Inv env s) (X : Mid env n b rhs br r s t s') : F0Inv env s' where
  frag := X.keyEq.frag X.ginv.frag X.step.pc (X.last.scope.trans X.ginv.frag.scope)
  nodup c := by rw [(X.step.shapes c).parents]; exact X.ginv.nodup c
  ahh := by
    refine ⟨by rw [X.last.ahh]; exact X.ahh.length, ?_, fun m => (X.last.marks m).trans (X.ahh.marks m)⟩
    intro i hi
    have hi' : i < t.ahh.queues.size := by rw [← X.last.ahh]; exact hi
    have := X.ahh.buckets i hi'
    simp only [X.last.ahh]; exact this
  noRhsNodes b' br' h := by
    obtain ⟨br0, h0, -, -, -, -, h5, -⟩ := X.bind_back h
    rw [h5]; exact A.noRhsNodes b' br0 h0
  closures b' br' v h := by
    obtain ⟨br0, h0, -, h2, h3, -, -, -⟩ := X.bind_back h
    obtain ⟨c1, k, r0, c2, c3, c4, c5⟩ := A.closures b' br0 v h0
    rw [h2, h3]
    exact ⟨c1, k, r0, c2, by rw [X.top]; exact c3, c4, fun b'' => by rw [X.kind]; exact c5 b''⟩
  rhsOld b' br' o h ho := by
    obtain ⟨br0, h0, -, -, h3, -, -, h6⟩ := X.bind_back h
    rw [h3]
    rcases h6 with h6 | ⟨-, e, h6⟩
    · rw [h6] at ho
      obtain ⟨c1, c2⟩ := A.rhsOld b' br0 o h0 ho
      exact ⟨c1, fun b'' => by rw [X.kind]; exact c2 b''⟩
    · rw [h6] at ho
      cases ho
      rw [e, X.hlc]
      exact ⟨X.hrn, fun b'' => by rw [X.kind]; exact X.hrk b''⟩
  recs b' br' h := by
    obtain ⟨br0, h0, -, -, h3, h4, -, -⟩ := X.bind_back h
    obtain ⟨c1, c2, c3, c4⟩ := A.recs b' br0 h0
    rw [h3, h4]
    exact ⟨c1, by rw [X.size]; exact c2, by rw [X.kind]; exact c3, by rw [X.kind]; exact c4⟩
  pinv := X.last.pinv.trans X.pinv
  noForce m := by rw [(X.step.shapes m).forceNecessary]; exact X.noForce m
  lcObs m b' h := by rw [X.observers]; exact A.lcObs m b' (by rw [← X.kind]; exact h)
  lcCut m b' h := by rw [X.cutoff]; exact A.lcCut m b' (by rw [← X.kind]; exact h)

end BC

/-- **A run of a change detector (`recomputeOne` on a `bindLhsChange` node) in fragment F0** is described by `StepL`
and keeps `F0Inv`; `RelinkSpec env` is the specification of the middle part of the run (`relink`). -/
theorem recomputeOne_lcF0 {env : Env} (RS : RelinkSpec env) {fuel n b : Nat} {s s' : State} {r : Option Nat}
    (I : DInv env s (some n)) (A : F0Inv env s) (hk : (s.nodeD n).kind = .bindLhsChange b)
    (h : (recomputeOne env fuel n).run.run s = (.ok r, s')) :
    (∃ br br', StepL env n b br br' r s s') ∧ F0Inv env s' := by
  obtain ⟨br, rhs, t, X⟩ := BC.lc_mid RS I A hk (A.lcCut n b hk) h
  obtain ⟨br0, hb0, -, -, -, -, -, -, hmr⟩ := BC.lc_facts I A hk
  have e : br0 = br := by
    have := X.hb
    rw [hb0] at this
    exact Option.some.inj this
  rw [e] at hmr
  exact ⟨⟨br, _, BC.stepL_of_mid I A hk hmr X⟩, BC.f0Inv_of_mid A X⟩

end IncrVerif.Proofs.BindH
