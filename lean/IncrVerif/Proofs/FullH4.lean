import IncrVerif.Proofs.FullH3
/-!
# C01 full fragment, part 3: definitions for the `didChange` invariant through the linking cascade (rank order instead of index order)
-/
namespace IncrVerif.Proofs.FullH
open IncrVerif.Engine IncrVerif.Proofs IncrVerif.Proofs.Step IncrVerif.Proofs.Sched IncrVerif.Proofs.Quiet
open IncrVerif.Proofs.MapRefH (IsMapRef isMapRef_iff not_isMapRef_iff FM)

/-- the ghost value is not what the node reads -/
def Unclean (env : Env) (g : Nat → Option Val) (s : State) (m : Nat) : Prop := g m ≠ s.value env m

/-- the `didChange` invariant at one node -/
def KN (env : Env) (g : Nat → Option Val) (s : State) (m : Nat) : Prop :=
  (s.nodeD m).valid = true → IsMapRef (s.nodeD m).kind → Unclean env g s m → (s.nodeD m).didChange = true

/-- a valid map_ref node that is not stale is unclean only because its input is an unclean valid map_ref node -/
def Inherit (env : Env) (g : Nat → Option Val) (s : State) : Prop :=
  ∀ m pr i, (s.nodeD m).valid = true → (s.nodeD m).kind = .mapRef pr i → s.isStale m = false → Unclean env g s m →
    IsMapRef (s.nodeD i).kind ∧ Unclean env g s i

theorem kInv_iff {env : Env} {g : Nat → Option Val} {s : State} :
    KInv env g s ↔ ∀ m, s.isNecessary m = true → KN env g s m := by
  constructor
  · intro K m hm hv hk hu
    obtain ⟨p, i, hk⟩ := isMapRef_iff.1 hk
    cases hd : (s.nodeD m).didChange with
    | true => rfl
    | false => exact absurd (K m p i hv hm hk hd) hu
  · intro H m p i hv hm hk hd
    by_cases hu : g m = s.value env m
    · exact hu
    · have := H m hm hv (by rw [hk]; trivial) hu
      rw [this] at hd; cases hd

/-- what the linking cascade needs of the actual (possibly mid-operation) state; `rk`: the ghost rank of fragment F2 (it decreases along child edges) -/
structure CFrag (env : Env) (sp : Nat → Val → Val) (g : Nat → Option Val) (rk : Nat → Nat) (s : State) : Prop where
  frag : FFrag env sp g s
  kidLt : ∀ n c, c ∈ s.children n → rk c < rk n
  kidsValid : ∀ n c, c ∈ s.children n → (s.nodeD c).valid = true
  kidsIn : ∀ n c, c ∈ s.children n → c < s.nodes.size
  /-- necessary nodes are valid -/
  necValid : ∀ n, s.isNecessary n = true → (s.nodeD n).valid = true
  /-- recorded parent entries are child edges: `(p, i) ∈ parents c → (children p)[i]? = some c` -/
  par : ∀ c p i, (p, i) ∈ (s.nodeD c).parents → (s.children p)[i]? = some c

end IncrVerif.Proofs.FullH
