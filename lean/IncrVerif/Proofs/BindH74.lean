import IncrVerif.Proofs.BindH73
/-!
# Binds, the run of a change detector in fragment F1, part 2: phases 1–3 through the three contracts

`P1` (after the closure run), `P2` (after `lhsRelink`), `P3` (after `lhsInvalidateOld`), each obtained from the previous one
and the contract of the phase.
-/
namespace IncrVerif.Proofs.BindH
open IncrVerif.Engine IncrVerif.Proofs IncrVerif.Proofs.Step IncrVerif.Proofs.Sched IncrVerif.Proofs.Quiet
namespace CC

/-! ## templates only read the naming table -/

theorem opndOK_congr {s s' : State} (htop : s'.top = s.top) (lc nloc : Nat) (o : Opnd) :
    OpndOK s' lc nloc o ↔ OpndOK s lc nloc o := by
  cases o <;> simp only [OpndOK, htop]

theorem instrOK_congr {env : Env} {s s' : State} (htop : s'.top = s.top) (lc nloc : Nat) (i : Instr) :
    InstrOK env s' lc nloc i ↔ InstrOK env s lc nloc i := by
  cases i <;> simp only [InstrOK, opndOK_congr htop]

theorem templOK_congr {env : Env} {s s' : State} (htop : s'.top = s.top) (lc : Nat) (t : Template) :
    TemplOK env s' lc t ↔ TemplOK env s lc t := by
  simp only [TemplOK, instrOK_congr htop, opndOK_congr htop]

/-! ## the dying generation, in the state before the run -/

namespace Pre
variable {env : Env} {n b : Nat} {br : BindRec} {s : State}

theorem ne (X : Pre env n b br s) : br.main ≠ n := by have := X.hmain; omega

/-- a dying node is an old valid node of scope `b` -/
theorem dyOld (X : Pre env n b br s) (A : F1Inv env s) {m : Nat} (hm : m ∈ br.allNodesCreatedOnRhs) :
    m < s.nodes.size ∧ (s.nodeD m).valid = true ∧ (s.nodeD m).createdIn = .bind b :=
  (A.frag.gen b br X.hb m).1 (Or.inl hm)

theorem dy_ne_n (X : Pre env n b br s) (A : F1Inv env s) {m : Nat} (hm : m ∈ br.allNodesCreatedOnRhs) : m ≠ n := by
  intro e
  have h := (X.dyOld A hm).2.2
  rw [e, X.topN] at h; cases h

theorem dy_ne_main (X : Pre env n b br s) (A : F1Inv env s) {m : Nat} (hm : m ∈ br.allNodesCreatedOnRhs) :
    m ≠ br.main := by
  intro e
  have h := (X.dyOld A hm).2.2
  rw [e, X.topM] at h; cases h

/-- a valid node of scope `b` of the state before the run is dying -/
theorem dy_of_scope (X : Pre env n b br s) (A : F1Inv env s) {m : Nat} (hv : (s.nodeD m).valid = true)
    (hsc : (s.nodeD m).createdIn = .bind b) : m ∈ br.allNodesCreatedOnRhs := by
  have hlt : m < s.nodes.size := by
    false_or_by_contra
    rename_i h
    rw [nodeD_default s m (by omega)] at hsc; cases hsc
  rcases (A.frag.gen b br X.hb m).2 ⟨hlt, hv, hsc⟩ with h | ⟨h, -⟩
  · exact h
  · cases h

end Pre

/-! ## phase 1: the closure run -/

/-- the state `s1` after the closure run -/
structure P1 (env : Env) (n b rhs : Nat) (br : BindRec) (l : List Nat) (s s1 : State) : Prop where
  g : GInv1 env s1 allClosed (· = br.main) br.allNodesCreatedOnRhs
  ahh : AhhEmpty s1
  rel : CRel b br (started n s) s1
  bind : s1.binds[b]? = some { br with allNodesCreatedOnRhs := l }
  lmem : ∀ m, m ∈ l ↔ (s.nodes.size ≤ m ∧ m < s1.nodes.size)
  rlt : rhs < s1.nodes.size
  rhs : ((s.nodeD rhs).createdIn = .top ∧ rhs < n ∧ ∀ b', (s.nodeD rhs).kind ≠ .bindLhsChange b') ∨
    s.nodes.size ≤ rhs

namespace P1
variable {env : Env} {n b rhs : Nat} {br : BindRec} {l : List Nat} {s s1 : State}

theorem grow (P : P1 env n b rhs br l s s1) : s.nodes.size ≤ s1.nodes.size := by
  have := P.rel.grow; rw [started_size] at this; exact this

theorem old_upto (P : P1 env n b rhs br l s s1) {m : Nat} (hm : m < s.nodes.size) :
    ∃ y, s1.nodeD m = { s.nodeD m with recomputedAt := y } := by
  rw [P.rel.old m (by rw [started_size]; exact hm)]
  exact started_upto n s m

theorem old_other (P : P1 env n b rhs br l s s1) {m : Nat} (hm : m < s.nodes.size) (e : m ≠ n) :
    s1.nodeD m = s.nodeD m := by
  rw [P.rel.old m (by rw [started_size]; exact hm)]
  exact started_other s e

theorem self (P : P1 env n b rhs br l s s1) (hlt : n < s.nodes.size) :
    s1.nodeD n = { s.nodeD n with recomputedAt := s.stabNum } := by
  rw [P.rel.old n (by rw [started_size]; exact hlt)]
  exact started_self hlt

theorem new (P : P1 env n b rhs br l s s1) {m : Nat} (h1 : s.nodes.size ≤ m) (h2 : m < s1.nodes.size) :
    (s1.nodeD m).createdIn = .bind b ∧ (s1.nodeD m).valid = true ∧ (s1.nodeD m).recomputedAt = -1 ∧
    (s1.nodeD m).changedAt = -1 ∧ (s1.nodeD m).value = none ∧ (s1.nodeD m).parents = [] ∧
    (s1.nodeD m).observers = [] ∧ (s1.nodeD m).forceNecessary = false ∧ (s1.nodeD m).heightInRch = -1 ∧
    (s1.nodeD m).heightInAhh = -1 ∧ (s1.nodeD m).numOnUpdateHandlers = 0 :=
  P.rel.new m (by rw [started_size]; exact h1) h2

/-- the three kinds of indices -/
theorem cases (P : P1 env n b rhs br l s s1) (m : Nat) :
    (m < s.nodes.size ∧ ∃ y, s1.nodeD m = { s.nodeD m with recomputedAt := y }) ∨
    (s.nodes.size ≤ m ∧ m < s1.nodes.size) ∨ (s1.nodes.size ≤ m ∧ s1.nodeD m = default) := by
  by_cases h1 : m < s.nodes.size
  · exact Or.inl ⟨h1, P.old_upto h1⟩
  · by_cases h2 : m < s1.nodes.size
    · exact Or.inr (Or.inl ⟨by omega, h2⟩)
    · exact Or.inr (Or.inr ⟨by omega, nodeD_default s1 m (by omega)⟩)

theorem stabNum (P : P1 env n b rhs br l s s1) : s1.stabNum = s.stabNum := P.rel.stabNum

theorem noForce (P : P1 env n b rhs br l s s1) (A : F1Inv env s) (m : Nat) :
    (s1.nodeD m).forceNecessary = false := by
  rcases P.cases m with ⟨-, y, e⟩ | ⟨h1, h2⟩ | ⟨-, e⟩
  · rw [e]; exact A.noForce m
  · exact (P.new h1 h2).2.2.2.2.2.2.2.1
  · rw [e]; rfl

theorem noHandlers (P : P1 env n b rhs br l s s1) (A : F1Inv env s) (m : Nat) :
    (s1.nodeD m).numOnUpdateHandlers = 0 := by
  rcases P.cases m with ⟨-, y, e⟩ | ⟨h1, h2⟩ | ⟨-, e⟩
  · rw [e]; exact A.noHandlers m
  · exact (P.new h1 h2).2.2.2.2.2.2.2.2.2.2
  · rw [e]; rfl

/-- the new right-hand side is not dying -/
theorem rhs_notDy (P : P1 env n b rhs br l s s1) (X : Pre env n b br s) (A : F1Inv env s) :
    rhs ∉ br.allNodesCreatedOnRhs := by
  intro h
  obtain ⟨h1, -, h3⟩ := X.dyOld A h
  rcases P.rhs with ⟨h4, -, -⟩ | h4
  · rw [h4] at h3; cases h3
  · omega

theorem rhs_ne (P : P1 env n b rhs br l s s1) (X : Pre env n b br s) : rhs ≠ n := by
  have := X.hlt
  rcases P.rhs with ⟨-, h, -⟩ | h <;> omega

end P1

theorem phase1 {env : Env} (CS : ClosureSpec1 env) {n b rhs : Nat} {br : BindRec} {s s1 : State}
    (X : Pre env n b br s) (A : F1Inv env s)
    (h1 : (Inval.lhsRunClosure env n b br).run.run (started n s) = (.ok rhs, s1)) :
    ∃ l, P1 env n b rhs br l s s1 := by
  obtain ⟨g, ahh, rel, rlt, hr⟩ := CS n b rhs br (started n s) s1 (· = br.main) h1 X.g0 X.ahh0 X.hb X.hlc
    (fun v => by
      have := A.closures b br v X.hb
      rw [X.hlc] at this
      exact (templOK_congr (s := s) (s' := started n s) rfl n _).2 this)
    (fun k r hk => by
      obtain ⟨h1, h2, h3⟩ := A.topOK k r hk
      obtain ⟨y, e⟩ := started_upto n s r
      refine ⟨by rw [started_size]; exact h1, by rw [e]; exact h2, fun b' => by rw [e]; exact h3 b'⟩)
  obtain ⟨l, hl, hmem⟩ := rel.bind
  refine ⟨l, g, ahh, rel, hl, fun m => by rw [hmem m, started_size], rlt, ?_⟩
  rw [started_size] at hr
  rcases hr with ⟨h2, h3, h4⟩ | h2
  · left
    have hlt : rhs < s.nodes.size := by have := X.hlt; omega
    have e : s1.nodeD rhs = s.nodeD rhs := by
      rw [rel.old rhs (by rw [started_size]; exact hlt)]
      exact started_other s (by omega)
    rw [e] at h2 h4
    exact ⟨h2, h3, h4⟩
  · exact Or.inr h2

/-! ## phase 2: installing the new right-hand side -/

/-- the state `s2` after `lhsRelink` -/
structure P2 (env : Env) (n b rhs : Nat) (br : BindRec) (l : List Nat) (s1 s2 : State) : Prop where
  g : GInv1 env s2 allClosed (· = br.main) br.allNodesCreatedOnRhs
  ahh : AhhEmpty s2
  rel : RRelB b n rhs { br with allNodesCreatedOnRhs := l } s1 s2
  pinv : s2.propagateInvalidity = []
  noForce : ∀ m, (s2.nodeD m).forceNecessary = false
  necMain : s2.isNecessary br.main = true

theorem phase2 {env : Env} (RS : RelinkSpec1 env) {fuel n b rhs : Nat} {br : BindRec} {l : List Nat}
    {s s1 s2 : State} (X : Pre env n b br s) (A : F1Inv env s) (P : P1 env n b rhs br l s s1)
    (h2 : (Inval.lhsRelink env fuel n b br s.stabNum rhs).run.run s1 = (.ok (), s2)) :
    P2 env n b rhs br l s1 s2 := by
  have est : s1.stabNum = s.stabNum := P.stabNum
  rw [← est] at h2
  have emain : s1.nodeD br.main = s.nodeD br.main := P.old_other X.hml X.ne
  obtain ⟨g, ahh, rel, pinv, nf, nec⟩ := RS fuel b n rhs s1 s2 br { br with allNodesCreatedOnRhs := l }
    (· = br.main) br.allNodesCreatedOnRhs h2 P.g rfl P.ahh P.bind rfl rfl X.hlc
    (by show (s1.nodeD br.main).isNecessary = true; rw [emain]; exact X.necMain)
    P.rlt (P.rhs_notDy X A)
    (by
      rcases P.rhs with ⟨h3, h4, h5⟩ | h3
      · left
        have hlt : rhs < s.nodes.size := by have := X.hlt; omega
        rw [P.old_other hlt (by omega)]
        exact ⟨h3, h4, h5⟩
      · right
        obtain ⟨k1, k2, -⟩ := P.new h3 P.rlt
        exact ⟨k1, k2⟩)
    (fun o ho => by
      rcases A.rhsOK b br o X.hb ho with ⟨k1, k2, k3⟩ | ⟨k1, k2⟩
      · left
        rw [X.hlc] at k2
        have hlt : o < s.nodes.size := by have := X.hlt; omega
        rw [P.old_other hlt (by omega)]
        exact ⟨k1, k2, k3⟩
      · right
        have hd := X.dy_of_scope A k2 k1
        obtain ⟨hlt, -, -⟩ := X.dyOld A hd
        rw [P.old_other hlt (X.dy_ne_n A hd)]
        exact ⟨k1, hd⟩)
    (fun m hm => by
      obtain ⟨hlt, -, k⟩ := X.dyOld A hm
      rw [P.old_other hlt (X.dy_ne_n A hm)]; exact k)
    (P.noForce A) (P.rel.pinv.trans A.pinv)
    (by rw [emain, est]; exact X.hmr)
  exact ⟨g, ahh, rel, pinv, nf, nec⟩

namespace P2
variable {env : Env} {n b rhs : Nat} {br : BindRec} {l : List Nat} {s1 s2 : State}

/-- the keys of the nodes other than `n` -/
theorem key (Q : P2 env n b rhs br l s1 s2) {m : Nat} (e : m ≠ n) : NKey (s1.nodeD m) (s2.nodeD m) :=
  NKey.of_key (Q.rel.node m e)

/-- the key of `n` -/
theorem keyN (Q : P2 env n b rhs br l s1 s2) :
    NKey { s1.nodeD n with changedAt := s1.stabNum } (s2.nodeD n) := NKey.of_key Q.rel.self

theorem kind (Q : P2 env n b rhs br l s1 s2) (m : Nat) : (s2.nodeD m).kind = (s1.nodeD m).kind := by
  by_cases e : m = n
  · subst e; exact Q.keyN.kind
  · exact (Q.key e).kind

theorem valid (Q : P2 env n b rhs br l s1 s2) (m : Nat) : (s2.nodeD m).valid = (s1.nodeD m).valid := by
  by_cases e : m = n
  · subst e; exact Q.keyN.valid
  · exact (Q.key e).valid

theorem createdIn (Q : P2 env n b rhs br l s1 s2) (m : Nat) :
    (s2.nodeD m).createdIn = (s1.nodeD m).createdIn := by
  by_cases e : m = n
  · subst e; exact Q.keyN.createdIn
  · exact (Q.key e).createdIn

theorem num (Q : P2 env n b rhs br l s1 s2) (m : Nat) :
    (s2.nodeD m).numOnUpdateHandlers = (s1.nodeD m).numOnUpdateHandlers := by
  by_cases e : m = n
  · subst e; exact Q.keyN.num
  · exact (Q.key e).num

end P2

/-! ## phase 3: invalidating the previous generation -/

/-- the state `s3` after `lhsInvalidateOld` -/
structure P3 (env : Env) (br : BindRec) (s2 s3 : State) : Prop where
  g : GInv1 env s3 allClosed (· = br.main) []
  rel : IRel br.allNodesCreatedOnRhs s2 s3

theorem phase3 {env : Env} (IS : InvalSpec1 env) {fuel n b rhs : Nat} {br : BindRec} {l : List Nat}
    {s s1 s2 s3 : State} (X : Pre env n b br s) (A : F1Inv env s) (P : P1 env n b rhs br l s s1)
    (Q : P2 env n b rhs br l s1 s2)
    (h3 : (Inval.lhsInvalidateOld fuel br).run.run s2 = (.ok (), s3)) : P3 env br s2 s3 := by
  have hnd := P.rhs_notDy X A
  -- dying nodes in `s2`
  have hdy : ∀ m, m ∈ br.allNodesCreatedOnRhs →
      m < s2.nodes.size ∧ (s2.nodeD m).createdIn = .bind b ∧ (s2.nodeD m).valid = true := by
    intro m hm
    obtain ⟨hlt, k1, k2⟩ := X.dyOld A hm
    have e := P.old_other hlt (X.dy_ne_n A hm)
    refine ⟨?_, ?_, ?_⟩
    · rw [Q.rel.size]; have := P.grow; omega
    · rw [Q.createdIn, e]; exact k2
    · rw [Q.valid, e]; exact k1
  have hpar : ∀ m, m ∈ br.allNodesCreatedOnRhs → (s2.nodeD m).parents = [] := by
    apply Q.g.scope_no_parents Q.rel.bind (· ∈ br.allNodesCreatedOnRhs)
    · intro m hm; exact ⟨(hdy m hm).1, (hdy m hm).2.1⟩
    · intro p m hp hmc hm
      have hpl := lt_size_of_mem_children hmc
      obtain ⟨-, -, br', -, -, hkids⟩ := (Q.g.frag.node p hpl).inScope b hp
      rcases hkids m hmc with ⟨k1, -⟩ | ⟨-, -, k3⟩
      · rw [(hdy m hm).2.1] at k1; cases k1
      · exact k3.1 hm
    · intro m hm hr _
      have : rhs = m := Option.some.inj hr
      rw [this] at hnd; exact hnd hm
    · intro m k h; cases h
    · intro m _; exact Q.noForce m
  obtain ⟨g, rel⟩ := IS fuel b br s2 s3 (· = br.main) h3 Q.g (A.rhsNone b br X.hb)
    (fun m hm => ⟨(hdy m hm).2.1, hpar m hm, (hdy m hm).2.2⟩)
    (fun br1 r hb1 hr => by
      rw [Q.rel.bind] at hb1
      cases hb1
      have : rhs = r := Option.some.inj hr
      rw [← this]; exact hnd)
    Q.noForce (fun m => by rw [Q.num]; exact P.noHandlers A m) Q.pinv
  exact ⟨g, rel⟩

end CC
end IncrVerif.Proofs.BindH
