import IncrVerif.Proofs.PerKeyH27
/-!
# A run of a per-key change detector, part 6d: the loop (`lc_loop`) and the end of the driver (`driver_end`)
-/
namespace IncrVerif.Proofs.PerKeyH
open IncrVerif.Engine IncrVerif.Driver IncrVerif.Proofs IncrVerif.Proofs.Step IncrVerif.Proofs.Sched
open IncrVerif.Proofs.ExpertH IncrVerif.Proofs.EffH IncrVerif.Proofs.DriverH IncrVerif.Proofs.ExpertH.QR
open IncrVerif.MapOps

theorem lookup_isSome_of_mem {β : Type} {l : List (Int × β)} {k : Int} {v : β} (h : (k, v) ∈ l) :
    (l.lookup k).isSome = true := by
  induction l with
  | nil => cases h
  | cons kv l ih =>
    rcases kv with ⟨k0, v0⟩
    rw [List.lookup_cons]
    by_cases hk : k = k0
    · subst hk; simp
    · have h1 : (k == k0) = false := by simpa using hk
      simp only [h1]
      rcases List.mem_cons.1 h with e | e
      · cases e; exact absurd rfl hk
      · exact ih e

/-- **the loop**: from the loop invariant at the start to the loop invariant with all entries processed -/
theorem lc_loop {env : Env} {s σ : State} {n op eres fuel : Nat} {pr : PerKeyRec} {m : List (Int × Int)}
    (hR : IterRight env) (hU : IterUnequal env) (B : LcBase env s n op pr eres)
    (hm : IncrVerif.AMap.Sorted m) (hsub : keysSub pr.prevMap m)
    (H0 : LI env s n op pr eres [] [] (started n s))
    (h : (forIn (symmetricDiff pr.prevMap m) PUnit.unit fun kd _ => do
            PKL.perKeyStep env fuel op .top kd
            pure (ForInStep.yield PUnit.unit)).run.run (started n s) = (.ok PUnit.unit, σ)) :
    LI env s n op pr eres (rkeys (symmetricDiff pr.prevMap m).reverse) (ukeys (symmetricDiff pr.prevMap m).reverse)
      σ := by
  have hps : IncrVerif.AMap.Sorted pr.prevMap := (B.pd.aux.pk.ops op pr B.hop).sorted
  have key := forIn_ok_inv
    (fun kd (_ : PUnit) => (do
      PKL.perKeyStep env fuel op .top kd
      pure (ForInStep.yield PUnit.unit) : M (ForInStep PUnit)))
    (symmetricDiff pr.prevMap m)
    (fun j _ t => LI env s n op pr eres (rkeys ((symmetricDiff pr.prevMap m).take j).reverse)
      (ukeys ((symmetricDiff pr.prevMap m).take j).reverse) t)
    (by
      intro j a b t r t' hj hI hrun
      obtain ⟨u, t1, h1, h2⟩ := bind_ok_inv hrun
      obtain ⟨e1, e2⟩ := pure_ok_inv h2
      subst e2
      refine ⟨PUnit.unit, e1, ?_⟩
      obtain ⟨k, d⟩ := a
      have hmem : (k, d) ∈ symmetricDiff pr.prevMap m := List.mem_of_getElem? hj
      have hfresh := diff_key_fresh hps hm hj
      rw [take_succ_reverse hj]
      rcases diff_entry hps hm hsub hmem with ⟨y, rfl, h3, -⟩ | ⟨x, y, rfl, h3, -, -⟩
      · rw [rkeys_cons_right, ukeys_cons_right]
        refine hR s n op pr eres _ _ t t' fuel k y B hI h3 ?_ h1
        intro hk
        obtain ⟨y', hy'⟩ := mem_rkeys.1 hk
        exact hfresh _ (List.mem_reverse.1 hy')
      · rw [rkeys_cons_unequal, ukeys_cons_unequal]
        exact hU s n op pr eres _ _ t t' fuel k x y B hI (by rw [h3]; rfl) h1)
    (symmetricDiff pr.prevMap m) 0 PUnit.unit (started n s) PUnit.unit σ (List.drop_zero) (Nat.zero_le _)
    (by simpa [rkeys, ukeys] using H0) h
  rw [List.take_length] at key
  exact key

/-- **the end of the driver** -/
theorem driver_end {env : Env} {s s2 : State} {n op eres fuel : Nat} {pr : PerKeyRec} {m : List (Int × Int)}
    (hR : IterRight env) (hU : IterUnequal env) (B : LcBase env s n op pr eres)
    (H0 : LI env s n op pr eres [] [] (started n s))
    (hconv : (s.nodeD (pr.result - 1)).value = some (.map m)) (hm : IncrVerif.AMap.Sorted m)
    (h : (perKeyDriver env fuel op m).run.run (started n s) = (.ok (), s2)) :
    LE env s n op pr eres m s2 := by
  have Hop := B.pd.aux.pk.ops op pr B.hop
  have hps : IncrVerif.AMap.Sorted pr.prevMap := Hop.sorted
  -- stage 1: no key is removed
  have hsub : keysSub pr.prevMap m := by
    obtain ⟨x, c, vc, mv, -, -, -, -, -, -, -, hcv⟩ := (B.norem op pr B.hop).input
    obtain ⟨m1, e1, -, -, h4, -⟩ := hcv _ hconv
    cases e1
    exact h4
  -- the run
  rw [PKL.perKeyDriver_eq_forIn] at h
  unfold PKL.perKeyDriver' at h
  rw [run_bind_get] at h
  dsimp only at h
  rw [run_bind_get] at h
  have hpk0 : (started n s).perkeys[op]?.getD default = pr := by
    show s.perkeys[op]?.getD default = pr
    rw [B.hop]; rfl
  have hsc0 : (started n s).currentScope = .top := B.pd.aux.frag.scope
  rw [hpk0, hsc0] at h
  obtain ⟨u, σ, hloop, hfin⟩ := bind_ok_inv h
  have H := lc_loop hR hU B hm hsub H0 hloop
  have hs2 : s2 = { σ with perkeys := σ.perkeys.modify op fun p => { p with prevMap := m } } := by
    cases hfin; rfl
  subst hs2
  obtain ⟨pn, hpop⟩ := H.pop
  have hpop2 : ({ σ with perkeys := σ.perkeys.modify op fun p => { p with prevMap := m } } : State).perkeys[op]?
      = some { pr with prevNodes := pn, prevMap := m } := by
    show (σ.perkeys.modify op fun p => { p with prevMap := m })[op]? = _
    rw [Array.getElem?_modify, if_pos rfl, hpop]; rfl
  have hother : ∀ op', op' ≠ op →
      ({ σ with perkeys := σ.perkeys.modify op fun p => { p with prevMap := m } } : State).perkeys[op']?
        = σ.perkeys[op']? := by
    intro op' hne
    show (σ.perkeys.modify op fun p => { p with prevMap := m })[op']? = _
    rw [Array.getElem?_modify, if_neg (fun e => hne e.symm)]
  -- membership in the processed keys
  have hrk : ∀ k, k ∈ rkeys (symmetricDiff pr.prevMap m).reverse ↔ ∃ y, (k, DiffElement.right y) ∈ symmetricDiff pr.prevMap m := by
    intro k; rw [mem_rkeys]; simp only [List.mem_reverse]
  have huk : ∀ k, k ∈ ukeys (symmetricDiff pr.prevMap m).reverse ↔
      ∃ x y, (k, DiffElement.unequal x y) ∈ symmetricDiff pr.prevMap m := by
    intro k; rw [mem_ukeys]; simp only [List.mem_reverse]
  refine
    { conv := hconv, sorted := hm, mid := mid_perkeys' H.mid _, lf := lf_perkeys H.lf _,
      frag := pfrag_perkeys H.frag _, slots := slotInv_perkeys H.slots _, obs := H.obs,
      psize := by
        show (σ.perkeys.modify op _).size = _
        rw [Array.size_modify]; exact H.psize
      pother := fun op' hne => (hother op' hne).trans (H.pother op' hne)
      pop := ⟨pn, hpop2⟩
      core := ?_, dom := ?_, pnOld := ?_, newrec := ?_, pot := ?_, newKids := H.newKids, resKids := H.resKids,
      resNec := H.resNec, forcedU := ?_, resAlt := ?_, fsame := ?_ }
  · -- core
    intro pr2 h2
    rw [hpop2] at h2
    cases h2
    exact opCore_perkeys (H.core _ hpop) _ hm
  · -- dom
    intro pr2 h2 key
    rw [hpop2] at h2
    cases h2
    show (m.lookup key).isSome = (pn.lookup key).isSome
    have hd := H.dom _ hpop key
    simp only at hd
    rw [hd]
    cases hk : pr.prevMap.lookup key with
    | some x =>
      have := hsub key (by rw [hk]; rfl)
      simp [this]
    | none =>
      simp only [Option.isSome_none, Bool.false_or]
      cases hmk : m.lookup key with
      | none =>
        simp only [Option.isSome_none]
        symm
        rw [decide_eq_false_iff_not, hrk]
        rintro ⟨y, hy⟩
        rcases diff_entry hps hm hsub hy with ⟨y', -, -, h5⟩ | ⟨x', y', h4, -⟩
        · rw [hmk] at h5; cases h5
        · cases h4
      | some y =>
        simp only [Option.isSome_some]
        symm
        rw [decide_eq_true_iff, hrk]
        refine ⟨y, (symmetricDiff_mem _ _ hps hm key _).2 (Or.inr (Or.inl ⟨y, ?_, ?_, rfl⟩))⟩
        · rw [amap_lookup_eq]; exact hk
        · rw [amap_lookup_eq]; exact hmk
  · -- pnOld
    intro pr2 h2
    rw [hpop2] at h2
    cases h2
    exact H.pnOld { pr with prevNodes := pn } hpop
  · -- newrec
    intro e er he hx
    obtain ⟨pr1, key, d, h1, h2, h3⟩ := H.newrec e er he hx
    rw [hpop] at h1
    cases h1
    exact ⟨_, key, d, hpop2, h2, h3⟩
  · -- pot
    obtain ⟨ψ, P⟩ := H.pot
    exact ⟨ψ, pot_perkeys P hpop⟩
  · -- forcedU
    intro key p d hmem hne
    refine (V_stamp_iff _ p).2 ((V_stamp_iff σ p).1 (H.forcedU key p d ?_ hmem))
    rw [huk]
    have hl : (pr.prevNodes.lookup key).isSome = true := lookup_isSome_of_mem hmem
    rw [← Hop.dom key] at hl
    obtain ⟨x, hx⟩ := Option.isSome_iff_exists.1 hl
    obtain ⟨y, hy⟩ := Option.isSome_iff_exists.1 (hsub key hl)
    refine ⟨x, y, (symmetricDiff_mem _ _ hps hm key _).2 (Or.inr (Or.inr ⟨x, y, ?_, ?_, ?_, rfl⟩))⟩
    · rw [amap_lookup_eq]; exact hx
    · rw [amap_lookup_eq]; exact hy
    · intro e
      apply hne
      rw [hx, hy, e]
  · -- resAlt
    rcases H.resAlt with ⟨h1, h2⟩ | h3
    · left
      refine ⟨fun pr2 hp2 => ?_, h2⟩
      rw [hpop2] at hp2
      cases hp2
      exact h1 { pr with prevNodes := pn } hpop
    · exact Or.inr h3
  · -- fsame
    intro e er er' hne he he'
    rcases H.fsame e er er' hne he he' with h1 | ⟨key, d, hk, hmem⟩
    · exact Or.inl h1
    · right
      refine ⟨key, d, hmem, ?_⟩
      obtain ⟨x, y, hxy⟩ := (huk key).1 hk
      rcases diff_entry hps hm hsub hxy with ⟨y', h4, -⟩ | ⟨x', y', -, h5, h6, h7⟩
      · cases h4
      · rw [h5, h6]
        intro e; exact h7 (Option.some.inj e)

end IncrVerif.Proofs.PerKeyH
