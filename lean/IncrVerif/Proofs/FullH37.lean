import IncrVerif.Proofs.FullH11
/-!
# C01 full fragment: simulation of the observer and variable operations and of the two phases of `stabilise` before the drain
(port of MapRef18)
-/
namespace IncrVerif.Proofs.FullH
open IncrVerif.Engine IncrVerif.Proofs IncrVerif.Proofs.Step IncrVerif.Proofs.Sched IncrVerif.Proofs.Quiet

section
variable {K : Kind → Prop} {g : Nat → Option Val} {sp : Nat → Val → Val}

theorem Sim.getObs (o : Nat) : Sim K g (Engine.getObs o) (Engine.getObs o) := by
  intro s; unfold Engine.getObs; fsim
  split <;> fsim
macro_rules | `(tactic| fsim_leaf) => `(tactic| with_reducible exact Sim.getObs _)

theorem Sim.modObs (o : Nat) (f : ObsRec → ObsRec) : Sim K g (Engine.modObs o f) (Engine.modObs o f) := by
  intro s; unfold Engine.modObs; fsim
macro_rules | `(tactic| fsim_leaf) => `(tactic| with_reducible exact Sim.modObs _ _)

theorem Sim.getVar (v : Nat) : Sim K g (Engine.getVar v) (Engine.getVar v) := by
  intro s; unfold Engine.getVar; fsim
  split <;> fsim
macro_rules | `(tactic| fsim_leaf) => `(tactic| with_reducible exact Sim.getVar _)

theorem Sim.modVar (v : Nat) (f : VarCell → VarCell) : Sim K g (Engine.modVar v f) (Engine.modVar v f) := by
  intro s; unfold Engine.modVar; fsim
macro_rules | `(tactic| fsim_leaf) => `(tactic| with_reducible exact Sim.modVar _ _)

theorem Sim.unlinkDisallowedObservers (fuel : Nat) :
    Sim K g (Engine.unlinkDisallowedObservers fuel) (Engine.unlinkDisallowedObservers fuel) := by
  intro s; unfold Engine.unlinkDisallowedObservers; fsim
macro_rules | `(tactic| fsim_leaf) => `(tactic| with_reducible exact Sim.unlinkDisallowedObservers _)

theorem Sim.disallowFutureUse (o : Nat) : Sim K g (Engine.disallowFutureUse o) (Engine.disallowFutureUse o) := by
  intro s; unfold Engine.disallowFutureUse; fsim
  split <;> fsim
macro_rules | `(tactic| fsim_leaf) => `(tactic| with_reducible exact Sim.disallowFutureUse _)

theorem Sim.didSetVarWhileNotStabilising (v : Nat) :
    Sim K g (Engine.didSetVarWhileNotStabilising v) (Engine.didSetVarWhileNotStabilising v) := by
  intro s; unfold Engine.didSetVarWhileNotStabilising; fsim
macro_rules | `(tactic| fsim_leaf) => `(tactic| with_reducible exact Sim.didSetVarWhileNotStabilising _)

theorem Sim.writeVar (v : Nat) (f : Val → Val) (isSet : Bool) :
    Sim K g (Engine.writeVar v f isSet) (Engine.writeVar v f isSet) := by
  intro s; unfold Engine.writeVar; fsim
  split <;> fsim
  split <;> fsim
macro_rules | `(tactic| fsim_leaf) => `(tactic| with_reducible exact Sim.writeVar _ _ _)

theorem SimX.addNewObservers (env : Env) (fuel : Nat) :
    SimX K (Engine.addNewObservers env fuel) (Engine.addNewObservers (virtEnv env sp) fuel) := by
  intro g s; unfold Engine.addNewObservers; fsimx
  split <;> fsimx
macro_rules | `(tactic| fsimx_leaf) => `(tactic| with_reducible exact SimX.addNewObservers _ _)

end
end IncrVerif.Proofs.FullH
