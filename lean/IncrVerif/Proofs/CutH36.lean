import IncrVerif.Proofs.CutH35
import IncrVerif.Proofs.CutH37
import IncrVerif.Proofs.CutH31
-- Port of Proofs/Quiet24.lean to ARBITRARY cutoffs (scratch name T24); overview in Props/C06History.lean
/-!
# Part 24: `stabilise` returns
-/
namespace IncrVerif.Proofs.CutH
open IncrVerif.Engine IncrVerif.Driver IncrVerif.Proofs IncrVerif.Proofs.Step IncrVerif.Proofs.Sched
variable {e : Bool}

/-- the state in which `drainHeap` starts (after the two observer loops) satisfies the drain invariant -/
theorem prefix_drainInv {env : Env} {s s0 t2 : State} (Q : QInv env e s)
    (hs0 : s0 = { s with status := .stabilising }) (S2 : SInv env t2 [] []) (F : PFrame s0 t2) :
    DrainInv env e t2 ∧ VarsOK t2 := by
  have hnd0 : ∀ m, s0.nodeD m = s.nodeD m := fun m => by rw [hs0]; rfl
  have hvars0 : s0.vars = s.vars := by rw [hs0]
  have hstab0 : s0.stabNum = s.stabNum := by rw [hs0]
  have hsz0 : s0.nodes.size = s.nodes.size := by rw [hs0]
  have V2 : VarsOK t2 := F.varsOK (by
    refine ⟨?_, ?_⟩
    · intro n c hn hk; rw [hnd0] at hk; rw [hvars0]; exact Q.vars.node n c (by rw [← hsz0]; exact hn) hk
    · intro c vc hc; rw [hvars0] at hc; rw [hsz0, hnd0]; exact Q.vars.cell c vc hc)
  have st2 : ∀ m, (t2.nodeD m).recomputedAt < t2.stabNum ∧ (t2.nodeD m).changedAt < t2.stabNum := by
    intro m
    rw [F.recomputedAt, F.changedAt, F.stabNum, hstab0, hnd0]; exact Q.stamps m
  have cons2 : ∀ m, m < t2.nodes.size → staleOf t2 m = false → ConsE env e t2 m := by
    intro m hm hs
    rw [F.staleOf] at hs
    have hs' : staleOf s m = false := by
      rw [← hs]; exact (staleOf_congr (by rw [hnd0]) (by rw [hnd0]) hvars0 (fun c _ => by rw [hnd0])).symm
    have hc := Q.cons m (by rw [← hsz0, ← F.size]; exact hm) hs'
    have hc0 : ConsE env e s0 m := by
      obtain ⟨w, hv, hw⟩ := hc
      exact ⟨w, by rw [hnd0]; exact hv, fun he => Target.congr (by rw [hnd0]) hvars0 (fun c _ => by rw [hnd0]) (hw he)⟩
    exact F.consE hc0
  have ex2 : e = true → ∀ m, ExactCut (t2.nodeD m).cutoff := by
    intro he m
    rw [F.cutoff, hnd0]; exact Q.exact he m
  exact ⟨drainInv_of S2.struct V2 (by rw [F.stabNum, hstab0]; exact Q.now) st2
    (fun c vc hc => by rw [F.vars, hvars0] at hc; rw [F.stabNum, hstab0]; exact Q.varStamp c vc hc) cons2 ex2, V2⟩

/-- **`stabilise` returns** (static fragment, enough fuel), and the extra invariant is kept. -/
theorem stabilise_total_q {env : Env} {N fuel : Nat} {s : State} (Q : QInv env e s) (T : TInv N s)
    (hf : 3 * s.nodes.size + 4 ≤ fuel) :
    Tot (stabilise env fuel) s (fun _ s' => TInv N s') := by
  -- the state with the status set
  obtain ⟨s0, hs0⟩ : ∃ s0 : State, s0 = { s with status := .stabilising } := ⟨_, rfl⟩
  have hnd0 : ∀ m, s0.nodeD m = s.nodeD m := fun m => by rw [hs0]; rfl
  have hsz0 : s0.nodes.size = s.nodes.size := by rw [hs0]
  have S0 : SInv env s0 s0.newObservers s0.disallowedObservers := by
    rw [hs0]
    exact ⟨Q.struct.congr (SameG.of_nodes rfl rfl rfl rfl rfl),
      ⟨Q.obs.inRange, Q.obs.mem, Q.obs.created, Q.obs.newIn, Q.obs.dis, Q.obs.disIn, Q.obs.disNodup⟩,
      Q.pinv, Q.handlers⟩
  have hb0 : HBo s0 allClosed := by
    intro m hm ho
    rw [hnd0]; exact T.hb m (by rw [State.isNecessary, ← hnd0]; exact hm) ho
  have R0 : Room N s0 := by rw [hs0]; exact ⟨T.room.ahh, T.room.rch, T.room.size⟩
  -- the two loops
  have hf1 : 2 * s0.nodes.size + 2 ≤ fuel := by rw [hsz0]; omega
  obtain ⟨_, t1, h1, hb1⟩ := addNewObservers_total (fuel := fuel) (env := env) S0 hb0 R0
    (by rw [hs0]; exact T.newNodup) (by rw [hs0]; exact T.newState) hf1
  obtain ⟨S1, hn1, hd1, F1, O1, N1⟩ := addNewObservers_s S0 h1
  have hf2 : 3 * t1.nodes.size + 3 ≤ fuel := by rw [F1.size, hsz0]; omega
  obtain ⟨_, t2, h2, hb2⟩ := unlinkDisallowedObservers_total (fuel := fuel) S1 hn1 hb1 hf2
  obtain ⟨S2, hn2, hd2, F2, O2⟩ := unlinkDisallowedObservers_s S1 hn1 h2
  have F : PFrame s0 t2 := F1.trans F2
  have R2 : Room N t2 := R0.of_pframe F
  obtain ⟨D2, V2⟩ := prefix_drainInv Q hs0 S2 F
  -- the drain
  have Sf : Safe t2 := by
    refine ⟨fun n hn => ?_, fun n hn => (GInv.node S2.struct (nec_lt_size hn)).top, fun m i h => ?_⟩
    rotate_left
    · rw [F.cutoff, hnd0] at h; rw [F.size, hsz0]; exact T.dep m i h
    have h1 := hb2 n hn rfl
    have h2 := nec_lt_size hn
    have h3 := R2.size
    rw [R2.rch]; omega
  have hf3 : t2.nodes.size + 2 ≤ fuel := by rw [F.size, hsz0]; omega
  obtain ⟨t3, h3, D3, he3, f3, -⟩ := drainHeap_total_inv D2 Sf hf3
  have c3 := drainHeap_calm fuel t2 t3 D2 h3
  have k3 := drainHeap_keyD D2 h3
  simp only [stateKeyD, Prod.mk.injEq] at k3
  obtain ⟨k_obs, -, -, k_top, -, -, -, -, -, -, k_ahh⟩ := k3
  -- the end
  have hnum2 : ∀ m, (t2.nodeD m).numOnUpdateHandlers ≤ 0 := S2.handlers
  have hhas0 : HasRange s0 := by
    intro n hn; rw [hs0] at hn
    have : s.handleAfterStab = [] := Q.handleAfterStab
    rw [show ({ s with status := Status.stabilising } : State).handleAfterStab = s.handleAfterStab from rfl,
      this] at hn
    cases hn
  have hhas2 : HasRange t2 :=
    unlinkDisallowedObservers_hasRange h2 (addNewObservers_hasRange h1 hhas0)
  have hhas3 : HasRange t3 := by
    intro n hn
    rw [c3.has hnum2] at hn
    rw [f3.size]; exact hhas2 n hn
  obtain ⟨_, s', h4, -⟩ := stabiliseEnd_total (env := env) (fuel := fuel) (s := t3)
    (by rw [c3.setDuringStab, F.setDuringStab, hs0]; exact Q.setDuringStab)
    (by rw [c3.deadVars, F.deadVars, hs0]; exact Q.deadVars)
    (by intro o ob ho; rw [k_obs] at ho; exact (S2.obs.inRange o ob ho).2)
    hhas3
    (by
      intro n o ho
      rw [(f3.shape n).observers] at ho
      obtain ⟨ob, hob, -⟩ := (S2.obs.mem n o).1 ho
      rw [k_obs]
      exact (Array.getElem?_eq_some_iff.1 hob).1)
  have E := stabiliseEnd_fin (env := env) (fuel := fuel) (s := t3) (s' := s')
    (by rw [c3.setDuringStab, F.setDuringStab, hs0]; exact Q.setDuringStab)
    (by rw [c3.deadVars, F.deadVars, hs0]; exact Q.deadVars)
    (by intro o ob ho; rw [k_obs] at ho; exact (S2.obs.inRange o ob ho).2) h4
  -- the run
  have hrun : (stabilise env fuel).run.run s = (.ok (), s') := by
    unfold stabilise
    have hst : (s.status == Status.notStabilising) = true := by rw [Q.status]; rfl
    rw [run_bind_get, run_bind_ok (show (assertM (s.status == Status.notStabilising)
      "state:stabilise:status").run.run s = (.ok (), s) by rw [run_assertM, hst]; rfl),
      run_bind_modify]
    rw [← hs0, run_bind_ok h1, run_bind_ok h2, run_bind_ok h3]
    exact h4
  refine Tot.of_ok hrun ?_
  -- the extra invariant at the end
  have hE : ∀ m, NodeG (t3.nodeD m) (s'.nodeD m) := by
    intro m
    obtain ⟨b, hb⟩ := E.node m
    rw [hb]
    exact ⟨rfl, rfl, rfl, rfl, rfl, rfl, rfl, rfl, rfl, rfl, rfl⟩
  have hnec' : ∀ m, s'.isNecessary m = t2.isNecessary m := fun m => by
    have G3 : SameG t3 s' := ⟨E.pc, E.scope, E.size, E.rch, E.vars, hE⟩
    rw [G3.nec, f3.nec]
  have hsize' : s'.nodes.size = s.nodes.size := by rw [E.size, f3.size, F.size, hsz0]
  refine ⟨?_, ⟨?_, ?_, by rw [hsize']; exact T.room.size⟩, ?_, ?_, ?_, ?_, ?_⟩
  rotate_right
  · intro m i h
    rw [(hE m).cutoff, (f3.shape m).cutoff, F.cutoff, hnd0] at h
    rw [hsize']; exact T.dep m i h
  · intro m hm ho
    rw [(hE m).height, (f3.shape m).height]
    exact hb2 m (by rw [← hnec']; exact hm) ho
  · rw [E.ahh, k_ahh]; exact R2.ahh
  · rw [E.rch, ← R2.rch]; exact maxAllowed_congr f3.qsize
  · intro c vc hc
    rw [E.vars, f3.vars, F.vars, hs0] at hc
    exact T.linked c vc hc
  · rw [E.top, k_top, F.top, hs0, hsize']; exact T.topSize
  · rw [E.newObservers, c3.newObservers, hn2]; exact List.nodup_nil
  · intro o ob ho
    rw [E.newObservers, c3.newObservers, hn2] at ho; cases ho

end IncrVerif.Proofs.CutH
