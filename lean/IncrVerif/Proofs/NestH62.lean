import IncrVerif.Proofs.NestH61
/-!
# Nested binds (F2), part 5d3: with current generations, the stored values of the necessary top-level nodes are the from-scratch values `den2`

Two inductions:
* `body_agree` (the NESTING induction, on the fuel `d` of `denBody`, for a fixed evaluator `ev` of the top-level nodes that is correct on the necessary top-level
  nodes of rank `< R`): for EVERY bind record `b` (top-level or inner) whose main node is necessary and has rank `≤ R` and `≤ d`:
  `denBody env ev s.top d br.body v = value (main_b)` where `v` is the stored value of the lhs.  A local that is the main node of an inner bind `b2` has smaller rank
  (`All2.scopeRk`), so the induction hypothesis applies to it; `GenOK2` for `b2` (its change detector is a child of the necessary main node, hence necessary, valid,
  not stale) gives the image of the inner template.
* `den2_aux` (on the fuel `k` of `den2`): every necessary top-level node of rank `< k` has `den2 env s k n = value n` (children have smaller rank, `N2.kidLt`).
-/
namespace IncrVerif.Proofs.NestH
open IncrVerif.Engine IncrVerif.Proofs IncrVerif.Proofs.Step IncrVerif.Proofs.Sched
open IncrVerif.Proofs.BindH

namespace N5d
open IncrVerif.Proofs.BindH.C3d

/-- the children of a valid main node -/
theorem main_kids {env : Env} {rk : Nat → Nat} {s : State} (A : F2Inv env rk s) {b : Nat} {br : BindRec}
    (hb : s.binds[b]? = some br) (hv : (s.nodeD br.main).valid = true) :
    s.children br.main = br.lhsChange :: br.rhs.toList := by
  obtain ⟨-, -, -, h4, -⟩ := A.frag.recs b br hb
  unfold State.children Node.kind?
  rw [hv, h4]
  simp only [if_true, hb]
  cases br.rhs <;> rfl

/-- the children of a valid change detector -/
theorem lc_kids {env : Env} {rk : Nat → Nat} {s : State} (A : F2Inv env rk s) {b : Nat} {br : BindRec}
    (hb : s.binds[b]? = some br) (hv : (s.nodeD br.lhsChange).valid = true) :
    s.children br.lhsChange = [br.lhs] := by
  obtain ⟨-, -, h3, -, -⟩ := A.frag.recs b br hb
  unfold State.children Node.kind?
  rw [hv, h3]
  simp only [if_true, hb]

/-- a bind whose main node is necessary: change detector and lhs are necessary, the change detector is valid and not stale, ranks -/
theorem live_bind {env : Env} {rk : Nat → Nat} {s : State} (g : BGraph env s) (A : F2Inv env rk s)
    (hall : ∀ m, s.isNecessary m = true → s.isStale m = false ∧ ConsistentB env s m)
    {b : Nat} {br : BindRec} (hb : s.binds[b]? = some br) (hn : s.isNecessary br.main = true) :
    s.isNecessary br.lhsChange = true ∧ (s.nodeD br.lhsChange).valid = true ∧ s.isStale br.lhsChange = false ∧
      s.isNecessary br.lhs = true ∧ rk br.lhs < rk br.lhsChange ∧ rk br.lhsChange < rk br.main ∧
      br.lhs ∈ s.children br.lhsChange := by
  have hmv := (g.nec _ hn).1
  have hch := main_kids A hb hmv
  have hlcmem : br.lhsChange ∈ s.children br.main := by rw [hch]; exact List.mem_cons_self ..
  have hlcn := (g.edge_nec hn (Edge.child hlcmem)).1
  have hlcv := (g.nec _ hlcn).1
  have hlk := lc_kids A hb hlcv
  have hlmem : br.lhs ∈ s.children br.lhsChange := by rw [hlk]; exact List.mem_singleton.2 rfl
  have hln := (g.edge_nec hlcn (Edge.child hlmem)).1
  exact ⟨hlcn, hlcv, (hall _ hlcn).1, hln, A.frag.kid_rk (g.nec_lt hlcn) hlmem, A.frag.kid_rk (g.nec_lt hn) hlcmem, hlmem⟩

/-- **the nesting induction**: the closure of a bind whose main node is necessary, run (`denBody`) on the stored value of the lhs, yields the stored value of the main node -/
theorem body_agree {env : Env} {rk : Nat → Nat} {s : State} (g : BGraph env s) (A : F2Inv env rk s) (G : GenOK2 env s)
    (hall : ∀ m, s.isNecessary m = true → s.isStale m = false ∧ ConsistentB env s m)
    (ev : Nat → Option Val) (R : Nat)
    (hev : ∀ c, s.isNecessary c = true → (s.nodeD c).createdIn = .top → rk c < R → ev c = (s.nodeD c).value) :
    ∀ (d b : Nat) (br : BindRec), s.binds[b]? = some br → s.isNecessary br.main = true → rk br.main ≤ R → rk br.main ≤ d →
      ∀ v, (s.nodeD br.lhs).value = some v → denBody env ev s.top d br.body v = (s.nodeD br.main).value := by
  intro d
  induction d with
  | zero =>
    intro b br hb hn _ hd
    have := (live_bind g A hall hb hn).2.2.2.2.2.1
    omega
  | succ d ih =>
    intro b br hb hn hR hd v hv
    have hmv := (g.nec _ hn).1
    have hmlt := g.nec_lt hn
    obtain ⟨-, hlcv, hlcst, -, -, -, -⟩ := live_bind g A hall hb hn
    obtain ⟨-, -, -, hmk, -⟩ := A.frag.recs b br hb
    obtain ⟨v', r, locs, hlv, hrhs, E⟩ := G b br hb hlcv hlcst
    rw [hv] at hlv
    injection hlv with hlv
    subst hlv
    -- the value of the main node is the value of the right-hand side
    obtain ⟨w, ht, hval⟩ := (hall _ hn).2
    unfold TargetB at ht
    rw [hmk] at ht
    obtain ⟨br', r', hb', hr', hrv⟩ := ht
    rw [hb] at hb'
    injection hb' with hb'
    subst hb'
    rw [hrhs] at hr'
    injection hr' with hr'
    subst hr'
    have hch := main_kids A hb hmv
    have hrmem : r ∈ s.children br.main := by rw [hch, hrhs]; simp
    have hrn := (g.edge_nec hn (Edge.child hrmem)).1
    have htopT : ∀ (k' r' : Nat), s.top[k']? = some r' → (s.nodeD r').createdIn = .top :=
      fun k' r' h => (A.topOK k' r' h).2.1
    -- the locals are nodes of scope `b`
    have hloc : ∀ m, m ∈ locs → m < s.nodes.size ∧ (s.nodeD m).createdIn = .bind b := by
      intro m hm
      have : m ∈ br.allNodesCreatedOnRhs := by rw [E.reg]; exact mem_regOf hm
      obtain ⟨h1, -, h3⟩ := (A.frag.gen b br hb m).1 (Or.inl this)
      exact ⟨h1, h3⟩
    have hAg := agree_instrs2 g ev (denBody env ev s.top d) v (fun c => rk c < R) (fun m hm => (hall m hm).2) hev htopT
      (env.body br.body v).instrs locs [] [] (Agree.nil s) E.len.symm
      (fun j i m h1 h2 => by simpa only [List.nil_append] using E.img j i m h1 h2)
      (fun m hm hmn => by
        obtain ⟨hml, hmsc⟩ := hloc m hm
        have hrkm := (A.frag.scope_rk hml hmsc hb).2
        refine ⟨?_, ?_⟩
        · intro c hc _
          have := A.frag.kid_rk hml hc
          show rk c < R
          omega
        · intro b2 br2 hb2 hmain
          subst hmain
          obtain ⟨-, hlc2v, hlc2st, hl2n, hr1, hr2, -⟩ := live_bind g A hall hb2 hmn
          obtain ⟨v2, -, -, hlv2, -, -⟩ := G b2 br2 hb2 hlc2v hlc2st
          refine ⟨hl2n, ?_, v2, hlv2, ih b2 br2 hb2 hmn (by omega) (by omega) v2 hlv2⟩
          intro _
          show rk br2.lhs < R
          omega)
    rw [List.nil_append] at hAg
    have hret := E.ret
    unfold denBody
    rw [hval, ← hrv]
    show denOpnd ev s.top (denInstrs2 env ev s.top (denBody env ev s.top d) v (env.body br.body v).instrs [])
      (env.body br.body v).ret = (s.nodeD r).value
    generalize (env.body br.body v).ret = o at hret ⊢
    have hrr : (s.nodeD r).createdIn = .top → rk r < R := by
      intro _
      have := A.frag.kid_rk hmlt hrmem
      omega
    exact opnd_agree2 ev (fun c => rk c < R) hev htopT hAg o r hret hrn hrr

/-- **the main induction** -/
theorem den2_aux {env : Env} {rk : Nat → Nat} {s : State} (g : BGraph env s) (A : F2Inv env rk s) (G : GenOK2 env s)
    (hall : ∀ m, s.isNecessary m = true → s.isStale m = false ∧ ConsistentB env s m) :
    ∀ k n, s.isNecessary n = true → (s.nodeD n).createdIn = .top → rk n < k →
      den2 env s k n = (s.nodeD n).value := by
  intro k
  induction k with
  | zero => intro n _ _ h; omega
  | succ k ih =>
    intro n hn htopn hk
    obtain ⟨w, ht, hv⟩ := (hall n hn).2
    have hnlt := g.nec_lt hn
    have hnv := (g.nec n hn).1
    have N := A.frag.node n hnlt
    have hnec : ∀ c, c ∈ s.children n → s.isNecessary c = true := fun c hc => (g.edge_nec hn (Edge.child hc)).1
    rw [hv]
    unfold TargetB at ht
    unfold den2
    cases hkd : (s.nodeD n).kind with
    | const w' => rw [hkd] at ht; simp only [Target, hkd] at ht; simp only [ht]
    | var c =>
      rw [hkd] at ht
      simp only [Target, hkd] at ht
      obtain ⟨vc, h1, h2⟩ := ht
      simp only [h1, h2, Option.map_some]
    | map f args =>
      rw [hkd] at ht
      have hcs : s.children n = args := by unfold State.children Node.kind?; rw [hnv, hkd]; rfl
      have hkids : ∀ a, a ∈ args → den2 env s k a = (s.nodeD a).value := by
        intro a ha
        rw [← hcs] at ha
        have := N.kidLt a ha
        rcases (N.top htopn).2 a ha with h1 | ⟨b, lc, h1, _⟩
        · exact ih a (hnec a ha) h1 (by omega)
        · rw [hkd] at h1; cases h1
      simp only [Target, hkd] at ht
      obtain ⟨vals, h1, h2⟩ := ht
      simp only
      rw [evalArgs_congr _ _ args (fun a ha => hkids a ha)]
      unfold plainVals at h1
      rw [h1, h2]; rfl
    | fold f init cs =>
      rw [hkd] at ht
      have hcs : s.children n = cs := by unfold State.children Node.kind?; rw [hnv, hkd]; rfl
      have hkids : ∀ a, a ∈ cs → den2 env s k a = (s.nodeD a).value := by
        intro a ha
        rw [← hcs] at ha
        have := N.kidLt a ha
        rcases (N.top htopn).2 a ha with h1 | ⟨b, lc, h1, _⟩
        · exact ih a (hnec a ha) h1 (by omega)
        · rw [hkd] at h1; cases h1
      simp only [Target, hkd] at ht
      obtain ⟨vals, h1, h2⟩ := ht
      simp only
      rw [evalArgs_congr _ _ cs (fun a ha => hkids a ha)]
      unfold plainVals at h1
      rw [h1, h2]; rfl
    | bindLhsChange b => rw [hkd] at ht; simp only at ht; rw [ht]
    | bindMain b lc =>
      obtain ⟨br, hb, hmain, hlc, -⟩ := g.mainRec n b lc hnlt hnv hkd
      subst hmain
      obtain ⟨-, -, hlck, -, hsc⟩ := A.frag.recs b br hb
      obtain ⟨hlcn, -, -, hln, hr1, hr2, hlmem⟩ := live_bind g A hall hb hn
      -- the lhs is a top-level node
      have hlctop : (s.nodeD br.lhsChange).createdIn = .top := by rw [← hsc]; exact htopn
      have hltop : (s.nodeD br.lhs).createdIn = .top := by
        rcases ((A.frag.node _ (g.nec_lt hlcn)).top hlctop).2 br.lhs hlmem with h1 | ⟨b', lc', h1, _⟩
        · exact h1
        · rw [hlck] at h1; cases h1
      obtain ⟨v, -, hlv⟩ := (hall _ hln).2
      have hlhs : den2 env s k br.lhs = some v := by
        rw [← hlv]
        exact ih br.lhs hln hltop (by omega)
      simp only [hb, hlhs]
      rw [← hv]
      exact body_agree g A G hall (den2 env s k) (rk br.main)
        (fun c h1 h2 h3 => ih c h1 h2 (by omega)) k b br hb hn (Nat.le_refl _) (by omega) v hlv
    | mapRef _ _ => rw [hkd] at ht; simp only [Target, hkd] at ht
    | mapWithOld _ _ => rw [hkd] at ht; simp only [Target, hkd] at ht
    | expert _ => rw [hkd] at ht; simp only [Target, hkd] at ht

end N5d

/-- **values = from-scratch semantics, nested binds.**  In a state at rest in which every necessary node is consistent and not stale (e.g. after a drain:
`DInv env s none` with an empty heap), with the fragment facts `F2Inv` and current generations `GenOK2`: every necessary TOP-LEVEL node's stored value is
its from-scratch value `den2`, for every fuel above the node's (ghost) rank. -/
theorem den2_of_consistent_fuel {env : Env} {rk : Nat → Nat} {s : State} (g : BGraph env s) (A : F2Inv env rk s) (G : GenOK2 env s)
    (hall : ∀ m, s.isNecessary m = true → s.isStale m = false ∧ ConsistentB env s m) :
    ∀ n, n < s.nodes.size → (s.nodeD n).createdIn = .top → s.isNecessary n = true → ∀ k, rk n < k →
      (s.nodeD n).value = den2 env s k n :=
  fun n _ htop hn k hk => (N5d.den2_aux g A G hall k n hn htop hk).symm

/-- the existential form: the stored value is `some`, and it is the from-scratch value for all sufficiently large fuels -/
theorem den2_of_consistent {env : Env} {rk : Nat → Nat} {s : State} (g : BGraph env s) (A : F2Inv env rk s) (G : GenOK2 env s)
    (hall : ∀ m, s.isNecessary m = true → s.isStale m = false ∧ ConsistentB env s m)
    (n : Nat) (hn : s.isNecessary n = true) (htop : (s.nodeD n).createdIn = .top) :
    ∃ K w, (s.nodeD n).value = some w ∧ ∀ k, K ≤ k → den2 env s k n = some w := by
  obtain ⟨w, -, hv⟩ := (hall n hn).2
  refine ⟨rk n + 1, w, hv, fun k hk => ?_⟩
  rw [← hv]
  exact N5d.den2_aux g A G hall k n hn htop (by omega)

/-- the same for the closure of ANY bind (top-level or inner) whose main node is necessary: the stored value of the main node is `denBody` of the closure on the
stored value of the lhs, for every `ev` that is correct on the necessary top-level nodes of rank below the main node's, and every fuel `≥` the main node's rank -/
theorem denBody_of_consistent {env : Env} {rk : Nat → Nat} {s : State} (g : BGraph env s) (A : F2Inv env rk s) (G : GenOK2 env s)
    (hall : ∀ m, s.isNecessary m = true → s.isStale m = false ∧ ConsistentB env s m)
    (ev : Nat → Option Val) {b : Nat} {br : BindRec} (hb : s.binds[b]? = some br) (hn : s.isNecessary br.main = true)
    (hev : ∀ c, s.isNecessary c = true → (s.nodeD c).createdIn = .top → rk c < rk br.main → ev c = (s.nodeD c).value)
    (d : Nat) (hd : rk br.main ≤ d) (v : Val) (hv : (s.nodeD br.lhs).value = some v) :
    denBody env ev s.top d br.body v = (s.nodeD br.main).value :=
  N5d.body_agree g A G hall ev (rk br.main) hev d b br hb hn (Nat.le_refl _) hd v hv

end IncrVerif.Proofs.NestH
