import IncrVerif.Proofs.ExpertH69
/-!
# Expert nodes, fragment X2: a decidable check of `RunOK2`, and the harness' "cbsum" closure
-/
namespace IncrVerif.Proofs.ExpertH
open IncrVerif.Engine IncrVerif.Driver IncrVerif.Proofs IncrVerif.Proofs.Step IncrVerif.Proofs.Sched
open IncrVerif.Proofs.ExpertH.QR IncrVerif.Proofs.Xp

/-- may a dependency WITHOUT callback be added to the expert node the operand names?  (`sOK f`: the closure `f` does
not read the slots) -/
def nocbOKB (sOK : Nat → Bool) (s : State) : Opnd → Bool
  | .outer kn =>
    match s.top[kn]? with
    | some n =>
      match (s.nodeD n).kind with
      | .expert e => match s.experts[e]? with
        | some er => sOK er.f
        | none => true
      | _ => true
    | none => true
  | _ => true

def actionOKB2 (mapOK xOK sOK : Nat → Bool) (s : State) : Action → Bool
  | .addDep eo co cb => addDepOKB s eo co && (cb || nocbOKB sOK s eo)
  | a => actionOKB mapOK xOK s a

theorem actionOKB2_sound {env : Env} {mapOK xOK sOK : Nat → Bool}
    (hm : ∀ f, mapOK f = true → f < fnPerKey ∧ (f < fnZip → ∀ vals, env.fnEff f vals = []))
    (hx : ∀ f, xOK f = true → XEnvCb env f ∧ f < xBase)
    (hs : ∀ f, sOK f = true → XEnvOK env f) {s : State} {a : Action}
    (h : actionOKB2 mapOK xOK sOK s a = true) : XActionOK2 env s a := by
  have hx' : ∀ f, xOK f = true → XEnvOK (envS env) f ∧ f < xBase :=
    fun f hf => ⟨xEnvOK_envS (hx f hf).1, (hx f hf).2⟩
  have hm' : ∀ f, mapOK f = true → f < fnPerKey ∧ (f < fnZip → ∀ vals, (envS env).fnEff f vals = []) := hm
  cases a
  case addDep eo co cb =>
    simp only [actionOKB2, Bool.and_eq_true, Bool.or_eq_true] at h
    refine ⟨addDepOKB_sound h.1, ?_⟩
    rcases h.2 with h2 | h2
    · exact Or.inl h2
    · refine Or.inr fun kn n e er heo hn hk he => ?_
      subst heo
      simp only [nocbOKB, hn, hk, he] at h2
      exact hs _ h2
  all_goals (
    have h' := h
    simp only [actionOKB2] at h'
    have := actionOKB_sound (env := envS env) hm' hx' h'
    exact this)

/-- run the history on the model (under `env`) and check every action in the state in which it is executed -/
def runOKB2 (env : Env) (mapOK xOK sOK : Nat → Bool) : List Action → State → Array Nat → Bool
  | [], _, _ => true
  | a :: as, s, tk =>
    actionOKB2 mapOK xOK sOK s a &&
      match (stepAction env a tk).run.run s with
      | (.ok r, s') => runOKB2 env mapOK xOK sOK as s' r.2
      | (.error _, _) => true

theorem runOKB2_sound {env : Env} {mapOK xOK sOK : Nat → Bool}
    (hm : ∀ f, mapOK f = true → f < fnPerKey ∧ (f < fnZip → ∀ vals, env.fnEff f vals = []))
    (hx : ∀ f, xOK f = true → XEnvCb env f ∧ f < xBase)
    (hs : ∀ f, sOK f = true → XEnvOK env f) :
    ∀ (acts : List Action) (s : State) (tk : Array Nat), runOKB2 env mapOK xOK sOK acts s tk = true →
      RunOK2 env acts s tk := by
  intro acts
  induction acts with
  | nil => intro s tk _; trivial
  | cons a as ih =>
    intro s tk h
    simp only [runOKB2, Bool.and_eq_true] at h
    refine ⟨actionOKB2_sound hm hx hs h.1, fun r s' hr => ?_⟩
    have h2 := h.2
    rw [hr] at h2
    exact ih s' r.2 h2

/-! ## the harness' "cbsum" closure -/

theorem foldl_zip_self (vals : List Val) (a : Int) :
    (((vals.map some).zip (vals.map some)).foldl (fun a (so : Option Val × Option Val) =>
      a + (match so.1 with | some v => v.toInt | none => 0)) a) = (vals.map Val.toInt).foldl (· + ·) a := by
  induction vals generalizing a with
  | nil => rfl
  | cons v vs ih => simp only [List.map_cons, List.zip_cons_cons, List.foldl_cons]; exact ih _

/-- **the harness' `expert cbsum m` closure** (`f = 10 * m + 1`), applied to slots that are the dependency values, is the
sum of the dependencies modulo `m` -/
theorem toEnv_xEnvCb (d : Defs) (f : Nat) (h : f % 10 = 1) : XEnvCb d.toEnv f := by
  intro vals
  rw [foldl_xStep]
  show (if (f % 10 == 0) = true then _ else _) = _
  rw [if_neg (by simp [h])]
  have e2 : ((f : Int) / 10) = ((f / 10 : Nat) : Int) := by omega
  show Val.int (emod (List.foldl (fun a (so : Option Val × Option Val) =>
    a + (match so.1 with | some v => v.toInt | none => 0)) 0 ((List.map some vals).zip (List.map some vals)))
      ((f : Int) / 10)) = _
  rw [foldl_zip_self, e2]

end IncrVerif.Proofs.ExpertH
