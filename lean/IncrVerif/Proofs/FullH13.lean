import IncrVerif.Proofs.FullH12
/-!
# C01 full fragment: virtualisation commutes with node creation, part 2
(`elabInstr`, `elabInstrM`, `elabTemplate`)
-/
namespace IncrVerif.Proofs.FullH
open IncrVerif.Engine IncrVerif.Proofs IncrVerif.Proofs.Step IncrVerif.Proofs.Sched IncrVerif.Proofs.Quiet
open IncrVerif.Proofs.MapOldH (enc dec WId dec_enc MReach GoodMachine)

namespace SC

/-! ## what the creation functions do to the naming data (`top`, number of nodes, result) -/

theorem map_ok_inv {α β} {f : α → β} {x : M α} {s s' : State} {r : β}
    (h : (f <$> x).run.run s = (.ok r, s')) : ∃ a, x.run.run s = (.ok a, s') ∧ r = f a := by
  rw [map_eq_pure_bind] at h
  obtain ⟨a, s1, h1, h2⟩ := bind_ok_inv h
  obtain ⟨e1, e2⟩ := pure_ok_inv h2
  rw [e2]
  exact ⟨a, h1, e1⟩

/-- the result of a successful `resolveOpnd` of an `OpndS` operand -/
theorem resolveOpnd_inv {loc : List Nat} {o : Opnd} {s s' : State} {a : Nat} (ho : OpndS o)
    (h : (Engine.resolveOpnd loc o).run.run s = (.ok a, s')) :
    s' = s ∧ ((∃ k : Nat, s.top[k]? = some a) ∨ a ∈ loc) := by
  unfold Engine.resolveOpnd at h
  cases o
  case abs n => exact ho.elim
  case slot n => exact ho.elim
  case outer k =>
    simp only at h
    rw [run_bind_get] at h
    cases hm : s.top[k]? with
    | some m =>
      rw [hm] at h
      obtain ⟨e1, e2⟩ := pure_ok_inv h
      subst e1; exact ⟨e2, Or.inl ⟨k, hm⟩⟩
    | none => rw [hm] at h; cases h
  case loc j =>
    simp only at h
    cases hm : loc[j]? with
    | some m =>
      rw [hm] at h
      obtain ⟨e1, e2⟩ := pure_ok_inv h
      subst e1; exact ⟨e2, Or.inr (List.mem_of_getElem? hm)⟩
    | none => rw [hm] at h; cases h

theorem resolveOpnd_lt {loc : List Nat} {o : Opnd} {s s' : State} {a : Nat} (ho : OpndS o) (ht : TopLt s)
    (hl : ∀ m ∈ loc, m < s.nodes.size) (h : (Engine.resolveOpnd loc o).run.run s = (.ok a, s')) :
    a < s.nodes.size := by
  obtain ⟨-, ⟨k, hk⟩ | hm⟩ := resolveOpnd_inv ho h
  · exact ht k a hk
  · exact hl a hm

/-- a creator: `top` unchanged, the state grows, the result is a node of the final state -/
def Cr (x : M Nat) : Prop :=
  ∀ s n s', x.run.run s = (.ok n, s') → s'.top = s.top ∧ s.nodes.size ≤ s'.nodes.size ∧ n < s'.nodes.size

def CrO (x : M (Option Nat)) : Prop :=
  ∀ s r s', x.run.run s = (.ok r, s') →
    s'.top = s.top ∧ s.nodes.size ≤ s'.nodes.size ∧ ∃ n, r = some n ∧ n < s'.nodes.size

theorem Cr.createNode (k : Kind) (sc : Scope) (c : CutoffK) : Cr (Engine.createNode k sc c) := by
  intro s n s' h
  obtain ⟨e, h1, h2⟩ := createNode_inv h
  exact ⟨h1, by omega, by omega⟩

theorem Cr.createVar (v : Val) (sc : Scope) : Cr (Engine.createVar v sc) := by
  intro s n s' h
  unfold Engine.createVar at h
  rw [run_bind_get] at h
  obtain ⟨m, s1, h1, h2⟩ := bind_ok_inv h
  obtain ⟨e, t1, z1⟩ := createNode_inv h1
  rw [run_bind_modify] at h2
  obtain ⟨e1, e2⟩ := pure_ok_inv h2
  subst e1 e2
  exact ⟨t1, by simp only []; omega, by simp only []; omega⟩

theorem Cr.createBind (body lhs : Nat) : Cr (Engine.createBind body lhs) := by
  intro s n s' h
  unfold Engine.createBind at h
  rw [run_bind_get, run_bind_modify] at h
  obtain ⟨lc, s1, h1, h⟩ := bind_ok_inv h
  obtain ⟨-, t1, z1⟩ := createNode_inv h1
  obtain ⟨mn, s2, h2, h⟩ := bind_ok_inv h
  obtain ⟨e2, t2, z2⟩ := createNode_inv h2
  unfold Engine.modBind at h
  rw [run_bind_modify] at h
  obtain ⟨e3, e4⟩ := pure_ok_inv h
  subst e3 e4
  simp only [] at t1 z1
  exact ⟨by simp only []; rw [t2, t1], by simp only []; omega, by simp only []; omega⟩

theorem CrO.some {x : M Nat} (h : Cr x) : CrO (some <$> x) := by
  intro s r s' hr
  obtain ⟨n, h1, e⟩ := map_ok_inv hr
  obtain ⟨a, b, c⟩ := h s n s' h1
  exact ⟨a, b, n, e, c⟩

theorem CrO.ro {α} {x : M α} {f : α → M (Option Nat)} (hro : Step.Pres SameS x) (hf : ∀ a, CrO (f a)) :
    CrO (x >>= f) := by
  intro s r s' hr
  obtain ⟨a, s1, h1, h2⟩ := bind_ok_inv hr
  have e : s1 = s := hro.h s _ s1 h1
  subst e
  exact hf a s1 r s' h2

macro "cro" : tactic => `(tactic| first
  | with_reducible exact CrO.some (Cr.createNode _ _ _)
  | with_reducible exact CrO.some (Cr.createVar _ _)
  | with_reducible exact CrO.some (Cr.createBind _ _))

theorem CrO.elabInstr {env : Env} {sp : Nat → Val → Val} (loc : List Nat) (v : Val) {i : Instr}
    (hi : InstrS env sp i) : CrO (Engine.elabInstr loc v i) := by
  unfold Engine.elabInstr
  cases i <;> simp only [InstrS] at hi <;> refine CrO.ro Step.Pres.get fun s0 => ?_ <;> simp only []
  case const v => cro
  case lhsConst => cro
  case var v => cro
  case map f args =>
    refine CrO.ro (Step.Pres.mapM (fun a => RO.resolveOpnd loc a) args) fun as => ?_
    cro
  case fold f init cs =>
    refine CrO.ro (Step.Pres.mapM (fun a => RO.resolveOpnd loc a) cs) fun as => ?_
    split <;> cro
  case mapRef p o => exact CrO.ro (RO.resolveOpnd loc o) fun x => by cro
  case mapWithOld m o => exact CrO.ro (RO.resolveOpnd loc o) fun x => by cro
  case bind b o => exact CrO.ro (RO.resolveOpnd loc o) fun x => by cro
  case zip a b =>
    refine CrO.ro (RO.resolveOpnd loc a) fun x => ?_
    refine CrO.ro (RO.resolveOpnd loc b) fun y => ?_
    refine CrO.ro (RO.isConstant x) fun cx => ?_
    refine CrO.ro (RO.isConstant y) fun cy => ?_
    split <;> cro
  case dependOn a b =>
    refine CrO.ro (RO.resolveOpnd loc a) fun x => ?_
    refine CrO.ro (RO.resolveOpnd loc b) fun y => ?_
    cro

end SC

/-! ## `elabInstr`, `elabInstrM` -/

section
variable {env : Env} {sp : Nat → Val → Val} {g : Nat → Option Val}

theorem SimAt.createNode' {s : State} {k k' : Kind} (sc : Scope) (c : CutoffK) {c' : CutoffK} (hk' : k' = virtKind k)
    (hc' : c' = virtCut k c) (hk : FK env sp k) (hb : ∀ p i, k = .mapRef p i → i < s.nodes.size) (hc : CutK k c) :
    SimAt (FK env sp) g s (Engine.createNode k sc c) (Engine.createNode k' sc c') := by
  subst hk' hc'; exact SimAt.createNode k sc c hk hb hc

/-- `some <$> createNode k sc c` for a kind that is not `mapRef` -/
macro "cr_node" : tactic => `(tactic|
  exact SC.simAt_map _ (SimAt.createNode' _ _ rfl rfl
    (by first | trivial | assumption | exact ⟨by decide, fun h => absurd h (by decide)⟩)
    (fun p i h => by cases h) (by first | exact Or.inl rfl | exact Or.inr (Or.inr ⟨_, _, rfl, rfl⟩))))

theorem SimAt.elabInstr {s : State} (loc : List Nat) (v : Val) (i : Instr) (hi : InstrS env sp i)
    (hop : ∀ o ∈ InstrOpnds i, OpndS o) (ht : TopLt s) (hl : ∀ m ∈ loc, m < s.nodes.size) :
    SimAt (FK env sp) g s (Engine.elabInstr loc v i) (Engine.elabInstr loc v (virtI i)) := by
  unfold Engine.elabInstr
  cases i <;> simp only [InstrS] at hi <;> simp only [virtI] <;> refine SimAt.get_seq ?_ <;> try fnorm
  case const v => cr_node
  case lhsConst => cr_node
  case var v => exact SC.simAt_map _ (Sim.createVar v .top s)
  case map f args =>
    refine SC.ro_seq (Step.Pres.mapM (fun a => SC.RO.resolveOpnd loc a) args)
      (SC.sim_mapM (fun a => Sim.resolveOpnd loc a) args s) fun as _ => ?_
    cr_node
  case fold f init cs =>
    refine SC.ro_seq (Step.Pres.mapM (fun a => SC.RO.resolveOpnd loc a) cs)
      (SC.sim_mapM (fun a => Sim.resolveOpnd loc a) cs s) fun as _ => ?_
    refine SimAt.cond Iff.rfl (fun _ => ?_) (fun _ => ?_) <;> cr_node
  case mapRef p o =>
    simp only [List.mapM_cons, List.mapM_nil, bind_assoc, pure_bind]
    refine SC.ro_seq (SC.RO.resolveOpnd loc o) (Sim.resolveOpnd loc o s) fun x hx => ?_
    have hlt : x < s.nodes.size := SC.resolveOpnd_lt (hop o (by simp [InstrOpnds])) ht hl hx
    exact SC.simAt_map _ (SimAt.createNode' _ _ rfl rfl hi (fun p' i' h => by cases h; exact hlt) (Or.inl rfl))
  case mapWithOld m o =>
    simp only [List.mapM_cons, List.mapM_nil, bind_assoc, pure_bind]
    refine SC.ro_seq (SC.RO.resolveOpnd loc o) (Sim.resolveOpnd loc o s) fun x _ => ?_
    cr_node
  case bind b o =>
    refine SC.ro_seq (SC.RO.resolveOpnd loc o) (Sim.resolveOpnd loc o s) fun x _ => ?_
    exact SC.simAt_map _ (SimAt.createBind b x)
  case zip a b =>
    refine SC.ro_seq (SC.RO.resolveOpnd loc a) (Sim.resolveOpnd loc a s) fun x _ => ?_
    refine SC.ro_seq (SC.RO.resolveOpnd loc b) (Sim.resolveOpnd loc b s) fun y _ => ?_
    refine SC.ro_seq (SC.RO.isConstant x) (Sim.isConstant x s) fun cx _ => ?_
    refine SC.ro_seq (SC.RO.isConstant y) (Sim.isConstant y s) fun cy _ => ?_
    split <;> cr_node
  case dependOn a b =>
    simp only [List.mapM_cons, List.mapM_nil, bind_assoc, pure_bind]
    refine SC.ro_seq (SC.RO.resolveOpnd loc a) (Sim.resolveOpnd loc a s) fun x _ => ?_
    refine SC.ro_seq (SC.RO.resolveOpnd loc b) (Sim.resolveOpnd loc b s) fun y _ => ?_
    cr_node

theorem elabInstrM_eq (env' : Env) (loc : List Nat) (v : Val) {i : Instr} (hi : InstrS env sp i) :
    Engine.elabInstrM env' loc v i = Engine.elabInstr loc v i := by
  cases i <;> first | rfl | exact absurd hi (by simp [InstrS])

theorem elabInstrM_virt_eq (env' : Env) (loc : List Nat) (v : Val) {i : Instr} (hi : InstrS env sp i) :
    Engine.elabInstrM env' loc v (virtI i) = Engine.elabInstr loc v (virtI i) := by
  cases i <;> first | rfl | exact absurd hi (by simp [InstrS])

theorem SimAt.elabInstrM {s : State} (loc : List Nat) (v : Val) (i : Instr) (hi : InstrS env sp i)
    (hop : ∀ o ∈ InstrOpnds i, OpndS o) (ht : TopLt s) (hl : ∀ m ∈ loc, m < s.nodes.size) :
    SimAt (FK env sp) g s (Engine.elabInstrM env loc v i) (Engine.elabInstrM (VE env sp) loc v (virtI i)) := by
  rw [elabInstrM_eq _ _ _ hi, elabInstrM_virt_eq _ _ _ hi]
  exact SimAt.elabInstr loc v i hi hop ht hl

/-! ## `elabTemplate` -/

/-- the loop of `elabTemplate`: same locals on both sides; invariant `TopLt` and "the locals are nodes" -/
theorem SC.sim_loop (v : Val) (l : List Instr) : ∀ (loc : List Nat) (s : State),
    (∀ i ∈ l, InstrS env sp i ∧ ∀ o ∈ InstrOpnds i, OpndS o) → TopLt s → (∀ m ∈ loc, m < s.nodes.size) →
    SimAt (FK env sp) g s
      (forIn l loc fun i r => do
        let x ← Engine.elabInstrM env r v i
        match x with
        | some n => pure (ForInStep.yield (r ++ [n]))
        | none => pure (ForInStep.yield r))
      (forIn (l.map virtI) loc fun i r => do
        let x ← Engine.elabInstrM (VE env sp) r v i
        match x with
        | some n => pure (ForInStep.yield (r ++ [n]))
        | none => pure (ForInStep.yield r)) := by
  induction l with
  | nil => intro loc s _ _ _; rw [List.map_nil, List.forIn_nil, List.forIn_nil]; exact SimAt.ret _
  | cons i l ih =>
    intro loc s hI ht hl
    have hi := hI i List.mem_cons_self
    rw [List.map_cons, List.forIn_cons, List.forIn_cons]
    refine SimAt.seq (SimAt.seq (SimAt.elabInstrM loc v i hi.1 hi.2 ht hl) fun ro s1 _ => ?_) fun r s1 h1 => ?_
    · cases ro <;> exact SimAt.ret _
    · obtain ⟨ro, s2, h2, h3⟩ := bind_ok_inv h1
      rw [elabInstrM_eq _ _ _ hi.1] at h2
      obtain ⟨htop, hsz, n, rfl, hn⟩ := SC.CrO.elabInstr loc v hi.1 s ro s2 h2
      have ht2 : TopLt s2 := fun k r hk => Nat.lt_of_lt_of_le (ht k r (by rw [← htop]; exact hk)) hsz
      have hl2 : ∀ m ∈ loc ++ [n], m < s2.nodes.size := by
        intro m hm
        rcases List.mem_append.1 hm with hm | hm
        · exact Nat.lt_of_lt_of_le (hl m hm) hsz
        · rw [List.mem_singleton.1 hm]; exact hn
      obtain ⟨rfl, rfl⟩ := pure_ok_inv h3
      exact ih _ _ (fun j hj => hI j (List.mem_cons_of_mem _ hj)) ht2 hl2

/-- **virtualisation commutes with the elaboration of a template** -/
theorem SimAt.elabTemplate {s : State} (t : Template) (v : Val)
    (hi : ∀ i ∈ t.instrs, InstrS env sp i ∧ ∀ o ∈ InstrOpnds i, OpndS o) (_hr : OpndS t.ret) (ht : TopLt s) :
    SimAt (FK env sp) g s (Engine.elabTemplate env t v) (Engine.elabTemplate (VE env sp) (virtT t) v) := by
  unfold Engine.elabTemplate
  exact SimAt.seq (SC.sim_loop v t.instrs [] s hi ht (fun m hm => by cases hm)) fun loc s1 _ =>
    Sim.resolveOpnd loc t.ret s1

/-! ## what `elabTemplate` does to the naming data -/

theorem SC.loop_post (env' : Env) (v : Val) (l : List Instr) : ∀ (loc : List Nat) (s : State) (loc' : List Nat) (s' : State),
    (∀ i ∈ l, InstrS env sp i) → (∀ m ∈ loc, m < s.nodes.size) →
    (forIn l loc fun i r => do
        let x ← Engine.elabInstrM env' r v i
        match x with
        | some n => pure (ForInStep.yield (r ++ [n]))
        | none => pure (ForInStep.yield r)).run.run s = (.ok loc', s') →
    s'.top = s.top ∧ s.nodes.size ≤ s'.nodes.size ∧ ∀ m ∈ loc', m < s'.nodes.size := by
  induction l with
  | nil =>
    intro loc s loc' s' _ hl h
    rw [List.forIn_nil] at h
    obtain ⟨rfl, rfl⟩ := pure_ok_inv h
    exact ⟨rfl, Nat.le_refl _, hl⟩
  | cons i l ih =>
    intro loc s loc' s' hI hl h
    have hi := hI i List.mem_cons_self
    rw [List.forIn_cons] at h
    obtain ⟨r, s1, h1, h4⟩ := bind_ok_inv h
    obtain ⟨ro, s2, h2, h3⟩ := bind_ok_inv h1
    rw [elabInstrM_eq _ _ _ hi] at h2
    obtain ⟨htop, hsz, n, rfl, hn⟩ := SC.CrO.elabInstr loc v hi s ro s2 h2
    have hl2 : ∀ m ∈ loc ++ [n], m < s2.nodes.size := by
      intro m hm
      rcases List.mem_append.1 hm with hm | hm
      · exact Nat.lt_of_lt_of_le (hl m hm) hsz
      · rw [List.mem_singleton.1 hm]; exact hn
    obtain ⟨rfl, rfl⟩ := pure_ok_inv h3
    obtain ⟨a, b, c⟩ := ih _ _ _ _ (fun j hj => hI j (List.mem_cons_of_mem _ hj)) hl2 h4
    exact ⟨a.trans htop, Nat.le_trans hsz b, c⟩

/-- a successful `elabTemplate` (of simulated instructions): `top` unchanged, the state grows, the result is a node -/
theorem SC.elabTemplate_post (env' : Env) {s s' : State} {t : Template} {v : Val} {rhs : Nat}
    (hi : ∀ i ∈ t.instrs, InstrS env sp i) (hr : OpndS t.ret) (ht : TopLt s)
    (h : (Engine.elabTemplate env' t v).run.run s = (.ok rhs, s')) :
    s'.top = s.top ∧ s.nodes.size ≤ s'.nodes.size ∧ rhs < s'.nodes.size := by
  unfold Engine.elabTemplate at h
  obtain ⟨loc, s1, h1, h2⟩ := bind_ok_inv h
  obtain ⟨a, b, c⟩ := SC.loop_post env' v t.instrs [] s loc s1 hi (fun m hm => by cases hm) h1
  have ht1 : TopLt s1 := fun k r hk => Nat.lt_of_lt_of_le (ht k r (by rw [← a]; exact hk)) b
  have hlt := SC.resolveOpnd_lt hr ht1 c h2
  obtain ⟨e, -⟩ := SC.resolveOpnd_inv hr h2
  subst e
  exact ⟨a, b, hlt⟩

end
end IncrVerif.Proofs.FullH
