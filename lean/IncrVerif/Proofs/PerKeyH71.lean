import IncrVerif.Proofs.PerKeyH69
import IncrVerif.Proofs.PerKeyH70
/-!
# Per-key operators, a run of an expert node, part 3: what the closure returns is the target value of the virtual node

* `target_input`: a per-key input node (`pk = some (op, some key)`): the constant fold.
* `target_result`: the result of an operator (`pk = some (op, none)`): the assembling fold (`AsmHyp`, `penv_fold_result`).
-/
namespace IncrVerif.Proofs.PerKeyH
open IncrVerif IncrVerif.Engine IncrVerif.Driver IncrVerif.Proofs IncrVerif.Proofs.Step IncrVerif.Proofs.Sched
open IncrVerif.Proofs.ExpertH IncrVerif.Proofs.EffH IncrVerif.Proofs.DriverH IncrVerif.Proofs.Xp

/-! ## lists of values -/

theorem evalArgs_len {ev : Nat → Option Val} {l : List Nat} {vals : List Val} (h : evalArgs ev l = some vals) :
    vals.length = l.length := by
  have := congrArg List.length (evalArgs_map h)
  simpa using this.symm

theorem evalArgs_get {ev : Nat → Option Val} {l : List Nat} {vals : List Val} (h : evalArgs ev l = some vals)
    {i a : Nat} (hi : l[i]? = some a) : vals[i]? = ev a := by
  have h1 := evalArgs_map h
  have h2 : (l.map ev)[i]? = (vals.map some)[i]? := by rw [h1]
  rw [List.getElem?_map, List.getElem?_map, hi] at h2
  cases hv : vals[i]? with
  | none => rw [hv] at h2; cases h2
  | some w => rw [hv] at h2; simp only [Option.map_some, Option.some.injEq] at h2; rw [h2]

/-! ## the values of the children of the current node -/

/-- the children of the current (expert) node carry values, which are their values in the actual state -/
theorem cur_vals {env : Env} {s : State} {n e : Nat} {er : ExpertRec} (D : PD env s (some n))
    (hk : (s.nodeD n).kind = .expert e) (he : s.experts[e]? = some er) :
    ∃ vals, plainVals (V s) (er.children.map (·.child)) = some vals ∧
      ∀ c, c ∈ er.children.map (·.child) → ∃ w, s.value env c = some w ∧ (s.nodeD c).value = some w := by
  have I := D.inv
  have F := D.aux.frag
  obtain ⟨-, hltV, hvV, -, -⟩ := I.cur_facts
  have frs : Fr s := fr_of_pfrag F D.aux.pinv
  obtain ⟨vals, hpv, -⟩ := BindH.BS.vals_of_children I.graph hltV hvV (staticKind_VD F n) I.kids_values
  have hkids : kids ((V s).nodeD n).kind = er.children.map (·.child) := by
    rw [V_kids, hk]; simp only [kidsX, xRec_some he]
  rw [hkids] at hpv
  refine ⟨vals, hpv, fun c hc => ?_⟩
  obtain ⟨i, hi⟩ := List.mem_iff_getElem?.mp hc
  have := evalArgs_get hpv hi
  rw [V_nodeD, vNode_value] at this
  have hlen := evalArgs_len hpv
  have hil : i < vals.length := by
    rw [hlen]; exact (List.getElem?_eq_some_iff.mp hi).1
  refine ⟨vals[i], ?_, ?_⟩
  · rw [value_plain env s c (frs.not_mapRef c), ← this, List.getElem?_eq_getElem hil]
  · rw [← this, List.getElem?_eq_getElem hil]

/-! ## a per-key input node -/

theorem prevMap_getD (s : State) (op : Nat) :
    ((s.perkeys[op]?.map (·.prevMap)).getD []) = (pkRec s op).prevMap := by
  unfold pkRec
  cases s.perkeys[op]? <;> rfl

theorem target_input {env : Env} {s : State} {n e op : Nat} {key : Int} {er : ExpertRec} {v : Val}
    {d sl : List (Option Val)} (D : PD env s (some n))
    (hk : (s.nodeD n).kind = .expert e) (he : s.experts[e]? = some er) (hpk : er.pk = some (op, some key))
    (hv : (expertValue env e d sl).run.run (readyP env n e s er) = (.ok v, readyP env n e s er)) :
    BindH.TargetB (penv env) (V s) n v ∧ ∃ w, (pkRec s op).prevMap.lookup key = some w ∧ v = .int w := by
  obtain ⟨_, _, _, _, _, f6, _, _, _⟩ := Xp.readyRec_fields env s er
  rw [PerKey.expertValue_input env e d sl _ _ op key (readyP_get env n he) (f6.trans hpk)] at hv
  have hm : (((readyP env n e s er).perkeys[op]?.map (·.prevMap)).getD []) = (pkRec s op).prevMap :=
    prevMap_getD s op
  rw [hm] at hv
  cases hl : (pkRec s op).prevMap.lookup key with
  | none => rw [hl] at hv; cases hv
  | some w =>
    rw [hl] at hv
    have hvw : v = .int w := by cases hv; rfl
    obtain ⟨vals, hpv, -⟩ := cur_vals D hk he
    have hkv : ((V s).nodeD n).kind =
        .fold xConst (.int (((pkRec s op).prevMap.lookup key).getD 0)) (er.children.map (·.child)) := by
      rw [V_kind, hk]
      have := vKind_expert_key s (e := e) (op := op) (key := key) (by rw [xRec_some he]; exact hpk)
      rw [xRec_some he] at this
      exact this
    refine ⟨?_, w, rfl, hvw⟩
    unfold BindH.TargetB
    rw [hkv]
    show Target (penv env) (V s) n v
    unfold Target
    rw [hkv]
    refine ⟨vals, hpv, ?_⟩
    rw [penv_fold_xConst, hl, hvw]
    rfl

/-! ## the result of an operator -/

/-- the slots the closure of the current expert node reads: the current values of the children, for every dependency
with a callback whose child has a value -/
theorem ready_slots {env : Env} {s : State} {n e : Nat} {er : ExpertRec} (SI : SlotInv env s)
    (hk : (s.nodeD n).kind = .expert e) (he : s.experts[e]? = some er) {ed : ExpertEdge} (hmem : ed ∈ er.children)
    (hcb : ed.cb.isSome = true) {w : Val} (hv : s.value env ed.child = some w) :
    (readyRec env s er).slots.lookup ed.dep = some w := by
  cases hw : er.willFireAllCallbacks with
  | false =>
    rw [readyRec_slots_unchanged env s er hw, SI.good n e er hk he (Or.inl hw) ed hmem hcb, hv]
  | true => exact readyRec_slots env s er hw (SI.deps e er he).1 ed w hmem hcb hv

/-- the bookkeeping of the operator whose result is the current node -/
theorem result_op {env : Env} {s : State} {n e op : Nat} {er : ExpertRec} (P : PKOK env s)
    (hk : (s.nodeD n).kind = .expert e) (he : s.experts[e]? = some er) (hnode : er.node = n)
    (hpk : er.pk = some (op, none)) :
    ∃ pr, s.perkeys[op]? = some pr ∧ pr.result = n ∧ OpOK env s op pr ∧
      ∃ x d0 rest, OpNodes s op pr x e ∧
        er.children = { dep := d0, child := pr.lhsChange, cb := none } :: rest ∧
        (∀ ed, ed ∈ rest → ∃ key p, (key, (p, ed.dep)) ∈ pr.prevNodes) ∧
        (∀ key p d, (key, (p, d)) ∈ pr.prevNodes → d ≠ d0) ∧
        (∀ key p d, (key, (p, d)) ∈ pr.prevNodes → EntryOK env s op pr er key p d) := by
  obtain ⟨op', pr, hp, hcase⟩ := P.recs e er he
  rcases hcase with ⟨h1, h2⟩ | ⟨key, d, h1, -⟩
  · rw [hpk] at h1
    simp only [Option.some.injEq, Prod.mk.injEq, and_true] at h1
    subst h1
    have O := P.ops op pr hp
    obtain ⟨x, e2, er2, hN, he2, -, ⟨d0, rest, hc, hr, hd⟩, hE, -⟩ := O.nodes
    have hres : pr.result = n := by rw [← h2, hnode]
    have hkr := hN.result
    rw [hres, hk] at hkr
    cases hkr
    rw [he] at he2; cases he2
    exact ⟨pr, hp, hres, O, x, d0, rest, hN, hc, hr, hd, hE⟩
  · rw [hpk] at h1; cases h1

theorem target_result {env : Env} {s : State} {n e op : Nat} {er : ExpertRec} {v : Val}
    {d sl : List (Option Val)} (D : PD env s (some n))
    (hk : (s.nodeD n).kind = .expert e) (he : s.experts[e]? = some er) (hnode : er.node = n)
    (hpk : er.pk = some (op, none))
    (hv : (expertValue env e d sl).run.run (readyP env n e s er) = (.ok v, readyP env n e s er)) :
    BindH.TargetB (penv env) (V s) n v := by
  have A := D.aux
  have F := A.frag
  have SI := A.slots
  obtain ⟨f1, f2, f3, _, _, f6, _, _, _⟩ := Xp.readyRec_fields env s er
  rw [PerKey.expertValue_result env e d sl _ _ op (readyP_get env n he) (f6.trans hpk)] at hv
  have hvw : v = .map (AMap.ofList (PerKey.accOf (readyP env n e s er) (readyRec env s er) op)) := by cases hv; rfl
  obtain ⟨pr, hp, hres, O, x, d0, rest, hN, hc, hr, hd, hE⟩ := result_op A.pk hk he hnode hpk
  have hpr : pkRec s op = pr := by unfold pkRec; rw [hp]; rfl
  obtain ⟨vals, hpv, hcv⟩ := cur_vals D hk he
  have hnd := (SI.deps e er he).1
  have hlen := evalArgs_len hpv
  -- the hypotheses of the bridge
  have H : AsmHyp (pkRec s op).prevNodes { dep := d0, child := pr.lhsChange, cb := none } rest vals
      (readyRec env s er).slots := by
    rw [hpr]
    have hnd' := hnd
    rw [hc, List.map_cons, List.nodup_cons] at hnd'
    refine ⟨O.keys, O.deps, fun p hp' => ?_, hnd'.2, fun dd => ⟨fun hm => ?_, fun hm => ?_⟩, ?_, fun i hi => ?_⟩
    · obtain ⟨k, p1, p2⟩ := p
      exact hd k p1 p2 hp'
    · obtain ⟨ed, hed, rfl⟩ := List.mem_map.mp hm
      obtain ⟨key, p, hin⟩ := hr ed hed
      exact List.mem_map.mpr ⟨_, hin, rfl⟩
    · obtain ⟨⟨key, p, d2⟩, hin, rfl⟩ := List.mem_map.mp hm
      obtain ⟨ed, locs, hed, hdep, -⟩ := (hE key p d2 hin).edge
      rw [hc] at hed
      rcases List.mem_cons.mp hed with h0 | h0
      · exfalso
        rw [h0] at hdep
        exact hd key p d2 hin hdep.symm
      · exact List.mem_map.mpr ⟨ed, h0, hdep⟩
    · rw [hlen, List.length_map, hc]
    · -- the slot of the `i`-th entry
      have hmem : rest[i] ∈ er.children := by rw [hc]; exact List.mem_cons_of_mem _ (List.getElem_mem hi)
      obtain ⟨key, p, hin⟩ := hr rest[i] (List.getElem_mem hi)
      obtain ⟨ed, locs, hed, hdep, hcb, -⟩ := (hE key p _ hin).edge
      have hed_eq : ed = rest[i] := ExpertH.dep_inj hnd hed hmem hdep
      have hcb' : rest[i].cb.isSome = true := by rw [← hed_eq, hcb]; rfl
      have hci : (er.children.map (·.child))[i + 1]? = some rest[i].child := by
        rw [hc]; simp [hi]
      obtain ⟨w, hw1, hw2⟩ := hcv rest[i].child (List.mem_of_getElem? hci)
      rw [ready_slots SI hk he hmem hcb' hw1, evalArgs_get hpv hci, V_nodeD, vNode_value, hw2]
  have hfold := penv_fold_result env (s := s) (er := readyRec env s er) (op := op) H
  have hkv : ((V s).nodeD n).kind =
      .fold xAsm (asmInit (tagsOf (pkRec s op).prevNodes er.children)) (er.children.map (·.child)) := by
    rw [V_kind, hk]
    have := vKind_expert_res s (e := e) (op := op) (by rw [xRec_some he]; exact hpk)
    rw [xRec_some he] at this
    exact this
  unfold BindH.TargetB
  rw [hkv]
  show Target (penv env) (V s) n v
  unfold Target
  rw [hkv]
  refine ⟨vals, hpv, ?_⟩
  rw [hc, hfold, hvw]
  rfl

end IncrVerif.Proofs.PerKeyH
