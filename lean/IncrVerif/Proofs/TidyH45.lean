import IncrVerif.Proofs.ExpertH17
/-!
# T4, part f (2): `HasRange` is kept by the two loops at the start of `stabilise` (port of `Proofs/Quiet25.lean`; statements about plain states, no invariant,
no order: they hold for every state of every fragment)
-/
namespace IncrVerif.Proofs.TidyH.XT
open IncrVerif.Engine IncrVerif.Driver IncrVerif.Proofs IncrVerif.Proofs.Step IncrVerif.Proofs.Sched
open IncrVerif.Proofs.ExpertH IncrVerif.Proofs.ExpertH.QR

/-- the nodes queued for the update handlers exist (kept by every engine function: `handleAfterStabilisation n`
pushes `n` only after a successful `getNode n`, and nodes are never removed) -/
def HasRange (s : State) : Prop := ∀ n, n ∈ s.handleAfterStab → n < s.nodes.size

namespace X4f

/-- the node array does not shrink and `HasRange` is kept -/
def HasR (s s' : State) : Prop := s.nodes.size ≤ s'.nodes.size ∧ (HasRange s → HasRange s')

theorem HasR.refl (s : State) : HasR s s := ⟨Nat.le_refl _, id⟩
theorem HasR.trans {a b c : State} (h1 : HasR a b) (h2 : HasR b c) : HasR a c :=
  ⟨Nat.le_trans h1.1 h2.1, fun h => h2.2 (h1.2 h)⟩
instance : PreOrd HasR := ⟨HasR.refl, HasR.trans⟩

theorem HasR.of_same {s s' : State} (h1 : s'.nodes.size = s.nodes.size)
    (h2 : s'.handleAfterStab = s.handleAfterStab) : HasR s s' := by
  refine ⟨by rw [h1]; exact Nat.le_refl _, fun h n hn => ?_⟩
  rw [h2] at hn; rw [h1]; exact h n hn

theorem PresH.modNode (n : Nat) (f : Node → Node) : Step.Pres HasR (modNode n f) := by
  unfold Engine.modNode
  exact Step.Pres.modify fun s => HasR.of_same (Array.size_modify ..) rfl

local macro_rules
  | `(tactic| qleaf) =>
    `(tactic| ((with_reducible apply Step.Pres.modify); intro _; exact HasR.of_same rfl rfl))
local macro_rules
  | `(tactic| qleaf) => `(tactic| (with_reducible apply PresH.modNode))

macro "hr_leaf " n:ident : command =>
  `(local macro_rules | `(tactic| qleaf) => `(tactic| with_reducible apply $n))

theorem PresH.handleAfterStabilisation (n) : Step.Pres HasR (handleAfterStabilisation n) := by
  constructor
  intro s r s' h
  unfold Engine.handleAfterStabilisation at h
  rw [run_bind, run_getNode] at h
  cases hn : s.nodes[n]? with
  | none => rw [hn] at h; cases h; exact HasR.refl s
  | some nd =>
    rw [hn] at h
    simp only at h
    split at h
    · rw [run_bind_modNode, run_modify] at h
      cases h
      refine ⟨by simp, fun hs m hm => ?_⟩
      simp only [List.mem_append, List.mem_singleton] at hm
      simp only [Array.size_modify]
      rcases hm with hm | hm
      · exact hs m hm
      · rw [hm]; exact lt_of_some hn
    · rw [run_pure] at h; cases h; exact HasR.refl s
hr_leaf PresH.handleAfterStabilisation

theorem PresH.tick : Step.Pres HasR tick := by unfold Engine.tick; qpres
hr_leaf PresH.tick
theorem PresH.logEv (e) : Step.Pres HasR (logEv e) := by unfold Engine.logEv; qpres
hr_leaf PresH.logEv
theorem PresH.modExpert (e f) : Step.Pres HasR (modExpert e f) := by unfold Engine.modExpert; qpres
hr_leaf PresH.modExpert
theorem PresH.modBind (e f) : Step.Pres HasR (modBind e f) := by unfold Engine.modBind; qpres
hr_leaf PresH.modBind
theorem PresH.bumpCounter (f) : Step.Pres HasR (bumpCounter f) := by unfold Engine.bumpCounter; qpres
hr_leaf PresH.bumpCounter
theorem PresH.edgeOnChange (env e edge) : Step.Pres HasR (edgeOnChange env e edge) := by
  unfold Engine.edgeOnChange; qpres
hr_leaf PresH.edgeOnChange
theorem PresH.runEdgeCallback (env e i) : Step.Pres HasR (runEdgeCallback env e i) := by
  unfold Engine.runEdgeCallback; qpres
hr_leaf PresH.runEdgeCallback
theorem PresH.observabilityChange (e b) : Step.Pres HasR (observabilityChange e b) := by
  unfold Engine.observabilityChange; qpres
hr_leaf PresH.observabilityChange
theorem PresH.setHeight (n h) : Step.Pres HasR (setHeight n h) := by unfold Engine.setHeight; qpres
hr_leaf PresH.setHeight
theorem PresH.rchLink (n) : Step.Pres HasR (rchLink n) := by unfold Engine.rchLink; qpres
hr_leaf PresH.rchLink
theorem PresH.rchInsert (n) : Step.Pres HasR (rchInsert n) := by unfold Engine.rchInsert; qpres
hr_leaf PresH.rchInsert
theorem PresH.rchUnlink (n) : Step.Pres HasR (rchUnlink n) := by unfold Engine.rchUnlink; qpres
hr_leaf PresH.rchUnlink
theorem PresH.rchRemove (n) : Step.Pres HasR (rchRemove n) := by unfold Engine.rchRemove; qpres
hr_leaf PresH.rchRemove
theorem PresH.addParent (c i p) : Step.Pres HasR (addParent c i p) := by unfold Engine.addParent; qpres
hr_leaf PresH.addParent
theorem PresH.removeParent (c i p) : Step.Pres HasR (removeParent c i p) := by
  unfold Engine.removeParent; qpres
hr_leaf PresH.removeParent
theorem PresH.maybeHandleAfterStabilisation (n) : Step.Pres HasR (maybeHandleAfterStabilisation n) := by
  unfold Engine.maybeHandleAfterStabilisation; qpres
hr_leaf PresH.maybeHandleAfterStabilisation
theorem PresH.scopeIsNecessary (sc) : Step.Pres HasR (scopeIsNecessary sc) := by
  unfold Engine.scopeIsNecessary; qpres
hr_leaf PresH.scopeIsNecessary

theorem PresH.markMapRefUnknown (fuel n) : Step.Pres HasR (markMapRefUnknown fuel n) := by
  induction fuel generalizing n with
  | zero => unfold Engine.markMapRefUnknown; qpres
  | succ fuel ih =>
    unfold Engine.markMapRefUnknown
    qpres
    all_goals (apply Step.Pres.forIn; intro a b; qpres; exact ih _)
hr_leaf PresH.markMapRefUnknown

theorem PresH.link (env : Env) (fuel : Nat) :
    (∀ n, Step.Pres HasR (becameNecessary env fuel n)) ∧
    (∀ c i p, Step.Pres HasR (addParentWithoutAdjustingHeights env fuel c i p)) := by
  induction fuel with
  | zero =>
    constructor
    · intro n; unfold becameNecessary; qpres
    · intro c i p; unfold addParentWithoutAdjustingHeights; qpres
  | succ fuel ih =>
    constructor
    · intro n
      unfold becameNecessary
      qpres
      all_goals (apply Step.Pres.forIn; intro a b; qpres; exact ih.2 _ _ _)
    · intro c i p
      unfold addParentWithoutAdjustingHeights
      qpres
      all_goals exact ih.1 _

theorem PresH.becameNecessary (env fuel n) : Step.Pres HasR (becameNecessary env fuel n) :=
  (PresH.link env fuel).1 n
hr_leaf PresH.becameNecessary

theorem PresH.unlink (fuel : Nat) :
    (∀ n, Step.Pres HasR (becameUnnecessary fuel n)) ∧
    (∀ n, Step.Pres HasR (checkIfUnnecessary fuel n)) ∧
    (∀ n, Step.Pres HasR (removeChildren fuel n)) := by
  induction fuel with
  | zero =>
    refine ⟨?_, ?_, ?_⟩
    · intro n; unfold becameUnnecessary; qpres
    · intro n; unfold checkIfUnnecessary; qpres
    · intro n; unfold removeChildren; qpres
  | succ fuel ih =>
    refine ⟨?_, ?_, ?_⟩
    · intro n
      unfold becameUnnecessary
      qpres
      all_goals exact ih.2.2 _
    · intro n
      unfold checkIfUnnecessary
      qpres
      all_goals exact ih.1 _
    · intro n
      unfold removeChildren
      qpres
      all_goals (apply Step.Pres.forIn; intro a b; qpres; exact ih.2.1 _)

theorem PresH.checkIfUnnecessary (fuel n) : Step.Pres HasR (checkIfUnnecessary fuel n) :=
  (PresH.unlink fuel).2.1 n
hr_leaf PresH.checkIfUnnecessary
theorem PresH.removeChildren (fuel n) : Step.Pres HasR (removeChildren fuel n) :=
  (PresH.unlink fuel).2.2 n
hr_leaf PresH.removeChildren

theorem PresH.invalidateNode (fuel n) : Step.Pres HasR (invalidateNode fuel n) := by
  induction fuel generalizing n with
  | zero => unfold Engine.invalidateNode; qpres
  | succ fuel ih =>
    unfold Engine.invalidateNode
    qpres
    all_goals (apply Step.Pres.forIn; intro a b; qpres; try exact ih _)
hr_leaf PresH.invalidateNode

theorem PresH.propagateInvalidity (fuel) : Step.Pres HasR (propagateInvalidity fuel) := by
  induction fuel with
  | zero => unfold Engine.propagateInvalidity; qpres
  | succ fuel ih =>
    unfold Engine.propagateInvalidity
    qpres
    all_goals exact ih
hr_leaf PresH.propagateInvalidity

theorem PresH.becameNecessaryPropagate (env fuel n) :
    Step.Pres HasR (becameNecessaryPropagate env fuel n) := by
  unfold Engine.becameNecessaryPropagate; qpres
hr_leaf PresH.becameNecessaryPropagate

theorem PresH.getObs (o) : Step.Pres HasR (getObs o) := by unfold Engine.getObs; qpres
hr_leaf PresH.getObs
theorem PresH.modObs (o f) : Step.Pres HasR (modObs o f) := by unfold Engine.modObs; qpres
hr_leaf PresH.modObs

theorem PresH.addNewObservers (env fuel) : Step.Pres HasR (addNewObservers env fuel) := by
  unfold Engine.addNewObservers
  qpres
  all_goals (apply Step.Pres.forIn; intro a b; qpres)

theorem PresH.unlinkDisallowedObservers (fuel) : Step.Pres HasR (unlinkDisallowedObservers fuel) := by
  unfold Engine.unlinkDisallowedObservers
  qpres
  all_goals (apply Step.Pres.forIn; intro a b; qpres)


end X4f



theorem addNewObservers_hasRange {env : Env} {fuel : Nat} {s s' : State} {r : Except Panic Unit}
    (h : (addNewObservers env fuel).run.run s = (r, s')) (hs : HasRange s) : HasRange s' :=
  ((X4f.PresH.addNewObservers env fuel).h _ _ _ h).2 hs

theorem unlinkDisallowedObservers_hasRange {fuel : Nat} {s s' : State} {r : Except Panic Unit}
    (h : (unlinkDisallowedObservers fuel).run.run s = (r, s')) (hs : HasRange s) : HasRange s' :=
  ((X4f.PresH.unlinkDisallowedObservers fuel).h _ _ _ h).2 hs

end IncrVerif.Proofs.TidyH.XT
