import IncrVerif.Proofs.FaultH13
/-!
# Faults in whole histories, part H1: the shadow ladder — every action other than `stabilise` has the same outcome in the
state poisoned by a handler panic as in the fault-free final state
-/
namespace IncrVerif.Proofs.FaultH
open IncrVerif.Engine IncrVerif.Driver IncrVerif.Proofs IncrVerif.Proofs.Step

syntax "ssim_leaf" : tactic
macro_rules | `(tactic| ssim_leaf) => `(tactic| fail "no leaf")

set_option hygiene false in
macro "ssim_step" : tactic => `(tactic| first
  | with_reducible exact SimAt.ret _
  | with_reducible exact SimAt.thr _
  | with_reducible exact SimAt.pan _
  | ((with_reducible refine SimAt.get_seq ?_); try dsimp only)
  | ((with_reducible refine SimAt.getNode_seq fun nd hnd => ?_); try dsimp only)
  | ((with_reducible refine SimAt.getObs_seq fun ob hob => ?_); try dsimp only)
  | ((with_reducible refine SimAt.mod_seq ?_ ?_ ?_) <;> (first | rfl | skip))
  | ((with_reducible refine SimAt.mod ?_ ?_) <;> rfl)
  | ((with_reducible refine Sim.at ?_ _); ssim_leaf)
  | (with_reducible refine SimAt.map _ ?_)
  | (with_reducible refine SimAt.discard ?_)
  | (with_reducible refine SimAt.seq ?_ fun _ _ _ => ?_)
  | (refine SimAt.cond Iff.rfl (fun _ => ?_) (fun _ => ?_)))

macro "ssim" : tactic => `(tactic| repeat (any_goals ssim_step))

theorem Sim.forIn {β γ : Type} (l : List γ) {f f' : γ → β → M (ForInStep β)} (h : ∀ a b, Sim (f a b) (f' a b))
    (b : β) : Sim (ForIn.forIn l b f) (ForIn.forIn l b f') := by
  induction l generalizing b with
  | nil => intro s; rw [List.forIn_nil, List.forIn_nil]; exact SimAt.ret _
  | cons a l ih =>
    intro s
    rw [List.forIn_cons, List.forIn_cons]
    refine SimAt.seq (h a b s) fun r s1 _ => ?_
    cases r with
    | done b' => exact SimAt.ret _
    | yield b' => exact ih b' s1

theorem Sim.mapM {β γ : Type} {f f' : γ → M β} (h : ∀ a, Sim (f a) (f' a)) (l : List γ) :
    Sim (l.mapM f) (l.mapM f') := by
  induction l with
  | nil => intro s; rw [List.mapM_nil, List.mapM_nil]; exact SimAt.ret _
  | cons a l ih =>
    intro s
    rw [List.mapM_cons, List.mapM_cons]
    exact SimAt.seq (h a s) fun _ s1 _ => SimAt.seq (ih s1) fun _ _ _ => SimAt.ret _

theorem Sim.dassert (c : Bool) (site : String) : Sim (Engine.dassert c site) (Engine.dassert c site) := by
  intro s hn r s' h
  rw [run_dassert] at h ⊢
  by_cases hc : s.cfg.debug = true ∧ c = false
  · rw [if_pos hc] at h; cases h; exact ⟨if_pos hc, hn⟩
  · rw [if_neg hc] at h; cases h; exact ⟨if_neg hc, hn⟩

theorem Sim.assertM (c : Bool) (site : String) : Sim (Engine.assertM c site) (Engine.assertM c site) := by
  intro s hn r s' h
  rw [run_assertM] at h ⊢
  split at h
  · rename_i hc; cases h; rw [if_pos hc]; exact ⟨rfl, hn⟩
  · rename_i hc; cases h; rw [if_neg hc]; exact ⟨rfl, hn⟩

macro_rules | `(tactic| ssim_leaf) => `(tactic| with_reducible exact Sim.dassert _ _)
macro_rules | `(tactic| ssim_leaf) => `(tactic| with_reducible exact Sim.assertM _ _)
macro_rules | `(tactic| ssim_leaf) => `(tactic| with_reducible exact Sim.modNode _ _)
macro_rules | `(tactic| ssim_leaf) => `(tactic|
  ((with_reducible refine Sim.modObs _ ?_); intro x; first | rfl | (simp only [erOb, erH, List.map_append, List.map_cons, List.map_nil, List.map_map, List.filter_map, Function.comp]; done)))

theorem Sim.bumpCounter (f : Counters → Counters) : Sim (Engine.bumpCounter f) (Engine.bumpCounter f) := by
  intro s; unfold Engine.bumpCounter; ssim
macro_rules | `(tactic| ssim_leaf) => `(tactic| with_reducible exact Sim.bumpCounter _)

theorem Sim.modBind (b : Nat) (f : BindRec → BindRec) : Sim (Engine.modBind b f) (Engine.modBind b f) := by
  intro s; unfold Engine.modBind; ssim
macro_rules | `(tactic| ssim_leaf) => `(tactic| with_reducible exact Sim.modBind _ _)

theorem Sim.modVar (v : Nat) (f : VarCell → VarCell) : Sim (Engine.modVar v f) (Engine.modVar v f) := by
  intro s; unfold Engine.modVar; ssim
macro_rules | `(tactic| ssim_leaf) => `(tactic| with_reducible exact Sim.modVar _ _)

theorem Sim.getVar (v : Nat) : Sim (Engine.getVar v) (Engine.getVar v) := by
  intro s; unfold Engine.getVar; ssim
  split <;> ssim
macro_rules | `(tactic| ssim_leaf) => `(tactic| with_reducible exact Sim.getVar _)

theorem Sim.createNode (k : Kind) (sc : Scope) (c : CutoffK) :
    Sim (Engine.createNode k sc c) (Engine.createNode k sc c) := by
  intro s; unfold Engine.createNode; ssim
  cases sc <;> ssim
macro_rules | `(tactic| ssim_leaf) => `(tactic| with_reducible exact Sim.createNode _ _ _)

theorem Sim.createVar (v : Val) (sc : Scope) : Sim (Engine.createVar v sc) (Engine.createVar v sc) := by
  intro s; unfold Engine.createVar; ssim
macro_rules | `(tactic| ssim_leaf) => `(tactic| with_reducible exact Sim.createVar _ _)

theorem Sim.resolveOpnd (loc : List Nat) (o : Opnd) : Sim (Engine.resolveOpnd loc o) (Engine.resolveOpnd loc o) := by
  intro s; unfold Engine.resolveOpnd
  cases o <;> dsimp only
  case outer k => ssim; split <;> ssim
  case abs n => ssim
  case loc j => split <;> ssim
  case slot k => ssim; split <;> ssim
macro_rules | `(tactic| ssim_leaf) => `(tactic| with_reducible exact Sim.resolveOpnd _ _)
macro_rules | `(tactic| ssim_leaf) => `(tactic| with_reducible exact Sim.mapM (fun a => Sim.resolveOpnd _ a) _)

theorem Sim.isConstant (n : Nat) : Sim (Engine.isConstant n) (Engine.isConstant n) := by
  intro s; unfold Engine.isConstant; ssim
  split <;> ssim
macro_rules | `(tactic| ssim_leaf) => `(tactic| with_reducible exact Sim.isConstant _)

theorem Sim.handleAfterStabilisation (n : Nat) :
    Sim (Engine.handleAfterStabilisation n) (Engine.handleAfterStabilisation n) := by
  intro s; unfold Engine.handleAfterStabilisation; ssim
macro_rules | `(tactic| ssim_leaf) => `(tactic| with_reducible exact Sim.handleAfterStabilisation _)

theorem Sim.rchLink (n : Nat) : Sim (Engine.rchLink n) (Engine.rchLink n) := by
  intro s; unfold Engine.rchLink; ssim
macro_rules | `(tactic| ssim_leaf) => `(tactic| with_reducible exact Sim.rchLink _)

theorem Sim.rchInsert (n : Nat) : Sim (Engine.rchInsert n) (Engine.rchInsert n) := by
  intro s; unfold Engine.rchInsert; ssim
macro_rules | `(tactic| ssim_leaf) => `(tactic| with_reducible exact Sim.rchInsert _)

theorem Sim.disallowFutureUse (o : Nat) : Sim (Engine.disallowFutureUse o) (Engine.disallowFutureUse o) := by
  intro s; unfold Engine.disallowFutureUse; ssim
  split <;> ssim
macro_rules | `(tactic| ssim_leaf) => `(tactic| with_reducible exact Sim.disallowFutureUse _)

theorem Sim.didSetVarWhileNotStabilising (v : Nat) :
    Sim (Engine.didSetVarWhileNotStabilising v) (Engine.didSetVarWhileNotStabilising v) := by
  intro s; unfold Engine.didSetVarWhileNotStabilising; ssim
macro_rules | `(tactic| ssim_leaf) => `(tactic| with_reducible exact Sim.didSetVarWhileNotStabilising _)

theorem Sim.subscribe (o hid : Nat) : Sim (Engine.subscribe o hid) (Engine.subscribe o hid) := by
  intro s; unfold Engine.subscribe; ssim
  split <;> ssim
macro_rules | `(tactic| ssim_leaf) => `(tactic| with_reducible exact Sim.subscribe _ _)


theorem erH_token (h : HandlerRec) : (erH h).token = h.token := rfl

theorem any_token_er (l : List HandlerRec) (t : Nat) :
    (l.map erH).any (·.token == t) = l.any (·.token == t) := by
  induction l with
  | nil => rfl
  | cons a l ih => simp only [List.map_cons, List.any_cons, ih]

theorem filter_token_er (l : List HandlerRec) (t : Nat) :
    (l.map erH).filter (·.token != t) = (l.filter (·.token != t)).map erH := by
  induction l with
  | nil => rfl
  | cons a l ih =>
    simp only [List.map_cons, List.filter_cons, ih]
    split <;> rfl

theorem Sim.unsubscribe (o t owner : Nat) : Sim (Engine.unsubscribe o t owner) (Engine.unsubscribe o t owner) := by
  intro s; unfold Engine.unsubscribe
  refine SimAt.cond Iff.rfl (fun _ => SimAt.ret _) (fun _ => ?_)
  refine SimAt.getObs_seq fun ob hob => ?_
  dsimp only [erOb]
  rw [any_token_er]
  cases hst : ob.state <;> dsimp only
  all_goals first
    | exact SimAt.ret _
    | (refine SimAt.seq (Sim.at (Sim.modObs o fun x => ?_) s) fun _ s1 _ => ?_
       · simp only [erOb, filter_token_er]
       · ssim)
macro_rules | `(tactic| ssim_leaf) => `(tactic| with_reducible exact Sim.unsubscribe _ _ _)

theorem Sim.writeVar (v : Nat) (f : Val → Val) (isSet : Bool) :
    Sim (Engine.writeVar v f isSet) (Engine.writeVar v f isSet) := by
  intro s hn
  unfold Engine.writeVar
  refine SimAt.seq (Sim.getVar v s) (fun vc s1 h1 => ?_) hn
  intro hn1
  refine SimAt.get_seq ?_ hn1
  dsimp only
  have hs1 : s1.status ≠ .stabilising := hn1
  cases hst : s1.status
  · dsimp only; ssim
  · exact absurd hst hs1
  · dsimp only; ssim
macro_rules | `(tactic| ssim_leaf) => `(tactic| with_reducible exact Sim.writeVar _ _ _)

end IncrVerif.Proofs.FaultH
