import IncrVerif.Proofs.PerKeyH14
import IncrVerif.Proofs.PerKeyH16
/-!
# A run of a per-key change detector, part 6c: the loop of `perKeyDriver` and its end (`driver_end`)

Given the two iteration contracts `IterRight env`, `IterUnequal env` (LC1) and the loop invariant at the start
(`LI … [] [] (started n s)`, LC6b), the driver ends in a state `s2` with `LE env s n op pr eres m s2`.
-/
namespace IncrVerif.Proofs.PerKeyH
open IncrVerif.Engine IncrVerif.Driver IncrVerif.Proofs IncrVerif.Proofs.Step IncrVerif.Proofs.Sched
open IncrVerif.Proofs.ExpertH IncrVerif.Proofs.EffH IncrVerif.Proofs.DriverH IncrVerif.Proofs.ExpertH.QR
open IncrVerif.MapOps

/-! ## the keys of the entries of a diff -/

def rkeys (l : List (Int × DiffElement Int)) : List Int :=
  l.filterMap fun kd => match kd.2 with | .right _ => some kd.1 | _ => none

def ukeys (l : List (Int × DiffElement Int)) : List Int :=
  l.filterMap fun kd => match kd.2 with | .unequal _ _ => some kd.1 | _ => none

theorem mem_rkeys {l : List (Int × DiffElement Int)} {k : Int} : k ∈ rkeys l ↔ ∃ y, (k, DiffElement.right y) ∈ l := by
  unfold rkeys
  rw [List.mem_filterMap]
  constructor
  · rintro ⟨⟨k', d⟩, hm, h⟩
    cases d <;> simp at h
    subst h
    exact ⟨_, hm⟩
  · rintro ⟨y, hm⟩
    exact ⟨_, hm, rfl⟩

theorem mem_ukeys {l : List (Int × DiffElement Int)} {k : Int} :
    k ∈ ukeys l ↔ ∃ x y, (k, DiffElement.unequal x y) ∈ l := by
  unfold ukeys
  rw [List.mem_filterMap]
  constructor
  · rintro ⟨⟨k', d⟩, hm, h⟩
    cases d <;> simp at h
    subst h
    exact ⟨_, _, hm⟩
  · rintro ⟨x, y, hm⟩
    exact ⟨_, hm, rfl⟩

theorem rkeys_cons_right (k y : Int) (l : List (Int × DiffElement Int)) :
    rkeys ((k, DiffElement.right y) :: l) = k :: rkeys l := rfl
theorem rkeys_cons_unequal (k x y : Int) (l : List (Int × DiffElement Int)) :
    rkeys ((k, DiffElement.unequal x y) :: l) = rkeys l := rfl
theorem ukeys_cons_right (k y : Int) (l : List (Int × DiffElement Int)) :
    ukeys ((k, DiffElement.right y) :: l) = ukeys l := rfl
theorem ukeys_cons_unequal (k x y : Int) (l : List (Int × DiffElement Int)) :
    ukeys ((k, DiffElement.unequal x y) :: l) = k :: ukeys l := rfl

/-- the reversed prefix grows at the head -/
theorem take_succ_reverse {α} {l : List α} {j : Nat} {a : α} (h : l[j]? = some a) :
    (l.take (j + 1)).reverse = a :: (l.take j).reverse := by
  rw [List.take_add_one, h]
  simp

/-! ## the entries of the diff when no key is removed -/

theorem keysSub_amap {a b : List (Int × Int)} (h : keysSub a b) {k : Int} {x : Int}
    (hx : IncrVerif.AMap.lookup a k = some x) : ∃ y, IncrVerif.AMap.lookup b k = some y := by
  rw [amap_lookup_eq] at hx
  have := h k (by rw [hx]; rfl)
  rw [amap_lookup_eq]
  exact Option.isSome_iff_exists.1 this

/-- classification of an entry of the diff -/
theorem diff_entry {a b : List (Int × Int)} (ha : IncrVerif.AMap.Sorted a) (hb : IncrVerif.AMap.Sorted b)
    (hsub : keysSub a b) {k : Int} {d : DiffElement Int} (h : (k, d) ∈ symmetricDiff a b) :
    (∃ y, d = .right y ∧ a.lookup k = none ∧ b.lookup k = some y) ∨
    (∃ x y, d = .unequal x y ∧ a.lookup k = some x ∧ b.lookup k = some y ∧ x ≠ y) := by
  rcases (symmetricDiff_mem a b ha hb k d).1 h with ⟨x, h1, h2, -⟩ | ⟨y, h1, h2, h3⟩ | ⟨x, y, h1, h2, h3, h4⟩
  · obtain ⟨y, hy⟩ := keysSub_amap hsub h1
    rw [h2] at hy; cases hy
  · rw [amap_lookup_eq] at h1 h2
    exact Or.inl ⟨y, h3, h1, h2⟩
  · rw [amap_lookup_eq] at h1 h2
    exact Or.inr ⟨x, y, h4, h1, h2, h3⟩

/-- the keys of a diff are pairwise distinct: the key at position `j` is not among the earlier ones -/
theorem diff_key_fresh {a b : List (Int × Int)} (ha : IncrVerif.AMap.Sorted a) (hb : IncrVerif.AMap.Sorted b)
    {j : Nat} {k : Int} {d : DiffElement Int} (h : (symmetricDiff a b)[j]? = some (k, d)) :
    ∀ d', (k, d') ∉ (symmetricDiff a b).take j := by
  intro d' hmem
  have hp := symmetricDiff_ascending a b ha hb
  obtain ⟨i, hi, hget⟩ := List.getElem_of_mem hmem
  rw [List.length_take] at hi
  have hjlt : j < (symmetricDiff a b).length := by
    rcases Nat.lt_or_ge j (symmetricDiff a b).length with h1 | h1
    · exact h1
    · rw [List.getElem?_eq_none h1] at h; cases h
  have hij : i < j := by omega
  rw [List.getElem_take] at hget
  have hjget : (symmetricDiff a b)[j] = (k, d) := by
    rw [List.getElem?_eq_getElem hjlt] at h; exact Option.some.inj h
  have := (List.pairwise_iff_getElem.1 hp) i j (by rw [List.length_map]; omega) (by rw [List.length_map]; exact hjlt) hij
  rw [List.getElem_map, List.getElem_map, hget, hjget] at this
  exact absurd this (Int.lt_irrefl _)

/-! ## the state after `prevMap := m` -/

theorem mid_perkeys' {E : Env} {t : State} (M : Mid E t) (pk : Array PerKeyRec) : Mid E { t with perkeys := pk } := by
  obtain ⟨rk, I⟩ := M.st
  refine ⟨⟨M.frag.pc, M.frag.kind, M.frag.valid, M.frag.xrec, M.frag.xok⟩, ⟨M.ahh.length, M.ahh.buckets, M.ahh.marks⟩,
    ⟨rk, ?_⟩, M.pinv, M.handlers⟩
  exact GInv.congr I (SameG.of_nodes rfl rfl rfl rfl rfl)

theorem bf_perkeys (D : Nat → Prop) (σ : State) (pk : Array PerKeyRec) : BF D σ { σ with perkeys := pk } :=
  ⟨Nat.le_refl _, fun _ _ => rfl, rfl, fun _ er h => ⟨er, h, rfl, rfl, fun _ => rfl, [], (List.append_nil _).symm⟩,
    fun m _ _ _ hs => (V_stamp_iff _ m).2 ((V_stamp_iff σ m).1 hs)⟩

theorem lf_perkeys {D : Nat → Prop} {a σ : State} (h : LF D a σ) (pk : Array PerKeyRec) :
    LF D a { σ with perkeys := pk } :=
  ⟨h.grow, h.node, h.key, h.xgrow, h.xrec, h.nextDep, h.new, h.nec⟩

theorem pfrag_perkeys {env : Env} {σ : State} (F : PFrag env σ) (pk : Array PerKeyRec) :
    PFrag env { σ with perkeys := pk } :=
  ⟨F.pc, F.kind, F.valid, F.cutoff, F.top, F.force, F.xrec, F.xnode, F.xok, F.scope⟩

theorem slotInv_perkeys {env : Env} {σ : State} (L : SlotInv env σ) (pk : Array PerKeyRec) :
    SlotInv env { σ with perkeys := pk } :=
  L.of_frame (XF.of_nodes rfl rfl rfl) rfl
    (fun m => value_congr env σ { σ with perkeys := pk } rfl (fun _ => rfl) m) (fun _ => rfl) (fun _ => rfl)

/-- `OpCore` does not read `prevMap` (but for `sorted`), nor the other operator records -/
theorem opCore_perkeys {env : Env} {σ : State} {op : Nat} {pr : PerKeyRec} (h : OpCore env σ op pr)
    (pk : Array PerKeyRec) {m : List (Int × Int)} (hm : IncrVerif.AMap.Sorted m) :
    OpCore env { σ with perkeys := pk } op { pr with prevMap := m } := by
  have B := bf_perkeys (fun _ => False) σ pk
  obtain ⟨x, e, er, hN, he, hpk, hch, hent, hout⟩ := h.nodes
  refine ⟨h.cut, h.own, h.noObs, h.privTop, h.templ, ⟨x, e, er, OpNodes.bf (pr := pr) (pr' := { pr with prevMap := m }) B rfl rfl hN, he, hpk, hch, ?_, hout⟩, h.keys, h.deps, hm⟩
  intro key p d hmem
  exact EntryOK.bf_core (pr := pr) (pr' := { pr with prevMap := m }) B (fun _ _ _ _ hd => hd) (fun _ hed => hed)
    rfl rfl rfl (hent key p d hmem)

theorem pot_perkeys {σ : State} {ψ : Nat → Nat} (P : Pot σ ψ) {op : Nat} {pr : PerKeyRec} {m : List (Int × Int)}
    (hop : σ.perkeys[op]? = some pr) :
    Pot { σ with perkeys := σ.perkeys.modify op fun p => { p with prevMap := m } } ψ := by
  refine ⟨P.mono, P.top, ?_, P.le⟩
  intro op' pr' hop'
  simp only [Array.getElem?_modify] at hop'
  by_cases h : op = op'
  · subst h
    rw [if_pos rfl, hop] at hop'
    simp only [Option.map_some, Option.some.injEq] at hop'
    subst hop'
    exact P.op op pr hop
  · rw [if_neg h] at hop'
    exact P.op op' pr' hop'

end IncrVerif.Proofs.PerKeyH
