import IncrVerif.Proofs.ExpertH28
/-!
# Expert fragment: simulation of the observer and variable operations
-/
namespace IncrVerif.Proofs.ExpertH
open IncrVerif.Engine IncrVerif.Driver IncrVerif.Proofs IncrVerif.Proofs.Step IncrVerif.Proofs.Sched

theorem Sim.getObs (o : Nat) : Sim (Engine.getObs o) (Engine.getObs o) := by
  intro s; unfold Engine.getObs; xsim
  split <;> xsim
macro_rules | `(tactic| xsim_leaf) => `(tactic| with_reducible exact IncrVerif.Proofs.ExpertH.Sim.getObs _)

theorem Sim.modObs (o : Nat) (f : ObsRec → ObsRec) : Sim (Engine.modObs o f) (Engine.modObs o f) := by
  intro s; unfold Engine.modObs; xsim
macro_rules | `(tactic| xsim_leaf) => `(tactic| with_reducible exact IncrVerif.Proofs.ExpertH.Sim.modObs _ _)

theorem Sim.getVar (v : Nat) : Sim (Engine.getVar v) (Engine.getVar v) := by
  intro s; unfold Engine.getVar; xsim
  split <;> xsim
macro_rules | `(tactic| xsim_leaf) => `(tactic| with_reducible exact IncrVerif.Proofs.ExpertH.Sim.getVar _)

theorem Sim.modVar (v : Nat) (f : VarCell → VarCell) : Sim (Engine.modVar v f) (Engine.modVar v f) := by
  intro s; unfold Engine.modVar; xsim
macro_rules | `(tactic| xsim_leaf) => `(tactic| with_reducible exact IncrVerif.Proofs.ExpertH.Sim.modVar _ _)

theorem Sim.addNewObservers (env : Env) (fuel : Nat) :
    Sim (Engine.addNewObservers env fuel) (Engine.addNewObservers (virtEnv env) fuel) := by
  intro s; unfold Engine.addNewObservers; xsim
  split <;> xsim
macro_rules | `(tactic| xsim_leaf) => `(tactic| with_reducible exact IncrVerif.Proofs.ExpertH.Sim.addNewObservers _ _)

theorem Sim.unlinkDisallowedObservers (fuel : Nat) :
    Sim (Engine.unlinkDisallowedObservers fuel) (Engine.unlinkDisallowedObservers fuel) := by
  intro s; unfold Engine.unlinkDisallowedObservers; xsim
macro_rules | `(tactic| xsim_leaf) => `(tactic|
  with_reducible exact IncrVerif.Proofs.ExpertH.Sim.unlinkDisallowedObservers _)

theorem Sim.disallowFutureUse (o : Nat) : Sim (Engine.disallowFutureUse o) (Engine.disallowFutureUse o) := by
  intro s; unfold Engine.disallowFutureUse; xsim
  split <;> xsim
macro_rules | `(tactic| xsim_leaf) => `(tactic| with_reducible exact IncrVerif.Proofs.ExpertH.Sim.disallowFutureUse _)

theorem Sim.didSetVarWhileNotStabilising (v : Nat) :
    Sim (Engine.didSetVarWhileNotStabilising v) (Engine.didSetVarWhileNotStabilising v) := by
  intro s; unfold Engine.didSetVarWhileNotStabilising; xsim
macro_rules | `(tactic| xsim_leaf) => `(tactic|
  with_reducible exact IncrVerif.Proofs.ExpertH.Sim.didSetVarWhileNotStabilising _)

theorem Sim.writeVar (v : Nat) (f : Val → Val) (isSet : Bool) :
    Sim (Engine.writeVar v f isSet) (Engine.writeVar v f isSet) := by
  intro s; unfold Engine.writeVar; xsim
  split <;> xsim
  split <;> xsim
macro_rules | `(tactic| xsim_leaf) => `(tactic| with_reducible exact IncrVerif.Proofs.ExpertH.Sim.writeVar _ _ _)

end IncrVerif.Proofs.ExpertH
