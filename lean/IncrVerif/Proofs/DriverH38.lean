import IncrVerif.Proofs.DriverH37
import IncrVerif.Props.C14History
/-!
# Drivers: non-vacuity examples (kernel-checked)
-/
namespace IncrVerif.Proofs.DriverH
open IncrVerif.Engine IncrVerif.Driver IncrVerif.Proofs IncrVerif.Proofs.Step IncrVerif.Proofs.Sched
open IncrVerif.Proofs.ExpertH IncrVerif.Proofs.ExpertH.QR IncrVerif.Proofs.EffH
open IncrVerif.Props.C14History

def effOfD : Nat → List Effect
  | 10 => [.xSel (.outer 4) false false [.outer 1, .outer 2]]
  | 11 => [.xAdd (.outer 3) (.outer 2) false, .xAdd (.outer 3) (.outer 2) true, .xRm (.outer 3) 0]
  | _ => []

def exEnvD : Env :=
  { exEnvX with
    fn := fun f args =>
      let x : Int := (args.headD .unit).toInt
      match f with
      | 0 => .int (emod x 7)
      | 1 => .int (emod (1 + x) 7)
      | 10 => .int (emod x 7)
      | 11 => .int (emod x 7)
      | _ => .int 0
    fnEff := fun f _ => effOfD f }

def exSel : List Action :=
  [.create (.var (.int 0)), .create (.var (.int 3)), .create (.var (.int 5)), .create (.map 1 [.outer 2]),
   .create (.expert 70), .create (.map 10 [.outer 0]), .addDep (.outer 4) (.outer 5) false, .observe (.outer 4),
   .stabilise, .set 0 (.int 1), .stabilise, .set 2 (.int 6), .stabilise, .set 0 (.int 2), .set 1 (.int 4), .stabilise]

def exAddRm : List Action :=
  [.create (.var (.int 1)), .create (.var (.int 2)), .create (.map 1 [.outer 1]), .create (.expert 70),
   .create (.map 11 [.outer 0]), .addDep (.outer 3) (.outer 4) false, .observe (.outer 3), .stabilise,
   .set 0 (.int 2), .stabilise, .set 1 (.int 5), .set 0 (.int 3), .stabilise]

/-- the dependency list (dependency id, child) of expert record `e` after the history -/
def depsAfter (env : Env) (acts : List Action) (e : Nat) : List (Nat × Nat) :=
  match runActions env acts (State.init 128 true) #[] with
  | .ok (s, _) => ((s.experts[e]?).map fun er => er.children.map fun ed => (ed.dep, ed.child)).getD []
  | .error _ => []

theorem effOfD_spec : ∀ f vals, exEnvD.fnEff f vals = effOfD f := fun _ _ => rfl

theorem exEnvD_sumdeps (f : Nat) (h : f % 10 = 0) : XEnvOK exEnvD f := exEnvX_sumdeps f h

/-- the user functions of the examples (`f0`, `f1`, the drivers `f10`, `f11`) and the closure `expert sumdeps 7` -/
def mapOKD : Nat → Bool := fun f => decide (f < 2) || f == 10 || f == 11
def xOKD : Nat → Bool := fun f => f == 70

theorem runOKD_of_check {acts : List Action}
    (h : runOKDB exEnvD effOfD mapOKD xOKD acts (State.init 128 true) #[] = true) :
    RunOKD exEnvD acts (State.init 128 true) #[] :=
  runOKDB_sound effOfD_spec
    (fun f hf => by
      have : f < 2 ∨ f = 10 ∨ f = 11 := by simpa [mapOKD, or_assoc] using hf
      unfold fnPerKey; omega)
    (fun f hf => by
      have : f = 70 := by simpa [xOKD] using hf
      subst this
      exact ⟨exEnvD_sumdeps 70 (by decide), by decide⟩)
    _ _ _ h

set_option maxRecDepth 100000 in
/-- `exSel` is a history of the fragment with drivers: at each of its four `stabilise`s the driver `n5 = map f10 n0` is
attached to the expert node `n4` by the protected dependency `d0`, and its targets `n1`, `n2` are expert-free -/
theorem exSel_ok : RunOKD exEnvD exSel (State.init 128 true) #[] := runOKD_of_check (by decide +kernel)

set_option maxRecDepth 100000 in
/-- `exAddRm` is a history of the fragment with drivers -/
theorem exAddRm_ok : RunOKD exEnvD exAddRm (State.init 128 true) #[] := runOKD_of_check (by decide +kernel)

set_option maxRecDepth 100000 in
/-- both histories run -/
theorem exSel_runs : ∃ s tk, runActions exEnvD exSel (State.init 128 true) #[] = .ok (s, tk) :=
  ranOk_iff (env := exEnvD) (acts := exSel) (by decide +kernel)

set_option maxRecDepth 100000 in
theorem exAddRm_runs : ∃ s tk, runActions exEnvD exAddRm (State.init 128 true) #[] = .ok (s, tk) :=
  ranOk_iff (env := exEnvD) (acts := exAddRm) (by decide +kernel)

/-- relative to the contract of `stabilise`: the final states satisfy the invariant -/
theorem exSel_inv (hStab : StabSpec exEnvD) : ∃ s tk rk,
    runActions exEnvD exSel (State.init 128 true) #[] = .ok (s, tk) ∧ QInvX (noEff exEnvD) rk s := by
  obtain ⟨s, tk, h⟩ := exSel_runs
  obtain ⟨rk, Q⟩ := history_d hStab exSel_ok h
  exact ⟨s, tk, rk, h, Q⟩

theorem exAddRm_inv (hStab : StabSpec exEnvD) : ∃ s tk rk,
    runActions exEnvD exAddRm (State.init 128 true) #[] = .ok (s, tk) ∧ QInvX (noEff exEnvD) rk s := by
  obtain ⟨s, tk, h⟩ := exAddRm_runs
  obtain ⟨rk, Q⟩ := history_d hStab exAddRm_ok h
  exact ⟨s, tk, rk, h, Q⟩

set_option maxRecDepth 100000 in
/-- `exSel`: the reads of observer `o0` (on the expert node `n4 = driver + selected target mod 7`) after each of the four
`stabilise`s: `0 + n1 = 3`; `1 + n2 = 6`; `1 + 6 = 0`; `2 + n1 = 2 + 4 = 6` -/
theorem exSel_reads : readAfter exEnvD (exSel.take 9) 0 = some (.int 3) ∧
    readAfter exEnvD (exSel.take 11) 0 = some (.int 6) ∧ readAfter exEnvD (exSel.take 13) 0 = some (.int 0) ∧
    readAfter exEnvD exSel 0 = some (.int 6) :=
  ⟨by decide +kernel, by decide +kernel, by decide +kernel, by decide +kernel⟩

set_option maxRecDepth 100000 in
/-- `exSel`: the dependency list (dependency, child) of the expert record after `observe` and after each `stabilise`: the
driver's protected edge `d0` stays; the selected edge moves `n1` → `n2` → (unchanged: same target, the driver did not
run) → `n1`, each time under a new dependency id -/
theorem exSel_deps : depsAfter exEnvD (exSel.take 8) 0 = [(0, 5)] ∧
    depsAfter exEnvD (exSel.take 9) 0 = [(0, 5), (1, 1)] ∧ depsAfter exEnvD (exSel.take 11) 0 = [(0, 5), (2, 2)] ∧
    depsAfter exEnvD (exSel.take 13) 0 = [(0, 5), (2, 2)] ∧ depsAfter exEnvD exSel 0 = [(0, 5), (3, 1)] :=
  ⟨by decide +kernel, by decide +kernel, by decide +kernel, by decide +kernel, by decide +kernel⟩

set_option maxRecDepth 100000 in
/-- `exAddRm`: the reads of observer `o0` (on the expert node `n3`) after each of the three `stabilise`s:
`1 + 3 = 4`; `2 + 3 + 3 = 1`; `3 + 6 + 6 + 6 = 0` -/
theorem exAddRm_reads : readAfter exEnvD (exAddRm.take 8) 0 = some (.int 4) ∧
    readAfter exEnvD (exAddRm.take 10) 0 = some (.int 1) ∧ readAfter exEnvD exAddRm 0 = some (.int 0) :=
  ⟨by decide +kernel, by decide +kernel, by decide +kernel⟩

set_option maxRecDepth 100000 in
/-- `exAddRm`: the dependency list of the expert record after `observe` and after each `stabilise`: every run of the
driver adds `n2` twice and removes the oldest scripted dependency (the last edge is swapped into its place) -/
theorem exAddRm_deps : depsAfter exEnvD (exAddRm.take 7) 0 = [(0, 4)] ∧
    depsAfter exEnvD (exAddRm.take 8) 0 = [(0, 4), (2, 2)] ∧
    depsAfter exEnvD (exAddRm.take 10) 0 = [(0, 4), (4, 2), (3, 2)] ∧
    depsAfter exEnvD exAddRm 0 = [(0, 4), (4, 2), (6, 2), (5, 2)] :=
  ⟨by decide +kernel, by decide +kernel, by decide +kernel, by decide +kernel⟩

set_option maxRecDepth 100000 in
/-- the check is not vacuous: without the `addDep` that attaches the driver `n5` to the expert node `n4` (the driver
rewires an expert node of which it is not a dependency) the history is rejected, at its first `stabilise` -/
example : runOKDB exEnvD effOfD mapOKD xOKD (exSel.eraseIdx 6) (State.init 128 true) #[] = false ∧
    runOKDB exEnvD effOfD mapOKD xOKD ((exSel.eraseIdx 6).take 8) (State.init 128 true) #[] = false ∧
    runOKDB exEnvD effOfD mapOKD xOKD ((exSel.eraseIdx 6).take 7) (State.init 128 true) #[] = true :=
  ⟨by decide +kernel, by decide +kernel, by decide +kernel⟩

end IncrVerif.Proofs.DriverH
