import IncrVerif.Proofs.OnceF9
import IncrVerif.Proofs.OnceF16
/-!
# C02, combined fragment, part 12: FINAL INPUTS, value form — the stored values of the (stable) children of a node at the moment it runs are their stored values at the end of the drain

`VK m s s'`: node `m` (if it exists in `s`) stores in `s'` what it stored in `s`, or nothing.  `chain_vk`, `drain_vk`: a run of the drain none of whose steps is on `m`.
`chain_suffix_vk`, `drain_suffix_vk`: from the state in which a step `p` happens to the end, when neither `p` nor any later step is on `m`.
`drain_inputsF`: from the drain invariant `DInvF`: for every step `p` of the drain and every stable child `c` (`SKid`) of its node in the state `p.2` in which it runs, `VK c p.2 s'`
— `c` is not the node of `p` (the graph is acyclic) nor of a later step (`drain_orderF`), and the value frame `VR` of `OnceF11`.
-/
namespace IncrVerif.Proofs.OnceF
open IncrVerif.Engine IncrVerif.Driver IncrVerif.Proofs IncrVerif.Proofs.Step IncrVerif.Proofs.Sched IncrVerif.Proofs.Quiet
open IncrVerif.Proofs.FullH IncrVerif.Proofs.TidyH
open IncrVerif.Proofs.BindH (DInv FrameB RanOnceB Edge Below)

/-- node `m` keeps its stored value or loses it -/
def VK (m : Nat) (s s' : State) : Prop :=
  s.nodes.size ≤ s'.nodes.size ∧ (m < s.nodes.size → (s'.nodeD m).value = (s.nodeD m).value ∨ (s'.nodeD m).value = none)

theorem VK.refl (m : Nat) (s : State) : VK m s s := ⟨Nat.le_refl _, fun _ => Or.inl rfl⟩

theorem VK.trans {m : Nat} {a b c : State} (h1 : VK m a b) (h2 : VK m b c) : VK m a c := by
  refine ⟨Nat.le_trans h1.1 h2.1, fun hm => ?_⟩
  rcases h2.2 (Nat.lt_of_lt_of_le hm h1.1) with e | e
  · rw [e]; exact h1.2 hm
  · exact Or.inr e

theorem VK.of_vr {m k : Nat} {s s' : State} (h : VR k s s') (hm : m ≠ k) : VK m s s' :=
  ⟨h.size, fun hlt => h.value m hm hlt⟩

section
variable {env : Env}

theorem chain_vk : ∀ (fuel n : Nat) (s s' : State), (recompute env fuel n).run.run s = (.ok (), s') →
    ∀ m, (∀ q, q ∈ chainSteps env fuel n s → q.1 ≠ m) → VK m s s' := by
  intro fuel
  induction fuel with
  | zero => intro n s s' h; unfold recompute at h; cases h
  | succ fuel ih =>
    intro n s s' h m hq
    unfold recompute at h
    obtain ⟨r, s1, h1, h2⟩ := bind_ok_inv h
    unfold chainSteps at hq
    rw [h1] at hq
    have hn : m ≠ n := fun e => hq (n, s) (List.mem_cons_self ..) e.symm
    have k1 := VK.of_vr ((PresV.recomputeOne env fuel n).h s _ s1 h1) hn
    cases r with
    | none =>
      obtain ⟨-, rfl⟩ := pure_ok_inv h2
      exact k1
    | some p => exact k1.trans (ih p s1 s' h2 m (fun q hq' => hq q (List.mem_cons_of_mem _ hq')))

theorem drain_vk : ∀ (fuel : Nat) (s s' : State), (drainHeap env fuel).run.run s = (.ok (), s') →
    ∀ m, (∀ q, q ∈ drainSteps env fuel s → q.1 ≠ m) → VK m s s' := by
  intro fuel
  induction fuel with
  | zero => intro s s' h; unfold drainHeap at h; cases h
  | succ fuel ih =>
    intro s s' h m hq
    unfold drainHeap at h
    obtain ⟨r, s1, h1, h2⟩ := bind_ok_inv h
    have k1 : VK m s s1 := VK.of_vr ((PresV.rchRemoveMin (m+1)).h s _ s1 h1) (by omega)
    unfold drainSteps at hq
    rw [h1] at hq
    cases r with
    | none =>
      obtain ⟨-, rfl⟩ := pure_ok_inv h2
      exact k1
    | some n =>
      obtain ⟨u, s2, h3, h4⟩ := bind_ok_inv h2
      dsimp only at hq
      rw [h3] at hq
      dsimp only at hq
      have k2 := chain_vk fuel n s1 s2 h3 m (fun q hq' => hq q (List.mem_append_left _ hq'))
      have k3 := ih s2 s' h4 m (fun q hq' => hq q (List.mem_append_right _ hq'))
      exact k1.trans (k2.trans k3)

theorem chain_suffix_vk : ∀ (fuel n : Nat) (s s' : State), (recompute env fuel n).run.run s = (.ok (), s') →
    ∀ (l1 : List (Nat × State)) (p : Nat × State) (l2 : List (Nat × State)), chainSteps env fuel n s = l1 ++ p :: l2 →
    ∀ m, (∀ q, q ∈ p :: l2 → q.1 ≠ m) → VK m p.2 s' := by
  intro fuel
  induction fuel with
  | zero => intro n s s' h; unfold recompute at h; cases h
  | succ fuel ih =>
    intro n s s' h l1 p l2 hl m hq
    have hall := chain_vk (fuel+1) n s s' h m
    unfold recompute at h
    obtain ⟨r, s1, h1, h2⟩ := bind_ok_inv h
    cases l1 with
    | nil =>
      rw [hl] at hall
      have hp : p = (n, s) := by
        unfold chainSteps at hl
        simp only [List.nil_append, List.cons.injEq] at hl
        exact hl.1.symm
      rw [hp]
      exact hall hq
    | cons x l1' =>
      unfold chainSteps at hl
      rw [h1] at hl
      simp only [List.cons_append, List.cons.injEq] at hl
      cases r with
      | none => simp at hl
      | some p' => exact ih p' s1 s' h2 l1' p l2 hl.2 m hq

theorem drain_suffix_vk : ∀ (fuel : Nat) (s s' : State), (drainHeap env fuel).run.run s = (.ok (), s') →
    ∀ (l1 : List (Nat × State)) (p : Nat × State) (l2 : List (Nat × State)), drainSteps env fuel s = l1 ++ p :: l2 →
    ∀ m, (∀ q, q ∈ p :: l2 → q.1 ≠ m) → VK m p.2 s' := by
  intro fuel
  induction fuel with
  | zero => intro s s' h; unfold drainHeap at h; cases h
  | succ fuel ih =>
    intro s s' h l1 p l2 hl m hq
    unfold drainHeap at h
    obtain ⟨r, s1, h1, h2⟩ := bind_ok_inv h
    unfold drainSteps at hl
    rw [h1] at hl
    cases r with
    | none => simp at hl
    | some n =>
      obtain ⟨u, s2, h3, h4⟩ := bind_ok_inv h2
      dsimp only at hl
      rw [h3] at hl
      dsimp only at hl
      rcases List.append_eq_append_iff.1 hl with ⟨a', e1, e2⟩ | ⟨c', e1, e2⟩
      · exact ih s2 s' h4 a' p l2 e2 m hq
      · cases c' with
        | nil =>
          simp only [List.nil_append] at e2
          exact ih s2 s' h4 [] p l2 (by rw [← e2]; rfl) m hq
        | cons p' c'' =>
          simp only [List.cons_append, List.cons.injEq] at e2
          obtain ⟨rfl, e2⟩ := e2
          have k1 := chain_suffix_vk fuel n s1 s2 h3 l1 p c'' e1 m (fun q hq' => hq q (by
            rcases List.mem_cons.1 hq' with rfl | hq'
            · exact List.mem_cons_self ..
            · rw [e2]; exact List.mem_cons_of_mem _ (List.mem_append_left _ hq')))
          have k2 := drain_vk fuel s2 s' h4 m (fun q hq' => hq q (by
            rw [e2]; exact List.mem_cons_of_mem _ (List.mem_append_right _ hq')))
          exact k1.trans k2

variable {sp : Nat → Val → Val}

/-- **FINAL INPUTS, value form, the drain of the combined fragment** -/
theorem drain_inputsF (X : Kit env sp) {fuel : Nat} {t s s' : State} {g : Nat → Option Val}
    (D : DInvF env sp t s g none) (h : (drainHeap env fuel).run.run s = (.ok (), s')) :
    ∀ (l1 : List (Nat × State)) (p : Nat × State) (l2 : List (Nat × State)), drainSteps env fuel s = l1 ++ p :: l2 →
    ∀ c, SKid p.2 p.1 c → c < p.2.nodes.size ∧
      ((s'.nodeD c).value = (p.2.nodeD c).value ∨ (s'.nodeD c).value = none) := by
  intro l1 p l2 hl c hk
  obtain ⟨g', R, -⟩ := drain_onceF X fuel t s s' g D h
  have hord := drain_orderF X fuel t s s' g D h
  rw [hl] at hord
  have hp : p ∈ drainSteps env fuel s := by rw [hl]; exact List.mem_append_right _ (List.mem_cons_self ..)
  obtain ⟨gp, Dp, -⟩ := R.steps p hp
  obtain ⟨-, hlt, hv, -, -⟩ := Dp.inv.cur_facts
  have hcv : c ∈ (virt gp p.2).children p.1 := by rw [virt_children]; exact hk.1
  have hne : p.1 ≠ c := Dp.inv.graph.edge_ne (Edge.child hcv)
  have hclt : c < p.2.nodes.size := by
    have := ((Dp.inv.graph.node p.1 hlt hv).2.2 c hcv).1
    rw [virt_size] at this; exact this
  have hq : ∀ q, q ∈ p :: l2 → q.1 ≠ c := by
    intro q hq
    rcases List.mem_cons.1 hq with rfl | hq
    · exact hne
    · have h2 := (List.pairwise_append.1 hord).2.1
      exact (List.pairwise_cons.1 h2).1 q hq c hk
  obtain ⟨-, k⟩ := drain_suffix_vk fuel s s' h l1 p l2 hl c hq
  exact ⟨hclt, k hclt⟩

end
end IncrVerif.Proofs.OnceF
