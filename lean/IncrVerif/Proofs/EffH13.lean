import IncrVerif.Proofs.EffH11
/-!
# Effects, part 13 (V3): the drain with write effects keeps the handler bookkeeping (`SubsH.Hush`) and stamps
`changedAt` exactly (`valchg`)
-/
namespace IncrVerif.Proofs.EffH
open IncrVerif.Engine IncrVerif.Driver IncrVerif.Proofs IncrVerif.Proofs.Step IncrVerif.Proofs.Sched
open IncrVerif.Proofs.Quiet

theorem e13_effNote_notNotif (e : Effect) (old : Val) : ∀ ev, ev ∈ effNote e old → SubsH.NotNotif ev := by
  intro ev hev
  unfold effNote at hev
  split at hev
  · rw [List.mem_singleton] at hev; rw [hev]; trivial
  · rw [List.mem_singleton] at hev; rw [hev]; trivial
  · cases hev

theorem e13_effStep_log (e : Effect) (s : State) :
    ∃ new, (effStep e s).log = new ++ s.log ∧ ∀ ev, ev ∈ new → SubsH.NotNotif ev := by
  unfold effStep
  cases effWrite e with
  | none => exact ⟨[], rfl, fun _ h => by cases h⟩
  | some p =>
    obtain ⟨v, f⟩ := p
    dsimp only
    cases s.vars[v]? with
    | none => exact ⟨[], rfl, fun _ h => by cases h⟩
    | some vc => exact ⟨effNote e (vc.pending.getD vc.value), rfl, e13_effNote_notNotif e _⟩

theorem e13_effSteps_log (es : List Effect) (s : State) :
    ∃ new, (effSteps es s).log = new ++ s.log ∧ ∀ ev, ev ∈ new → SubsH.NotNotif ev := by
  induction es generalizing s with
  | nil => exact ⟨[], rfl, fun _ h => by cases h⟩
  | cons e es ih =>
    rw [effSteps_cons]
    obtain ⟨n1, e1, l1⟩ := e13_effStep_log e s
    obtain ⟨n2, e2, l2⟩ := ih (effStep e s)
    refine ⟨n2 ++ n1, by rw [e2, e1, List.append_assoc], fun ev hev => ?_⟩
    rcases List.mem_append.1 hev with hev | hev
    · exact l2 ev hev
    · exact l1 ev hev

/-- a `SameP` step whose log only grew by non-notifications is `Hush` -/
theorem SameP.hush {s s' : State} (h : SameP s s')
    (hl : ∃ new, s'.log = new ++ s.log ∧ ∀ e, e ∈ new → SubsH.NotNotif e) : SubsH.Hush s s' where
  nextToken := by rw [h.eq]
  num m := by rw [h.nodeD m]
  ok H := ⟨by rw [h.handleAfterStab]; exact H.nodup,
    fun n => by rw [h.handleAfterStab, h.nodeD n]; exact H.flag n⟩
  mono n hn := by rw [h.handleAfterStab]; exact hn
  changed _ n hne _ := absurd (by rw [h.nodeD n]) hne
  log := hl

/-- deferred writes are `Hush`: they touch no node, no queue, and log only `note`s -/
theorem effSteps_hush (es : List Effect) (s : State) : SubsH.Hush s (effSteps es s) :=
  (effSteps_sameP es s).hush (e13_effSteps_log es s)

theorem recomputeOne_eff_hush {env : Env} {fuel n : Nat} {s s' : State} {r : Option Nat}
    (hw : WOnly env) (D : DI env s (some n)) (h : (recomputeOne env fuel n).run.run s = (.ok r, s')) :
    SubsH.Hush s s' := by
  obtain ⟨h0, -⟩ := recomputeOne_eff_eq D.inv D.status hw D.handles h
  have P := effSteps_sameP (nodeEffs env s n) s
  have I1 := P.inv D.inv
  exact (effSteps_hush (nodeEffs env s n) s).trans
    (SubsH.recomputeOne_hush I1.graph (I1.cur n rfl).1 I1.kids_values h0)

theorem e13_recompute_eff_hush {env : Env} (hw : WOnly env) : ∀ (fuel n : Nat) (s s' : State),
    DI env s (some n) → (recompute env fuel n).run.run s = (.ok (), s') → SubsH.Hush s s' := by
  intro fuel
  induction fuel with
  | zero => intro n s s' _ h; unfold recompute at h; cases h
  | succ fuel ih =>
    intro n s s' D h
    unfold recompute at h
    obtain ⟨r, s1, h1, h2⟩ := bind_ok_inv h
    have c1 := recomputeOne_eff_hush hw D h1
    obtain ⟨D1, -⟩ := recomputeOne_effstep hw D h1
    cases r with
    | none => obtain ⟨-, rfl⟩ := pure_ok_inv h2; exact c1
    | some p => exact c1.trans (ih p s1 s' D1 h2)

/-- **the drain with write effects keeps the handler bookkeeping** -/
theorem drainHeap_eff_hush {env : Env} (hw : WOnly env) : ∀ (fuel : Nat) (s s' : State),
    DI env s none → (drainHeap env fuel).run.run s = (.ok (), s') → SubsH.Hush s s' := by
  intro fuel
  induction fuel with
  | zero => intro s s' _ h; unfold drainHeap at h; cases h
  | succ fuel ih =>
    intro s s' D h
    unfold drainHeap at h
    obtain ⟨r, s1, h1, h2⟩ := bind_ok_inv h
    cases r with
    | none =>
      obtain ⟨-, rfl⟩ := pure_ok_inv h2
      obtain ⟨rfl, -⟩ := rchRemoveMin_inv D.inv.heap h1
      exact SubsH.Hush.refl _
    | some n =>
      obtain ⟨u, s2, h3, h4⟩ := bind_ok_inv h2
      obtain ⟨D1, -⟩ := pop_eff D h1
      have R2 := recompute_eff hw fuel n s1 s2 D1 h3
      exact ((SubsH.pop_hush D.inv.heap h1).trans (e13_recompute_eff_hush hw fuel n s1 s2 D1 h3)).trans
        (ih s2 s' R2.di h4)

/-! ## `valchg` -/

/-- deferred writes move no value and no stamp -/
theorem e13_vc_sameP {s0 s s1 : State} (V : SubsH.VC s0 s) (P : SameP s s1) : SubsH.VC s0 s1 where
  stabNum := P.stabNum.trans V.stabNum
  shape m := by rw [P.nodeD m]; exact V.shape m
  old m h := by rw [P.nodeD m] at h ⊢; exact V.old m h
  chg m h := by rw [P.nodeD m] at h ⊢; exact V.chg m h
  now m h := by rw [P.nodeD m] at h ⊢; exact V.now m h
  keep m h := by rw [P.nodeD m] at h ⊢; exact V.keep m h

theorem e13_valchg_recomputeOne {env : Env} {s0 : State} (hw : WOnly env)
    (hst : ∀ m, (s0.nodeD m).changedAt < s0.stabNum) {fuel n : Nat} {s s' : State} {r : Option Nat}
    (D : DI env s (some n)) (V : SubsH.VC s0 s)
    (h : (recomputeOne env fuel n).run.run s = (.ok r, s')) : SubsH.VC s0 s' := by
  obtain ⟨h0, -⟩ := recomputeOne_eff_eq D.inv D.status hw D.handles h
  have P := effSteps_sameP (nodeEffs env s n) s
  have I1 := P.inv D.inv
  have S := SubsH.valchg_recomputeOne I1.graph (I1.cur n rfl).1 I1.kids_values h0
  obtain ⟨-, f1, -⟩ := recomputeOne_inv I1 h0
  exact (e13_vc_sameP V P).step hst f1 (I1.cur n rfl).1 (I1.fresh n (Or.inr rfl) n (Anc.refl n)) S

theorem e13_valchg_recompute {env : Env} {s0 : State} (hw : WOnly env)
    (hst : ∀ m, (s0.nodeD m).changedAt < s0.stabNum) :
    ∀ (fuel n : Nat) (s s' : State), DI env s (some n) → SubsH.VC s0 s →
      (recompute env fuel n).run.run s = (.ok (), s') → SubsH.VC s0 s' := by
  intro fuel
  induction fuel with
  | zero => intro n s s' _ _ h; unfold recompute at h; cases h
  | succ fuel ih =>
    intro n s s' D V h
    unfold recompute at h
    obtain ⟨r, s1, h1, h2⟩ := bind_ok_inv h
    have V1 := e13_valchg_recomputeOne hw hst D V h1
    obtain ⟨D1, -⟩ := recomputeOne_effstep hw D h1
    cases r with
    | none => obtain ⟨-, rfl⟩ := pure_ok_inv h2; exact V1
    | some p => exact ih p s1 s' D1 V1 h2

theorem e13_valchg_drainHeap {env : Env} {s0 : State} (hw : WOnly env)
    (hst : ∀ m, (s0.nodeD m).changedAt < s0.stabNum) :
    ∀ (fuel : Nat) (s s' : State), DI env s none → SubsH.VC s0 s →
      (drainHeap env fuel).run.run s = (.ok (), s') → SubsH.VC s0 s' := by
  intro fuel
  induction fuel with
  | zero => intro s s' _ _ h; unfold drainHeap at h; cases h
  | succ fuel ih =>
    intro s s' D V h
    unfold drainHeap at h
    obtain ⟨r, s1, h1, h2⟩ := bind_ok_inv h
    cases r with
    | none =>
      obtain ⟨-, rfl⟩ := pure_ok_inv h2
      obtain ⟨rfl, -⟩ := rchRemoveMin_inv D.inv.heap h1
      exact V
    | some n =>
      obtain ⟨u, s2, h3, h4⟩ := bind_ok_inv h2
      obtain ⟨D1, -⟩ := pop_eff D h1
      have R2 := recompute_eff hw fuel n s1 s2 D1 h3
      exact ih s2 s' R2.di
        (e13_valchg_recompute hw hst fuel n s1 s2 D1 (SubsH.valchg_pop D.inv V h1) h3) h4

/-- **the `changedAt` stamp of the round is exact also with write effects**: after the drain a node carries the stamp
of the current round iff its stored value differs from the one before the drain; nodes without that stamp kept value
and stamp -/
theorem drainHeap_eff_valchg {env : Env} (hw : WOnly env) {fuel : Nat} {s s' : State} (D : DI env s none)
    (hst : ∀ m, (s.nodeD m).recomputedAt < s.stabNum ∧ (s.nodeD m).changedAt < s.stabNum)
    (hcut : ∀ m, s.isNecessary m = true → (s.nodeD m).cutoff = .eq)
    (h : (drainHeap env fuel).run.run s = (.ok (), s')) :
    ∀ m, ((s'.nodeD m).changedAt = s.stabNum ↔ (s'.nodeD m).value ≠ (s.nodeD m).value) ∧
      ((s'.nodeD m).changedAt ≠ s.stabNum → (s'.nodeD m).changedAt = (s.nodeD m).changedAt) := by
  have hst' : ∀ m, (s.nodeD m).changedAt < s.stabNum := fun m => (hst m).2
  have V := e13_valchg_drainHeap hw hst' fuel s s' D (SubsH.VC.refl hst') h
  intro m
  refine ⟨⟨fun e => ?_, V.chg m⟩, V.keep m⟩
  rcases V.now m e with b | ⟨b1, b2⟩
  · exact b
  · rw [hcut m b1] at b2; cases b2

end IncrVerif.Proofs.EffH
