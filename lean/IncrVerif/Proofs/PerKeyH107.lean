import IncrVerif.Proofs.PerKeyH5
/-!
# Per-key operators: whole histories

* `init_pq`: the initial state satisfies `PQ`.
* `step_p`: every action of the fragment (`PActionOK`) that returns keeps `PQ` (for some rank).
* `RunOKP.append`, `run_p`, `prefix_p`, `stabilise_in_run_p`, `history_p`, `history_stabilise_p`.
Everything is relative to the contracts `ActionSpecP env` (all actions but `stabilise`) and `StabSpecP env`.
Modelled on `Proofs/DriverH35.lean`.
-/
namespace IncrVerif.Proofs.PerKeyH
open IncrVerif.Engine IncrVerif.Driver IncrVerif.Proofs IncrVerif.Proofs.Step IncrVerif.Proofs.Sched
open IncrVerif.Proofs.ExpertH IncrVerif.Proofs.ExpertH.QR IncrVerif.Proofs.EffH IncrVerif.Proofs.DriverH

/-! ## the initial state -/

theorem V_init (N : Nat) (d : Bool) : V (State.init N d) = State.init N d := by
  simp [V, State.init]

/-- **the initial state satisfies the invariant between actions** -/
theorem init_pq (env : Env) (N : Nat) (d : Bool) : PQ env (fun m => m) (State.init N d) := by
  have hsz : (State.init N d).nodes.size = 0 := rfl
  have hx : ∀ (e : Nat) (er : ExpertRec), (State.init N d).experts[e]? = some er → False := by
    intro e er he; simp [State.init] at he
  have hp : ∀ (op : Nat) (pr : PerKeyRec), (State.init N d).perkeys[op]? = some pr → False := by
    intro op pr he; simp [State.init] at he
  have ht : ∀ (k n : Nat), (State.init N d).top[k]? = some n → False := by
    intro k n he; simp [State.init] at he
  refine ⟨⟨rfl, fun n hn => by rw [hsz] at hn; omega, fun n hn => by rw [hsz] at hn; omega,
      fun n hn => by rw [hsz] at hn; omega, fun n hn => by rw [hsz] at hn; omega,
      fun n hn => by rw [hsz] at hn; omega, fun n e hn => by rw [hsz] at hn; omega,
      fun e er he => (hx e er he).elim, fun e er he => (hx e er he).elim, rfl⟩, ?_,
    ⟨rfl, fun i hi => ?_, fun m => ?_⟩, ?_, slotInv_init env N d, fun op pr he => (hp op pr he).elim⟩
  · rw [V_init]; exact QR.qinv_init (penv env) N d
  · simp [State.init, mkHeap]
  · rw [QR.init_nodeD]; rfl
  · exact ⟨fun op pr he => (hp op pr he).elim, fun e er he => (hx e er he).elim,
      ⟨fun _ => 0, fun n c hn => by rw [hsz] at hn; omega, fun k n he => (ht k n he).elim,
        fun op pr he => (hp op pr he).elim, fun n hn => by rw [hsz] at hn; omega⟩,
      fun n f args hn => by rw [hsz] at hn; omega,
      fun o ob he => by simp [State.init] at he,
      fun op pr he => (hp op pr he).elim⟩

/-! ## one action -/

/-- **every action of the fragment that returns keeps the invariant** (for some rank) -/
theorem step_p {env : Env} (hA : ActionSpecP env) (hS : StabSpecP env) {rk : Nat → Nat} {s s' : State} {a : Action}
    {tk : Array Nat} {r : String × Array Nat} (Q : PQ env rk s) (ha : PActionOK env s a)
    (h : (stepAction env a tk).run.run s = (.ok r, s')) : ∃ rk', PQ env rk' s' := by
  by_cases h1 : a = .stabilise
  · subst h1
    exact (hS rk fuelDefault s s' Q (QR.step_stabilise h)).inv
  · exact hA rk s s' a tk r Q ha h1 h

/-- the token table is not touched by `stabilise` -/
theorem stabilise_tokens_p {env : Env} {s s' : State} {tk : Array Nat} {r : String × Array Nat}
    (hx : (stepAction env .stabilise tk).run.run s = (.ok r, s')) : r.2 = tk := by
  unfold stepAction at hx
  dsimp only at hx
  obtain ⟨u, s1', h1', h2'⟩ := bind_ok_inv hx
  obtain ⟨e, -⟩ := pure_ok_inv h2'
  subst e; rfl

/-! ## runs -/

theorem RunOKP.append {env : Env} {as bs : List Action} {s s1 : State} {tk tk1 : Array Nat}
    (h : RunOKP env (as ++ bs) s tk) (h1 : runActions env as s tk = .ok (s1, tk1)) :
    RunOKP env as s tk ∧ RunOKP env bs s1 tk1 := by
  induction as generalizing s tk with
  | nil => simp only [runActions] at h1; cases h1; exact ⟨trivial, h⟩
  | cons a as ih =>
    simp only [runActions] at h1
    rcases hx : (stepAction env a tk).run.run s with ⟨_ | r, s2⟩
    · rw [hx] at h1; cases h1
    · rw [hx] at h1
      obtain ⟨ha, hrest⟩ := h
      obtain ⟨i1, i2⟩ := ih (hrest r s2 hx) h1
      refine ⟨⟨ha, fun r' s' hx' => ?_⟩, i2⟩
      rw [hx] at hx'; cases hx'; exact i1

/-- **whole runs**: from a state satisfying the invariant, a run of the fragment that returns ends in a state
satisfying the invariant -/
theorem run_p {env : Env} (hA : ActionSpecP env) (hS : StabSpecP env) {rk : Nat → Nat} {acts : List Action}
    {s s' : State} {tk tk' : Array Nat} (Q : PQ env rk s) (ha : RunOKP env acts s tk)
    (h : runActions env acts s tk = .ok (s', tk')) : ∃ rk', PQ env rk' s' := by
  induction acts generalizing s tk rk with
  | nil => simp only [runActions] at h; cases h; exact ⟨rk, Q⟩
  | cons a as ih =>
    simp only [runActions] at h
    rcases hx : (stepAction env a tk).run.run s with ⟨_ | r, s1⟩
    · rw [hx] at h; cases h
    · rw [hx] at h
      obtain ⟨rk1, Q1⟩ := step_p hA hS Q ha.1 hx
      exact ih Q1 (ha.2 r s1 hx) h

theorem prefix_p {env : Env} (hA : ActionSpecP env) (hS : StabSpecP env) {rk : Nat → Nat} {as bs : List Action}
    {s0 s : State} {tk0 tk : Array Nat} (Q0 : PQ env rk s0) (ha : RunOKP env (as ++ bs) s0 tk0)
    (h : runActions env (as ++ bs) s0 tk0 = .ok (s, tk)) :
    ∃ s1 tk1 rk1, runActions env as s0 tk0 = .ok (s1, tk1) ∧ PQ env rk1 s1 ∧ RunOKP env bs s1 tk1 ∧
      runActions env bs s1 tk1 = .ok (s, tk) := by
  obtain ⟨s1, tk1, h1, h2⟩ := QR.runActions_prefix h
  obtain ⟨i1, i2⟩ := ha.append h1
  obtain ⟨rk1, Q1⟩ := run_p hA hS Q0 i1 h1
  exact ⟨s1, tk1, rk1, h1, Q1, i2, h2⟩

/-- **every `stabilise` of a run of the fragment**: the state before satisfies the invariant; the `stabilise`
establishes `StabilisedP` -/
theorem stabilise_in_run_p {env : Env} (hA : ActionSpecP env) (hS : StabSpecP env) {rk : Nat → Nat}
    {as bs : List Action} {s0 s : State} {tk0 tk : Array Nat} (Q0 : PQ env rk s0)
    (ha : RunOKP env (as ++ Action.stabilise :: bs) s0 tk0)
    (h : runActions env (as ++ Action.stabilise :: bs) s0 tk0 = .ok (s, tk)) :
    ∃ s1 tk1 s2 rk1, runActions env as s0 tk0 = .ok (s1, tk1) ∧ PQ env rk1 s1 ∧
      (stabilise env fuelDefault).run.run s1 = (.ok (), s2) ∧ StabilisedP env fuelDefault s1 s2 ∧
      runActions env bs s2 tk1 = .ok (s, tk) := by
  obtain ⟨s1, tk1, rk1, h1, Q1, -, h2⟩ := prefix_p hA hS Q0 ha h
  simp only [runActions] at h2
  rcases hx : (stepAction env .stabilise tk1).run.run s1 with ⟨_ | r, s2⟩
  · rw [hx] at h2; cases h2
  · rw [hx] at h2
    replace h2 : runActions env bs s2 r.2 = .ok (s, tk) := h2
    have hst := QR.step_stabilise hx
    rw [stabilise_tokens_p hx] at h2
    exact ⟨s1, tk1, s2, rk1, h1, Q1, hst, hS rk1 fuelDefault s1 s2 Q1 hst, h2⟩

/-! ## histories -/

/-- **whole histories** from the initial state -/
theorem history_p {env : Env} (hA : ActionSpecP env) (hS : StabSpecP env) {N : Nat} {d : Bool}
    {acts : List Action} {s : State} {tk : Array Nat} (ha : RunOKP env acts (State.init N d) #[])
    (h : runActions env acts (State.init N d) #[] = .ok (s, tk)) : ∃ rk, PQ env rk s :=
  run_p hA hS (init_pq env N d) ha h

/-- **every `stabilise` of a whole history** -/
theorem history_stabilise_p {env : Env} (hA : ActionSpecP env) (hS : StabSpecP env) {N : Nat} {d : Bool}
    {as bs : List Action} {s : State} {tk : Array Nat}
    (ha : RunOKP env (as ++ Action.stabilise :: bs) (State.init N d) #[])
    (h : runActions env (as ++ Action.stabilise :: bs) (State.init N d) #[] = .ok (s, tk)) :
    ∃ s1 tk1 s2 rk1, runActions env as (State.init N d) #[] = .ok (s1, tk1) ∧ PQ env rk1 s1 ∧
      (stabilise env fuelDefault).run.run s1 = (.ok (), s2) ∧ StabilisedP env fuelDefault s1 s2 ∧
      runActions env bs s2 tk1 = .ok (s, tk) :=
  stabilise_in_run_p hA hS (init_pq env N d) ha h

end IncrVerif.Proofs.PerKeyH
