import IncrVerif.Proofs.NestH75
import IncrVerif.Proofs.MapOld2
/-!
# C01 for the full combinator list, part 0: the virtual bind-fragment state

`virt g s`: the state `s` in which every `map_ref` node `mapRef p i` is replaced by the static node `map (pBase + p) [i]`
STORING the ghost value `g n` ("the projection the parents of `n` last consumed"), every `map_with_old` node
`mapWithOld m i` is replaced by `map (wBase + enc m) [i]` (same stored value), and all `didChange` flags are normalised.
`virtEnv env sp` interprets the ids `pBase + p` as the projections `env.proj p`, the ids `wBase + enc m` as the pure
functions `sp m` ("what machine `m` computes"), and translates the TEMPLATES of the closures (`virtT`): the virtual
closures build the virtual nodes.  Bind kinds, `binds`, scopes, validity, parents, heights, stamps, heap, staleness and
necessity are the same in `s` and `virt g s`, so the invariants of fragment F2 (`NestH`) are required of the virtual state.
-/
namespace IncrVerif.Proofs.FullH
open IncrVerif.Engine IncrVerif.Proofs IncrVerif.Proofs.Step IncrVerif.Proofs.Sched IncrVerif.Proofs.Quiet
open IncrVerif.Proofs.MapOldH (enc dec WId dec_enc MReach GoodMachine)

/-- function ids `pBase + p` (`p < 100000`) name the projections in the virtual environment -/
def pBase : Nat := 1000003
/-- function ids `wBase + enc m` name the machines' pure functions in the virtual environment -/
def wBase : Nat := 1100003

/-- projection ids of the fragment -/
def PId (p : Nat) : Prop := p < 100000
instance (p : Nat) : Decidable (PId p) := by unfold PId; infer_instance

theorem pBase_gt : fnIdent < pBase := by decide
theorem pBase_ge_zip : fnZip ≤ pBase := by decide
theorem pId_lt {p : Nat} (h : PId p) : pBase + p < wBase := by unfold PId at h; unfold pBase wBase; omega
theorem enc_lt {m : Nat} (h : WId m) : wBase + enc m < fnPerKey := by
  unfold WId opBase at h; unfold enc opBase wBase fnPerKey
  rcases h with h | h
  · rw [if_pos (by omega)]; omega
  · rw [if_neg (by omega)]; omega

def virtKind : Kind → Kind
  | .mapRef p i => .map (pBase + p) [i]
  | .mapWithOld m i => .map (wBase + enc m) [i]
  | k => k

/-- the virtual cutoff: change detectors keep theirs (`.never`), every other node gets the default `.eq` — the cutoffs `.never` (set by the `cutoff` action) and
`.dependOn a` (of `depend_on` nodes) of the actual state are invisible in the virtual state; the recompute step of a node with such a cutoff is not simulated but
described directly (`.never` only ever adds changes, `.dependOn a` suppresses only equal values) -/
def virtCut (k : Kind) (c : CutoffK) : CutoffK :=
  match k with
  | .bindLhsChange _ => c
  | _ => .eq

def virtNode (gv : Option Val) (nd : Node) : Node :=
  match nd.kind with
  | .mapRef p i => { nd with kind := .map (pBase + p) [i], value := gv, didChange := true, cutoff := .eq }
  | .mapWithOld m i => { nd with kind := .map (wBase + enc m) [i], didChange := true, cutoff := .eq }
  | .bindLhsChange _ => { nd with didChange := true }
  | _ => { nd with didChange := true, cutoff := .eq }

def virt (g : Nat → Option Val) (s : State) : State :=
  { s with nodes := s.nodes.mapIdx fun i nd => virtNode (g i) nd }

/-- the virtual instruction: what the virtual closure creates -/
def virtI : Instr → Instr
  | .mapRef p o => .map (pBase + p) [o]
  | .mapWithOld m o => .map (wBase + enc m) [o]
  | .dependOn a b => .map fnFirst [a, b]
  | i => i

def virtT (t : Template) : Template := { instrs := t.instrs.map virtI, ret := t.ret }

def virtEnv (env : Env) (sp : Nat → Val → Val) : Env :=
  { env with
    fn := fun f vals =>
      if wBase ≤ f then sp (dec (f - wBase)) (vals.headD .unit)
      else if pBase ≤ f then env.proj (f - pBase) (vals.headD .unit) else env.fn f vals
    body := fun b v => virtT (env.body b v) }

/-- kinds of the full fragment (`G m`: what is required of machine `m`) -/
def FKind (env : Env) (G : Nat → Prop) : Kind → Prop
  | .const _ => True
  | .var _ => True
  | .map f _ => f < pBase ∧ (f < fnZip → ∀ vals, env.fnEff f vals = [])
  | .fold _ _ _ => True
  | .mapRef p _ => PId p
  | .mapWithOld m _ => WId m ∧ G m
  | .bindLhsChange _ => True
  | .bindMain _ _ => True
  | .expert _ => False

theorem virtNode_default (gv : Option Val) : virtNode gv default = default := rfl

theorem virt_nodeD (g : Nat → Option Val) (s : State) (m : Nat) :
    (virt g s).nodeD m = virtNode (g m) (s.nodeD m) := by
  unfold State.nodeD virt
  simp only [Array.getElem?_mapIdx]
  cases h : s.nodes[m]? with
  | none => simp [virtNode_default]
  | some nd => simp

theorem virt_size (g : Nat → Option Val) (s : State) : (virt g s).nodes.size = s.nodes.size := by
  simp [virt]

theorem virt_getElem? (g : Nat → Option Val) (s : State) (m : Nat) :
    (virt g s).nodes[m]? = (s.nodes[m]?).map (virtNode (g m)) := by
  simp [virt, Array.getElem?_mapIdx]

section fields
variable (gv : Option Val) (nd : Node)

theorem virtNode_kind : (virtNode gv nd).kind = virtKind nd.kind := by
  unfold virtNode virtKind; split <;> simp_all
theorem virtNode_valid : (virtNode gv nd).valid = nd.valid := by unfold virtNode; split <;> rfl
theorem virtNode_cutoff : (virtNode gv nd).cutoff = virtCut nd.kind nd.cutoff := by
  unfold virtNode virtCut; split <;> simp_all
theorem virtNode_createdIn : (virtNode gv nd).createdIn = nd.createdIn := by unfold virtNode; split <;> rfl
theorem virtNode_parents : (virtNode gv nd).parents = nd.parents := by unfold virtNode; split <;> rfl
theorem virtNode_observers : (virtNode gv nd).observers = nd.observers := by unfold virtNode; split <;> rfl
theorem virtNode_forceNecessary : (virtNode gv nd).forceNecessary = nd.forceNecessary := by
  unfold virtNode; split <;> rfl
theorem virtNode_height : (virtNode gv nd).height = nd.height := by unfold virtNode; split <;> rfl
theorem virtNode_heightInRch : (virtNode gv nd).heightInRch = nd.heightInRch := by unfold virtNode; split <;> rfl
theorem virtNode_heightInAhh : (virtNode gv nd).heightInAhh = nd.heightInAhh := by unfold virtNode; split <;> rfl
theorem virtNode_recomputedAt : (virtNode gv nd).recomputedAt = nd.recomputedAt := by unfold virtNode; split <;> rfl
theorem virtNode_changedAt : (virtNode gv nd).changedAt = nd.changedAt := by unfold virtNode; split <;> rfl
theorem virtNode_num : (virtNode gv nd).numOnUpdateHandlers = nd.numOnUpdateHandlers := by
  unfold virtNode; split <;> rfl
theorem virtNode_inHas : (virtNode gv nd).inHandleAfterStab = nd.inHandleAfterStab := by
  unfold virtNode; split <;> rfl
theorem virtNode_oldState : (virtNode gv nd).oldState = nd.oldState := by unfold virtNode; split <;> rfl
theorem virtNode_isNecessary : (virtNode gv nd).isNecessary = nd.isNecessary := by
  simp [Node.isNecessary, virtNode_parents, virtNode_observers, virtNode_forceNecessary]
theorem virtNode_inRch : (virtNode gv nd).inRch = nd.inRch := by simp [Node.inRch, virtNode_heightInRch]

theorem virtNode_value_of_not_mapRef (h : ∀ p i, nd.kind ≠ .mapRef p i) : (virtNode gv nd).value = nd.value := by
  unfold virtNode; split
  · rename_i p i hk; exact absurd hk (h p i)
  · rfl
  · rfl
  · rfl
theorem virtNode_value_mapRef {p i : Nat} (h : nd.kind = .mapRef p i) : (virtNode gv nd).value = gv := by
  unfold virtNode; rw [h]
theorem virtNode_didChange : (virtNode gv nd).didChange = true := by unfold virtNode; split <;> rfl
theorem virtNode_not_mapRef (p i : Nat) : (virtNode gv nd).kind ≠ .mapRef p i := by
  rw [virtNode_kind]; cases nd.kind <;> simp [virtKind]
theorem virtNode_not_mwo (m i : Nat) : (virtNode gv nd).kind ≠ .mapWithOld m i := by
  rw [virtNode_kind]; cases nd.kind <;> simp [virtKind]
theorem virtKind_expert_iff (k : Kind) (e : Nat) : virtKind k = .expert e ↔ k = .expert e := by
  cases k <;> simp [virtKind]
theorem virtKind_lc_iff (k : Kind) (b : Nat) : virtKind k = .bindLhsChange b ↔ k = .bindLhsChange b := by
  cases k <;> simp [virtKind]
theorem virtKind_main_iff (k : Kind) (b lc : Nat) : virtKind k = .bindMain b lc ↔ k = .bindMain b lc := by
  cases k <;> simp [virtKind]
theorem virtKind_var_iff (k : Kind) (c : Nat) : virtKind k = .var c ↔ k = .var c := by
  cases k <;> simp [virtKind]
theorem virtKind_const_iff (k : Kind) (v : Val) : virtKind k = .const v ↔ k = .const v := by
  cases k <;> simp [virtKind]
end fields

/-- the children of a kind of the fragment that are listed in the kind itself -/
def kidsF : Kind → List Nat
  | .map _ args => args
  | .fold _ _ cs => cs
  | .mapRef _ i => [i]
  | .mapWithOld _ i => [i]
  | _ => []

theorem kids_virtKind (k : Kind) : kids (virtKind k) = kidsF k := by cases k <;> rfl

theorem bkind_virt {env : Env} {G : Nat → Prop} (sp : Nat → Val → Val) {k : Kind} (h : FKind env G k) :
    BindH.BKind (virtEnv env sp) (virtKind k) := by
  cases k <;> simp only [FKind] at h <;> simp only [virtKind, BindH.BKind, StaticKind]
  case map f args =>
    refine ⟨by have := h.1; unfold pBase at this; unfold fnPerKey; omega, fun hf vals => h.2 hf vals⟩
  case mapRef p i =>
    refine ⟨by have := pId_lt h; unfold wBase at this; unfold fnPerKey; omega, fun hf => ?_⟩
    have := pBase_ge_zip; omega
  case mapWithOld m i =>
    refine ⟨enc_lt h.1, fun hf => ?_⟩
    unfold wBase at hf; unfold fnZip at hf; omega

/-! ## state-level readers -/

variable (g : Nat → Option Val) (s : State)

theorem virt_isNecessary (m : Nat) : (virt g s).isNecessary m = s.isNecessary m := by
  simp [State.isNecessary, virt_nodeD, virtNode_isNecessary]

theorem virt_vars : (virt g s).vars = s.vars := rfl
theorem virt_rch : (virt g s).rch = s.rch := rfl
theorem virt_stabNum : (virt g s).stabNum = s.stabNum := rfl
theorem virt_cfg : (virt g s).cfg = s.cfg := rfl
theorem virt_binds : (virt g s).binds = s.binds := rfl
theorem virt_experts : (virt g s).experts = s.experts := rfl
theorem virt_observers : (virt g s).observers = s.observers := rfl
theorem virt_ahh : (virt g s).ahh = s.ahh := rfl
theorem virt_maxHeightSeen : (virt g s).maxHeightSeen = s.maxHeightSeen := rfl
theorem virt_status : (virt g s).status = s.status := rfl
theorem virt_currentScope : (virt g s).currentScope = s.currentScope := rfl
theorem virt_propagateInvalidity : (virt g s).propagateInvalidity = s.propagateInvalidity := rfl
theorem virt_handleAfterStab : (virt g s).handleAfterStab = s.handleAfterStab := rfl
theorem virt_newObservers : (virt g s).newObservers = s.newObservers := rfl
theorem virt_disallowedObservers : (virt g s).disallowedObservers = s.disallowedObservers := rfl
theorem virt_allObservers : (virt g s).allObservers = s.allObservers := rfl
theorem virt_setDuringStab : (virt g s).setDuringStab = s.setDuringStab := rfl
theorem virt_deadVars : (virt g s).deadVars = s.deadVars := rfl
theorem virt_counters : (virt g s).counters = s.counters := rfl
theorem virt_panicCountdown : (virt g s).panicCountdown = s.panicCountdown := rfl
theorem virt_alive : (virt g s).alive = s.alive := rfl
theorem virt_top : (virt g s).top = s.top := rfl
theorem virt_handles : (virt g s).handles = s.handles := rfl
theorem virt_slots : (virt g s).slots = s.slots := rfl
theorem virt_log : (virt g s).log = s.log := rfl
theorem virt_memos : (virt g s).memos = s.memos := rfl
theorem virt_perkeys : (virt g s).perkeys = s.perkeys := rfl
theorem virt_nextToken : (virt g s).nextToken = s.nextToken := rfl
theorem virt_nextDep : (virt g s).nextDep = s.nextDep := rfl
theorem virt_currentlyRunning : (virt g s).currentlyRunning = s.currentlyRunning := rfl

theorem virtNode_kind? (gv : Option Val) (nd : Node) : (virtNode gv nd).kind? = (nd.kind?).map virtKind := by
  simp only [Node.kind?, virtNode_valid, virtNode_kind]
  split <;> rfl

theorem virt_kind? (m : Nat) : ((virt g s).nodeD m).kind? = ((s.nodeD m).kind?).map virtKind := by
  rw [virt_nodeD, virtNode_kind?]

theorem virt_children (m : Nat) : (virt g s).children m = s.children m := by
  unfold State.children
  rw [virt_kind?]
  cases h : (s.nodeD m).kind? with
  | none => rfl
  | some k => cases k <;> rfl

theorem virt_isStale (m : Nat) : (virt g s).isStale m = s.isStale m := by
  unfold State.isStale
  simp only [virt_children, virt_nodeD, virtNode_kind?, virtNode_recomputedAt, virtNode_changedAt, virt_vars]
  cases h : (s.nodeD m).kind? with
  | none => rfl
  | some k => cases k <;> rfl

theorem virt_needsToBeComputed (m : Nat) : (virt g s).needsToBeComputed m = s.needsToBeComputed m := by
  simp [State.needsToBeComputed, virt_isNecessary, virt_isStale]

theorem virt_shouldBeInvalidated (m : Nat) : (virt g s).shouldBeInvalidated m = s.shouldBeInvalidated m := by
  unfold State.shouldBeInvalidated
  simp only [virt_children, virt_nodeD, virtNode_kind?, virtNode_valid, virt_binds]
  cases h : (s.nodeD m).kind? with
  | none => rfl
  | some k => cases k <;> rfl

/-- the value stored in the virtual node -/
def tv (g : Nat → Option Val) (s : State) (n : Nat) : Option Val := ((virt g s).nodeD n).value

theorem tv_not_mapRef {g : Nat → Option Val} {s : State} {n : Nat}
    (h : ∀ p i, (s.nodeD n).kind ≠ .mapRef p i) : tv g s n = (s.nodeD n).value := by
  rw [tv, virt_nodeD, virtNode_value_of_not_mapRef _ _ h]

theorem tv_mapRef {g : Nat → Option Val} {s : State} {n p i : Nat} (h : (s.nodeD n).kind = .mapRef p i) :
    tv g s n = g n := by
  rw [tv, virt_nodeD, virtNode_value_mapRef _ _ h]

/-- in the virtual state every node reads its stored value -/
theorem virt_value (env' : Env) (g : Nat → Option Val) (s : State) (n : Nat) :
    (virt g s).value env' n = tv g s n := by
  rw [tv]
  apply value_plain
  intro p i
  rw [virt_nodeD]
  exact virtNode_not_mapRef _ _ p i

theorem virtEnv_fn_real (env : Env) (sp : Nat → Val → Val) {f : Nat} (h : f < pBase) (vals : List Val) :
    (virtEnv env sp).fn f vals = env.fn f vals := by
  have h2 : ¬ wBase ≤ f := by unfold wBase; unfold pBase at h; omega
  simp [virtEnv, Nat.not_le.2 h, h2]

theorem virtEnv_fn_proj (env : Env) (sp : Nat → Val → Val) {p : Nat} (h : PId p) (vals : List Val) :
    (virtEnv env sp).fn (pBase + p) vals = env.proj p (vals.headD .unit) := by
  have h2 : ¬ wBase ≤ pBase + p := by have := pId_lt h; omega
  simp [virtEnv, h2]

theorem virtEnv_fn_mach (env : Env) (sp : Nat → Val → Val) {m : Nat} (h : WId m) (vals : List Val) :
    (virtEnv env sp).fn (wBase + enc m) vals = sp m (vals.headD .unit) := by
  simp [virtEnv, dec_enc h]

theorem virtEnv_foldStep (env : Env) (sp : Nat → Val → Val) : (virtEnv env sp).foldStep = env.foldStep := rfl
theorem virtEnv_fnEff (env : Env) (sp : Nat → Val → Val) : (virtEnv env sp).fnEff = env.fnEff := rfl
theorem virtEnv_cutoff (env : Env) (sp : Nat → Val → Val) : (virtEnv env sp).cutoff = env.cutoff := rfl
theorem virtEnv_proj (env : Env) (sp : Nat → Val → Val) : (virtEnv env sp).proj = env.proj := rfl
theorem virtEnv_body (env : Env) (sp : Nat → Val → Val) (b : Nat) (v : Val) :
    (virtEnv env sp).body b v = virtT (env.body b v) := rfl
theorem virtEnv_handler (env : Env) (sp : Nat → Val → Val) : (virtEnv env sp).handler = env.handler := rfl

theorem virt_plainVals (l : List Nat) : plainVals (virt g s) l = evalArgs (tv g s) l := rfl

end IncrVerif.Proofs.FullH
