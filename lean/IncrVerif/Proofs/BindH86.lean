import IncrVerif.Proofs.BindH85
/-!
# Binds, part 4c-6 (B4): creation of a top-level `bind` keeps `QInv1`; the headline `step_create1`
-/
namespace IncrVerif.Proofs.BindH
open IncrVerif.Engine IncrVerif.Driver IncrVerif.Proofs IncrVerif.Proofs.Step IncrVerif.Proofs.Sched IncrVerif.Proofs.Quiet

namespace C2c

namespace MadeBind
variable {env : Env} {body lhs : Nat} {s s1 : State}

theorem size (C : MadeBind body lhs s s1) : s1.nodes.size = s.nodes.size + 2 := by
  rw [C.nodes, Array.size_push, Array.size_push]

theorem nodeD_lc (C : MadeBind body lhs s s1) :
    s1.nodeD s.nodes.size = { kind := .bindLhsChange s.binds.size, createdIn := .top, cutoff := .never } := by
  show s1.nodes[s.nodes.size]?.getD default = _
  rw [C.nodes, nodeD_push, Array.size_push, if_neg (by omega), nodeD_push, if_pos rfl]

theorem nodeD_main (C : MadeBind body lhs s s1) :
    s1.nodeD (s.nodes.size + 1) = { kind := .bindMain s.binds.size s.nodes.size, createdIn := .top, cutoff := .eq } := by
  show s1.nodes[s.nodes.size + 1]?.getD default = _
  rw [C.nodes, nodeD_push, Array.size_push, if_pos rfl]

theorem bind_new (C : MadeBind body lhs s s1) :
    s1.binds[s.binds.size]? =
      some { lhs := lhs, body := body, lhsChange := s.nodes.size, main := s.nodes.size + 1 } := by
  rw [C.binds, Array.getElem?_modify, if_pos rfl, Array.getElem?_push, if_pos rfl]
  rfl

theorem bind_inv (C : MadeBind body lhs s s1) {b : Nat} {br : BindRec} (hb : s.binds.size ≤ b)
    (h : s1.binds[b]? = some br) :
    b = s.binds.size ∧ br = { lhs := lhs, body := body, lhsChange := s.nodes.size, main := s.nodes.size + 1 } := by
  have hlt : b < s1.binds.size := (Array.getElem?_eq_some_iff.1 h).1
  rw [C.binds, Array.size_modify, Array.size_push] at hlt
  have e : b = s.binds.size := by omega
  rw [e, C.bind_new] at h
  injection h with h
  exact ⟨e, h.symm⟩

theorem children_lc (C : MadeBind body lhs s s1) : s1.children s.nodes.size = [lhs] := by
  unfold State.children Node.kind?
  rw [C.nodeD_lc]
  simp only [if_true, C.bind_new]

theorem children_main (C : MadeBind body lhs s s1) : s1.children (s.nodes.size + 1) = [s.nodes.size] := by
  unfold State.children Node.kind?
  rw [C.nodeD_main]
  simp only [if_true, C.bind_new]

theorem stale_lc (C : MadeBind body lhs s s1) : s1.isStale s.nodes.size = true := by
  unfold State.isStale Node.kind?
  rw [C.nodeD_lc]
  rfl

theorem stale_main (C : MadeBind body lhs s s1) : s1.isStale (s.nodes.size + 1) = true := by
  unfold State.isStale Node.kind?
  rw [C.nodeD_main]
  rfl

theorem varsOK (C : MadeBind body lhs s s1) (V : VarsOK s) : VarsOK s1 := by
  have E := C.ext
  constructor
  · intro n c hn hkd
    rw [C.size] at hn
    by_cases hlt : n < s.nodes.size
    · rw [E.old n hlt] at hkd
      obtain ⟨vc, h1, h2⟩ := V.node n c hlt hkd
      exact ⟨vc, E.vars_old h1, h2⟩
    · exfalso
      by_cases e : n = s.nodes.size
      · rw [e, C.nodeD_lc] at hkd; cases hkd
      · have e' : n = s.nodes.size + 1 := by omega
        rw [e', C.nodeD_main] at hkd; cases hkd
  · intro c vc h
    rw [C.vars] at h
    obtain ⟨h1, h2⟩ := V.cell c vc h
    rw [C.size, E.old _ h1]
    exact ⟨by omega, h2⟩

/-- the static facts about the new change detector -/
theorem n1_lc (C : MadeBind body lhs s s1) (Q : QInv1 env s) {k : Nat} (hk : s.top[k]? = some lhs) :
    N1 env s1 [] s.nodes.size := by
  have E := C.ext
  obtain ⟨h1, h2, h3, h4⟩ := top_entry Q hk
  have hch := C.children_lc
  refine ⟨?_, ?_, ?_, ?_, ?_, ?_, ?_, ?_, ?_⟩
  · rw [C.nodeD_lc]; exact trivial
  · rw [C.nodeD_lc]; exact Or.inr rfl
  · intro c hc
    rw [hch, List.mem_singleton] at hc
    rw [hc, C.size]; omega
  · intro c hc
    rw [hch, List.mem_singleton] at hc
    rw [hc, E.old lhs h1]; exact h4
  · intro b h
    rw [C.nodeD_lc] at h
    injection h with h
    rw [← h]
    exact ⟨_, C.bind_new, rfl⟩
  · intro b lc h
    rw [C.nodeD_lc] at h; cases h
  · intro c b hc h
    rw [hch, List.mem_singleton] at hc
    rw [hc, E.old lhs h1] at h
    exact absurd h (h3 b)
  · intro _
    refine ⟨by rw [C.nodeD_lc], fun c hc => ?_⟩
    rw [hch, List.mem_singleton] at hc
    rw [hc, E.old lhs h1]
    exact Or.inl ⟨h2, h1⟩
  · intro b h
    rw [C.nodeD_lc] at h; cases h

/-- the static facts about the new main node -/
theorem n1_main (C : MadeBind body lhs s s1) : N1 env s1 [] (s.nodes.size + 1) := by
  have hch := C.children_main
  refine ⟨?_, ?_, ?_, ?_, ?_, ?_, ?_, ?_, ?_⟩
  · rw [C.nodeD_main]; exact trivial
  · rw [C.nodeD_main]; exact Or.inl rfl
  · intro c hc
    rw [hch, List.mem_singleton] at hc
    rw [hc, C.size]; omega
  · intro c hc
    rw [hch, List.mem_singleton] at hc
    rw [hc, C.nodeD_lc]
  · intro b h
    rw [C.nodeD_main] at h; cases h
  · intro b lc h
    rw [C.nodeD_main] at h
    injection h with hb hl
    rw [← hb, ← hl]
    exact ⟨_, C.bind_new, rfl, rfl⟩
  · intro c b hc h
    rw [hch, List.mem_singleton] at hc
    rw [hc, C.nodeD_lc] at h
    injection h with h
    rw [hc, C.nodeD_main, ← h]
  · intro _
    refine ⟨by rw [C.nodeD_main], fun c hc => ?_⟩
    rw [hch, List.mem_singleton] at hc
    rw [hc, C.nodeD_lc]
    exact Or.inl ⟨rfl, Nat.lt_succ_self _⟩
  · intro b h
    rw [C.nodeD_main] at h; cases h

/-- the checks on the new nodes and the new record for the creation of a bind, after the main node has been entered in the naming table -/
theorem newOK (C : MadeBind body lhs s s1) (Q : QInv1 env s) {k : Nat} (hk : s.top[k]? = some lhs)
    (hB : BodyF1 env s.top.size body) (hd : List Nat) :
    NewOK env s { s1 with top := s1.top.push (s.nodes.size + 1), handles := hd } := by
  have E := C.ext
  have hN1 : N1 env { s1 with top := s1.top.push (s.nodes.size + 1), handles := hd } [] s.nodes.size := by
    have h := C.n1_lc Q hk
    exact ⟨h.kind, h.cutoff, h.kidsIn, h.kidsValid, h.lcRec, h.mainRec, h.lcChild, h.top, h.inScope⟩
  have hN2 : N1 env { s1 with top := s1.top.push (s.nodes.size + 1), handles := hd } [] (s.nodes.size + 1) := by
    have h := C.n1_main (env := env)
    exact ⟨h.kind, h.cutoff, h.kidsIn, h.kidsValid, h.lcRec, h.mainRec, h.lcChild, h.top, h.inScope⟩
  have hS1 : State.isStale { s1 with top := s1.top.push (s.nodes.size + 1), handles := hd } s.nodes.size = true :=
    C.stale_lc
  have hS2 : State.isStale { s1 with top := s1.top.push (s.nodes.size + 1), handles := hd }
      (s.nodes.size + 1) = true := C.stale_main
  have hV : VarsOK { s1 with top := s1.top.push (s.nodes.size + 1), handles := hd } := by
    have h := C.varsOK Q.vars
    exact ⟨h.node, h.cell⟩
  refine ⟨?_, ?_, ?_, ?_, hV, ?_⟩
  · intro n h1 h2
    have h2' : n < s1.nodes.size := h2
    rw [C.size] at h2'
    by_cases e : n = s.nodes.size
    · rw [e]; exact hN1
    · have e' : n = s.nodes.size + 1 := by omega
      rw [e']; exact hN2
  · intro n h1 h2
    have h2' : n < s1.nodes.size := h2
    rw [C.size] at h2'
    by_cases e : n = s.nodes.size
    · rw [e]; exact hS1
    · have e' : n = s.nodes.size + 1 := by omega
      rw [e']; exact hS2
  · intro n b h1 h
    have h' : (s1.nodeD n).kind = .bindLhsChange b := h
    show (s1.nodeD n).cutoff = .never
    by_cases e : n = s.nodes.size
    · rw [e, C.nodeD_lc]
    · exfalso
      by_cases e' : n = s.nodes.size + 1
      · rw [e', C.nodeD_main] at h'; cases h'
      · rw [nodeD_default s1 n (by rw [C.size]; omega)] at h'
        cases h'
  · intro b br h1 h
    have h' : s1.binds[b]? = some br := h
    obtain ⟨eb, ebr⟩ := C.bind_inv h1 h'
    rw [eb, ebr]
    refine ⟨⟨rfl, ?_, ?_, ?_, ?_, ?_⟩, rfl, rfl, ?_⟩
    · show s.nodes.size + 1 < s1.nodes.size
      rw [C.size]; omega
    · show (s1.nodeD s.nodes.size).kind = _
      rw [C.nodeD_lc]
    · show (s1.nodeD (s.nodes.size + 1)).kind = _
      rw [C.nodeD_main]
    · show (s1.nodeD s.nodes.size).createdIn = _
      rw [C.nodeD_lc]
    · show (s1.nodeD (s.nodes.size + 1)).createdIn = _
      rw [C.nodeD_main]
    · intro v
      refine templOK_of_body (T := s.top.size) hB ?_ ?_ v
      · show s.top.size ≤ (s1.top.push _).size
        rw [C.top, Array.size_push]; omega
      · intro j r hj hr
        have hr' : (s1.top.push (s.nodes.size + 1))[j]? = some r := hr
        rw [C.top, Array.getElem?_push, if_neg (by omega)] at hr'
        exact (Q.f1.topOK j r hr').1
  · refine ⟨s.nodes.size + 1, ?_, by omega, ?_, ?_⟩
    · show s1.top.push _ = _
      rw [C.top]
    · show s.nodes.size + 1 < s1.nodes.size
      rw [C.size]; omega
    · intro b h
      have h' : (s1.nodeD (s.nodes.size + 1)).kind = .bindLhsChange b := h
      rw [C.nodeD_main] at h'; cases h'

end MadeBind
end C2c

/-- **creation.** A successful `create` action with an instruction of the fragment (static, or a top-level `bind` whose closure is in F1) keeps the invariant
between actions. -/
theorem step_create1 {env : Env} {s s' : State} {i : Instr} {tokens : Array Nat} {r : String × Array Nat}
    (Q : QInv1 env s) (hi : InstrTop env s.top.size i)
    (h : (stepAction env (.create i) tokens).run.run s = (.ok r, s')) : QInv1 env s' := by
  have hsc := Q.struct.frag.scope
  unfold stepAction at h
  simp only at h
  obtain ⟨ro, s1, h1, h2⟩ := bind_ok_inv h
  by_cases hb : ∃ body lhs, i = .bind body lhs
  · obtain ⟨body, lhs, ei⟩ := hb
    rw [ei] at hi h1
    obtain ⟨⟨k, ek⟩, hB⟩ := hi
    rw [ek] at h1
    obtain ⟨l, hl, ero, C⟩ := C2c.elab_bind1 hsc h1
    rw [ero] at h2
    simp only at h2
    obtain ⟨s2, e2, h3⟩ := bind_modify_inv h2
    obtain ⟨-, e3⟩ := pure_ok_inv h3
    rw [e3, e2]
    exact (C.ext.withTop _ _).qinv Q (C.newOK Q hl hB _)
  · have hst : StaticInstr env i := by
      cases i <;> first | exact hi | exact (hb ⟨_, _, rfl⟩).elim
    obtain ⟨k, ero, hk, hkids, C⟩ := C2c.elab_static1 hsc hst h1
    rw [ero] at h2
    simp only at h2
    obtain ⟨s2, e2, h3⟩ := bind_modify_inv h2
    obtain ⟨-, e3⟩ := pure_ok_inv h3
    rw [e3, e2]
    exact (C.ext.withTop _ _).qinv Q (C.newOK Q hk hkids _)

end IncrVerif.Proofs.BindH
