import IncrVerif.Proofs.MapOld35
import IncrVerif.Proofs.TidyH1
/-!
# At most once per round: the fragment static + `map_with_old`
-/
namespace IncrVerif.Proofs.TidyH
open IncrVerif.Engine IncrVerif.Driver IncrVerif.Proofs IncrVerif.Proofs.Step IncrVerif.Proofs.Sched IncrVerif.Proofs.Quiet
open IncrVerif.Proofs.MapOldH

theorem frA_of_virtW {s s' : State} (f : Frame (virt s) (virt s')) : FrA s s' where
  stabNum := f.stabNum
  nec m := by have := f.nec m; rwa [virt_isNecessary, virt_isNecessary] at this
  ran m h := by
    have := f.ran m (by rw [virt_nodeD, virtNode_recomputedAt]; exact h)
    rwa [virt_nodeD, virtNode_recomputedAt] at this

theorem onceKitW {env : Env} {C : Val → Prop} {sp : Nat → Val → Val} (V : ValOK env C sp) :
    OnceKit env (DInvW env C sp) where
  stamps s x m D := by
    have := (D.inv.stamps.node m).1
    rwa [virt_nodeD, virtNode_recomputedAt] at this
  cur s n D := by
    have h1 := (D.inv.cur n rfl).1
    have h2 := D.inv.cur_not_yet
    rw [virt_isNecessary] at h1
    rw [virt_nodeD, virtNode_recomputedAt] at h2
    exact ⟨h1, h2⟩
  step s n fuel r s' D h := by
    obtain ⟨D', f, hr⟩ := recomputeOneW_inv V D h
    rw [virt_nodeD, virtNode_recomputedAt] at hr
    exact ⟨D', frA_of_virtW f.frame, hr⟩
  pop s n s1 D h := by
    obtain ⟨hv, F1, M1, hp1⟩ := popW D h
    obtain ⟨I1, f1⟩ := pop_inv D.inv hv
    exact ⟨⟨F1, I1, M1, hp1⟩, frA_of_virtW f1⟩
  popNone s s1 D h := (rchRemoveMin_inv (heapInv_of_virt D.inv.heap) h).1

/-- **T2a, the drain.** -/
theorem drain_onceW {env : Env} {C : Val → Prop} {sp : Nat → Val → Val} (V : ValOK env C sp) {fuel : Nat}
    {s s' : State} (D : DrainInvW env C sp s) (h : (drainHeap env fuel).run.run s = (.ok (), s')) :
    (drainTrace env fuel s).Nodup ∧ (∀ m, m ∈ drainTrace env fuel s → RanOnce s s' m) ∧
      ∀ p, p ∈ drainSteps env fuel s → DInvW env C sp p.2 (some p.1) ∧ FrA s p.2 := by
  have R := drain_onceG (onceKitW V) fuel s s' D h
  rw [← drainSteps_fst]
  exact ⟨R.nodup, R.once, R.steps⟩

section
variable {env : Env} {C : Val → Prop} {sp : Nat → Val → Val} {s : State}

/-- the prefix of `stabilise` (`addNewObservers`, `unlinkDisallowedObservers`) establishes the drain invariant and
leaves kinds, values and closure states alone -/
theorem prefix_drainInvW {fuel : Nat} {t1 t2 : State} (Q : QInvW env C sp s)
    (h1 : (addNewObservers env fuel).run.run { s with status := .stabilising } = (.ok (), t1))
    (h2 : (unlinkDisallowedObservers fuel).run.run t1 = (.ok (), t2)) :
    DInvW env C sp t2 none ∧ WFr s t2 ∧ t2.stabNum = s.stabNum ∧ t2.setDuringStab = [] ∧ t2.deadVars = [] ∧
      (∀ (o : Nat) (ob : ObsRec), t2.observers[o]? = some ob → ob.handlers = []) ∧
      (∀ m, (t2.nodeD m).recomputedAt = (s.nodeD m).recomputedAt ∧ (s.nodeD m).recomputedAt < s.stabNum) := by
  have Qv := Q.q
  have hs0v : virt { s with status := .stabilising } = { virt s with status := .stabilising } := rfl
  have W0 : WFr s { s with status := .stabilising } := ⟨rfl, fun _ => rfl, rfl, id⟩
  have F0 : WFrag env (Good env C sp) { s with status := .stabilising } := W0.frag Q.frag
  have M0 : MInv env C { s with status := .stabilising } := W0.minv Q.m
  have hp0 : ({ s with status := .stabilising } : State).propagateInvalidity = [] := Q.pinv
  have S0 : SInv (virtEnv env sp) (virt { s with status := .stabilising })
      (virt { s with status := .stabilising }).newObservers
      (virt { s with status := .stabilising }).disallowedObservers := by
    rw [hs0v]
    exact ⟨Qv.struct.congr (SameG.of_nodes rfl rfl rfl rfl rfl),
      ⟨Qv.obs.inRange, Qv.obs.mem, Qv.obs.created, Qv.obs.newIn, Qv.obs.dis, Qv.obs.disIn, Qv.obs.disNodup⟩,
      Qv.pinv, Qv.handlers⟩
  obtain ⟨hv1, fr1⟩ := Sim.addNewObservers (sp := sp) env fuel _ (F0.fr hp0) _ t1 h1
  obtain ⟨S1, hn1, hd1, P1, O1, -⟩ := addNewObservers_s S0 hv1
  have W1 : WFr { s with status := .stabilising } t1 := addNewObservers_wfr (F0.fr hp0) h1
  obtain ⟨hv2, fr2⟩ := Sim.unlinkDisallowedObservers fuel t1 fr1 _ t2 h2
  obtain ⟨S2, hn2, hd2, P2, O2⟩ := unlinkDisallowedObservers_s S1 hn1 hv2
  have W2 : WFr t1 t2 := unlinkDisallowedObservers_wfr h2
  have F2 : WFrag env (Good env C sp) t2 := W2.frag (W1.frag F0)
  have M2 : MInv env C t2 := W2.minv (W1.minv M0)
  have hp2 : t2.propagateInvalidity = [] := fr2.pinv
  have P := P1.trans P2
  obtain ⟨D2, U2⟩ := MapRefH.drain_start Qv hs0v S2 P
  have hst : t2.stabNum = s.stabNum := by have := P.stabNum; rw [hs0v] at this; exact this
  refine ⟨⟨F2, D2, M2, hp2⟩, W0.trans (W1.trans W2), hst, ?_, ?_, ?_, ?_⟩
  · have := P.setDuringStab; rw [hs0v] at this; exact this.trans Qv.setDuringStab
  · have := P.deadVars; rw [hs0v] at this; exact this.trans Qv.deadVars
  · intro o ob ho
    exact (S2.obs.inRange o ob ho).2
  · intro m
    have h3 := P.node m
    simp only [nodeKeyP, Prod.mk.injEq] at h3
    have h4 : ((virt t2).nodeD m).recomputedAt = ((virt s).nodeD m).recomputedAt := by
      have := h3.2.2.2.2.2.1; rw [hs0v] at this; exact this
    rw [virt_nodeD, virt_nodeD, virtNode_recomputedAt, virtNode_recomputedAt] at h4
    refine ⟨h4, ?_⟩
    have := (Qv.stamps m).1
    rwa [virt_nodeD, virtNode_recomputedAt] at this

/-- `stabiliseEnd` after the drain of a `stabilise` of the fragment: only `inHandleAfterStab` flags change in the nodes -/
theorem end_finishedW {fuel : Nat} {t2 t3 s' : State} (V : ValOK env C sp) (D2 : DInvW env C sp t2 none)
    (hsd : t2.setDuringStab = []) (hdv : t2.deadVars = [])
    (hobs : ∀ (o : Nat) (ob : ObsRec), t2.observers[o]? = some ob → ob.handlers = [])
    (h3 : (drainHeap env fuel).run.run t2 = (.ok (), t3))
    (h4 : (stabiliseEnd env fuel).run.run t3 = (.ok (), s')) :
    Finished' t3 s' ∧ t3.setDuringStab = [] ∧ t3.deadVars = [] ∧
      (∀ (o : Nat) (ob : ObsRec), t3.observers[o]? = some ob → ob.handlers = []) := by
  obtain ⟨D3, -, f3⟩ := drainHeapW_inv V fuel t2 t3 D2 h3
  have c3 := f3.calm
  have a1 : t3.setDuringStab = [] := by
    have := c3.setDuringStab
    have e1 : (virt t3).setDuringStab = t3.setDuringStab := rfl
    rw [← e1, this]; exact hsd
  have a2 : t3.deadVars = [] := by
    have := c3.deadVars
    have e1 : (virt t3).deadVars = t3.deadVars := rfl
    rw [← e1, this]; exact hdv
  have a3 : ∀ (o : Nat) (ob : ObsRec), t3.observers[o]? = some ob → ob.handlers = [] := by
    intro o ob ho
    have hkd := f3.keyD
    simp only [KeyD, stateKeyD, Prod.mk.injEq] at hkd
    have e1 : (virt t3).observers = t3.observers := rfl
    rw [← e1, hkd.1] at ho
    exact hobs o ob ho
  exact ⟨stabiliseEnd_fin a1 a2 a3 h4, a1, a2, a3⟩

/-- **T2a: at most once per round, and only necessary nodes**, for a `stabilise` from the invariant between API actions
of the fragment static + map_with_old. -/
theorem stabilise_onceW {fuel : Nat} {s' : State} (V : ValOK env C sp) (Q : QInvW env C sp s)
    (h : (stabilise env fuel).run.run s = (.ok (), s')) :
    ∃ t1 t2 t3, (addNewObservers env fuel).run.run { s with status := .stabilising } = (.ok (), t1) ∧
      (unlinkDisallowedObservers fuel).run.run t1 = (.ok (), t2) ∧
      (drainHeap env fuel).run.run t2 = (.ok (), t3) ∧ (stabiliseEnd env fuel).run.run t3 = (.ok (), s') ∧
      DrainInvW env C sp t2 ∧ (drainTrace env fuel t2).Nodup ∧
      ∀ m, m ∈ drainTrace env fuel t2 → t2.isNecessary m = true ∧ s'.isNecessary m = true ∧
        (t2.nodeD m).recomputedAt < s.stabNum ∧ (s'.nodeD m).recomputedAt = s.stabNum := by
  obtain ⟨t1, t2, t3, -, h1, h2, h3, h4⟩ := stabilise_split h
  obtain ⟨D2, -, hst, hsd, hdv, hobs, -⟩ := prefix_drainInvW Q h1 h2
  have R := drain_onceG (onceKitW V) fuel t2 t3 D2 h3
  have hk := R.fr
  obtain ⟨E, -, -, -⟩ := end_finishedW V D2 hsd hdv hobs h3 h4
  refine ⟨t1, t2, t3, h1, h2, h3, h4, D2, ?_, ?_⟩
  · rw [← drainSteps_fst]; exact R.nodup
  · intro m hm
    rw [← drainSteps_fst] at hm
    obtain ⟨a1, a2, a3⟩ := R.once m hm
    obtain ⟨b, hb⟩ := E.node m
    refine ⟨a1, ?_, by rw [← hst]; exact a2, ?_⟩
    · have : s'.isNecessary m = t3.isNecessary m := by simp only [State.isNecessary, hb]; rfl
      rw [this, hk.nec]; exact a1
    · rw [hb, ← hst]; exact a3

end
end IncrVerif.Proofs.TidyH
