import IncrVerif.Proofs.Sched11
import IncrVerif.Proofs.Sched6
/-!
# Termination of the drain: with enough fuel `drainHeap` returns

`unrun s` counts the nodes not yet recomputed in the current round.  Every `recomputeOne` of the drain
lowers it by one, so `drainHeap env fuel` returns as soon as `fuel ≥ unrun s + 2` — in particular when
`fuel ≥ s.nodes.size + 2`.
-/
namespace IncrVerif.Proofs.Sched
open IncrVerif.Engine IncrVerif.Proofs IncrVerif.Proofs.Step

/-- number of nodes whose `recomputedAt` stamp is older than the current round -/
def unrun (s : State) : Nat :=
  (List.range s.nodes.size).countP fun m => decide ((s.nodeD m).recomputedAt < s.stabNum)

theorem countP_le_of_imp {α} (l : List α) (p q : α → Bool) (h : ∀ a, a ∈ l → p a = true → q a = true) :
    l.countP p ≤ l.countP q := by
  induction l with
  | nil => exact Nat.le_refl _
  | cons a l ih =>
    have ih' := ih (fun b hb => h b (List.mem_cons_of_mem _ hb))
    have ha := h a (List.mem_cons_self ..)
    simp only [List.countP_cons]
    cases hp : p a with
    | false => simp only [Bool.false_eq_true, if_false]; split <;> omega
    | true => rw [ha hp]; simp only [if_true]; omega

theorem countP_lt_of_imp {α} (l : List α) (p q : α → Bool) (h : ∀ a, a ∈ l → p a = true → q a = true)
    (x : α) (hx : x ∈ l) (hq : q x = true) (hp : p x = false) : l.countP p < l.countP q := by
  induction l with
  | nil => cases hx
  | cons a l ih =>
    have hle := countP_le_of_imp l p q (fun b hb => h b (List.mem_cons_of_mem _ hb))
    simp only [List.countP_cons]
    rcases List.mem_cons.1 hx with rfl | hx
    · rw [hq, hp]; simp only [if_true, Bool.false_eq_true, if_false]; omega
    · have ih' := ih (fun b hb => h b (List.mem_cons_of_mem _ hb)) hx
      have ha := h a (List.mem_cons_self ..)
      cases hpa : p a with
      | false => simp only [Bool.false_eq_true, if_false]; split <;> omega
      | true => rw [ha hpa]; simp only [if_true]; omega

theorem unrun_le_size (s : State) : unrun s ≤ s.nodes.size := by
  unfold unrun
  have := List.countP_le_length (p := fun m => decide ((s.nodeD m).recomputedAt < s.stabNum))
    (l := List.range s.nodes.size)
  simpa using this

/-- the count never goes up within a round -/
theorem Frame.unrun_le {s s' : State} (f : Frame s s') (st : Stamps s) : unrun s' ≤ unrun s := by
  unfold unrun
  rw [f.size, f.stabNum]
  apply countP_le_of_imp
  intro m _ hm
  have := f.not_yet st (m := m) (by simpa using hm)
  simpa using this

/-- … and goes down when a node gets its stamp -/
theorem Frame.unrun_lt {s s' : State} (f : Frame s s') (st : Stamps s) {n : Nat} (hn : n < s.nodes.size)
    (h0 : (s.nodeD n).recomputedAt < s.stabNum) (h1 : (s'.nodeD n).recomputedAt = s.stabNum) :
    unrun s' < unrun s := by
  unfold unrun
  rw [f.size, f.stabNum]
  refine countP_lt_of_imp _ _ _ ?_ n (List.mem_range.2 hn) (by simpa using h0) (by simp [h1])
  intro m _ hm
  have := f.not_yet st (m := m) (by simpa using hm)
  simpa using this

theorem unrun_pos {s : State} {n : Nat} (hn : n < s.nodes.size)
    (h0 : (s.nodeD n).recomputedAt < s.stabNum) : 0 < unrun s := by
  unfold unrun
  exact List.countP_pos_iff.2 ⟨n, List.mem_range.2 hn, by simpa using h0⟩

/-- after its `recompute` the current node carries the stamp of the round -/
theorem recompute_ran {env : Env} : ∀ (fuel n : Nat) (s s' : State), Inv env s (some n) →
    (recompute env fuel n).run.run s = (.ok (), s') → (s'.nodeD n).recomputedAt = s.stabNum := by
  intro fuel
  cases fuel with
  | zero => intro n s s' _ h; unfold recompute at h; cases h
  | succ fuel =>
    intro n s s' I h
    unfold recompute at h
    obtain ⟨r, s1, h1, h2⟩ := bind_ok_inv h
    obtain ⟨I1, f1, hn1⟩ := recomputeOne_inv I h1
    cases r with
    | none => obtain ⟨-, rfl⟩ := pure_ok_inv h2; exact hn1
    | some p =>
      obtain ⟨-, f2⟩ := recompute_inv fuel p s1 s' I1 h2
      have := f2.ran n (by rw [f1.stabNum]; exact hn1)
      rw [f1.stabNum] at this; exact this

/-- **the chain terminates**: with `fuel > unrun s` the direct-recompute chain returns -/
theorem recompute_total {env : Env} : ∀ (fuel n : Nat) (s : State), Inv env s (some n) → Safe s →
    unrun s + 1 ≤ fuel → ∃ s', (recompute env fuel n).run.run s = (.ok (), s') := by
  intro fuel
  induction fuel with
  | zero => intro n s _ _ h; omega
  | succ fuel ih =>
    intro n s I S hf
    have hnlt := (I.graph.nec n (I.cur n rfl).1).1
    have hpos := unrun_pos hnlt I.cur_not_yet
    unfold recompute
    rw [run_bind]
    rcases h1 : (recomputeOne env fuel n).run.run s with ⟨r | r, s1⟩
    · exfalso
      have := (recomputeOne_safe I S h1).2
      omega
    · obtain ⟨I1, f1, hn1⟩ := recomputeOne_inv I h1
      cases r with
      | none => exact ⟨s1, rfl⟩
      | some p =>
        have hlt := f1.unrun_lt I.stamps hnlt I.cur_not_yet hn1
        exact ih p s1 I1 (recomputeOne_keeps_safe I S h1) (by omega)

/-- **the drain terminates**: with `fuel ≥ unrun s + 2` a `drainHeap` from a state with the drain
invariant and `Safe` returns -/
theorem drainHeap_total {env : Env} : ∀ (fuel : Nat) (s : State), DrainInv env s → Safe s →
    unrun s + 2 ≤ fuel → ∃ s', (drainHeap env fuel).run.run s = (.ok (), s') := by
  intro fuel
  induction fuel with
  | zero => intro s _ _ h; omega
  | succ fuel ih =>
    intro s I S hf
    obtain ⟨r, s1, hpop, S1⟩ := rchRemoveMin_safe I S
    unfold drainHeap
    rw [run_bind, hpop]
    cases r with
    | none => exact ⟨s1, rfl⟩
    | some n =>
      obtain ⟨I1, f1⟩ := pop_inv I hpop
      have hle := f1.unrun_le I.stamps
      obtain ⟨s2, hrec⟩ := recompute_total fuel n s1 I1 S1 (by omega)
      obtain ⟨I2, f2⟩ := recompute_inv fuel n s1 s2 I1 hrec
      have hnlt := (I1.graph.nec n (I1.cur n rfl).1).1
      have hlt := f2.unrun_lt I1.stamps hnlt I1.cur_not_yet (recompute_ran fuel n s1 s2 I1 hrec)
      obtain ⟨s', hd⟩ := ih s2 I2 (recompute_keeps_safe fuel n s1 s2 I1 S1 hrec) (by omega)
      refine ⟨s', ?_⟩
      simp only [run_bind, hrec, hd]

/-- **total correctness of the drain.** From the drain invariant and `Safe`, with
`fuel ≥ s.nodes.size + 2`, `drainHeap` returns; the final state satisfies the drain invariant, has an
empty heap, and every necessary node carries its from-scratch value. -/
theorem drainHeap_total_values {env : Env} {fuel : Nat} {s : State} (I : DrainInv env s) (S : Safe s)
    (hf : s.nodes.size + 2 ≤ fuel) :
    ∃ s', (drainHeap env fuel).run.run s = (.ok (), s') ∧ DrainInv env s' ∧ s'.rch.length = 0 ∧
      Frame s s' ∧ ∀ n, s.isNecessary n = true → ∀ k, (s.nodeD n).height.toNat < k →
        s'.isStale n = false ∧ s'.value env n = eval env s k n ∧ (eval env s k n).isSome = true := by
  have := unrun_le_size s
  obtain ⟨s', h⟩ := drainHeap_total fuel s I S (by omega)
  obtain ⟨I', he, f⟩ := drainHeap_inv fuel s s' I h
  refine ⟨s', h, I', he, f, ?_⟩
  intro n hn k hk
  obtain ⟨-, -, -, h4, -, h6, h7⟩ := drainHeap_values I h n hn k hk
  exact ⟨h4, h6, h7⟩

end IncrVerif.Proofs.Sched
