import IncrVerif.Proofs.PerKeyH17
/-!
# The twin simulation calculus, part 2: the `tsim` tactics; the expert callbacks; heap and height functions
(port of `Proofs/ExpertH24.lean`)
-/
namespace IncrVerif.Proofs.PerKeyH
open IncrVerif.Engine IncrVerif.Driver IncrVerif.Proofs IncrVerif.Proofs.Step IncrVerif.Proofs.Sched
open IncrVerif.Proofs.ExpertH IncrVerif.Proofs.EffH

/-- registered `TSim` lemmas -/
syntax "tsim_leaf" : tactic
macro_rules | `(tactic| tsim_leaf) => `(tactic| fail "no leaf")

set_option hygiene false in
macro "tsim_step" : tactic => `(tactic| first
  | with_reducible exact IncrVerif.Proofs.PerKeyH.TSimL.ret _
  | with_reducible exact IncrVerif.Proofs.PerKeyH.TSimL.thr _ _
  | with_reducible exact IncrVerif.Proofs.PerKeyH.TSimL.pan _ _
  | ((with_reducible refine IncrVerif.Proofs.PerKeyH.TSimL.get_seq ?_); try tnorm)
  | ((with_reducible refine IncrVerif.Proofs.PerKeyH.TSimL.getNode_seq fun nd hnd hxk hval => ?_); try tnorm)
  | ((with_reducible refine IncrVerif.Proofs.PerKeyH.TSimL.getExpert_seq fun er her => ?_); try tnorm)
  | ((with_reducible refine IncrVerif.Proofs.PerKeyH.TSimL.mod_seq ?_ ?_ ?_ ?_ ?_ ?_) <;> (first | rfl | skip))
  | ((with_reducible refine IncrVerif.Proofs.PerKeyH.TSimL.mod ?_ ?_ ?_ ?_ ?_) <;> rfl)
  | ((with_reducible refine IncrVerif.Proofs.PerKeyH.TSim.atL ?_ _ _); tsim_leaf)
  | ((with_reducible refine IncrVerif.Proofs.PerKeyH.TSimL.forIn_at _ (fun _ _ => ?_) _); apply IncrVerif.Proofs.PerKeyH.TSim.ofL; intro _ _)
  | (with_reducible refine IncrVerif.Proofs.PerKeyH.TSimL.seq ?_ fun _ _ _ _ => ?_)
  | (refine IncrVerif.Proofs.PerKeyH.TSimL.cond Iff.rfl (fun _ => ?_) (fun _ => ?_)))

macro "tsim" : tactic => `(tactic| repeat (any_goals tsim_step))

set_option hygiene false in
/-- a `match` on the kind of the node last read by `getNode` -/
macro "tsim_kind" : tactic => `(tactic| (
  simp only [IncrVerif.Proofs.PerKeyH.twNode_kind?, IncrVerif.Proofs.ExpertH.kind?_of_valid hval, Option.map_some]
  cases hk : nd.kind
  all_goals simp only [IncrVerif.Proofs.PerKeyH.twKind]
  all_goals try exact absurd hxk (by rw [hk]; exact fun h => h)
  tsim))

macro_rules | `(tactic| tsim_leaf) => `(tactic| with_reducible exact IncrVerif.Proofs.PerKeyH.TSim.dassert _ _)
macro_rules | `(tactic| tsim_leaf) => `(tactic| with_reducible exact IncrVerif.Proofs.PerKeyH.TSim.assertM _ _)
macro_rules | `(tactic| tsim_leaf) => `(tactic| with_reducible exact IncrVerif.Proofs.PerKeyH.TSim.tick)
macro_rules | `(tactic| tsim_leaf) => `(tactic| with_reducible exact IncrVerif.Proofs.PerKeyH.TSim.logEv _ _)
macro_rules | `(tactic| tsim_leaf) => `(tactic|
  ((with_reducible refine IncrVerif.Proofs.PerKeyH.TSim.modNode _ ?_ ?_) <;> first | tcomm | tkind))
macro_rules | `(tactic| tsim_leaf) => `(tactic|
  ((with_reducible refine IncrVerif.Proofs.PerKeyH.TSim.modExpert _ ?_ ?_) <;>
    first | (intro er; rfl) | (intro er h; first | exact h | rfl | (simp only [h]; rfl))))

/-! ## the expert callbacks: the twin (whose records have `pk = none`) always ticks and logs -/

theorem TSim.observabilityChange (e : Nat) (b : Bool) :
    TSim (Engine.observabilityChange e b) (Engine.observabilityChange e b) := by
  apply TSim.ofL; intro s l; unfold Engine.observabilityChange
  refine TSimL.getExpert_seq fun er her => ?_
  by_cases hp : er.pk.isNone = true
  · simp only [hp, twRec_pk, Option.isNone_none, if_true]
    tsim
  · simp only [hp, twRec_pk, Option.isNone_none, if_true, Bool.false_eq_true, if_false]
    refine TSimL.getR_seq ?_
    refine TSimL.logR_seq ?_
    tsim
macro_rules | `(tactic| tsim_leaf) => `(tactic|
  with_reducible exact IncrVerif.Proofs.PerKeyH.TSim.observabilityChange _ _)

theorem TSim.edgeOnChange (env : Env) (e : Nat) (edge : ExpertEdge) :
    TSim (Engine.edgeOnChange env e edge) (Engine.edgeOnChange (twEnv env) e edge) := by
  apply TSim.ofL; intro s l; unfold Engine.edgeOnChange
  cases edge.cb with
  | none => exact TSimL.ret _
  | some c =>
    dsimp only
    refine TSimL.get_seq ?_
    rw [twL_value]
    cases s.value env edge.child with
    | none => exact TSimL.ret _
    | some v =>
      dsimp only
      refine TSimL.getExpert_seq fun er her => ?_
      by_cases hp : er.pk.isNone = true
      · simp only [hp, twRec_pk, Option.isNone_none, if_true]
        tsim
      · simp only [hp, twRec_pk, Option.isNone_none, if_true, Bool.false_eq_true, if_false]
        refine TSimL.tickR_seq ?_
        refine TSimL.logR_seq ?_
        tsim
macro_rules | `(tactic| tsim_leaf) => `(tactic|
  with_reducible exact IncrVerif.Proofs.PerKeyH.TSim.edgeOnChange _ _ _)

theorem TSim.runEdgeCallback (env : Env) (e i : Nat) :
    TSim (Engine.runEdgeCallback env e i) (Engine.runEdgeCallback (twEnv env) e i) := by
  apply TSim.ofL; intro s l; unfold Engine.runEdgeCallback; tsim
  cases er.children[i]? <;> tsim
macro_rules | `(tactic| tsim_leaf) => `(tactic|
  with_reducible exact IncrVerif.Proofs.PerKeyH.TSim.runEdgeCallback _ _ _)

theorem TSim.addParent (c i p : Nat) : TSim (Engine.addParent c i p) (Engine.addParent c i p) := by
  apply TSim.ofL; intro s l; unfold Engine.addParent; tsim
macro_rules | `(tactic| tsim_leaf) => `(tactic| with_reducible exact IncrVerif.Proofs.PerKeyH.TSim.addParent _ _ _)

theorem TSim.removeParent (c i p : Nat) : TSim (Engine.removeParent c i p) (Engine.removeParent c i p) := by
  apply TSim.ofL; intro s l; unfold Engine.removeParent; tsim
  split <;> tsim
macro_rules | `(tactic| tsim_leaf) => `(tactic| with_reducible exact IncrVerif.Proofs.PerKeyH.TSim.removeParent _ _ _)

theorem TSim.setHeight (n : Nat) (h : Int) : TSim (Engine.setHeight n h) (Engine.setHeight n h) := by
  apply TSim.ofL; intro s l; unfold Engine.setHeight; tsim
macro_rules | `(tactic| tsim_leaf) => `(tactic| with_reducible exact IncrVerif.Proofs.PerKeyH.TSim.setHeight _ _)

theorem TSim.rchLink (n : Nat) : TSim (Engine.rchLink n) (Engine.rchLink n) := by
  apply TSim.ofL; intro s l; unfold Engine.rchLink; tsim
macro_rules | `(tactic| tsim_leaf) => `(tactic| with_reducible exact IncrVerif.Proofs.PerKeyH.TSim.rchLink _)

theorem TSim.rchUnlink (n : Nat) : TSim (Engine.rchUnlink n) (Engine.rchUnlink n) := by
  apply TSim.ofL; intro s l; unfold Engine.rchUnlink; tsim
  split <;> tsim
  split <;> tsim
  split <;> tsim
macro_rules | `(tactic| tsim_leaf) => `(tactic| with_reducible exact IncrVerif.Proofs.PerKeyH.TSim.rchUnlink _)

theorem TSim.rchInsert (n : Nat) : TSim (Engine.rchInsert n) (Engine.rchInsert n) := by
  apply TSim.ofL; intro s l; unfold Engine.rchInsert; tsim
macro_rules | `(tactic| tsim_leaf) => `(tactic| with_reducible exact IncrVerif.Proofs.PerKeyH.TSim.rchInsert _)

theorem TSim.rchRemove (n : Nat) : TSim (Engine.rchRemove n) (Engine.rchRemove n) := by
  apply TSim.ofL; intro s l; unfold Engine.rchRemove; tsim
macro_rules | `(tactic| tsim_leaf) => `(tactic| with_reducible exact IncrVerif.Proofs.PerKeyH.TSim.rchRemove _)

theorem TSim.rchRemoveMin : TSim Engine.rchRemoveMin Engine.rchRemoveMin := by
  apply TSim.ofL; intro s l; unfold Engine.rchRemoveMin; tsim
  split <;> tsim
macro_rules | `(tactic| tsim_leaf) => `(tactic| with_reducible exact IncrVerif.Proofs.PerKeyH.TSim.rchRemoveMin)

theorem TSim.rchMinHeight : TSim Engine.rchMinHeight Engine.rchMinHeight := by
  apply TSim.ofL; intro s l; unfold Engine.rchMinHeight; tsim
  exact TSimL.ret _
macro_rules | `(tactic| tsim_leaf) => `(tactic| with_reducible exact IncrVerif.Proofs.PerKeyH.TSim.rchMinHeight)

theorem TSim.rchIncreaseHeight (n : Nat) : TSim (Engine.rchIncreaseHeight n) (Engine.rchIncreaseHeight n) := by
  apply TSim.ofL; intro s l; unfold Engine.rchIncreaseHeight; tsim
macro_rules | `(tactic| tsim_leaf) => `(tactic| with_reducible exact IncrVerif.Proofs.PerKeyH.TSim.rchIncreaseHeight _)

theorem TSim.ahhAddUnlessMem (n : Nat) : TSim (Engine.ahhAddUnlessMem n) (Engine.ahhAddUnlessMem n) := by
  apply TSim.ofL; intro s l; unfold Engine.ahhAddUnlessMem; tsim
macro_rules | `(tactic| tsim_leaf) => `(tactic| with_reducible exact IncrVerif.Proofs.PerKeyH.TSim.ahhAddUnlessMem _)

theorem TSim.ahhRemoveMin : TSim Engine.ahhRemoveMin Engine.ahhRemoveMin := by
  apply TSim.ofL; intro s l; unfold Engine.ahhRemoveMin; tsim
  split <;> tsim
macro_rules | `(tactic| tsim_leaf) => `(tactic| with_reducible exact IncrVerif.Proofs.PerKeyH.TSim.ahhRemoveMin)

theorem TSim.ensureHeightRequirement (oc op c p : Nat) :
    TSim (Engine.ensureHeightRequirement oc op c p) (Engine.ensureHeightRequirement oc op c p) := by
  apply TSim.ofL; intro s l; unfold Engine.ensureHeightRequirement; tsim
macro_rules | `(tactic| tsim_leaf) => `(tactic|
  with_reducible exact IncrVerif.Proofs.PerKeyH.TSim.ensureHeightRequirement _ _ _ _)

theorem TSim.getBind (b : Nat) : TSim (Engine.getBind b) (Engine.getBind b) := by
  apply TSim.ofL; intro s l; unfold Engine.getBind; tsim
  split <;> tsim
macro_rules | `(tactic| tsim_leaf) => `(tactic| with_reducible exact IncrVerif.Proofs.PerKeyH.TSim.getBind _)

theorem TSim.bumpCounter (f : Counters → Counters) : TSim (Engine.bumpCounter f) (Engine.bumpCounter f) := by
  apply TSim.ofL; intro s l; unfold Engine.bumpCounter; tsim
macro_rules | `(tactic| tsim_leaf) => `(tactic| with_reducible exact IncrVerif.Proofs.PerKeyH.TSim.bumpCounter _)

theorem TSim.scopeHeight (sc : Scope) : TSim (Engine.scopeHeight sc) (Engine.scopeHeight sc) := by
  apply TSim.ofL; intro s l; unfold Engine.scopeHeight
  cases sc with
  | top => tsim
  | bind b => tsim
macro_rules | `(tactic| tsim_leaf) => `(tactic| with_reducible exact IncrVerif.Proofs.PerKeyH.TSim.scopeHeight _)

theorem TSim.scopeIsNecessary (sc : Scope) : TSim (Engine.scopeIsNecessary sc) (Engine.scopeIsNecessary sc) := by
  apply TSim.ofL; intro s l; unfold Engine.scopeIsNecessary
  cases sc with
  | top => tsim
  | bind b => tsim
macro_rules | `(tactic| tsim_leaf) => `(tactic| with_reducible exact IncrVerif.Proofs.PerKeyH.TSim.scopeIsNecessary _)

theorem TSim.handleAfterStabilisation (n : Nat) :
    TSim (Engine.handleAfterStabilisation n) (Engine.handleAfterStabilisation n) := by
  apply TSim.ofL; intro s l; unfold Engine.handleAfterStabilisation; tsim
macro_rules | `(tactic| tsim_leaf) => `(tactic|
  with_reducible exact IncrVerif.Proofs.PerKeyH.TSim.handleAfterStabilisation _)

theorem TSim.maybeHandleAfterStabilisation (n : Nat) :
    TSim (Engine.maybeHandleAfterStabilisation n) (Engine.maybeHandleAfterStabilisation n) := by
  apply TSim.ofL; intro s l; unfold Engine.maybeHandleAfterStabilisation; tsim
macro_rules | `(tactic| tsim_leaf) => `(tactic|
  with_reducible exact IncrVerif.Proofs.PerKeyH.TSim.maybeHandleAfterStabilisation _)

/-- no map_ref nodes: a no-op on both sides -/
theorem TSim.markMapRefUnknown (fuel n : Nat) :
    TSim (Engine.markMapRefUnknown fuel n) (Engine.markMapRefUnknown fuel n) := by
  apply TSim.ofL; intro s l
  cases fuel with
  | zero => unfold Engine.markMapRefUnknown; tsim
  | succ fuel =>
    unfold Engine.markMapRefUnknown
    tsim
    tsim_kind
macro_rules | `(tactic| tsim_leaf) => `(tactic| with_reducible exact IncrVerif.Proofs.PerKeyH.TSim.markMapRefUnknown _ _)

/-! ## `adjust_heights` (no bind nodes: the `bindLhsChange` branch is dead) -/

theorem TSim.adjustHeightsLoop (oc op fuel : Nat) :
    TSim (Engine.adjustHeightsLoop oc op fuel) (Engine.adjustHeightsLoop oc op fuel) := by
  induction fuel with
  | zero => apply TSim.ofL; intro s l; unfold Engine.adjustHeightsLoop; tsim
  | succ fuel ih =>
    apply TSim.ofL; intro s l
    unfold Engine.adjustHeightsLoop
    refine TSimL.seq (TSim.ahhRemoveMin.atL s l) fun r s1 l1 _ => ?_
    cases r with
    | none => exact TSimL.ret _
    | some c =>
      dsimp only
      tsim
      all_goals first
        | exact TSim.atL ih _ _
        | (tsim_kind; all_goals exact TSim.atL ih _ _)
macro_rules | `(tactic| tsim_leaf) => `(tactic|
  with_reducible exact IncrVerif.Proofs.PerKeyH.TSim.adjustHeightsLoop _ _ _)

theorem TSim.adjustHeights (oc op fuel : Nat) :
    TSim (Engine.adjustHeights oc op fuel) (Engine.adjustHeights oc op fuel) := by
  apply TSim.ofL; intro s l; unfold Engine.adjustHeights; tsim
  · simp only [twL_nodeD, twNode_height]; rfl
macro_rules | `(tactic| tsim_leaf) => `(tactic| with_reducible exact IncrVerif.Proofs.PerKeyH.TSim.adjustHeights _ _ _)

end IncrVerif.Proofs.PerKeyH
