import IncrVerif.Proofs.NestH60
import IncrVerif.Proofs.BindH100
/-!
# Nested binds (F2), part 5d2: one template — the values `denInstrs2` computes are the stored values of the necessary locals

Port of BindH100 (`opnds_agree`, `step_instr`, `agree_instrs`), with two changes:
* the side condition on the top-level nodes an instruction reads is an arbitrary predicate `Pc` (F1: "older than the change detector"; F2: "rank below `R`");
* NEW: an instruction `bind body' o`: the local is the main node of an inner bind; what is known about it is a hypothesis (`hrec`) that the caller discharges with
  `GenOK2` for the inner bind and the induction hypothesis of the nesting induction (`N5d3.lean`).
Reused from `BindH.C3d`: `Agree`, `Agree.nil`, `Agree.snoc`, `resolveAll_mem`, `allSome_resolve`.
-/
namespace IncrVerif.Proofs.NestH
open IncrVerif.Engine IncrVerif.Proofs IncrVerif.Proofs.Step IncrVerif.Proofs.Sched
open IncrVerif.Proofs.BindH

namespace N5d
open IncrVerif.Proofs.BindH.C3d

/-- one operand -/
theorem opnd_agree2 {s : State} (ev : Nat → Option Val) (Pc : Nat → Prop)
    (hev : ∀ c, s.isNecessary c = true → (s.nodeD c).createdIn = .top → Pc c → ev c = (s.nodeD c).value)
    (htop : ∀ (k r : Nat), s.top[k]? = some r → (s.nodeD r).createdIn = .top)
    {L : List Nat} {V : List (Option Val)} (hA : Agree s L V) (o : Opnd) (c : Nat)
    (hc : resolveP s L o = some c) (hn : s.isNecessary c = true) (hP : (s.nodeD c).createdIn = .top → Pc c) :
    denOpnd ev s.top V o = (s.nodeD c).value := by
  cases o with
  | outer k =>
    simp only [resolveP] at hc
    simp only [denOpnd, hc]
    exact hev c hn (htop k c hc) (hP (htop k c hc))
  | loc j =>
    simp only [resolveP] at hc
    simp only [denOpnd]
    exact hA.2 j c hc hn
  | abs _ => simp only [resolveP] at hc; cases hc
  | slot _ => simp only [resolveP] at hc; cases hc

/-- the operands of one instruction -/
theorem opnds_agree2 {s : State} (ev : Nat → Option Val) (Pc : Nat → Prop)
    (hev : ∀ c, s.isNecessary c = true → (s.nodeD c).createdIn = .top → Pc c → ev c = (s.nodeD c).value)
    (htop : ∀ (k r : Nat), s.top[k]? = some r → (s.nodeD r).createdIn = .top)
    {L : List Nat} {V : List (Option Val)} (hA : Agree s L V) (args : List Opnd) (cs : List Nat)
    (hr : resolveAll s L args = some cs)
    (hcs : ∀ c, c ∈ cs → s.isNecessary c = true ∧ ((s.nodeD c).createdIn = .top → Pc c)) :
    allSome (args.map (denOpnd ev s.top V)) = plainVals s cs := by
  apply allSome_resolve s L _ args cs hr
  intro o ho c hc
  obtain ⟨hn, hlt⟩ := hcs c (resolveAll_mem s L args cs hr o ho c hc)
  exact opnd_agree2 ev Pc hev htop hA o c hc hn hlt

/-- one instruction that is not a `bind` (as `BindH.C3d.step_instr`) -/
theorem step_static2 {env : Env} {s : State} (g : BGraph env s) (ev : Nat → Option Val) (v : Val) (Pc : Nat → Prop)
    (hall : ∀ m, s.isNecessary m = true → ConsistentB env s m)
    (hev : ∀ c, s.isNecessary c = true → (s.nodeD c).createdIn = .top → Pc c → ev c = (s.nodeD c).value)
    (htop : ∀ (k r : Nat), s.top[k]? = some r → (s.nodeD r).createdIn = .top)
    {L : List Nat} {V : List (Option Val)} (hA : Agree s L V) {i : Instr} {m : Nat}
    (hk : kindOfInstr s L v i = some (s.nodeD m).kind)
    (hm : s.isNecessary m = true)
    (hkids : ∀ c, c ∈ s.children m → (s.nodeD c).createdIn = .top → Pc c) :
    denInstr env ev s.top v V i = (s.nodeD m).value := by
  obtain ⟨w, ht, hv⟩ := hall m hm
  have hmv := (g.nec m hm).1
  have hnec : ∀ c, c ∈ s.children m → s.isNecessary c = true := by
    intro c hc
    exact (g.edge_nec hm (Edge.child hc)).1
  unfold TargetB at ht
  rw [hv]
  cases i <;> simp only [kindOfInstr] at hk <;> try (cases hk; done)
  · -- const
    rename_i w'
    injection hk with hk
    rw [← hk] at ht
    simp only [Target, ← hk] at ht
    simp only [denInstr, ht]
  · -- lhsConst
    injection hk with hk
    rw [← hk] at ht
    simp only [Target, ← hk] at ht
    simp only [denInstr, ht]
  · -- map
    rename_i f args
    cases hr : resolveAll s L args with
    | none => rw [hr] at hk; cases hk
    | some cs =>
      rw [hr] at hk
      simp only [Option.map_some] at hk
      injection hk with hk
      have hch : s.children m = cs := by unfold State.children Node.kind?; rw [hmv, ← hk]; rfl
      rw [← hk] at ht
      simp only [Target, ← hk] at ht
      obtain ⟨vals, h1, h2⟩ := ht
      simp only [denInstr]
      rw [opnds_agree2 ev Pc hev htop hA args cs hr
        (fun c hc => ⟨hnec c (by rw [hch]; exact hc), hkids c (by rw [hch]; exact hc)⟩), h1, h2]
      rfl
  · -- fold
    rename_i f init args
    cases hr : resolveAll s L args with
    | none => rw [hr] at hk; cases hk
    | some cs =>
      rw [hr] at hk
      simp only [Option.map_some] at hk
      injection hk with hk
      simp only [denInstr]
      cases cs with
      | nil =>
        simp only [List.isEmpty_nil, if_true] at hk
        rw [← hk] at ht
        simp only [Target, ← hk] at ht
        rw [opnds_agree2 ev Pc hev htop hA args [] hr (fun c hc => by cases hc), ht]
        rfl
      | cons c0 cs =>
        simp only [List.isEmpty_cons, Bool.false_eq_true, if_false] at hk
        have hch : s.children m = c0 :: cs := by unfold State.children Node.kind?; rw [hmv, ← hk]; rfl
        rw [← hk] at ht
        simp only [Target, ← hk] at ht
        obtain ⟨vals, h1, h2⟩ := ht
        rw [opnds_agree2 ev Pc hev htop hA args (c0 :: cs) hr
          (fun c hc => ⟨hnec c (by rw [hch]; exact hc), hkids c (by rw [hch]; exact hc)⟩), h1, h2]
        rfl

/-- the image of an instruction that is not a `bind` is given by its kind, as in F1 -/
theorem instrImg_not_bind {s : State} {L : List Nat} {v : Val} {i : Instr} {m : Nat} (h : ∀ b o, i ≠ .bind b o)
    (hk : InstrImg s L v i m) : kindOfInstr s L v i = some (s.nodeD m).kind := by
  cases i <;> first | exact hk | exact absurd rfl (h _ _)

/-- what the caller must know about the main node `m` of an inner bind that is a NECESSARY local: the inner lhs is necessary (and satisfies the side condition
if it is top-level), and `rec`, run on the current value of the inner lhs, yields the stored value of `m` -/
def InnerOK (s : State) (Pc : Nat → Prop) (rec : Nat → Val → Option Val) (m : Nat) : Prop :=
  ∀ (b2 : Nat) (br2 : BindRec), s.binds[b2]? = some br2 → br2.main = m →
    s.isNecessary br2.lhs = true ∧ ((s.nodeD br2.lhs).createdIn = .top → Pc br2.lhs) ∧
    ∃ v', (s.nodeD br2.lhs).value = some v' ∧ rec br2.body v' = (s.nodeD m).value

/-- one instruction: the value `denInstr2` computes is the stored value of the local the instruction created, if that local is necessary -/
theorem step_instr2 {env : Env} {s : State} (g : BGraph env s) (ev : Nat → Option Val) (rec : Nat → Val → Option Val)
    (v : Val) (Pc : Nat → Prop)
    (hall : ∀ m, s.isNecessary m = true → ConsistentB env s m)
    (hev : ∀ c, s.isNecessary c = true → (s.nodeD c).createdIn = .top → Pc c → ev c = (s.nodeD c).value)
    (htop : ∀ (k r : Nat), s.top[k]? = some r → (s.nodeD r).createdIn = .top)
    {L : List Nat} {V : List (Option Val)} (hA : Agree s L V) {i : Instr} {m : Nat}
    (hk : InstrImg s L v i m)
    (hm : s.isNecessary m = true)
    (hkids : ∀ c, c ∈ s.children m → (s.nodeD c).createdIn = .top → Pc c)
    (hrec : InnerOK s Pc rec m) :
    denInstr2 env ev s.top rec v V i = (s.nodeD m).value := by
  by_cases hb : ∃ b o, i = .bind b o
  · obtain ⟨body', o, rfl⟩ := hb
    obtain ⟨b2, br2, lc2, -, hb2, hbody, hmain, -, hres⟩ := hk
    obtain ⟨hln, hlP, v', hlv, hr⟩ := hrec b2 br2 hb2 hmain
    rw [denInstr2_bind, opnd_agree2 ev Pc hev htop hA o br2.lhs hres hln hlP, hlv, ← hr, hbody]
    rfl
  · have hb' : ∀ b o, i ≠ .bind b o := fun b o e => hb ⟨b, o, e⟩
    rw [denInstr2_not_bind _ _ _ _ _ _ _ hb']
    exact step_static2 g ev v Pc hall hev htop hA (instrImg_not_bind hb' hk) hm hkids

/-- all instructions of a template -/
theorem agree_instrs2 {env : Env} {s : State} (g : BGraph env s) (ev : Nat → Option Val) (rec : Nat → Val → Option Val)
    (v : Val) (Pc : Nat → Prop)
    (hall : ∀ m, s.isNecessary m = true → ConsistentB env s m)
    (hev : ∀ c, s.isNecessary c = true → (s.nodeD c).createdIn = .top → Pc c → ev c = (s.nodeD c).value)
    (htop : ∀ (k r : Nat), s.top[k]? = some r → (s.nodeD r).createdIn = .top) :
    ∀ (is : List Instr) (ms L : List Nat) (V : List (Option Val)), Agree s L V → is.length = ms.length →
      (∀ j i m, is[j]? = some i → ms[j]? = some m → InstrImg s (L ++ ms.take j) v i m) →
      (∀ m, m ∈ ms → s.isNecessary m = true →
        (∀ c, c ∈ s.children m → (s.nodeD c).createdIn = .top → Pc c) ∧ InnerOK s Pc rec m) →
      Agree s (L ++ ms) (denInstrs2 env ev s.top rec v is V) := by
  intro is
  induction is with
  | nil =>
    intro ms L V hA hl _ _
    cases ms with
    | nil => simpa only [List.append_nil, denInstrs2] using hA
    | cons _ _ => cases hl
  | cons i is ih =>
    intro ms L V hA hl hk hm
    cases ms with
    | nil => cases hl
    | cons m ms =>
      simp only [denInstrs2]
      have h0 := hk 0 i m rfl rfl
      simp only [List.take_zero, List.append_nil] at h0
      have hA1 : Agree s (L ++ [m]) (V ++ [denInstr2 env ev s.top rec v V i]) :=
        hA.snoc (fun hn => step_instr2 g ev rec v Pc hall hev htop hA h0 hn
          (hm m (List.mem_cons_self ..) hn).1 (hm m (List.mem_cons_self ..) hn).2)
      have := ih ms (L ++ [m]) _ hA1 (by simpa using hl)
        (fun j i' m' h1 h2 => by
          have := hk (j+1) i' m' (by simpa using h1) (by simpa using h2)
          simpa only [List.take_succ_cons, List.append_assoc, List.singleton_append] using this)
        (fun m' hm' => hm m' (List.mem_cons_of_mem _ hm'))
      simpa only [List.append_assoc, List.singleton_append] using this

/-- a local is a registered node -/
theorem mem_regOf {s : State} {locs : List Nat} {m : Nat} (h : m ∈ locs) : m ∈ regOf s locs := by
  unfold regOf
  refine List.mem_flatMap.2 ⟨m, h, ?_⟩
  split <;> simp

end N5d

end IncrVerif.Proofs.NestH
