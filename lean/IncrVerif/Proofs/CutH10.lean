import IncrVerif.Proofs.CutH9
-- Port of Proofs/Quiet4.lean to ARBITRARY cutoffs (scratch name Q4); overview in Props/C06History.lean
/-!
# Part 3: pure step lemmas for `GInv` (linking)
-/
namespace IncrVerif.Proofs.CutH
open IncrVerif.Engine IncrVerif.Proofs IncrVerif.Proofs.Step IncrVerif.Proofs.Sched

section
variable {env : Env} {s s' : State} {op : Nat → Op}

/-! ## linking -/

/-- `addParent c idx p` where `c` is already necessary (and closed) -/
theorem GInv.addEdge_nec {c p idx : Nat} (I : GInv env s op)
    (U : NodeUpd c (fParents ((s.nodeD c).parents ++ [(p, idx)])) s s')
    (hop : op p = .linking idx) (hk : (kids (s.nodeD p).kind)[idx]? = some c)
    (hc : s.isNecessary c = true) (hcl : op c = .closed) :
    GInv env s' (upd op p (.linking (idx + 1))) := by
  have K := keeps_fParents ((s.nodeD c).parents ++ [(p, idx)])
  have hcp : c < p := I.kid_lt hk
  have hne : c ≠ p := by omega
  have hpc : (s'.nodeD c).parents = (s.nodeD c).parents ++ [(p, idx)] := U.parents_self
  have hht : ∀ m, (s'.nodeD m).height = (s.nodeD m).height := fun m => by
    by_cases h : m = c
    · rw [h]; exact U.height_self
    · exact U.height_other h
  have hmem : ∀ m x, x ∈ (s'.nodeD m).parents ↔ (x ∈ (s.nodeD m).parents ∨ (m = c ∧ x = (p, idx))) := by
    intro m x
    by_cases h : m = c
    · rw [h, hpc, List.mem_append, List.mem_singleton]; simp
    · rw [U.parents_other h]; simp [h]
  have hnec : ∀ m, s'.isNecessary m = s.isNecessary m := fun m => by
    by_cases h : m = c
    · rw [h, hc]; exact nec_of_mem_parents (x := (p, idx)) ((hmem c _).2 (Or.inr ⟨rfl, rfl⟩))
    · exact U.nec_other h
  have hcl' : ∀ m, upd op p (.linking (idx + 1)) m = .closed → m ≠ p ∧ op m = .closed :=
    fun m h => upd_closed_inv (Op.linking_ne_closed _) h
  have hw : ∀ q i, Wants s' (upd op p (.linking (idx + 1))) q i ↔ (Wants s op q i ∨ (q = p ∧ i = idx)) := by
    intro q i
    by_cases h : q = p
    · rw [h, wants_linking (upd_self ..), wants_linking hop]
      constructor
      · intro h1
        by_cases h2 : i = idx
        · exact Or.inr ⟨rfl, h2⟩
        · exact Or.inl (by omega)
      · rintro (h1 | ⟨-, h1⟩) <;> omega
    · unfold Wants
      rw [upd_other _ _ _ h, hnec]
      simp [h]
  refine { static := U.static K I.static, par := ?_, conv := ?_, nodup := ?_, hlt := ?_, hpos := ?_,
           lnec := ?_, unec := ?_, heap := U.heap K I.heap, hgt := ?_, qnec := ?_, queued := ?_,
           qstale := ?_, opLt := ?_ }
  · intro c' q i hm
    rw [U.kind K, hw]
    rcases (hmem _ _).1 hm with h | ⟨h1, h2⟩
    · exact ⟨(I.par c' q i h).1, Or.inl (I.par c' q i h).2⟩
    · cases h2; rw [h1]; exact ⟨hk, Or.inr ⟨rfl, rfl⟩⟩
  · intro q i c' hk' hw'
    rw [U.kind K] at hk'
    rw [hmem]
    rcases (hw q i).1 hw' with h | ⟨h1, h2⟩
    · exact Or.inl (I.conv q i c' hk' h)
    · rw [h1, h2, hk] at hk'; cases hk'; exact Or.inr ⟨rfl, by rw [h1, h2]⟩
  · intro m
    by_cases h : m = c
    · rw [h, hpc, List.nodup_append]
      refine ⟨I.nodup c, by simp, ?_⟩
      intro a ha b hb
      rw [List.mem_singleton] at hb
      rw [hb]; intro e; rw [e] at ha
      have := (wants_linking hop).1 (I.par c p idx ha).2
      omega
    · rw [U.parents_other h]; exact I.nodup m
  · intro c' q i hm ho
    obtain ⟨h1, h2⟩ := hcl' q ho
    rw [hht, hht]
    rcases (hmem _ _).1 hm with h | ⟨-, h3⟩
    · exact I.hlt c' q i h h2
    · cases h3; exact absurd rfl h1
  · intro m hn ho
    rw [hnec] at hn
    rw [hht]; exact I.hpos m hn (hcl' m ho).2
  · intro q k ho
    rw [hnec, U.inRch K]
    by_cases h : q = p
    · rw [h]; exact I.lnec p idx hop
    · rw [upd_other _ _ _ h] at ho; exact I.lnec q k ho
  · intro q k ho
    rw [hnec]
    by_cases h : q = p
    · rw [h, upd_self] at ho; cases ho
    · rw [upd_other _ _ _ h] at ho; exact I.unec q k ho
  · intro m hq ho
    rw [U.inRch K] at hq
    rw [U.heightInRch K, hht]; exact I.hgt m hq (hcl' m ho).2
  · intro m hq
    rw [U.inRch K] at hq
    rw [hnec]
    rcases I.qnec m hq with h | ⟨k, h⟩
    · exact Or.inl h
    · refine Or.inr ⟨k, ?_⟩
      have : m ≠ p := by intro e; rw [e, hop] at h; cases h
      rw [upd_other _ _ _ this]; exact h
  · intro m ho hn hs
    rw [hnec] at hn
    rw [U.staleOf K] at hs
    rw [U.inRch K]; exact I.queued m (hcl' m ho).2 hn hs
  · intro m hq
    rw [U.inRch K] at hq
    rw [U.staleOf K]; exact I.qstale m hq
  · intro m ho
    rw [U.size]
    by_cases h : m = p
    · rw [h]; exact I.opLt p (by rw [hop]; exact Op.linking_ne_closed _)
    · rw [upd_other _ _ _ h] at ho; exact I.opLt m ho

/-- `addParent c idx p` where `c` was unnecessary (and closed): `c` is now open with no edge recorded -/
theorem GInv.addEdge_open {c p idx : Nat} (I : GInv env s op)
    (U : NodeUpd c (fParents ((s.nodeD c).parents ++ [(p, idx)])) s s')
    (hop : op p = .linking idx) (hk : (kids (s.nodeD p).kind)[idx]? = some c)
    (hc : s.isNecessary c = false) (hcl : op c = .closed) :
    GInv env s' (upd (upd op p (.linking (idx + 1))) c (.linking 0)) ∧
      (s'.nodeD c).parents = [(p, idx)] := by
  have K := keeps_fParents ((s.nodeD c).parents ++ [(p, idx)])
  have hcp : c < p := I.kid_lt hk
  have hne : c ≠ p := by omega
  have hpar0 : (s.nodeD c).parents = [] := parents_nil_of_not_nec hc
  have hpc : (s'.nodeD c).parents = [(p, idx)] := by rw [U.parents_self]; simp [fParents, hpar0]
  refine ⟨?_, hpc⟩
  have hht : ∀ m, (s'.nodeD m).height = (s.nodeD m).height := fun m => by
    by_cases h : m = c
    · rw [h]; exact U.height_self
    · exact U.height_other h
  have hmem : ∀ m x, x ∈ (s'.nodeD m).parents ↔ (x ∈ (s.nodeD m).parents ∨ (m = c ∧ x = (p, idx))) := by
    intro m x
    by_cases h : m = c
    · rw [h, hpc, hpar0, List.mem_singleton]; simp
    · rw [U.parents_other h]; simp [h]
  have hnec : ∀ m, m ≠ c → s'.isNecessary m = s.isNecessary m := fun m h => U.nec_other h
  have hnecc : s'.isNecessary c = true :=
    nec_of_mem_parents (x := (p, idx)) ((hmem c _).2 (Or.inr ⟨rfl, rfl⟩))
  have hcq : (s.nodeD c).inRch = false := I.not_queued_of_not_nec hc hcl
  have hopc : upd (upd op p (.linking (idx + 1))) c (.linking 0) c = .linking 0 := upd_self ..
  have hopp : upd (upd op p (.linking (idx + 1))) c (.linking 0) p = .linking (idx + 1) := by
    rw [upd_other _ _ _ (Ne.symm hne), upd_self]
  have hopo : ∀ m, m ≠ c → m ≠ p → upd (upd op p (.linking (idx + 1))) c (.linking 0) m = op m := by
    intro m h1 h2; rw [upd_other _ _ _ h1, upd_other _ _ _ h2]
  have hcl' : ∀ m, upd (upd op p (.linking (idx + 1))) c (.linking 0) m = .closed →
      m ≠ c ∧ m ≠ p ∧ op m = .closed := by
    intro m h
    obtain ⟨h1, h2⟩ := upd_closed_inv (Op.linking_ne_closed _) h
    obtain ⟨h3, h4⟩ := upd_closed_inv (Op.linking_ne_closed _) h2
    exact ⟨h1, h3, h4⟩
  have hw : ∀ q i, Wants s' (upd (upd op p (.linking (idx + 1))) c (.linking 0)) q i ↔
      (Wants s op q i ∨ (q = p ∧ i = idx)) := by
    intro q i
    by_cases h : q = p
    · rw [h, wants_linking hopp, wants_linking hop]
      constructor
      · intro h1
        by_cases h2 : i = idx
        · exact Or.inr ⟨rfl, h2⟩
        · exact Or.inl (by omega)
      · rintro (h1 | ⟨-, h1⟩) <;> omega
    · by_cases h' : q = c
      · rw [h', wants_linking hopc, wants_closed hcl, hc]; simp [hne]
      · unfold Wants
        rw [hopo q h' h, hnec q h']
        simp [h]
  refine { static := U.static K I.static, par := ?_, conv := ?_, nodup := ?_, hlt := ?_, hpos := ?_,
           lnec := ?_, unec := ?_, heap := U.heap K I.heap, hgt := ?_, qnec := ?_, queued := ?_,
           qstale := ?_, opLt := ?_ }
  · intro c' q i hm
    rw [U.kind K, hw]
    rcases (hmem _ _).1 hm with h | ⟨h1, h2⟩
    · exact ⟨(I.par c' q i h).1, Or.inl (I.par c' q i h).2⟩
    · cases h2; rw [h1]; exact ⟨hk, Or.inr ⟨rfl, rfl⟩⟩
  · intro q i c' hk' hw'
    rw [U.kind K] at hk'
    rw [hmem]
    rcases (hw q i).1 hw' with h | ⟨h1, h2⟩
    · exact Or.inl (I.conv q i c' hk' h)
    · rw [h1, h2, hk] at hk'; cases hk'; exact Or.inr ⟨rfl, by rw [h1, h2]⟩
  · intro m
    by_cases h : m = c
    · rw [h, hpc]; simp
    · rw [U.parents_other h]; exact I.nodup m
  · intro c' q i hm ho
    obtain ⟨-, h1, h2⟩ := hcl' q ho
    rw [hht, hht]
    rcases (hmem _ _).1 hm with h | ⟨-, h3⟩
    · exact I.hlt c' q i h h2
    · cases h3; exact absurd rfl h1
  · intro m hn ho
    obtain ⟨h1, -, h2⟩ := hcl' m ho
    rw [hnec m h1] at hn
    rw [hht]; exact I.hpos m hn h2
  · intro q k ho
    rw [U.inRch K]
    by_cases h' : q = c
    · rw [h']; exact ⟨hnecc, hcq⟩
    · rw [hnec q h']
      by_cases h : q = p
      · rw [h]; exact I.lnec p idx hop
      · rw [hopo q h' h] at ho; exact I.lnec q k ho
  · intro q k ho
    by_cases h' : q = c
    · rw [h', hopc] at ho; cases ho
    · rw [hnec q h']
      by_cases h : q = p
      · rw [h, hopp] at ho; cases ho
      · rw [hopo q h' h] at ho; exact I.unec q k ho
  · intro m hq ho
    rw [U.inRch K] at hq
    rw [U.heightInRch K, hht]; exact I.hgt m hq (hcl' m ho).2.2
  · intro m hq
    rw [U.inRch K] at hq
    have h' : m ≠ c := by intro e; rw [e, hcq] at hq; cases hq
    rw [hnec m h']
    rcases I.qnec m hq with h | ⟨k, h⟩
    · exact Or.inl h
    · refine Or.inr ⟨k, ?_⟩
      have : m ≠ p := by intro e; rw [e, hop] at h; cases h
      rw [hopo m h' this]; exact h
  · intro m ho hn hs
    obtain ⟨h1, -, h2⟩ := hcl' m ho
    rw [hnec m h1] at hn
    rw [U.staleOf K] at hs
    rw [U.inRch K]; exact I.queued m h2 hn hs
  · intro m hq
    rw [U.inRch K] at hq
    rw [U.staleOf K]; exact I.qstale m hq
  · intro m ho
    rw [U.size]
    by_cases h' : m = c
    · rw [h']; exact U.lt
    · by_cases h : m = p
      · rw [h]; exact I.opLt p (by rw [hop]; exact Op.linking_ne_closed _)
      · rw [hopo m h' h] at ho; exact I.opLt m ho

/-- the height of an open node whose parents are all open is not constrained -/
theorem GInv.setHeight_open {n : Nat} {h : Int} (I : GInv env s op) (U : NodeUpd n (fHeight h) s s')
    (hop : op n ≠ .closed) (hpar : ∀ p i, (p, i) ∈ (s.nodeD n).parents → op p ≠ .closed) :
    GInv env s' op := by
  have K := keeps_fHeight h
  have hpa : ∀ m, (s'.nodeD m).parents = (s.nodeD m).parents := fun m => by
    by_cases e : m = n
    · rw [e]; exact U.parents_self
    · exact U.parents_other e
  have hnec : ∀ m, s'.isNecessary m = s.isNecessary m := fun m => by
    by_cases e : m = n
    · rw [e]
      simp only [State.isNecessary, Node.isNecessary, U.self.parents, U.self.observers, U.self.forceNecessary]
      rfl
    · exact U.nec_other e
  have hw : ∀ q i, Wants s' op q i ↔ Wants s op q i := fun q i => by unfold Wants; rw [hnec]
  have hcn : ∀ m, op m = .closed → m ≠ n := fun m ho e => hop (e ▸ ho)
  refine { static := U.static K I.static, par := ?_, conv := ?_, nodup := ?_, hlt := ?_, hpos := ?_,
           lnec := ?_, unec := ?_, heap := U.heap K I.heap, hgt := ?_, qnec := ?_, queued := ?_,
           qstale := ?_, opLt := ?_ }
  · intro c q i hm
    rw [hpa] at hm
    rw [U.kind K, hw]; exact I.par c q i hm
  · intro q i c hk hw'
    rw [U.kind K] at hk
    rw [hw] at hw'
    rw [hpa]; exact I.conv q i c hk hw'
  · intro m; rw [hpa]; exact I.nodup m
  · intro c q i hm ho
    rw [hpa] at hm
    have h1 : c ≠ n := by intro e; rw [e] at hm; exact hpar q i hm ho
    rw [U.height_other h1, U.height_other (hcn q ho)]
    exact I.hlt c q i hm ho
  · intro m hn ho
    rw [hnec] at hn
    rw [U.height_other (hcn m ho)]; exact I.hpos m hn ho
  · intro q k ho
    rw [hnec, U.inRch K]; exact I.lnec q k ho
  · intro q k ho
    rw [hnec]; exact I.unec q k ho
  · intro m hq ho
    rw [U.inRch K] at hq
    rw [U.heightInRch K, U.height_other (hcn m ho)]; exact I.hgt m hq ho
  · intro m hq
    rw [U.inRch K] at hq
    rw [hnec]; exact I.qnec m hq
  · intro m ho hn hs
    rw [hnec] at hn
    rw [U.staleOf K] at hs
    rw [U.inRch K]; exact I.queued m ho hn hs
  · intro m hq
    rw [U.inRch K] at hq
    rw [U.staleOf K]; exact I.qstale m hq
  · intro m ho
    rw [U.size]; exact I.opLt m ho

/-- closing a linking node, general form: `s'` is `s` up to the heap and the heap marker of `n`; if `n` is
stale it has been queued (marker = height), otherwise nothing changed for it -/
theorem GInv.close_link_gen {n k : Nat} (I : GInv env s op) (hop : op n = .linking k)
    (hk : (kids (s.nodeD n).kind).length ≤ k)
    (hh : ∀ (i c : Nat), (kids (s.nodeD n).kind)[i]? = some c → (s.nodeD c).height < (s.nodeD n).height)
    (h0 : 0 ≤ (s.nodeD n).height)
    (hpc : s'.panicCountdown = s.panicCountdown) (hsc : s'.currentScope = s.currentScope)
    (hsz : s'.nodes.size = s.nodes.size) (hv : s'.vars = s.vars)
    (hnode : ∀ m, ∃ x, s'.nodeD m = { s.nodeD m with heightInRch := x })
    (hmark : ∀ m, m ≠ n → (s'.nodeD m).heightInRch = (s.nodeD m).heightInRch)
    (hheap : HeapG s')
    (hq : (staleOf s n = false ∧ (s'.nodeD n).heightInRch = (s.nodeD n).heightInRch) ∨
          (staleOf s n = true ∧ (s'.nodeD n).heightInRch = (s.nodeD n).height)) :
    GInv env s' (upd op n .closed) := by
  have hkind : ∀ m, (s'.nodeD m).kind = (s.nodeD m).kind := fun m => by
    obtain ⟨x, e⟩ := hnode m; rw [e]
  have hpa : ∀ m, (s'.nodeD m).parents = (s.nodeD m).parents := fun m => by
    obtain ⟨x, e⟩ := hnode m; rw [e]
  have hht : ∀ m, (s'.nodeD m).height = (s.nodeD m).height := fun m => by
    obtain ⟨x, e⟩ := hnode m; rw [e]
  have hnec : ∀ m, s'.isNecessary m = s.isNecessary m := fun m => by
    obtain ⟨x, e⟩ := hnode m
    simp only [State.isNecessary, Node.isNecessary, e]
  have hstale : ∀ m, staleOf s' m = staleOf s m := fun m =>
    staleOf_congr (hkind m) (by obtain ⟨x, e⟩ := hnode m; rw [e]) hv
      (fun c _ => by obtain ⟨x, e⟩ := hnode c; rw [e])
  have hinr : ∀ m, m ≠ n → (s'.nodeD m).inRch = (s.nodeD m).inRch := fun m h => by
    simp only [Node.inRch, hmark m h]
  obtain ⟨hnn, hnq⟩ := I.lnec n k hop
  have hnq' : ¬ (0 ≤ (s.nodeD n).heightInRch) := by
    intro h; simp only [Node.inRch] at hnq; simp [h] at hnq
  have hopn : upd op n .closed n = .closed := upd_self ..
  have hopo : ∀ m, m ≠ n → upd op n .closed m = op m := fun m h => upd_other _ _ _ h
  have hw : ∀ q i c, (kids (s.nodeD q).kind)[i]? = some c →
      (Wants s' (upd op n .closed) q i ↔ Wants s op q i) := by
    intro q i c hkq
    by_cases e : q = n
    · rw [e] at hkq ⊢
      rw [wants_closed hopn, wants_linking hop, hnec, hnn]
      have : i < (kids (s.nodeD n).kind).length := by
        rcases Nat.lt_or_ge i (kids (s.nodeD n).kind).length with h | h
        · exact h
        · rw [List.getElem?_eq_none h] at hkq; cases hkq
      simp; omega
    · unfold Wants; rw [hopo q e, hnec]
  have static : AllStatic env s' := by
    refine ⟨by rw [hpc]; exact I.static.pc, by rw [hsc]; exact I.static.scope, fun m hm => ?_⟩
    have sn := I.static.node m (by rw [← hsz]; exact hm)
    obtain ⟨x, e⟩ := hnode m
    exact ⟨by rw [e]; exact sn.valid, by rw [e]; exact sn.kind,
      by rw [e]; exact sn.top, by rw [e]; exact sn.force, by rw [e]; exact sn.kidsLt⟩
  refine { static := static, par := ?_, conv := ?_, nodup := ?_, hlt := ?_, hpos := ?_,
           lnec := ?_, unec := ?_, heap := hheap, hgt := ?_, qnec := ?_, queued := ?_,
           qstale := ?_, opLt := ?_ }
  · intro c q i hm
    rw [hpa] at hm
    obtain ⟨h1, h2⟩ := I.par c q i hm
    rw [hkind]; exact ⟨h1, (hw q i c h1).2 h2⟩
  · intro q i c hkq hw'
    rw [hkind] at hkq
    rw [hpa]; exact I.conv q i c hkq ((hw q i c hkq).1 hw')
  · intro m; rw [hpa]; exact I.nodup m
  · intro c q i hm ho
    rw [hpa] at hm
    rw [hht, hht]
    by_cases e : q = n
    · rw [e] at hm ⊢; exact hh i c (I.par c n i hm).1
    · rw [hopo q e] at ho; exact I.hlt c q i hm ho
  · intro m hn ho
    rw [hnec] at hn
    rw [hht]
    by_cases e : m = n
    · rw [e]; exact h0
    · rw [hopo m e] at ho; exact I.hpos m hn ho
  · intro q k' ho
    have e : q ≠ n := by intro e; rw [e, hopn] at ho; cases ho
    rw [hopo q e] at ho
    rw [hnec, hinr q e]; exact I.lnec q k' ho
  · intro q k' ho
    have e : q ≠ n := by intro e; rw [e, hopn] at ho; cases ho
    rw [hopo q e] at ho
    rw [hnec]; exact I.unec q k' ho
  · intro m hq' ho
    by_cases e : m = n
    · rw [e] at hq' ⊢
      rcases hq with ⟨-, h2⟩ | ⟨-, h2⟩
      · simp only [Node.inRch, h2] at hq'; exact absurd (by simpa using hq') hnq'
      · rw [h2, hht]
    · rw [hinr m e] at hq'
      rw [hopo m e] at ho
      rw [hmark m e, hht]; exact I.hgt m hq' ho
  · intro m hq'
    rw [hnec]
    by_cases e : m = n
    · rw [e]; exact Or.inl hnn
    · rw [hinr m e] at hq'
      rcases I.qnec m hq' with h | ⟨k', h⟩
      · exact Or.inl h
      · exact Or.inr ⟨k', by rw [hopo m e]; exact h⟩
  · intro m ho hn hs
    rw [hnec] at hn
    rw [hstale] at hs
    by_cases e : m = n
    · rw [e] at hs ⊢
      rcases hq with ⟨h1, -⟩ | ⟨-, h2⟩
      · rw [h1] at hs; cases hs
      · simp only [Node.inRch, h2]; simpa using h0
    · rw [hopo m e] at ho
      rw [hinr m e]; exact I.queued m ho hn hs
  · intro m hq'
    rw [hstale]
    by_cases e : m = n
    · rw [e] at hq' ⊢
      rcases hq with ⟨-, h2⟩ | ⟨h1, -⟩
      · simp only [Node.inRch, h2] at hq'; exact absurd (by simpa using hq') hnq'
      · exact h1
    · rw [hinr m e] at hq'; exact I.qstale m hq'
  · intro m ho
    have e : m ≠ n := by intro e; rw [e, hopn] at ho; exact ho rfl
    rw [hopo m e] at ho
    rw [hsz]; exact I.opLt m ho

/-- closing a linking node that is not stale -/
theorem GInv.close_link_fresh {n k : Nat} (I : GInv env s op) (hop : op n = .linking k)
    (hk : (kids (s.nodeD n).kind).length ≤ k)
    (hpar : ∀ p i, (p, i) ∈ (s.nodeD n).parents → op p ≠ .closed)
    (hh : ∀ (i c : Nat), (kids (s.nodeD n).kind)[i]? = some c → (s.nodeD c).height < (s.nodeD n).height)
    (h0 : 0 ≤ (s.nodeD n).height) (hst : staleOf s n = false) :
    GInv env s (upd op n .closed) :=
  I.close_link_gen hop hk hh h0 rfl rfl rfl rfl (fun _ => ⟨_, rfl⟩) (fun _ _ => rfl) I.heap
    (Or.inl ⟨hst, rfl⟩)

/-- closing a linking node that is stale: it is inserted into the recompute heap -/
theorem GInv.close_link_stale {n k : Nat} (I : GInv env s op) (hop : op n = .linking k)
    (hk : (kids (s.nodeD n).kind).length ≤ k)
    (hpar : ∀ p i, (p, i) ∈ (s.nodeD n).parents → op p ≠ .closed)
    (hh : ∀ (i c : Nat), (kids (s.nodeD n).kind)[i]? = some c → (s.nodeD c).height < (s.nodeD n).height)
    (h0 : 0 ≤ (s.nodeD n).height) (hmax : (s.nodeD n).height ≤ s.rch.maxAllowed)
    (hst : staleOf s n = true) :
    GInv env (inserted n (s.nodeD n).height s) (upd op n .closed) := by
  have hlt : n < s.nodes.size := I.opLt n (by rw [hop]; exact Op.linking_ne_closed _)
  refine I.close_link_gen hop hk hh h0 rfl rfl (Array.size_modify ..) rfl ?_ ?_
    (I.heap.inserted hlt (I.lnec n k hop).2 h0 hmax) (Or.inr ⟨hst, ?_⟩)
  · intro m
    rw [inserted_nodeD]
    split
    · exact ⟨_, rfl⟩
    · exact ⟨_, rfl⟩
  · intro m hm
    rw [inserted_nodeD, if_neg (fun e => hm e.1.symm)]
  · rw [inserted_nodeD, if_pos ⟨rfl, hlt⟩]

/-- a new observer on a node that is already necessary -/
theorem GInv.addObs_nec {n : Nat} {l : List Nat} (I : GInv env s op) (U : NodeUpd n (fObservers l) s s')
    (hl : l ≠ []) (hn : s.isNecessary n = true) (hcl : op n = .closed) : GInv env s' op := by
  have K := keeps_fObservers l
  have hpa : ∀ m, (s'.nodeD m).parents = (s.nodeD m).parents := fun m => by
    by_cases e : m = n
    · rw [e]; exact U.parents_self
    · exact U.parents_other e
  have hht : ∀ m, (s'.nodeD m).height = (s.nodeD m).height := fun m => by
    by_cases e : m = n
    · rw [e]; exact U.height_self
    · exact U.height_other e
  have hnec : ∀ m, s'.isNecessary m = s.isNecessary m := fun m => by
    by_cases e : m = n
    · rw [e, hn]; exact (U.nec_self_iff K).2 (Or.inr (Or.inl hl))
    · exact U.nec_other e
  have hw : ∀ q i, Wants s' op q i ↔ Wants s op q i := fun q i => by unfold Wants; rw [hnec]
  refine { static := U.static K I.static, par := ?_, conv := ?_, nodup := ?_, hlt := ?_, hpos := ?_,
           lnec := ?_, unec := ?_, heap := U.heap K I.heap, hgt := ?_, qnec := ?_, queued := ?_,
           qstale := ?_, opLt := ?_ }
  · intro c q i hm
    rw [hpa] at hm
    rw [U.kind K, hw]; exact I.par c q i hm
  · intro q i c hk hw'
    rw [U.kind K] at hk
    rw [hw] at hw'
    rw [hpa]; exact I.conv q i c hk hw'
  · intro m; rw [hpa]; exact I.nodup m
  · intro c q i hm ho
    rw [hpa] at hm
    rw [hht, hht]
    exact I.hlt c q i hm ho
  · intro m hn ho
    rw [hnec] at hn
    rw [hht]; exact I.hpos m hn ho
  · intro q k ho
    rw [hnec, U.inRch K]; exact I.lnec q k ho
  · intro q k ho
    rw [hnec]; exact I.unec q k ho
  · intro m hq ho
    rw [U.inRch K] at hq
    rw [U.heightInRch K, hht]; exact I.hgt m hq ho
  · intro m hq
    rw [U.inRch K] at hq
    rw [hnec]; exact I.qnec m hq
  · intro m ho hn hs
    rw [hnec] at hn
    rw [U.staleOf K] at hs
    rw [U.inRch K]; exact I.queued m ho hn hs
  · intro m hq
    rw [U.inRch K] at hq
    rw [U.staleOf K]; exact I.qstale m hq
  · intro m ho
    rw [U.size]; exact I.opLt m ho

/-- a new observer on an unnecessary node: it is now open with no edge recorded -/
theorem GInv.addObs_open {n : Nat} {l : List Nat} (I : GInv env s op) (U : NodeUpd n (fObservers l) s s')
    (hl : l ≠ []) (hn : s.isNecessary n = false) (hcl : op n = .closed) :
    GInv env s' (upd op n (.linking 0)) ∧ (s'.nodeD n).parents = [] := by
  have K := keeps_fObservers l
  have hpa : ∀ m, (s'.nodeD m).parents = (s.nodeD m).parents := fun m => by
    by_cases e : m = n
    · rw [e]; exact U.parents_self
    · exact U.parents_other e
  refine ⟨?_, by rw [hpa]; exact parents_nil_of_not_nec hn⟩
  have hht : ∀ m, (s'.nodeD m).height = (s.nodeD m).height := fun m => by
    by_cases e : m = n
    · rw [e]; exact U.height_self
    · exact U.height_other e
  have hnec : ∀ m, m ≠ n → s'.isNecessary m = s.isNecessary m := fun m e => U.nec_other e
  have hnecn : s'.isNecessary n = true := (U.nec_self_iff K).2 (Or.inr (Or.inl hl))
  have hnq : (s.nodeD n).inRch = false := I.not_queued_of_not_nec hn hcl
  have hopn : upd op n (.linking 0) n = .linking 0 := upd_self ..
  have hopo : ∀ m, m ≠ n → upd op n (.linking 0) m = op m := fun m h => upd_other _ _ _ h
  have hcl' : ∀ m, upd op n (.linking 0) m = .closed → m ≠ n ∧ op m = .closed :=
    fun m h => upd_closed_inv (Op.linking_ne_closed _) h
  have hw : ∀ q i, Wants s' (upd op n (.linking 0)) q i ↔ Wants s op q i := fun q i => by
    by_cases e : q = n
    · rw [e, wants_linking hopn, wants_closed hcl, hn]; simp
    · unfold Wants; rw [hopo q e, hnec q e]
  refine { static := U.static K I.static, par := ?_, conv := ?_, nodup := ?_, hlt := ?_, hpos := ?_,
           lnec := ?_, unec := ?_, heap := U.heap K I.heap, hgt := ?_, qnec := ?_, queued := ?_,
           qstale := ?_, opLt := ?_ }
  · intro c q i hm
    rw [hpa] at hm
    rw [U.kind K, hw]; exact I.par c q i hm
  · intro q i c hk hw'
    rw [U.kind K] at hk
    rw [hw] at hw'
    rw [hpa]; exact I.conv q i c hk hw'
  · intro m; rw [hpa]; exact I.nodup m
  · intro c q i hm ho
    rw [hpa] at hm
    rw [hht, hht]
    exact I.hlt c q i hm (hcl' q ho).2
  · intro m hn' ho
    obtain ⟨h1, h2⟩ := hcl' m ho
    rw [hnec m h1] at hn'
    rw [hht]; exact I.hpos m hn' h2
  · intro q k ho
    rw [U.inRch K]
    by_cases e : q = n
    · rw [e]; exact ⟨hnecn, hnq⟩
    · rw [hopo q e] at ho
      rw [hnec q e]; exact I.lnec q k ho
  · intro q k ho
    have e : q ≠ n := by intro e; rw [e, hopn] at ho; cases ho
    rw [hopo q e] at ho
    rw [hnec q e]; exact I.unec q k ho
  · intro m hq ho
    rw [U.inRch K] at hq
    rw [U.heightInRch K, hht]; exact I.hgt m hq (hcl' m ho).2
  · intro m hq
    rw [U.inRch K] at hq
    have e : m ≠ n := by intro e; rw [e, hnq] at hq; cases hq
    rw [hnec m e]
    rcases I.qnec m hq with h | ⟨k, h⟩
    · exact Or.inl h
    · exact Or.inr ⟨k, by rw [hopo m e]; exact h⟩
  · intro m ho hn' hs
    obtain ⟨h1, h2⟩ := hcl' m ho
    rw [hnec m h1] at hn'
    rw [U.staleOf K] at hs
    rw [U.inRch K]; exact I.queued m h2 hn' hs
  · intro m hq
    rw [U.inRch K] at hq
    rw [U.staleOf K]; exact I.qstale m hq
  · intro m ho
    rw [U.size]
    by_cases e : m = n
    · rw [e]; exact U.lt
    · rw [hopo m e] at ho; exact I.opLt m ho


end

end IncrVerif.Proofs.CutH
