import IncrVerif.Proofs.DriverH24
/-!
# Drivers, bridge 2: from the invariant between effects to the rewiring step (`stepWOfMid`)
-/
namespace IncrVerif.Proofs.DriverH
open IncrVerif.Engine IncrVerif.Driver IncrVerif.Proofs IncrVerif.Proofs.Step IncrVerif.Proofs.Sched
open IncrVerif.Proofs.ExpertH IncrVerif.Proofs.ExpertH.QR

/-! ## small facts about the virtual kind -/

theorem virtKind_var {xs xs' : Array ExpertRec} {k : Kind} {c : Nat} (h : virtKind xs k = .var c) :
    virtKind xs' k = .var c := by
  cases k <;> simp [virtKind] at h ⊢
  exact h

theorem xRec_forceStale_none {xs : Array ExpertRec} {e : Nat} (h : xs[e]? = none) :
    (xRec xs e).forceStale = false := by
  rw [xRec_none h]

/-! ## what the frame of the effects gives, read from the state before the stamping -/

/-- the facts about the actual states `s` (before `n` is stamped) and `s2` (after the effects) -/
structure EFacts (n : Nat) (s s2 : State) : Prop where
  size : s2.nodes.size = s.nodes.size
  vars : s2.vars = s.vars
  binds : s2.binds = s.binds
  stabNum : s2.stabNum = s.stabNum
  kind : ∀ m, (s2.nodeD m).kind = (s.nodeD m).kind
  valid : ∀ m, (s2.nodeD m).valid = (s.nodeD m).valid
  createdIn : ∀ m, (s2.nodeD m).createdIn = (s.nodeD m).createdIn
  value : ∀ m, (s2.nodeD m).value = (s.nodeD m).value
  changedAt : ∀ m, (s2.nodeD m).changedAt = (s.nodeD m).changedAt
  stampN : (s2.nodeD n).recomputedAt = s.stabNum
  stamp : ∀ m, m ≠ n → (s2.nodeD m).recomputedAt = (s.nodeD m).recomputedAt
  /-- the records -/
  xsome : ∀ (e : Nat) (er : ExpertRec), s.experts[e]? = some er → ∃ er', s2.experts[e]? = some er' ∧ er'.f = er.f ∧
    ((er'.children = er.children ∧ er'.forceStale = er.forceStale) ∨ er'.forceStale = true)
  xnone : ∀ e : Nat, s.experts[e]? = none → s2.experts[e]? = none

theorem efacts {D : Nat → Prop} {n : Nat} {s s2 : State} (ef : EF D (started n s) s2) (hn : n < s.nodes.size) :
    EFacts n s s2 := by
  have hk := ef.key
  simp only [eKey, Prod.mk.injEq] at hk
  obtain ⟨k1, k2, k3, -⟩ := hk
  have hnode : ∀ m, (s2.nodeD m).kind = ((started n s).nodeD m).kind ∧
      (s2.nodeD m).createdIn = ((started n s).nodeD m).createdIn ∧
      (s2.nodeD m).value = ((started n s).nodeD m).value ∧
      (s2.nodeD m).valid = ((started n s).nodeD m).valid ∧
      (s2.nodeD m).recomputedAt = ((started n s).nodeD m).recomputedAt ∧
      (s2.nodeD m).changedAt = ((started n s).nodeD m).changedAt := by
    intro m
    have := ef.node m
    simp only [nodeKey, Prod.mk.injEq] at this
    obtain ⟨h1, h2, -, h4, h5, h6, h7, -⟩ := this
    exact ⟨h1, h2, h4, h5, h6, h7⟩
  have hR := sameR_started n s
  refine ⟨ef.size.trans hR.size, k1, k2, k3, fun m => ((hnode m).1).trans (hR.kind m),
    fun m => ((hnode m).2.2.2.1).trans (hR.valid m), fun m => ((hnode m).2.1).trans (hR.createdIn m),
    fun m => ((hnode m).2.2.1).trans (hR.value m), fun m => ((hnode m).2.2.2.2.2).trans (hR.changedAt m),
    ((hnode n).2.2.2.2.1).trans (started_self' n s hn), fun m hm => ?_, fun e er he => ?_, fun e he => ?_⟩
  · rw [(hnode m).2.2.2.2.1, started_other' n s hm]
  · obtain ⟨er', he', hf, -, -⟩ := ef.xcore e er he
    exact ⟨er', he', hf, ef.xforce e er er' he he'⟩
  · have h1 : s.experts.size ≤ e := by
      rcases Nat.lt_or_ge e s.experts.size with h | h
      · rw [Array.getElem?_eq_getElem h] at he; cases he
      · exact h
    exact Array.getElem?_eq_none (by rw [ef.xsize]; exact h1)

section
variable {n : Nat} {s s2 : State}

/-- a raised `forceStale` flag stays up -/
theorem EFacts.forced_mono (F : EFacts n s s2) (k : Kind) (h : forced s.experts k = true) :
    forced s2.experts k = true := by
  cases k <;> simp only [forced] at h ⊢ <;> try (exact h)
  rename_i e
  cases he : s.experts[e]? with
  | none => rw [xRec_forceStale_none he] at h; cases h
  | some er =>
    rw [xRec_some he] at h
    obtain ⟨er', he', -, hx⟩ := F.xsome e er he
    rw [xRec_some he']
    rcases hx with ⟨-, hx⟩ | hx
    · rw [hx]; exact h
    · exact hx

/-- the record of an expert node that is not rewired -/
theorem EFacts.rec_same {E : Env} (F : EFacts n s s2) (X : XFrag E s) {m e : Nat} (hm : m < s.nodes.size)
    (hX : ¬ Rewired s s2 m) (hk : (s.nodeD m).kind = .expert e) :
    ∃ er er', s.experts[e]? = some er ∧ s2.experts[e]? = some er' ∧ er'.f = er.f ∧
      er'.children = er.children ∧ er'.forceStale = er.forceStale := by
  obtain ⟨er, he, -⟩ := X.xrec m e hm hk
  obtain ⟨er', he', hf, -⟩ := F.xsome e er he
  have hs : er'.children = er.children ∧ er'.forceStale = er.forceStale := by
    false_or_by_contra
    rename_i hne
    exact hX ⟨e, er, er', hk, he, he', hne⟩
  exact ⟨er, er', he, he', hf, hs.1, hs.2⟩

/-- the virtual kind and the virtual stamp rule of a node that is not rewired are unchanged -/
theorem EFacts.not_rewired {E : Env} (F : EFacts n s s2) (X : XFrag E s) {m : Nat} (hm : m < s.nodes.size)
    (hX : ¬ Rewired s s2 m) :
    virtKind s2.experts (s.nodeD m).kind = virtKind s.experts (s.nodeD m).kind ∧
      forced s2.experts (s.nodeD m).kind = forced s.experts (s.nodeD m).kind := by
  cases hk : (s.nodeD m).kind <;> try (exact ⟨rfl, rfl⟩)
  rename_i e
  obtain ⟨er, er', he, he', hf, h1, h2⟩ := F.rec_same X hm hX hk
  simp only [virtKind, forced, xRec_some he, xRec_some he', hf, h1, h2, and_self]

/-- the children of a node that is not rewired are unchanged -/
theorem EFacts.children {E : Env} (F : EFacts n s s2) (X : XFrag E s) {m : Nat} (hm : m < s.nodes.size)
    (hX : ¬ Rewired s s2 m) : s2.children m = s.children m := by
  unfold State.children Node.kind?
  rw [F.kind, F.valid, F.binds, X.valid m hm]
  cases hk : (s.nodeD m).kind <;> try rfl
  rename_i e
  obtain ⟨er, er', he, he', -, h1, -⟩ := F.rec_same X hm hX hk
  simp only [if_true, he, he', h1]

/-- no stamp of the virtual state after the effects is in the future -/
theorem EFacts.stamps (F : EFacts n s s2) (T : Stamps (virt s)) : Stamps (virt s2) := by
  refine ⟨by rw [virt_stabNum, F.stabNum]; exact T.now, fun m => ?_, fun c vc h => ?_⟩
  · have hT := T.node m
    rw [virt_nodeD, virtNode_recomputedAt, virtNode_changedAt, virt_stabNum] at hT
    rw [virt_nodeD, virtNode_recomputedAt, virtNode_changedAt, virt_stabNum, F.stabNum, F.changedAt, F.kind]
    refine ⟨?_, hT.2⟩
    have h0 : 0 ≤ s.stabNum := T.now
    cases hf2 : forced s2.experts (s.nodeD m).kind with
    | true => simp only [if_true]; omega
    | false =>
      have hf : forced s.experts (s.nodeD m).kind = false := by
        cases hf : forced s.experts (s.nodeD m).kind with
        | false => rfl
        | true => rw [F.forced_mono _ hf] at hf2; cases hf2
      rw [hf] at hT
      simp only [Bool.false_eq_true, if_false] at hT ⊢
      by_cases hm : m = n
      · subst hm; rw [F.stampN]; exact Int.le_refl _
      · rw [F.stamp m hm]; exact hT.1
  · rw [virt_vars, F.vars] at h
    rw [virt_stabNum, F.stabNum]
    exact T.var c vc h

/-- var nodes and var cells still name each other -/
theorem EFacts.varsOK (F : EFacts n s s2) (V : VarsOK (virt s)) : VarsOK (virt s2) := by
  constructor
  · intro m c hm hk
    rw [virt_size, F.size] at hm
    rw [virt_nodeD, virtNode_kind, F.kind] at hk
    have hk' : ((virt s).nodeD m).kind = .var c := by
      rw [virt_nodeD, virtNode_kind]; exact virtKind_var hk
    obtain ⟨vc, h1, h2⟩ := V.node m c (by rw [virt_size]; exact hm) hk'
    exact ⟨vc, by rw [virt_vars, F.vars]; exact h1, h2⟩
  · intro c vc h
    rw [virt_vars, F.vars] at h
    obtain ⟨h1, h2⟩ := V.cell c vc h
    rw [virt_size] at h1
    rw [virt_nodeD, virtNode_kind] at h2
    refine ⟨by rw [virt_size, F.size]; exact h1, ?_⟩
    rw [virt_nodeD, virtNode_kind, F.kind]
    exact virtKind_var h2

end

/-! ## the bridge -/

/-- **bridge 2** -/
theorem stepWOfMid (E : Env) : StepWOfMid E := by
  intro n D s s2 I A hne M2 ef hD hnec2
  -- the driver
  have hnn : (virt s).isNecessary n = true := (I.cur n rfl).1
  have hnlt : n < s.nodes.size := by rw [← virt_size]; exact nec_lt_size hnn
  have F := efacts ef hnlt
  obtain ⟨rk2, st2⟩ := M2.st
  have T2 : Stamps (virt s2) := F.stamps I.stamps
  have V2 : VarsOK (virt s2) := F.varsOK A.vars
  have hne2 : ∀ e, (s2.nodeD n).kind ≠ .expert e := fun e => by rw [F.kind]; exact hne e
  have hnlt2 : n < (virt s2).nodes.size := by rw [virt_size, F.size]; exact hnlt
  -- in the virtual state after the effects the driver is stamped, hence not stale, hence not queued
  have hstampV : ((virt s2).nodeD n).recomputedAt = (virt s2).stabNum := by
    rw [virt_nodeD, virtNode_recomputedAt_of_not_expert _ _ hne2, F.stampN, virt_stabNum, F.stabNum]
  have hnst : (virt s2).isStale n = false := by
    rw [GInv.isStale st2 hnlt2]; exact staleOf_stamped T2 hstampV
  have hnq : ((virt s2).nodeD n).inRch = false := by
    cases hq : ((virt s2).nodeD n).inRch with
    | false => rfl
    | true => rw [((Struct.queued_iff st2 n).1 hq).2] at hnst; cases hnst
  -- the virtual state in which the static step of the driver starts
  have hR := sameR_unstamp n (s.nodeD n).recomputedAt (virt s2)
  have hstale : ∀ m, m ≠ n → (unstamp n (s.nodeD n).recomputedAt (virt s2)).isStale m = (virt s2).isStale m :=
    fun m hm => hR.isStale (by rw [unstamp_other n _ _ hm])
  have h0 : 0 ≤ s.stabNum := I.stamps.now
  -- a rewired node
  have hrew : ∀ x, Rewired s s2 x → x ≠ n ∧ x < s.nodes.size ∧ n ∈ s.children x ∧ s2.isStale x = true ∧
      forced s2.experts (s2.nodeD x).kind = true := by
    rintro x ⟨e, er, er', hk, he, he', hcf⟩
    have hDe : D e := by
      false_or_by_contra
      rename_i hDe
      have := ef.xsame e er er' hDe he he'
      simp only [recK, Prod.mk.injEq] at this
      exact hcf ⟨this.1, this.2.1⟩
    have hf : er'.forceStale = true := by
      rcases ef.xforce e er er' he he' with h | h
      · exact absurd h hcf
      · exact h
    have hxlt : x < s.nodes.size := by
      false_or_by_contra
      rename_i h
      rw [nodeD_default_of_ge s x (by omega)] at hk; cases hk
    refine ⟨fun e' => hne e (by rw [← e']; exact hk), hxlt, hD e x hDe hk, ?_, ?_⟩
    · unfold State.isStale
      simp only [Node.kind?, F.valid, A.frag.valid x hxlt, F.kind, hk, he', hf, if_true, Bool.true_or]
    · rw [F.kind, hk]; simp only [forced, xRec_some he', hf]
  constructor
  · exact {
      size := by rw [hR.size, virt_size, virt_size, F.size]
      vars := by rw [hR.vars, virt_vars, virt_vars, F.vars]
      binds := by rw [hR.binds]; exact F.binds
      stabNum := by rw [hR.stabNum, virt_stabNum, virt_stabNum, F.stabNum]
      graph' := bgraph_congrR (bgraph_of_struct st2 V2) hR
      heap' := heapInv_congrR (Struct.heapInv st2) hR
      stamps' := by
        refine ⟨by rw [hR.stabNum]; exact T2.now, fun m => ?_, fun c vc h => ?_⟩
        · rw [hR.stabNum, hR.changedAt]
          refine ⟨?_, (T2.node m).2⟩
          by_cases hm : m = n
          · subst hm
            rw [unstamp_self _ _ _ hnlt2, virt_stabNum, F.stabNum]
            have := (I.stamps.node m).1
            rw [virt_nodeD, virtNode_recomputedAt_of_not_expert _ _ hne, virt_stabNum] at this
            exact this
          · rw [unstamp_other _ _ _ hm]; exact (T2.node m).1
        · rw [hR.vars] at h; rw [hR.stabNum]; exact T2.var c vc h
      qstale' := by
        intro m hq
        rw [hR.inRch] at hq
        have hm : m ≠ n := by
          intro e; subst e; rw [hnq] at hq; cases hq
        rw [hstale m hm]
        exact ((Struct.queued_iff st2 m).1 hq).2
      pending' := by
        intro m h1 h2
        by_cases hm : m = n
        · exact Or.inr hm
        · rw [hR.nec] at h1
          rw [hstale m hm] at h2
          rw [hR.inRch]
          exact Or.inl ((Struct.queued_iff st2 m).2 ⟨h1, h2⟩)
      notX := by
        rintro ⟨e, _, _, hk, -⟩
        exact hne e hk
      selfNec := by rw [hR.nec, virt_isNecessary]; exact hnec2
      selfQ := by rw [hR.inRch]; exact hnq
      old := by
        intro m hm
        rw [virt_size] at hm
        rw [hR.valid, hR.createdIn, hR.value, hR.changedAt, hR.kind, hR.children]
        simp only [virt_nodeD, virtNode_valid, virtNode_createdIn, virtNode_value, virtNode_changedAt,
          virtNode_kind, virt_children]
        refine ⟨F.valid m, F.createdIn m, F.value m, F.changedAt m, fun hX => ?_⟩
        obtain ⟨hk, hf⟩ := F.not_rewired A.frag hm hX
        refine ⟨by rw [F.kind]; exact hk, ?_, ?_⟩
        · by_cases hmn : m = n
          · subst hmn
            rw [unstamp_self _ _ _ hnlt2, virtNode_recomputedAt_of_not_expert _ _ hne]
          · rw [unstamp_other _ _ _ hmn, virt_nodeD, virtNode_recomputedAt, virtNode_recomputedAt, F.kind, hf,
              F.stamp m hmn]
        · exact F.children A.frag hm hX
      rewired := by
        intro x hx
        obtain ⟨hxn, hxlt, hch, hst, hf⟩ := hrew x hx
        refine ⟨by rw [virt_children]; exact hch, by rw [hstale x hxn, virt_isStale]; exact hst, ?_⟩
        rw [unstamp_other _ _ _ hxn, virt_nodeD, virtNode_recomputedAt, hf, virt_stabNum]
        simp only [if_true]; omega }
  · exact ⟨M2.frag, M2.ahh, M2.pinv, M2.handlers, ⟨rk2, st2.static⟩,
      fun c => by have := st2.nodup c; rw [virt_nodeD, virtNode_parents] at this; exact this, V2⟩

end IncrVerif.Proofs.DriverH
