import IncrVerif.Proofs.PerKeyH18
/-! # twin simulation, part 3: the necessity cascade (port of ExpertH25) -/
namespace IncrVerif.Proofs.PerKeyH
open IncrVerif.Engine IncrVerif.Driver IncrVerif.Proofs IncrVerif.Proofs.Step IncrVerif.Proofs.Sched
open IncrVerif.Proofs.ExpertH IncrVerif.Proofs.EffH

theorem TSim.link (env : Env) (fuel : Nat) :
    (∀ n, TSim (becameNecessary env fuel n) (becameNecessary (twEnv env) fuel n)) ∧
    (∀ c i p, TSim (addParentWithoutAdjustingHeights env fuel c i p)
      (addParentWithoutAdjustingHeights (twEnv env) fuel c i p)) := by
  induction fuel with
  | zero =>
    constructor
    · intro n; apply TSim.ofL; intro s l; unfold becameNecessary; tsim
    · intro c i p; apply TSim.ofL; intro s l; unfold addParentWithoutAdjustingHeights; tsim
  | succ fuel ih =>
    constructor
    · intro n; apply TSim.ofL; intro s l
      unfold becameNecessary
      tsim
      all_goals first
        | exact TSim.atL (ih.2 _ _ _) _ _
        | tsim_kind
    · intro c i p; apply TSim.ofL; intro s l
      unfold addParentWithoutAdjustingHeights
      tsim
      all_goals first
        | exact TSim.atL (ih.1 _) _ _
        | tsim_kind
        | (exfalso; simp_all; done)
      all_goals first
        | tsim_kind
        | skip

theorem TSim.becameNecessary (env : Env) (fuel n : Nat) :
    TSim (Engine.becameNecessary env fuel n) (Engine.becameNecessary (twEnv env) fuel n) := (TSim.link env fuel).1 n
theorem TSim.addParentWithoutAdjustingHeights (env : Env) (fuel c i p : Nat) :
    TSim (Engine.addParentWithoutAdjustingHeights env fuel c i p)
      (Engine.addParentWithoutAdjustingHeights (twEnv env) fuel c i p) := (TSim.link env fuel).2 c i p
macro_rules | `(tactic| tsim_leaf) => `(tactic|
  with_reducible exact IncrVerif.Proofs.PerKeyH.TSim.becameNecessary _ _ _)
macro_rules | `(tactic| tsim_leaf) => `(tactic|
  with_reducible exact IncrVerif.Proofs.PerKeyH.TSim.addParentWithoutAdjustingHeights _ _ _ _ _)

end IncrVerif.Proofs.PerKeyH
