import IncrVerif.Proofs.FullT4
/-!
# C04 combined fragment: the bisimulation for node creation, part 1
(`createNode`, `createVar`, `createBind`, `resolveOpnd`, `isConstant`; twin of `Proofs/FullH12`)

The carried invariant is any `KeepsG` invariant (`PInv` is one): creation pushes pristine nodes and changes the bind table.
-/
namespace IncrVerif.Proofs.FullT
set_option linter.unusedSectionVars false
open IncrVerif.Engine IncrVerif.Proofs IncrVerif.Proofs.Step IncrVerif.Proofs.Sched IncrVerif.Proofs.Quiet IncrVerif.Proofs.FullH

section
variable {K : Kind → Prop} {P : State → Prop} {g : Nat → Option Val} {s : State} {α β : Type}

/-- a read-only program followed by a continuation: the continuation starts in the same state -/
theorem BSimAt.ro_seq {x x' : M α} {f f' : α → M β} (hro : Step.Pres SC.SameS x) (hx : BSimAt K P g s x x')
    (hf : ∀ a, x.run.run s = (.ok a, s) → BSimAt K P g s (f a) (f' a)) : BSimAt K P g s (x >>= f) (x' >>= f') := by
  refine BSimAt.seq hx fun a s1 h1 => ?_
  have e : s1 = s := hro.h s _ s1 h1
  subst e; exact hf a h1

/-- the carried invariant after `createNode` -/
theorem keeps_crState [KeepsG P] (k : Kind) (sc : Scope) (c : CutoffK) (hp : P s)
    (hb : ∀ p i, k = .mapRef p i → i < s.nodes.size) : P (SC.crState k sc c s) :=
  KeepsG.of_nodes' (KeepsG.push (s := s) { kind := k, createdIn := sc, cutoff := c } hp rfl hb) (SC.crState_nodes k sc c s)

/-- `createNode` for an arbitrary kind predicate: node creation never fails -/
theorem BSimAt.createNode_gen [KeepsG P] {k : Kind} (sc : Scope) (c : CutoffK) (hk : K k) (hne : ∀ e, k ≠ .expert e)
    (hb : ∀ p i, k = .mapRef p i → i < s.nodes.size) (hc : CutK k c) :
    BSimAt K P g s (Engine.createNode k sc c) (Engine.createNode (virtKind k) sc (virtCut k c)) := by
  refine BSimAt.mk' (SC.simAt_createNode sc c hk hne hb hc) (fun _ hp r s' hr => ?_) (fun _ _ r t hr => ?_)
  · rw [SC.run_createNode] at hr; cases hr
    exact keeps_crState k sc c hp hb
  · rw [SC.run_createNode] at hr; cases hr
    exact ⟨_, by rw [SC.run_createNode, virt_size]⟩

end

/-! ## the headline statements -/

section
variable {env : Env} {sp : Nat → Val → Val} {P : State → Prop} [KeepsG P] {g : Nat → Option Val}

/-- **virtualisation commutes with `createNode`, both ways** -/
theorem BSimAt.createNode {s : State} (k : Kind) (sc : Scope) (c : CutoffK) (hk : FK env sp k)
    (hb : ∀ p i, k = .mapRef p i → i < s.nodes.size) (hc : CutK k c) :
    BSimAt (FK env sp) P g s (Engine.createNode k sc c) (Engine.createNode (virtKind k) sc (virtCut k c)) :=
  BSimAt.createNode_gen sc c hk (FK.noExp hk) hb hc

theorem BSimAt.createNode' {s : State} {k k' : Kind} (sc : Scope) (c : CutoffK) {c' : CutoffK} (hk' : k' = virtKind k)
    (hc' : c' = virtCut k c) (hk : FK env sp k) (hb : ∀ p i, k = .mapRef p i → i < s.nodes.size) (hc : CutK k c) :
    BSimAt (FK env sp) P g s (Engine.createNode k sc c) (Engine.createNode k' sc c') := by
  subst hk' hc'; exact BSimAt.createNode k sc c hk hb hc

theorem BSim.createVar (v : Val) (sc : Scope) :
    BSim (FK env sp) P g (Engine.createVar v sc) (Engine.createVar v sc) := by
  intro s
  unfold Engine.createVar
  refine BSimAt.get_seq ?_
  fnorm
  refine BSimAt.seq (BSimAt.createNode (.var s.vars.size) sc .eq trivial (fun p i h => by cases h)
    (Or.inl rfl)) fun _ _ _ => ?_
  bsim

theorem BSimAt.createBind {s : State} (body lhs : Nat) :
    BSimAt (FK env sp) P g s (Engine.createBind body lhs) (Engine.createBind body lhs) := by
  unfold Engine.createBind
  refine BSimAt.get_seq ?_
  fnorm
  refine BSimAt.modG_seq rfl rfl ?_
  refine BSimAt.seq (BSimAt.createNode (.bindLhsChange s.binds.size) s.currentScope .never trivial
    (fun p i h => by cases h) (Or.inr (Or.inl rfl))) fun lc _ _ => ?_
  refine BSimAt.seq (BSimAt.createNode (.bindMain s.binds.size lc) s.currentScope .eq trivial
    (fun p i h => by cases h) (Or.inl rfl)) fun mn _ _ => ?_
  bsim

end

section
variable {K : Kind → Prop} {P : State → Prop} [Keeps P] {g : Nat → Option Val}

theorem BSim.resolveOpnd (loc : List Nat) (o : Opnd) :
    BSim K P g (Engine.resolveOpnd loc o) (Engine.resolveOpnd loc o) := by
  intro s; unfold Engine.resolveOpnd
  cases o <;> dsimp only <;> bsim <;> split <;> bsim
macro_rules | `(tactic| bsim_leaf) => `(tactic| with_reducible exact BSim.resolveOpnd _ _)

theorem BSim.isConstant (n : Nat) : BSim K P g (Engine.isConstant n) (Engine.isConstant n) := by
  intro s; unfold Engine.isConstant; bsim
  bsim_kind
macro_rules | `(tactic| bsim_leaf) => `(tactic| with_reducible exact BSim.isConstant _)

end
end IncrVerif.Proofs.FullT
