import IncrVerif.Proofs.MapOld1
/-!
# map_with_old fragment, part 2: the machine contract, the fragment, the value-level invariant

* `MReach env C g σ old`: `(σ, old)` is a state machine `g` can be in: closure state `σ` and previous output `old`
  after running on some sequence of inputs satisfying `C` (the empty sequence: `σ = .unit`, `old = none`, the state
  of a freshly created node).
* `GoodMachine env C g spec`: from ANY such state, running on an input `x` (with `C x`) yields the output `spec x`,
  and the flag "did the output change" is `false` only if the previous output was already `spec x` (or there was no
  previous output).
* `ValOK env C sp`: the value predicate `C` ("well-formed value", e.g. maps are sorted) is kept by everything that
  produces values.
* `WFrag env G s`: the fragment static + map_with_old.
* `MInv env C s`: the value-level invariant: stored node values and variable values satisfy `C`; the closure state and
  the stored output of every `map_with_old` node form a reachable machine state.
-/
namespace IncrVerif.Proofs.MapOldH
open IncrVerif.Engine IncrVerif.Proofs IncrVerif.Proofs.Step IncrVerif.Proofs.Sched IncrVerif.Proofs.Quiet

/-- the states (closure state, previous output) machine `g` can reach on inputs satisfying `C` -/
inductive MReach (env : Env) (C : Val → Prop) (g : Nat) : Val → Option Val → Prop
  | init : MReach env C g .unit none
  | step {σ : Val} {old : Option Val} {x : Val} : MReach env C g σ old → C x →
      MReach env C g (env.withOld g σ old x).1 (some (env.withOld g σ old x).2.1)

/-- **the machine contract**: `spec` is the plain function machine `g` computes incrementally -/
structure GoodMachine (env : Env) (C : Val → Prop) (g : Nat) (spec : Val → Val) : Prop where
  /-- from any reachable machine state, the output on `x` is `spec x` -/
  out : ∀ σ old, MReach env C g σ old → ∀ x, C x → (env.withOld g σ old x).2.1 = spec x
  /-- "no change" is reported only if the previous output is the new one — or on the very first run (harmless: the
  parents of a node that has never had a value are stale anyway; `incr_merge` does this on two empty maps) -/
  flag : ∀ σ old, MReach env C g σ old → ∀ x, C x → (env.withOld g σ old x).2.2 = false →
    old = none ∨ old = some (spec x)

/-- the value predicate `C` is kept by everything that produces values -/
structure ValOK (env : Env) (C : Val → Prop) (sp : Nat → Val → Val) : Prop where
  fn : ∀ f vals, (∀ v, v ∈ vals → C v) → C (env.fn f vals)
  fold : ∀ f acc x, C acc → C x → C (env.foldStep f acc x)
  int : ∀ i, C (.int i)
  pair : ∀ a b, C a → C b → C (.pair a b)
  spec : ∀ g x, C x → C (sp g x)

/-- what the fragment requires of a machine id -/
def Good (env : Env) (C : Val → Prop) (sp : Nat → Val → Val) (g : Nat) : Prop := GoodMachine env C g (sp g)

/-- the fragment static + map_with_old -/
structure WFrag (env : Env) (G : Nat → Prop) (s : State) : Prop where
  pc : s.panicCountdown = none
  kind : ∀ n, n < s.nodes.size → WKind env G (s.nodeD n).kind
  valid : ∀ n, n < s.nodes.size → (s.nodeD n).valid = true
  back : ∀ n, n < s.nodes.size → ∀ c, c ∈ kidsW (s.nodeD n).kind → c < n

/-- the literal values inside a kind satisfy `C` -/
def LitOK (C : Val → Prop) : Kind → Prop
  | .const v => C v
  | .fold _ init _ => C init
  | _ => True

/-- the value-level invariant -/
structure MInv (env : Env) (C : Val → Prop) (s : State) : Prop where
  vals : ∀ n v, (s.nodeD n).value = some v → C v
  lits : ∀ n, n < s.nodes.size → LitOK C (s.nodeD n).kind
  vars : ∀ (c : Nat) (vc : VarCell), s.vars[c]? = some vc → C vc.value
  mach : ∀ n g i, (s.nodeD n).kind = .mapWithOld g i → MReach env C g (s.nodeD n).oldState (s.nodeD n).value

/-- **the drain invariant** of the fragment static + map_with_old, with current node `x`: the state is in the fragment
(every machine in use satisfies the contract), the virtual static state satisfies the scheduling invariant of the static
fragment, the value-level invariant holds -/
structure DInvW (env : Env) (C : Val → Prop) (sp : Nat → Val → Val) (s : State) (x : Option Nat) : Prop where
  frag : WFrag env (Good env C sp) s
  inv : Inv (virtEnv env sp) (virt s) x
  m : MInv env C s
  pinv : s.propagateInvalidity = []

/-- **the invariant between API actions** of the fragment static + map_with_old -/
structure QInvW (env : Env) (C : Val → Prop) (sp : Nat → Val → Val) (s : State) : Prop where
  frag : WFrag env (Good env C sp) s
  q : QInv (virtEnv env sp) (virt s)
  m : MInv env C s

section
variable {env : Env} {G : Nat → Prop} {s : State}

theorem WFrag.lt_of_mwo (_F : WFrag env G s) {n g i : Nat} (hk : (s.nodeD n).kind = .mapWithOld g i) :
    n < s.nodes.size := by
  by_cases h : n < s.nodes.size
  · exact h
  · rw [nodeD_default_of_ge s n (by omega)] at hk; cases hk

theorem WFrag.not_mapRef (F : WFrag env G s) (n p i : Nat) : (s.nodeD n).kind ≠ .mapRef p i := by
  by_cases h : n < s.nodes.size
  · intro hk; have := F.kind n h; rw [hk] at this; exact this
  · rw [nodeD_default_of_ge s n (by omega)]; intro h; cases h

theorem WFrag.not_expert (F : WFrag env G s) (n e : Nat) : (s.nodeD n).kind ≠ .expert e := by
  by_cases h : n < s.nodes.size
  · intro hk; have := F.kind n h; rw [hk] at this; exact this
  · rw [nodeD_default_of_ge s n (by omega)]; intro h; cases h

theorem WFrag.valid' (F : WFrag env G s) (n : Nat) : (s.nodeD n).valid = true := by
  by_cases hn : n < s.nodes.size
  · exact F.valid n hn
  · rw [nodeD_default_of_ge s n (by omega)]; rfl

/-- in the fragment every node reads its stored value -/
theorem WFrag.value (F : WFrag env G s) (n : Nat) : s.value env n = (s.nodeD n).value :=
  value_plain env s n (F.not_mapRef n)

/-- what the virtual engine reads is what the actual engine reads -/
theorem WFrag.virt_value (F : WFrag env G s) (sp : Nat → Val → Val) (n : Nat) :
    (virt s).value (virtEnv env sp) n = s.value env n :=
  MapOldH.virt_value s env (virtEnv env sp) n (F.not_mapRef n)

/-- the kinds of the virtual state are static -/
theorem WFrag.static (F : WFrag env G s) (sp : Nat → Val → Val) (n : Nat) (hn : n < s.nodes.size) :
    StaticKind (virtEnv env sp) ((virt s).nodeD n).kind := by
  rw [virt_nodeD, virtNode_kind]; exact staticKind_virt sp (F.kind n hn)

end

/-! ## the value of the defining expression of a virtual node satisfies `C` -/

theorem plainVals_C {C : Val → Prop} {s : State} (hv : ∀ n v, (s.nodeD n).value = some v → C v) :
    ∀ (l : List Nat) (vals : List Val), plainVals s l = some vals → ∀ v, v ∈ vals → C v := by
  intro l
  induction l with
  | nil => intro vals h v hv'; simp [plainVals, evalArgs] at h; subst h; cases hv'
  | cons a as ih =>
    intro vals h v hv'
    simp only [plainVals, evalArgs] at h
    cases ha : (s.nodeD a).value with
    | none => rw [ha] at h; simp at h
    | some x =>
      rw [ha] at h
      cases has : evalArgs (fun a => (s.nodeD a).value) as with
      | none => rw [has] at h; simp at h
      | some xs =>
        rw [has] at h
        simp at h
        subst h
        rcases List.mem_cons.1 hv' with e | e
        · rw [e]; exact hv a x ha
        · exact ih xs has v e

theorem foldl_C {env : Env} {C : Val → Prop} {sp : Nat → Val → Val} (V : ValOK env C sp) (f : Nat) :
    ∀ (vals : List Val) (init : Val), C init → (∀ v, v ∈ vals → C v) → C (vals.foldl (env.foldStep f) init) := by
  intro vals
  induction vals with
  | nil => intro init hi _; exact hi
  | cons a as ih =>
    intro init hi h
    exact ih _ (V.fold f init a hi (h a (List.mem_cons_self ..))) (fun v hv => h v (List.mem_cons_of_mem _ hv))

end IncrVerif.Proofs.MapOldH
