import IncrVerif.Proofs.GateF2
import IncrVerif.Proofs.OnceF4
/-!
# C06, combined fragment, part 3: one `stabilise`, whole histories

`GateStab env fuel s s'` (only-if): every node the drain of this `stabilise` hands to `recomputeOne` is, at that moment, STALE (`Reason`: never ran / variable written since / a child changed since), valid, necessary, not yet stamped.
`NeverLost s s'` (if): after the `stabilise`, every necessary node one of whose children carries `changedAt = s.stabNum` (bumped in THIS round: all stamps of `s` are
`< s.stabNum`) is valid and carries `recomputedAt = s.stabNum` (it ran in this round).
`isStale_cases`: what `isStale = true` means (pure unfolding of the model's `is_stale`).
-/
namespace IncrVerif.Proofs.GateF
open IncrVerif.Engine IncrVerif.Driver IncrVerif.Proofs IncrVerif.Proofs.Step IncrVerif.Proofs.Sched IncrVerif.Proofs.Quiet
open IncrVerif.Proofs.FullH IncrVerif.Proofs.TidyH IncrVerif.Proofs.OnceF

/-- the model's `is_stale`, unfolded: a stale node is valid and has never run, or is a variable written after it last ran, or has a child that changed after it last ran, or
is an expert node with `force_stale` -/
theorem isStale_cases {s : State} {n : Nat} (h : s.isStale n = true) :
    (s.nodeD n).valid = true ∧
      ((s.nodeD n).recomputedAt = -1 ∨
       (∃ c vc, (s.nodeD n).kind = .var c ∧ s.vars[c]? = some vc ∧ (s.nodeD n).recomputedAt < vc.setAt) ∨
       (∃ c, c ∈ s.children n ∧ (s.nodeD n).recomputedAt < (s.nodeD c).changedAt) ∨
       (∃ e er, (s.nodeD n).kind = .expert e ∧ s.experts[e]? = some er ∧ er.forceStale = true)) := by
  have hv : (s.nodeD n).valid = true := by
    cases hv : (s.nodeD n).valid with
    | true => rfl
    | false =>
      unfold State.isStale at h
      simp [Node.kind?, hv] at h
  refine ⟨hv, ?_⟩
  have hk : (s.nodeD n).kind? = some (s.nodeD n).kind := by simp [Node.kind?, hv]
  unfold State.isStale at h
  simp only [hk] at h
  cases hkd : (s.nodeD n).kind with
  | var c =>
    rw [hkd] at h
    cases hvc : s.vars[c]? with
    | none => simp [hvc] at h
    | some vc =>
      simp only [hvc, decide_eq_true_eq] at h
      exact Or.inr (Or.inl ⟨c, vc, rfl, hvc, h⟩)
  | const v =>
    rw [hkd] at h
    exact Or.inl (by simpa using h)
  | expert e =>
    rw [hkd] at h
    simp only [Bool.or_eq_true, beq_iff_eq, List.any_eq_true, decide_eq_true_eq] at h
    rcases h with (h | h) | ⟨c, hc, h⟩
    · cases her : s.experts[e]? with
      | none => simp [her] at h
      | some er =>
        simp only [her] at h
        exact Or.inr (Or.inr (Or.inr ⟨e, er, rfl, her, h⟩))
    · exact Or.inl h
    · exact Or.inr (Or.inr (Or.inl ⟨c, hc, h⟩))
  | _ =>
    rw [hkd] at h
    simp only [Bool.or_eq_true, beq_iff_eq, List.any_eq_true, decide_eq_true_eq] at h
    rcases h with h | ⟨c, hc, h⟩
    · exact Or.inl h
    · exact Or.inr (Or.inr (Or.inl ⟨c, hc, h⟩))

/-- the three reasons for which a node of the combined fragment (no expert nodes) is stale: it has never run; it is a variable written after it last ran; one of its
children (the model's `try_fold_children`: map / fold arguments, the input of a map_ref / map_with_old node, the lhs of a change detector, the change detector and the current rhs of
a bind's main node) changed after it last ran, i.e. produced a result that its cutoff did not suppress -/
def Reason (s : State) (n : Nat) : Prop :=
  (s.nodeD n).recomputedAt = -1 ∨
  (∃ c vc, (s.nodeD n).kind = .var c ∧ s.vars[c]? = some vc ∧ (s.nodeD n).recomputedAt < vc.setAt) ∨
  (∃ c, c ∈ s.children n ∧ (s.nodeD n).recomputedAt < (s.nodeD c).changedAt)

theorem reason_of_stale {s : State} {n : Nat} (h : s.isStale n = true) (hx : ∀ e, (s.nodeD n).kind ≠ .expert e) : Reason s n := by
  rcases (isStale_cases h).2 with h | h | h | ⟨e, -, he, -⟩
  · exact Or.inl h
  · exact Or.inr (Or.inl h)
  · exact Or.inr (Or.inr h)
  · exact absurd he (hx e)

/-- ONLY-IF half of the gate for the run `s → s'` of `stabilise env fuel`: `t2` = the state in which the drain starts; every step `p` of the drain (node `p.1` handed to
`recomputeOne` in state `p.2`) is on a node that is STALE in `p.2`, valid, necessary, not yet stamped in this round -/
def GateStab (env : Env) (fuel : Nat) (s s' : State) : Prop :=
  ∃ t1 t2 t3,
    (addNewObservers env fuel).run.run { s with status := .stabilising } = (.ok (), t1) ∧
    (unlinkDisallowedObservers fuel).run.run t1 = (.ok (), t2) ∧
    (drainHeap env fuel).run.run t2 = (.ok (), t3) ∧ (stabiliseEnd env fuel).run.run t3 = (.ok (), s') ∧
    (∀ p, p ∈ drainSteps env fuel t2 →
      p.2.isStale p.1 = true ∧ Reason p.2 p.1 ∧ (p.2.nodeD p.1).valid = true ∧ p.2.isNecessary p.1 = true ∧
        (p.2.nodeD p.1).recomputedAt < s.stabNum ∧ p.2.stabNum = s.stabNum) ∧
    (∀ m, (t2.nodeD m).recomputedAt < s.stabNum)

/-- IF half (changes are never lost): all stamps of `s` are from earlier rounds; in `s'` (round number `s.stabNum + 1`) every necessary node with a child whose
`changedAt` is the round `s.stabNum` is valid and was recomputed in the round `s.stabNum` -/
def NeverLost (s s' : State) : Prop :=
  (∀ m, (s.nodeD m).recomputedAt < s.stabNum ∧ (s.nodeD m).changedAt < s.stabNum) ∧
  s'.stabNum = s.stabNum + 1 ∧
  ∀ n c, s'.isNecessary n = true → c ∈ s'.children n → (s'.nodeD c).changedAt = s.stabNum →
    (s'.nodeD n).valid = true ∧ (s'.nodeD n).recomputedAt = s.stabNum

section
variable {env : Env} {sp : Nat → Val → Val}

theorem stabilise_gateF (X : Kit env sp) {fuel : Nat} {s s' : State} {g : Nat → Option Val} (Q : QInvF env sp s g)
    (h : (stabilise env fuel).run.run s = (.ok (), s')) : GateStab env fuel s s' := by
  obtain ⟨t1, t2, t3, g2, g3, h1, h2, h3, h4, hs2, D2, R, -, hlt, -⟩ := stabilise_onceF X Q h
  have hst := drain_staleF X fuel _ t2 t3 g2 D2 h3
  refine ⟨t1, t2, t3, h1, h2, h3, h4, ?_, hlt⟩
  intro p hp
  obtain ⟨gp, Dp, fp⟩ := R.steps p hp
  obtain ⟨c1, -, c3, -, c5⟩ := Dp.inv.cur_facts
  rw [virt_isNecessary] at c1
  rw [virt_nodeD, virtNode_valid] at c3
  rw [virt_nodeD, virtNode_recomputedAt] at c5
  have e1 : p.2.stabNum = t2.stabNum := fp.stabNum
  have e3 : (virt gp p.2).stabNum = p.2.stabNum := rfl
  rw [e3, e1, hs2] at c5
  exact ⟨hst p hp, reason_of_stale (hst p hp) (Dp.frag.fr.noExp p.1), c3, c1, c5, e1.trans hs2⟩

theorem stabilise_neverLostF {s s' : State} {g g' : Nat → Option Val} (Q : QInvF env sp s g) (R : StabF env sp s s' g') :
    NeverLost s s' := by
  refine ⟨fun m => ?_, R.stabNum, ?_⟩
  · obtain ⟨⟨rk, Qv⟩, -⟩ := Q.q
    have k := Qv.stamps m
    rw [virt_nodeD, virtNode_recomputedAt, virtNode_changedAt] at k
    exact k
  · intro n c hn hc hch
    obtain ⟨hv, hs⟩ := R.fresh n hn
    refine ⟨hv, ?_⟩
    have k1 := (fresh_inputs hv hs).1 c hc
    obtain ⟨⟨rk, Qv⟩, -⟩ := R.inv.q
    have k2 := (Qv.stamps n).1
    rw [virt_nodeD, virtNode_recomputedAt] at k2
    have e : (virt g' s').stabNum = s.stabNum + 1 := R.stabNum
    rw [e] at k2
    omega

/-- **C06 for one `stabilise` of the combined fragment** -/
theorem stabilise_c06 (E : EnvS env sp) (hF : FirstFn env) {fuel : Nat} {s s' : State} (Q : QInvFE env sp s)
    (h : (stabilise env fuel).run.run s = (.ok (), s')) : GateStab env fuel s s' ∧ NeverLost s s' ∧ QInvFE env sp s' := by
  obtain ⟨g, Q⟩ := Q
  obtain ⟨g', R⟩ := stabilise_full (kit E hF) Q h
  exact ⟨stabilise_gateF (kit E hF) Q h, stabilise_neverLostF Q R, ⟨g', R.inv⟩⟩

/-- **C06 at every `stabilise` of a history of the combined fragment** -/
theorem history_c06 (E : EnvS env sp) (hF : FirstFn env) {N : Nat} {d : Bool} {as bs : List Action}
    {s : State} {tk : Array Nat} (hH : HistFull env sp 0 (as ++ Action.stabilise :: bs))
    (h : Quiet.runActions env (as ++ Action.stabilise :: bs) (State.init N d) #[] = .ok (s, tk)) :
    ∃ s1 tk1 s2, Quiet.runActions env as (State.init N d) #[] = .ok (s1, tk1) ∧ QInvFE env sp s1 ∧
      (stabilise env fuelDefault).run.run s1 = (.ok (), s2) ∧ QInvFE env sp s2 ∧
      GateStab env fuelDefault s1 s2 ∧ NeverLost s1 s2 ∧
      Quiet.runActions env bs s2 tk1 = .ok (s, tk) := by
  obtain ⟨s1, tk1, s2, k1, k2, k3, k4, -, -, k7⟩ := OnceF.history_c02 E hF hH h
  obtain ⟨a, b, -⟩ := stabilise_c06 E hF k2 k3
  exact ⟨s1, tk1, s2, k1, k2, k3, k4, a, b, k7⟩

end
end IncrVerif.Proofs.GateF
