import IncrVerif.Proofs.PerKeyH45
import IncrVerif.Proofs.PerKeyH48
/-!
# Per-key operators, static steps part 5: `static_step` (= `StaticStepSpec` but for `SlotInv`) and `pop_step` (= `PopSpecP`)
-/
namespace IncrVerif.Proofs.PerKeyH
open IncrVerif.Engine IncrVerif.Driver IncrVerif.Proofs IncrVerif.Proofs.Step IncrVerif.Proofs.Sched
open IncrVerif.Proofs.ExpertH IncrVerif.Proofs.EffH IncrVerif.Proofs.DriverH IncrVerif.Proofs.Xp
open IncrVerif.Proofs.ExpertH.QR

/-! ## the defining equation of a variable node and of a conversion node -/

theorem target_var {env : Env} {s : State} {n c : Nat} {v : Val} {vc : VarCell}
    (ht : BindH.TargetB (penv env) (V s) n v) (hk : (s.nodeD n).kind = .var c) (hvc : s.vars[c]? = some vc) :
    v = vc.value := by
  have hV : ((V s).nodeD n).kind = .var c := by rw [V_kind, hk]; rfl
  simp only [BindH.TargetB, Target, hV] at ht
  obtain ⟨vc', h1, h2⟩ := ht
  have : (V s).vars[c]? = s.vars[c]? := rfl
  rw [this, hvc] at h1
  cases h1
  exact h2

theorem target_conv {env : Env} (hE : EnvP env) {s : State} {n x : Nat} {v : Val}
    (ht : BindH.TargetB (penv env) (V s) n v) (hk : (s.nodeD n).kind = .map fnIdent [x]) :
    (s.nodeD x).value = some v := by
  have hV : ((V s).nodeD n).kind = .map fnIdent [x] := by
    rw [V_kind, hk, vKind_map, if_neg (by decide)]
  simp only [BindH.TargetB, Target, hV] at ht
  obtain ⟨vals, h1, h2⟩ := ht
  have hx : ((V s).nodeD x).value = (s.nodeD x).value := by rw [V_nodeD, vNode_value]
  simp only [plainVals, evalArgs] at h1
  rw [hx] at h1
  cases hval : (s.nodeD x).value with
  | none => rw [hval] at h1; cases h1
  | some w =>
    rw [hval] at h1
    cases h1
    rw [h2, penv_fn_fnIdent, hE]
    rfl

/-! ## the change detectors along a static step -/

theorem V_recomputedAt_of_not_expert (s : State) (m : Nat) (h : ∀ e, (s.nodeD m).kind ≠ .expert e) :
    ((V s).nodeD m).recomputedAt = (s.nodeD m).recomputedAt := by
  rw [V_nodeD, vNode_recomputedAt_of_not_expert s _ h]

theorem lcStale_of_stepB {env : Env} {s s' : State} {n : Nat} {v : Val} {ch : Bool} {r : Option Nat}
    (F : PFrag env s) (I : BindH.DInv (penv env) (V s) (some n)) (R : BindH.StepRelB n v ch r (V s) (V s'))
    (sf : SF s s') (hf : ∀ f args, (s.nodeD n).kind = .map f args → f < fnPerKey)
    (lc f c : Nat) (hk : (s.nodeD lc).kind = .map f [c]) (hfl : fnPerKey ≤ f) (hst : s'.isStale lc = false) :
    s.isStale lc = false ∧ (c = n → (s'.nodeD n).value = (s.nodeD n).value) := by
  have hln : lc ≠ n := by
    intro e
    have := hf f [c] (by rw [← e]; exact hk)
    omega
  have hne : ∀ e, (s.nodeD lc).kind ≠ .expert e := fun e h => by rw [hk] at h; cases h
  have hne' : ∀ e, (s'.nodeD lc).kind ≠ .expert e := fun e h => by rw [sf.kind, hk] at h; cases h
  have O := R.other lc hln
  have hrec : (s'.nodeD lc).recomputedAt = (s.nodeD lc).recomputedAt := by
    have := O.recomputedAt
    rw [V_recomputedAt_of_not_expert s' lc hne', V_recomputedAt_of_not_expert s lc hne] at this
    exact this
  have hvalid : (s'.nodeD lc).valid = (s.nodeD lc).valid := by
    have := O.valid; rw [V_nodeD, V_nodeD] at this; exact this
  have hk' : (s'.nodeD lc).kind = .map f [c] := by rw [sf.kind]; exact hk
  -- the change stamp of the input
  have hch : ch = false ∨ c ≠ n → (s'.nodeD c).changedAt = (s.nodeD c).changedAt := by
    intro h
    by_cases ec : c = n
    · rcases h with h | h
      · have := R.changedAt
        rw [h] at this
        rw [V_nodeD, V_nodeD] at this
        rw [ec]; exact this
      · exact absurd ec h
    · have := (R.other c ec).changedAt
      rw [V_nodeD, V_nodeD] at this; exact this
  by_cases hcase : ch = false ∨ c ≠ n
  · have hsame : s'.isStale lc = s.isStale lc :=
      isStale_map_congr hk hk' hvalid hrec fun c' hc' => by
        rw [List.mem_singleton] at hc'; rw [hc']; exact hch hcase
    refine ⟨by rw [← hsame]; exact hst, fun ec => ?_⟩
    rcases hcase with h | h
    · have h1 := (R.unch h).1
      have h2 := R.value
      rw [V_nodeD] at h1 h2
      exact h2.trans h1.symm
    · exact absurd ec h
  · -- the input changed: the change detector is stale afterwards
    exfalso
    have hct : ch = true := by
      cases ch with
      | true => rfl
      | false => exact absurd (Or.inl rfl) hcase
    have ecn : c = n := by
      by_cases e : c = n
      · exact e
      · exact absurd (Or.inr e) hcase
    have hval := F.validD lc
    have hsk := staticKind_VD F lc
    have hkV : ((V s).nodeD lc).kind = .map fLc [c] := by rw [V_kind, hk, vKind_map, if_pos hfl]
    have hmem : n ∈ (V s).children lc := by
      rw [children_eq_kids (V s) lc (by rw [V_nodeD]; exact hval) hsk, hkV, ← ecn]
      exact List.mem_singleton.2 rfl
    have hfresh := I.fresh lc n (BindH.Below.of_edge (BindH.Edge.child hmem)) (Or.inr rfl)
    rw [V_recomputedAt_of_not_expert s lc hne] at hfresh
    have hcn : (s'.nodeD n).changedAt = s.stabNum := by
      have := R.changedAt
      rw [hct, if_pos rfl, V_nodeD] at this
      exact this
    -- staleness in the actual state
    have : s'.isStale lc = true := by
      unfold State.isStale State.children Node.kind?
      simp only [hk', hvalid, hval, if_true, hrec]
      rw [Bool.or_eq_true]
      right
      rw [List.any_eq_true]
      exact ⟨c, List.mem_singleton.2 rfl, by rw [ecn, hcn]; exact decide_eq_true hfresh⟩
    rw [this] at hst; cases hst

/-! ## `StaticStepSpec`, but for `SlotInv` -/

/-- **a run of a node that is neither a change detector nor an expert node** (the clause `AuxP.slots` of the new state
is a hypothesis: `pk-slots`) -/
theorem static_step {env : Env} (hE : EnvP env) {fuel n : Nat} {s s' : State} {r : Option Nat}
    (D : PD env s (some n)) (N : NoRem s) (hne : ∀ e, (s.nodeD n).kind ≠ .expert e)
    (hf : ∀ f args, (s.nodeD n).kind = .map f args → f < fnPerKey)
    (h : (recomputeOne env fuel n).run.run s = (.ok r, s')) (hslots : SlotInv env s') :
    PD env s' r ∧ NoRem s' ∧ PStep s s' ∧ ((V s').nodeD n).recomputedAt = s.stabNum := by
  obtain ⟨v, ch, ht, R, fr', sf⟩ := static_core D hne hf h
  have I := D.inv
  have A := D.aux
  have F := A.frag
  have I' := BindH.stepB_inv I ht R
  have hvals : ∀ m, ((V s').nodeD m).value = (s'.nodeD m).value := fun m => by rw [V_nodeD, vNode_value]
  have hobsN : ∀ m, (s'.nodeD m).observers = (s.nodeD m).observers := fun m =>
    (shape_actualV R.shapes m).2.2.2.2.2.1
  have S : VStep s s' n v := {
    sf := sf
    vars := R.vars
    other := fun m hm => by
      have := (R.other m hm).value
      rw [V_nodeD, V_nodeD] at this; exact this
    self := fun _ => by have := R.value; rw [V_nodeD] at this; exact this
    obsN := hobsN
    tvar := fun c vc hk hvc => target_var ht hk hvc
    tconv := fun x hk => target_conv hE ht hk
    lcStale := lcStale_of_stepB F I R sf hf
    stamp := fun m e hk hs => by
      have hmn : m ≠ n := fun h => hne e (h ▸ hk)
      rw [(R.other m hmn).recomputedAt]; exact hs }
  have N' := N.of_vstep S
  have P' := A.pk.of_vstep S N'
  have F' := F.of_sf sf fr' R.shapes
  have hsz : (V s').nodes.size = (V s).nodes.size := R.size
  refine ⟨⟨I', ⟨F', ahhEmpty_of_ahf A.ahh sf.df.ahf, fr'.pinv, fun m => ?_, ?_, fun c => ?_, ?_, P', hslots,
    fun m o ho => ?_, fun k x hx => by rw [sf.top] at hx; rw [sf.size]; exact A.named k x hx⟩⟩, N', ⟨R.frame, Nat.le_of_eq sf.size.symm, ?_, fun m _ => dnKey_of_sf sf R.shapes m, fun m hm => ?_⟩,
    R.recomputedAt⟩
  · rw [sf.df.calm.num]; exact A.handlers m
  · obtain ⟨rk, hrk⟩ := A.rank
    exact ⟨rk, allStatic_congr hrk hsz R.shapes R.pc sf.scope⟩
  · rw [(shape_actualV R.shapes c).2.2.2.2.1]; exact A.nodup c
  · exact varsOK_congr A.vars hsz (fun m => (R.shapes m).kind) R.vars
  · rw [hobsN] at ho
    obtain ⟨ob, h1, h2⟩ := A.obs m o ho
    exact ⟨ob, by rw [sf.stObservers]; exact h1, h2⟩
  · exact eKey_of_sf sf R.vars R.stabNum R.qsize (fr'.pc.trans F.pc.symm) A.handlers
  · rw [nodeD_default_of_ge s' m (by rw [sf.size]; exact hm)]; rfl

/-- `StaticStepSpec`, given the slots -/
theorem staticStepSpec_of {env : Env} (hE : EnvP env)
    (hS : ∀ (fuel n : Nat) (s s' : State) (r : Option Nat), PD env s (some n) → NoRem s →
      (∀ e, (s.nodeD n).kind ≠ .expert e) → (∀ f args, (s.nodeD n).kind = .map f args → f < fnPerKey) →
      (recomputeOne env fuel n).run.run s = (.ok r, s') → SlotInv env s') : StaticStepSpec env :=
  fun fuel n s s' r D N hne hf h => static_step hE D N hne hf h (hS fuel n s s' r D N hne hf h)

/-! ## `PopSpecP` -/

theorem heapInv_of_V' {s : State} (h : HeapInv (V s)) : HeapInv s :=
  h.congr rfl (V_size s).symm fun m => by
    rw [V_nodeD]
    exact ⟨rfl, rfl, (V_isNecessary s m).symm⟩

/-- **one pop** -/
theorem pop_step {env : Env} {s s1 : State} {n : Nat} (D : PD env s none) (N : NoRem s)
    (h : rchRemoveMin.run.run s = (.ok (some n), s1)) : PD env s1 (some n) ∧ NoRem s1 ∧ PStep s s1 := by
  have I := D.inv
  have A := D.aux
  have F := A.frag
  have fr := fr_of_pfrag F A.pinv
  have hi := heapInv_of_V' I.heap
  have hv := pop_run_V hi h
  obtain ⟨I1, hfb⟩ := BindH.pop_invB I hv
  obtain ⟨-, fr1⟩ := Sim.rchRemoveMin s fr (some n) s1 h
  obtain ⟨-, -, -, hs1, hqs⟩ := rchRemoveMin_inv hi h
  have hxf : XF s s1 := PresX.rchRemoveMin.h _ _ _ h
  have df : DFX s s1 := ⟨hxf.size, hxf.kind, PresAh.rchRemoveMin.h _ _ _ h, PresS.rchRemoveMin.h _ _ _ h,
    PresCfg.rchRemoveMin.h _ _ _ h, pop_calm hi h, pop_keyD hi h⟩
  have hpk : s1.perkeys = s.perkeys := by rw [hs1]
  have sf : SF s s1 := ⟨hxf, df, hpk⟩
  have hx : s1.experts = s.experts := by rw [hs1]
  have hvars : s1.vars = s.vars := by rw [hs1]
  have hb : s1.binds = s.binds := by rw [hs1]
  have hnd : ∀ m, s1.nodeD m =
      if n = m ∧ m < s.nodes.size then { s.nodeD m with heightInRch := -1 } else s.nodeD m := by
    intro m; rw [hs1]; exact nodeD_modify { s with rch := s1.rch } n m _
  have hval : ∀ m, (s1.nodeD m).value = (s.nodeD m).value := fun m => by rw [hnd]; split <;> rfl
  have hobsN : ∀ m, (s1.nodeD m).observers = (s.nodeD m).observers := fun m => by rw [hnd]; split <;> rfl
  have hstale : ∀ m, s1.isStale m = s.isStale m := by
    intro m
    have hk : ∀ k, (s1.nodeD k).kind? = (s.nodeD k).kind? := fun k => by rw [hnd]; split <;> rfl
    have hr : ∀ k, (s1.nodeD k).recomputedAt = (s.nodeD k).recomputedAt := fun k => by rw [hnd]; split <;> rfl
    have hc : ∀ k, (s1.nodeD k).changedAt = (s.nodeD k).changedAt := fun k => by rw [hnd]; split <;> rfl
    unfold State.isStale State.children
    simp only [hk, hr, hc, hx, hvars, hb]
  have hnec : ∀ m, s1.isNecessary m = s.isNecessary m := fun m => by
    unfold State.isNecessary; rw [hnd]; split <;> rfl
  -- the shapes, read in `V`
  have hsh : ∀ m, SameShape ((V s).nodeD m) ((V s1).nodeD m) := by
    intro m
    rw [V_nodeD, V_nodeD]
    have e1 : vNode s1 = vNode s := by rw [hs1]; rfl
    rw [e1, hnd]
    split <;> exact ⟨rfl, rfl, rfl, rfl, rfl, rfl, rfl, rfl⟩
  -- the slots
  have L1 : SlotInv env s1 := by
    refine A.slots.of_frame hxf hx (fun m => ?_) hnec hstale
    apply value_congr env s s1 hxf.size
    intro k; rw [hnd]; split <;> rfl
  -- the bookkeeping: no value changes
  have S : VStep s s1 s.nodes.size .unit := {
    sf := sf
    vars := hvars
    other := fun m _ => hval m
    self := fun hlt => absurd hlt (Nat.lt_irrefl _)
    obsN := hobsN
    tvar := fun c vc hk _ => absurd (lt_of_kind_var hk) (Nat.lt_irrefl _)
    tconv := fun x hk => absurd (lt_of_kind_map hk) (Nat.lt_irrefl _)
    lcStale := fun lc f c _ _ hst => ⟨by rw [← hstale]; exact hst, fun _ => hval _⟩
    stamp := fun m e _ hs => by
      rw [V_nodeD] at hs ⊢
      have e1 : vNode s1 = vNode s := by rw [hs1]; rfl
      rw [e1, hnd]
      split <;> exact hs }
  have N1 := N.of_vstep S
  have P1 := A.pk.of_vstep S N1
  have F1 := F.of_sf sf fr1 hsh
  have hsz : (V s1).nodes.size = (V s).nodes.size := by rw [V_size, V_size]; exact hxf.size
  refine ⟨⟨I1, ⟨F1, ahhEmpty_of_ahf A.ahh df.ahf, fr1.pinv, fun m => ?_, ?_, fun c => ?_, ?_, P1, L1,
    fun m o ho => ?_, fun k x hx => by rw [sf.top] at hx; rw [sf.size]; exact A.named k x hx⟩⟩, N1, ⟨hfb, Nat.le_of_eq hxf.size.symm, ?_, fun m _ => dnKey_of_sf sf hsh m, fun m hm => ?_⟩⟩
  · rw [df.calm.num]; exact A.handlers m
  · obtain ⟨rk, hrk⟩ := A.rank
    exact ⟨rk, allStatic_congr hrk hsz hsh fr1.pc sf.scope⟩
  · rw [(shape_actualV hsh c).2.2.2.2.1]; exact A.nodup c
  · exact varsOK_congr A.vars hsz (fun m => (hsh m).kind) hvars
  · rw [hobsN] at ho
    obtain ⟨ob, h1, h2⟩ := A.obs m o ho
    exact ⟨ob, by rw [sf.stObservers]; exact h1, h2⟩
  · exact eKey_of_sf sf hvars hfb.stabNum hqs (fr1.pc.trans F.pc.symm) A.handlers
  · rw [nodeD_default_of_ge s1 m (by rw [hxf.size]; exact hm)]; rfl

theorem popSpecP (env : Env) : PopSpecP env := fun _ _ _ D N h => pop_step D N h

end IncrVerif.Proofs.PerKeyH
