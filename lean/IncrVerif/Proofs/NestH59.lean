import IncrVerif.Proofs.NestH19
import IncrVerif.Proofs.BindH98
/-!
# Nested binds (F2), part 5a: "generations are current" (`GenOK2`) and the from-scratch semantics of programs with nested binds (`den2`)

`evalB` (BindH13) evaluates a bind's main node through the bind's CURRENT right-hand side, a node of the state.  The specification-level semantics `den2` does not
look at the nodes a closure created at all: the value of `bindMain b` is obtained by evaluating the bind's lhs, applying the closure `env.body` to that value, and
evaluating the resulting TEMPLATE; an instruction `bind body' o` of the template evaluates the operand `o`, applies the closure `body'` to that value and evaluates
the template it yields, recursively (`denBody`).
-/
namespace IncrVerif.Proofs.NestH
open IncrVerif.Engine IncrVerif.Proofs IncrVerif.Proofs.Step IncrVerif.Proofs.Sched
open IncrVerif.Proofs.BindH

/-! ## the image of a template in the state -/

/-- node `m` is the local that instruction `i` produced, given the locals `locs` created before it and the lhs value `v`: for a `bind body' o` the local is the main node
of a bind record with that body whose lhs is the operand -/
def InstrImg (s : State) (locs : List Nat) (v : Val) (i : Instr) (m : Nat) : Prop :=
  match i with
  | .bind body' o => ∃ b2 br2 lc2, (s.nodeD m).kind = .bindMain b2 lc2 ∧ s.binds[b2]? = some br2 ∧ br2.body = body' ∧
      br2.main = m ∧ br2.lhsChange = lc2 ∧ resolveP s locs o = some br2.lhs
  | i => kindOfInstr s locs v i = some (s.nodeD m).kind

/-- the nodes registered for a list of locals: a local that is the main node of an inner bind is preceded by its change detector -/
def regOf (s : State) (locs : List Nat) : List Nat :=
  locs.flatMap fun m => match (s.nodeD m).kind with
    | .bindMain _ lc => [lc, m]
    | _ => [m]

/-- `locs` (in creation order) is the image of template `t` for lhs value `v`, `all` the registered nodes, and `rhs` is what the template returns -/
structure ElabOf2 (s : State) (t : Template) (v : Val) (all locs : List Nat) (rhs : Nat) : Prop where
  len : locs.length = t.instrs.length
  img : ∀ j i m, t.instrs[j]? = some i → locs[j]? = some m → InstrImg s (locs.take j) v i m
  ret : resolveP s locs t.ret = some rhs
  reg : all = regOf s locs

/-- **generations are current**: a LIVE change detector that is not stale last ran on the CURRENT value of the lhs: the bind's registered nodes and right-hand side are
the image of the closure's template for that value -/
def GenOK2 (env : Env) (s : State) : Prop :=
  ∀ (b : Nat) (br : BindRec), s.binds[b]? = some br → (s.nodeD br.lhsChange).valid = true →
    s.isStale br.lhsChange = false →
    ∃ v r locs, (s.nodeD br.lhs).value = some v ∧ br.rhs = some r ∧
      ElabOf2 s (env.body br.body v) v br.allNodesCreatedOnRhs locs r

/-! ## from-scratch semantics -/

/-- the value of one instruction of a template; `rec body' v'` evaluates the closure `body'` on input `v'` -/
def denInstr2 (env : Env) (ev : Nat → Option Val) (top : Array Nat) (rec : Nat → Val → Option Val) (v : Val)
    (vals : List (Option Val)) : Instr → Option Val
  | .bind body' o => (denOpnd ev top vals o).bind (rec body')
  | i => denInstr env ev top v vals i

/-- the values of the instructions of a template, in order -/
def denInstrs2 (env : Env) (ev : Nat → Option Val) (top : Array Nat) (rec : Nat → Val → Option Val) (v : Val) :
    List Instr → List (Option Val) → List (Option Val)
  | [], vals => vals
  | i :: is, vals => denInstrs2 env ev top rec v is (vals ++ [denInstr2 env ev top rec v vals i])

/-- the value of the closure `body` applied to input `v` (fuel `k` bounds the nesting depth) -/
def denBody (env : Env) (ev : Nat → Option Val) (top : Array Nat) : Nat → Nat → Val → Option Val
  | 0, _, _ => none
  | k+1, body, v =>
    let t := env.body body v
    denOpnd ev top (denInstrs2 env ev top (denBody env ev top k) v t.instrs []) t.ret

/-- **from-scratch semantics of a top-level node** (fuel `k`): `const`, `var`, `map`, `fold` as `Sched.eval`; a bind's main node: evaluate the lhs, run the closure
on that value, evaluate the template it yields (nested binds recursively).  No node created by a closure is looked at. -/
def den2 (env : Env) (s : State) : Nat → Nat → Option Val
  | 0, _ => none
  | k+1, n =>
    match (s.nodeD n).kind with
    | .const v => some v
    | .var c => (s.vars[c]?).map (·.value)
    | .map f args => (evalArgs (fun a => den2 env s k a) args).map (env.fn f)
    | .fold f init cs => (evalArgs (fun a => den2 env s k a) cs).map (List.foldl (env.foldStep f) init)
    | .bindLhsChange _ => some .unit
    | .bindMain b _ => match s.binds[b]? with
      | some br => match den2 env s k br.lhs with
        | some v => denBody env (den2 env s k) s.top k br.body v
        | none => none
      | none => none
    | _ => none

end IncrVerif.Proofs.NestH
