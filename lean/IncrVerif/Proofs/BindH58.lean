import IncrVerif.Proofs.BindH48
/-!
# Binds, fragment F1, `adjustHeights`, part 1: the loop invariant `AInvR` over an abstract relation of HEIGHT PAIRS and an
abstract RANK, and its elementary steps (add a member, raise a member, pop, re-bucket, `ensureHeightRequirement`)

Port of `BA2.lean`/`BA3.lean` (`AInv`, fragment F0).  In fragment F1 the height rule speaks about two kinds of pairs `(c, p)`
("`c` must be strictly lower than `p`"): recorded edges `(p, i) ∈ parents c` and SCOPE PAIRS (`c` the change detector of a
bind, `p` a necessary registered node of the bind's scope).  Neither the parent lists nor the bind table nor necessity change
during `adjustHeights`, so the set of pairs is FIXED: the invariant takes it as a parameter `E : Nat → Nat → Prop`.  The node
order `c < p` of fragment F0 becomes a rank `rk : Nat → Nat` (instantiated with `rkOf s0`).
-/
namespace IncrVerif.Proofs.BindH
open IncrVerif.Engine IncrVerif.Proofs IncrVerif.Proofs.Step IncrVerif.Proofs.Sched IncrVerif.Proofs.Quiet

namespace CA
open BA

/-- invariant of the adjust-heights loop, relative to the state `s0` in which `adjustHeights` was called.
`E c p`: `c` has to be strictly lower than `p`; `X c p`: the pair is still to be looked at; `Y m`: `m` has just been
popped and is not yet re-bucketed in the recompute heap; `B`: the node whose height is raised first. -/
structure AInvR (rk : Nat → Nat) (E : Nat → Nat → Prop) (B : Nat) (s0 s : State) (X : Nat → Nat → Prop)
    (Y : Nat → Prop) : Prop where
  rel : HRel s0 s
  wf : AhhWF s
  heap : HeapG s
  /-- every pair is fine, or its lower node is a member, or it is still to be looked at -/
  edge : ∀ c p, E c p → (s.nodeD c).height < (s.nodeD p).height ∨ ahhMk s c ≠ -1 ∨ X c p
  /-- the height under which a member is bucketed is below all its upper nodes -/
  old : ∀ c p, E c p → ahhMk s c ≠ -1 → ahhMk s c < (s.nodeD p).height
  hgt : ∀ m, (s.nodeD m).inRch = true → ahhMk s m = -1 → ¬ Y m →
    (s.nodeD m).heightInRch = (s.nodeD m).height
  hle : ∀ m, (s.nodeD m).inRch = true → (s.nodeD m).heightInRch ≤ (s.nodeD m).height
  /-- nodes of rank below `B` are untouched, members are at or above `B` -/
  low : ∀ m, rk m < rk B → s.nodeD m = s0.nodeD m
  memB : ∀ m, ahhMk s m ≠ -1 → rk B ≤ rk m

def noXR : Nat → Nat → Prop := fun _ _ => False

variable {rk : Nat → Nat} {E : Nat → Nat → Prop}

theorem AInvR.mono {B : Nat} {s0 s : State} {X X' : Nat → Nat → Prop} {Y Y' : Nat → Prop}
    (A : AInvR rk E B s0 s X Y) (hX : ∀ c p, E c p → X c p → X' c p) (hY : ∀ m, Y m → Y' m) :
    AInvR rk E B s0 s X' Y' :=
  ⟨A.rel, A.wf, A.heap,
    fun c p hm => by
      rcases A.edge c p hm with h | h | h
      · exact Or.inl h
      · exact Or.inr (Or.inl h)
      · exact Or.inr (Or.inr (hX c p hm h)),
    A.old, fun m hq hm hy => A.hgt m hq hm (fun h => hy (hY m h)), A.hle, A.low, A.memB⟩

/-- S1: a non-member all of whose upper nodes are higher joins the heap under its current height -/
theorem AInvR.add {B : Nat} {s0 s : State} {X : Nat → Nat → Prop} {Y : Nat → Prop} (A : AInvR rk E B s0 s X Y) {p : Nat}
    (hp : p < s.nodes.size) (hm : ahhMk s p = -1) (h0 : 0 ≤ (s.nodeD p).height)
    (hx : (s.nodeD p).height.toNat < s.ahh.queues.size) (hlb : s.ahh.lowerBound ≤ (s.nodeD p).height)
    (hpar : ∀ q, E p q → (s.nodeD p).height < (s.nodeD q).height) (hB : rk B ≤ rk p) :
    AInvR rk E B s0 (ahhAdded p (s.nodeD p).height s) X Y := by
  have key : ∀ m, (ahhAdded p (s.nodeD p).height s).nodeD m =
      if m = p then { s.nodeD p with heightInAhh := (s.nodeD p).height } else s.nodeD m :=
    nodeD_upd (s := s) (f := fun x => { x with heightInAhh := (s.nodeD p).height }) rfl hp
  have hh : ∀ m, ((ahhAdded p (s.nodeD p).height s).nodeD m).height = (s.nodeD m).height := by
    intro m; rw [key]; split
    · rename_i e; rw [e]
    · rfl
  have hr : ∀ m, ((ahhAdded p (s.nodeD p).height s).nodeD m).heightInRch = (s.nodeD m).heightInRch := by
    intro m; rw [key]; split
    · rename_i e; rw [e]
    · rfl
  have hin : ∀ m, ((ahhAdded p (s.nodeD p).height s).nodeD m).inRch = (s.nodeD m).inRch := by
    intro m; simp only [Node.inRch, hr]
  have hmk : ∀ m, ahhMk (ahhAdded p (s.nodeD p).height s) m =
      if m = p then (s.nodeD p).height else ahhMk s m := by
    intro m; simp only [ahhMk]; rw [key]; split <;> rfl
  refine ⟨A.rel.trans (HRel.upd (s := s) (n := p)
      (f := fun x => { x with heightInAhh := (s.nodeD p).height }) rfl rfl (fun x => ⟨rfl, rfl⟩) rfl (Int.le_refl _)),
    A.wf.added hp hm h0 hx hlb, A.heap.congr rfl (by simp [ahhAdded]) hr, ?_, ?_, ?_, ?_, ?_, ?_⟩
  rotate_left 4
  · intro m hmB
    have e : m ≠ p := fun e => by rw [e] at hmB; omega
    rw [key, if_neg e]; exact A.low m hmB
  · intro m hmm
    rw [hmk] at hmm
    by_cases e : m = p
    · rw [e]; exact hB
    · rw [if_neg e] at hmm; exact A.memB m hmm
  · intro c q hmem
    rw [hh, hh, hmk]
    rcases A.edge c q hmem with h | h | h
    · exact Or.inl h
    · right; left
      split
      · rename_i e; rw [← e]; rw [e]; omega
      · exact h
    · exact Or.inr (Or.inr h)
  · intro c q hmem hmc
    rw [hh, hmk] at *
    by_cases e : c = p
    · rw [if_pos e]; rw [e] at hmem; exact hpar q hmem
    · rw [if_neg e] at hmc ⊢; exact A.old c q hmem hmc
  · intro m hq hmm hy
    rw [hin] at hq
    rw [hmk] at hmm
    rw [hr, hh]
    by_cases e : m = p
    · rw [if_pos e] at hmm; omega
    · rw [if_neg e] at hmm; exact A.hgt m hq hmm hy
  · intro m hq
    rw [hin] at hq
    rw [hr, hh]; exact A.hle m hq

/-- S2: a member `p` is raised to `v`, above `c` -/
theorem AInvR.raise {B : Nat} {s0 s : State} {X : Nat → Nat → Prop} {Y : Nat → Prop} (A : AInvR rk E B s0 s X Y)
    {c p : Nat} {v : Int} (hp : p < s.nodes.size) (hm : ahhMk s p ≠ -1) (hv : (s.nodeD p).height ≤ v)
    (hcv : (s.nodeD c).height < v) (hX : ∀ x q, X x q → x = c) :
    AInvR rk E B s0 (heightSet p v s) (fun x q => X x q ∧ q ≠ p) Y := by
  have key : ∀ m, (heightSet p v s).nodeD m = if m = p then { s.nodeD p with height := v } else s.nodeD m :=
    nodeD_upd (s := s) (f := fun x => { x with height := v }) rfl hp
  have hh : ∀ m, ((heightSet p v s).nodeD m).height = if m = p then v else (s.nodeD m).height := by
    intro m; rw [key]; split <;> rfl
  have hr : ∀ m, ((heightSet p v s).nodeD m).heightInRch = (s.nodeD m).heightInRch := by
    intro m; rw [key]; split
    · rename_i e; rw [e]
    · rfl
  have hin : ∀ m, ((heightSet p v s).nodeD m).inRch = (s.nodeD m).inRch := by
    intro m; simp only [Node.inRch, hr]
  have hmk : ∀ m, ahhMk (heightSet p v s) m = ahhMk s m := by
    intro m; simp only [ahhMk]; rw [key]; split
    · rename_i e; rw [e]
    · rfl
  have hgrow : ∀ m, (s.nodeD m).height ≤ ((heightSet p v s).nodeD m).height := by
    intro m; rw [hh]; split
    · rename_i e; rw [e]; exact hv
    · exact Int.le_refl _
  refine ⟨A.rel.trans (HRel.upd (s := s) (n := p) (f := fun x => { x with height := v }) rfl rfl
      (fun x => ⟨rfl, rfl⟩) rfl hv),
    A.wf.congr rfl (funext hmk), A.heap.congr rfl (by simp [heightSet]) hr, ?_, ?_, ?_, ?_, ?_, ?_⟩
  rotate_left 4
  · intro m hmB
    have := A.memB p hm
    have e : m ≠ p := fun e => by rw [e] at hmB; omega
    rw [key, if_neg e]; exact A.low m hmB
  · intro m hmm
    rw [hmk] at hmm; exact A.memB m hmm
  · intro x q hmem
    rw [hmk]
    by_cases ex : x = p
    · rw [ex]; exact Or.inr (Or.inl hm)
    · rw [hh x, if_neg ex]
      by_cases eq : q = p
      · rw [hh q, if_pos eq]
        rw [eq] at hmem
        rcases A.edge x p hmem with h | h | h
        · left; omega
        · exact Or.inr (Or.inl h)
        · left; rw [hX x p h]; exact hcv
      · rw [hh q, if_neg eq]
        rcases A.edge x q hmem with h | h | h
        · exact Or.inl h
        · exact Or.inr (Or.inl h)
        · exact Or.inr (Or.inr ⟨h, eq⟩)
  · intro x q hmem hmx
    rw [hmk] at hmx ⊢
    have := A.old x q hmem hmx
    have := hgrow q
    omega
  · intro m hq hmm hy
    rw [hin] at hq
    rw [hmk] at hmm
    have e : m ≠ p := fun e => hm (e ▸ hmm)
    rw [hr, hh, if_neg e]; exact A.hgt m hq hmm hy
  · intro m hq
    rw [hin] at hq
    have := A.hle m hq
    have := hgrow m
    rw [hr]; omega

/-- S3: the least member is popped -/
theorem AInvR.pop {B : Nat} {s0 s : State} (A : AInvR rk E B s0 s noXR noY) {n : Nat} {rest : List Nat}
    (hq : s.ahh.queues[ahhFirst s]? = some (n :: rest)) :
    AInvR rk E B s0 (ahhPopped (ahhFirst s) n rest s) (fun x _ => x = n) (· = n) ∧ rk B ≤ rk n ∧
      (∀ q, E n q →
        (ahhPopped (ahhFirst s) n rest s).ahh.lowerBound < ((ahhPopped (ahhFirst s) n rest s).nodeD q).height) ∧
      ∀ m, (ahhPopped (ahhFirst s) n rest s).nodeD m =
        if m = n then { s.nodeD n with heightInAhh := -1 } else s.nodeD m := by
  obtain ⟨hwf, hmn⟩ := A.wf.popped hq
  have hmem : ahhMk s n ≠ -1 := by rw [hmn]; omega
  have hn : n < s.nodes.size := by
    apply Decidable.byContradiction
    intro h
    apply hmem
    simp only [ahhMk]
    rw [nodeD_default s n (by omega)]; rfl
  have key : ∀ m, (ahhPopped (ahhFirst s) n rest s).nodeD m =
      if m = n then { s.nodeD n with heightInAhh := -1 } else s.nodeD m :=
    nodeD_upd (s := s) (f := fun x => { x with heightInAhh := -1 }) rfl hn
  have hh : ∀ m, ((ahhPopped (ahhFirst s) n rest s).nodeD m).height = (s.nodeD m).height := by
    intro m; rw [key]; split
    · rename_i e; rw [e]
    · rfl
  have hr : ∀ m, ((ahhPopped (ahhFirst s) n rest s).nodeD m).heightInRch = (s.nodeD m).heightInRch := by
    intro m; rw [key]; split
    · rename_i e; rw [e]
    · rfl
  have hin : ∀ m, ((ahhPopped (ahhFirst s) n rest s).nodeD m).inRch = (s.nodeD m).inRch := by
    intro m; simp only [Node.inRch, hr]
  have hmk : ∀ m, ahhMk (ahhPopped (ahhFirst s) n rest s) m = if m = n then -1 else ahhMk s m := by
    intro m; simp only [ahhMk]; rw [key]; split <;> rfl
  refine ⟨⟨A.rel.trans (HRel.upd (s := s) (n := n) (f := fun x => { x with heightInAhh := -1 }) rfl rfl
      (fun x => ⟨rfl, rfl⟩) rfl (Int.le_refl _)),
    hwf, A.heap.congr rfl (by simp [ahhPopped]) hr, ?_, ?_, ?_, ?_, ?_, ?_⟩, A.memB n hmem, ?_, key⟩
  rotate_left 4
  · intro m hmB
    have := A.memB n hmem
    have e : m ≠ n := fun e => by rw [e] at hmB; omega
    rw [key, if_neg e]; exact A.low m hmB
  · intro m hmm
    rw [hmk] at hmm
    by_cases e : m = n
    · rw [if_pos e] at hmm; exact absurd rfl hmm
    · rw [if_neg e] at hmm; exact A.memB m hmm
  rotate_left 1
  · intro c q hm
    rw [hh, hh, hmk]
    by_cases e : c = n
    · exact Or.inr (Or.inr e)
    · rw [if_neg e]
      rcases A.edge c q hm with h | h | h
      · exact Or.inl h
      · exact Or.inr (Or.inl h)
      · exact h.elim
  · intro c q hm hmc
    rw [hh, hmk] at *
    by_cases e : c = n
    · rw [if_pos e] at hmc; exact absurd rfl hmc
    · rw [if_neg e] at hmc ⊢; exact A.old c q hm hmc
  · intro m hq' hmm hy
    rw [hin] at hq'
    rw [hmk, if_neg hy] at hmm
    rw [hr, hh]; exact A.hgt m hq' hmm (fun h => h)
  · intro m hq'
    rw [hin] at hq'
    rw [hr, hh]; exact A.hle m hq'
  · intro q hm
    rw [hh]
    show (ahhFirst s : Int) < _
    rw [← hmn]
    exact A.old n q hm hmem

/-- S4: the popped node is re-bucketed in the recompute heap -/
theorem AInvR.rebucket {B : Nat} {s0 s : State} {X : Nat → Nat → Prop} {Y : Nat → Prop} (A : AInvR rk E B s0 s X Y)
    {n : Nat} {Q : Array (List Nat)} (hn : n < s.nodes.size) (hq : (s.nodeD n).inRch = true)
    (h0 : 0 ≤ (s.nodeD n).height) (hQ : Q.size = s.rch.queues.size)
    (hwf : HeapWF (rebucketed n (s.nodeD n).height Q s)) (hY : ∀ m, Y m → m = n) (hB : rk B ≤ rk n) :
    AInvR rk E B s0 (rebucketed n (s.nodeD n).height Q s) X noY := by
  have key : ∀ m, (rebucketed n (s.nodeD n).height Q s).nodeD m =
      if m = n then { s.nodeD n with heightInRch := (s.nodeD n).height } else s.nodeD m :=
    nodeD_upd (s := s) (f := fun x => { x with heightInRch := (s.nodeD n).height }) rfl hn
  have hh : ∀ m, ((rebucketed n (s.nodeD n).height Q s).nodeD m).height = (s.nodeD m).height := by
    intro m; rw [key]; split
    · rename_i e; rw [e]
    · rfl
  have hr : ∀ m, ((rebucketed n (s.nodeD n).height Q s).nodeD m).heightInRch =
      if m = n then (s.nodeD n).height else (s.nodeD m).heightInRch := by
    intro m; rw [key]; split <;> rfl
  have hin : ∀ m, ((rebucketed n (s.nodeD n).height Q s).nodeD m).inRch = (s.nodeD m).inRch := by
    intro m
    simp only [Node.inRch, hr]
    split
    · rename_i e
      rw [e]
      simp only [Node.inRch] at hq
      rw [hq]; simpa using h0
    · rfl
  have hmk : ∀ m, ahhMk (rebucketed n (s.nodeD n).height Q s) m = ahhMk s m := by
    intro m; simp only [ahhMk]; rw [key]; split
    · rename_i e; rw [e]
    · rfl
  refine ⟨A.rel.trans (HRel.upd (s := s) (n := n)
      (f := fun x => { x with heightInRch := (s.nodeD n).height }) rfl (by simp only [hKey, rebucketed, hQ])
      (fun x => ⟨rfl, rfl⟩) ?_ (Int.le_refl _)),
    A.wf.congr rfl (funext hmk), ⟨hwf, ?_, A.heap.lb0⟩, ?_, ?_, ?_, ?_, ?_, ?_⟩
  rotate_left 6
  · intro m hmB
    have e : m ≠ n := fun e => by rw [e] at hmB; omega
    rw [key, if_neg e]; exact A.low m hmB
  · intro m hmm
    rw [hmk] at hmm; exact A.memB m hmm
  · have := hin n
    rw [key, if_pos rfl] at this
    exact this
  · intro m hqm
    rw [hin] at hqm
    rw [hr]
    show s.rch.lowerBound ≤ _
    have h1 := A.heap.lb m hqm
    have h2 := A.hle m hqm
    by_cases e : m = n
    · rw [if_pos e]; rw [e] at h1 h2; omega
    · rw [if_neg e]; exact h1
  · intro c q hm
    rw [hh, hh, hmk]; exact A.edge c q hm
  · intro c q hm hmc
    rw [hh, hmk] at *
    exact A.old c q hm hmc
  · intro m hqm hmm _
    rw [hin] at hqm
    rw [hmk] at hmm
    rw [hr, hh]
    split
    · rename_i e; rw [e]
    · rename_i e; exact A.hgt m hqm hmm (fun hy => e (hY m hy))
  · intro m hqm
    rw [hin] at hqm
    rw [hr, hh]
    split
    · rename_i e; rw [e]; exact Int.le_refl _
    · exact A.hle m hqm

/-- `ensureHeightRequirement c p` inside the loop: the pair `(c, p)` is fine afterwards -/
theorem ehr_step {B : Nat} {s0 s s' : State} {X : Nat → Nat → Prop} {Y : Nat → Prop} {oc op c p : Nat} {u : Unit}
    (h : (ensureHeightRequirement oc op c p).run.run s = (.ok u, s')) (A : AInvR rk E B s0 s X Y)
    (hX : ∀ x q, X x q → x = c) (hcp : c ≠ p)
    (hlb : s.ahh.lowerBound ≤ (s.nodeD p).height) (hB : rk B ≤ rk p) :
    AInvR rk E B s0 s' (fun x q => X x q ∧ q ≠ p) Y ∧ HRel s s' ∧ s'.ahh.lowerBound = s.ahh.lowerBound := by
  obtain ⟨hc, hp, hcase⟩ := ehr_ok_inv h
  rcases hcase with ⟨hlt, e⟩ | ⟨hge, s1, hs1, e⟩
  · rw [e]
    refine ⟨⟨A.rel, A.wf, A.heap, ?_, A.old, A.hgt, A.hle, A.low, A.memB⟩, HRel.refl s, rfl⟩
    intro x q hm
    rcases A.edge x q hm with h1 | h1 | h1
    · exact Or.inl h1
    · exact Or.inr (Or.inl h1)
    · by_cases eq : q = p
      · left; rw [hX x q h1, eq]; exact hlt
      · exact Or.inr (Or.inr ⟨h1, eq⟩)
  · rcases hs1 with ⟨hmem, e1⟩ | ⟨hnm, h0, hx, e1⟩
    · rw [e1] at e
      rw [e]
      exact ⟨A.raise hp hmem (by omega) (by omega) hX, HRel.heightSet (by omega), rfl⟩
    · have hpar : ∀ q, E p q → (s.nodeD p).height < (s.nodeD q).height := by
        intro q hm
        rcases A.edge p q hm with h1 | h1 | h1
        · exact h1
        · exact absurd hnm h1
        · exact absurd (hX p q h1).symm hcp
      have A1 := A.add hp hnm h0 hx hlb hpar hB
      rw [← e1] at A1
      have key := ahhAdded_nodeD (x := (s.nodeD p).height) hp
      have hhp : (s1.nodeD p).height = (s.nodeD p).height := by rw [e1, key, if_pos rfl]
      have hhc : (s1.nodeD c).height = (s.nodeD c).height := by rw [e1, key, if_neg hcp]
      have hmem : ahhMk s1 p ≠ -1 := by
        simp only [ahhMk]
        rw [e1, key, if_pos rfl]
        show (s.nodeD p).height ≠ -1
        omega
      have hp1 : p < s1.nodes.size := by rw [e1]; simpa [ahhAdded] using hp
      rw [e]
      refine ⟨A1.raise hp1 hmem (by omega) (by omega) hX, ?_, ?_⟩
      · have r1 : HRel s s1 := by rw [e1]; exact HRel.added _ _ _
        exact r1.trans (HRel.heightSet (by omega))
      · rw [e1]; rfl

end CA
end IncrVerif.Proofs.BindH
