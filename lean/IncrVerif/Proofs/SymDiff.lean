import IncrVerif.MapOps.SymDiffRef
/-!
# Proofs for C18: the iterator state machines of `SymDiff.lean` equal the textbook merges
-/
namespace IncrVerif.Proofs
open IncrVerif IncrVerif.MapOps

/-! ## `mergeSpec` basics -/

@[simp] theorem mergeSpec_nil_left (b : List Int) : mergeSpec [] b = b := by
  simp [mergeSpec]

@[simp] theorem mergeSpec_nil_right (a : List Int) : mergeSpec a [] = a := by
  cases a <;> simp [mergeSpec]

theorem mergeSpec_cons_cons (x y : Int) (a b : List Int) :
    mergeSpec (x :: a) (y :: b) =
      if x < y then x :: mergeSpec a (y :: b)
      else if x = y then x :: mergeSpec a b
      else y :: mergeSpec (x :: a) b := by
  rw [mergeSpec]

theorem mem_mergeSpec (k : Int) (a b : List Int) :
    k ∈ mergeSpec a b ↔ k ∈ a ∨ k ∈ b := by
  fun_induction mergeSpec a b with
  | case1 b => simp
  | case2 a h => simp
  | case3 x a y b h ih => simp [ih]; grind
  | case4 x a b h ih => simp [ih]; grind
  | case5 x a y b h1 h2 ih => simp [ih]; grind

/-! ## `MergeOnce` -/

/-- closed form of what a `MergeOnce` state still has to yield -/
def moOut (ks : MergeOnce) : List Int :=
  match ks.fused with
  | none => mergeSpec ks.a ks.b
  | some true => ks.a
  | some false => ks.b

def moLen (ks : MergeOnce) : Nat := ks.a.length + ks.b.length

theorem mo_next_none (ks ks' : MergeOnce) (h : ks.next = (none, ks')) : moOut ks = [] := by
  rcases ks with ⟨a, b, f⟩
  rcases f with _ | _ | _ <;> rcases a with _ | ⟨x, a⟩ <;> rcases b with _ | ⟨y, b⟩ <;>
    simp [MergeOnce.next, moOut] at h ⊢
  all_goals (split at h <;> simp at h)

theorem mo_next_some (ks ks' : MergeOnce) (k : Int) (h : ks.next = (some k, ks')) :
    moOut ks = k :: moOut ks' ∧ moLen ks' < moLen ks ∧
      (∀ x ∈ ks'.a, x ∈ ks.a) ∧ (∀ x ∈ ks'.b, x ∈ ks.b) ∧ (k ∈ ks.a ∨ k ∈ ks.b) := by
  rcases ks with ⟨a, b, f⟩
  rcases f with _ | _ | _ <;> rcases a with _ | ⟨x, a⟩ <;> rcases b with _ | ⟨y, b⟩ <;>
    simp [MergeOnce.next, moOut, moLen] at h ⊢
  case none.cons.cons =>
    rw [mergeSpec_cons_cons]
    by_cases hlt : x < y
    · have hle : x ≤ y := by omega
      have hne : x ≠ y := by omega
      simp [hlt, hle, hne] at h ⊢
      obtain ⟨rfl, rfl⟩ := h
      simp; grind
    · by_cases heq : x = y
      · subst heq
        simp at h ⊢
        obtain ⟨rfl, rfl⟩ := h
        simp; grind
      · have hle : ¬ x ≤ y := by omega
        simp [hlt, hle, heq] at h ⊢
        obtain ⟨rfl, rfl⟩ := h
        simp; grind
  all_goals
    obtain ⟨rfl, rfl⟩ := h
    simp
    try grind

theorem moOut_nil_of_len (ks : MergeOnce) (h : moLen ks = 0) : moOut ks = [] := by
  rcases ks with ⟨a, b, f⟩
  simp only [moLen] at h
  have ha : a = [] := List.length_eq_zero_iff.mp (by omega)
  have hb : b = [] := List.length_eq_zero_iff.mp (by omega)
  subst ha hb
  rcases f with _ | _ | _ <;> simp [moOut]

/-- hint 1: `MergeOnce` run to exhaustion is the textbook merge -/
theorem mo_collect (fuel : Nat) (ks : MergeOnce) (h : moLen ks ≤ fuel) :
    MergeOnce.collect fuel ks = moOut ks := by
  induction fuel generalizing ks with
  | zero => simp [MergeOnce.collect, moOut_nil_of_len ks (by omega)]
  | succ n ih =>
    rw [MergeOnce.collect]
    rcases hn : ks.next with ⟨_ | k, ks'⟩
    · simp [mo_next_none _ _ hn]
    · obtain ⟨h1, h2, -⟩ := mo_next_some _ _ _ hn
      simp [h1, ih ks' (by omega)]

theorem mergeOnce_collect_eq_mergeSpec (a b : List Int) (fuel : Nat)
    (h : a.length + b.length ≤ fuel) :
    MergeOnce.collect fuel { a := a, b := b } = mergeSpec a b :=
  mo_collect fuel _ h

/-! ## `AMap.lookup` facts -/
section
variable {α : Type}

theorem lookup_cons_self (k : Int) (v : α) (m : AMap α) :
    AMap.lookup ((k, v) :: m) k = some v := by
  simp [AMap.lookup]

theorem lookup_cons_ne (k k' : Int) (v : α) (m : AMap α) (h : k ≠ k') :
    AMap.lookup ((k', v) :: m) k = AMap.lookup m k := by
  simp [AMap.lookup, h]

theorem lookup_isSome_of_mem_keys (m : AMap α) (k : Int) (h : k ∈ m.keys) :
    (m.lookup k).isSome := by
  induction m with
  | nil => simp [AMap.keys] at h
  | cons kv m ih =>
    rcases kv with ⟨k', v⟩
    by_cases hk : k = k'
    · subst hk; simp [AMap.lookup]
    · rw [lookup_cons_ne _ _ _ _ hk]
      apply ih
      simpa [AMap.keys, hk] using h

theorem lookup_none_of_not_mem_keys (m : AMap α) (k : Int) (h : k ∉ m.keys) :
    m.lookup k = none := by
  induction m with
  | nil => simp [AMap.lookup]
  | cons kv m ih =>
    rcases kv with ⟨k', v⟩
    simp [AMap.keys] at h
    rw [lookup_cons_ne _ _ _ _ h.1]
    exact ih (by simpa [AMap.keys] using h.2)

theorem lookup_none_of_lt (m : AMap α) (k : Int) (h : ∀ k' ∈ m.keys, k < k') :
    m.lookup k = none :=
  lookup_none_of_not_mem_keys m k (fun hk => by have := h k hk; omega)

theorem sorted_cons (k : Int) (v : α) (m : AMap α) :
    AMap.Sorted ((k, v) :: m) ↔ (∀ k' ∈ m.keys, k < k') ∧ AMap.Sorted m := by
  simp [AMap.Sorted, AMap.keys]

end

/-! ## `SymmetricDiff` against `filterMap classify` over the merged keys -/
section
variable {α : Type} [DecidableEq α]

/-- every pending key is bound in the map it came from -/
def sdInv (A B : AMap α) (ks : MergeOnce) : Prop :=
  (∀ k ∈ ks.a, (A.lookup k).isSome) ∧ (∀ k ∈ ks.b, (B.lookup k).isSome)

theorem sd_next (f : Nat) (A B : AMap α) (ks : MergeOnce)
    (hf : moLen ks + 1 ≤ f) (hinv : sdInv A B ks) :
    ((SymmetricDiff.next f ⟨A, B, ks⟩).1 = none ∧
        (moOut ks).filterMap (classify A B) = []) ∨
    ∃ x ks', SymmetricDiff.next f ⟨A, B, ks⟩ = (some x, ⟨A, B, ks'⟩) ∧ sdInv A B ks' ∧
        moLen ks' < moLen ks ∧
        (moOut ks).filterMap (classify A B) = x :: (moOut ks').filterMap (classify A B) := by
  induction f generalizing ks with
  | zero => omega
  | succ f ih =>
    rw [SymmetricDiff.next]
    rcases hn : ks.next with ⟨_ | key, ks1⟩
    · left; simp [mo_next_none _ _ hn]
    · obtain ⟨h1, h2, h3, h4, h5⟩ := mo_next_some _ _ _ hn
      have inv1 : sdInv A B ks1 := ⟨fun k hk => hinv.1 k (h3 k hk), fun k hk => hinv.2 k (h4 k hk)⟩
      have hsome : (A.lookup key).isSome ∨ (B.lookup key).isSome := by
        rcases h5 with h | h
        · exact .inl (hinv.1 _ h)
        · exact .inr (hinv.2 _ h)
      rcases hA : A.lookup key with _ | va <;> rcases hB : B.lookup key with _ | vb
      · simp [hA, hB] at hsome
      · right
        refine ⟨(key, .right vb), ks1, ?_, inv1, h2, ?_⟩
        · simp [hA, hB]
        · simp [h1, classify, hA, hB]
      · right
        refine ⟨(key, .left va), ks1, ?_, inv1, h2, ?_⟩
        · simp [hA, hB]
        · simp [h1, classify, hA, hB]
      · by_cases hv : va = vb
        · have hc : classify A B key = none := by simp [classify, hA, hB, hv]
          rcases ih ks1 (by omega) inv1 with ⟨e1, e2⟩ | ⟨x, ks2, e1, e2, e3, e4⟩
          · left
            simp [hA, hB, hv, e1, h1, hc, e2]
          · right
            refine ⟨x, ks2, ?_, e2, by omega, ?_⟩
            · simp [hA, hB, hv, e1]
            · simp [h1, hc, e4]
        · right
          refine ⟨(key, .unequal va vb), ks1, ?_, inv1, h2, ?_⟩
          · simp [hA, hB, hv]
          · simp [h1, classify, hA, hB, hv]

theorem sd_collect (fuel : Nat) (A B : AMap α) (ks : MergeOnce)
    (hf : moLen ks ≤ fuel) (hinv : sdInv A B ks) :
    SymmetricDiff.collect fuel ⟨A, B, ks⟩ = (moOut ks).filterMap (classify A B) := by
  induction fuel generalizing ks with
  | zero => simp [SymmetricDiff.collect, moOut_nil_of_len ks (by omega)]
  | succ n ih =>
    rw [SymmetricDiff.collect]
    rcases sd_next (moLen ks + 1) A B ks (Nat.le_refl _) hinv with
      ⟨e1, e2⟩ | ⟨x, ks', e1, e2, e3, e4⟩
    · simp only [moLen] at e1
      rw [e2]
      split
      · rfl
      · rename_i heq; rw [heq] at e1; simp at e1
    · simp only [moLen] at e1
      simp only [e1, e4]
      rw [ih ks' (by omega) e2]

/-- hint 2 -/
theorem symmetricDiff_eq_filterMap (a b : AMap α) :
    symmetricDiff a b = (mergeSpec a.keys b.keys).filterMap (classify a b) := by
  unfold symmetricDiff
  rw [sd_collect]
  · rfl
  · simp [moLen, AMap.keys]
  · exact ⟨fun k hk => lookup_isSome_of_mem_keys a k hk,
      fun k hk => lookup_isSome_of_mem_keys b k hk⟩

end

/-! ## `filterMap classify` over the merged keys is `refDiff` -/
section
variable {α : Type} [DecidableEq α]

omit [DecidableEq α] in
theorem keys_cons (k : Int) (v : α) (m : AMap α) : AMap.keys ((k, v) :: m) = k :: m.keys := rfl

theorem filterMap_congr' {β γ : Type} {f g : β → Option γ} {l : List β}
    (h : ∀ x ∈ l, f x = g x) : l.filterMap f = l.filterMap g := by
  induction l with
  | nil => rfl
  | cons x l ih =>
    have hx : f x = g x := h x (by simp)
    have hl : ∀ y ∈ l, f y = g y := fun y hy => h y (by simp [hy])
    simp only [List.filterMap_cons, hx, ih hl]

theorem classify_cons_left (k ka : Int) (va : α) (ra b : AMap α) (h : k ≠ ka) :
    classify ((ka, va) :: ra) b k = classify ra b k := by
  simp [classify, lookup_cons_ne _ _ _ _ h]

theorem classify_cons_right (k kb : Int) (vb : α) (a rb : AMap α) (h : k ≠ kb) :
    classify a ((kb, vb) :: rb) k = classify a rb k := by
  simp [classify, lookup_cons_ne _ _ _ _ h]

theorem filterMap_keys_right (b : AMap α) (hb : b.Sorted) :
    b.keys.filterMap (classify [] b) = b.map (fun kv => (kv.1, .right kv.2)) := by
  induction b with
  | nil => simp [AMap.keys]
  | cons kv rb ih =>
    rcases kv with ⟨k, v⟩
    rw [sorted_cons] at hb
    rw [keys_cons, List.filterMap_cons]
    have : classify [] ((k, v) :: rb) k = some (k, .right v) := by
      simp [classify, AMap.lookup]
    rw [this]
    simp only [List.map_cons]
    congr 1
    rw [← ih hb.2]
    apply filterMap_congr'
    intro k' hk'
    exact classify_cons_right _ _ _ _ _ (by have := hb.1 k' hk'; omega)

theorem filterMap_keys_left (a : AMap α) (ha : a.Sorted) :
    a.keys.filterMap (classify a []) = a.map (fun kv => (kv.1, .left kv.2)) := by
  induction a with
  | nil => simp [AMap.keys]
  | cons kv ra ih =>
    rcases kv with ⟨k, v⟩
    rw [sorted_cons] at ha
    rw [keys_cons, List.filterMap_cons]
    have : classify ((k, v) :: ra) [] k = some (k, .left v) := by
      simp [classify, AMap.lookup]
    rw [this]
    simp only [List.map_cons]
    congr 1
    rw [← ih ha.2]
    apply filterMap_congr'
    intro k' hk'
    exact classify_cons_left _ _ _ _ _ (by have := ha.1 k' hk'; omega)

/-- hint 3 -/
theorem filterMap_classify_eq_refDiff (a b : AMap α) (ha : a.Sorted) (hb : b.Sorted) :
    (mergeSpec a.keys b.keys).filterMap (classify a b) = refDiff a b := by
  fun_induction refDiff a b with
  | case1 b =>
    show (mergeSpec [] b.keys).filterMap _ = _
    rw [mergeSpec_nil_left]; exact filterMap_keys_right b hb
  | case2 a h =>
    show (mergeSpec a.keys []).filterMap _ = _
    rw [mergeSpec_nil_right]; exact filterMap_keys_left a ha
  | case3 ka va ra kb vb rb h ih =>
    have ha' := (sorted_cons _ _ _).mp ha
    have hb' := (sorted_cons _ _ _).mp hb
    have hbgt : ∀ k' ∈ AMap.keys ((kb, vb) :: rb), ka < k' := by
      intro k' hk'
      rcases List.mem_cons.mp hk' with rfl | h'
      · exact h
      · have := hb'.1 k' h'; omega
    have hc : classify ((ka, va) :: ra) ((kb, vb) :: rb) ka = some (ka, .left va) := by
      simp [classify, lookup_cons_self, lookup_none_of_lt _ _ hbgt]
    rw [keys_cons, keys_cons, mergeSpec_cons_cons, if_pos h, List.filterMap_cons, hc]
    simp only
    congr 1
    rw [← ih ha'.2 hb]
    apply filterMap_congr'
    intro k hk
    apply classify_cons_left
    rcases (mem_mergeSpec _ _ _).mp hk with h' | h'
    · have := ha'.1 k h'; omega
    · have := hbgt k h'; omega
  | case4 ka va ra kb vb rb h1 h2 ih =>
    have ha' := (sorted_cons _ _ _).mp ha
    have hb' := (sorted_cons _ _ _).mp hb
    have hagt : ∀ k' ∈ AMap.keys ((ka, va) :: ra), kb < k' := by
      intro k' hk'
      rcases List.mem_cons.mp hk' with rfl | h'
      · exact h2
      · have := ha'.1 k' h'; omega
    have hc : classify ((ka, va) :: ra) ((kb, vb) :: rb) kb = some (kb, .right vb) := by
      simp [classify, lookup_cons_self, lookup_none_of_lt _ _ hagt]
    have hne : ¬ ka = kb := by omega
    rw [keys_cons, keys_cons, mergeSpec_cons_cons, if_neg h1, if_neg hne, List.filterMap_cons, hc]
    simp only
    congr 1
    rw [← ih ha hb'.2]
    apply filterMap_congr'
    intro k hk
    apply classify_cons_right
    rcases (mem_mergeSpec _ _ _).mp hk with h' | h'
    · have := hagt k h'; omega
    · have := hb'.1 k h'; omega
  | case5 ka va ra kb vb rb h1 h2 h3 ih =>
    have ha' := (sorted_cons _ _ _).mp ha
    have hb' := (sorted_cons _ _ _).mp hb
    have heq : ka = kb := by omega
    subst heq
    have hc : classify ((ka, va) :: ra) ((ka, vb) :: rb) ka = some (ka, .unequal va vb) := by
      simp [classify, lookup_cons_self, h3]
    rw [keys_cons, keys_cons, mergeSpec_cons_cons, if_neg h1, if_pos rfl, List.filterMap_cons, hc]
    simp only
    congr 1
    rw [← ih ha'.2 hb'.2]
    apply filterMap_congr'
    intro k hk
    have hne : k ≠ ka := by
      rcases (mem_mergeSpec _ _ _).mp hk with h' | h'
      · have := ha'.1 k h'; omega
      · have := hb'.1 k h'; omega
    rw [classify_cons_left _ _ _ _ _ hne, classify_cons_right _ _ _ _ _ hne]
  | case6 ka va ra kb vb rb h1 h2 h3 ih =>
    have ha' := (sorted_cons _ _ _).mp ha
    have hb' := (sorted_cons _ _ _).mp hb
    have heq : ka = kb := by omega
    subst heq
    have hc : classify ((ka, va) :: ra) ((ka, vb) :: rb) ka = none := by
      simp [classify, lookup_cons_self, h3]
    rw [keys_cons, keys_cons, mergeSpec_cons_cons, if_neg h1, if_pos rfl, List.filterMap_cons, hc]
    simp only
    rw [← ih ha'.2 hb'.2]
    apply filterMap_congr'
    intro k hk
    have hne : k ≠ ka := by
      rcases (mem_mergeSpec _ _ _).mp hk with h' | h'
      · have := ha'.1 k h'; omega
      · have := hb'.1 k h'; omega
    rw [classify_cons_left _ _ _ _ _ hne, classify_cons_right _ _ _ _ _ hne]

/-- C18: the state machine equals the textbook diff -/
theorem symmetricDiff_eq_ref (a b : AMap α) (ha : a.Sorted) (hb : b.Sorted) :
    symmetricDiff a b = refDiff a b := by
  rw [symmetricDiff_eq_filterMap, filterMap_classify_eq_refDiff a b ha hb]

/-! ### membership -/

omit [DecidableEq α] in
theorem mem_keys_of_lookup (m : AMap α) (k : Int) (v : α) (h : m.lookup k = some v) :
    k ∈ m.keys := by
  by_cases hk : k ∈ m.keys
  · exact hk
  · rw [lookup_none_of_not_mem_keys m k hk] at h; simp at h

theorem classify_some_fst (a b : AMap α) (k' k : Int) (e : DiffElement α)
    (h : classify a b k' = some (k, e)) : k' = k := by
  unfold classify at h
  split at h
  · split at h <;> simp at h; exact h.1
  · simp at h; exact h.1
  · simp at h; exact h.1
  · simp at h

theorem classify_some_iff (a b : AMap α) (k : Int) (e : DiffElement α) :
    classify a b k = some (k, e) ↔
      ((∃ x, a.lookup k = some x ∧ b.lookup k = none ∧ e = .left x) ∨
       (∃ y, a.lookup k = none ∧ b.lookup k = some y ∧ e = .right y) ∨
       (∃ x y, a.lookup k = some x ∧ b.lookup k = some y ∧ x ≠ y ∧ e = .unequal x y)) := by
  unfold classify
  rcases hA : a.lookup k with _ | x <;> rcases hB : b.lookup k with _ | y <;> simp
  · exact eq_comm
  · exact eq_comm
  · by_cases hxy : x = y <;> simp [hxy]
    exact eq_comm

theorem symmetricDiff_mem (a b : AMap α) (_ha : a.Sorted) (_hb : b.Sorted)
    (k : Int) (e : DiffElement α) :
    (k, e) ∈ symmetricDiff a b ↔
      ((∃ x, a.lookup k = some x ∧ b.lookup k = none ∧ e = .left x) ∨
       (∃ y, a.lookup k = none ∧ b.lookup k = some y ∧ e = .right y) ∨
       (∃ x y, a.lookup k = some x ∧ b.lookup k = some y ∧ x ≠ y ∧ e = .unequal x y)) := by
  rw [← classify_some_iff, symmetricDiff_eq_filterMap, List.mem_filterMap]
  constructor
  · rintro ⟨k', -, hc⟩
    have := classify_some_fst a b k' k e hc
    subst this; exact hc
  · intro hc
    refine ⟨k, ?_, hc⟩
    rw [mem_mergeSpec]
    rcases (classify_some_iff a b k e).mp hc with ⟨x, h, -⟩ | ⟨y, -, h, -⟩ | ⟨x, y, h, -⟩
    · exact .inl (mem_keys_of_lookup _ _ _ h)
    · exact .inr (mem_keys_of_lookup _ _ _ h)
    · exact .inl (mem_keys_of_lookup _ _ _ h)

/-! ### ascending -/

theorem mergeSpec_pairwise (a b : List Int) (ha : a.Pairwise (· < ·)) (hb : b.Pairwise (· < ·)) :
    (mergeSpec a b).Pairwise (· < ·) := by
  fun_induction mergeSpec a b with
  | case1 b => exact hb
  | case2 a h => exact ha
  | case3 x a y b h ih =>
    rw [List.pairwise_cons] at ha hb ⊢
    refine ⟨?_, ih ha.2 (List.pairwise_cons.mpr hb)⟩
    intro k hk
    rcases (mem_mergeSpec _ _ _).mp hk with h' | h'
    · exact ha.1 k h'
    · rcases List.mem_cons.mp h' with rfl | h''
      · exact h
      · have := hb.1 k h''; omega
  | case4 x a b h ih =>
    rw [List.pairwise_cons] at ha hb ⊢
    refine ⟨?_, ih ha.2 hb.2⟩
    intro k hk
    rcases (mem_mergeSpec _ _ _).mp hk with h' | h'
    · exact ha.1 k h'
    · exact hb.1 k h'
  | case5 x a y b h1 h2 ih =>
    rw [List.pairwise_cons] at ha hb ⊢
    refine ⟨?_, ih (List.pairwise_cons.mpr ha) hb.2⟩
    intro k hk
    rcases (mem_mergeSpec _ _ _).mp hk with h' | h'
    · rcases List.mem_cons.mp h' with rfl | h''
      · omega
      · have := ha.1 k h''; omega
    · exact hb.1 k h'

theorem map_fst_filterMap_sublist {γ : Type} (f : Int → Option (Int × γ))
    (hf : ∀ k x, f k = some x → x.1 = k) (l : List Int) :
    ((l.filterMap f).map (·.1)).Sublist l := by
  induction l with
  | nil => simp
  | cons k l ih =>
    rw [List.filterMap_cons]
    rcases hk : f k with _ | x
    · exact List.Sublist.cons _ ih
    · have := hf k x hk
      subst this
      simpa using ih

theorem symmetricDiff_ascending (a b : AMap α) (ha : a.Sorted) (hb : b.Sorted) :
    List.Pairwise (· < ·) ((symmetricDiff a b).map (·.1)) := by
  rw [symmetricDiff_eq_filterMap]
  refine List.Pairwise.sublist (map_fst_filterMap_sublist _ ?_ _) (mergeSpec_pairwise _ _ ha hb)
  rintro k ⟨k', e⟩ h
  exact (classify_some_fst a b k k' e h).symm

/-! ### empty iff equal -/

theorem refDiff_nil_iff (a b : AMap α) : refDiff a b = [] ↔ a = b := by
  fun_induction refDiff a b with
  | case1 b => rw [List.map_eq_nil_iff]; exact eq_comm
  | case2 a h => simp
  | case3 ka va ra kb vb rb h ih => simp; omega
  | case4 ka va ra kb vb rb h1 h2 ih => simp; omega
  | case5 ka va ra kb vb rb h1 h2 h3 ih => simp; intro _ h; exact absurd h h3
  | case6 ka va ra kb vb rb h1 h2 h3 ih =>
    have : ka = kb := by omega
    have h3' : va = vb := by simpa using h3
    simp [ih, this, h3']

theorem symmetricDiff_nil_iff (a b : AMap α) (ha : a.Sorted) (hb : b.Sorted) :
    symmetricDiff a b = [] ↔ a = b := by
  rw [symmetricDiff_eq_ref a b ha hb, refDiff_nil_iff]

/-! ## `SymmetricDiffOwned` -/

theorem refDiff_nil_left (b : AMap α) :
    refDiff [] b = b.map (fun kv => (kv.1, .right kv.2)) := by
  simp [refDiff]

theorem refDiff_nil_right (a : AMap α) :
    refDiff a [] = a.map (fun kv => (kv.1, .left kv.2)) := by
  cases a <;> simp [refDiff]

theorem refDiff_cons_cons (ka : Int) (va : α) (ra : AMap α) (kb : Int) (vb : α) (rb : AMap α) :
    refDiff ((ka, va) :: ra) ((kb, vb) :: rb) =
      if ka < kb then (ka, .left va) :: refDiff ra ((kb, vb) :: rb)
      else if kb < ka then (kb, .right vb) :: refDiff ((ka, va) :: ra) rb
      else if va ≠ vb then (ka, .unequal va vb) :: refDiff ra rb
      else refDiff ra rb := by
  rw [refDiff]

/-- closed form of what a `SymmetricDiffOwned` state still has to yield -/
def sdoOut (s : SymmetricDiffOwned α) : List (DiffElement (Int × α)) :=
  match s.fused with
  | none => (refDiff s.self_ s.other).map toOwned
  | some true => s.self_.map .left
  | some false => s.other.map .right

def sdoLen (s : SymmetricDiffOwned α) : Nat := s.self_.length + s.other.length

theorem sdo_next (f : Nat) (s : SymmetricDiffOwned α) (hf : sdoLen s + 1 ≤ f) :
    ((SymmetricDiffOwned.next f s).1 = none ∧ sdoOut s = []) ∨
    ∃ x s', SymmetricDiffOwned.next f s = (some x, s') ∧ sdoLen s' < sdoLen s ∧
      sdoOut s = x :: sdoOut s' := by
  induction f generalizing s with
  | zero => omega
  | succ f ih =>
    rw [SymmetricDiffOwned.next]
    rcases s with ⟨A, B, fu⟩
    rcases fu with _ | _ | _ <;> rcases A with _ | ⟨⟨ka, va⟩, ra⟩ <;>
      rcases B with _ | ⟨⟨kb, vb⟩, rb⟩ <;>
      simp [sdoOut, sdoLen, refDiff_nil_left, refDiff_nil_right, toOwned]
    case none.cons.cons =>
      rw [refDiff_cons_cons]
      by_cases h1 : ka < kb
      · simp [h1, toOwned]
        exact ⟨_, _, ⟨rfl, rfl⟩, by simp, rfl, rfl⟩
      · by_cases h2 : kb < ka
        · simp [h1, h2, toOwned]
          exact ⟨_, _, ⟨rfl, rfl⟩, by simp, rfl, rfl⟩
        · by_cases h3 : va = vb
          · simp only [h1, h2, h3, if_true, if_false, ne_eq, not_true_eq_false]
            simp only [sdoLen] at hf
            rcases ih ⟨ra, rb, none⟩ (by simp only [sdoLen]; simp at hf; omega) with
              ⟨e1, e2⟩ | ⟨x, s', e1, e2, e3⟩
            · left
              simp only [sdoOut] at e2
              exact ⟨e1, by simpa using e2⟩
            · right
              simp only [sdoOut, sdoLen] at e2 e3
              exact ⟨x, s', e1, by omega, e3⟩
          · simp [h1, h2, h3, toOwned]
            have : ka = kb := by omega
            subst this
            exact ⟨_, _, ⟨rfl, rfl⟩, by simp; omega, rfl, rfl⟩
    all_goals
      refine ⟨_, _, ⟨rfl, rfl⟩, by simp, rfl, ?_⟩
      simp [Function.comp_def, toOwned]

theorem sdoOut_nil_of_len (s : SymmetricDiffOwned α) (h : sdoLen s = 0) : sdoOut s = [] := by
  rcases s with ⟨a, b, f⟩
  simp only [sdoLen] at h
  have ha : a = [] := List.length_eq_zero_iff.mp (by omega)
  have hb : b = [] := List.length_eq_zero_iff.mp (by omega)
  subst ha hb
  rcases f with _ | _ | _ <;> simp [sdoOut, refDiff_nil_left]

theorem sdo_collect (fuel : Nat) (s : SymmetricDiffOwned α) (hf : sdoLen s ≤ fuel) :
    SymmetricDiffOwned.collect fuel s = sdoOut s := by
  induction fuel generalizing s with
  | zero => simp [SymmetricDiffOwned.collect, sdoOut_nil_of_len s (by omega)]
  | succ n ih =>
    rw [SymmetricDiffOwned.collect]
    rcases sdo_next (sdoLen s + 1) s (Nat.le_refl _) with ⟨e1, e2⟩ | ⟨x, s', e1, e2, e3⟩
    · simp only [sdoLen] at e1
      rw [e2]
      split
      · rfl
      · rename_i heq; rw [heq] at e1; simp at e1
    · simp only [sdoLen] at e1
      simp only [e1, e3]
      rw [ih s' (by omega)]

theorem symmetricDiffOwned_eq_ref (a b : AMap α) :
    symmetricDiffOwned a b = (refDiff a b).map toOwned := by
  unfold symmetricDiffOwned
  rw [sdo_collect _ _ (by simp [sdoLen])]
  rfl

theorem symmetricDiffOwned_eq (a b : AMap α) (ha : a.Sorted) (hb : b.Sorted) :
    symmetricDiffOwned a b = (symmetricDiff a b).map toOwned := by
  rw [symmetricDiffOwned_eq_ref, symmetricDiff_eq_ref a b ha hb]

end

/-! ## `MergeOnceWith` with the key comparator -/
section
variable {β γ : Type}

theorem refMerge_nil_left (r : List (Int × γ)) :
    refMerge ([] : List (Int × β)) r = r.map .right := by
  simp [refMerge]

theorem refMerge_nil_right (l : List (Int × β)) :
    refMerge l ([] : List (Int × γ)) = l.map .left := by
  cases l <;> simp [refMerge]

theorem refMerge_cons_cons (x : Int × β) (l : List (Int × β)) (y : Int × γ) (r : List (Int × γ)) :
    refMerge (x :: l) (y :: r) =
      if x.1 < y.1 then .left x :: refMerge l (y :: r)
      else if y.1 < x.1 then .right y :: refMerge (x :: l) r
      else .both x y :: refMerge l r := by
  rw [refMerge]

/-- closed form of what a `MergeOnceWith keyCmp` state still has to yield -/
def mwOut (s : MergeOnceWith (Int × β) (Int × γ)) : List (MergeElement (Int × β) (Int × γ)) :=
  match s.fused with
  | none => refMerge s.a s.b
  | some true => s.a.map .left
  | some false => s.b.map .right

def mwLen (s : MergeOnceWith (Int × β) (Int × γ)) : Nat := s.a.length + s.b.length

theorem mw_next_none (s s' : MergeOnceWith (Int × β) (Int × γ))
    (h : s.next keyCmp = (none, s')) : mwOut s = [] := by
  rcases s with ⟨a, b, f⟩
  rcases f with _ | _ | _ <;> rcases a with _ | ⟨x, a⟩ <;> rcases b with _ | ⟨y, b⟩ <;>
    simp [MergeOnceWith.next, mwOut, refMerge_nil_right] at h ⊢
  cases hc : keyCmp x y <;> simp [hc] at h

theorem keyCmp_lt (x : Int × β) (y : Int × γ) (h : x.1 < y.1) : keyCmp x y = .lt := by
  simp [keyCmp, compare, compareOfLessAndEq, h]

theorem keyCmp_gt (x : Int × β) (y : Int × γ) (h : y.1 < x.1) : keyCmp x y = .gt := by
  have h1 : ¬ x.1 < y.1 := by omega
  have h2 : ¬ x.1 = y.1 := by omega
  simp [keyCmp, compare, compareOfLessAndEq, h1, h2]

theorem keyCmp_eq (x : Int × β) (y : Int × γ) (h1 : ¬ x.1 < y.1) (h2 : ¬ y.1 < x.1) :
    keyCmp x y = .eq := by
  have h3 : x.1 = y.1 := by omega
  simp [keyCmp, compare, compareOfLessAndEq, h3]

theorem mw_next_some (s s' : MergeOnceWith (Int × β) (Int × γ))
    (e : MergeElement (Int × β) (Int × γ)) (h : s.next keyCmp = (some e, s')) :
    mwOut s = e :: mwOut s' ∧ mwLen s' < mwLen s := by
  rcases s with ⟨a, b, f⟩
  rcases f with _ | _ | _ <;> rcases a with _ | ⟨x, a⟩ <;> rcases b with _ | ⟨y, b⟩ <;>
    simp [MergeOnceWith.next, mwOut, mwLen, refMerge_nil_left, refMerge_nil_right] at h ⊢
  case none.cons.cons =>
    rw [refMerge_cons_cons]
    by_cases h1 : x.1 < y.1
    · simp [keyCmp_lt x y h1] at h
      obtain ⟨rfl, rfl⟩ := h
      simp [h1]
    · by_cases h2 : y.1 < x.1
      · simp [keyCmp_gt x y h2] at h
        obtain ⟨rfl, rfl⟩ := h
        simp [h1, h2]
      · simp [keyCmp_eq x y h1 h2] at h
        obtain ⟨rfl, rfl⟩ := h
        simp [h1, h2]; omega
  all_goals
    obtain ⟨rfl, rfl⟩ := h
    simp

theorem mwOut_nil_of_len (s : MergeOnceWith (Int × β) (Int × γ)) (h : mwLen s = 0) :
    mwOut s = [] := by
  rcases s with ⟨a, b, f⟩
  simp only [mwLen] at h
  have ha : a = [] := List.length_eq_zero_iff.mp (by omega)
  have hb : b = [] := List.length_eq_zero_iff.mp (by omega)
  subst ha hb
  rcases f with _ | _ | _ <;> simp [mwOut, refMerge_nil_left]

theorem mw_collect (fuel : Nat) (s : MergeOnceWith (Int × β) (Int × γ)) (h : mwLen s ≤ fuel) :
    MergeOnceWith.collect keyCmp fuel s = mwOut s := by
  induction fuel generalizing s with
  | zero => simp [MergeOnceWith.collect, mwOut_nil_of_len s (by omega)]
  | succ n ih =>
    rw [MergeOnceWith.collect]
    rcases hn : s.next keyCmp with ⟨_ | e, s'⟩
    · simp [mw_next_none _ _ hn]
    · obtain ⟨h1, h2⟩ := mw_next_some _ _ _ hn
      simp [h1, ih s' (by omega)]

theorem mergeDiffs_eq_ref (l : List (Int × β)) (r : List (Int × γ)) :
    mergeDiffs l r = refMerge l r := by
  unfold mergeDiffs
  rw [mw_collect _ _ (by simp [mwLen])]
  rfl

/-! ### ascending -/

theorem refMerge_key_mem (l : List (Int × β)) (r : List (Int × γ))
    (e : MergeElement (Int × β) (Int × γ)) (h : e ∈ refMerge l r) :
    (∃ x ∈ l, x.1 = e.key) ∨ (∃ y ∈ r, y.1 = e.key) := by
  fun_induction refMerge l r with
  | case1 r =>
    right
    obtain ⟨y, hy, rfl⟩ := List.mem_map.mp h
    exact ⟨y, hy, rfl⟩
  | case2 l hne =>
    left
    obtain ⟨x, hx, rfl⟩ := List.mem_map.mp h
    exact ⟨x, hx, rfl⟩
  | case3 x l y r h1 ih =>
    rcases List.mem_cons.mp h with rfl | h'
    · exact .inl ⟨x, by simp, rfl⟩
    · rcases ih h' with ⟨x', hx', e'⟩ | ⟨y', hy', e'⟩
      · exact .inl ⟨x', by simp [hx'], e'⟩
      · exact .inr ⟨y', hy', e'⟩
  | case4 x l y r h1 h2 ih =>
    rcases List.mem_cons.mp h with rfl | h'
    · exact .inr ⟨y, by simp, rfl⟩
    · rcases ih h' with ⟨x', hx', e'⟩ | ⟨y', hy', e'⟩
      · exact .inl ⟨x', hx', e'⟩
      · exact .inr ⟨y', by simp [hy'], e'⟩
  | case5 x l y r h1 h2 ih =>
    rcases List.mem_cons.mp h with rfl | h'
    · exact .inl ⟨x, by simp, rfl⟩
    · rcases ih h' with ⟨x', hx', e'⟩ | ⟨y', hy', e'⟩
      · exact .inl ⟨x', by simp [hx'], e'⟩
      · exact .inr ⟨y', by simp [hy'], e'⟩

theorem pairwise_map_fst_cons {δ : Type} (x : Int × δ) (l : List (Int × δ)) :
    List.Pairwise (· < ·) ((x :: l).map (·.1)) ↔
      (∀ x' ∈ l, x.1 < x'.1) ∧ List.Pairwise (· < ·) (l.map (·.1)) := by
  simp [List.pairwise_cons]

theorem refMerge_ascending (l : List (Int × β)) (r : List (Int × γ))
    (hl : List.Pairwise (· < ·) (l.map (·.1))) (hr : List.Pairwise (· < ·) (r.map (·.1))) :
    List.Pairwise (· < ·) ((refMerge l r).map MergeElement.key) := by
  fun_induction refMerge l r with
  | case1 r => simpa [Function.comp_def, MergeElement.key] using hr
  | case2 l hne => simpa [Function.comp_def, MergeElement.key] using hl
  | case3 x l y r h1 ih =>
    have hl' := (pairwise_map_fst_cons x l).mp hl
    have hr' := (pairwise_map_fst_cons y r).mp hr
    rw [List.map_cons, List.pairwise_cons]
    refine ⟨?_, ih hl'.2 hr⟩
    intro k hk
    obtain ⟨e, he, rfl⟩ := List.mem_map.mp hk
    show x.1 < e.key
    rcases refMerge_key_mem _ _ e he with ⟨x', hx', e'⟩ | ⟨y', hy', e'⟩
    · have := hl'.1 x' hx'; omega
    · rcases List.mem_cons.mp hy' with rfl | hy''
      · omega
      · have := hr'.1 y' hy''; omega
  | case4 x l y r h1 h2 ih =>
    have hl' := (pairwise_map_fst_cons x l).mp hl
    have hr' := (pairwise_map_fst_cons y r).mp hr
    rw [List.map_cons, List.pairwise_cons]
    refine ⟨?_, ih hl hr'.2⟩
    intro k hk
    obtain ⟨e, he, rfl⟩ := List.mem_map.mp hk
    show y.1 < e.key
    rcases refMerge_key_mem _ _ e he with ⟨x', hx', e'⟩ | ⟨y', hy', e'⟩
    · rcases List.mem_cons.mp hx' with rfl | hx''
      · omega
      · have := hl'.1 x' hx''; omega
    · have := hr'.1 y' hy'; omega
  | case5 x l y r h1 h2 ih =>
    have hl' := (pairwise_map_fst_cons x l).mp hl
    have hr' := (pairwise_map_fst_cons y r).mp hr
    rw [List.map_cons, List.pairwise_cons]
    refine ⟨?_, ih hl'.2 hr'.2⟩
    intro k hk
    obtain ⟨e, he, rfl⟩ := List.mem_map.mp hk
    show x.1 < e.key
    rcases refMerge_key_mem _ _ e he with ⟨x', hx', e'⟩ | ⟨y', hy', e'⟩
    · have := hl'.1 x' hx'; omega
    · have := hr'.1 y' hy'; omega

theorem mergeDiffs_ascending (l : List (Int × β)) (r : List (Int × γ))
    (hl : List.Pairwise (· < ·) (l.map (·.1))) (hr : List.Pairwise (· < ·) (r.map (·.1))) :
    List.Pairwise (· < ·) ((mergeDiffs l r).map MergeElement.key) := by
  rw [mergeDiffs_eq_ref]; exact refMerge_ascending l r hl hr

/-! ### membership -/

theorem refMerge_mem (l : List (Int × β)) (r : List (Int × γ))
    (hl : List.Pairwise (· < ·) (l.map (·.1))) (hr : List.Pairwise (· < ·) (r.map (·.1)))
    (e : MergeElement (Int × β) (Int × γ)) :
    e ∈ refMerge l r ↔
      ((∃ x, e = .left x ∧ x ∈ l ∧ ∀ y ∈ r, y.1 ≠ x.1) ∨
       (∃ y, e = .right y ∧ y ∈ r ∧ ∀ x ∈ l, x.1 ≠ y.1) ∨
       (∃ x y, e = .both x y ∧ x ∈ l ∧ y ∈ r ∧ x.1 = y.1)) := by
  fun_induction refMerge l r with
  | case1 r => simp; grind
  | case2 l hne => simp; grind
  | case3 x l y r h1 ih =>
    have hl' := (pairwise_map_fst_cons x l).mp hl
    have hr' := (pairwise_map_fst_cons y r).mp hr
    rw [List.mem_cons, ih hl'.2 hr]
    grind
  | case4 x l y r h1 h2 ih =>
    have hl' := (pairwise_map_fst_cons x l).mp hl
    have hr' := (pairwise_map_fst_cons y r).mp hr
    rw [List.mem_cons, ih hl hr'.2]
    grind
  | case5 x l y r h1 h2 ih =>
    have hl' := (pairwise_map_fst_cons x l).mp hl
    have hr' := (pairwise_map_fst_cons y r).mp hr
    rw [List.mem_cons, ih hl'.2 hr'.2]
    grind

theorem mergeDiffs_mem (l : List (Int × β)) (r : List (Int × γ))
    (hl : List.Pairwise (· < ·) (l.map (·.1))) (hr : List.Pairwise (· < ·) (r.map (·.1)))
    (e : MergeElement (Int × β) (Int × γ)) :
    e ∈ mergeDiffs l r ↔
      ((∃ x, e = .left x ∧ x ∈ l ∧ ∀ y ∈ r, y.1 ≠ x.1) ∨
       (∃ y, e = .right y ∧ y ∈ r ∧ ∀ x ∈ l, x.1 ≠ y.1) ∨
       (∃ x y, e = .both x y ∧ x ∈ l ∧ y ∈ r ∧ x.1 = y.1)) := by
  rw [mergeDiffs_eq_ref]; exact refMerge_mem l r hl hr e

end

end IncrVerif.Proofs
