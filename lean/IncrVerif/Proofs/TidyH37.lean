import IncrVerif.Proofs.TidyH31
/-!
# T4, static actions other than `stabilise`: they RETURN and keep `QR.QInv` and `TInvR`
(port of Quiet26, Quiet27 and of the non-`stabilise` part of Quiet28's `step_total`)
-/
namespace IncrVerif.Proofs.TidyH.XT
open IncrVerif.Engine IncrVerif.Driver IncrVerif.Proofs IncrVerif.Proofs.Step IncrVerif.Proofs.Sched
open IncrVerif.Proofs.ExpertH IncrVerif.Proofs.ExpertH.QR

/-! ## actions whose indices exist (copy of Quiet20) -/

def OpndIn (s : State) : Opnd → Prop
  | .outer k => k < s.top.size
  | _ => False

def InstrIn (s : State) : Instr → Prop
  | .map _ args => ∀ a, a ∈ args → OpndIn s a
  | .fold _ _ cs => ∀ a, a ∈ cs → OpndIn s a
  | .zip a b => OpndIn s a ∧ OpndIn s b
  | _ => True

/-- the action names existing things and there is room for a new node (no clause for `stabilise`, `addDep` here) -/
def ActionOKs (N : Nat) (s : State) : Action → Prop
  | .create i => InstrIn s i ∧ s.nodes.size + 1 ≤ N
  | .observe n => OpndIn s n
  | .dropObs o | .disallow o => o < s.observers.size
  | .set v _ | .modify v _ | .update v _ | .replace v _ | .replaceWith v _ | .get v => v < s.vars.size
  | _ => True

/-- how many nodes / var cells / observers an action adds -/
def grow : Action → Nat × Nat × Nat
  | .create (.var _) => (1, 1, 0)
  | .create _ => (1, 0, 0)
  | .observe _ => (0, 0, 1)
  | _ => (0, 0, 0)

/-- the sizes after an action -/
def Grown (a : Action) (s s' : State) : Prop :=
  s'.nodes.size = s.nodes.size + (grow a).1 ∧ s'.vars.size = s.vars.size + (grow a).2.1 ∧
    s'.observers.size = s.observers.size + (grow a).2.2

namespace X4g

/-! ## `TInvR` under changes that keep the nodes -/

/-- `HBd` only reads, per node, necessity, height, and the kinds (through `dp`) and the number of nodes -/
theorem HBd_of_eq {s s' : State} {op : Nat → Op} (hb : HBd s op)
    (hnec : ∀ m, s'.isNecessary m = s.isNecessary m)
    (hh : ∀ m, (s'.nodeD m).height = (s.nodeD m).height)
    (hk : ∀ m, (s'.nodeD m).kind = (s.nodeD m).kind) (hsz : s'.nodes.size = s.nodes.size) : HBd s' op := by
  intro m hm ho
  rw [hnec] at hm
  rw [hh, dp_congr hk hsz]
  exact hb m hm ho

/-- `TInvR` reads the nodes, the var cells, `top`, the two heaps (their number of buckets) and the
observers waiting to be added -/
theorem TInvR_of_frame {N : Nat} {s s' : State} (T : TInvR N s) (hn : s'.nodes = s.nodes)
    (hv : s'.vars = s.vars) (ht : s'.top = s.top) (ha : s'.ahh = s.ahh) (hr : s'.rch = s.rch)
    (h1 : s'.newObservers.Nodup)
    (h2 : ∀ (o : Nat) (ob : ObsRec), o ∈ s'.newObservers → s'.observers[o]? = some ob →
      ob.state = .created ∨ ob.state = .unlinked) : TInvR N s' where
  hb := by
    have hD : ∀ m, s'.nodeD m = s.nodeD m := fun m => by simp only [State.nodeD, hn]
    refine HBd_of_eq T.hb (fun m => ?_) (fun m => by rw [hD]) (fun m => by rw [hD]) (by rw [hn])
    simp only [State.isNecessary, hD]
  room := ⟨by rw [ha]; exact T.room.ahh, by rw [hr]; exact T.room.rch, by rw [hn]; exact T.room.size⟩
  linked c vc h := by rw [hv] at h; exact T.linked c vc h
  topSize := by rw [ht, hn]; exact T.topSize
  newNodup := h1
  newState := h2

/-- modifying one observer record so that `created`/`unlinked` records stay so -/
theorem TInvR_modObs {N : Nat} {s s' : State} {o : Nat} {f : ObsRec → ObsRec} (T : TInvR N s)
    (hn : s'.nodes = s.nodes) (hv : s'.vars = s.vars) (ht : s'.top = s.top) (ha : s'.ahh = s.ahh)
    (hr : s'.rch = s.rch) (hnew : s'.newObservers = s.newObservers)
    (ho : s'.observers = s.observers.modify o f)
    (hf : ∀ ob, s.observers[o]? = some ob → (ob.state = .created ∨ ob.state = .unlinked) →
      ((f ob).state = .created ∨ (f ob).state = .unlinked)) : TInvR N s' := by
  refine TInvR_of_frame T hn hv ht ha hr (by rw [hnew]; exact T.newNodup) ?_
  intro o' ob hm h
  rw [hnew] at hm
  rw [ho, Array.getElem?_modify] at h
  split at h
  · rename_i e
    cases hob : s.observers[o']? with
    | none => rw [hob] at h; cases h
    | some x =>
      rw [hob] at h; cases h
      rw [← e] at hob
      exact hf x hob (T.newState o x (by rw [e]; exact hm) hob)
  · exact T.newState o' ob hm h

theorem Grown_same {a : Action} {s s' : State} (hg : grow a = (0, 0, 0)) (h1 : s'.nodes.size = s.nodes.size)
    (h2 : s'.vars.size = s.vars.size) (h3 : s'.observers.size = s.observers.size) : Grown a s s' := by
  unfold Grown; rw [hg]; exact ⟨h1, h2, h3⟩

/-! ## the observer actions -/

theorem observe_totalR {env : Env} {rk : Nat → Nat} {N : Nat} {s : State} {k : Nat} {tk : Array Nat}
    (Q : QInv env rk s) (T : TInvR N s) (hk : k < s.top.size) :
    Tot (stepAction env (.observe (.outer k)) tk) s
      (fun r s' => r.2 = tk ∧ TInvR N s' ∧ Grown (.observe (.outer k)) s s') := by
  simp only [stepAction, resolveOpnd]
  have h0 : s.top[k]? = some s.top[k] := Array.getElem?_eq_getElem hk
  refine Tot.bind_ok (a := s.top[k]) (s1 := s) (by rw [run_bind_get, h0]; rfl) ?_
  refine Tot.bind_get (Tot.bind_modify ?_)
  refine Tot.of_ok (by rw [run_bind_bumpCounter]; exact run_pure _ _) ⟨rfl, ?_, ?_⟩
  · refine TInvR_of_frame T rfl rfl rfl rfl rfl ?_ ?_
    · show (s.newObservers ++ [s.observers.size]).Nodup
      rw [List.nodup_append]
      refine ⟨T.newNodup, List.nodup_cons.2 ⟨List.not_mem_nil, List.nodup_nil⟩, ?_⟩
      intro a ha b hb
      rw [List.mem_singleton] at hb
      rw [hb]; intro e; rw [e] at ha
      obtain ⟨ob, hob⟩ := Q.obs.newIn _ ha
      simp at hob
    · intro o ob hm h
      have hm' : o ∈ s.newObservers ++ [s.observers.size] := hm
      have h' : (s.observers.push { node := s.top[k] })[o]? = some ob := h
      rw [Array.getElem?_push] at h'
      split at h'
      · cases h'; exact Or.inl rfl
      · rename_i ne
        rcases List.mem_append.1 hm' with hm1 | hm1
        · exact T.newState o ob hm1 h'
        · rw [List.mem_singleton] at hm1; exact absurd hm1 ne
  · refine ⟨rfl, rfl, ?_⟩
    show (s.observers.push _).size = _
    rw [Array.size_push]; rfl

theorem cloneObs_totalR {N : Nat} {env : Env} {s : State} {o : Nat} {tk : Array Nat} (T : TInvR N s) :
    Tot (stepAction env (.cloneObs o) tk) s
      (fun r s' => r.2 = tk ∧ TInvR N s' ∧ Grown (.cloneObs o) s s') := by
  simp only [stepAction]
  refine Tot.bind_ok (run_modObs _ _ s) (Tot.pure ⟨rfl, ?_, ?_⟩)
  · exact TInvR_modObs T (o := o) (f := fun x => { x with clones := x.clones + 1 }) rfl rfl rfl rfl rfl rfl rfl
      (fun ob _ h => h)
  · exact Grown_same rfl rfl rfl (Array.size_modify ..)

theorem disallowFutureUse_totalR {N : Nat} {s : State} {o : Nat} (T : TInvR N s) (ho : o < s.observers.size) :
    Tot (disallowFutureUse o) s (fun _ s' => TInvR N s' ∧ s'.nodes.size = s.nodes.size ∧
      s'.vars.size = s.vars.size ∧ s'.observers.size = s.observers.size) := by
  unfold disallowFutureUse
  have h0 : s.observers[o]? = some s.observers[o] := Array.getElem?_eq_getElem ho
  refine Tot.bind_ok (a := s.observers[o]) (s1 := s) (by rw [run_getObs, h0]) ?_
  cases hst : s.observers[o].state with
  | disallowed => exact Tot.pure ⟨T, rfl, rfl, rfl⟩
  | unlinked => exact Tot.pure ⟨T, rfl, rfl, rfl⟩
  | created =>
    dsimp only
    refine Tot.bind_ok (run_bumpCounter _ _) (Tot.of_ok (run_modObs _ _ _) ⟨?_, rfl, rfl, ?_⟩)
    · exact TInvR_modObs T (o := o) (f := fun x => { x with state := .unlinked, handlers := [] })
        rfl rfl rfl rfl rfl rfl rfl (fun ob _ _ => Or.inr rfl)
    · exact Array.size_modify ..
  | inUse =>
    dsimp only
    refine Tot.bind_ok (run_bumpCounter _ _) (Tot.bind_ok (run_modObs _ _ _)
      (Tot.of_ok (run_modify _ _) ⟨?_, rfl, rfl, ?_⟩))
    · refine TInvR_modObs T (o := o) (f := fun x => { x with state := .disallowed }) rfl rfl rfl rfl rfl rfl rfl ?_
      intro ob hob h
      rw [h0] at hob; cases hob
      rw [hst] at h; rcases h with h | h <;> cases h
    · exact Array.size_modify ..

theorem dropObs_totalR {N : Nat} {env : Env} {s : State} {o : Nat} {tk : Array Nat} (T : TInvR N s)
    (ho : o < s.observers.size) :
    Tot (stepAction env (.dropObs o) tk) s
      (fun r s' => r.2 = tk ∧ TInvR N s' ∧ Grown (.dropObs o) s s') := by
  simp only [stepAction]
  have h0 : s.observers[o]? = some s.observers[o] := Array.getElem?_eq_getElem ho
  refine Tot.bind_ok (a := s.observers[o]) (s1 := s) (by rw [run_getObs, h0]) ?_
  split
  · exact Tot.pure ⟨rfl, T, Grown_same rfl rfl rfl rfl⟩
  · refine Tot.bind_ok (run_modObs _ _ s) ?_
    have T1 : TInvR N { s with observers := s.observers.modify o fun x => { x with clones := x.clones - 1 } } :=
      TInvR_modObs T (o := o) (f := fun x => { x with clones := x.clones - 1 }) rfl rfl rfl rfl rfl rfl rfl
        (fun ob _ h => h)
    have hsz : (s.observers.modify o fun x => { x with clones := x.clones - 1 }).size = s.observers.size :=
      Array.size_modify ..
    split
    · refine Tot.bind (disallowFutureUse_totalR T1 (by rw [hsz]; exact ho)) ?_
      rintro u s1 - ⟨T2, e1, e2, e3⟩
      exact Tot.pure ⟨rfl, T2, Grown_same rfl e1 e2 (e3.trans hsz)⟩
    · exact Tot.pure ⟨rfl, T1, Grown_same rfl rfl rfl hsz⟩

theorem disallow_totalR {N : Nat} {env : Env} {s : State} {o : Nat} {tk : Array Nat} (T : TInvR N s)
    (ho : o < s.observers.size) :
    Tot (stepAction env (.disallow o) tk) s
      (fun r s' => r.2 = tk ∧ TInvR N s' ∧ Grown (.disallow o) s s') := by
  simp only [stepAction]
  refine Tot.bind (disallowFutureUse_totalR T ho) ?_
  rintro u s1 - ⟨T2, e1, e2, e3⟩
  exact Tot.pure ⟨rfl, T2, Grown_same rfl e1 e2 e3⟩

/-! ## the writes -/

theorem wroteOutside_sizes (v : Nat) (vc : VarCell) (x : Val) (s : State) :
    (wroteOutside v vc x s).vars.size = s.vars.size ∧
      (wroteOutside v vc x s).rch.queues.size = s.rch.queues.size := by
  unfold wroteOutside
  split
  · simp [bumped, withCell]
  · split
    · simp [inserted, stampedWrite, bumped, withCell]
    · simp [stampedWrite, bumped, withCell]

/-- `TInvR` across the abstract description of an immediate write -/
theorem TInvR_of_wrel {N : Nat} {s s' : State} {v : Nat} {vc : VarCell} {x : Val} (T : TInvR N s)
    (R : WRel v vc x s s') (hl : vc.linked = true) (ha : s'.ahh = s.ahh)
    (hq : s'.rch.queues.size = s.rch.queues.size) : TInvR N s' := by
  refine ⟨HBd_of_eq T.hb R.nec R.height R.kind R.size, ⟨?_, ?_, ?_⟩, fun c vc' h => ?_, ?_, ?_, ?_⟩
  · rw [ha]; exact T.room.ahh
  · rw [← T.room.rch]; simp only [Heap.maxAllowed, hq]
  · rw [R.size]; exact T.room.size
  · by_cases hc : c = v
    · rw [hc, R.var] at h; cases h; exact hl
    · rw [R.other c hc] at h; exact T.linked c vc' h
  · rw [R.top, R.size]; exact T.topSize
  · rw [R.newObservers]; exact T.newNodup
  · intro o ob hm h
    rw [R.newObservers] at hm; rw [R.observers] at h
    exact T.newState o ob hm h

/-- a write outside `stabilise` returns -/
theorem writeVar_totalR {env : Env} {rk : Nat → Nat} {N : Nat} {s : State} {v : Nat} {f : Val → Val} {isSet : Bool}
    (Q : QInv env rk s) (T : TInvR N s) (hv : v < s.vars.size) :
    Tot (writeVar v f isSet) s (fun _ s' => TInvR N s' ∧ s'.nodes.size = s.nodes.size ∧
      s'.vars.size = s.vars.size ∧ s'.observers.size = s.observers.size) := by
  have hv0 : s.vars[v]? = some s.vars[v] := Array.getElem?_eq_getElem hv
  generalize s.vars[v] = vc at hv0
  have hst : s.status ≠ .stabilising := by rw [Q.status]; intro e; cases e
  have I : GInv env rk s allClosed := Q.struct
  have hsz : vc.node < s.nodes.size := (Q.vars.cell v vc hv0).1
  have hkn : (s.nodeD vc.node).kind = .var v := (Q.vars.cell v vc hv0).2
  have hl : vc.linked = true := T.linked v vc hv0
  have hval : (s.nodeD vc.node).valid = true := (I.node hsz).valid
  have hok : ((writeVar v f isSet).run.run s).1 = .ok vc.value := by
    rw [writeVar_outside_result v f isSet s vc hv0 hst, if_neg (by rw [hl]; intro e; cases e)]
    split
    · rfl
    rename_i h2
    have hstale : (stampedWrite v vc (f vc.value) s).isStale vc.node = true := by
      have hn : (stampedWrite v vc (f vc.value) s).nodes[vc.node]? = some (s.nodeD vc.node) := by
        show s.nodes[vc.node]? = _
        rw [State.nodeD, Array.getElem?_eq_getElem hsz]; rfl
      have hc : (stampedWrite v vc (f vc.value) s).vars[v]? =
          some { vc with value := f vc.value, setAt := s.stabNum } := withCell_get v _ vc s hv0
      rw [isStale_var _ _ v _ _ hn hkn hc, hval]
      have := (Q.stamps vc.node).1
      simpa using this
    rw [if_neg (by rw [hval, hstale]; rintro ⟨-, h⟩; cases h)]
    split
    · rfl
    rename_i h4
    have h4' : (s.nodeD vc.node).valid = true ∧ s.isNecessary vc.node = true ∧
        (s.nodeD vc.node).inRch = false := by simpa using h4
    have hnec : s.isNecessary vc.node = true := h4'.2.1
    have h0 := I.hpos _ hnec rfl
    have hle := T.hb _ hnec rfl
    have hdp := dp_room I.static T.room hsz
    have hmax := T.room.rch
    have hN := T.room.size
    rw [if_neg (by rintro ⟨-, h⟩; omega), if_neg (by omega), if_neg (by omega)]
  have hrun : (writeVar v f isSet).run.run s = (.ok vc.value, ((writeVar v f isSet).run.run s).2) := by
    rw [← hok]; exact Prod.ext rfl rfl
  obtain ⟨-, hs', -, -, hh⟩ := writeVar_outside_ok v f isSet s _ vc _ hv0 hst hrun
  obtain ⟨R, -⟩ := wroteOutside_q (f vc.value) Q hv0 hh
  have hF := wroteOutside_frame v vc (f vc.value) s
  have hS := wroteOutside_sizes v vc (f vc.value) s
  rw [← hs'] at R hF hS
  exact Tot.of_ok hrun ⟨TInvR_of_wrel T R hl hF.2.2.2.2.1 hS.2, R.size, hS.1, by rw [R.observers]⟩

theorem discard_totalR {α} {x : M α} {s : State} {P : State → Prop} (h : Tot x s (fun _ s' => P s')) :
    Tot (discard x) s (fun _ s' => P s') := by
  have e : discard x = x >>= fun _ => pure () := by
    rw [Functor.discard, map_const, Function.comp_apply, map_eq_pure_bind]
  rw [e]
  exact Tot.bind h (fun a s1 _ hp => Tot.pure hp)

theorem getVar_run {s : State} {v : Nat} (hv : v < s.vars.size) :
    (getVar v).run.run s = (.ok s.vars[v], s) := by
  rw [run_getVar, Array.getElem?_eq_getElem hv]

/-! ## creation -/

theorem map_run_ok {α β} {f : α → β} {x : M α} {s s1 : State} {a : α}
    (h : x.run.run s = (.ok a, s1)) : (f <$> x).run.run s = (.ok (f a), s1) := by
  rw [map_eq_pure_bind, run_bind_ok h, run_pure]

/-- a top-level handle that exists resolves -/
theorem resolveOpnd_run {s : State} {o : Opnd} (ho : OpndIn s o) :
    ∃ n, (resolveOpnd [] o).run.run s = (.ok n, s) := by
  cases o with
  | outer k =>
    have hk : k < s.top.size := ho
    refine ⟨s.top[k], ?_⟩
    unfold resolveOpnd
    simp only
    rw [run_bind_get, Array.getElem?_eq_getElem hk]
    rfl
  | _ => exact ho.elim

theorem mapM_resolve_run {s : State} :
    ∀ (l : List Opnd), (∀ a, a ∈ l → OpndIn s a) →
      ∃ r, (l.mapM (fun o => resolveOpnd [] o)).run.run s = (.ok r, s) := by
  intro l
  induction l with
  | nil => intro _; exact ⟨[], by rw [List.mapM_nil, run_pure]⟩
  | cons a l ih =>
    intro hl
    obtain ⟨n, hn⟩ := resolveOpnd_run (hl a (List.mem_cons_self ..))
    obtain ⟨r, hr⟩ := ih (fun x hx => hl x (List.mem_cons_of_mem _ hx))
    exact ⟨n :: r, by rw [List.mapM_cons, run_bind_ok hn, run_bind_ok hr, run_pure]⟩

theorem isConstant_run {s : State} {a : Nat} (ha : a < s.nodes.size) :
    ∃ r, (isConstant a).run.run s = (.ok r, s) := by
  unfold isConstant
  rw [run_bind_ok (run_getNode_some (some_of_lt ha))]
  split
  · exact ⟨_, run_pure _ _⟩
  · exact ⟨_, run_pure _ _⟩

/-- the elaboration of a static instruction whose operands exist returns -/
theorem elab_retR {env : Env} {rk : Nat → Nat} {s : State} {i : Instr} (Q : QInv env rk s) (hi : StaticInstr env i)
    (hin : InstrIn s i) :
    ∃ ro s1, (elabInstrM env [] .unit i).run.run s = (.ok ro, s1) ∧ s1.ahh = s.ahh ∧
      s1.vars.size = s.vars.size + (grow (.create i)).2.1 := by
  have hsc := Q.struct.static.scope
  cases i with
  | const v =>
    unfold elabInstrM
    simp only
    unfold elabInstr
    rw [run_bind_get]
    simp only [hsc]
    exact ⟨_, _, map_run_ok (createNode_top_run _ s), rfl, rfl⟩
  | var v =>
    unfold elabInstrM
    simp only
    unfold elabInstr
    rw [run_bind_get]
    simp only
    exact ⟨_, _, map_run_ok (createVar_top_run _ s), rfl, by simp only [Array.size_push]; rfl⟩
  | map f args =>
    unfold elabInstrM
    simp only
    unfold elabInstr
    rw [run_bind_get]
    simp only [hsc]
    obtain ⟨r, hr⟩ := mapM_resolve_run args hin
    rw [run_bind_ok hr]
    exact ⟨_, _, map_run_ok (createNode_top_run _ s), rfl, rfl⟩
  | fold f init cs =>
    unfold elabInstrM
    simp only
    unfold elabInstr
    rw [run_bind_get]
    simp only [hsc]
    obtain ⟨r, hr⟩ := mapM_resolve_run cs hin
    rw [run_bind_ok hr]
    split
    · exact ⟨_, _, map_run_ok (createNode_top_run _ s), rfl, rfl⟩
    · exact ⟨_, _, map_run_ok (createNode_top_run _ s), rfl, rfl⟩
  | zip a b =>
    unfold elabInstrM
    simp only
    unfold elabInstr
    rw [run_bind_get]
    simp only [hsc]
    obtain ⟨na, hna⟩ := resolveOpnd_run hin.1
    obtain ⟨nb, hnb⟩ := resolveOpnd_run hin.2
    obtain ⟨-, ka, hka⟩ := resolveOpnd_outer_inv hi.1 hna
    obtain ⟨-, kb, hkb⟩ := resolveOpnd_outer_inv hi.2 hnb
    obtain ⟨ca, hca⟩ := isConstant_run (Q.top ka na hka)
    obtain ⟨cb, hcb⟩ := isConstant_run (Q.top kb nb hkb)
    rw [run_bind_ok hna, run_bind_ok hnb, run_bind_ok hca, run_bind_ok hcb]
    split
    · exact ⟨_, _, map_run_ok (createNode_top_run _ s), rfl, rfl⟩
    · exact ⟨_, _, map_run_ok (createNode_top_run _ s), rfl, rfl⟩
  | _ => exact hi.elim

/-- creating a node does not decrease the depth of any node -/
theorem dp_created {k : Kind} {s s1 : State} {tp : Array Nat} (C : Created k s s1 tp) (m : Nat) :
    dp s m ≤ dp s1 m := by
  refine dp_mono (fun x c hc => ?_) (by rw [C.size]; omega) m
  by_cases hx : x = s.nodes.size
  · rw [hx, kids_nil_of_ge s (Nat.le_refl _)] at hc; cases hc
  · rw [C.nodeD_old hx]; exact hc

/-- `HBd` through the creation of a node (the new node is unnecessary) -/
theorem HBd_created {k : Kind} {s s1 : State} {tp : Array Nat} {op : Nat → Op} (C : Created k s s1 tp)
    (hb : HBd s op) : HBd s1 op := by
  intro m hn ho
  have e := C.ne_of_nec hn
  rw [C.nec_old e] at hn
  rw [C.nodeD_old e]
  have h1 := hb m hn ho
  have h2 := dp_created C m
  omega

end X4g

/-- **`TInvR` through the abstract creation of a node** (`QR.Created`, what `Created.qinv` uses): the new node is
unnecessary, no depth decreases, a new var cell is linked.  `Created` says nothing about the adjust-heights heap
nor about the size of the naming table, hence the last two hypotheses. -/
theorem TInvR.created {N : Nat} {k : Kind} {s s' : State} {tp : Array Nat} (C : Created k s s' tp)
    (T : TInvR N s) (hroom : s.nodes.size + 1 ≤ N) (hahh : s'.ahh = s.ahh)
    (htop : tp.size = s.top.size + 1) : TInvR N s' := by
  refine ⟨X4g.HBd_created C T.hb, ⟨?_, ?_, ?_⟩, ?_, ?_, ?_, ?_⟩
  · rw [hahh]; exact T.room.ahh
  · rw [C.rch]; exact T.room.rch
  · rw [C.size]; exact hroom
  · intro c vc h
    rcases C.vars with ⟨-, e⟩ | ⟨v, -, ev⟩
    · rw [e] at h; exact T.linked c vc h
    · rw [ev, Array.getElem?_push] at h
      split at h
      · injection h with h
        rw [← h]
      · exact T.linked c vc h
  · rw [C.top, htop, C.size, T.topSize]
  · rw [C.newObservers]; exact T.newNodup
  · intro o ob h1 h2
    rw [C.newObservers] at h1
    rw [C.observers] at h2
    exact T.newState o ob h1 h2

namespace X4g

theorem create_totalR {env : Env} {rk : Nat → Nat} {N : Nat} {s : State} {i : Instr} {tk : Array Nat}
    (Q : QInv env rk s) (T : TInvR N s) (hi : StaticInstr env i) (hok : ActionOKs N s (.create i)) :
    Tot (stepAction env (.create i) tk) s (fun r s' => r.2 = tk ∧ TInvR N s' ∧ Grown (.create i) s s') := by
  obtain ⟨hin, hroom⟩ := hok
  obtain ⟨ro, s1, hrun, hahh, hvs⟩ := elab_retR Q hi hin
  obtain ⟨k, ero, hk, hkids, C⟩ := elab_static Q hi hrun
  unfold stepAction
  simp only
  refine Tot.bind_ok hrun ?_
  rw [ero]
  simp only
  refine Tot.bind_modify (Tot.pure ⟨rfl, ?_, ?_⟩)
  · refine TInvR.created (k := k) (tp := s.top.push s.nodes.size) ?_ T hroom hahh (Array.size_push ..)
    exact ⟨C.nodes, C.vars, C.rch, C.pc, C.scope, C.stabNum, C.status, C.alive, C.setDuringStab, C.deadVars,
      C.handleAfterStab, C.pinv, C.observers, C.newObservers, C.disallowedObservers,
      by show s1.top.push _ = _; rw [C.top]⟩
  · refine ⟨?_, ?_, ?_⟩
    · show s1.nodes.size = _
      rw [C.size]
      cases i <;> first | rfl | exact hi.elim
    · exact hvs
    · show s1.observers.size = _
      rw [C.observers]
      cases i <;> first | rfl | exact hi.elim

/-! ## all of them -/

/-- the actions of the fragment other than `create` and `stabilise` -/
def SimpleAction : Action → Prop
  | .observe n => OpndOK n
  | .cloneObs _ | .dropObs _ | .disallow _ => True
  | .set _ _ | .modify _ _ | .update _ _ | .replace _ _ | .replaceWith _ _ | .get _ => True
  | .isStable | .stats => True
  | _ => False

theorem simple_totalR {env : Env} {rk : Nat → Nat} {N : Nat} {s : State} {a : Action} {tk : Array Nat}
    (Q : QInv env rk s) (T : TInvR N s) (ha : SimpleAction a) (hok : ActionOKs N s a) :
    Tot (stepAction env a tk) s (fun r s' => r.2 = tk ∧ TInvR N s' ∧ Grown a s s') := by
  cases a <;> try exact ha.elim
  case observe n =>
    cases n <;> try exact ha.elim
    exact observe_totalR Q T hok
  case cloneObs o => exact cloneObs_totalR T
  case dropObs o => exact dropObs_totalR T hok
  case disallow o => exact disallow_totalR T hok
  case set v x =>
    unfold stepAction
    dsimp only
    refine Tot.bind (discard_totalR (writeVar_totalR Q T hok)) ?_
    rintro u s1 - ⟨T1, e1, e2, e3⟩
    exact Tot.pure ⟨rfl, T1, Grown_same rfl e1 e2 e3⟩
  case modify v d =>
    unfold stepAction
    dsimp only
    refine Tot.bind (discard_totalR (writeVar_totalR Q T hok)) ?_
    rintro u s1 - ⟨T1, e1, e2, e3⟩
    exact Tot.pure ⟨rfl, T1, Grown_same rfl e1 e2 e3⟩
  case update v d =>
    unfold stepAction
    dsimp only
    refine Tot.bind (discard_totalR (writeVar_totalR Q T hok)) ?_
    rintro u s1 - ⟨T1, e1, e2, e3⟩
    exact Tot.pure ⟨rfl, T1, Grown_same rfl e1 e2 e3⟩
  case replace v x =>
    unfold stepAction
    dsimp only
    refine Tot.bind (writeVar_totalR Q T hok) ?_
    rintro u s1 - ⟨T1, e1, e2, e3⟩
    exact Tot.pure ⟨rfl, T1, Grown_same rfl e1 e2 e3⟩
  case replaceWith v d =>
    unfold stepAction
    dsimp only
    refine Tot.bind (writeVar_totalR Q T hok) ?_
    rintro u s1 - ⟨T1, e1, e2, e3⟩
    exact Tot.pure ⟨rfl, T1, Grown_same rfl e1 e2 e3⟩
  case get v =>
    unfold stepAction
    dsimp only
    exact Tot.bind_ok (getVar_run hok) (Tot.pure ⟨rfl, T, Grown_same rfl rfl rfl rfl⟩)
  case isStable =>
    unfold stepAction
    dsimp only
    exact Tot.bind_get (Tot.pure ⟨rfl, T, Grown_same rfl rfl rfl rfl⟩)
  case stats =>
    unfold stepAction
    dsimp only
    exact Tot.pure ⟨rfl, T, Grown_same rfl rfl rfl rfl⟩

end X4g
open X4g

/-- **G3, total, without `stabilise`.** Every static API action other than `stabilise` whose indices exist
returns; the invariants are kept (same rank). -/
theorem static_step_totalR {env : Env} {rk : Nat → Nat} {N : Nat} {s : State} {a : Action} {tk : Array Nat}
    (Q : QInv env rk s) (T : TInvR N s) (ha : StaticAction env a) (hns : a ≠ .stabilise) (hok : ActionOKs N s a) :
    ∃ r s', (stepAction env a tk).run.run s = (.ok r, s') ∧ r.2 = tk ∧ QInv env rk s' ∧ TInvR N s' ∧ Grown a s s' := by
  have simple : SimpleAction a → ∃ r s', (stepAction env a tk).run.run s = (.ok r, s') ∧ r.2 = tk ∧
      QInv env rk s' ∧ TInvR N s' ∧ Grown a s s' := by
    intro hs
    obtain ⟨r, s', h, h1, h2, h3⟩ := simple_totalR (env := env) (tk := tk) Q T hs hok
    exact ⟨r, s', h, h1, step_q Q ha h, h2, h3⟩
  cases a <;> try exact ha.elim
  case create i =>
    obtain ⟨r, s', h, h1, h2, h3⟩ := create_totalR (tk := tk) Q T ha hok
    exact ⟨r, s', h, h1, step_q Q ha h, h2, h3⟩
  case observe n => exact simple ha
  case cloneObs o => exact simple trivial
  case dropObs o => exact simple trivial
  case disallow o => exact simple trivial
  case set v x => exact simple trivial
  case modify v d => exact simple trivial
  case update v d => exact simple trivial
  case replace v x => exact simple trivial
  case replaceWith v d => exact simple trivial
  case get v => exact simple trivial
  case isStable => exact simple trivial
  case stats => exact simple trivial
  case stabilise => exact absurd rfl hns

end IncrVerif.Proofs.TidyH.XT
