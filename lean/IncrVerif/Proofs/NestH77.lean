import IncrVerif.Proofs.NestH76
import IncrVerif.Proofs.NestH11
/-!
# Nested binds (F2), total correctness of the linking cascade, part 1: definitions, forward helpers, `addParentWithoutAdjustingHeights`

Port of `Quiet21` (static fragment, `Quiet.GInv`, index order, `Quiet.HBo`) to `GInv2 env rk` (ghost rank `rk`, position `cnt rk N n`).

* `TL.HBo2 rk s op`: closed necessary nodes have height `≤ position + 1` (a top-level node starts at height `0 + 1`, so the bound `≤ position` of
  `T2a.HBo2` is off by one).
* NEW relative to the static case — `"node:became_necessary:bind-not-necessary"`: `becameNecessary n` of a node created in scope `.bind b` reads
  `binds[b].main` and panics when it is unnecessary.  Both statements carry the hypothesis that the main node of the scope (of `n`, resp. of the PARENT
  `p`) is necessary.  It propagates down the cascade: a child `c` of scope `b` of the necessary open node `p` — `p` is a node of scope `b` (hypothesis), or
  `p` IS the main node of `b` (`GInv2.parent_of_scope`).  `TL.scope_main_nec` derives the hypothesis from `GInv2`.
-/
namespace IncrVerif.Proofs.NestH
open IncrVerif.Engine IncrVerif.Proofs IncrVerif.Proofs.Step IncrVerif.Proofs.Sched IncrVerif.Proofs.Quiet
open IncrVerif.Proofs.BindH

namespace TL
open BL CL NL

/-- transport: every closed necessary node of the new state was closed, necessary, and had the same height -/
theorem HBo2_transport {rk : Nat → Nat} {s s' : State} {op op' : Nat → Op} (hb : HBo2 rk s op)
    (hsz : s'.nodes.size = s.nodes.size)
    (h : ∀ m, s'.isNecessary m = true → op' m = .closed →
      s.isNecessary m = true ∧ op m = .closed ∧ (s'.nodeD m).height = (s.nodeD m).height) : HBo2 rk s' op' := by
  intro m hm ho
  obtain ⟨h1, h2, h3⟩ := h m hm ho
  rw [h3, hsz]
  exact hb m h1 h2

/-! ## forward helpers -/

/-- the tail `match kind? with | some (.expert e) => … | _ => pure ()` of both cascade functions does nothing
for a node of the bind fragment -/
theorem tail_tot2 {env : Env} {p : Nat} {t : State} {Q : Unit → State → Prop} (g : Nat → M Unit)
    (hp : p < t.nodes.size) (hv : (t.nodeD p).valid = true) (hk : BKind env (t.nodeD p).kind)
    (hq : Q () t) :
    Tot (do let x ← getNode p
            match x.kind? with
            | some (.expert e) => g e
            | _ => pure ()) t Q := by
  refine Tot.bind_getNode hp ?_
  have hq' : (t.nodeD p).kind? = some (t.nodeD p).kind := by rw [Node.kind?, hv]; rfl
  rw [hq']
  cases hkd : (t.nodeD p).kind <;> rw [hkd] at hk <;> first | exact Tot.pure hq | exact False.elim hk

/-- `markMapRefUnknown` does nothing on a node of the bind fragment (forward form) -/
theorem markMapRefUnknown_B_run {env : Env} {fuel n : Nat} {s : State} (hf : 0 < fuel)
    (hn : n < s.nodes.size) (hv : (s.nodeD n).valid = true) (hk : BKind env (s.nodeD n).kind) :
    (markMapRefUnknown fuel n).run.run s = (.ok (), s) := by
  cases fuel with
  | zero => omega
  | succ fuel =>
    unfold markMapRefUnknown
    rw [run_bind_ok (run_getNode_some (some_of_lt hn))]
    have hq : (s.nodeD n).kind? = some (s.nodeD n).kind := by rw [Node.kind?, hv]; rfl
    rw [hq]
    cases hkd : (s.nodeD n).kind <;> rw [hkd] at hk <;> first | rfl | exact False.elim hk

/-- `scopeIsNecessary (.bind b)` reads the necessity of the bind's main node -/
theorem scopeIsNecessary_bind_run {s : State} {b : Nat} {br : BindRec} (hb : s.binds[b]? = some br)
    (hm : br.main < s.nodes.size) :
    (scopeIsNecessary (.bind b)).run.run s = (.ok (s.isNecessary br.main), s) := by
  simp only [scopeIsNecessary, getBind, run_bind, run_get, hb, run_pure, run_getNode, some_of_lt hm]
  rfl

/-- `scopeHeight (.bind b)` reads the height of the bind's change detector -/
theorem scopeHeight_bind_run {s : State} {b : Nat} {br : BindRec} (hb : s.binds[b]? = some br)
    (hl : br.lhsChange < s.nodes.size) :
    (scopeHeight (.bind b)).run.run s = (.ok (s.nodeD br.lhsChange).height, s) := by
  rw [scopeHeight_run]
  simp only [scopeHeightOf, hb, some_of_lt hl]

section
variable {env : Env} {rk : Nat → Nat} {s : State} {op : Nat → Op} {ex : Nat → Prop} {dy : List Nat}

/-- a wanted edge: the parent is necessary (when no node is unlinking) -/
theorem nec_of_wants (I : GInv2 env rk s op ex dy) (hnu : ∀ m k, op m ≠ .unlinking k) {p i : Nat}
    (hw : Wants s op p i) : s.isNecessary p = true := by
  unfold Wants at hw
  cases hop : op p with
  | closed => rw [hop] at hw; exact hw
  | linking k => exact I.lnec p k hop
  | unlinking k => exact absurd hop (hnu p k)

/-- **a necessary node of a scope: the scope's main node is necessary**, provided the scope's change detector is not forced
(only old right-hand sides are ever forced).  This is the hypothesis `hmain` of the total-correctness statements. -/
theorem scope_main_nec (I : GInv2 env rk s op ex dy) (hnu : ∀ m k, op m ≠ .unlinking k) (hF : HF s op)
    {n b : Nat} {br : BindRec} (hsc : (s.nodeD n).createdIn = .bind b) (hb : s.binds[b]? = some br)
    (hlcf : (s.nodeD br.lhsChange).forceNecessary = false)
    (hnec : s.isNecessary n = true) : s.isNecessary br.main = true := by
  by_cases hw : Wants s op br.main 1
  · exact nec_of_wants I hnu hw
  · -- the change detector is necessary, and only the main node can be its parent
    have hlc : s.isNecessary br.lhsChange = true := GInv2.scope_lc_nec I hnu hF hsc hb hnec
    obtain ⟨-, -, h3, -, -⟩ := I.frag.recs b br hb
    rw [isNecessary_iff] at hlc
    rcases hlc with h | h | h
    · obtain ⟨⟨p, i⟩, hx⟩ := List.exists_mem_of_ne_nil _ h
      obtain ⟨hk, hwp⟩ := I.par _ p i hx
      have hpl := children_lt_size hk
      have hkp := (I.frag.node p hpl).lcChild _ b (List.mem_of_getElem? hk) h3
      obtain ⟨br', hb', hm', -⟩ := (I.frag.node p hpl).mainRec b _ hkp
      rw [hb] at hb'; cases hb'
      rw [hm']
      exact nec_of_wants I hnu hwp
    · exact absurd (I.lcObs _ b h3) h
    · rw [hlcf] at h; cases h

/-- the main node of the scope of a child of a necessary open node is necessary -/
theorem child_main_nec (I : GInv2 env rk s op ex dy) {p c idx : Nat} (hk : (s.children p)[idx]? = some c)
    (hpn : s.isNecessary p = true)
    (hmainP : ∀ b br, (s.nodeD p).createdIn = .bind b → s.binds[b]? = some br → s.isNecessary br.main = true) :
    ∀ b br, (s.nodeD c).createdIn = .bind b → s.binds[b]? = some br → s.isNecessary br.main = true := by
  intro b br hsc hb
  have hpl := children_lt_size hk
  rcases I.parent_of_scope (List.mem_of_getElem? hk) hsc with ⟨hpsc, -⟩ | ⟨lc, hkp⟩
  · exact hmainP b br hpsc hb
  · obtain ⟨br', hb', hm', -⟩ := (I.frag.node p hpl).mainRec b lc hkp
    rw [hb] at hb'; cases hb'
    rw [hm']; exact hpn

end

/-! ## the two statements -/

def BNTot2 (env : Env) (N fuel : Nat) : Prop :=
  ∀ (rk : Nat → Nat) n s op (ex : Nat → Prop) (dy : List Nat),
    GInv2 env rk s op ex dy → HBo2 rk s op → Room N s →
    op n = .linking 0 → (s.nodeD n).inRch = false → (∀ m, op m ≠ .closed → rk n ≤ rk m) →
    (∀ p i, (p, i) ∈ (s.nodeD n).parents → op p ≠ .closed) →
    (∀ m k, op m ≠ .unlinking k) → HF s op →
    (∀ (b : Nat) (br : BindRec), s.binds[b]? = some br → br.lhsChange = n → ¬ Wants s op br.main 1) →
    (∀ (b : Nat) (br : BindRec), (s.nodeD n).createdIn = .bind b → s.binds[b]? = some br → s.isNecessary br.main = true) →
    2 * cnt rk s.nodes.size n + 2 ≤ fuel →
    Tot (becameNecessary env fuel n) s (fun _ s' => HBo2 rk s' (upd op n .closed))

def APTot2 (env : Env) (N fuel : Nat) : Prop :=
  ∀ (rk : Nat → Nat) c idx p s op (ex : Nat → Prop) (dy : List Nat),
    GInv2 env rk s op ex dy → HBo2 rk s op → Room N s →
    op p = .linking idx → (s.children p)[idx]? = some c → (∀ m, op m ≠ .closed → rk c < rk m) →
    (∀ m k, op m ≠ .unlinking k) → HF s op →
    (∀ (b : Nat) (br : BindRec), (s.nodeD p).createdIn = .bind b → s.binds[b]? = some br → s.isNecessary br.main = true) →
    2 * cnt rk s.nodes.size c + 3 ≤ fuel →
    Tot (addParentWithoutAdjustingHeights env fuel c idx p) s
      (fun _ s' => HBo2 rk s' (upd op p (.linking (idx + 1))))

theorem ap_tot2 (env : Env) (N fuel : Nat) (ih : BNTot2 env N fuel) : APTot2 env N (fuel + 1) := by
  intro rk c idx p s op ex dy I hb R hop hk hlow hnu hF hmainP hf
  have hopp : op p ≠ .closed := by rw [hop]; exact Op.linking_ne_closed _
  have hp : p < s.nodes.size := I.opLt p hopp
  have hc : c < s.nodes.size := GInv2.kid_in I hk
  have hne : c ≠ p := GInv2.kid_ne I hk
  have hcv : (s.nodeD c).valid = true := GInv2.kid_valid I hk
  have hpv : (s.nodeD p).valid = true := GInv2.valid_of_open I hopp
  have hpn : s.isNecessary p = true := I.lnec p idx hop
  have hcl : op c = .closed := by
    cases e : op c with
    | closed => rfl
    | linking k => have := hlow c (by rw [e]; exact fun e => by cases e); omega
    | unlinking k => have := hlow c (by rw [e]; exact fun e => by cases e); omega
  unfold addParentWithoutAdjustingHeights
  refine Tot.bind_get (Tot.bind_dassert (fun _ => hpn) ?_)
  refine Tot.bind_get ?_
  dsimp only
  unfold addParent
  refine P21.tot_bind_modNode' (fun s1 hs1 => ?_)
  have U : NodeUpd c (fParents ((s.nodeD c).parents ++ [(p, idx)])) s s1 := by
    rw [hs1]; exact NodeUpd.modify' hc rfl
  have hb1 : s1.binds = s.binds := by rw [hs1]
  have hl1 : LRel (fun _ => False) s s1 := by
    rw [hs1]
    refine ⟨CFrame.modNode s c _ (fun _ => rfl), rfl, fun m x hx => ?_, fun m _ _ => ?_⟩
    · rw [nodeD_modify]; split
      · rename_i e; rw [← e.1] at hx ⊢; exact List.mem_append_left _ hx
      · exact hx
    · rw [nodeD_modify]; split <;> rfl
  have E1 : KeyEq s s1 := KeyEq.of_cframe hl1.fr
  have hoth1 : ∀ m, m ≠ c → s1.nodeD m = s.nodeD m := by
    intro m hm; rw [hs1, nodeD_modify, if_neg (fun e => hm e.1.symm)]
  have hhgt1 : ∀ m, (s1.nodeD m).height = (s.nodeD m).height := by
    intro m; rw [hs1, nodeD_modify]; split <;> rfl
  have hc1 : c < s1.nodes.size := by rw [U.size]; exact hc
  have hp1 : p < s1.nodes.size := by rw [U.size]; exact hp
  have R1 : Room N s1 := R.of_cframe hl1.fr
  have hvalid : (s1.nodeD c).valid = true := by rw [U.self.valid]; exact hcv
  refine Tot.bind_getNode hc1 ?_
  simp only [hvalid, Bool.not_true, Bool.false_eq_true, if_false]
  have hpv1 : (s1.nodeD p).valid = true := by rw [hoth1 p (Ne.symm hne)]; exact hpv
  have hpk1 : BKind env (s1.nodeD p).kind := by rw [hoth1 p (Ne.symm hne)]; exact (GInv2.node I hp).kind
  cases hwas : s.isNecessary c with
  | true =>
    simp only [Bool.not_true, Bool.false_eq_true, if_false]
    refine Tot.bind_getNode hc1 ?_
    have hcq : (s1.nodeD c).kind? = some (s.nodeD c).kind := by
      rw [Node.kind?, U.self.valid, U.self.kind]
      show (if (s.nodeD c).valid = true then some (s.nodeD c).kind else none) = _
      rw [hcv]; rfl
    rw [hcq]
    have hsk := (GInv2.node I hc).kind
    have hfin : HBo2 rk s1 (upd op p (.linking (idx + 1))) := by
      refine HBo2_transport hb U.size (fun m hm ho => ?_)
      obtain ⟨hmp, ho'⟩ := upd_closed_inv (Op.linking_ne_closed _) ho
      refine ⟨?_, ho', hhgt1 m⟩
      by_cases e : m = c
      · rw [e]; exact hwas
      · rw [State.isNecessary, hoth1 m e] at hm; exact hm
    cases hkd : (s.nodeD c).kind <;> rw [hkd] at hsk <;>
      first | exact tail_tot2 _ hp1 hpv1 hpk1 hfin | exact False.elim hsk
  | false =>
    simp only [Bool.not_false, if_true]
    obtain ⟨I1, hpar1, hnq1⟩ := GInv2.addEdge_open I U hb1 hop hk hwas hcl
    have hb1' : HBo2 rk s1 (upd (upd op p (.linking (idx + 1))) c (.linking 0)) := by
      refine HBo2_transport hb U.size (fun m hm ho => ?_)
      obtain ⟨hmc, ho1⟩ := upd_closed_inv (Op.linking_ne_closed _) ho
      obtain ⟨hmp, ho2⟩ := upd_closed_inv (Op.linking_ne_closed _) ho1
      refine ⟨?_, ho2, hhgt1 m⟩
      rw [State.isNecessary, hoth1 m hmc] at hm; exact hm
    -- the hypotheses of the recursive call
    have a1 : ∀ m, upd (upd op p (.linking (idx + 1))) c (.linking 0) m ≠ .closed → rk c ≤ rk m := by
      intro m hm
      by_cases e : m = c
      · rw [e]; exact Nat.le_refl _
      · rw [upd_other _ _ _ e] at hm
        by_cases e2 : m = p
        · rw [e2]; exact Nat.le_of_lt (I.kid_rk hk)
        · rw [upd_other _ _ _ e2] at hm
          exact Nat.le_of_lt (hlow m hm)
    have a2 : ∀ q i, (q, i) ∈ (s1.nodeD c).parents →
        upd (upd op p (.linking (idx + 1))) c (.linking 0) q ≠ .closed := by
      intro q i hq
      rw [hpar1] at hq
      simp only [List.mem_singleton, Prod.mk.injEq] at hq
      rw [hq.1, upd_other _ _ _ (Ne.symm hne), upd_self]
      exact fun e => by cases e
    have a3 : ∀ m k, upd (upd op p (.linking (idx + 1))) c (.linking 0) m ≠ .unlinking k := by
      intro m k
      by_cases e : m = c
      · rw [e, upd_self]; exact fun e => by cases e
      · rw [upd_other _ _ _ e]
        by_cases e2 : m = p
        · rw [e2, upd_self]; exact fun e => by cases e
        · rw [upd_other _ _ _ e2]; exact hnu m k
    have a4 : HF s1 (upd (upd op p (.linking (idx + 1))) c (.linking 0)) :=
      hF.lrel hl1 (by
        intro m ho hn
        have e : m ≠ c := fun e => by rw [e, hwas] at hn; cases hn
        have e2 : m ≠ p := fun e => by rw [e] at ho; exact hopp ho
        rw [upd_other _ _ _ e, upd_other _ _ _ e2]; exact ho)
    have a5 : ∀ (b : Nat) (br : BindRec), s1.binds[b]? = some br → br.lhsChange = c →
        ¬ Wants s1 (upd (upd op p (.linking (idx + 1))) c (.linking 0)) br.main 1 := by
      -- if `c` is a change detector then `p` is its main node and `idx = 0`
      intro b br hb' hl
      rw [hb1] at hb'
      obtain ⟨-, -, h3, -, -⟩ := I.frag.recs b br hb'
      rw [hl] at h3
      have hkp := (GInv2.node I hp).lcChild c b (List.mem_of_getElem? hk) h3
      obtain ⟨br', hb'', hm', -⟩ := (GInv2.node I hp).mainRec b c hkp
      rw [hb'] at hb''; cases hb''
      rw [hm', wants_linking (by rw [upd_other _ _ _ (Ne.symm hne), upd_self])]
      intro hi
      have h0 : Wants s op p 0 := (wants_linking hop).2 (by omega)
      have hk0 : (s.children p)[0]? = some c := by
        rw [← hm', I.main_children hb' (by rw [hm']; exact hpv), hl]; rfl
      have := nec_of_mem_parents (I.conv p 0 c hk0 h0)
      rw [hwas] at this; cases this
    have a6 : ∀ (b : Nat) (br : BindRec), (s1.nodeD c).createdIn = .bind b → s1.binds[b]? = some br →
        s1.isNecessary br.main = true := by
      intro b br hsc hb'
      rw [E1.createdIn] at hsc; rw [hb1] at hb'
      exact hl1.nec (child_main_nec I hk hpn hmainP b br hsc hb')
    have T := ih rk c s1 _ ex dy I1 hb1' R1 (upd_self _ _ _) hnq1 a1 a2 a3 a4 a5 a6
      (by rw [U.size]; omega)
    refine Tot.bind T (fun _ s2 h2 hb2 => ?_)
    obtain ⟨I2, hab2, hl2⟩ := (link_spec2 env fuel).1 rk c s1 s2 _ ex dy h2 I1 (upd_self _ _ _) hnq1 a1 a2 a3 a4 a5
    rw [upd_upd, upd_eq_self _ c .closed (by rw [upd_other _ _ _ hne]; exact hcl)] at hb2
    have hp2 : p < s2.nodes.size := by rw [hl2.fr.size]; exact hp1
    have hpe : s2.nodeD p = s.nodeD p := by
      rw [hab2 p (I.kid_rk hk)]; exact hoth1 p (Ne.symm hne)
    exact tail_tot2 _ hp2 (by rw [hpe]; exact hpv) (by rw [hpe]; exact (GInv2.node I hp).kind) hb2

end TL

end IncrVerif.Proofs.NestH
