import IncrVerif.Proofs.PerKeyH14
import IncrVerif.Proofs.PerKeyH51
import IncrVerif.Proofs.PerKeyH57
/-!
# One `.right` iteration of the per-key loop, part a: the run, as an explicit chain of states

`σ → σ1 = rS1 op key σ` (the per-key input node and its record) `→ σ2` (`expertAddDependency node lhsChange false`)
`→ σ3 = rLog ev σ2` (one more log entry) `→ σ4` (the template instance) `→ σ5` (`expertAddDependency result mapped true`)
`→ σ6 = rS6 op key node dep σ5` (`prevNodes`).
-/
namespace IncrVerif.Proofs.PerKeyH
open IncrVerif.Engine IncrVerif.Driver IncrVerif.Proofs IncrVerif.Proofs.Step IncrVerif.Proofs.Sched
open IncrVerif.Proofs.ExpertH IncrVerif.Proofs.EffH IncrVerif.Proofs.DriverH IncrVerif.Proofs.ExpertH.QR IncrVerif.Proofs.Xp

/-! ## the explicit states -/

/-- after the first three actions: the per-key input node `σ.nodes.size` with its record `σ.experts.size` -/
def rS1 (op : Nat) (key : Int) (σ : State) : State :=
  { σ with
    experts := σ.experts.push { f := 0, node := σ.nodes.size, pk := some (op, some key) },
    nodes := σ.nodes.push { kind := .expert σ.experts.size, createdIn := .top },
    counters := { σ.counters with created := σ.counters.created + 1 } }

/-- one more log entry -/
def rLog (ev : Event) (σ : State) : State := { σ with log := ev :: σ.log }

/-- the new entry of `prevNodes` -/
def rS6 (op : Nat) (key : Int) (node dep : Nat) (σ : State) : State :=
  { σ with perkeys := σ.perkeys.modify op fun p =>
      { p with prevNodes := (key, (node, dep)) :: p.prevNodes.filter (·.1 != key) } }

theorem rS1_eq_withInputNode (op : Nat) (key : Int) (σ : State) : PKL.withInputNode op key .top σ = rS1 op key σ := by
  simp only [PKL.withInputNode, PerKey.created, rS1]
  congr 1
  simp [push_modify_last]

/-- **the run of one `.right` iteration** -/
theorem right_run {env : Env} {fuel op : Nat} {key v : Int} {σ σ' : State}
    (hcut : (σ.perkeys[op]?.getD default).cut = none ∨ (σ.perkeys[op]?.getD default).cut = some .eq)
    (h : (PKL.perKeyStep env fuel op .top (key, .right v)).run.run σ = (.ok (), σ')) :
    ∃ d1 σ2 ev mapped σ4 dep σ5,
      (expertAddDependency env fuel σ.nodes.size (σ.perkeys[op]?.getD default).lhsChange false).run.run (rS1 op key σ)
        = (.ok d1, σ2) ∧
      (σ2.panicCountdown = none →
        (elabTemplateBase (env.perKey (σ.perkeys[op]?.getD default).fam) (.int key) [σ.nodes.size]).run.run (rLog ev σ2)
          = (.ok mapped, σ4) ∧
        (expertAddDependency env fuel (σ.perkeys[op]?.getD default).result mapped true).run.run σ4 = (.ok dep, σ5) ∧
        σ' = rS6 op key σ.nodes.size dep σ5) := by
  unfold PKL.perKeyStep at h
  rw [run_bind_get] at h
  dsimp only at h
  rw [run_bind_get, run_bind_modify, Proofs.run_bind, PerKey.createNode_run'] at h
  dsimp only at h
  rw [Proofs.run_bind] at h
  have hm : ∀ (S : State) (e : Nat) (f : ExpertRec → ExpertRec),
      (modExpert e f).run.run S = (.ok (), { S with experts := S.experts.modify e f }) := fun _ _ _ => rfl
  rw [hm] at h
  dsimp only at h
  have hs1 : ({ PerKey.created (.expert σ.experts.size) .top .eq
        { σ with experts := σ.experts.push { f := 0, pk := some (op, some key) } } with
      experts := (PerKey.created (.expert σ.experts.size) .top .eq
        { σ with experts := σ.experts.push { f := 0, pk := some (op, some key) } }).experts.modify σ.experts.size
          fun r => { r with node := σ.nodes.size } } : State) = rS1 op key σ := rS1_eq_withInputNode op key σ
  rw [hs1] at h
  /- `cut = some .eq`: the extra `modNode` writes the cutoff the new node already has: the state is unchanged -/
  have hmn : (modNode σ.nodes.size fun x => { x with cutoff := CutoffK.eq }).run.run (rS1 op key σ) =
      (.ok (), rS1 op key σ) := by
    show (Except.ok (), ({ rS1 op key σ with
      nodes := (rS1 op key σ).nodes.modify σ.nodes.size (fun x => { x with cutoff := CutoffK.eq }) } : State)) = _
    congr 1
    simp only [rS1, push_modify_last]
  have h : (do
      discard <| expertAddDependency env fuel σ.nodes.size (σ.perkeys[op]?.getD default).lhsChange false
      tick
      logEv (.note s!"pk P{(σ.perkeys[op]?.getD default).fam} key {key} node n{σ.nodes.size}")
      let mapped ← elabTemplateBase (env.perKey (σ.perkeys[op]?.getD default).fam) (.int key) [σ.nodes.size]
      let dep ← expertAddDependency env fuel (σ.perkeys[op]?.getD default).result mapped true
      modify fun s => { s with perkeys := s.perkeys.modify op fun p =>
        { p with prevNodes := (key, (σ.nodes.size, dep)) :: p.prevNodes.filter (·.1 != key) } } : M Unit).run.run
        (rS1 op key σ) = (.ok (), σ') := by
    rcases hcut with hcut | hcut
    · rw [hcut] at h
      exact h
    · rw [hcut] at h
      dsimp only at h
      rw [Proofs.run_bind, hmn] at h
      exact h
  obtain ⟨u, σ2, h1, h⟩ := bind_ok_inv h
  unfold Functor.discard at h1
  obtain ⟨d1, h1, -⟩ := QR.map_ok_inv h1
  refine ⟨d1, σ2, .note s!"pk P{(σ.perkeys[op]?.getD default).fam} key {key} node n{σ.nodes.size}", ?_⟩
  by_cases hp2 : σ2.panicCountdown = none
  · have ht : tick.run.run σ2 = (.ok (), σ2) := by
      unfold tick
      rw [run_bind_get, hp2]
      rfl
    rw [run_bind_ok ht] at h
    unfold logEv at h
    rw [run_bind_modify] at h
    obtain ⟨mapped, σ4, h4, h⟩ := bind_ok_inv h
    obtain ⟨dep, σ5, h5, h⟩ := bind_ok_inv h
    rw [run_modify] at h
    cases h
    exact ⟨mapped, σ4, dep, σ5, h1, fun _ => ⟨h4, h5, rfl⟩⟩
  · exact ⟨0, σ, 0, σ, h1, fun hh => absurd hh hp2⟩

/-! ## twin/actual transport of frames -/

theorem r_eKey_tw (l : List Event) (s : State) : eKey (twL l s) = eKey s := rfl

theorem r_nodeKey_tw {a b : Node} (h : nodeKey (twNode b) = nodeKey (twNode a)) (hk : b.kind = a.kind) :
    nodeKey b = nodeKey a := by
  simp only [nodeKey, Prod.mk.injEq] at h ⊢
  obtain ⟨-, h2, h3, h4, h5, h6, h7, h8, h9, h10⟩ := h
  exact ⟨hk, h2, h3, h4, h5, h6, h7, h8, h9, h10⟩

theorem r_fr_of_tw {l : List Event} {σ : State} (h : Fr (twL l σ)) : Fr σ where
  pc := h.pc
  valid n := by have := h.valid n; rwa [twL_nodeD] at this
  pinv := h.pinv
  kind n := by have := h.kind n; rwa [twL_nodeD, twNode_kind, XK_twKind] at this
  ni e er he := by
    have := h.ni e (twRec er) (by rw [twL_experts_getElem?, he]; rfl)
    exact this

theorem r_tw_get {l : List Event} {s : State} {e : Nat} {er : ExpertRec} (h : s.experts[e]? = some er) :
    (twL l s).experts[e]? = some (twRec er) := by rw [twL_experts_getElem?, h]; rfl

theorem r_tw_inv {l : List Event} {s : State} {e : Nat} {er' : ExpertRec} (h : (twL l s).experts[e]? = some er') :
    ∃ er, s.experts[e]? = some er ∧ er' = twRec er := by
  rw [twL_experts_getElem?] at h
  cases hx : s.experts[e]? with
  | none => rw [hx] at h; cases h
  | some er => rw [hx] at h; cases h; exact ⟨er, rfl, rfl⟩

/-- a freshly created top-level node -/
theorem NewNode.fresh {k : Kind} (h1 : ∀ c, k ≠ .var c) (h2 : ∀ f args, k = .map f args → f < fnPerKey) :
    NewNode ({ kind := k, createdIn := .top } : Node) :=
  ⟨rfl, rfl, rfl, rfl, rfl, h1, h2⟩

/-- the log is not part of any frame -/
theorem LF.of_same {D : Nat → Prop} {a b : State} (h1 : b.nodes = a.nodes) (h2 : b.experts = a.experts)
    (h3 : eKey b = eKey a) (h4 : b.nextDep = a.nextDep) : LF D a b := by
  have hn : ∀ m, b.nodeD m = a.nodeD m := fun m => by simp [State.nodeD, h1]
  refine ⟨by rw [h1]; exact Nat.le_refl _, fun m _ => by rw [hn], h3, by rw [h2]; exact Nat.le_refl _,
    fun e er he => ⟨er, by rw [h2]; exact he, rfl, rfl, rfl, rfl, rfl, rfl, id, fun _ => rfl,
      ⟨[], (List.append_nil _).symm⟩, Or.inl ⟨rfl, rfl⟩⟩,
    by rw [h4]; exact Nat.le_refl _, fun m hm1 hm2 => ?_, fun m hm => ?_⟩
  · rw [h1] at hm2; omega
  · simp only [State.isNecessary, hn]; exact hm

/-! ## step A: the per-key input node -/

section stepA
variable (op : Nat) (key : Int) (σ : State)

theorem rS1_nodes : (rS1 op key σ).nodes = σ.nodes.push { kind := .expert σ.experts.size, createdIn := .top } := rfl
theorem rS1_experts : (rS1 op key σ).experts
    = σ.experts.push { f := 0, node := σ.nodes.size, pk := some (op, some key) } := rfl
theorem rS1_size : (rS1 op key σ).nodes.size = σ.nodes.size + 1 := by rw [rS1_nodes, Array.size_push]
theorem rS1_xsize : (rS1 op key σ).experts.size = σ.experts.size + 1 := by rw [rS1_experts, Array.size_push]
theorem rS1_nextDep : (rS1 op key σ).nextDep = σ.nextDep := rfl
theorem rS1_eKey : eKey (rS1 op key σ) = eKey σ := rfl
theorem rS1_perkeys : (rS1 op key σ).perkeys = σ.perkeys := rfl
theorem rS1_top : (rS1 op key σ).top = σ.top := rfl
theorem rS1_log : (rS1 op key σ).log = σ.log := rfl

theorem rS1_nodeD_new : (rS1 op key σ).nodeD σ.nodes.size = { kind := .expert σ.experts.size, createdIn := .top } := by
  simp only [State.nodeD, rS1_nodes, Array.getElem?_push, if_true, Option.getD_some]

theorem rS1_nodeD_ne {m : Nat} (h : m ≠ σ.nodes.size) : (rS1 op key σ).nodeD m = σ.nodeD m := by
  simp only [State.nodeD, rS1_nodes, Array.getElem?_push, if_neg h]

theorem rS1_nodeD_lt {m : Nat} (h : m < σ.nodes.size) : (rS1 op key σ).nodeD m = σ.nodeD m :=
  rS1_nodeD_ne op key σ (by omega)

theorem rS1_experts_new : (rS1 op key σ).experts[σ.experts.size]?
    = some { f := 0, node := σ.nodes.size, pk := some (op, some key) } := by
  rw [rS1_experts]; simp

theorem rS1_experts_lt {e : Nat} (h : e < σ.experts.size) : (rS1 op key σ).experts[e]? = σ.experts[e]? := by
  rw [rS1_experts, Array.getElem?_push_lt h, Array.getElem?_eq_getElem h]

theorem rS1_experts_old {e : Nat} {er : ExpertRec} (h : σ.experts[e]? = some er) :
    (rS1 op key σ).experts[e]? = some er := by
  rw [rS1_experts_lt op key σ (Array.getElem?_eq_some_iff.1 h).1]; exact h

theorem twL_rS1 (l : List Event) : twL l (rS1 op key σ) = xElab 0 (twL l σ) := by
  simp only [twL, rS1, xElab, Array.map_push, Array.size_map]
  rfl

theorem lf_rS1 (D : Nat → Prop) : LF D σ (rS1 op key σ) := by
  refine ⟨by rw [rS1_size]; omega, fun m hm => by rw [rS1_nodeD_lt op key σ hm], rfl, by rw [rS1_xsize]; omega,
    fun e er he => ⟨er, rS1_experts_old op key σ he, rfl, rfl, rfl, rfl, rfl, rfl, id, fun _ => rfl,
      ⟨[], (List.append_nil _).symm⟩, Or.inl ⟨rfl, rfl⟩⟩,
    Nat.le_refl _, fun m hm1 hm2 => ?_, fun m hm => ?_⟩
  · rw [rS1_size] at hm2
    have : m = σ.nodes.size := by omega
    rw [this, rS1_nodeD_new]
    exact NewNode.fresh (fun c h => by cases h) (fun f args h => by cases h)
  · by_cases h : m < σ.nodes.size
    · simp only [State.isNecessary, rS1_nodeD_lt op key σ h]; exact hm
    · simp only [State.isNecessary, nodeD_default_of_ge σ m (by omega)] at hm
      cases hm

theorem cfx_rS1 : CFX σ (rS1 op key σ) := by
  refine ⟨by rw [rS1_size]; omega, fun m hm => rS1_nodeD_lt op key σ hm, fun m e hm hk => ?_,
    by rw [rS1_xsize]; omega, fun e he => rS1_experts_lt op key σ he, fun e er he h => ?_, rfl⟩
  · by_cases hm' : m = σ.nodes.size
    · rw [hm', rS1_nodeD_new] at hk
      cases hk; exact Nat.le_refl _
    · have : (rS1 op key σ).nodeD m = default := by
        apply nodeD_default_of_ge; rw [rS1_size]; omega
      rw [this] at hk; cases hk
  · by_cases he' : e = σ.experts.size
    · rw [he', rS1_experts_new] at h
      cases h; exact ⟨rfl, rfl, rfl⟩
    · have := (Array.getElem?_eq_some_iff.1 h).1
      rw [rS1_xsize] at this; omega

end stepA

/-! ## `LFX`: `LF` plus "records outside `D` keep `forceStale`" -/

structure LFX (D : Nat → Prop) (a b : State) : Prop where
  lf : LF D a b
  fs : ∀ (e : Nat) (er er' : ExpertRec), ¬ D e → a.experts[e]? = some er → b.experts[e]? = some er' →
    er'.forceStale = er.forceStale

theorem LFX.refl (D : Nat → Prop) (a : State) : LFX D a a :=
  ⟨LF.refl D a, fun _ er er' _ h h' => by rw [h] at h'; cases h'; rfl⟩

theorem LFX.trans {D : Nat → Prop} {a b c : State} (h1 : LFX D a b) (h2 : LFX D b c) : LFX D a c := by
  refine ⟨h1.lf.trans h2.lf, fun e er er2 hD he he2 => ?_⟩
  obtain ⟨er1, he1, -⟩ := h1.lf.xrec e er he
  exact (h2.fs e er1 er2 hD he1 he2).trans (h1.fs e er er1 hD he he1)

theorem LFX.restrict {D D' : Nat → Prop} {a b : State} (h : LFX D' a b)
    (hD : ∀ e, e < a.experts.size → D' e → D e) : LFX D a b :=
  ⟨h.lf.restrict hD, fun e er er' hn he he' =>
    h.fs e er er' (fun hd => hn (hD e (Array.getElem?_eq_some_iff.1 he).1 hd)) he he'⟩

theorem LFX.mono {D D' : Nat → Prop} {a b : State} (h : LFX D a b) (hD : ∀ e, D e → D' e) : LFX D' a b :=
  h.restrict (D := D') fun e _ hd => hD e hd

theorem LFX.of_same {D : Nat → Prop} {a b : State} (h1 : b.nodes = a.nodes) (h2 : b.experts = a.experts)
    (h3 : eKey b = eKey a) (h4 : b.nextDep = a.nextDep) : LFX D a b :=
  ⟨LF.of_same h1 h2 h3 h4, fun e er er' _ he he' => by rw [h2, he] at he'; cases he'; rfl⟩

/-- **an engine call that keeps `LKF`, described by `EF` on the twin** -/
theorem lfx_of_twin {E : Env} {D : Nat → Prop} {a b : State} {l l' : List Event}
    (Ma : Mid E (twL l a)) (Mb : Mid E (twL l' b))
    (ef : EF D (twL l a) (twL l' b)) (lk : LKF a b)
    (hD : ∀ e er er', D e → a.experts[e]? = some er → b.experts[e]? = some er' →
      ∃ ext, er'.children = er.children ++ ext)
    (hnec : ∀ m, a.isNecessary m = true → b.isNecessary m = true) : LFX D a b := by
  refine ⟨⟨by rw [lk.size]; exact Nat.le_refl _, fun m _ => ?_, ?_, by rw [lk.xsize]; exact Nat.le_refl _,
    fun e er he => ?_, ef.nextDep, fun m hm1 hm2 => ?_, hnec⟩, fun e er er' hn he he' => ?_⟩
  · have := ef.node m
    rw [twL_nodeD, twL_nodeD] at this
    exact r_nodeKey_tw this (lk.kind m)
  · have := ef.key
    rwa [r_eKey_tw, r_eKey_tw] at this
  · obtain ⟨er', he', k1, k2, k3, k4, k5⟩ := lk.xrec he
    have hx := ef.xforce e (twRec er) (twRec er') (r_tw_get he) (r_tw_get he')
    have n1 := (Ma.frag.xok e (twRec er) (r_tw_get he)).2.1
    have n2 := (Mb.frag.xok e (twRec er') (r_tw_get he')).2.1
    refine ⟨er', he', k1, k2, k3, k4, k5, n2.trans n1.symm, fun hf => ?_, fun hn => ?_, ?_, hx⟩
    · rcases hx with ⟨-, h⟩ | h
      · exact h.trans hf
      · exact h
    · have := ef.xsame e (twRec er) (twRec er') hn (r_tw_get he) (r_tw_get he')
      simp only [recK, Prod.mk.injEq] at this
      exact this.1
    · by_cases hd : D e
      · exact hD e er er' hd he he'
      · have := ef.xsame e (twRec er) (twRec er') hd (r_tw_get he) (r_tw_get he')
        simp only [recK, Prod.mk.injEq] at this
        exact ⟨[], by rw [List.append_nil]; exact this.1⟩
  · rw [lk.size] at hm2; omega
  · have := ef.xsame e (twRec er) (twRec er') hn (r_tw_get he) (r_tw_get he')
    simp only [recK, Prod.mk.injEq] at this
    exact this.2.1

/-! ## the generic `expertAddDependency` step -/

/-- a successful `expertAddDependency` on an expert node also succeeds with one more unit of fuel
(fuel `0` fails on a necessary node; an unnecessary node does not read the fuel) -/
theorem r_addDep_fuel {env : Env} {fuel n c : Nat} {cb : Bool} {s s' : State} {dep : Nat} {nd : Node} {e : Nat}
    {er : ExpertRec} (hx : IsExpert s n nd e er)
    (h : (expertAddDependency env fuel n c cb).run.run s = (.ok dep, s')) :
    ∃ f, (expertAddDependency env (f + 1) n c cb).run.run s = (.ok dep, s') := by
  cases fuel with
  | succ f => exact ⟨f, h⟩
  | zero =>
    cases hnec : nd.isNecessary with
    | false =>
      rw [expertAddDependency_unnecessary env 0 n c cb hx hnec] at h
      exact ⟨0, by rw [expertAddDependency_unnecessary env 1 n c cb hx hnec]; exact h⟩
    | true =>
      exfalso
      rw [expertAddDependency_necessary_factor env 0 n c cb hx hnec] at h
      obtain ⟨_, s5, hsap, -⟩ := bind_ok_inv h
      unfold stateAddParent at hsap
      rw [run_bind_get] at hsap
      replace hsap := bind_dassert_inv hsap
      obtain ⟨_, s3, hap, -⟩ := bind_ok_inv hsap
      unfold addParentWithoutAdjustingHeights at hap
      cases hap

/-- the children of a node are existing nodes (from `Mid` of the twin) -/
theorem r_kids_lt {E : Env} {l : List Event} {σ : State} (M : Mid E (twL l σ)) {m c : Nat}
    (h : c ∈ kidsX σ.experts (σ.nodeD m).kind) : c < σ.nodes.size := by
  by_cases hm : m < σ.nodes.size
  · obtain ⟨rk, I⟩ := M.st
    have := (I.static.node m (by rw [virt_size, twL_size]; exact hm)).kidsIn c
      (by rw [virt_kids, kidsX_twL]; exact h)
    rwa [virt_size, twL_size] at this
  · rw [nodeD_default_of_ge σ m (by omega)] at h
    cases h

/-- **one `expertAddDependency` between two engine calls of the loop**, on the actual state -/
theorem r_addDep {env : Env} {fuel x c e : Nat} {cb : Bool} {a b : State} {dep : Nat} {er : ExpertRec}
    (Ma : Mid (twEnv env) (twL [] a)) (S : SlotInv env a)
    (hx : x < a.nodes.size) (hk : (a.nodeD x).kind = .expert e) (he : a.experts[e]? = some er)
    (hc : c < a.nodes.size) (hacyc : ¬ ExpertH.Below a c x)
    (h : (expertAddDependency env fuel x c cb).run.run a = (.ok dep, b)) :
    Mid (twEnv env) (twL [] b) ∧ SlotInv env b ∧ LFX (fun e' => e' = e) a b ∧ LKF a b ∧ dep = a.nextDep ∧
      b.nextDep = a.nextDep + 1 ∧
      ∃ er', b.experts[e]? = some er' ∧ er'.children = er.children ++ [Xp.newEdge a c cb] ∧
        er'.forceStale = true ∧ er'.f = er.f ∧ er'.node = er.node ∧ er'.pk = er.pk := by
  have fra : Fr a := r_fr_of_tw Ma.fr
  obtain ⟨⟨l', htw⟩, -⟩ := TSim.expertAddDependency env fuel x c cb a fra [] dep b h
  have hk' : ((twL [] a).nodeD x).kind = .expert e := by rw [KtwL_kind, hk]; rfl
  obtain ⟨Mb, ef, hdep, hnd, ⟨er', he', hch, -, -, hfs⟩, hnec⟩ :=
    addSpec (twEnv env) fuel x c e cb (twL [] a) (twL l' b) dep (twRec er) Ma (by rw [twL_size]; exact hx) hk'
      (r_tw_get he) (by rw [twL_size]; exact hc) (by rw [below_tw]; exact hacyc) htw
  have lk : LKF a b := expertAddDependency_lkf h
  obtain ⟨er2, he2, k1, k2, k3, -, -⟩ := lk.xrec he
  have he2' := r_tw_get (l := l') he2
  rw [he'] at he2'
  cases he2'
  have hch2 : er2.children = er.children ++ [Xp.newEdge a c cb] := hch
  have Mb0 : Mid (twEnv env) (twL [] b) := mid_relog Mb []
  refine ⟨Mb0, ?_, ?_, lk, hdep, hnd, er2, he2, hch2, hfs, k1, k2, k3⟩
  · -- slots, on the twin
    have hX : IsExpert (twL [] a) x ((twL [] a).nodeD x) e (twRec er) :=
      ⟨some_of_lt (by rw [twL_size]; exact hx), Ma.frag.valid x (by rw [twL_size]; exact hx), hk', r_tw_get he⟩
    obtain ⟨f, hf⟩ := r_addDep_fuel hX htw
    have := expertAddDependency_slots Ma.frag Ma.pinv ((slotInv_tw env [] a).2 S) hk' (r_tw_get he) hf
    exact (slotInv_tw env l' b).1 this
  · refine lfx_of_twin Ma Mb ef lk (fun e0 er0 er0' hd h0 h0' => ?_) (fun m hm => ?_)
    · subst hd
      rw [he] at h0; cases h0
      rw [he2] at h0'; cases h0'
      exact ⟨_, hch2⟩
    · have := hnec m (by rw [twL_isNecessary]; exact hm)
      rwa [twL_isNecessary] at this

end IncrVerif.Proofs.PerKeyH
