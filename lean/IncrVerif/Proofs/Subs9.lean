import IncrVerif.Proofs.Subs1
/-!
# Subscriptions, part 8: `runAll` and `stabiliseEnd` with effect-free update handlers
-/
namespace IncrVerif.Proofs.SubsH
open IncrVerif.Engine IncrVerif.Driver IncrVerif.Proofs IncrVerif.Proofs.Step IncrVerif.Proofs.Sched
open IncrVerif.Proofs.Quiet

/-- the handlers of the environment have no effects -/
def PureHandlers (env : Env) : Prop := ∀ hid u, env.handler hid u = []

/-- the record of a handler after its observer's node reported `nu` -/
def stepPrev (nu : NodeUpdate) (h : HandlerRec) : HandlerRec :=
  match handlerStep h.prev nu with
  | none => h
  | some d => { h with prev := d.toPrev }

/-- what is delivered to a handler when its observer's node reports `nu` and holds `v` -/
def notifOf (nu : NodeUpdate) (v : Val) (h : HandlerRec) : Option Event :=
  match handlerStep h.prev nu with
  | some .changed => some (.notif h.token (.changed v))
  | some .necessary => some (.notif h.token (.initialised v))
  | _ => none

def P8.st (s : State) (o : Nat) (L : List HandlerRec) (lg : List Event) : State :=
  { s with observers := s.observers.modify o (fun x => { x with handlers := L }), log := lg ++ s.log }

theorem P8.map_upd (x : Previously) (a : HandlerRec) : ∀ (L1 L2 : List HandlerRec),
    a.token ∉ L1.map (·.token) → a.token ∉ L2.map (·.token) →
    (L1 ++ a :: L2).map (fun h' => if h'.token == a.token then { h' with prev := x } else h') =
      L1 ++ { a with prev := x } :: L2 := by
  have key : ∀ L : List HandlerRec, a.token ∉ L.map (·.token) →
      L.map (fun h' => if h'.token == a.token then { h' with prev := x } else h') = L := by
    intro L hL
    induction L with
    | nil => rfl
    | cons b L ih =>
      simp only [List.map_cons, List.mem_cons, not_or] at hL
      rw [List.map_cons, ih hL.2]
      have : (b.token == a.token) = false := by
        rw [beq_eq_false_iff_ne]; exact fun e => hL.1 e.symm
      rw [this]; rfl
  intro L1 L2 h1 h2
  rw [List.map_append, List.map_cons, key L1 h1, key L2 h2]
  simp

theorem P8.stepPrev_token (nu : NodeUpdate) (h : HandlerRec) : (stepPrev nu h).token = h.token := by
  unfold stepPrev; split <;> rfl

theorem P8.handlerStep_cases {p : Previously} {nu : NodeUpdate} (hnu : nu = .changed ∨ nu = .necessary) :
    handlerStep p nu = none ∨ handlerStep p nu = some .changed ∨ handlerStep p nu = some .necessary := by
  rcases hnu with rfl | rfl <;> cases p <;> simp [handlerStep]

theorem P8.st_obs {s : State} {o : Nat} {ob : ObsRec} (hob : s.observers[o]? = some ob)
    (L : List HandlerRec) (lg : List Event) :
    (P8.st s o L lg).observers[o]? = some { ob with handlers := L } := by
  simp [P8.st, Array.getElem?_modify, hob]

theorem P8.run_valueUnwrap {env : Env} {n : Nat} {site : String} {s : State} {v : Val}
    (hv : s.value env n = some v) : (valueUnwrap env n site).run.run s = (.ok v, s) := by
  unfold valueUnwrap
  rw [run_bind_get, hv]; rfl

theorem P8.run_runEffects_nil (env : Env) (fuel : Nat) (arg : Int) (s : State) :
    (runEffects env fuel [] arg).run.run s = (.ok (), s) := by
  unfold runEffects
  rw [List.forIn_nil]; rfl

theorem P8.take_succ {α} {l : List α} {j : Nat} {a : α} (hj : l[j]? = some a) :
    l.take (j + 1) = l.take j ++ [a] ∧ l.drop j = a :: l.drop (j + 1) := by
  obtain ⟨hlt, rfl⟩ := List.getElem?_eq_some_iff.1 hj
  exact ⟨List.take_succ_eq_append_getElem hlt, List.drop_eq_getElem_cons hlt⟩

theorem P8.st_mod (s : State) (o : Nat) (L : List HandlerRec) (lg : List Event) (g : HandlerRec → HandlerRec) :
    ({ (P8.st s o L lg) with
        observers := (P8.st s o L lg).observers.modify o (fun x => { x with handlers := x.handlers.map g }) } :
      State) = P8.st s o (L.map g) lg := by
  simp only [P8.st, array_modify_modify]
  rfl

theorem P8.st_log (s : State) (o : Nat) (L : List HandlerRec) (lg : List Event) (e : Event) :
    ({ P8.st s o L lg with log := e :: (P8.st s o L lg).log } : State) = P8.st s o L (e :: lg) := rfl

theorem P8.nodup_split (nu : NodeUpdate) {l : List HandlerRec} {j : Nat} {a : HandlerRec} (hj : l[j]? = some a)
    (hnd : (l.map (·.token)).Nodup) :
    a.token ∉ ((l.take j).map (stepPrev nu)).map (·.token) ∧ a.token ∉ (l.drop (j + 1)).map (·.token) := by
  obtain ⟨_, hdr⟩ := P8.take_succ hj
  have hl : l = l.take j ++ a :: l.drop (j + 1) := by rw [← hdr, List.take_append_drop]
  rw [hl, List.map_append, List.map_cons, List.nodup_append] at hnd
  obtain ⟨_, h2, h3⟩ := hnd
  have : ((l.take j).map (stepPrev nu)).map (·.token) = (l.take j).map (·.token) := by
    rw [List.map_map]; exact List.map_congr_left fun h _ => P8.stepPrev_token nu h
  rw [this]
  exact ⟨fun hm => h3 _ hm _ (List.mem_cons_self ..) rfl, (List.nodup_cons.1 h2).1⟩

theorem P8.modify_congr {α} {a : Array α} {i : Nat} {x : α} {f g : α → α} (hx : a[i]? = some x)
    (hfg : f x = g x) : a.modify i f = a.modify i g := by
  apply Array.ext_getElem?
  intro k
  simp only [Array.getElem?_modify]
  by_cases hk : i = k
  · subst hk; simp [hx, hfg]
  · simp [hk]

theorem P8.modify_id {α} {a : Array α} {i : Nat} {x : α} {f : α → α} (hx : a[i]? = some x)
    (hf : f x = x) : a.modify i f = a := by
  apply Array.ext_getElem?
  intro k
  simp only [Array.getElem?_modify]
  by_cases hk : i = k
  · subst hk; simp [hx, hf]
  · simp [hk]

/-- **`run_all` with effect-free handlers**, on an observer in use whose node reports `changed` or `necessary`
and has a value: every handler record is stepped, the notifications are logged in handler order. -/
theorem runAll_spec {env : Env} {fuel o n : Nat} {nu : NodeUpdate} {now : Int} {s s' : State} {ob : ObsRec}
    {v : Val} (heff : PureHandlers env) (hpc : s.panicCountdown = none)
    (hob : s.observers[o]? = some ob) (hst : ob.state = .inUse)
    (hnu : nu = .changed ∨ nu = .necessary) (hv : s.value env n = some v)
    (hnd : (ob.handlers.map (·.token)).Nodup) (hca : ∀ h, h ∈ ob.handlers → h.createdAt < now)
    (h : (runAll env fuel o n nu now).run.run s = (.ok (), s')) :
    s' = { s with observers := s.observers.modify o
                    (fun x => { x with handlers := x.handlers.map (stepPrev nu) }),
                  log := (ob.handlers.filterMap (notifOf nu v)).reverse ++ s.log } := by
  unfold runAll at h
  obtain ⟨ob1, s1, h1, h⟩ := bind_ok_inv h
  obtain ⟨e1, hob1⟩ := getObs_ok_inv14 h1
  rw [e1] at h
  rw [hob] at hob1; cases hob1
  obtain ⟨_, s2, hl, h⟩ := bind_ok_inv h
  obtain ⟨_, e3⟩ := pure_ok_inv h
  rw [e3]
  have hI := forIn_ok_inv _ ob.handlers
    (fun j _ t => t = P8.st s o ((ob.handlers.take j).map (stepPrev nu) ++ ob.handlers.drop j)
      ((ob.handlers.take j).filterMap (notifOf nu v)).reverse) ?step ob.handlers 0 _ s _ s2 rfl (Nat.zero_le _)
      ?init hl
  case init =>
    simp only [P8.st, List.take_zero, List.drop_zero, List.map_nil, List.filterMap_nil, List.reverse_nil,
      List.nil_append]
    rw [P8.modify_id hob rfl]
  case step =>
    intro j a b t r t' hj hI hb
    obtain ⟨obt, hobt, hb⟩ := P12.bind_getObs_inv hb
    obtain ⟨htk, hdr⟩ := P8.take_succ hj
    obtain ⟨hn1, hn2⟩ := P8.nodup_split nu hj hnd
    have ha : a ∈ ob.handlers := List.mem_of_getElem? hj
    subst hI
    rw [P8.st_obs hob] at hobt
    cases hobt
    simp only [hst] at hb
    rw [if_pos (hca a ha)] at hb
    rcases P8.handlerStep_cases (p := a.prev) hnu with hd | hd | hd
    · simp only [hd] at hb
      obtain ⟨rfl, rfl⟩ := pure_ok_inv hb
      refine ⟨_, rfl, ?_⟩
      have h1 : stepPrev nu a = a := by simp only [stepPrev, hd]
      have h2 : notifOf nu v a = none := by simp only [notifOf, hd]
      rw [htk, hdr, List.map_append, List.filterMap_append, List.map_cons, List.map_nil, h1,
        List.filterMap_cons, h2, List.filterMap_nil, List.append_nil, List.append_assoc]
      rfl
    · simp only [hd] at hb
      obtain ⟨t1, et1, hb⟩ := P12.bind_modObs_inv hb
      rw [P8.st_mod, hdr, P8.map_upd _ _ _ _ hn1 hn2] at et1
      have hv1 : t1.value env n = some v := by rw [et1]; exact (Obs.value_congr_nodes env (s := s) (s' := P8.st s o _ _) rfl n).trans hv
      have hpc1 : t1.panicCountdown = none := by rw [et1]; exact hpc
      rw [run_bind_ok (P8.run_valueUnwrap hv1)] at hb
      simp only [pure_bind] at hb
      rw [run_bind_ok (run_tick_none _ hpc1), run_bind_logEv, heff, run_bind_ok (P8.run_runEffects_nil ..)] at hb
      obtain ⟨rfl, rfl⟩ := pure_ok_inv hb
      refine ⟨_, rfl, ?_⟩
      have h1 : stepPrev nu a = { a with prev := NodeUpdate.changed.toPrev } := by simp only [stepPrev, hd]
      have h2 : notifOf nu v a = some (.notif a.token (.changed v)) := by simp only [notifOf, hd]
      rw [et1, P8.st_log]
      rw [htk, List.map_append, List.filterMap_append, List.map_cons, List.map_nil, h1,
        List.filterMap_cons, h2, List.filterMap_nil, List.append_assoc, List.reverse_append]
      rfl
    · simp only [hd] at hb
      obtain ⟨t1, et1, hb⟩ := P12.bind_modObs_inv hb
      rw [P8.st_mod, hdr, P8.map_upd _ _ _ _ hn1 hn2] at et1
      have hv1 : t1.value env n = some v := by rw [et1]; exact (Obs.value_congr_nodes env (s := s) (s' := P8.st s o _ _) rfl n).trans hv
      have hpc1 : t1.panicCountdown = none := by rw [et1]; exact hpc
      rw [run_bind_ok (P8.run_valueUnwrap hv1)] at hb
      simp only [pure_bind] at hb
      rw [run_bind_ok (run_tick_none _ hpc1), run_bind_logEv, heff, run_bind_ok (P8.run_runEffects_nil ..)] at hb
      obtain ⟨rfl, rfl⟩ := pure_ok_inv hb
      refine ⟨_, rfl, ?_⟩
      have h1 : stepPrev nu a = { a with prev := NodeUpdate.necessary.toPrev } := by simp only [stepPrev, hd]
      have h2 : notifOf nu v a = some (.notif a.token (.initialised v)) := by simp only [notifOf, hd]
      rw [et1, P8.st_log]
      rw [htk, List.map_append, List.filterMap_append, List.map_cons, List.map_nil, h1,
        List.filterMap_cons, h2, List.filterMap_nil, List.append_assoc, List.reverse_append]
      rfl
  simp only [List.take_length, List.drop_length, List.append_nil] at hI
  rw [hI, P8.st]
  rw [P8.modify_congr (f := fun x => { x with handlers := List.map (stepPrev nu) ob.handlers })
    (g := fun x => { x with handlers := x.handlers.map (stepPrev nu) }) hob rfl]

/-- the `NodeUpdate` that `stabiliseEnd` computes for a queued node: `nodeUpdate` after the round number
was bumped -/
def nuAt (env : Env) (s : State) (n : Nat) : NodeUpdate :=
  State.nodeUpdate env { s with stabNum := s.stabNum + 1 } n

/-- the notifications for the handlers of observer `o` of node `n` -/
def obsNotifs (env : Env) (s : State) (n o : Nat) : List Event :=
  match s.observers[o]?, s.value env n with
  | some ob, some v => ob.handlers.filterMap (notifOf (nuAt env s n) v)
  | _, _ => []

/-- the notifications `stabiliseEnd` logs, in the order of the model's lists: queued nodes, their observers,
their handlers -/
def endNotifs (env : Env) (s : State) : List Event :=
  s.handleAfterStab.flatMap fun n => (s.nodeD n).observers.flatMap (obsNotifs env s n)

/-! ## `stabiliseEnd` -/

/-- everything but the nodes -/
def P8.restN (s : State) : State := { s with nodes := #[] }

/-- everything but the nodes, the observer records, the log, the memo tables and the status -/
def P8.core (s : State) : State :=
  { s with nodes := #[], observers := #[], log := [], memos := [], status := .notStabilising }

/-- the state after the first part of `stabiliseEnd` (nothing deferred) -/
def P8.s6 (s : State) : State :=
  { s with stabNum := s.stabNum + 1, currentlyRunning := none, setDuringStab := [], deadVars := [],
           handleAfterStab := [] }

def P8.stepOb (env : Env) (s : State) (ob : ObsRec) : ObsRec :=
  { ob with handlers := ob.handlers.map (stepPrev (nuAt env s ob.node)) }

/-- the state during the last loop of `stabiliseEnd`: the observers in `po` have been processed and the
notifications `lg` logged -/
structure P8.Run4 (env : Env) (s s8 t : State) (po : List Nat) (lg : List Event) : Prop where
  core : P8.core t = P8.core s8
  nodes : t.nodes = s8.nodes
  obsSize : t.observers.size = s.observers.size
  obs : ∀ (o : Nat) (ob : ObsRec), s.observers[o]? = some ob →
    t.observers[o]? = some (if o ∈ po then P8.stepOb env s ob else ob)
  log : t.log = lg.reverse ++ s.log

theorem P8.default_flag : (default : Node).inHandleAfterStab = false := rfl

theorem P8.nodeUpdate_congr {env : Env} {s t : State} (hsz : t.nodes.size = s.nodes.size)
    (hnode : ∀ m, ∃ b, t.nodeD m = { s.nodeD m with inHandleAfterStab := b })
    (hstab : t.stabNum = s.stabNum + 1) (n : Nat) : t.nodeUpdate env n = nuAt env s n := by
  have hv : t.value env n = s.value env n := by
    refine Step.value_congr env s t hsz (fun m => ?_) n
    obtain ⟨b, hb⟩ := hnode m
    rw [hb]; rfl
  have hv' : State.value env { s with stabNum := s.stabNum + 1 } n = s.value env n :=
    Obs.value_congr_nodes env (s := s) (s' := { s with stabNum := s.stabNum + 1 }) rfl n
  obtain ⟨b, hb⟩ := hnode n
  unfold nuAt State.nodeUpdate
  simp only [hv, hv', hb, hstab]
  rfl

theorem P8.nuAt_cases {env : Env} {s : State} {n : Nat} (h1 : (s.nodeD n).valid = true)
    (h2 : s.isNecessary n = true) : nuAt env s n = .changed ∨ nuAt env s n = .necessary := by
  have e1 : (State.nodeD { s with stabNum := s.stabNum + 1 } n) = s.nodeD n := rfl
  unfold nuAt State.nodeUpdate
  simp only [e1, h1]
  rw [State.isNecessary] at h2
  simp only [h2]
  simp only [Bool.not_true, Bool.false_eq_true, if_false]
  split
  · exact Or.inl rfl
  · exact Or.inr rfl

/-- one `runAll` of the last loop of `stabiliseEnd` -/
theorem P8.run4_step {env : Env} {fuel : Nat} {s s8 t t' : State} {po : List Nat} {lg : List Event} {n o : Nat}
    (heff : PureHandlers env) (O : ObsInv s [] []) (H : HInv s)
    (hval : ∀ n, s.isNecessary n = true → (s.nodeD n).valid = true ∧ (s.value env n).isSome = true)
    (hpc : s8.panicCountdown = none) (hv8 : ∀ n, s8.value env n = s.value env n)
    (R : P8.Run4 env s s8 t po lg) (ho : o ∈ (s.nodeD n).observers) (hnp : o ∉ po)
    (hr : (runAll env fuel o n (nuAt env s n) (s.stabNum + 1)).run.run t = (.ok (), t')) :
    P8.Run4 env s s8 t' (po ++ [o]) (lg ++ obsNotifs env s n o) := by
  obtain ⟨ob, hob, hon, hst⟩ := (O.mem n o).1 ho
  have hst : ob.state = .inUse := by
    rcases hst with h | h
    · exact h
    · exact absurd ((O.dis o ob hob).1 h) (by simp)
  have hnec : s.isNecessary n = true := (isNecessary_iff s n).2 (Or.inr (Or.inl (List.ne_nil_of_mem ho)))
  obtain ⟨hvalid, hsome⟩ := hval n hnec
  obtain ⟨v, hv⟩ := Option.isSome_iff_exists.1 hsome
  have hobt : t.observers[o]? = some ob := by rw [R.obs o ob hob, if_neg hnp]
  have hpct : t.panicCountdown = none := (congrArg State.panicCountdown R.core).trans hpc
  have hvt : t.value env n = some v := by
    rw [Obs.value_congr_nodes env R.nodes n, hv8, hv]
  have := runAll_spec heff hpct hobt hst (P8.nuAt_cases hvalid hnec) hvt (H.tokNodup o ob hob)
    (fun h hh => Int.lt_add_one_iff.2 (H.createdAt o ob h hob hh)) hr
  subst this
  refine ⟨R.core, R.nodes, ?_, ?_, ?_⟩
  · rw [← R.obsSize]; exact Array.size_modify ..
  · intro o' ob' hob'
    show (t.observers.modify o _)[o']? = _
    rw [Array.getElem?_modify]
    by_cases e : o = o'
    · subst e
      rw [hob] at hob'; cases hob'
      rw [if_pos rfl, hobt, if_pos (List.mem_append_right _ (List.mem_singleton_self _))]
      simp only [Option.map_some, P8.stepOb, hon]
    · rw [if_neg e, R.obs o' ob' hob']
      have : o' ∈ po ++ [o] ↔ o' ∈ po := by
        simp only [List.mem_append, List.mem_singleton]
        exact ⟨fun h => h.resolve_right (fun h => e h.symm), Or.inl⟩
      simp only [this]
  · show _ ++ t.log = _
    have : obsNotifs env s n o = ob.handlers.filterMap (notifOf (nuAt env s n) v) := by
      simp only [obsNotifs, hob, hv]
    rw [R.log, this, List.reverse_append, List.append_assoc]

theorem P8.not_mem_take {α} {l : List α} {j : Nat} {a : α} (hj : l[j]? = some a) (hnd : l.Nodup) :
    a ∉ l.take j := by
  obtain ⟨_, hdr⟩ := P8.take_succ hj
  have hl : l = l.take j ++ a :: l.drop (j + 1) := by rw [← hdr, List.take_append_drop]
  rw [hl, List.nodup_append] at hnd
  intro hm
  have hm' : a ∈ (l.take j ++ a :: l.drop (j + 1)).take j := by rw [← hl]; exact hm
  have hlen : (l.take j).length = j := by
    have := (List.getElem?_eq_some_iff.1 hj).1
    rw [List.length_take]; omega
  rw [List.take_append_of_le_length (by omega), List.take_of_length_le (by omega)] at hm'
  exact hnd.2.2 a hm' a (List.mem_cons_self ..) rfl

theorem P8.flatMap_take_succ {α β} {l : List α} {j : Nat} {a : α} (g : α → List β) (hj : l[j]? = some a) :
    (l.take (j + 1)).flatMap g = (l.take j).flatMap g ++ g a := by
  rw [(P8.take_succ hj).1, List.flatMap_append]
  simp

/-- the `runAll`s for the observers of one queued node -/
theorem P8.run4_inner {env : Env} {fuel : Nat} {s s8 t t' : State} {po : List Nat} {lg : List Event} {n : Nat}
    {f : Nat → PUnit → M (ForInStep PUnit)} {u u' : PUnit}
    (hf : ∀ o b, f o b = (runAll env fuel o n (nuAt env s n) (s.stabNum + 1) >>= fun _ =>
      pure (ForInStep.yield PUnit.unit)))
    (heff : PureHandlers env) (O : ObsInv s [] []) (H : HInv s)
    (hval : ∀ n, s.isNecessary n = true → (s.nodeD n).valid = true ∧ (s.value env n).isSome = true)
    (hpc : s8.panicCountdown = none) (hv8 : ∀ n, s8.value env n = s.value env n)
    (R : P8.Run4 env s s8 t po lg) (hdis : ∀ o, o ∈ (s.nodeD n).observers → o ∉ po)
    (hl : (forIn (s.nodeD n).observers u f).run.run t = (.ok u', t')) :
    P8.Run4 env s s8 t' (po ++ (s.nodeD n).observers)
      (lg ++ (s.nodeD n).observers.flatMap (obsNotifs env s n)) := by
  have hI := forIn_ok_inv f (s.nodeD n).observers
    (fun k _ t => P8.Run4 env s s8 t (po ++ (s.nodeD n).observers.take k)
      (lg ++ ((s.nodeD n).observers.take k).flatMap (obsNotifs env s n))) ?step (s.nodeD n).observers 0 u t u' t'
      rfl (Nat.zero_le _) ?init hl
  case init =>
    simpa using R
  case step =>
    intro k o b t1 r t2 hk R1 hb
    rw [hf] at hb
    obtain ⟨x, t3, hr, hb⟩ := bind_ok_inv hb
    obtain ⟨rfl, rfl⟩ := pure_ok_inv hb
    refine ⟨_, rfl, ?_⟩
    have hmem : o ∈ (s.nodeD n).observers := List.mem_of_getElem? hk
    have hnp : o ∉ po ++ (s.nodeD n).observers.take k := by
      rw [List.mem_append, not_or]
      exact ⟨hdis o hmem, P8.not_mem_take hk (H.obsNodup n)⟩
    have := P8.run4_step heff O H hval hpc hv8 R1 hmem hnp hr
    rw [P8.flatMap_take_succ _ hk, (P8.take_succ hk).1, ← List.append_assoc, ← List.append_assoc]
    exact this
  simpa using hI

/-- the last loop of `stabiliseEnd` -/
theorem P8.loop4 {env : Env} {fuel : Nat} {s s8 t' : State}
    {f : Nat × NodeUpdate → PUnit → M (ForInStep PUnit)} {u u' : PUnit}
    (hf : ∀ x b, f x b = (getNode x.1 >>= fun nd =>
      forIn nd.observers PUnit.unit (fun o _ => runAll env fuel o x.1 x.2 (s.stabNum + 1) >>= fun _ =>
        pure (ForInStep.yield PUnit.unit)) >>= fun _ => pure (ForInStep.yield PUnit.unit)))
    (heff : PureHandlers env) (O : ObsInv s [] []) (H : HInv s)
    (hval : ∀ n, s.isNecessary n = true → (s.nodeD n).valid = true ∧ (s.value env n).isSome = true)
    (hpc : s8.panicCountdown = none) (hv8 : ∀ n, s8.value env n = s.value env n)
    (hn8 : ∀ m, (s8.nodeD m).observers = (s.nodeD m).observers)
    (R0 : P8.Run4 env s s8 s8 [] [])
    (hl : (forIn (s.handleAfterStab.map fun n => (n, nuAt env s n)) u f).run.run s8 = (.ok u', t')) :
    P8.Run4 env s s8 t' (s.handleAfterStab.flatMap fun n => (s.nodeD n).observers) (endNotifs env s) := by
  have hI := forIn_ok_inv f (s.handleAfterStab.map fun n => (n, nuAt env s n))
    (fun j _ t => P8.Run4 env s s8 t ((s.handleAfterStab.take j).flatMap fun n => (s.nodeD n).observers)
      ((s.handleAfterStab.take j).flatMap fun n => (s.nodeD n).observers.flatMap (obsNotifs env s n)))
    ?step _ 0 u s8 u' t' rfl (Nat.zero_le _) ?init hl
  case init =>
    simpa using R0
  case step =>
    intro j x b t r t2 hj R hb
    rw [List.getElem?_map] at hj
    cases hn : s.handleAfterStab[j]? with
    | none => rw [hn] at hj; cases hj
    | some n =>
      rw [hn] at hj
      simp only [Option.map_some, Option.some.injEq] at hj
      subst hj
      rw [hf] at hb
      obtain ⟨nd, hnd, hb⟩ := bind_getNode_inv hb
      have hndo : nd.observers = (s.nodeD n).observers := by
        rw [← nodeD_of_some hnd, ← hn8]
        simp only [State.nodeD, R.nodes]
      dsimp only at hb
      rw [hndo] at hb
      obtain ⟨x, t3, hin, hb⟩ := bind_ok_inv hb
      obtain ⟨rfl, rfl⟩ := pure_ok_inv hb
      refine ⟨_, rfl, ?_⟩
      have hdis : ∀ o, o ∈ (s.nodeD n).observers →
          o ∉ (s.handleAfterStab.take j).flatMap fun n => (s.nodeD n).observers := by
        intro o ho hm
        obtain ⟨n', hn', ho'⟩ := List.mem_flatMap.1 hm
        obtain ⟨ob, hob, hon, _⟩ := (O.mem n o).1 ho
        obtain ⟨ob', hob', hon', _⟩ := (O.mem n' o).1 ho'
        rw [hob] at hob'; cases hob'
        rw [hon] at hon'; subst hon'
        exact P8.not_mem_take hn H.has.nodup hn'
      have := P8.run4_inner (f := fun o _ => runAll env fuel o n (nuAt env s n) (s.stabNum + 1) >>= fun _ =>
        pure (ForInStep.yield PUnit.unit)) (fun _ _ => rfl) heff O H hval hpc hv8 R hdis hin
      rw [P8.flatMap_take_succ _ hn, P8.flatMap_take_succ _ hn]
      exact this
  simpa [endNotifs] using hI

/-- the loop of `stabiliseEnd` that empties the queue of nodes with handlers -/
theorem P8.loop3 {env : Env} {s t : State} {f : Nat → List (Nat × NodeUpdate) → M (ForInStep (List (Nat × NodeUpdate)))}
    {q : List (Nat × NodeUpdate)}
    (hf : ∀ n q, f n q = (modNode n (fun x => { x with inHandleAfterStab := false }) >>= fun _ =>
      get >>= fun st => pure (ForInStep.yield (q ++ [(n, st.nodeUpdate env n)]))))
    (hl : (forIn s.handleAfterStab [] f).run.run (P8.s6 s) = (.ok q, t)) :
    P8.restN t = P8.restN (P8.s6 s) ∧ t.nodes.size = s.nodes.size ∧
    (∀ m, t.nodeD m = { s.nodeD m with inHandleAfterStab :=
      if m ∈ s.handleAfterStab then false else (s.nodeD m).inHandleAfterStab }) ∧
    q = s.handleAfterStab.map fun n => (n, nuAt env s n) := by
  have hI := forIn_ok_inv f s.handleAfterStab
    (fun j q t => P8.restN t = P8.restN (P8.s6 s) ∧ t.nodes.size = s.nodes.size ∧
      (∀ m, t.nodeD m = { s.nodeD m with inHandleAfterStab :=
        if m ∈ (s.handleAfterStab.take j) then false else (s.nodeD m).inHandleAfterStab }) ∧
      q = (s.handleAfterStab.take j).map fun n => (n, nuAt env s n))
    ?step _ 0 [] (P8.s6 s) q t rfl (Nat.zero_le _) ?init hl
  case init =>
    refine ⟨rfl, rfl, fun m => ?_, by simp⟩
    simp only [List.take_zero, List.not_mem_nil, if_false]
    rfl
  case step =>
    intro j n b t1 r t2 hj ⟨hrest, hsz, hnode, hq⟩ hb
    rw [hf] at hb
    obtain ⟨t3, et3, hb⟩ := bind_modNode_inv hb
    rw [run_bind_get] at hb
    obtain ⟨rfl, e2⟩ := pure_ok_inv hb
    refine ⟨_, rfl, ?_⟩
    rw [e2]
    have hsz3 : t3.nodes.size = s.nodes.size := by rw [et3, ← hsz]; exact Array.size_modify ..
    have hnode3 : ∀ m, t3.nodeD m = { s.nodeD m with inHandleAfterStab :=
        if m ∈ (s.handleAfterStab.take (j + 1)) then false else (s.nodeD m).inHandleAfterStab } := by
      intro m
      rw [et3, nodeD_modify, hnode m, (P8.take_succ hj).1]
      by_cases e : n = m
      · subst e
        have hin : n ∈ List.take j s.handleAfterStab ++ [n] :=
          List.mem_append_right _ (List.mem_singleton_self _)
        rw [if_pos hin]
        by_cases hlt : n < t1.nodes.size
        · rw [if_pos ⟨rfl, hlt⟩]
        · rw [if_neg (fun h => hlt h.2)]
          have hd : s.nodeD n = default := nodeD_default s n (by omega)
          rw [hd, P8.default_flag]
          simp
      · rw [if_neg (fun h => e h.1)]
        have : m ∈ List.take j s.handleAfterStab ++ [n] ↔ m ∈ List.take j s.handleAfterStab := by
          simp only [List.mem_append, List.mem_singleton]
          exact ⟨fun h => h.resolve_right (fun h => e h.symm), Or.inl⟩
        simp only [this]
    refine ⟨?_, hsz3, hnode3, ?_⟩
    · rw [et3]; exact hrest
    · have hstab : t3.stabNum = s.stabNum + 1 := by
        rw [et3]; exact congrArg State.stabNum hrest
      rw [P8.nodeUpdate_congr hsz3 (fun m => ⟨_, hnode3 m⟩) hstab n, hq, (P8.take_succ hj).1, List.map_append]
      rfl
  simpa using hI

/-- `s'` is `s` after `stabiliseEnd` (nothing deferred, effect-free handlers) -/
structure Ended (env : Env) (s s' : State) : Prop where
  size : s'.nodes.size = s.nodes.size
  node : ∀ m, s'.nodeD m = { s.nodeD m with inHandleAfterStab := false }
  vars : s'.vars = s.vars
  rch : s'.rch = s.rch
  ahh : s'.ahh = s.ahh
  newObservers : s'.newObservers = s.newObservers
  disallowedObservers : s'.disallowedObservers = s.disallowedObservers
  allObservers : s'.allObservers = s.allObservers
  scope : s'.currentScope = s.currentScope
  pc : s'.panicCountdown = s.panicCountdown
  top : s'.top = s.top
  handles : s'.handles = s.handles
  alive : s'.alive = s.alive
  pinv : s'.propagateInvalidity = s.propagateInvalidity
  cfg : s'.cfg = s.cfg
  nextToken : s'.nextToken = s.nextToken
  stabNum : s'.stabNum = s.stabNum + 1
  status : s'.status = .notStabilising
  setDuringStab : s'.setDuringStab = []
  deadVars : s'.deadVars = []
  handleAfterStab : s'.handleAfterStab = []
  obsSize : s'.observers.size = s.observers.size
  /-- the handler records of the in-use observers of queued nodes are stepped, nothing else changes -/
  obs : ∀ (o : Nat) (ob : ObsRec), s.observers[o]? = some ob →
    s'.observers[o]? = some (if ob.state = .inUse ∧ ob.node ∈ s.handleAfterStab then
      { ob with handlers := ob.handlers.map (stepPrev (nuAt env s ob.node)) } else ob)
  log : s'.log = (endNotifs env s).reverse ++ s.log

/-- an observer is in the observer list of a queued node iff it is in use and its node is queued -/
theorem P8.mem_work {s : State} (O : ObsInv s [] []) {o : Nat} {ob : ObsRec} (hob : s.observers[o]? = some ob) :
    (o ∈ s.handleAfterStab.flatMap fun n => (s.nodeD n).observers) ↔
      (ob.state = .inUse ∧ ob.node ∈ s.handleAfterStab) := by
  constructor
  · intro hm
    obtain ⟨n, hn, ho⟩ := List.mem_flatMap.1 hm
    obtain ⟨ob', hob', hon, hst⟩ := (O.mem n o).1 ho
    rw [hob] at hob'; cases hob'
    subst hon
    refine ⟨?_, hn⟩
    rcases hst with h | h
    · exact h
    · exact absurd ((O.dis o ob hob).1 h) (by simp)
  · intro ⟨hst, hn⟩
    exact List.mem_flatMap.2 ⟨ob.node, hn, (O.mem ob.node o).2 ⟨ob, hob, rfl, Or.inl hst⟩⟩

/-- **`stabilise_end` with effect-free handlers.**  `s` is the state after the drain: nothing deferred, no
observer waiting to be added or unlinked (`ObsInv s [] []`), the handler bookkeeping `HInv s`, and every
necessary node is valid and has a value. -/
theorem stabiliseEnd_spec {env : Env} {fuel : Nat} {s s' : State} (heff : PureHandlers env)
    (hpc : s.panicCountdown = none) (h1 : s.setDuringStab = []) (h2 : s.deadVars = [])
    (O : ObsInv s [] []) (H : HInv s)
    (hval : ∀ n, s.isNecessary n = true → (s.nodeD n).valid = true ∧ (s.value env n).isSome = true)
    (h : (stabiliseEnd env fuel).run.run s = (.ok (), s')) : Ended env s s' := by
  unfold stabiliseEnd at h
  obtain ⟨s1, e1, h⟩ := bind_modify_inv h
  rw [run_bind_get] at h
  try dsimp only at h
  obtain ⟨s2, e2, h⟩ := bind_modify_inv h
  have h1' : s1.setDuringStab = [] := by rw [e1]; exact h1
  rw [h1', List.forIn_nil] at h
  obtain ⟨_, s3, hp, h⟩ := bind_ok_inv h
  obtain ⟨_, e3⟩ := pure_ok_inv hp
  rw [e3] at h
  rw [run_bind_get] at h
  try dsimp only at h
  obtain ⟨s4, e4, h⟩ := bind_modify_inv h
  have h2' : s2.deadVars = [] := by rw [e2, e1]; exact h2
  rw [h2', List.forIn_nil] at h
  obtain ⟨_, s5, hp5, h⟩ := bind_ok_inv h
  obtain ⟨_, e5⟩ := pure_ok_inv hp5
  rw [e5] at h
  rw [run_bind_get] at h
  try dsimp only at h
  obtain ⟨s6, e6, h⟩ := bind_modify_inv h
  have hs6 : s6 = P8.s6 s := by rw [e6, e4, e2, e1]; rfl
  have hhs : s4.handleAfterStab = s.handleAfterStab := by rw [e4, e2, e1]
  rw [hhs, hs6] at h
  clear hp hp5 e3 e5 e6 hs6 hhs h1' h2'
  -- loop 3
  obtain ⟨q, s7, hl3, h⟩ := bind_ok_inv h
  obtain ⟨hrest, hsz7, hnode7, hq⟩ := P8.loop3 (env := env) (fun _ _ => rfl) hl3
  clear hl3
  have hnode7' : ∀ m, s7.nodeD m = { s.nodeD m with inHandleAfterStab := false } := by
    intro m
    rw [hnode7 m]
    by_cases hm : m ∈ s.handleAfterStab
    · rw [if_pos hm]
    · rw [if_neg hm]
      have : (s.nodeD m).inHandleAfterStab = false := by
        cases hf : (s.nodeD m).inHandleAfterStab
        · rfl
        · exact absurd ((H.has.flag m).2 hf) hm
      rw [this]
  obtain ⟨s8, e8, h⟩ := bind_modify_inv h
  rw [run_bind_get] at h
  have hstab8 : s8.stabNum = s.stabNum + 1 := by rw [e8]; exact (congrArg State.stabNum hrest :)
  have hobs8 : s8.observers = s.observers := by rw [e8]; exact (congrArg State.observers hrest :)
  have hlog8 : s8.log = s.log := by rw [e8]; exact (congrArg State.log hrest :)
  have hpc8 : s8.panicCountdown = none := by
    rw [e8]; exact (show s7.panicCountdown = s.panicCountdown from (congrArg State.panicCountdown hrest :)).trans hpc
  have hnodes8 : s8.nodes = s7.nodes := by rw [e8]
  have hnd8 : ∀ m, s8.nodeD m = s7.nodeD m := fun m => by simp only [State.nodeD, hnodes8]
  have hv8 : ∀ n, s8.value env n = s.value env n := by
    intro n
    refine Step.value_congr env s s8 (by rw [hnodes8, hsz7]) (fun m => ?_) n
    rw [hnd8, hnode7']; rfl
  have hn8 : ∀ m, (s8.nodeD m).observers = (s.nodeD m).observers := fun m => by rw [hnd8, hnode7']
  have R0 : P8.Run4 env s s8 s8 [] [] :=
    ⟨rfl, rfl, by rw [hobs8], fun o ob hob => by rw [hobs8, hob]; simp, by rw [hlog8]; rfl⟩
  -- loop 4
  rw [hq, hstab8] at h
  obtain ⟨_, s9, hl4, h⟩ := bind_ok_inv h
  have R9 := P8.loop4 (fuel := fuel) (fun _ _ => rfl) heff O H hval hpc8 hv8 hn8 R0 hl4
  clear hl4
  obtain ⟨s10, e10, h⟩ := bind_modify_inv h
  rw [run_modify] at h
  obtain ⟨_, e11⟩ := Prod.mk.inj h
  clear h
  have hcore : P8.core s' = P8.core (P8.s6 s) := by
    have a1 : P8.core s' = P8.core s9 := by rw [← e11, e10]; rfl
    have a2 : P8.core s8 = P8.core s7 := by rw [e8]; rfl
    have a3 : P8.core s7 = P8.core (P8.s6 s) := (congrArg P8.core hrest :)
    rw [a1, R9.core, a2, a3]
  have hnodes : s'.nodes = s7.nodes := by
    have : s'.nodes = s9.nodes := by rw [← e11, e10]
    rw [this, R9.nodes, hnodes8]
  have hobs : s'.observers = s9.observers := by rw [← e11, e10]
  have hlog : s'.log = s9.log := by rw [← e11, e10]
  have hstatus : s'.status = .notStabilising := by rw [← e11]
  refine ⟨by rw [hnodes, hsz7], fun m => ?_, (congrArg State.vars hcore :), (congrArg State.rch hcore :),
    (congrArg State.ahh hcore :), (congrArg State.newObservers hcore :), (congrArg State.disallowedObservers hcore :),
    (congrArg State.allObservers hcore :), (congrArg State.currentScope hcore :), (congrArg State.panicCountdown hcore :),
    (congrArg State.top hcore :), (congrArg State.handles hcore :), (congrArg State.alive hcore :),
    (congrArg State.propagateInvalidity hcore :), (congrArg State.cfg hcore :), (congrArg State.nextToken hcore :),
    (congrArg State.stabNum hcore :), hstatus, (congrArg State.setDuringStab hcore :), (congrArg State.deadVars hcore :),
    (congrArg State.handleAfterStab hcore :), by rw [hobs, R9.obsSize], fun o ob hob => ?_, by rw [hlog, R9.log]⟩
  · rw [← hnode7' m]
    simp only [State.nodeD, hnodes]
  · rw [hobs, R9.obs o ob hob]
    by_cases hc : ob.state = .inUse ∧ ob.node ∈ s.handleAfterStab
    · rw [if_pos hc, if_pos ((P8.mem_work O hob).2 hc)]; rfl
    · rw [if_neg hc, if_neg (fun hm => hc ((P8.mem_work O hob).1 hm))]

theorem P8.stepPrev_prev {nu : NodeUpdate} {h : HandlerRec} (hnu : nu = .changed ∨ nu = .necessary)
    (hp : PrevOK h.prev) : PrevOK (stepPrev nu h).prev ∧ (stepPrev nu h).prev ≠ .neverBeenUpdated := by
  rcases hnu with rfl | rfl <;> cases hq : h.prev <;> rw [hq] at hp <;>
    simp [stepPrev, handlerStep, hq, PrevOK, NodeUpdate.toPrev] at hp ⊢

theorem P8.stepPrev_createdAt (nu : NodeUpdate) (h : HandlerRec) : (stepPrev nu h).createdAt = h.createdAt := by
  unfold stepPrev; split <;> rfl

/-- an observer record after `stabiliseEnd`: unchanged, or (in use, node queued) stepped with `changed` or
`necessary` -/
theorem P8.ended_rec {env : Env} {s s' : State} (E : Ended env s s') (O : ObsInv s [] [])
    (hval : ∀ n, s.isNecessary n = true → (s.nodeD n).valid = true ∧ (s.value env n).isSome = true)
    {o : Nat} {ob' : ObsRec} (h : s'.observers[o]? = some ob') :
    ∃ ob, s.observers[o]? = some ob ∧ ob'.node = ob.node ∧ ob'.state = ob.state ∧
      ((ob' = ob ∧ ¬(ob.state = .inUse ∧ ob.node ∈ s.handleAfterStab)) ∨
       (ob.state = .inUse ∧ ob.node ∈ s.handleAfterStab ∧
        ∃ nu, (nu = .changed ∨ nu = .necessary) ∧ ob'.handlers = ob.handlers.map (stepPrev nu))) := by
  have hlt : o < s.observers.size := by
    rw [← E.obsSize]; exact (Array.getElem?_eq_some_iff.1 h).1
  have hob : s.observers[o]? = some s.observers[o] := Array.getElem?_eq_getElem hlt
  refine ⟨_, hob, ?_⟩
  have h' := E.obs o _ hob
  rw [h] at h'
  by_cases hc : (s.observers[o]).state = .inUse ∧ (s.observers[o]).node ∈ s.handleAfterStab
  · rw [if_pos hc] at h'
    cases h'
    refine ⟨rfl, rfl, Or.inr ⟨hc.1, hc.2, _, ?_, rfl⟩⟩
    have ho : o ∈ (s.nodeD (s.observers[o]).node).observers := (O.mem _ o).2 ⟨_, hob, rfl, Or.inl hc.1⟩
    have hnec := (isNecessary_iff s _).2 (Or.inr (Or.inl (List.ne_nil_of_mem ho)))
    exact P8.nuAt_cases (hval _ hnec).1 hnec
  · rw [if_neg hc] at h'
    cases h'
    exact ⟨rfl, rfl, Or.inl ⟨rfl, hc⟩⟩

/-- the handler bookkeeping after `stabiliseEnd` -/
theorem Ended.hinv {env : Env} {s s' : State} (E : Ended env s s') (O : ObsInv s [] []) (H : HInv s)
    (hval : ∀ n, s.isNecessary n = true → (s.nodeD n).valid = true ∧ (s.value env n).isSome = true) :
    HInv s' ∧
    ∀ (o : Nat) (ob : ObsRec) (h : HandlerRec), s'.observers[o]? = some ob → ob.state = .inUse →
      h ∈ ob.handlers → h.prev ≠ .neverBeenUpdated := by
  have hflag : ∀ m, (s'.nodeD m).inHandleAfterStab = false := fun m => by rw [E.node m]
  have hobsl : ∀ m, (s'.nodeD m).observers = (s.nodeD m).observers := fun m => by rw [E.node m]
  have hlen : ∀ o, (hOf s' o).length = (hOf s o).length := by
    intro o
    cases ho : s'.observers[o]? with
    | none =>
      have : s.observers[o]? = none := by
        rw [Array.getElem?_eq_none_iff] at ho ⊢
        rw [← E.obsSize]; exact ho
      simp [hOf, ho, this]
    | some ob' =>
      obtain ⟨ob, hob, _, _, hc⟩ := P8.ended_rec E O hval ho
      rw [hOf_of_some ho, hOf_of_some hob]
      rcases hc with ⟨rfl, _⟩ | ⟨_, _, nu, _, e⟩
      · rfl
      · rw [e, List.length_map]
  have htoks : ∀ (o : Nat) (ob' : ObsRec), s'.observers[o]? = some ob' →
      ∃ ob, s.observers[o]? = some ob ∧ ob'.handlers.map (·.token) = ob.handlers.map (·.token) := by
    intro o ob' ho
    obtain ⟨ob, hob, _, _, hc⟩ := P8.ended_rec E O hval ho
    refine ⟨ob, hob, ?_⟩
    rcases hc with ⟨rfl, _⟩ | ⟨_, _, nu, _, e⟩
    · rfl
    · rw [e, List.map_map]; exact List.map_congr_left fun h _ => P8.stepPrev_token nu h
  have hlast : ∀ (o : Nat) (ob : ObsRec) (h : HandlerRec), s'.observers[o]? = some ob → ob.state = .inUse →
      h ∈ ob.handlers → h.prev ≠ .neverBeenUpdated := by
    intro o ob' h ho hst hh
    obtain ⟨ob, hob, _, est, hc⟩ := P8.ended_rec E O hval ho
    rcases hc with ⟨rfl, hn⟩ | ⟨_, _, nu, hnu, e⟩
    · intro hp
      exact hn ⟨hst, H.pending o ob' h hob (Or.inr hst) hh hp⟩
    · rw [e] at hh
      obtain ⟨h0, hh0, rfl⟩ := List.mem_map.1 hh
      exact (P8.stepPrev_prev hnu (H.prev o ob h0 hob hh0)).2
  refine ⟨⟨fun n => ?_, fun n => by rw [hobsl]; exact H.obsNodup n, ?_, ?_, ⟨?_, fun n => ?_⟩, ?_, ?_, ?_⟩, hlast⟩
  · rw [E.node n]
    show (s.nodeD n).numOnUpdateHandlers = _
    rw [H.count n]
    unfold numOf
    rw [hobsl]
    congr 1
    exact List.map_congr_left fun o _ => by rw [hlen]
  · refine Life.TokWF.of_sub (Nat.le_of_eq E.nextToken.symm) (fun o ob' ho => ?_) H.tok
    obtain ⟨ob, hob, e⟩ := htoks o ob' ho
    exact Or.inr ⟨ob, hob, fun t ht => by unfold Life.tokensOf at ht ⊢; rw [← e]; exact ht⟩
  · intro o ob' ho
    obtain ⟨ob, hob, e⟩ := htoks o ob' ho
    rw [e]; exact H.tokNodup o ob hob
  · rw [E.handleAfterStab]; exact List.nodup_nil
  · rw [E.handleAfterStab, hflag]; simp
  · intro o ob' h ho hh
    obtain ⟨ob, hob, _, _, hc⟩ := P8.ended_rec E O hval ho
    rw [E.stabNum]
    rcases hc with ⟨rfl, _⟩ | ⟨_, _, nu, _, e⟩
    · have := H.createdAt o ob' h hob hh; omega
    · rw [e] at hh
      obtain ⟨h0, hh0, rfl⟩ := List.mem_map.1 hh
      rw [P8.stepPrev_createdAt]
      have := H.createdAt o ob h0 hob hh0; omega
  · intro o ob' h ho hh
    obtain ⟨ob, hob, _, _, hc⟩ := P8.ended_rec E O hval ho
    rcases hc with ⟨rfl, _⟩ | ⟨_, _, nu, hnu, e⟩
    · exact H.prev o ob' h hob hh
    · rw [e] at hh
      obtain ⟨h0, hh0, rfl⟩ := List.mem_map.1 hh
      exact (P8.stepPrev_prev hnu (H.prev o ob h0 hob hh0)).1
  · intro o ob' h ho hst hh hp
    obtain ⟨ob, hob, _, est, _⟩ := P8.ended_rec E O hval ho
    rcases hst with hst | hst
    · exact absurd (O.created o ob hob (est ▸ hst)) (by simp)
    · exact absurd hp (hlast o ob' h ho hst hh)

end IncrVerif.Proofs.SubsH
