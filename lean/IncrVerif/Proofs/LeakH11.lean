import IncrVerif.Proofs.LeakH10
/-!
# C12 over histories, part 11: drop-order independence for whole histories
-/
namespace IncrVerif.Proofs.LeakH
open IncrVerif.Engine IncrVerif.Driver IncrVerif.Proofs IncrVerif.Proofs.Step IncrVerif.Proofs.Sched
open IncrVerif.Proofs.Quiet

/-- a static history, then a list of drops after which the program holds nothing: every permutation of the drops
also runs, also ends with the program holding nothing, and then one `stabilise` leaves no root -/
theorem history_perm_freed {env : Env} {N : Nat} {d : Bool} {acts drops drops' : List Action} {s : State}
    {tk : Array Nat} (ha : ∀ a, a ∈ acts → StaticAction env a) (hd : ∀ a, a ∈ drops → DropAction a)
    (hp : drops'.Perm drops)
    (hrun : runActions env (acts ++ drops) (State.init N d) #[] = .ok (s, tk)) (H : HoldsNothing s) :
    ∃ s2 tk2, runActions env (acts ++ drops') (State.init N d) #[] = .ok (s2, tk2) ∧ HoldsNothing s2 ∧
      DInv env s2 ∧
      ∀ fuel s', (stabilise env fuel).run.run s2 = (.ok (), s') → s'.roots = [] := by
  rw [runActions_append] at hrun
  rcases h0 : runActions env acts (State.init N d) #[] with e | ⟨s0, tk0⟩
  · rw [h0] at hrun; cases hrun
  · rw [h0] at hrun
    obtain ⟨s2, tk2, h2, H2⟩ := perm_runs_holdsNothing hd hp hrun H
    have hrun2 : runActions env (acts ++ drops') (State.init N d) #[] = .ok (s2, tk2) := by
      rw [runActions_append, h0]; exact h2
    have I2 := history_dinv ha (fun a hm => hd a (hp.mem_iff.1 hm)) hrun2
    exact ⟨s2, tk2, hrun2, H2, I2, fun fuel s' hs => freed_roots I2 H2 hs⟩

end IncrVerif.Proofs.LeakH
