import IncrVerif.Proofs.LeakF6
/-!
# LeakF7 — after the drops and one `stabilise`, only the variables' watch nodes are alive

From `engine_roots` (`roots = shared cells ++ variable nodes`), `VarsOK` of the state after the `stabilise`
(a variable's node has kind `var`, hence no strong reference) and the closure principle of reachability.
-/
namespace IncrVerif.Proofs.LeakF
open IncrVerif.Engine IncrVerif.Driver IncrVerif.Proofs IncrVerif.Proofs.FullH IncrVerif.Proofs.LeakH
open IncrVerif.Proofs.Own

variable {env : Env} {sp : Nat → Val → Val}

theorem only_vars_alive (E : EnvS env sp) (hF : FirstFn env) {fuel : Nat} {s s' : State} (Q : QInvFE env sp s)
    (OD : ObsDead s) (hh : s.handles = [])
    (hc : ∀ (o : Nat) (ob : ObsRec), s.observers[o]? = some ob → ob.clones = 0)
    (h : (stabilise env fuel).run.run s = (.ok (), s')) (hs : s'.slots = []) :
    ∀ n, n ∈ s'.aliveSet → ∃ c vc, s'.vars[c]? = some vc ∧ vc.node = n ∧ (s'.nodeD n).kind = .var c := by
  obtain ⟨-, hv, -, -, hr⟩ := engine_roots E hF Q OD hh hc h
  obtain ⟨g, Q⟩ := Q
  obtain ⟨g', R⟩ := stabilise_full' E hF Q h
  have V := (AuditF.audit_of_qinvF R.inv).vars
  intro n hn
  have hreach := (mem_aliveSet_iff s' n).1 hn
  refine ReachG.closed (P := fun n => ∃ c vc, s'.vars[c]? = some vc ∧ vc.node = n ∧ (s'.nodeD n).kind = .var c)
    ?_ ?_ hreach
  · intro m hm
    rw [hr, hs] at hm
    simp only [List.map_nil, List.nil_append, varRoots, List.mem_filterMap] at hm
    obtain ⟨vc, hmem, hif⟩ := hm
    obtain ⟨c, hc'⟩ := mem_toList_getElem? hmem
    rw [← hv] at hc'
    have hnode : vc.node = m := by
      split at hif
      · exact Option.some.inj hif
      · cases hif
    exact ⟨c, vc, hc', hnode, by rw [← hnode]; exact (V.cell c vc hc').2⟩
  · intro m k ⟨c, vc, _, _, hk⟩ hmem
    unfold State.refsOf at hmem
    rw [hk] at hmem
    simp at hmem

end IncrVerif.Proofs.LeakF
