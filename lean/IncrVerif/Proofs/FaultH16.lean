import IncrVerif.Proofs.FaultH15
/-!
# Faults in whole histories, part H3: the shadow theorem
-/
namespace IncrVerif.Proofs.FaultH
open IncrVerif.Engine IncrVerif.Driver IncrVerif.Proofs IncrVerif.Proofs.Step

/-- one action, same outcome: result or panic -/
theorem shadow_step {env : Env} {a : Action} (ha : FAction env a) (hns : a ≠ .stabilise) {u w : State}
    (tk : Array Nat) (he : er u = er w) (hu : NS u) (hw : NS w) :
    ∃ r u' w', (stepAction env a tk).run.run u = (r, u') ∧ (stepAction env a tk).run.run w = (r, w') ∧
      er u' = er w' ∧ NS u' ∧ NS w' := by
  rcases h1 : (stepAction env a tk).run.run u with ⟨r1, u'⟩
  rcases h2 : (stepAction env a tk).run.run w with ⟨r2, w'⟩
  obtain ⟨e1, n1⟩ := Sim.stepAction ha hns tk u hu r1 u' h1
  obtain ⟨e2, n2⟩ := Sim.stepAction ha hns tk w hw r2 w' h2
  rw [he, e2] at e1
  have hr : r2 = r1 := congrArg Prod.fst e1
  have hs : er w' = er u' := congrArg Prod.snd e1
  subst hr
  exact ⟨r2, u', w', rfl, rfl, hs.symm, n1, n2⟩

/-- what an action answers: its `api` text or its panic -/
def apiOf (env : Env) (a : Action) (st : State × Array Nat) : Except Panic String :=
  match (stepAction env a st.2).run.run st.1 with
  | (.ok r, _) => .ok r.1
  | (.error p, _) => .error p

/-- the answers of a history that continues after panics -/
def apis (env : Env) : List Action → State × Array Nat → List (Except Panic String)
  | [], _ => []
  | a :: as, st => apiOf env a st :: apis env as (stepCatch env a st)

theorem shadow_stepCatch {env : Env} {a : Action} (ha : FAction env a) (hns : a ≠ .stabilise) {u w : State}
    (tk : Array Nat) (he : er u = er w) (hu : NS u) (hw : NS w) :
    apiOf env a (u, tk) = apiOf env a (w, tk) ∧ (stepCatch env a (u, tk)).2 = (stepCatch env a (w, tk)).2 ∧
      er (stepCatch env a (u, tk)).1 = er (stepCatch env a (w, tk)).1 ∧
      NS (stepCatch env a (u, tk)).1 ∧ NS (stepCatch env a (w, tk)).1 := by
  obtain ⟨r, u', w', h1, h2, he', n1, n2⟩ := shadow_step ha hns tk he hu hw
  unfold apiOf stepCatch
  dsimp only
  rw [h1, h2]
  cases r <;> exact ⟨rfl, rfl, he', n1, n2⟩

/-- **the shadow theorem**: two states that differ only in what `er` erases answer every history without `stabilise` in
the same way — same `api` results, same panics, same token tables — and stay that close -/
theorem shadow_history {env : Env} : ∀ (acts : List Action) (u w : State) (tk : Array Nat),
    (∀ a, a ∈ acts → FAction env a ∧ a ≠ .stabilise) → er u = er w → NS u → NS w →
    apis env acts (u, tk) = apis env acts (w, tk) ∧
      (runCatch env acts (u, tk)).2 = (runCatch env acts (w, tk)).2 ∧
      er (runCatch env acts (u, tk)).1 = er (runCatch env acts (w, tk)).1 ∧
      NS (runCatch env acts (u, tk)).1 ∧ NS (runCatch env acts (w, tk)).1 := by
  intro acts
  induction acts with
  | nil => intro u w tk _ he hu hw; exact ⟨rfl, rfl, he, hu, hw⟩
  | cons a as ih =>
    intro u w tk ha he hu hw
    obtain ⟨h1, h2, h3, h4, h5⟩ :=
      shadow_stepCatch (ha a (List.mem_cons_self ..)).1 (ha a (List.mem_cons_self ..)).2 tk he hu hw
    rcases hx : stepCatch env a (u, tk) with ⟨u1, tk1⟩
    rcases hy : stepCatch env a (w, tk) with ⟨w1, tk2⟩
    rw [hx, hy] at h2 h3
    rw [hx] at h4
    rw [hy] at h5
    have htk : tk1 = tk2 := h2
    subst htk
    obtain ⟨i1, i2, i3, i4, i5⟩ := ih u1 w1 tk1 (fun b hb => ha b (List.mem_cons_of_mem _ hb)) h3 h4 h5
    simp only [apis, runCatch_cons, hx, hy]
    exact ⟨by rw [h1, i1], i2, i3, i4, i5⟩

/-- reads do not see what `er` erases -/
theorem read_er {env : Env} {u w : State} (he : er u = er w) (hu : NS u) (hw : NS w) (o : Nat) :
    u.tryGetValue env o = w.tryGetValue env o := by
  have hal : u.alive = w.alive := congrArg (fun x => x.alive) he
  have hnodes : u.nodes = w.nodes := congrArg (fun x => x.nodes) he
  have hobs : (u.observers[o]?).map erOb = (w.observers[o]?).map erOb := by
    have := congrArg (fun x => x.observers[o]?) he
    simpa only [Array.getElem?_map] using this
  have hval : ∀ n, u.value env n = w.value env n := fun n =>
    value_congr env w u (by rw [hnodes]) (fun m => by simp only [State.nodeD, hnodes]) n
  have e1 : (u.status == Status.stabilising) = false := by
    unfold NS at hu; cases hs : u.status <;> simp_all
  have e2 : (w.status == Status.stabilising) = false := by
    unfold NS at hw; cases hs : w.status <;> simp_all
  unfold State.tryGetValue
  rw [hal, e1, e2]
  cases hou : u.observers[o]? with
  | none =>
    rw [hou] at hobs
    cases how : w.observers[o]? with
    | none => rfl
    | some x => rw [how] at hobs; cases hobs
  | some a =>
    rw [hou] at hobs
    cases how : w.observers[o]? with
    | none => rw [how] at hobs; cases hobs
    | some b =>
      rw [how] at hobs
      simp only [Option.map_some, Option.some.injEq] at hobs
      have hs : a.state = b.state := congrArg (fun x => x.state) hobs
      have hn : a.node = b.node := congrArg (fun x => x.node) hobs
      dsimp only
      rw [hs, hn, hval]

theorem erOb_of_key {a b : ObsRec} (h : obsKey a = obsKey b) : erOb a = erOb b := by
  simp only [obsKey, Prod.mk.injEq] at h
  obtain ⟨h1, h2, h3, h4⟩ := h
  have hh : a.handlers.map erH = b.handlers.map erH := by
    have : ∀ l : List HandlerRec, l.map erH =
        (l.map fun h => (h.token, h.hid, h.createdAt)).map fun p =>
          ({ token := p.1, hid := p.2.1, prev := .neverBeenUpdated, createdAt := p.2.2 } : HandlerRec) := by
      intro l; rw [List.map_map]; rfl
    rw [this, this, h4]
  cases a; cases b
  simp only at h1 h2 h3 hh
  simp only [erOb, h1, h2, h3, hh]

/-- the state left by a handler panic differs from the fault-free final state only in what `er` erases -/
theorem er_of_hrel {s' t : State} (R : HRel s' { t with status := .notStabilising })
    (hp : t.panicCountdown = s'.panicCountdown) : er t = er s' := by
  have hobs : t.observers.map erOb = s'.observers.map erOb := by
    apply Array.ext_getElem?
    intro i
    have := R.obsAt i
    simp only [Array.getElem?_map]
    have h2 : ({ t with status := Status.notStabilising } : State).observers[i]? = t.observers[i]? := rfl
    rw [h2] at this
    cases ht : t.observers[i]? with
    | none =>
      rw [ht] at this
      cases hs : s'.observers[i]? with
      | none => rfl
      | some x => rw [hs] at this; cases this
    | some a =>
      rw [ht] at this
      cases hs : s'.observers[i]? with
      | none => rw [hs] at this; cases this
      | some b =>
        rw [hs] at this
        simp only [Option.map_some, Option.some.injEq] at this ⊢
        exact erOb_of_key this
  have hc := R.core
  have e1 : er t = { hcore ({ t with status := .notStabilising } : State) with
      status := .notStabilising, observers := t.observers.map erOb, panicCountdown := t.panicCountdown } := rfl
  have e2 : er s' = { hcore s' with
      status := .notStabilising, observers := s'.observers.map erOb, panicCountdown := s'.panicCountdown } := rfl
  rw [e1, e2, hc, hobs, hp]

end IncrVerif.Proofs.FaultH
