import IncrVerif.Proofs.ExpertH58
import IncrVerif.Proofs.ExpertH62
import IncrVerif.Proofs.ExpertH64
/-!
# Expert nodes, E2: the callback discipline over whole histories

`SlotInv` through `stabilise`, every action of fragment X1, whole histories; after every `stabilise` the slot of
every dependency with a callback of every necessary expert node holds the CURRENT value of the dependency's child.
-/
namespace IncrVerif.Proofs.ExpertH
open IncrVerif.Engine IncrVerif.Driver IncrVerif.Proofs IncrVerif.Proofs.Step IncrVerif.Proofs.Sched
open IncrVerif.Proofs.ExpertH.QR IncrVerif.Proofs.Xp

/-- `isStale` reads kinds, validity, the two stamps, the variables, the children and the expert records -/
theorem isStale_congr_fields {s s' : State}
    (hn : ∀ m, (s'.nodeD m).kind = (s.nodeD m).kind ∧ (s'.nodeD m).valid = (s.nodeD m).valid ∧
      (s'.nodeD m).recomputedAt = (s.nodeD m).recomputedAt ∧ (s'.nodeD m).changedAt = (s.nodeD m).changedAt)
    (hx : s'.experts = s.experts) (hv : s'.vars = s.vars) (m : Nat) (hch : s'.children m = s.children m) :
    s'.isStale m = s.isStale m := by
  have hfun : (fun c => decide ((s'.nodeD c).changedAt > (s.nodeD m).recomputedAt)) =
      fun c => decide ((s.nodeD c).changedAt > (s.nodeD m).recomputedAt) :=
    funext fun c => by rw [(hn c).2.2.2]
  unfold State.isStale Node.kind?
  simp only [hch, (hn m).1, (hn m).2.1, (hn m).2.2.1, hx, hv, hfun]

/-- in the fragment (no bind kinds) the children are read from the kind and the expert records -/
theorem children_congr_x {env : Env} {s s' : State} (F : XFrag env s)
    (hk : ∀ m, (s'.nodeD m).kind = (s.nodeD m).kind) (hvl : ∀ m, (s'.nodeD m).valid = (s.nodeD m).valid)
    (hx : s'.experts = s.experts) (m : Nat) : s'.children m = s.children m := by
  unfold State.children Node.kind?
  rw [hk m, hvl m, hx]
  have hK := F.kindD m
  by_cases hv : (s.nodeD m).valid = true
  · simp only [hv, if_true]
    cases hkd : (s.nodeD m).kind <;> rw [hkd] at hK <;> first | rfl | exact False.elim hK
  · simp only [hv]
    rfl

/-- `stabiliseEnd` (no deferred writes, no dead variables, no handlers) keeps `SlotInv` -/
theorem slotInv_finished {env : Env} {t s' : State} (F : XFrag env t) (L : SlotInv env t) (E : Finished' t s') :
    SlotInv env s' := by
  have hnode : ∀ m, (s'.nodeD m).kind = (t.nodeD m).kind ∧ (s'.nodeD m).valid = (t.nodeD m).valid ∧
      (s'.nodeD m).recomputedAt = (t.nodeD m).recomputedAt ∧ (s'.nodeD m).changedAt = (t.nodeD m).changedAt ∧
      (s'.nodeD m).value = (t.nodeD m).value ∧ (s'.nodeD m).isNecessary = (t.nodeD m).isNecessary := by
    intro m
    obtain ⟨b, hb⟩ := E.node m
    rw [hb]
    exact ⟨rfl, rfl, rfl, rfl, rfl, rfl⟩
  have xf : XF t s' :=
    ⟨E.size, fun m => (hnode m).1, by rw [E.experts], fun e => by rw [E.experts], E.nextDep⟩
  refine L.of_frame xf E.experts (fun m => ?_) (fun m => ?_) (fun m => ?_)
  · have hk : ∀ p i, (s'.nodeD m).kind ≠ .mapRef p i := by rw [(hnode m).1]; exact F.noMapRef m
    rw [value_plain env s' m hk, value_plain env t m (F.noMapRef m)]
    exact (hnode m).2.2.2.2.1
  · simp only [State.isNecessary]; exact (hnode m).2.2.2.2.2
  · exact isStale_congr_fields (fun k => ⟨(hnode k).1, (hnode k).2.1, (hnode k).2.2.1, (hnode k).2.2.2.1⟩)
      E.experts E.vars m (children_congr_x F (fun k => (hnode k).1) (fun k => (hnode k).2.1) E.experts m)

/-- `SlotInv` does not read the status -/
theorem slotInv_status {env : Env} {s : State} (L : SlotInv env s) (x : Status) :
    SlotInv env { s with status := x } :=
  L.of_frame (XF.of_nodes rfl rfl rfl) rfl
    (fun m => value_congr env s { s with status := x } rfl (fun _ => rfl) m) (fun _ => rfl) (fun _ => rfl)

/-- **E2: `stabilise` keeps the callback discipline** -/
theorem stabilise_slots {env : Env} {rk : Nat → Nat} {fuel : Nat} {s s' : State} (Q : QInvX env rk s)
    (L : SlotInv env s) (h : (stabilise env fuel).run.run s = (.ok (), s')) : SlotInv env s' := by
  obtain ⟨t1, t2, t3, h1, h2, D2, U2, h3, -, E⟩ := (stabiliseX Q h).runs
  have hv0 : ∀ m, (({ s with status := .stabilising } : State).nodeD m).valid = true := Q.frag.validD
  have hp0 : ({ s with status := .stabilising } : State).propagateInvalidity = [] := Q.pinv
  have L0 := slotInv_status L .stabilising
  have L1 := addNewObservers_slots hv0 hp0 L0 h1
  have hv1 : ∀ m, (t1.nodeD m).valid = true :=
    (((PresC.addNewObservers env fuel).h _ _ _ h1) hv0 hp0).1.allValid hv0
  have L2 := unlinkDisallowedObservers_slots hv1 L1 h2
  have L3 := drainHeapX_slots fuel t2 t3 D2 U2 L2 h3
  obtain ⟨D3, -, -⟩ := drainHeapX_inv fuel t2 t3 D2 h3
  exact slotInv_finished D3.frag L3 E

/-- **E2: every action of fragment X1 keeps the callback discipline** -/
theorem step_x_slots {env : Env} {rk : Nat → Nat} {s s' : State} {a : Action} {tk : Array Nat}
    {r : String × Array Nat} (Q : QInvX env rk s) (L : SlotInv env s) (ha : XActionOK env s a)
    (h : (stepAction env a tk).run.run s = (.ok r, s')) : SlotInv env s' := by
  cases a
  case create i =>
    cases i
    case expert f => exact create_expert_slots Q L h
    all_goals (refine action_static_slots Q L ?_ h; exact ha)
  case addDep eo co cb => exact addDep_slots Q L ha h
  case stabilise => exact stabilise_slots Q L (step_stabilise h)
  all_goals (refine action_static_slots Q L ?_ h; exact ha)

/-- the two invariants along a run of the fragment -/
theorem run_x_slots {env : Env} {rk : Nat → Nat} {acts : List Action} {s s' : State} {tk tk' : Array Nat}
    (Q : QInvX env rk s) (L : SlotInv env s) (ha : RunOK env acts s tk)
    (h : runActions env acts s tk = .ok (s', tk')) : ∃ rk', QInvX env rk' s' ∧ SlotInv env s' := by
  induction acts generalizing s tk rk with
  | nil => simp only [runActions] at h; cases h; exact ⟨rk, Q, L⟩
  | cons a as ih =>
    simp only [runActions] at h
    rcases hx : (stepAction env a tk).run.run s with ⟨_ | r, s1⟩
    · rw [hx] at h; cases h
    · rw [hx] at h
      obtain ⟨rk1, Q1⟩ := step_x Q ha.1 hx
      exact ih Q1 (step_x_slots Q L ha.1 hx) (ha.2 r s1 hx) h

/-- after a `stabilise`: the slot of every dependency with a callback of every NECESSARY expert node holds the
current value of the dependency's child, which exists -/
def SlotsCurrent (env : Env) (s : State) : Prop :=
  ∀ (n e : Nat) (er : ExpertRec), s.isNecessary n = true → (s.nodeD n).kind = .expert e →
    s.experts[e]? = some er → ∀ ed, ed ∈ er.children → ed.cb.isSome = true →
      ∃ v, s.value env ed.child = some v ∧ er.slots.lookup ed.dep = some v

theorem slotsCurrent_of_stabilised {env : Env} {rk : Nat → Nat} {fuel : Nat} {s s' : State}
    (R : StabilisedX env rk fuel s s') (L : SlotInv env s') : SlotsCurrent env s' := by
  intro n e er hn hk hx ed hed hcb
  have hns := (R.values n hn _ (Nat.lt_succ_self _)).1
  have hg := L.good n e er hk hx (Or.inr hns) ed hed hcb
  obtain ⟨vals, hvals, -⟩ := expert_value_sum R hn hk hx
  have hm : s'.value env ed.child ∈ er.children.map (fun ed => s'.value env ed.child) :=
    List.mem_map.2 ⟨ed, hed, rfl⟩
  rw [hvals] at hm
  obtain ⟨v, -, hv⟩ := List.mem_map.1 hm
  exact ⟨v, hv.symm, by rw [hg, ← hv]⟩

/-- **E2 for whole histories.**  At every `stabilise` of a history of fragment X1: both invariants hold before and
after, the reads are the from-scratch values, and every callback slot of every necessary expert node is current. -/
theorem history_stabilise_slots {env : Env} {N : Nat} {d : Bool} {as bs : List Action} {s : State} {tk : Array Nat}
    (ha : RunOK env (as ++ Action.stabilise :: bs) (State.init N d) #[])
    (h : runActions env (as ++ Action.stabilise :: bs) (State.init N d) #[] = .ok (s, tk)) :
    ∃ s1 tk1 s2 rk1, runActions env as (State.init N d) #[] = .ok (s1, tk1) ∧ QInvX env rk1 s1 ∧ SlotInv env s1 ∧
      (stabilise env fuelDefault).run.run s1 = (.ok (), s2) ∧ StabilisedX env rk1 fuelDefault s1 s2 ∧
      SlotInv env s2 ∧ SlotsCurrent env s2 ∧ ReadsOKX env s2 ∧
      runActions env bs s2 tk1 = .ok (s, tk) := by
  obtain ⟨s1, tk1, s2, rk1, h1, Q1, hst, R, r1, -, -, h2⟩ := history_stabilise_x ha h
  obtain ⟨i1, -⟩ := ha.append h1
  obtain ⟨rk1', -, L1⟩ := run_x_slots (qinvX_init env N d) (slotInv_init env N d) i1 h1
  have L2 := stabilise_slots Q1 L1 hst
  exact ⟨s1, tk1, s2, rk1, h1, Q1, L1, hst, R, L2, slotsCurrent_of_stabilised R L2, r1, h2⟩

theorem history_slots {env : Env} {N : Nat} {d : Bool} {acts : List Action} {s : State} {tk : Array Nat}
    (ha : RunOK env acts (State.init N d) #[])
    (h : runActions env acts (State.init N d) #[] = .ok (s, tk)) : ∃ rk, QInvX env rk s ∧ SlotInv env s :=
  run_x_slots (qinvX_init env N d) (slotInv_init env N d) ha h

end IncrVerif.Proofs.ExpertH
