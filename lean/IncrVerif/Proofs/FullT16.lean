import IncrVerif.Proofs.FullT4
import IncrVerif.Proofs.NestH123
import IncrVerif.Proofs.NestH118
/-!
# C04 combined fragment: the totality invariant `NestH.DT` through a step described by `StepRelB` (+ frames): `dt_vstep`
-/
namespace IncrVerif.Proofs.FullT
open IncrVerif.Engine IncrVerif.Proofs IncrVerif.Proofs.Step IncrVerif.Proofs.Sched IncrVerif.Proofs.Quiet IncrVerif.Proofs.FullH
open IncrVerif.Proofs.BindH (DInv BGraph StepRelB TargetB FrameB)
open IncrVerif.Proofs.NestH (AuxS2 Aux2 GenOK2 F2Inv DT HBo2 RhsRan Lim cnt)

/-- **the totality invariant after a step of a node that is not a change detector**, from the step relation (the three special steps: map_ref, map_with_old, verdict) -/
theorem dt_vstep {env : Env} {N n : Nat} {v : Val} {ch : Bool} {r : Option Nat} {s s' : State}
    (T : DT env N s) (I : DInv env s (some n)) (V : MR.VStep n v ch r s s')
    (hk : ∀ b, (s.nodeD n).kind ≠ .bindLhsChange b) : DT env N s' := by
  obtain ⟨rk, A, hb, H, L⟩ := T
  have R := V.rel
  have K := V.key
  simp only [KeyD, stateKeyD, Prod.mk.injEq] at K
  obtain ⟨-, -, -, -, -, -, -, -, -, -, hahh⟩ := K
  refine ⟨rk, V.f2 I.graph A, ?_, ?_, ?_⟩
  · intro m hm ho
    rw [isNecessary_of_shape (fun m => R.shapes m)] at hm
    rw [(R.shapes m).height, R.size]
    exact hb m hm ho
  · intro b br hbr hv hrec
    rw [R.binds] at hbr
    rw [(R.shapes _).valid] at hv
    apply H b br hbr hv
    by_cases e : br.lhsChange = n
    · exfalso
      have hkl := (A.frag.recs b br hbr).2.2.1
      rw [e] at hkl
      exact hk b hkl
    · rw [(R.other _ e).recomputedAt] at hrec; exact hrec
  · exact ⟨by rw [hahh]; exact L.ahh, by rw [maxAllowed_congr R.qsize]; exact L.rch⟩

end IncrVerif.Proofs.FullT
