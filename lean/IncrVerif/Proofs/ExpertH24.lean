import IncrVerif.Proofs.ExpertH23
/-!
# Expert fragment: the `xsim` tactics; simulation of the heap and height functions
-/
namespace IncrVerif.Proofs.ExpertH
open IncrVerif.Engine IncrVerif.Driver IncrVerif.Proofs IncrVerif.Proofs.Step IncrVerif.Proofs.Sched

theorem SimAt.forIn_at {β γ : Type} (l : List γ) {f f' : γ → β → M (ForInStep β)} (h : ∀ a b, Sim (f a b) (f' a b))
    (b : β) {s : State} : SimAt s (ForIn.forIn l b f) (ForIn.forIn l b f') := Sim.forIn l h b s

/-- registered `Sim` lemmas -/
syntax "xsim_leaf" : tactic
macro_rules | `(tactic| xsim_leaf) => `(tactic| fail "no leaf")

set_option hygiene false in
macro "xsim_step" : tactic => `(tactic| first
  | with_reducible exact IncrVerif.Proofs.ExpertH.SimAt.ret _
  | with_reducible exact IncrVerif.Proofs.ExpertH.SimAt.thr _ _
  | with_reducible exact IncrVerif.Proofs.ExpertH.SimAt.pan _ _
  | ((with_reducible refine IncrVerif.Proofs.ExpertH.SimAt.get_seq ?_); try xnorm)
  | ((with_reducible refine IncrVerif.Proofs.ExpertH.SimAt.getNode_seq fun nd hnd hxk hval => ?_); try xnorm)
  | ((with_reducible refine IncrVerif.Proofs.ExpertH.SimAt.mod_seq ?_ ?_ ?_ ?_ ?_ ?_) <;> (first | rfl | skip))
  | ((with_reducible refine IncrVerif.Proofs.ExpertH.SimAt.mod ?_ ?_ ?_ ?_ ?_) <;> rfl)
  | ((with_reducible refine IncrVerif.Proofs.ExpertH.Sim.at ?_ _); xsim_leaf)
  | ((with_reducible refine IncrVerif.Proofs.ExpertH.SimAt.forIn_at _ (fun _ _ => ?_) _); intro _)
  | (with_reducible refine IncrVerif.Proofs.ExpertH.SimAt.seq ?_ fun _ _ _ => ?_)
  | (refine IncrVerif.Proofs.ExpertH.SimAt.cond Iff.rfl (fun _ => ?_) (fun _ => ?_)))

macro "xsim" : tactic => `(tactic| repeat (any_goals xsim_step))

set_option hygiene false in
/-- a `match` on the kind of the node last read by `getNode` -/
macro "xsim_kind" : tactic => `(tactic| (
  simp only [IncrVerif.Proofs.ExpertH.virtNode_kind?, IncrVerif.Proofs.ExpertH.kind?_of_valid hval, Option.map_some]
  cases hk : nd.kind
  all_goals simp only [IncrVerif.Proofs.ExpertH.virtKind]
  all_goals try exact absurd hxk (by rw [hk]; exact fun h => h)
  xsim))

macro_rules | `(tactic| xsim_leaf) => `(tactic| with_reducible exact IncrVerif.Proofs.ExpertH.Sim.dassert _ _)
macro_rules | `(tactic| xsim_leaf) => `(tactic| with_reducible exact IncrVerif.Proofs.ExpertH.Sim.assertM _ _)
macro_rules | `(tactic| xsim_leaf) => `(tactic| with_reducible exact IncrVerif.Proofs.ExpertH.Sim.tick)
macro_rules | `(tactic| xsim_leaf) => `(tactic|
  ((with_reducible refine IncrVerif.Proofs.ExpertH.Sim.modNode _ ?_ ?_) <;> first | xcomm | xkind))
macro_rules | `(tactic| xsim_leaf) => `(tactic|
  with_reducible exact IncrVerif.Proofs.ExpertH.Sim.observabilityChange _ _)
macro_rules | `(tactic| xsim_leaf) => `(tactic|
  with_reducible exact IncrVerif.Proofs.ExpertH.Sim.runEdgeCallback _ _ _)
macro_rules | `(tactic| xsim_leaf) => `(tactic|
  with_reducible exact IncrVerif.Proofs.ExpertH.Sim.edgeOnChange _ _ _)

theorem Sim.addParent (c i p : Nat) : Sim (Engine.addParent c i p) (Engine.addParent c i p) := by
  intro s; unfold Engine.addParent; xsim
macro_rules | `(tactic| xsim_leaf) => `(tactic| with_reducible exact IncrVerif.Proofs.ExpertH.Sim.addParent _ _ _)

theorem Sim.removeParent (c i p : Nat) : Sim (Engine.removeParent c i p) (Engine.removeParent c i p) := by
  intro s; unfold Engine.removeParent; xsim
  split <;> xsim
macro_rules | `(tactic| xsim_leaf) => `(tactic| with_reducible exact IncrVerif.Proofs.ExpertH.Sim.removeParent _ _ _)

theorem Sim.setHeight (n : Nat) (h : Int) : Sim (Engine.setHeight n h) (Engine.setHeight n h) := by
  intro s; unfold Engine.setHeight; xsim
macro_rules | `(tactic| xsim_leaf) => `(tactic| with_reducible exact IncrVerif.Proofs.ExpertH.Sim.setHeight _ _)

theorem Sim.rchLink (n : Nat) : Sim (Engine.rchLink n) (Engine.rchLink n) := by
  intro s; unfold Engine.rchLink; xsim
macro_rules | `(tactic| xsim_leaf) => `(tactic| with_reducible exact IncrVerif.Proofs.ExpertH.Sim.rchLink _)

theorem Sim.rchUnlink (n : Nat) : Sim (Engine.rchUnlink n) (Engine.rchUnlink n) := by
  intro s; unfold Engine.rchUnlink; xsim
  split <;> xsim
  split <;> xsim
  split <;> xsim
macro_rules | `(tactic| xsim_leaf) => `(tactic| with_reducible exact IncrVerif.Proofs.ExpertH.Sim.rchUnlink _)

theorem Sim.rchInsert (n : Nat) : Sim (Engine.rchInsert n) (Engine.rchInsert n) := by
  intro s; unfold Engine.rchInsert; xsim
macro_rules | `(tactic| xsim_leaf) => `(tactic| with_reducible exact IncrVerif.Proofs.ExpertH.Sim.rchInsert _)

theorem Sim.rchRemove (n : Nat) : Sim (Engine.rchRemove n) (Engine.rchRemove n) := by
  intro s; unfold Engine.rchRemove; xsim
macro_rules | `(tactic| xsim_leaf) => `(tactic| with_reducible exact IncrVerif.Proofs.ExpertH.Sim.rchRemove _)

theorem Sim.rchRemoveMin : Sim Engine.rchRemoveMin Engine.rchRemoveMin := by
  intro s; unfold Engine.rchRemoveMin; xsim
  split <;> xsim
macro_rules | `(tactic| xsim_leaf) => `(tactic| with_reducible exact IncrVerif.Proofs.ExpertH.Sim.rchRemoveMin)

theorem Sim.rchMinHeight : Sim Engine.rchMinHeight Engine.rchMinHeight := by
  intro s; unfold Engine.rchMinHeight; xsim
  exact SimAt.ret _
macro_rules | `(tactic| xsim_leaf) => `(tactic| with_reducible exact IncrVerif.Proofs.ExpertH.Sim.rchMinHeight)

theorem Sim.rchIncreaseHeight (n : Nat) : Sim (Engine.rchIncreaseHeight n) (Engine.rchIncreaseHeight n) := by
  intro s; unfold Engine.rchIncreaseHeight; xsim
macro_rules | `(tactic| xsim_leaf) => `(tactic| with_reducible exact IncrVerif.Proofs.ExpertH.Sim.rchIncreaseHeight _)

theorem Sim.ahhAddUnlessMem (n : Nat) : Sim (Engine.ahhAddUnlessMem n) (Engine.ahhAddUnlessMem n) := by
  intro s; unfold Engine.ahhAddUnlessMem; xsim
macro_rules | `(tactic| xsim_leaf) => `(tactic| with_reducible exact IncrVerif.Proofs.ExpertH.Sim.ahhAddUnlessMem _)

theorem Sim.ahhRemoveMin : Sim Engine.ahhRemoveMin Engine.ahhRemoveMin := by
  intro s; unfold Engine.ahhRemoveMin; xsim
  split <;> xsim
macro_rules | `(tactic| xsim_leaf) => `(tactic| with_reducible exact IncrVerif.Proofs.ExpertH.Sim.ahhRemoveMin)

theorem Sim.ensureHeightRequirement (oc op c p : Nat) :
    Sim (Engine.ensureHeightRequirement oc op c p) (Engine.ensureHeightRequirement oc op c p) := by
  intro s; unfold Engine.ensureHeightRequirement; xsim
macro_rules | `(tactic| xsim_leaf) => `(tactic|
  with_reducible exact IncrVerif.Proofs.ExpertH.Sim.ensureHeightRequirement _ _ _ _)

theorem Sim.getBind (b : Nat) : Sim (Engine.getBind b) (Engine.getBind b) := by
  intro s; unfold Engine.getBind; xsim
  split <;> xsim
macro_rules | `(tactic| xsim_leaf) => `(tactic| with_reducible exact IncrVerif.Proofs.ExpertH.Sim.getBind _)

theorem Sim.bumpCounter (f : Counters → Counters) : Sim (Engine.bumpCounter f) (Engine.bumpCounter f) := by
  intro s; unfold Engine.bumpCounter; xsim
macro_rules | `(tactic| xsim_leaf) => `(tactic| with_reducible exact IncrVerif.Proofs.ExpertH.Sim.bumpCounter _)

theorem Sim.scopeHeight (sc : Scope) : Sim (Engine.scopeHeight sc) (Engine.scopeHeight sc) := by
  intro s; unfold Engine.scopeHeight
  cases sc with
  | top => xsim
  | bind b => xsim
macro_rules | `(tactic| xsim_leaf) => `(tactic| with_reducible exact IncrVerif.Proofs.ExpertH.Sim.scopeHeight _)

theorem Sim.scopeIsNecessary (sc : Scope) : Sim (Engine.scopeIsNecessary sc) (Engine.scopeIsNecessary sc) := by
  intro s; unfold Engine.scopeIsNecessary
  cases sc with
  | top => xsim
  | bind b => xsim
macro_rules | `(tactic| xsim_leaf) => `(tactic| with_reducible exact IncrVerif.Proofs.ExpertH.Sim.scopeIsNecessary _)

theorem Sim.handleAfterStabilisation (n : Nat) :
    Sim (Engine.handleAfterStabilisation n) (Engine.handleAfterStabilisation n) := by
  intro s; unfold Engine.handleAfterStabilisation; xsim
macro_rules | `(tactic| xsim_leaf) => `(tactic|
  with_reducible exact IncrVerif.Proofs.ExpertH.Sim.handleAfterStabilisation _)

theorem Sim.maybeHandleAfterStabilisation (n : Nat) :
    Sim (Engine.maybeHandleAfterStabilisation n) (Engine.maybeHandleAfterStabilisation n) := by
  intro s; unfold Engine.maybeHandleAfterStabilisation; xsim
macro_rules | `(tactic| xsim_leaf) => `(tactic|
  with_reducible exact IncrVerif.Proofs.ExpertH.Sim.maybeHandleAfterStabilisation _)

/-- no map_ref nodes: a no-op on both sides -/
theorem Sim.markMapRefUnknown (fuel n : Nat) :
    Sim (Engine.markMapRefUnknown fuel n) (Engine.markMapRefUnknown fuel n) := by
  intro s
  cases fuel with
  | zero => unfold Engine.markMapRefUnknown; xsim
  | succ fuel =>
    unfold Engine.markMapRefUnknown
    xsim
    xsim_kind
macro_rules | `(tactic| xsim_leaf) => `(tactic| with_reducible exact IncrVerif.Proofs.ExpertH.Sim.markMapRefUnknown _ _)

/-! ## `adjust_heights` (no bind nodes: the `bindLhsChange` branch is dead) -/

theorem Sim.adjustHeightsLoop (oc op fuel : Nat) :
    Sim (Engine.adjustHeightsLoop oc op fuel) (Engine.adjustHeightsLoop oc op fuel) := by
  induction fuel with
  | zero => intro s; unfold Engine.adjustHeightsLoop; xsim
  | succ fuel ih =>
    intro s
    unfold Engine.adjustHeightsLoop
    refine SimAt.seq (Sim.ahhRemoveMin s) fun r s1 _ => ?_
    cases r with
    | none => exact SimAt.ret _
    | some c =>
      dsimp only
      xsim
      all_goals first
        | exact ih _
        | (xsim_kind; all_goals exact ih _)
macro_rules | `(tactic| xsim_leaf) => `(tactic|
  with_reducible exact IncrVerif.Proofs.ExpertH.Sim.adjustHeightsLoop _ _ _)

theorem Sim.adjustHeights (oc op fuel : Nat) :
    Sim (Engine.adjustHeights oc op fuel) (Engine.adjustHeights oc op fuel) := by
  intro s; unfold Engine.adjustHeights; xsim
  · simp only [virt_nodeD, virtNode_height]; rfl
macro_rules | `(tactic| xsim_leaf) => `(tactic| with_reducible exact IncrVerif.Proofs.ExpertH.Sim.adjustHeights _ _ _)

end IncrVerif.Proofs.ExpertH
