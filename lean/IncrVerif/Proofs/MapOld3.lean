import IncrVerif.Proofs.MapOld1
/-!
# map_with_old fragment: the simulation calculus

`Sim x x'`: every successful run of `x` from `s` is matched by a successful run of `x'` from `virt s`, with the
same result and ending in `virt` of the final state.
-/
namespace IncrVerif.Proofs.MapOldH
open IncrVerif.Engine IncrVerif.Proofs IncrVerif.Proofs.Step IncrVerif.Proofs.Sched IncrVerif.Proofs.Quiet

/-- what the simulation needs to know of the actual state all along: no expert nodes, no map_ref nodes, no invalid
nodes, no pending invalidation -/
structure Fr (s : State) : Prop where
  noExp : ∀ n e, (s.nodeD n).kind ≠ .expert e
  valid : ∀ n, (s.nodeD n).valid = true
  pinv : s.propagateInvalidity = []
  noRef : ∀ n p i, (s.nodeD n).kind ≠ .mapRef p i

theorem Fr.of_nodes {s s' : State} (h : Fr s) (e : s'.nodes = s.nodes)
    (e2 : s'.propagateInvalidity = s.propagateInvalidity) : Fr s' := by
  have hn : ∀ n, s'.nodeD n = s.nodeD n := fun n => by simp [State.nodeD, e]
  exact ⟨fun n x => by rw [hn]; exact h.noExp n x, fun n => by rw [hn]; exact h.valid n, by rw [e2]; exact h.pinv,
    fun n p i => by rw [hn]; exact h.noRef n p i⟩

theorem Fr.some {s : State} (h : Fr s) {n : Nat} {nd : Node} (hn : s.nodes[n]? = some nd) :
    (∀ e, nd.kind ≠ .expert e) ∧ (∀ p i, nd.kind ≠ .mapRef p i) ∧ nd.valid = true := by
  have h1 := h.noExp n; have h2 := h.valid n; have h3 := h.noRef n
  rw [nodeD_of_some hn] at h1 h2 h3; exact ⟨h1, h3, h2⟩

def SimAt (s : State) {α} (x x' : M α) : Prop :=
  Fr s → ∀ r s', x.run.run s = (.ok r, s') → x'.run.run (virt s) = (.ok r, virt s') ∧ Fr s'

def Sim {α} (x x' : M α) : Prop := ∀ s, SimAt s x x'

section
variable {s : State} {α β : Type}

theorem Sim.at {x x' : M α} (h : Sim x x') (s : State) : SimAt s x x' := h s

theorem SimAt.ret (a : α) : SimAt s (pure a : M α) (pure a) := by
  intro hn r s' h; rw [run_pure] at h; cases h; exact ⟨rfl, hn⟩

theorem SimAt.thr (e : Panic) (x' : M α) : SimAt s (throw e : M α) x' := by
  intro _ r s' h; rw [run_throw] at h; cases h

theorem SimAt.pan (e : String) (x' : M α) : SimAt s (Engine.panic e : M α) x' := SimAt.thr _ _

theorem SimAt.seq {x x' : M α} {f f' : α → M β} (hx : SimAt s x x')
    (hf : ∀ a s1, x.run.run s = (.ok a, s1) → SimAt s1 (f a) (f' a)) :
    SimAt s (x >>= f) (x' >>= f') := by
  intro hn r s' h
  obtain ⟨a, s1, h1, h2⟩ := bind_ok_inv h
  obtain ⟨e1, n1⟩ := hx hn a s1 h1
  rw [run_bind_ok e1]
  exact hf a s1 h1 n1 r s' h2

theorem SimAt.get_seq {k k' : State → M β} (h : SimAt s (k s) (k' (virt s))) :
    SimAt s (get >>= k) (get >>= k') := by
  intro hn r s' hr
  rw [run_bind_get] at hr ⊢
  exact h hn r s' hr

theorem SimAt.getNode_seq {n : Nat} {k k' : Node → M β}
    (h : ∀ nd, s.nodes[n]? = some nd → (∀ e, nd.kind ≠ .expert e) → (∀ p i, nd.kind ≠ .mapRef p i) →
      nd.valid = true → SimAt s (k nd) (k' (virtNode nd))) :
    SimAt s (getNode n >>= k) (getNode n >>= k') := by
  intro hn r s' hr
  obtain ⟨nd, hnd, hr⟩ := bind_getNode_inv hr
  have hv : (virt s).nodes[n]? = some (virtNode nd) := by rw [virt_getElem?, hnd]; rfl
  rw [run_bind_ok (run_getNode_some hv)]
  exact h nd hnd (hn.some hnd).1 (hn.some hnd).2.1 (hn.some hnd).2.2 hn r s' hr

theorem SimAt.mod {f f' : State → State} (h : virt (f s) = f' (virt s)) (hn : (f s).nodes = s.nodes)
    (hp : (f s).propagateInvalidity = s.propagateInvalidity) :
    SimAt s (modify f : M Unit) (modify f') := by
  intro hne r s' hr; rw [run_modify] at hr ⊢; cases hr; rw [h]; exact ⟨rfl, hne.of_nodes hn hp⟩

theorem SimAt.mod_seq {f f' : State → State} {k k' : Unit → M β} (h : virt (f s) = f' (virt s))
    (hn : (f s).nodes = s.nodes) (hp : (f s).propagateInvalidity = s.propagateInvalidity)
    (hk : SimAt (f s) (k ()) (k' ())) :
    SimAt s ((modify f : M Unit) >>= k) ((modify f' : M Unit) >>= k') := by
  intro hne r s' hr
  rw [run_bind_modify] at hr ⊢
  rw [← h]; exact hk (hne.of_nodes hn hp) r s' hr

theorem SimAt.cond {c c' : Prop} {_ : Decidable c} {_ : Decidable c'} {a b a' b' : M α} (hc : c ↔ c')
    (ha : c → SimAt s a a') (hb : ¬ c → SimAt s b b') :
    SimAt s (if c then a else b) (if c' then a' else b') := by
  by_cases h : c
  · rw [if_pos h, if_pos (hc.1 h)]; exact ha h
  · rw [if_neg h, if_neg (fun h' => h (hc.2 h'))]; exact hb h

theorem fr_modify {s : State} (hn : Fr s) (n : Nat) (f : Node → Node)
    (hk : ∀ nd, (f nd).kind = nd.kind ∧ (f nd).valid = nd.valid ∧ (f nd).cutoff = nd.cutoff) :
    Fr { s with nodes := s.nodes.modify n f } := by
  refine ⟨fun m e => ?_, fun m => ?_, hn.pinv, fun m p i => ?_⟩
  rotate_left 2
  · rw [nodeD_modify]
    split
    · rw [(hk _).1]; exact hn.noRef m p i
    · exact hn.noRef m p i
  · rw [nodeD_modify]
    split
    · rw [(hk _).1]; exact hn.noExp m e
    · exact hn.noExp m e
  · rw [nodeD_modify]
    split
    · rw [(hk _).2.1]; exact hn.valid m
    · exact hn.valid m

/-- a commuting node update -/
theorem Sim.modNode (n : Nat) {f f' : Node → Node} (hf : ∀ nd, virtNode (f nd) = f' (virtNode nd))
    (hk : ∀ nd, (f nd).kind = nd.kind ∧ (f nd).valid = nd.valid ∧ (f nd).cutoff = nd.cutoff) :
    Sim (Engine.modNode n f) (Engine.modNode n f') := by
  intro s hne r s' hr
  rw [run_modNode] at hr ⊢
  cases hr
  refine ⟨?_, fr_modify hne n f hk⟩
  congr 1
  simp only [virt]
  congr 1
  apply Array.ext
  · simp
  · intro i h1 h2
    simp only [Array.getElem_map, Array.getElem_modify]
    split
    · rename_i e; subst e; exact (hf _).symm
    · rfl

theorem Sim.forIn {γ : Type} (l : List γ) {f f' : γ → β → M (ForInStep β)} (h : ∀ a b, Sim (f a b) (f' a b))
    (b : β) : Sim (ForIn.forIn l b f) (ForIn.forIn l b f') := by
  induction l generalizing b with
  | nil => intro s; rw [List.forIn_nil, List.forIn_nil]; exact SimAt.ret _
  | cons a l ih =>
    intro s
    rw [List.forIn_cons, List.forIn_cons]
    refine SimAt.seq (h a b s) fun r s1 _ => ?_
    cases r with
    | done b' => exact SimAt.ret _
    | yield b' => exact ih b' s1

end

/-! ## field projections of `virt` -/
section
variable (s : State)
theorem virt_cfg : (virt s).cfg = s.cfg := rfl
theorem virt_binds : (virt s).binds = s.binds := rfl
theorem virt_experts : (virt s).experts = s.experts := rfl
theorem virt_observers : (virt s).observers = s.observers := rfl
theorem virt_ahh : (virt s).ahh = s.ahh := rfl
theorem virt_maxHeightSeen : (virt s).maxHeightSeen = s.maxHeightSeen := rfl
theorem virt_status : (virt s).status = s.status := rfl
theorem virt_currentScope : (virt s).currentScope = s.currentScope := rfl
theorem virt_propagateInvalidity : (virt s).propagateInvalidity = s.propagateInvalidity := rfl
theorem virt_handleAfterStab : (virt s).handleAfterStab = s.handleAfterStab := rfl
theorem virt_newObservers : (virt s).newObservers = s.newObservers := rfl
theorem virt_disallowedObservers : (virt s).disallowedObservers = s.disallowedObservers := rfl
theorem virt_allObservers : (virt s).allObservers = s.allObservers := rfl
theorem virt_setDuringStab : (virt s).setDuringStab = s.setDuringStab := rfl
theorem virt_deadVars : (virt s).deadVars = s.deadVars := rfl
theorem virt_counters : (virt s).counters = s.counters := rfl
theorem virt_panicCountdown : (virt s).panicCountdown = s.panicCountdown := rfl
theorem virt_alive : (virt s).alive = s.alive := rfl
theorem virt_top : (virt s).top = s.top := rfl
theorem virt_handles : (virt s).handles = s.handles := rfl
theorem virt_slots : (virt s).slots = s.slots := rfl
theorem virt_log : (virt s).log = s.log := rfl
end

/-- normalise everything a model function reads of `virt s` / `virtNode nd` -/
macro "wnorm" : tactic => `(tactic| simp only [virt_cfg, virt_binds, virt_experts, virt_observers, virt_ahh,
  virt_maxHeightSeen, virt_status, virt_currentScope, virt_propagateInvalidity, virt_handleAfterStab,
  virt_newObservers, virt_disallowedObservers, virt_allObservers, virt_setDuringStab, virt_deadVars, virt_counters,
  virt_panicCountdown, virt_alive, virt_top, virt_handles, virt_slots, virt_log, virt_vars, virt_rch, virt_stabNum,
  virt_isNecessary, virt_isStale, virt_needsToBeComputed, virt_children, virt_size, virt_nodeD,
  virtNode_valid, virtNode_cutoff, virtNode_createdIn, virtNode_parents, virtNode_observers,
  virtNode_forceNecessary, virtNode_height, virtNode_heightInRch, virtNode_heightInAhh, virtNode_recomputedAt,
  virtNode_changedAt, virtNode_num, virtNode_inHas, virtNode_oldState, virtNode_isNecessary, virtNode_inRch,
  virtNode_value, virtNode_didChange])

/-- closes `∀ nd, virtNode (f nd) = f (virtNode nd)` for an `f` that does not touch `kind`, `value`, `didChange` -/
macro "wcomm" : tactic => `(tactic| (intro nd; rcases nd with ⟨k⟩; cases k <;> rfl))
/-- closes `∀ nd, (f nd).kind = nd.kind ∧ (f nd).valid = nd.valid ∧ (f nd).cutoff = nd.cutoff` -/
macro "wkindt" : tactic => `(tactic| (intro nd; exact ⟨rfl, rfl, rfl⟩))

section
theorem Sim.dassert (c : Bool) (site : String) : Sim (Engine.dassert c site) (Engine.dassert c site) := by
  intro s hn r s' h
  rw [run_dassert] at h ⊢
  by_cases hc : s.cfg.debug = true ∧ c = false
  · rw [if_pos hc] at h; cases h
  · rw [if_neg hc] at h; cases h; exact ⟨if_neg hc, hn⟩

theorem Sim.assertM (c : Bool) (site : String) : Sim (Engine.assertM c site) (Engine.assertM c site) := by
  intro s hn r s' h
  rw [run_assertM] at h ⊢
  split at h
  · rename_i hc; cases h; rw [if_pos hc]; exact ⟨rfl, hn⟩
  · cases h

end
end IncrVerif.Proofs.MapOldH
