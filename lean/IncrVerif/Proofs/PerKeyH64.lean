import IncrVerif.Proofs.PerKeyH60
import IncrVerif.Proofs.PerKeyH36
/-!
# One `.right` iteration of the per-key loop, package "potential": what the new nodes reference (`RSh.newKids`),
the potential after the creation steps (`rPsi`, `RSh.pot`, `RSh.pot_mapped`), and after the new entry (`pot_cons`)
-/
namespace IncrVerif.Proofs.PerKeyH
open IncrVerif.Engine IncrVerif.Driver IncrVerif.Proofs IncrVerif.Proofs.Step IncrVerif.Proofs.Sched
open IncrVerif.Proofs.ExpertH IncrVerif.Proofs.EffH IncrVerif.Proofs.DriverH IncrVerif.Proofs.ExpertH.QR IncrVerif.Proofs.Xp

/-! ## operands of an instruction kind -/

theorem option_mapM_mem_inv {α β} {f : α → Option β} :
    ∀ (l : List α) (r : List β), l.mapM f = some r → ∀ b, b ∈ r → ∃ a, a ∈ l ∧ f a = some b := by
  intro l
  induction l with
  | nil =>
    intro r h b hb
    rw [List.mapM_nil] at h
    cases h; cases hb
  | cons a0 l ih =>
    intro r h b hb
    rw [List.mapM_cons] at h
    cases hk : f a0 with
    | none => rw [hk] at h; cases h
    | some x =>
      cases hxs : l.mapM f with
      | none => rw [hk, hxs] at h; cases h
      | some xs =>
        rw [hk, hxs] at h
        cases h
        rcases List.mem_cons.1 hb with e | hb
        · subst e; exact ⟨a0, List.mem_cons_self, hk⟩
        · obtain ⟨a, h1, h2⟩ := ih xs hxs b hb
          exact ⟨a, List.mem_cons_of_mem _ h1, h2⟩

/-- the children of the node an instruction creates are the resolutions of its operands -/
theorem instrKind_kids {top : Array Nat} {loc : List Nat} {v : Val} {i : Instr} {k : Kind} {xs : Array ExpertRec}
    (h : instrKind top loc v i = some k) {x : Nat} (hx : x ∈ kidsX xs k) :
    ∃ o, o ∈ instrOpnds i ∧ resP top loc o = some x := by
  cases i with
  | const w => simp only [instrKind, Option.some.injEq] at h; subst h; cases hx
  | lhsConst => simp only [instrKind, Option.some.injEq] at h; subst h; cases hx
  | map f args =>
    simp only [instrKind] at h
    cases hm : args.mapM (resP top loc) with
    | none => rw [hm] at h; cases h
    | some as =>
      rw [hm] at h
      simp only [Option.map_some, Option.some.injEq] at h; subst h
      exact option_mapM_mem_inv args as hm x hx
  | fold f init cs =>
    simp only [instrKind] at h
    split at h
    · cases h
    · cases hm : cs.mapM (resP top loc) with
      | none => rw [hm] at h; cases h
      | some as =>
        rw [hm] at h
        simp only [Option.map_some, Option.some.injEq] at h; subst h
        exact option_mapM_mem_inv cs as hm x hx
  | _ => cases h

/-- a local operand of the `j`-th instruction (or of the return, `j = L`) of the instance at `N + 1 ..` -/
theorem r_loc_res {N j i x : Nat} (hi : i ≤ j) (h : (N :: List.range' (N + 1) j)[i]? = some x) :
    N ≤ x ∧ x < N + 1 + j := by
  cases i with
  | zero =>
    simp only [List.getElem?_cons_zero, Option.some.injEq] at h
    omega
  | succ i =>
    rw [List.getElem?_cons_succ, List.getElem?_range' (by omega)] at h
    simp only [Option.some.injEq] at h; omega

namespace RSh
variable {env : Env} {op : Nat} {key : Int} {lc : Nat} {tm : Template} {D : Nat → Prop} {σ τ : State} {mapped : Nat}

/-- **what the new nodes reference**: the change detector, earlier new nodes, outer nodes of the template -/
theorem newKids (R : RSh env op key lc tm D σ τ mapped) (hT : TemplOK env tm) :
    ∀ c x, σ.nodes.size ≤ c → c < τ.nodes.size → x ∈ kidsX τ.experts (τ.nodeD c).kind →
      x = lc ∨ (σ.nodes.size ≤ x ∧ x < c) ∨ ∃ k, k ∈ templOuter tm ∧ σ.top[k]? = some x := by
  intro c x hc1 hc2 hx
  rw [R.size] at hc2
  by_cases hc : c = σ.nodes.size
  · subst hc
    obtain ⟨erX, he, -, -, -, hch, -⟩ := R.xnew
    rw [R.kind_p] at hx
    simp only [kidsX, xRec_some he, hch, List.map_cons, List.map_nil, List.mem_singleton] at hx
    exact Or.inl hx
  · have hj : c - (σ.nodes.size + 1) < tm.instrs.length := by omega
    have hi := List.getElem?_eq_getElem hj
    have hk := R.kind_i hi
    have hce : σ.nodes.size + 1 + (c - (σ.nodes.size + 1)) = c := by omega
    rw [hce] at hk
    obtain ⟨o, ho, hr⟩ := instrKind_kids hk hx
    have hok := hT.opnd _ _ hi o ho
    cases o with
    | outer k =>
      exact Or.inr (Or.inr ⟨k, mem_templOuter_instr (List.mem_of_getElem? hi) ho, hr⟩)
    | loc i' =>
      have := r_loc_res (N := σ.nodes.size) hok hr
      exact Or.inr (Or.inl ⟨this.1, by omega⟩)
    | abs _ => exact hok.elim
    | slot _ => exact hok.elim

end RSh

/-! ## the potential after the creation steps -/

/-- the potential of `τ`: the new nodes sit at the level of the change detector -/
def rPsi (σ : State) (lc : Nat) (ψ : Nat → Nat) : Nat → Nat := fun m => if m < σ.nodes.size then ψ m else 2 * lc

theorem rPsi_lt {σ : State} {lc : Nat} {ψ : Nat → Nat} {m : Nat} (h : m < σ.nodes.size) : rPsi σ lc ψ m = ψ m := by
  simp only [rPsi, if_pos h]

theorem rPsi_ge {σ : State} {lc : Nat} {ψ : Nat → Nat} {m : Nat} (h : σ.nodes.size ≤ m) :
    rPsi σ lc ψ m = 2 * lc := by
  simp only [rPsi, if_neg (Nat.not_lt.2 h)]

namespace RSh
variable {env : Env} {op : Nat} {key : Int} {lc : Nat} {tm : Template} {D : Nat → Prop} {σ τ : State} {mapped : Nat}

/-- the children of an OLD node of `τ`: old children, or (records in `D` only) edges the caller accounts for -/
theorem oldKids (R : RSh env op key lc tm D σ τ mapped) (M : Mid (twEnv env) (twL [] σ)) {n c : Nat}
    (hn : n < σ.nodes.size) (hc : c ∈ kidsX τ.experts (τ.nodeD n).kind) :
    c ∈ kidsX σ.experts (σ.nodeD n).kind ∨
      ∃ e er er' ed, (σ.nodeD n).kind = .expert e ∧ D e ∧ σ.experts[e]? = some er ∧ τ.experts[e]? = some er' ∧
        ed ∈ er'.children ∧ ed.child = c := by
  rw [R.kind_old hn] at hc
  cases hk : (σ.nodeD n).kind with
  | expert e =>
    rw [hk] at hc
    have hk' : ((twL [] σ).nodeD n).kind = .expert e := by rw [KtwL_kind, hk]; rfl
    obtain ⟨er0, h1, -⟩ := M.frag.xrec n e (by rw [twL_size]; exact hn) hk'
    obtain ⟨er, he, -⟩ := r_tw_inv h1
    obtain ⟨er', he', -, -, -, -, -, -, -, hsame, -, -⟩ := R.lfx.lf.xrec e er he
    simp only [kidsX, xRec_some he'] at hc
    by_cases hd : D e
    · obtain ⟨ed, hed, hce⟩ := List.mem_map.1 hc
      exact Or.inr ⟨e, er, er', ed, rfl, hd, he, he', hed, hce⟩
    · left
      simp only [kidsX, xRec_some he]
      rw [← hsame hd]; exact hc
  | _ => rw [hk] at hc; exact Or.inl hc

/-- **the potential after the creation steps** -/
theorem pot (R : RSh env op key lc tm D σ τ mapped) (hT : TemplOK env tm) (M : Mid (twEnv env) (twL [] σ))
    {ψ : Nat → Nat} (P : Pot σ ψ) (hnamed : ∀ (k x : Nat), σ.top[k]? = some x → x < σ.nodes.size)
    (hlc : lc < σ.nodes.size) (hlcψ : ψ lc = 2 * lc)
    (hout : ∀ k, k ∈ templOuter tm → ∀ o, σ.top[k]? = some o → o < lc)
    (hpk : τ.perkeys = σ.perkeys)
    (hops : ∀ (op' : Nat) (pr' : PerKeyRec), σ.perkeys[op']? = some pr' →
      pr'.result < σ.nodes.size ∧ pr'.lhsChange < σ.nodes.size ∧
        ∀ key p d, (key, (p, d)) ∈ pr'.prevNodes → p < σ.nodes.size)
    (hD : ∀ (n e : Nat) (er er' : ExpertRec) (ed : ExpertEdge), n < σ.nodes.size → (σ.nodeD n).kind = .expert e →
      D e → σ.experts[e]? = some er → τ.experts[e]? = some er' → ed ∈ er'.children →
      ed ∈ er.children ∨ rPsi σ lc ψ ed.child ≤ ψ n) : Pot τ (rPsi σ lc ψ) := by
  refine ⟨fun n c hn hc => ?_, fun k n h => ?_, fun op' pr' h => ?_, fun n hn => ?_⟩
  · by_cases hlt : n < σ.nodes.size
    · rw [rPsi_lt hlt]
      have hold : c ∈ kidsX σ.experts (σ.nodeD n).kind → rPsi σ lc ψ c ≤ ψ n := fun h => by
        rw [rPsi_lt (r_kids_lt M h)]; exact P.mono n c hlt h
      rcases R.oldKids M hlt hc with h | ⟨e, er, er', ed, hk, hd, he, he', hed, hce⟩
      · exact hold h
      · rcases hD n e er er' ed hlt hk hd he he' hed with h | h
        · refine hold ?_
          rw [hk]
          simp only [kidsX, xRec_some he]
          exact List.mem_map.2 ⟨ed, h, hce⟩
        · rw [← hce]; exact h
    · rw [rPsi_ge (Nat.not_lt.1 hlt)]
      rcases R.newKids hT n c (Nat.not_lt.1 hlt) hn hc with h | ⟨h, -⟩ | ⟨k, hk, h⟩
      · rw [h, rPsi_lt hlc, hlcψ]; exact Nat.le_refl _
      · rw [rPsi_ge h]; exact Nat.le_refl _
      · have h1 := hout k hk c h
        rw [rPsi_lt (hnamed k c h), P.top k c h]
        omega
  · rw [R.top] at h
    rw [rPsi_lt (hnamed k n h)]; exact P.top k n h
  · rw [hpk] at h
    obtain ⟨h1, h2, h3⟩ := hops op' pr' h
    obtain ⟨p1, p2, p3, p4⟩ := P.op op' pr' h
    refine ⟨by rw [rPsi_lt h1]; exact p1, by rw [rPsi_lt h2]; exact p2, by rw [rPsi_lt (by omega)]; exact p3,
      fun key p d hm => by rw [rPsi_lt (h3 key p d hm)]; exact p4 key p d hm⟩
  · by_cases hlt : n < σ.nodes.size
    · rw [rPsi_lt hlt]; exact P.le n hlt
    · rw [rPsi_ge (Nat.not_lt.1 hlt)]; omega

/-- the returned node is at most at the level of the change detector -/
theorem pot_mapped (R : RSh env op key lc tm D σ τ mapped) (hT : TemplOK env tm) {ψ : Nat → Nat} (P : Pot σ ψ)
    (hlc : lc < σ.nodes.size) (hout : ∀ k, k ∈ templOuter tm → ∀ o, σ.top[k]? = some o → o < lc) :
    rPsi σ lc ψ mapped ≤ 2 * lc := by
  have hr := R.ret
  have hok := hT.ret
  cases ho : tm.ret with
  | outer k =>
    rw [ho] at hr
    have hr : σ.top[k]? = some mapped := hr
    have hk : k ∈ templOuter tm := mem_templOuter (by rw [← ho]; exact List.mem_cons_self)
    have h1 := hout k hk mapped hr
    rw [rPsi_lt (by omega), P.top k mapped hr]
    omega
  | loc i =>
    rw [ho] at hr hok
    have := r_loc_res (N := σ.nodes.size) hok hr
    rw [rPsi_ge this.1]; exact Nat.le_refl _
  | abs _ => rw [ho] at hok; exact hok.elim
  | slot _ => rw [ho] at hok; exact hok.elim

end RSh

/-! ## the new entry of `prevNodes` -/

theorem pot_cons {σ5 : State} {ψ : Nat → Nat} {op : Nat} {key : Int} {p d : Nat} {pr5 : PerKeyRec} (P : Pot σ5 ψ)
    (h5 : σ5.perkeys[op]? = some pr5) (hψ : ψ p = 2 * pr5.lhsChange) : Pot (rS6 op key p d σ5) ψ := by
  refine ⟨fun n c hn hc => P.mono n c hn hc, fun k n h => P.top k n h, fun op' pr' h => ?_, fun n hn => P.le n hn⟩
  have h : (σ5.perkeys.modify op fun q =>
      { q with prevNodes := (key, (p, d)) :: q.prevNodes.filter (·.1 != key) })[op']? = some pr' := h
  rw [Array.getElem?_modify] at h
  by_cases ho : op = op'
  · subst ho
    rw [if_pos rfl, h5] at h
    simp only [Option.map_some, Option.some.injEq] at h
    subst h
    obtain ⟨p1, p2, p3, p4⟩ := P.op op pr5 h5
    refine ⟨p1, p2, p3, fun key' p' d' hm => ?_⟩
    rcases List.mem_cons.1 hm with e | hm
    · cases e; exact hψ
    · exact p4 key' p' d' (List.mem_filter.1 hm).1
  · rw [if_neg ho] at h
    exact P.op op' pr' h

end IncrVerif.Proofs.PerKeyH
