import IncrVerif.Proofs.PerKeyH73
import IncrVerif.Proofs.PerKeyH24
/-!
# Per-key operators, a run of an expert node: `XStepSpec env`

`xStepSpec_of_slots` (XS5) with the slot invariant of the new state from `step_slots` (`pk-slots`, SL2).
-/
namespace IncrVerif.Proofs.PerKeyH
open IncrVerif.Engine IncrVerif.Proofs

/-- **a run of an expert node of a per-key operator** -/
theorem xStepSpec (env : Env) : XStepSpec env := by
  intro fuel n e s s' r D N hk h
  exact xStepSpec_of_slots env fuel n e s s' r D N hk h
    (step_slots D (fun op args hm => by rw [hk] at hm; cases hm) h)

end IncrVerif.Proofs.PerKeyH
