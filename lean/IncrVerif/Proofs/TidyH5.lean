import IncrVerif.Proofs.Quiet25
/-!
# `stabilise`'s observer phases and `stabiliseEnd` only log mute events
-/
namespace IncrVerif.Proofs.TidyH
open IncrVerif.Engine IncrVerif.Driver IncrVerif.Proofs IncrVerif.Proofs.Step IncrVerif.Proofs.Sched IncrVerif.Proofs.Quiet

/-- events that are not calls of a node's user function: cutoff calls, notes, expert edge callbacks -/
def Mute : Event → Prop
  | .cut .. => True
  | .note _ => True
  | .inv what _ _ _ => what = "cb"
  | _ => False

/-- the log only grew, by mute events -/
def LogN (s s' : State) : Prop := ∃ new, s'.log = new ++ s.log ∧ ∀ e, e ∈ new → Mute e

namespace P5

theorem LogN.refl (s : State) : LogN s s := ⟨[], rfl, fun _ h => nomatch h⟩
theorem LogN.trans {a b c : State} (h1 : LogN a b) (h2 : LogN b c) : LogN a c := by
  obtain ⟨n1, e1, m1⟩ := h1
  obtain ⟨n2, e2, m2⟩ := h2
  refine ⟨n2 ++ n1, by rw [e2, e1, List.append_assoc], fun e he => ?_⟩
  rcases List.mem_append.mp he with h | h
  · exact m2 e h
  · exact m1 e h

theorem LogN.of_same {s s' : State} (h : s'.log = s.log) : LogN s s' :=
  ⟨[], by rw [h]; rfl, fun _ h => nomatch h⟩

end P5

instance : Step.PreOrd LogN := ⟨P5.LogN.refl, P5.LogN.trans⟩

namespace P5

theorem PresL.modNode (n : Nat) (f : Node → Node) : Step.Pres LogN (modNode n f) := by
  unfold Engine.modNode
  exact Step.Pres.modify fun s => LogN.of_same rfl

theorem PresL.logMute (e : Event) (he : Mute e) : Step.Pres LogN (logEv e) := by
  unfold Engine.logEv
  refine Step.Pres.modify fun s => ⟨[e], rfl, fun x hx => ?_⟩
  rw [List.mem_singleton] at hx
  rw [hx]; exact he

macro_rules
  | `(tactic| qleaf) =>
    `(tactic| ((with_reducible apply Step.Pres.modify); intro _; exact LogN.of_same rfl))
macro_rules
  | `(tactic| qleaf) => `(tactic| (with_reducible apply PresL.modNode))
macro_rules
  | `(tactic| qleaf) =>
    `(tactic| ((with_reducible apply PresL.logMute); first | trivial | rfl | decide))

macro "ln_leaf " n:ident : command =>
  `(macro_rules | `(tactic| qleaf) => `(tactic| with_reducible apply $n))

theorem PresL.tick : Step.Pres LogN tick := by unfold Engine.tick; qpres
ln_leaf PresL.tick
theorem PresL.handleAfterStabilisation (n) : Step.Pres LogN (handleAfterStabilisation n) := by
  unfold Engine.handleAfterStabilisation; qpres
ln_leaf PresL.handleAfterStabilisation
theorem PresL.modExpert (e f) : Step.Pres LogN (modExpert e f) := by unfold Engine.modExpert; qpres
ln_leaf PresL.modExpert
theorem PresL.modBind (e f) : Step.Pres LogN (modBind e f) := by unfold Engine.modBind; qpres
ln_leaf PresL.modBind
theorem PresL.bumpCounter (f) : Step.Pres LogN (bumpCounter f) := by unfold Engine.bumpCounter; qpres
ln_leaf PresL.bumpCounter
theorem PresL.edgeOnChange (env e edge) : Step.Pres LogN (edgeOnChange env e edge) := by
  unfold Engine.edgeOnChange; qpres
ln_leaf PresL.edgeOnChange
theorem PresL.runEdgeCallback (env e i) : Step.Pres LogN (runEdgeCallback env e i) := by
  unfold Engine.runEdgeCallback; qpres
ln_leaf PresL.runEdgeCallback
theorem PresL.observabilityChange (e b) : Step.Pres LogN (observabilityChange e b) := by
  unfold Engine.observabilityChange; qpres
ln_leaf PresL.observabilityChange
theorem PresL.setHeight (n h) : Step.Pres LogN (setHeight n h) := by unfold Engine.setHeight; qpres
ln_leaf PresL.setHeight
theorem PresL.rchLink (n) : Step.Pres LogN (rchLink n) := by unfold Engine.rchLink; qpres
ln_leaf PresL.rchLink
theorem PresL.rchInsert (n) : Step.Pres LogN (rchInsert n) := by unfold Engine.rchInsert; qpres
ln_leaf PresL.rchInsert
theorem PresL.rchUnlink (n) : Step.Pres LogN (rchUnlink n) := by unfold Engine.rchUnlink; qpres
ln_leaf PresL.rchUnlink
theorem PresL.rchRemove (n) : Step.Pres LogN (rchRemove n) := by unfold Engine.rchRemove; qpres
ln_leaf PresL.rchRemove
theorem PresL.addParent (c i p) : Step.Pres LogN (addParent c i p) := by unfold Engine.addParent; qpres
ln_leaf PresL.addParent
theorem PresL.removeParent (c i p) : Step.Pres LogN (removeParent c i p) := by
  unfold Engine.removeParent; qpres
ln_leaf PresL.removeParent
theorem PresL.maybeHandleAfterStabilisation (n) : Step.Pres LogN (maybeHandleAfterStabilisation n) := by
  unfold Engine.maybeHandleAfterStabilisation; qpres
ln_leaf PresL.maybeHandleAfterStabilisation
theorem PresL.scopeIsNecessary (sc) : Step.Pres LogN (scopeIsNecessary sc) := by
  unfold Engine.scopeIsNecessary; qpres
ln_leaf PresL.scopeIsNecessary

theorem PresL.markMapRefUnknown (fuel n) : Step.Pres LogN (markMapRefUnknown fuel n) := by
  induction fuel generalizing n with
  | zero => unfold Engine.markMapRefUnknown; qpres
  | succ fuel ih =>
    unfold Engine.markMapRefUnknown
    qpres
    all_goals (apply Step.Pres.forIn; intro a b; qpres; exact ih _)
ln_leaf PresL.markMapRefUnknown

theorem PresL.link (env : Env) (fuel : Nat) :
    (∀ n, Step.Pres LogN (becameNecessary env fuel n)) ∧
    (∀ c i p, Step.Pres LogN (addParentWithoutAdjustingHeights env fuel c i p)) := by
  induction fuel with
  | zero =>
    constructor
    · intro n; unfold becameNecessary; qpres
    · intro c i p; unfold addParentWithoutAdjustingHeights; qpres
  | succ fuel ih =>
    constructor
    · intro n
      unfold becameNecessary
      qpres
      all_goals (apply Step.Pres.forIn; intro a b; qpres; exact ih.2 _ _ _)
    · intro c i p
      unfold addParentWithoutAdjustingHeights
      qpres
      all_goals exact ih.1 _

theorem PresL.becameNecessary (env fuel n) : Step.Pres LogN (becameNecessary env fuel n) :=
  (PresL.link env fuel).1 n
ln_leaf PresL.becameNecessary

theorem PresL.unlink (fuel : Nat) :
    (∀ n, Step.Pres LogN (becameUnnecessary fuel n)) ∧
    (∀ n, Step.Pres LogN (checkIfUnnecessary fuel n)) ∧
    (∀ n, Step.Pres LogN (removeChildren fuel n)) := by
  induction fuel with
  | zero =>
    refine ⟨?_, ?_, ?_⟩
    · intro n; unfold becameUnnecessary; qpres
    · intro n; unfold checkIfUnnecessary; qpres
    · intro n; unfold removeChildren; qpres
  | succ fuel ih =>
    refine ⟨?_, ?_, ?_⟩
    · intro n
      unfold becameUnnecessary
      qpres
      all_goals exact ih.2.2 _
    · intro n
      unfold checkIfUnnecessary
      qpres
      all_goals exact ih.1 _
    · intro n
      unfold removeChildren
      qpres
      all_goals (apply Step.Pres.forIn; intro a b; qpres; exact ih.2.1 _)

theorem PresL.checkIfUnnecessary (fuel n) : Step.Pres LogN (checkIfUnnecessary fuel n) :=
  (PresL.unlink fuel).2.1 n
ln_leaf PresL.checkIfUnnecessary
theorem PresL.removeChildren (fuel n) : Step.Pres LogN (removeChildren fuel n) :=
  (PresL.unlink fuel).2.2 n
ln_leaf PresL.removeChildren

theorem PresL.invalidateNode (fuel n) : Step.Pres LogN (invalidateNode fuel n) := by
  induction fuel generalizing n with
  | zero => unfold Engine.invalidateNode; qpres
  | succ fuel ih =>
    unfold Engine.invalidateNode
    qpres
    all_goals (apply Step.Pres.forIn; intro a b; qpres; try exact ih _)
ln_leaf PresL.invalidateNode

theorem PresL.propagateInvalidity (fuel) : Step.Pres LogN (propagateInvalidity fuel) := by
  induction fuel with
  | zero => unfold Engine.propagateInvalidity; qpres
  | succ fuel ih =>
    unfold Engine.propagateInvalidity
    qpres
    all_goals exact ih
ln_leaf PresL.propagateInvalidity

theorem PresL.becameNecessaryPropagate (env fuel n) :
    Step.Pres LogN (becameNecessaryPropagate env fuel n) := by
  unfold Engine.becameNecessaryPropagate; qpres
ln_leaf PresL.becameNecessaryPropagate

theorem PresL.getObs (o) : Step.Pres LogN (getObs o) := by unfold Engine.getObs; qpres
ln_leaf PresL.getObs
theorem PresL.modObs (o f) : Step.Pres LogN (modObs o f) := by unfold Engine.modObs; qpres
ln_leaf PresL.modObs

end P5

theorem addNewObservers_logN (env : Env) (fuel : Nat) : Step.Pres LogN (addNewObservers env fuel) := by
  unfold Engine.addNewObservers
  qpres
  all_goals (apply Step.Pres.forIn; intro a b; qpres)

theorem unlinkDisallowedObservers_logN (fuel : Nat) : Step.Pres LogN (unlinkDisallowedObservers fuel) := by
  unfold Engine.unlinkDisallowedObservers
  qpres
  all_goals (apply Step.Pres.forIn; intro a b; qpres)

/-- without pending writes, dead variables and update handlers `stabiliseEnd` logs nothing -/
theorem stabiliseEnd_log {env : Env} {fuel : Nat} {s s' : State} (h1 : s.setDuringStab = [])
    (h2 : s.deadVars = []) (hobs : ∀ (o : Nat) (ob : ObsRec), s.observers[o]? = some ob → ob.handlers = [])
    (h : (stabiliseEnd env fuel).run.run s = (.ok (), s')) : s'.log = s.log := by
  unfold stabiliseEnd at h
  obtain ⟨s1, e1, h⟩ := bind_modify_inv h
  rw [run_bind_get] at h
  try dsimp only at h
  obtain ⟨s2, e2, h⟩ := bind_modify_inv h
  have h1' : s1.setDuringStab = [] := by rw [e1]; exact h1
  rw [h1', List.forIn_nil] at h
  obtain ⟨_, s3, hp, h⟩ := bind_ok_inv h
  obtain ⟨_, e3⟩ := pure_ok_inv hp
  rw [e3] at h
  rw [run_bind_get] at h
  try dsimp only at h
  obtain ⟨s4, e4, h⟩ := bind_modify_inv h
  have h2' : s2.deadVars = [] := by rw [e2, e1]; exact h2
  rw [h2', List.forIn_nil] at h
  obtain ⟨_, s5, hp5, h⟩ := bind_ok_inv h
  obtain ⟨_, e5⟩ := pure_ok_inv hp5
  rw [e5] at h
  rw [run_bind_get] at h
  try dsimp only at h
  obtain ⟨s6, e6, h⟩ := bind_modify_inv h
  have M6 : s6.log = s.log ∧ s6.observers = s.observers := by
    rw [e6, e4, e2, e1]
    exact ⟨rfl, rfl⟩
  -- loop 3: only `inHandleAfterStab` flags change
  obtain ⟨q, s7, hl3, h⟩ := bind_ok_inv h
  have M7 : s7.log = s.log ∧ s7.observers = s.observers := by
    refine forIn_ok_keepB (fun t => t.log = s.log ∧ t.observers = s.observers) _ _ ?_ _ _ _ _ M6 hl3
    intro n _ b t r t' Mt hb
    obtain ⟨t1, et1, hb⟩ := bind_modNode_inv hb
    rw [run_bind_get] at hb
    obtain ⟨_, et'⟩ := pure_ok_inv hb
    rw [et', et1]
    exact Mt
  obtain ⟨s8, e8, h⟩ := bind_modify_inv h
  rw [run_bind_get] at h
  -- loop 4: no handler runs
  obtain ⟨_, s9, hl4, h⟩ := bind_ok_inv h
  have e9 : s9 = s8 := by
    refine forIn_ok_keepB (fun t => t = s8) _ _ ?_ _ _ _ _ rfl hl4
    intro x _ b t r t' et hb
    obtain ⟨nd, _, hb⟩ := bind_getNode_inv hb
    obtain ⟨_, t1, hb1, hb⟩ := bind_ok_inv hb
    obtain ⟨_, et'⟩ := pure_ok_inv hb
    rw [et']
    refine forIn_ok_keepB (fun t => t = s8) _ _ ?_ _ _ _ _ et hb1
    intro o _ b2 u r2 u' eu hr
    obtain ⟨_, u1, hr1, hr⟩ := bind_ok_inv hr
    obtain ⟨_, eu'⟩ := pure_ok_inv hr
    rw [eu']
    have hobs' : ∀ (o : Nat) (ob : ObsRec), u.observers[o]? = some ob → ob.handlers = [] := by
      intro o ob ho
      rw [eu, e8] at ho
      exact hobs o ob (by rw [← M7.2]; exact ho)
    rw [runAll_nohandlers hobs' hr1]; exact eu
  obtain ⟨s10, e10, h⟩ := bind_modify_inv h
  rw [run_modify] at h
  obtain ⟨_, e11⟩ := Prod.mk.inj h
  rw [← e11, e10, e9, e8]
  exact M7.1

end IncrVerif.Proofs.TidyH
