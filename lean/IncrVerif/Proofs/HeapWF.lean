import IncrVerif.Engine.Recompute
import Std.Do
import Std.Tactic.Do
/-!
# C11: the recompute heap is well-formed at all times

`HeapWF s` is the property.  `HWF d s` is the working form: `HeapWF s` (in terms of `BucketsOK`), and,
when `d = Mode.debug`, additionally "the engine runs with debug assertions".  Every lemma is a Hoare
triple `Pres d x := ⦃HWF d⦄ x ⦃post⟨HWF d, HWF d⟩⦄`: the invariant holds after a normal return *and*
after a panic.  Lemmas stated for every `d` hold in release builds too; lemmas stated for `Mode.debug`
need the debug assertions (`release_counterexample` at the end shows the hypothesis is necessary).

Layout: pure bucket lemmas; the invariant; heap primitives (`rchLink` … `rchRemoveMin`); frame lemmas
and readers; the cascades of `Core.lean`; `Expert.lean`; `Recompute.lean`; `setMaxHeightAllowed`;
conversion back to `HeapWF`; the release-mode counterexample.

Proof engineering notes: `attribute [spec] panic` makes `mvcgen` unfold `panic` to `throw`;
`forIn_pres` is a loop rule without invariants (used with `-Spec.forIn_list`); `hwf_fin d` closes
what `mvcgen` leaves.
-/
namespace IncrVerif.Proofs
open IncrVerif.Engine Std.Do

set_option mvcgen.warning false

/-! ## pure part: buckets against a marker function -/

/-- total number of queued entries -/
def bucketSum (q : Array (List Nat)) : Nat := (q.toList.map List.length).sum

/-- the marker of node `n` (`height_in_recompute_heap`); `-1` for indices that name no node -/
def markerOf (nodes : Array Node) (n : Nat) : Int := (nodes[n]?.getD default).heightInRch

/-- marker function `mk` with the entry for `n` replaced by `v` -/
def setMk (n : Nat) (v : Int) (mk : Nat → Int) : Nat → Int := fun m => if m = n then v else mk m

structure BucketsOK (q : Array (List Nat)) (mk : Nat → Int) : Prop where
  mem : ∀ (h : Nat) (hh : h < q.size) (n : Nat), n ∈ q[h] ↔ mk n = (h : Int)
  nodup : ∀ (h : Nat) (hh : h < q.size), (q[h]).Nodup
  range : ∀ n, mk n = -1 ∨ (0 ≤ mk n ∧ mk n < (q.size : Int))

theorem sum_set (l : List Nat) (i : Nat) (hi : i < l.length) (x : Nat) :
    (l.set i x).sum + l[i] = l.sum + x := by
  induction l generalizing i with
  | nil => simp at hi
  | cons a l ih =>
    cases i with
    | zero => simp; omega
    | succ i =>
      simp at hi
      have := ih i hi
      simp; omega

theorem sum_map_length_set (l : List (List Nat)) (i : Nat) (hi : i < l.length) (x : List Nat) :
    ((l.set i x).map List.length).sum + l[i].length = (l.map List.length).sum + x.length := by
  have := sum_set (l.map List.length) i (by simpa using hi) x.length
  simpa [List.map_set] using this

theorem bucketSum_set (q : Array (List Nat)) (h : Nat) (hh : h < q.size) (x : List Nat) :
    bucketSum (q.setIfInBounds h x) + q[h].length = bucketSum q + x.length := by
  unfold bucketSum
  rw [Array.toList_setIfInBounds]
  exact sum_map_length_set q.toList h (by simpa using hh) x

theorem modify_eq_set (q : Array (List Nat)) (h : Nat) (hh : h < q.size) (f : List Nat → List Nat) :
    q.modify h f = q.setIfInBounds h (f q[h]) := by
  apply Array.ext
  · simp
  · intro i h1 h2
    have h3 : i < q.size := by simpa using h1
    rw [Array.getElem_modify, Array.getElem_setIfInBounds h3]
    split
    · subst_vars; rfl
    · rfl

theorem swapRemoveBack_spec (q : List Nat) (n idx : Nat) (hnd : q.Nodup)
    (hidx : q.idxOf? n = some idx) :
    (∀ m, m ∈ swapRemoveBack q idx ↔ (m ∈ q ∧ m ≠ n)) ∧ (swapRemoveBack q idx).Nodup ∧
      (swapRemoveBack q idx).length + 1 = q.length := by
  rw [List.idxOf?_eq_some_iff] at hidx
  obtain ⟨hlt, hget, -⟩ := hidx
  unfold swapRemoveBack
  cases hl : q.getLast? with
  | none =>
    rw [List.getLast?_eq_none_iff] at hl
    subst hl; simp at hlt
  | some last =>
    rw [List.getLast?_eq_some_iff] at hl
    obtain ⟨ys, rfl⟩ := hl
    have hlen : (ys ++ [last]).length = ys.length + 1 := by simp
    by_cases hc : idx = ys.length
    · subst hc
      simp at hget
      subst hget
      simp [List.nodup_append] at hnd ⊢
      refine ⟨fun m => ?_, hnd.1⟩
      constructor
      · intro hm; exact ⟨Or.inl hm, hnd.2 m hm⟩
      · rintro ⟨h1 | h1, h2⟩
        · exact h1
        · exact absurd h1 h2
    · have hlt' : idx < ys.length := by omega
      rw [List.getElem_append_left hlt'] at hget
      have hys : ys = ys.take idx ++ n :: ys.drop (idx + 1) := by
        rw [← hget]; simp
      have hset : (ys ++ [last]).set idx last = (ys.take idx ++ last :: ys.drop (idx + 1)) ++ [last] := by
        rw [List.set_append, if_pos hlt', List.set_eq_take_append_cons_drop, if_pos hlt']
      have hne : (idx + 1 == (ys ++ [last]).length) = false := by
        simp; omega
      simp only [hne, hset, List.dropLast_concat]
      generalize ys.take idx = A at *
      generalize ys.drop (idx+1) = B at *
      subst hys
      simp [List.nodup_append] at hnd ⊢
      grind

theorem setMk_setMk (n : Nat) (v w : Int) (mk : Nat → Int) : setMk n v (setMk n w mk) = setMk n v mk := by
  funext m; simp only [setMk]; split <;> rfl

theorem setMk_self (n : Nat) (mk : Nat → Int) (v : Int) (h : mk n = v) : setMk n v mk = mk := by
  funext m; simp only [setMk]; split
  · rename_i e; rw [e]; exact h.symm
  · rfl

/-- `link`: append `n` to bucket `h`, set its marker to `h` -/
theorem BucketsOK.link {q : Array (List Nat)} {mk : Nat → Int} {n : Nat}
    (hq : BucketsOK q (setMk n (-1) mk)) (h : Nat) (hh : h < q.size) :
    BucketsOK (q.modify h (· ++ [n])) (setMk n h mk) ∧
      bucketSum (q.modify h (· ++ [n])) = bucketSum q + 1 := by
  have hnn : ∀ h' (hh' : h' < q.size), n ∉ q[h'] := by
    intro h' hh' hm
    have := (hq.mem h' hh' n).1 hm
    simp [setMk] at this
  refine ⟨⟨?_, ?_, ?_⟩, ?_⟩
  · intro h' hh' m
    have hh'' : h' < q.size := by simpa using hh'
    have := hq.mem h' hh'' m
    simp only [setMk] at this ⊢
    rw [Array.getElem_modify]
    by_cases hm : m = n
    · subst hm
      simp only [if_true] at this ⊢
      by_cases e : h = h'
      · subst e; simp
      · simp [e]; exact ⟨fun x => absurd x (hnn h' hh''), fun x => by omega⟩
    · simp only [hm, if_false] at this ⊢
      split
      · subst_vars; simp [hm, this]
      · exact this
  · intro h' hh'
    have hh'' : h' < q.size := by simpa using hh'
    rw [Array.getElem_modify]
    split
    · rename_i e; subst e
      rw [List.nodup_append]
      refine ⟨hq.nodup h hh'', by simp, ?_⟩
      intro a ha b hb
      simp at hb; subst hb
      intro e; subst e; exact hnn h hh'' ha
    · exact hq.nodup h' hh''
  · intro m
    have := hq.range m
    simp only [setMk, Array.size_modify] at this ⊢
    split
    · right; omega
    · rename_i hm; simpa [hm] using this
  · rw [modify_eq_set q h hh]
    have := bucketSum_set q h hh (q[h] ++ [n])
    simp at this; omega

/-- `unlink`: remove `n` from its bucket, leaving its marker stale -/
theorem BucketsOK.unlink {q : Array (List Nat)} {mk : Nat → Int} {n : Nat}
    (hq : BucketsOK q mk) (h : Nat) (hh : h < q.size) (hn : mk n = (h : Int)) (idx : Nat)
    (hidx : q[h].idxOf? n = some idx) :
    BucketsOK (q.setIfInBounds h (swapRemoveBack q[h] idx)) (setMk n (-1) mk) ∧
      bucketSum (q.setIfInBounds h (swapRemoveBack q[h] idx)) + 1 = bucketSum q := by
  obtain ⟨hmem, hnd, hlen⟩ := swapRemoveBack_spec q[h] n idx (hq.nodup h hh) hidx
  refine ⟨⟨?_, ?_, ?_⟩, ?_⟩
  · intro h' hh' m
    have hh'' : h' < q.size := by simpa using hh'
    have := hq.mem h' hh'' m
    rw [Array.getElem_setIfInBounds hh'']
    simp only [setMk]
    by_cases e : h = h'
    · subst e
      simp only [if_true, hmem, this]
      by_cases hm : m = n
      · subst hm; simp <;> omega
      · simp [hm]
    · simp only [e, if_false, this]
      by_cases hm : m = n
      · subst hm; simp [hn] <;> omega
      · simp [hm]
  · intro h' hh'
    have hh'' : h' < q.size := by simpa using hh'
    rw [Array.getElem_setIfInBounds hh'']
    split
    · exact hnd
    · exact hq.nodup h' hh''
  · intro m
    have := hq.range m
    simp only [setMk, Array.size_setIfInBounds]
    split
    · left; rfl
    · exact this
  · have := bucketSum_set q h hh (swapRemoveBack q[h] idx)
    omega

/-- `remove_min`: pop the head `n` of bucket `h` -/
theorem BucketsOK.pop {q : Array (List Nat)} {mk : Nat → Int} {n : Nat} {rest : List Nat}
    (hq : BucketsOK q mk) (h : Nat) (hh : h < q.size) (hq' : q[h] = n :: rest) :
    BucketsOK (q.setIfInBounds h rest) (setMk n (-1) mk) ∧
      bucketSum (q.setIfInBounds h rest) + 1 = bucketSum q ∧ mk n = (h : Int) := by
  have hn : mk n = (h : Int) := (hq.mem h hh n).1 (by rw [hq']; simp)
  have hnd := hq.nodup h hh
  rw [hq'] at hnd
  simp at hnd
  refine ⟨⟨?_, ?_, ?_⟩, ?_, hn⟩
  · intro h' hh' m
    have hh'' : h' < q.size := by simpa using hh'
    have := hq.mem h' hh'' m
    rw [Array.getElem_setIfInBounds hh'']
    simp only [setMk]
    by_cases e : h = h'
    · subst e
      rw [hq'] at this
      simp only [if_true]
      by_cases hm : m = n
      · subst hm; simp [hnd.1] <;> omega
      · simp [hm] at this ⊢; exact this
    · simp only [e, if_false, this]
      by_cases hm : m = n
      · subst hm; simp [hn] <;> omega
      · simp [hm]
  · intro h' hh'
    have hh'' : h' < q.size := by simpa using hh'
    rw [Array.getElem_setIfInBounds hh'']
    split
    · exact hnd.2
    · exact hq.nodup h' hh''
  · intro m
    have := hq.range m
    simp only [setMk, Array.size_setIfInBounds]
    split
    · left; rfl
    · exact this
  · have := bucketSum_set q h hh rest
    rw [hq'] at this
    simp at this
    omega

/-! ## the invariant -/

/-- The property, as stated: (a) bucket membership agrees with the markers, (b) no duplicates,
(c) `length` is the number of queued entries, (d) markers are `-1` or a bucket index. -/
structure HeapWF (s : State) : Prop where
  mem : ∀ (h : Nat) (hh : h < s.rch.queues.size) (n : Nat),
    n ∈ s.rch.queues[h] ↔ (n < s.nodes.size ∧ (s.nodeD n).heightInRch = (h : Int))
  nodup : ∀ (h : Nat) (hh : h < s.rch.queues.size), (s.rch.queues[h]).Nodup
  length : s.rch.length = bucketSum s.rch.queues
  range : ∀ n, n < s.nodes.size →
    (s.nodeD n).heightInRch = -1 ∨
      (0 ≤ (s.nodeD n).heightInRch ∧ (s.nodeD n).heightInRch < (s.rch.queues.size : Int))

def HeapOK (rch : Heap) (mk : Nat → Int) : Prop :=
  BucketsOK rch.queues mk ∧ rch.length = bucketSum rch.queues

/-- `release`: nothing is assumed about `cfg.debug`; `debug`: debug assertions are on.
(A type of its own rather than `Bool`, so that `mvcgen` never instantiates it with some Boolean
of the program.) -/
inductive Mode where
  | release | debug
deriving DecidableEq

/-- working form of the invariant; `d = Mode.debug` adds "debug assertions are on" -/
def HWF (d : Mode) (s : State) : Prop :=
  HeapOK s.rch (markerOf s.nodes) ∧ (d = Mode.debug → s.cfg.debug = true)

theorem markerOf_of_le (nodes : Array Node) (n : Nat) (h : nodes.size ≤ n) : markerOf nodes n = -1 := by
  simp [markerOf, Array.getElem?_eq_none h]; rfl

theorem HWF_release_iff (s : State) : HWF .release s ↔ HeapWF s := by
  simp only [HWF, HeapOK, reduceCtorEq, false_imp_iff, and_true]
  constructor
  · rintro ⟨⟨hm, hn, hr⟩, hl⟩
    refine ⟨?_, hn, hl, fun n _ => hr n⟩
    intro h hh n
    rw [hm h hh n]
    constructor
    · intro e
      refine ⟨?_, e⟩
      by_cases hlt : n < s.nodes.size
      · exact hlt
      · have := markerOf_of_le s.nodes n (by omega)
        omega
    · exact fun e => e.2
  · rintro ⟨hm, hn, hl, hr⟩
    refine ⟨⟨?_, hn, ?_⟩, hl⟩
    · intro h hh n
      rw [hm h hh n]
      constructor
      · exact fun e => e.2
      · intro e
        refine ⟨?_, e⟩
        by_cases hlt : n < s.nodes.size
        · exact hlt
        · have := markerOf_of_le s.nodes n (by omega)
          change markerOf s.nodes n = _ at e
          omega
    · intro n
      by_cases hlt : n < s.nodes.size
      · exact hr n hlt
      · left; exact markerOf_of_le s.nodes n (by omega)

theorem HWF.heapWF {d : Mode} {s : State} (h : HWF d s) : HeapWF s :=
  (HWF_release_iff s).1 ⟨h.1, by simp⟩

/-! ## the primitive heap operations -/

/-- offset form: with `mask = some n` the node `n` is in no bucket whatever its marker says;
`length + a = (number of entries) + b` -/
def HOff (d : Mode) (mask : Option Nat) (a b : Nat) (s : State) : Prop :=
  BucketsOK s.rch.queues
      (match mask with | none => markerOf s.nodes | some n => setMk n (-1) (markerOf s.nodes)) ∧
    s.rch.length + a = bucketSum s.rch.queues + b ∧ (d = Mode.debug → s.cfg.debug = true)

theorem HWF_iff_HOff (d : Mode) (s : State) : HWF d s ↔ HOff d none 0 0 s := by
  simp [HWF, HeapOK, HOff, and_assoc]

/-- `link` will not panic: the node exists and its height names a bucket -/
def LinkOKn (nodes : Array Node) (k : Nat) (n : Nat) : Prop :=
  ∃ nd, nodes[n]? = some nd ∧ 0 ≤ nd.height ∧ nd.height < (k : Int)

def LinkOK (s : State) (n : Nat) : Prop := LinkOKn s.nodes s.rch.queues.size n

theorem markerOf_modify_set (nodes : Array Node) (n : Nat) (v : Int) (h : n < nodes.size) :
    markerOf (nodes.modify n fun x => { x with heightInRch := v }) = setMk n v (markerOf nodes) := by
  funext m
  simp only [markerOf, setMk, Array.getElem?_modify]
  by_cases e : m = n
  · subst e; simp [h]
  · have : ¬ n = m := fun h => e h.symm
    simp [e, this]

theorem markerOf_modify_neg (nodes : Array Node) (n : Nat) :
    markerOf (nodes.modify n fun x => { x with heightInRch := -1 }) = setMk n (-1) (markerOf nodes) := by
  by_cases h : n < nodes.size
  · exact markerOf_modify_set nodes n (-1) h
  · funext m
    simp only [markerOf, setMk, Array.getElem?_modify]
    by_cases e : m = n
    · subst e; simp [Array.getElem?_eq_none (Nat.le_of_not_lt h)]; rfl
    · have : ¬ n = m := fun h => e h.symm
      simp [e, this]

theorem rchLink_spec (d : Mode) (n a b : Nat) (P : State → Prop) :
    ⦃fun s => ⌜HOff d (some n) a b s ∧ P s⌝⦄ rchLink n
    ⦃post⟨fun _ s => ⌜HOff d none (a+1) b s⌝, fun _ s => ⌜P s ∧ ¬ LinkOK s n⌝⟩⦄ := by
  mvcgen [rchLink, getNode, assertM, IncrVerif.Engine.panic, modNode]
  · rename_i s hpre nd hnd h0 h1 _ _
    simp at h0 h1
    obtain ⟨⟨hb, hl, hd⟩, -⟩ := hpre
    have hlt : n < s.nodes.size := by
      have := Array.getElem?_eq_some_iff.1 hnd; exact this.1
    have hh : nd.height.toNat < s.rch.queues.size := by
      simp [Heap.maxAllowed] at h1; omega
    obtain ⟨hb', hs'⟩ := BucketsOK.link hb nd.height.toNat hh
    have e : ((nd.height.toNat : Nat) : Int) = nd.height := by omega
    rw [e] at hb'
    simp +zetaDelta only [HOff]
    rw [markerOf_modify_set _ _ _ hlt]
    refine ⟨hb', ?_, hd⟩
    simp only [hs']; omega
  · rename_i s hpre nd hnd h0 h1
    refine ⟨hpre.2, ?_⟩
    rintro ⟨nd', h1', h2, h3⟩
    rw [hnd] at h1'; cases h1'
    have h1' : ¬ nd.height ≤ s.rch.maxAllowed := by simpa using h1
    simp only [Heap.maxAllowed] at h1'; omega
  · rename_i s hpre nd hnd h0
    refine ⟨hpre.2, ?_⟩
    rintro ⟨nd', h1', h2, h3⟩
    rw [hnd] at h1'; cases h1'
    simp at h0; omega
  · rename_i s hpre hnd
    refine ⟨hpre.2, ?_⟩
    rintro ⟨nd', h1', h2, h3⟩
    rw [hnd] at h1'; cases h1'

theorem rchUnlink_spec (d : Mode) (n a b : Nat) (F : Array Node → Nat → Prop) :
    ⦃fun s => ⌜HOff d none a b s ∧ F s.nodes s.rch.queues.size⌝⦄ rchUnlink n
    ⦃post⟨fun _ s => ⌜HOff d (some n) a (b+1) s ∧ F s.nodes s.rch.queues.size⌝,
          fun _ s => ⌜HOff d none a b s⌝⟩⦄ := by
  mvcgen [rchUnlink, getNode, IncrVerif.Engine.panic]
  case vc4 =>
    rename_i s hpre nd hnd h q hq _ hneg idx hidx _
    obtain ⟨⟨hb, hl, hd⟩, hF⟩ := hpre
    have hlt : h < s.rch.queues.size := (Array.getElem?_eq_some_iff.1 hq).1
    have hqe : s.rch.queues[h] = q := (Array.getElem?_eq_some_iff.1 hq).2
    have hm : markerOf s.nodes n = (h : Int) := by
      simp +zetaDelta only [markerOf, hnd, Option.getD_some]; omega
    clear_value h
    subst hqe
    obtain ⟨hb', hs'⟩ := BucketsOK.unlink hb h hlt hm idx hidx
    simp +zetaDelta only [HOff, Array.set!_eq_setIfInBounds, Array.size_setIfInBounds]
    exact ⟨⟨hb', by omega, hd⟩, hF⟩
  all_goals exact (‹HOff d none a b _ ∧ _›).1
theorem HOff_some_of_HWF {d : Mode} {s : State} {n : Nat} (h : HWF d s) (hm : markerOf s.nodes n = -1) :
    HOff d (some n) 0 0 s := by
  obtain ⟨⟨hb, hl⟩, hd⟩ := h
  refine ⟨?_, by simpa using hl, hd⟩
  simp only [setMk_self n _ _ hm]
  exact hb

theorem HWF.marker_neg {d : Mode} {s : State} {n : Nat} {nd : Node} (h : HWF d s)
    (hnd : s.nodes[n]? = some nd) (hn : nd.inRch = false) : markerOf s.nodes n = -1 := by
  have := h.1.1.range n
  simp only [markerOf, hnd, Option.getD_some] at this ⊢
  simp [Node.inRch] at hn
  omega

theorem rchInsert_pre {d : Mode} {s : State} {n : Nat} {nd : Node} {X : Bool}
    (hpre : HWF d s ∧ (d = Mode.debug ∨ markerOf s.nodes n = -1)) (hnd : s.nodes[n]? = some nd)
    (h1 : ¬(s.cfg.debug && !(!nd.inRch && X)) = true) : HOff d (some n) 0 0 s := by
  have hm : markerOf s.nodes n = -1 := by
    rcases hpre.2 with hd | hm
    · have := hpre.1.2 hd
      simp [this] at h1
      exact hpre.1.marker_neg hnd h1.1
    · exact hm
  exact HOff_some_of_HWF hpre.1 hm

@[spec]
theorem rchInsert_spec (d : Mode) (n : Nat) :
    ⦃fun s => ⌜HWF d s ∧ (d = Mode.debug ∨ markerOf s.nodes n = -1)⌝⦄ rchInsert n
    ⦃post⟨fun _ s => ⌜HWF d s⌝, fun _ s => ⌜HWF d s⌝⟩⦄ := by
  have hl := rchLink_spec d n 0 0 (HWF d)
  mvcgen [rchInsert, getNode, dassert, IncrVerif.Engine.panic, hl]
  case vc3 =>
    rename_i s hpre nd hnd h1 _ _ _ _
    have := rchInsert_pre hpre hnd h1
    have h2 := hpre.1
    simp +zetaDelta only [HOff, HWF, HeapOK] at this h2 ⊢
    exact ⟨this, h2⟩
  case vc6 =>
    rename_i s hpre nd hnd h1 _ _ _
    exact ⟨rchInsert_pre hpre hnd h1, hpre.1⟩
  case vc4 | vc7 =>
    have := ‹HOff d none (0 + 1) 0 _›
    simp +zetaDelta only [HOff, HWF, HeapOK] at this ⊢
    exact ⟨⟨this.1, by omega⟩, this.2.2⟩
  all_goals first | exact (‹HWF d _ ∧ _›).1 | (intro h _; exact h)
@[spec]
theorem rchRemove_spec (d : Mode) (n : Nat) :
    ⦃fun s => ⌜HWF d s⌝⦄ rchRemove n ⦃post⟨fun _ s => ⌜HWF d s⌝, fun _ s => ⌜HWF d s⌝⟩⦄ := by
  have hu := rchUnlink_spec d n 0 0 (fun _ _ => True)
  mvcgen [rchRemove, getNode, dassert, IncrVerif.Engine.panic, modNode, hu]
  case vc2 => exact (HWF_iff_HOff _ _).1 ‹_›
  case vc3 =>
    have := ‹HOff d (some n) 0 (0 + 1) _›
    simp +zetaDelta only [HOff, HWF, HeapOK, markerOf_modify_neg] at this ⊢
    exact ⟨⟨this.1, by omega⟩, this.2.2⟩
  case vc4 => exact (HWF_iff_HOff _ _).2

@[spec]
theorem rchMinHeight_spec (d : Mode) :
    ⦃fun s => ⌜HWF d s⌝⦄ rchMinHeight ⦃post⟨fun _ s => ⌜HWF d s⌝, fun _ s => ⌜HWF d s⌝⟩⦄ := by
  mvcgen [rchMinHeight]

@[spec]
theorem rchIncreaseHeight_spec (d : Mode) (n : Nat) :
    ⦃fun s => ⌜HWF d s ∧ (d = Mode.debug ∨ LinkOK s n)⌝⦄ rchIncreaseHeight n
    ⦃post⟨fun _ s => ⌜HWF d s⌝, fun _ s => ⌜HWF d s⌝⟩⦄ := by
  have hu := rchUnlink_spec d n 0 0 (fun nodes k => LinkOKn nodes k n)
  have hl := rchLink_spec d n 0 1 (fun s => LinkOK s n)
  mvcgen [rchIncreaseHeight, getNode, dassert, IncrVerif.Engine.panic, hu, hl]
  case vc4 =>
    rename_i s hpre nd hnd h1 h2 h3
    refine ⟨(HWF_iff_HOff _ _).1 hpre.1, ?_⟩
    rcases hpre.2 with hd | hk
    · have hdbg := hpre.1.2 hd
      simp [hdbg, Node.inRch] at h1 h2 h3
      refine ⟨nd, hnd, by omega, ?_⟩
      simp only [Heap.maxAllowed] at h3; omega
    · exact hk
  case vc6 =>
    intro h
    simp only [HOff, HWF, HeapOK] at h ⊢
    exact ⟨⟨h.1, by omega⟩, h.2.2⟩
  case vc7 => intro h1 h2; exact absurd h1 h2
  case vc8 => exact (HWF_iff_HOff _ _).2
  all_goals exact (‹HWF d _ ∧ _›).1

@[spec]
theorem rchRemoveMin_spec (d : Mode) :
    ⦃fun s => ⌜HWF d s⌝⦄ rchRemoveMin ⦃post⟨fun _ s => ⌜HWF d s⌝, fun _ s => ⌜HWF d s⌝⟩⦄ := by
  mvcgen [rchRemoveMin, dassert, IncrVerif.Engine.panic, modNode]
  rename_i s h _ _ lb n rest hq _ _
  have hlt : lb < s.rch.queues.size := (Array.getElem?_eq_some_iff.1 hq).1
  have hqe : s.rch.queues[lb] = n :: rest := (Array.getElem?_eq_some_iff.1 hq).2
  clear_value lb
  obtain ⟨hb, hs, -⟩ := h.1.1.pop lb hlt hqe
  have hl := h.1.2
  simp +zetaDelta only [HWF, HeapOK, markerOf_modify_neg, Array.set!_eq_setIfInBounds]
  exact ⟨⟨hb, by omega⟩, h.2⟩

/-! ## frame lemmas -/

theorem markerOf_modify_frame (nodes : Array Node) (n : Nat) (f : Node → Node)
    (hf : ∀ x, (f x).heightInRch = x.heightInRch) : markerOf (nodes.modify n f) = markerOf nodes := by
  funext m
  simp only [markerOf, Array.getElem?_modify]
  split
  · cases h : nodes[m]? <;> simp [hf]
  · rfl

theorem markerOf_push (nodes : Array Node) (nd : Node) (h : nd.heightInRch = -1) :
    markerOf (nodes.push nd) = markerOf nodes := by
  funext m
  simp only [markerOf, Array.getElem?_push]
  split
  · subst_vars; simp [h]; rfl
  · rfl

/-- closes the side goals `mvcgen` leaves for frame steps -/
macro "hwf_triv" : tactic =>
  `(tactic| first
    | assumption
    | (intros; trivial)
    | exact (‹HWF _ _ ∧ _›).1
    | (intros; rfl)
    | (intro h _; exact h))

abbrev Pres {α} (d : Mode) (x : M α) : Prop :=
  ⦃fun s => ⌜HWF d s⌝⦄ x ⦃post⟨fun _ s => ⌜HWF d s⌝, fun _ s => ⌜HWF d s⌝⟩⦄

@[spec]
theorem modNode_spec (d : Mode) (n : Nat) (f : Node → Node) (hf : ∀ x, (f x).heightInRch = x.heightInRch) :
    ⦃fun s => ⌜HWF d s⌝⦄ modNode n f ⦃post⟨fun _ s => ⌜HWF d s⌝, fun _ s => ⌜HWF d s⌝⟩⦄ := by
  mvcgen [modNode]
  simp +zetaDelta only [HWF, markerOf_modify_frame _ _ _ hf]
  assumption

@[spec]
theorem logEv_spec (d : Mode) (e : Event) :
    ⦃fun s => ⌜HWF d s⌝⦄ logEv e ⦃post⟨fun _ s => ⌜HWF d s⌝, fun _ s => ⌜HWF d s⌝⟩⦄ := by
  mvcgen [logEv]

@[spec]
theorem tick_spec (d : Mode) :
    ⦃fun s => ⌜HWF d s⌝⦄ tick ⦃post⟨fun _ s => ⌜HWF d s⌝, fun _ s => ⌜HWF d s⌝⟩⦄ := by
  mvcgen [tick, IncrVerif.Engine.panic]

@[spec]
theorem modBind_spec (d : Mode) (b : Nat) (f : BindRec → BindRec) :
    ⦃fun s => ⌜HWF d s⌝⦄ modBind b f ⦃post⟨fun _ s => ⌜HWF d s⌝, fun _ s => ⌜HWF d s⌝⟩⦄ := by
  mvcgen [modBind]

@[spec]
theorem modExpert_spec (d : Mode) (b : Nat) (f : ExpertRec → ExpertRec) :
    ⦃fun s => ⌜HWF d s⌝⦄ modExpert b f ⦃post⟨fun _ s => ⌜HWF d s⌝, fun _ s => ⌜HWF d s⌝⟩⦄ := by
  mvcgen [modExpert]

@[spec]
theorem modObs_spec (d : Mode) (b : Nat) (f : ObsRec → ObsRec) :
    ⦃fun s => ⌜HWF d s⌝⦄ modObs b f ⦃post⟨fun _ s => ⌜HWF d s⌝, fun _ s => ⌜HWF d s⌝⟩⦄ := by
  mvcgen [modObs]

@[spec]
theorem modVar_spec (d : Mode) (b : Nat) (f : VarCell → VarCell) :
    ⦃fun s => ⌜HWF d s⌝⦄ modVar b f ⦃post⟨fun _ s => ⌜HWF d s⌝, fun _ s => ⌜HWF d s⌝⟩⦄ := by
  mvcgen [modVar]

@[spec]
theorem bumpCounter_spec (d : Mode) (f : Counters → Counters) :
    ⦃fun s => ⌜HWF d s⌝⦄ bumpCounter f ⦃post⟨fun _ s => ⌜HWF d s⌝, fun _ s => ⌜HWF d s⌝⟩⦄ := by
  mvcgen [bumpCounter]

@[spec]
theorem setHeight_spec (d : Mode) (n : Nat) (h : Int) :
    ⦃fun s => ⌜HWF d s⌝⦄ setHeight n h ⦃post⟨fun _ s => ⌜HWF d s⌝, fun _ s => ⌜HWF d s⌝⟩⦄ := by
  mvcgen [setHeight, IncrVerif.Engine.panic]
  all_goals hwf_triv

@[spec]
theorem addParent_spec (d : Mode) (c i p : Nat) :
    ⦃fun s => ⌜HWF d s⌝⦄ addParent c i p ⦃post⟨fun _ s => ⌜HWF d s⌝, fun _ s => ⌜HWF d s⌝⟩⦄ := by
  mvcgen [addParent]
  all_goals hwf_triv

@[spec]
theorem removeParent_spec (d : Mode) (c i p : Nat) :
    ⦃fun s => ⌜HWF d s⌝⦄ removeParent c i p ⦃post⟨fun _ s => ⌜HWF d s⌝, fun _ s => ⌜HWF d s⌝⟩⦄ := by
  mvcgen [removeParent, getNode, IncrVerif.Engine.panic]
  all_goals hwf_triv

@[spec]
theorem handleAfterStabilisation_spec (d : Mode) (n : Nat) :
    ⦃fun s => ⌜HWF d s⌝⦄ handleAfterStabilisation n ⦃post⟨fun _ s => ⌜HWF d s⌝, fun _ s => ⌜HWF d s⌝⟩⦄ := by
  mvcgen [handleAfterStabilisation, getNode, IncrVerif.Engine.panic]
  all_goals hwf_triv

@[spec]
theorem maybeHandleAfterStabilisation_spec (d : Mode) (n : Nat) :
    ⦃fun s => ⌜HWF d s⌝⦄ maybeHandleAfterStabilisation n ⦃post⟨fun _ s => ⌜HWF d s⌝, fun _ s => ⌜HWF d s⌝⟩⦄ := by
  mvcgen [maybeHandleAfterStabilisation, getNode, IncrVerif.Engine.panic]


/-! readers and assertions (no state change) -/

attribute [spec] IncrVerif.Engine.panic

@[spec]
theorem assertM_spec (d : Mode) (c : Bool) (site : String) :
    ⦃fun s => ⌜HWF d s⌝⦄ assertM c site ⦃post⟨fun _ s => ⌜HWF d s⌝, fun _ s => ⌜HWF d s⌝⟩⦄ := by
  mvcgen [assertM]

@[spec]
theorem dassert_spec (d : Mode) (c : Bool) (site : String) :
    ⦃fun s => ⌜HWF d s⌝⦄ dassert c site ⦃post⟨fun _ s => ⌜HWF d s⌝, fun _ s => ⌜HWF d s⌝⟩⦄ := by
  mvcgen [dassert]

@[spec]
theorem getNode_spec (d : Mode) (n : Nat) :
    ⦃fun s => ⌜HWF d s⌝⦄ getNode n ⦃post⟨fun _ s => ⌜HWF d s⌝, fun _ s => ⌜HWF d s⌝⟩⦄ := by
  mvcgen [getNode]

@[spec]
theorem getBind_spec (d : Mode) (n : Nat) :
    ⦃fun s => ⌜HWF d s⌝⦄ getBind n ⦃post⟨fun _ s => ⌜HWF d s⌝, fun _ s => ⌜HWF d s⌝⟩⦄ := by
  mvcgen [getBind]

@[spec]
theorem getExpert_spec (d : Mode) (n : Nat) :
    ⦃fun s => ⌜HWF d s⌝⦄ getExpert n ⦃post⟨fun _ s => ⌜HWF d s⌝, fun _ s => ⌜HWF d s⌝⟩⦄ := by
  mvcgen [getExpert]

@[spec]
theorem getVar_spec (d : Mode) (n : Nat) :
    ⦃fun s => ⌜HWF d s⌝⦄ getVar n ⦃post⟨fun _ s => ⌜HWF d s⌝, fun _ s => ⌜HWF d s⌝⟩⦄ := by
  mvcgen [getVar]

@[spec]
theorem getObs_spec (d : Mode) (n : Nat) :
    ⦃fun s => ⌜HWF d s⌝⦄ getObs n ⦃post⟨fun _ s => ⌜HWF d s⌝, fun _ s => ⌜HWF d s⌝⟩⦄ := by
  mvcgen [getObs]

@[spec]
theorem scopeHeight_spec (d : Mode) (sc : Scope) :
    ⦃fun s => ⌜HWF d s⌝⦄ scopeHeight sc ⦃post⟨fun _ s => ⌜HWF d s⌝, fun _ s => ⌜HWF d s⌝⟩⦄ := by
  mvcgen [scopeHeight]

@[spec]
theorem scopeIsNecessary_spec (d : Mode) (sc : Scope) :
    ⦃fun s => ⌜HWF d s⌝⦄ scopeIsNecessary sc ⦃post⟨fun _ s => ⌜HWF d s⌝, fun _ s => ⌜HWF d s⌝⟩⦄ := by
  mvcgen [scopeIsNecessary]

@[spec]
theorem scopeIsValid_spec (d : Mode) (sc : Scope) :
    ⦃fun s => ⌜HWF d s⌝⦄ scopeIsValid sc ⦃post⟨fun _ s => ⌜HWF d s⌝, fun _ s => ⌜HWF d s⌝⟩⦄ := by
  mvcgen [scopeIsValid]

@[spec]
theorem isConstant_spec (d : Mode) (n : Nat) :
    ⦃fun s => ⌜HWF d s⌝⦄ isConstant n ⦃post⟨fun _ s => ⌜HWF d s⌝, fun _ s => ⌜HWF d s⌝⟩⦄ := by
  mvcgen [isConstant]

@[spec]
theorem resolveOpnd_spec (d : Mode) (loc : List Nat) (o : Opnd) :
    ⦃fun s => ⌜HWF d s⌝⦄ resolveOpnd loc o ⦃post⟨fun _ s => ⌜HWF d s⌝, fun _ s => ⌜HWF d s⌝⟩⦄ := by
  mvcgen [resolveOpnd]

@[spec]
theorem expertOf_spec (d : Mode) (n : Nat) :
    ⦃fun s => ⌜HWF d s⌝⦄ expertOf n ⦃post⟨fun _ s => ⌜HWF d s⌝, fun _ s => ⌜HWF d s⌝⟩⦄ := by
  mvcgen [expertOf]

@[spec]
theorem expertIdxRaw_spec (d : Mode) (n : Nat) :
    ⦃fun s => ⌜HWF d s⌝⦄ expertIdxRaw n ⦃post⟨fun _ s => ⌜HWF d s⌝, fun _ s => ⌜HWF d s⌝⟩⦄ := by
  mvcgen [expertIdxRaw]

@[spec]
theorem valueUnwrap_spec (d : Mode) (env : Env) (n : Nat) (site : String) :
    ⦃fun s => ⌜HWF d s⌝⦄ valueUnwrap env n site ⦃post⟨fun _ s => ⌜HWF d s⌝, fun _ s => ⌜HWF d s⌝⟩⦄ := by
  mvcgen [valueUnwrap]

@[spec]
theorem assertRunningIsChild_spec (d : Mode) (n : Nat) (name : String) :
    ⦃fun s => ⌜HWF d s⌝⦄ assertRunningIsChild n name ⦃post⟨fun _ s => ⌜HWF d s⌝, fun _ s => ⌜HWF d s⌝⟩⦄ := by
  mvcgen [assertRunningIsChild]

/-- the guard `if !nd.inRch then rchInsert n` establishes the precondition of `rchInsert` -/
theorem HWF.insert_pre {d : Mode} {s : State} {n : Nat} {nd : Node} (h : HWF d s)
    (hnd : s.nodes[n]? = some nd) (hn : (!nd.inRch) = true) :
    HWF d s ∧ (d = Mode.debug ∨ markerOf s.nodes n = -1) :=
  ⟨h, Or.inr (h.marker_neg hnd (by simpa using hn))⟩

theorem HWF.insert_pre' {d : Mode} {s : State} {n : Nat} (h : HWF d s)
    (hn : (s.nodeD n).inRch = false) :
    HWF d s ∧ (d = Mode.debug ∨ markerOf s.nodes n = -1) := by
  refine ⟨h, Or.inr ?_⟩
  have := h.1.1.range n
  have e : markerOf s.nodes n = (s.nodeD n).heightInRch := rfl
  simp [Node.inRch] at hn
  omega

/-! node creation, adjust-heights heap, cutoffs, expert callbacks -/

@[spec]
theorem createNode_spec (d : Mode) (k : Kind) (sc : Scope) (c : CutoffK) :
    ⦃fun s => ⌜HWF d s⌝⦄ createNode k sc c ⦃post⟨fun _ s => ⌜HWF d s⌝, fun _ s => ⌜HWF d s⌝⟩⦄ := by
  mvcgen [createNode]
  all_goals (rw [HWF]; simp +zetaDelta only []; rw [markerOf_push _ _ (by rfl)]; assumption)

@[spec]
theorem createVar_spec (d : Mode) (v : Val) (sc : Scope) :
    ⦃fun s => ⌜HWF d s⌝⦄ createVar v sc ⦃post⟨fun _ s => ⌜HWF d s⌝, fun _ s => ⌜HWF d s⌝⟩⦄ := by
  mvcgen [createVar]

@[spec]
theorem createBind_spec (d : Mode) (body lhs : Nat) :
    ⦃fun s => ⌜HWF d s⌝⦄ createBind body lhs ⦃post⟨fun _ s => ⌜HWF d s⌝, fun _ s => ⌜HWF d s⌝⟩⦄ := by
  mvcgen [createBind]

@[spec]
theorem ahhAddUnlessMem_spec (d : Mode) (n : Nat) :
    ⦃fun s => ⌜HWF d s⌝⦄ ahhAddUnlessMem n ⦃post⟨fun _ s => ⌜HWF d s⌝, fun _ s => ⌜HWF d s⌝⟩⦄ := by
  mvcgen [ahhAddUnlessMem]
  all_goals hwf_triv

@[spec]
theorem ahhRemoveMin_spec (d : Mode) :
    ⦃fun s => ⌜HWF d s⌝⦄ ahhRemoveMin ⦃post⟨fun _ s => ⌜HWF d s⌝, fun _ s => ⌜HWF d s⌝⟩⦄ := by
  mvcgen [ahhRemoveMin]
  all_goals hwf_triv

@[spec]
theorem ensureHeightRequirement_spec (d : Mode) (oc op c p : Nat) :
    ⦃fun s => ⌜HWF d s⌝⦄ ensureHeightRequirement oc op c p ⦃post⟨fun _ s => ⌜HWF d s⌝, fun _ s => ⌜HWF d s⌝⟩⦄ := by
  mvcgen [ensureHeightRequirement]

@[spec]
theorem shouldCutoff_spec (d : Mode) (env : Env) (n : Nat) (o v : Val) :
    ⦃fun s => ⌜HWF d s⌝⦄ shouldCutoff env n o v ⦃post⟨fun _ s => ⌜HWF d s⌝, fun _ s => ⌜HWF d s⌝⟩⦄ := by
  mvcgen [shouldCutoff]

@[spec]
theorem edgeOnChange_spec (d : Mode) (env : Env) (e : Nat) (edge : ExpertEdge) :
    ⦃fun s => ⌜HWF d s⌝⦄ edgeOnChange env e edge ⦃post⟨fun _ s => ⌜HWF d s⌝, fun _ s => ⌜HWF d s⌝⟩⦄ := by
  mvcgen [edgeOnChange]

@[spec]
theorem runEdgeCallback_spec (d : Mode) (env : Env) (e i : Nat) :
    ⦃fun s => ⌜HWF d s⌝⦄ runEdgeCallback env e i ⦃post⟨fun _ s => ⌜HWF d s⌝, fun _ s => ⌜HWF d s⌝⟩⦄ := by
  mvcgen [runEdgeCallback]

@[spec]
theorem observabilityChange_spec (d : Mode) (e : Nat) (b : Bool) :
    ⦃fun s => ⌜HWF d s⌝⦄ observabilityChange e b ⦃post⟨fun _ s => ⌜HWF d s⌝, fun _ s => ⌜HWF d s⌝⟩⦄ := by
  mvcgen [observabilityChange]

/-- the loop invariant of every `for` loop: `HWF` -/
abbrev hwfInv (d : Mode) {α : Type} {β : Type} {xs : List α} :
    Invariant xs β (.except Panic (.arg State .pure)) :=
  post⟨fun _ s => ⌜HWF d s⌝, fun _ s => ⌜HWF d s⌝⟩

/-- closes what `mvcgen` leaves: loop invariants, frame side conditions, `rchInsert` guards -/
macro "hwf_fin" d:term : tactic =>
  `(tactic| (try any_goals exact hwfInv $d
             try any_goals exact ($d : Mode)
             all_goals first
               | hwf_triv
               | exact HWF.insert_pre ‹_› ‹_› ‹_›
               | exact HWF.insert_pre' ‹_› ‹_›
               | exact ⟨‹_›, Or.inl rfl⟩
               | exact ⟨‹_›, Or.inl trivial⟩
               | skip))

/-! ## necessity and invalidation cascades -/

theorem unnecessary_specs (d : Mode) (fuel : Nat) :
    (∀ n, Pres d (becameUnnecessary fuel n)) ∧ (∀ n, Pres d (checkIfUnnecessary fuel n)) ∧
      (∀ n, Pres d (removeChildren fuel n)) := by
  induction fuel with
  | zero =>
    refine ⟨?_, ?_, ?_⟩ <;> intro n
    · mvcgen [becameUnnecessary]
    · mvcgen [checkIfUnnecessary]
    · mvcgen [removeChildren]
  | succ fuel ih =>
    obtain ⟨ih1, ih2, ih3⟩ := ih
    refine ⟨?_, ?_, ?_⟩ <;> intro n
    · mvcgen [becameUnnecessary, ih3]
    · mvcgen [checkIfUnnecessary, ih1]
    · mvcgen [removeChildren, ih2] invariants
        · post⟨fun _ s => ⌜HWF d s⌝, fun _ s => ⌜HWF d s⌝⟩

@[spec]
theorem becameUnnecessary_spec (d : Mode) (fuel n : Nat) : Pres d (becameUnnecessary fuel n) :=
  (unnecessary_specs d fuel).1 n

@[spec]
theorem checkIfUnnecessary_spec (d : Mode) (fuel n : Nat) : Pres d (checkIfUnnecessary fuel n) :=
  (unnecessary_specs d fuel).2.1 n

@[spec]
theorem removeChildren_spec (d : Mode) (fuel n : Nat) : Pres d (removeChildren fuel n) :=
  (unnecessary_specs d fuel).2.2 n

@[spec]
theorem invalidateNode_spec (d : Mode) (fuel n : Nat) : Pres d (invalidateNode fuel n) := by
  induction fuel generalizing n with
  | zero => mvcgen [invalidateNode]
  | succ fuel ih =>
    mvcgen [invalidateNode, ih]
    hwf_fin d

@[spec]
theorem propagateInvalidity_spec (d : Mode) (fuel : Nat) : Pres d (propagateInvalidity fuel) := by
  induction fuel with
  | zero => mvcgen [propagateInvalidity]
  | succ fuel ih =>
    mvcgen [propagateInvalidity, ih, getNode]
    hwf_fin d

/-! ## height adjustment and the becoming-necessary cascade: debug mode (`d = true`) -/

@[spec]
theorem adjustHeightsLoop_spec (oc op fuel : Nat) : Pres .debug (adjustHeightsLoop oc op fuel) := by
  induction fuel with
  | zero => mvcgen [adjustHeightsLoop]
  | succ fuel ih =>
    mvcgen [adjustHeightsLoop, ih]
    hwf_fin Mode.debug

@[spec]
theorem adjustHeights_spec (oc op fuel : Nat) : Pres .debug (adjustHeights oc op fuel) := by
  mvcgen [adjustHeights]

/-- loop rule: a `for` loop whose body preserves the invariant preserves it -/
theorem forIn_pres {α β} (d : Mode) (l : List α) (init : β) (f : α → β → M (ForInStep β))
    (hf : ∀ a b, Pres d (f a b)) : Pres d (forIn l init f) := by
  induction l generalizing init with
  | nil => simp only [List.forIn_nil]; mvcgen
  | cons a l ih =>
    rw [List.forIn_cons]
    have := hf a init
    mvcgen [this, ih]



@[spec]
theorem markMapRefUnknown_spec (d : Mode) (fuel n : Nat) : Pres d (markMapRefUnknown fuel n) := by
  induction fuel generalizing n with
  | zero => mvcgen [markMapRefUnknown]
  | succ fuel ih =>
    mvcgen [markMapRefUnknown, ih, -Spec.forIn_list, forIn_pres]
    hwf_fin d

theorem necessary_specs (env : Env) (fuel : Nat) :
    (∀ n, Pres .debug (becameNecessary env fuel n)) ∧
      (∀ c i p, Pres .debug (addParentWithoutAdjustingHeights env fuel c i p)) := by
  induction fuel with
  | zero =>
    refine ⟨?_, ?_⟩ <;> intros
    · mvcgen [becameNecessary]
    · mvcgen [addParentWithoutAdjustingHeights]
  | succ fuel ih =>
    obtain ⟨ih1, ih2⟩ := ih
    refine ⟨?_, ?_⟩ <;> intros
    · mvcgen [becameNecessary, ih2]
      hwf_fin Mode.debug
    · mvcgen [addParentWithoutAdjustingHeights, ih1]
      hwf_fin Mode.debug

@[spec]
theorem becameNecessary_spec (env : Env) (fuel n : Nat) : Pres .debug (becameNecessary env fuel n) :=
  (necessary_specs env fuel).1 n

@[spec]
theorem addParentWithoutAdjustingHeights_spec (env : Env) (fuel c i p : Nat) :
    Pres .debug (addParentWithoutAdjustingHeights env fuel c i p) :=
  (necessary_specs env fuel).2 c i p

@[spec]
theorem becameNecessaryPropagate_spec (env : Env) (fuel n : Nat) :
    Pres .debug (becameNecessaryPropagate env fuel n) := by
  mvcgen [becameNecessaryPropagate]

@[spec]
theorem stateAddParent_spec (env : Env) (fuel c i p : Nat) :
    Pres .debug (stateAddParent env fuel c i p) := by
  mvcgen [stateAddParent]
  hwf_fin Mode.debug

@[spec]
theorem changeChildBindRhs_spec (env : Env) (fuel main : Nat) (old : Option Nat) (new index : Nat) :
    Pres .debug (changeChildBindRhs env fuel main old new index) := by
  mvcgen [changeChildBindRhs]
  hwf_fin Mode.debug

theorem HWF.insert_pre_and {d : Mode} {s : State} {n : Nat} {X : Bool} (h : HWF d s)
    (hn : (X && !(s.nodeD n).inRch) = true) :
    HWF d s ∧ (d = Mode.debug ∨ markerOf s.nodes n = -1) :=
  h.insert_pre' (by simp at hn; exact hn.2)

@[spec]
theorem mapM_spec {α β} (d : Mode) (f : α → M β) (hf : ∀ a, Pres d (f a)) (l : List α) :
    Pres d (l.mapM f) := by
  induction l with
  | nil => mvcgen [List.mapM_nil]
  | cons a l ih =>
    have := hf a
    rw [List.mapM_cons]
    mvcgen [this, ih]

@[spec]
theorem mapConst_spec {α β} (d : Mode) (b : β) (x : M α) (hx : Pres d x) :
    Pres d (Functor.mapConst b x) := by
  rw [LawfulFunctor.map_const]
  simp only [Function.comp_apply]
  mvcgen [hx]

/-! ## the expert API -/

@[spec]
theorem expertMakeStale_spec (d : Mode) (n : Nat) : Pres d (expertMakeStale n) := by
  mvcgen [expertMakeStale]
  hwf_fin d
  all_goals exact HWF.insert_pre_and ‹_› ‹_›

@[spec]
theorem expertAddDependency_spec (env : Env) (fuel n child : Nat) (cb : Bool) :
    Pres .debug (expertAddDependency env fuel n child cb) := by
  mvcgen [expertAddDependency]
  hwf_fin Mode.debug

@[spec]
theorem swapEdgeIndices_spec (d : Mode) (n c1 i1 c2 i2 : Nat) : Pres d (swapEdgeIndices n c1 i1 c2 i2) := by
  mvcgen [swapEdgeIndices]
  hwf_fin d

@[spec]
theorem expertRemoveDependency_spec (d : Mode) (fuel n dep : Nat) :
    Pres d (expertRemoveDependency fuel n dep) := by
  mvcgen [expertRemoveDependency, getNode]
  hwf_fin d

@[spec]
theorem expertInvalidate_spec (d : Mode) (fuel n : Nat) : Pres d (expertInvalidate fuel n) := by
  mvcgen [expertInvalidate]

/-! ## node creation from templates, var writes, observers -/

@[spec]
theorem elabInstr_spec (d : Mode) (loc : List Nat) (v : Val) (i : Instr) : Pres d (elabInstr loc v i) := by
  mvcgen [elabInstr]
  hwf_fin d

@[spec]
theorem elabTemplateBase_spec (d : Mode) (t : Template) (v : Val) (init : List Nat) :
    Pres d (elabTemplateBase t v init) := by
  mvcgen [elabTemplateBase]
  hwf_fin d

@[spec]
theorem memoCall_spec (d : Mode) (env : Env) (m : Nat) (key : Int) : Pres d (memoCall env m key) := by
  mvcgen [memoCall]
  hwf_fin d

@[spec]
theorem elabInstrM_spec (d : Mode) (env : Env) (loc : List Nat) (v : Val) (i : Instr) :
    Pres d (elabInstrM env loc v i) := by
  mvcgen [elabInstrM]
  hwf_fin d

@[spec]
theorem elabTemplate_spec (d : Mode) (env : Env) (t : Template) (v : Val) : Pres d (elabTemplate env t v) := by
  mvcgen [elabTemplate]
  hwf_fin d

@[spec]
theorem didSetVarWhileNotStabilising_spec (d : Mode) (v : Nat) :
    Pres d (didSetVarWhileNotStabilising v) := by
  mvcgen [didSetVarWhileNotStabilising, dassert]
  hwf_fin d
  all_goals exact HWF.insert_pre_and ‹_› ‹_›

@[spec]
theorem writeVar_spec (d : Mode) (v : Nat) (f : Val → Val) (isSet : Bool) : Pres d (writeVar v f isSet) := by
  mvcgen [writeVar]

@[spec]
theorem disallowFutureUse_spec (d : Mode) (o : Nat) : Pres d (disallowFutureUse o) := by
  mvcgen [disallowFutureUse]

@[spec]
theorem subscribe_spec (d : Mode) (o hid : Nat) : Pres d (subscribe o hid) := by
  mvcgen [subscribe]
  hwf_fin d

@[spec]
theorem unsubscribe_spec (d : Mode) (o token owner : Nat) : Pres d (unsubscribe o token owner) := by
  mvcgen [unsubscribe]
  hwf_fin d

/-- dropping a `Var` handle touches `vars[v].handles` and `deadVars` only -/
@[spec]
theorem dropVarHandle_spec (d : Mode) (v : Nat) : Pres d (dropVarHandle v) := by
  mvcgen [dropVarHandle]
  hwf_fin d

/-- `withVarHandle v act` is `act` or a no-op -/
theorem withVarHandle_spec (d : Mode) (v : Nat) (act : M Unit) (h : Pres d act) :
    Pres d (withVarHandle v act) := by
  mvcgen [withVarHandle, h]

theorem discard_spec {α} (d : Mode) (x : M α) (h : Pres d x) : Pres d (discard x) := by
  mvcgen [Functor.discard, h]

@[spec]
theorem runEffectBasic_spec (d : Mode) (env : Env) (e : Effect) : Pres d (runEffectBasic env e) := by
  cases e with
  | setVar v x =>
    simp only [runEffectBasic]
    exact withVarHandle_spec d v _ (discard_spec d _ (writeVar_spec _ _ _ _))
  | modifyVar v x =>
    simp only [runEffectBasic]
    exact withVarHandle_spec d v _ (discard_spec d _ (writeVar_spec _ _ _ _))
  | updateVar v x =>
    simp only [runEffectBasic]
    exact withVarHandle_spec d v _ (discard_spec d _ (writeVar_spec _ _ _ _))
  | replaceVar v x =>
    simp only [runEffectBasic]
    apply withVarHandle_spec
    mvcgen
  | replaceWithVar v x =>
    simp only [runEffectBasic]
    apply withVarHandle_spec
    mvcgen
  | dropVar v =>
    simp only [runEffectBasic]
    exact discard_spec d _ (dropVarHandle_spec d v)
  | readObs o => mvcgen [runEffectBasic]
  | panic => mvcgen [runEffectBasic]
  | disallow o => mvcgen [runEffectBasic]
  | _ => mvcgen [runEffectBasic]

/-! ## recompute -/

@[spec]
theorem childChanged_spec (d : Mode) (env : Env) (fuel p c ci : Nat) (o : Option Val) :
    Pres d (childChanged env fuel p c ci o) := by
  induction fuel generalizing p c ci o with
  | zero => mvcgen [childChanged]
  | succ fuel ih =>
    mvcgen [childChanged, ih]
    hwf_fin d

/-- `HWF` together with the precondition of `rchInsert p` -/
abbrev PresQ {α} (d : Mode) (p : Nat) (x : M α) : Prop :=
  ⦃fun s => ⌜HWF d s ∧ (d = Mode.debug ∨ markerOf s.nodes p = -1)⌝⦄ x
  ⦃post⟨fun _ s => ⌜HWF d s ∧ (d = Mode.debug ∨ markerOf s.nodes p = -1)⌝, fun _ s => ⌜HWF d s⌝⟩⦄

theorem getNode_specQ (d : Mode) (p n : Nat) : PresQ d p (getNode n) := by
  mvcgen [-getNode_spec, getNode]
  all_goals hwf_triv

theorem scopeHeight_specQ (d : Mode) (p : Nat) (sc : Scope) : PresQ d p (scopeHeight sc) := by
  mvcgen [-scopeHeight_spec, -getBind_spec, -getNode_spec, scopeHeight, getBind, getNode]
  all_goals hwf_triv

theorem rchMinHeight_specQ (d : Mode) (p : Nat) : PresQ d p rchMinHeight := by
  mvcgen [-rchMinHeight_spec, rchMinHeight]
  all_goals hwf_triv

theorem dassert_specQ (d : Mode) (p : Nat) (c : Bool) (site : String) : PresQ d p (dassert c site) := by
  mvcgen [-dassert_spec, dassert]
  all_goals hwf_triv

@[spec]
theorem parentIterCanRecomputeNow_spec (d : Mode) (p child : Nat) :
    ⦃fun s => ⌜HWF d s ∧ (d = Mode.debug ∨ markerOf s.nodes p = -1)⌝⦄
    parentIterCanRecomputeNow p child
    ⦃post⟨fun _ s => ⌜HWF d s⌝, fun _ s => ⌜HWF d s⌝⟩⦄ := by
  have h1 := getNode_specQ d p
  have h2 := scopeHeight_specQ d p
  have h3 := rchMinHeight_specQ d p
  have h4 := dassert_specQ d p
  mvcgen [-getNode_spec, -scopeHeight_spec, -rchMinHeight_spec, -dassert_spec,
    parentIterCanRecomputeNow, h1, h2, h3, h4]
  all_goals hwf_triv

@[spec]
theorem maybeChangeValueManual_spec (d : Mode) (env : Env) (fuel n : Nat) (o : Option Val) (b1 b2 : Bool) :
    Pres d (maybeChangeValueManual env fuel n o b1 b2) := by
  mvcgen [maybeChangeValueManual, getNode]
  hwf_fin d

@[spec]
theorem maybeChangeValue_spec (d : Mode) (env : Env) (fuel n : Nat) (v : Val) :
    Pres d (maybeChangeValue env fuel n v) := by
  mvcgen [maybeChangeValue]
  hwf_fin d

@[spec]
theorem runEffects_spec (env : Env) (fuel : Nat) (effs : List Effect) (arg : Int) :
    Pres .debug (runEffects env fuel effs arg) := by
  mvcgen [runEffects, -Spec.forIn_list, forIn_pres]

@[spec]
theorem expertValue_spec (d : Mode) (env : Env) (e : Nat) (dv sv : List (Option Val)) :
    Pres d (expertValue env e dv sv) := by
  mvcgen [expertValue]
  hwf_fin d

@[spec]
theorem withOldEvents_spec (d : Mode) (env : Env) (g n : Nat) (σ : Val) (old : Option Val) (x new : Val)
    (did : Bool) : Pres d (withOldEvents env g n σ old x new did) := by
  mvcgen [withOldEvents, -Spec.forIn_list, forIn_pres]
  hwf_fin d

@[spec]
theorem perKeyDriver_spec (env : Env) (fuel op : Nat) (newMap : List (Int × Int)) :
    Pres .debug (perKeyDriver env fuel op newMap) := by
  mvcgen [perKeyDriver, Functor.discard, -Spec.forIn_list, forIn_pres]
  hwf_fin Mode.debug
  all_goals exact expertAddDependency_spec _ _ _ _ _

@[spec]
theorem recomputeOne_spec (env : Env) (fuel n : Nat) : Pres .debug (recomputeOne env fuel n) := by
  mvcgen [recomputeOne]
  hwf_fin Mode.debug

@[spec]
theorem recompute_spec (env : Env) (fuel n : Nat) : Pres .debug (recompute env fuel n) := by
  induction fuel generalizing n with
  | zero => mvcgen [recompute]
  | succ fuel ih => mvcgen [recompute, ih]

/-! ## stabilise -/

@[spec]
theorem addNewObservers_spec (env : Env) (fuel : Nat) : Pres .debug (addNewObservers env fuel) := by
  mvcgen [addNewObservers]
  hwf_fin Mode.debug

@[spec]
theorem unlinkDisallowedObservers_spec (d : Mode) (fuel : Nat) : Pres d (unlinkDisallowedObservers fuel) := by
  mvcgen [unlinkDisallowedObservers]
  hwf_fin d

@[spec]
theorem runAll_spec (env : Env) (fuel o n : Nat) (nu : NodeUpdate) (now : Int) :
    Pres .debug (runAll env fuel o n nu now) := by
  mvcgen [runAll, -Spec.forIn_list, forIn_pres]

@[spec]
theorem stabiliseEnd_spec (env : Env) (fuel : Nat) : Pres .debug (stabiliseEnd env fuel) := by
  mvcgen [stabiliseEnd]
  hwf_fin Mode.debug

@[spec]
theorem drainHeap_spec (env : Env) (fuel : Nat) : Pres .debug (drainHeap env fuel) := by
  induction fuel with
  | zero => mvcgen [drainHeap]
  | succ fuel ih => mvcgen [drainHeap, ih]

@[spec]
theorem stabilise_spec (env : Env) (fuel : Nat) : Pres .debug (stabilise env fuel) := by
  mvcgen [stabilise]

/-! ## `set_max_height_allowed` (debug mode: the dropped buckets are asserted empty) -/

def resizeQueues (newMax : Nat) (q : Array (List Nat)) : Array (List Nat) :=
  if q.size ≥ newMax + 1 then q.extract 0 (newMax + 1)
  else q ++ Array.replicate (newMax + 1 - q.size) []

theorem sum_length_of_all_empty (l : List (List Nat)) (h : ∀ x ∈ l, x = []) :
    (l.map List.length).sum = 0 := by
  induction l with
  | nil => rfl
  | cons a l ih =>
    have ha := h a List.mem_cons_self
    have := ih (fun x hx => h x (List.mem_cons_of_mem _ hx))
    simp [ha, this]

theorem BucketsOK.resize {q : Array (List Nat)} {mk : Nat → Int} (hq : BucketsOK q mk) (newMax : Nat)
    (hempty : (q.toList.drop (newMax + 1)).all (·.isEmpty) = true) :
    BucketsOK (resizeQueues newMax q) mk ∧ bucketSum (resizeQueues newMax q) = bucketSum q := by
  have hE : ∀ h (hh : h < q.size), newMax + 1 ≤ h → q[h] = [] := by
    intro h hh hle
    rw [List.all_eq_true] at hempty
    have : q[h] ∈ q.toList.drop (newMax + 1) := by
      rw [List.mem_drop_iff_getElem]
      refine ⟨h - (newMax + 1), by simp; omega, ?_⟩
      simp
      congr 1; omega
    simpa using hempty _ this
  unfold resizeQueues
  split
  · rename_i hge
    have hsz : (q.extract 0 (newMax + 1)).size = newMax + 1 := by simp; omega
    refine ⟨⟨?_, ?_, ?_⟩, ?_⟩
    · intro h hh n
      have hh' : h < q.size := by omega
      rw [Array.getElem_extract]
      simpa using hq.mem h hh' n
    · intro h hh
      have hh' : h < q.size := by omega
      rw [Array.getElem_extract]
      simpa using hq.nodup h hh'
    · intro n
      rcases hq.range n with h1 | ⟨h1, h2⟩
      · exact Or.inl h1
      · right
        refine ⟨h1, ?_⟩
        rw [hsz]
        by_cases hlt : mk n < ((newMax + 1 : Nat) : Int)
        · exact hlt
        · exfalso
          have hh : (mk n).toNat < q.size := by omega
          have hmem := (hq.mem (mk n).toNat hh n).2 (by omega)
          rw [hE _ hh (by omega)] at hmem
          simp at hmem
    · unfold bucketSum
      rw [Array.toList_extract]
      have hsplit : q.toList = q.toList.take (newMax + 1) ++ q.toList.drop (newMax + 1) := by simp
      have h0 : ((q.toList.drop (newMax + 1)).map List.length).sum = 0 := by
        apply sum_length_of_all_empty
        intro x hx
        rw [List.all_eq_true] at hempty
        simpa using hempty x hx
      have hL : ((q.toList.map List.length).drop (newMax + 1)).sum = 0 := by
        simpa [List.map_drop] using h0
      have e : (q.toList.map List.length).sum =
          ((q.toList.map List.length).take (newMax + 1)).sum
            + ((q.toList.map List.length).drop (newMax + 1)).sum := by
        rw [← List.sum_append, List.take_append_drop]
      simp only [List.extract, List.drop_zero, Nat.sub_zero, List.map_take]
      omega
  · rename_i hlt
    have hlt' : q.size < newMax + 1 := by omega
    refine ⟨⟨?_, ?_, ?_⟩, ?_⟩
    · intro h hh n
      rw [Array.getElem_append]
      split
      · rename_i h1; exact hq.mem h h1 n
      · rename_i h1
        simp
        intro e
        rcases hq.range n with h2 | ⟨h2, h3⟩ <;> omega
    · intro h hh
      rw [Array.getElem_append]
      split
      · rename_i h1; exact hq.nodup h h1
      · simp
    · intro n
      rcases hq.range n with h1 | ⟨h1, h2⟩
      · exact Or.inl h1
      · right; refine ⟨h1, ?_⟩; simp; omega
    · unfold bucketSum
      rw [Array.toList_append]
      simp

@[spec]
theorem setMaxHeightAllowed_spec (newMax : Nat) : Pres .debug (setMaxHeightAllowed newMax) := by
  mvcgen [setMaxHeightAllowed, -dassert_spec, dassert]
  all_goals first | hwf_triv | skip
  rename_i s h _ _ _ _ _ _ _ hall _
  have hd : s.cfg.debug = true := h.2 rfl
  simp +zetaDelta only [hd, Bool.true_and, Bool.not_eq_true', Bool.not_eq_false] at hall
  obtain ⟨hb, hs⟩ := h.1.1.resize newMax (by simpa using hall)
  unfold resizeQueues at hb hs
  simp +zetaDelta only [HWF, HeapOK]
  exact ⟨⟨hb, by rw [hs]; exact h.1.2⟩, fun _ => hd⟩
/-! ## from the working form back to the property -/

theorem HWF_debug_iff (s : State) : HWF .debug s ↔ (HeapWF s ∧ s.cfg.debug = true) := by
  constructor
  · intro h; exact ⟨h.heapWF, h.2 rfl⟩
  · rintro ⟨h, hd⟩; exact ⟨((HWF_release_iff s).2 h).1, fun _ => hd⟩

/-- what a triple over `M` says about `run`: the final state is the second component, whether the
outcome is a value or a panic -/
theorem wp_M {α} (x : M α) (Q : PostCond α (.except Panic (.arg State .pure))) (s : State) :
    (wp⟦x⟧ Q s) = match x.run.run s with
      | (.ok a, s') => Q.1 a s'
      | (.error e, s') => Q.2.1 e s' := by
  simp only [wp, PredTrans.pushExcept, PredTrans.pushArg, PredTrans.apply]
  simp [StateT.run, ExceptT.run, Id.run, pure, PredTrans.pure]
  split <;> simp_all

theorem triple_iff {α} (x : M α) (P : State → Prop) (Q : α → State → Prop) (E : Panic → State → Prop) :
    (⦃fun s => ⌜P s⌝⦄ x ⦃post⟨fun r s => ⌜Q r s⌝, fun e s => ⌜E e s⌝⟩⦄) ↔
      ∀ s, P s → match x.run.run s with
        | (.ok a, s') => Q a s'
        | (.error e, s') => E e s' := by
  simp only [Triple, SPred.entails_1, SPred.down_pure, wp_M]
  constructor
  · intro h s hp
    have := h s hp
    split at this <;> simp_all
  · intro h s hp
    have := h s hp
    split <;> simp_all

/-- preservation in the plain form: the state after running `x` (value or panic) -/
theorem Pres.run {α} {d : Mode} {x : M α} (h : Pres d x) (s : State) (hs : HWF d s) :
    HWF d (x.run.run s).2 := by
  have := (triple_iff x _ _ _).1 h s hs
  split at this <;> simp_all

/-- release form: nothing assumed about `cfg.debug` -/
theorem Pres.heapWF {α} {x : M α} (h : Pres .release x) :
    ⦃fun s => ⌜HeapWF s⌝⦄ x ⦃post⟨fun _ s => ⌜HeapWF s⌝, fun _ s => ⌜HeapWF s⌝⟩⦄ := by
  simpa only [Pres, HWF_release_iff] using h

/-- debug form: with debug assertions on, `HeapWF` is preserved (and `cfg.debug` stays on) -/
theorem Pres.heapWF_debug {α} {x : M α} (h : Pres .debug x) :
    ⦃fun s => ⌜HeapWF s ∧ s.cfg.debug = true⌝⦄ x
    ⦃post⟨fun _ s => ⌜HeapWF s ∧ s.cfg.debug = true⌝, fun _ s => ⌜HeapWF s ∧ s.cfg.debug = true⌝⟩⦄ := by
  simpa only [Pres, HWF_debug_iff] using h

theorem bucketSum_replicate (k : Nat) : bucketSum (Array.replicate k []) = 0 := by
  induction k with
  | zero => rfl
  | succ k ih => simp [bucketSum, Array.toList_replicate, List.replicate_succ] at ih ⊢

theorem heapWF_init (maxHeight : Nat) (debug : Bool) : HeapWF (State.init maxHeight debug) := by
  refine ⟨?_, ?_, ?_, ?_⟩
  · intro h hh n
    simp [State.init, mkHeap]
  · intro h hh
    simp [State.init, mkHeap]
  · simp [State.init, mkHeap, bucketSum_replicate]
  · intro n hn
    simp [State.init] at hn

/-! ## release mode: why the cascade lemmas above are stated for `Mode.debug`

`HeapWF` alone does not say "a queued node is necessary".  `became_necessary` inserts the node into the
heap behind a `debug_assert!(!in_recompute_heap)` only, so from a well-formed state in which an
unnecessary node is still queued, a release build links the node a second time. -/

def cexEnv : Env :=
  { fn := fun _ _ => .unit, fnEff := fun _ _ => [.panic], foldStep := fun _ a _ => a, proj := fun _ v => v,
    withOld := fun _ σ _ v => (σ, v, true), cutoff := fun _ _ _ => false,
    body := fun _ _ => { instrs := [], ret := .abs 0 }, handler := fun _ _ => [],
    expertFn := fun _ _ _ => .unit, withOldCalls := fun _ _ _ _ => [],
    memo := fun _ => { instrs := [], ret := .abs 0 }, perKey := fun _ => { instrs := [], ret := .abs 0 } }

/-- release build; node 0 is unnecessary but still queued at height 0; observer 0 on it is new -/
def cexState : State :=
  { State.init 2 false with
    nodes := #[{ kind := .map 0 [], createdIn := .top, height := 0, heightInRch := 0 }],
    observers := #[{ node := 0 }],
    newObservers := [0],
    rch := { queues := #[[0], [], []], length := 1, lowerBound := 0 } }

theorem cexState_heapWF : HeapWF cexState := by
  refine ⟨?_, ?_, ?_, ?_⟩
  · intro h hh n
    have hh' : h < 3 := hh
    match h, hh' with
    | 0, _ => rcases n with _ | n <;> simp [cexState, State.nodeD, State.init] <;> omega
    | 1, _ => rcases n with _ | n <;> simp [cexState, State.nodeD, State.init] <;> omega
    | 2, _ => rcases n with _ | n <;> simp [cexState, State.nodeD, State.init] <;> omega
  · intro h hh
    have hh' : h < 3 := hh
    match h, hh' with
    | 0, _ => simp [cexState]
    | 1, _ => simp [cexState]
    | 2, _ => simp [cexState]
  · rfl
  · intro n hn
    have hn' : n < 1 := hn
    match n, hn' with
    | 0, _ => simp [cexState, State.nodeD, State.init]

/-- `stabilise` (the user closure of node 0 panics) leaves node 0 in bucket 1 with marker `-1` -/
theorem release_counterexample :
    HeapWF cexState ∧ cexState.cfg.debug = false ∧
      ¬ HeapWF ((stabilise cexEnv 10).run.run cexState).2 := by
  refine ⟨cexState_heapWF, rfl, ?_⟩
  intro h
  have hq : ((stabilise cexEnv 10).run.run cexState).2.rch.queues = #[[], [0], []] := by decide
  have hm : (((stabilise cexEnv 10).run.run cexState).2.nodeD 0).heightInRch = -1 := by decide
  have h1 : 1 < ((stabilise cexEnv 10).run.run cexState).2.rch.queues.size := by rw [hq]; decide
  have := (h.mem 1 h1 0).1 (by simp [hq])
  rw [hm] at this
  exact absurd this.2 (by decide)

end IncrVerif.Proofs
