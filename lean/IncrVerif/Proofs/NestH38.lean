import IncrVerif.Proofs.NestH37
/-!
# Nested binds (F2), the run of a change detector, part 3: the state after phase 3 against the state before the run; the last step

Port of `BindH75` (`CC3`): `MidRel2`, `Mid2`, `lc_mid2`.  The dying nodes are `Dying s br.allNodesCreatedOnRhs` (read in the state BEFORE the run).
-/
namespace IncrVerif.Proofs.NestH
open IncrVerif.Engine IncrVerif.Proofs IncrVerif.Proofs.Step IncrVerif.Proofs.Sched IncrVerif.Proofs.Quiet
open IncrVerif.Proofs.BindH
namespace NC

theorem lt_of_getElem?_some {α : Type} {a : Array α} {i : Nat} {x : α} (h : a[i]? = some x) : i < a.size := by
  false_or_by_contra
  rename_i hge
  rw [Array.getElem?_eq_none (by omega)] at h
  cases h

theorem getElem?_some_of_lt {α : Type} {a : Array α} {i : Nat} (h : i < a.size) : ∃ x, a[i]? = some x :=
  ⟨a[i], Array.getElem?_eq_getElem h⟩

/-- the state `t` after phase 3 against the state `s` before the run; `l` = the new generation -/
structure MidRel2 (env : Env) (rk' : Nat → Nat) (n b rhs : Nat) (br : BindRec) (l : List Nat) (s t : State) :
    Prop where
  grow : s.nodes.size ≤ t.nodes.size
  nk : ∀ m, m < s.nodes.size → ¬ Dying s br.allNodesCreatedOnRhs m → CC.NK (s.nodeD m) (t.nodeD m)
  recO : ∀ m, m < s.nodes.size → ¬ Dying s br.allNodesCreatedOnRhs m → m ≠ n →
    (t.nodeD m).recomputedAt = (s.nodeD m).recomputedAt
  chgO : ∀ m, m < s.nodes.size → ¬ Dying s br.allNodesCreatedOnRhs m → m ≠ n →
    (t.nodeD m).changedAt = (s.nodeD m).changedAt
  recN : (t.nodeD n).recomputedAt = s.stabNum
  chgN : (t.nodeD n).changedAt = s.stabNum
  dead : ∀ m, Dying s br.allNodesCreatedOnRhs m → (t.nodeD m).valid = false ∧
    (t.nodeD m).kind = (s.nodeD m).kind ∧
    (t.nodeD m).createdIn = (s.nodeD m).createdIn ∧ (t.nodeD m).cutoff = (s.nodeD m).cutoff ∧
    (t.nodeD m).observers = [] ∧
    (t.nodeD m).forceNecessary = false ∧ (t.nodeD m).recomputedAt ≤ s.stabNum ∧
    (t.nodeD m).changedAt ≤ s.stabNum ∧ (t.nodeD m).numOnUpdateHandlers = 0
  new : ∀ m, s.nodes.size ≤ m → m < t.nodes.size →
    (t.nodeD m).createdIn = .bind b ∧ (t.nodeD m).valid = true ∧ (t.nodeD m).recomputedAt = -1 ∧
    (t.nodeD m).changedAt = -1 ∧ (t.nodeD m).value = none ∧ (t.nodeD m).observers = [] ∧
    (t.nodeD m).forceNecessary = false ∧ (t.nodeD m).numOnUpdateHandlers = 0
  bind : t.binds[b]? = some { { br with allNodesCreatedOnRhs := l } with rhs := some rhs }
  lmem : ∀ m, m ∈ l ↔ (s.nodes.size ≤ m ∧ m < t.nodes.size)
  bindsGrow : s.binds.size ≤ t.binds.size
  /-- the other old records: the record of a bind whose main node dies loses its list -/
  bindsOld : ∀ b' br0, b' ≠ b → s.binds[b']? = some br0 →
    (Dying s br.allNodesCreatedOnRhs br0.main → t.binds[b']? = some { br0 with allNodesCreatedOnRhs := [] }) ∧
    (¬ Dying s br.allNodesCreatedOnRhs br0.main → t.binds[b']? = some br0)
  /-- the new records (inner binds created by the closure run) -/
  bindsNew : ∀ b' br', s.binds.size ≤ b' → t.binds[b']? = some br' →
    br'.rhs = none ∧ br'.allNodesCreatedOnRhs = [] ∧ s.nodes.size ≤ br'.lhsChange ∧
    (∃ f, BodyOK2 env rk' t br'.lhsChange f br'.body) ∧ ∀ b'', (t.nodeD br'.lhs).kind ≠ .bindLhsChange b''
  lcCut : ∀ m b', (t.nodeD m).kind = .bindLhsChange b' → (t.nodeD m).cutoff = .never
  vars : t.vars = s.vars
  stabNum : t.stabNum = s.stabNum
  top : t.top = s.top

theorem midRel2_of {env : Env} {rk rk' : Nat → Nat} {n b rhs : Nat} {br : BindRec} {l : List Nat}
    {s s1 s2 s3 : State}
    (X : Pre2 env rk n b br s) (A : F2Inv env rk s) (P : P1 env rk rk' n b rhs br l s s1)
    (Q : P2 env rk' n b rhs br l s1 s2) (R : P3 env rk' br s2 s3) : MidRel2 env rk' n b rhs br l s s3 := by
  have hD := dying_iff X A P Q
  have hnd : ¬ Dying s2 br.allNodesCreatedOnRhs n := fun h => X.n_notDying A ((hD n).1 h)
  have key3 : ∀ m, m < s.nodes.size → ¬ Dying s br.allNodesCreatedOnRhs m → m ≠ n →
      CC.NKey (s.nodeD m) (s3.nodeD m) := by
    intro m hm hd e
    rw [R.rel.other m (fun h => hd ((hD m).1 h)), ← P.old_other hm e]; exact Q.key e
  have key3N : CC.NKey { s.nodeD n with recomputedAt := s.stabNum, changedAt := s.stabNum } (s3.nodeD n) := by
    rw [R.rel.other n hnd]
    have := Q.keyN
    rw [P.self X.hlt, P.stabNum] at this
    exact this
  have hsz3 : s3.nodes.size = s1.nodes.size := R.rel.size.trans Q.rel.size
  have top3 : s3.top = s1.top := R.rel.top.trans Q.rel.top
  -- kinds and cutoffs of all nodes after phase 1 are final
  have kind13 : ∀ m, (s3.nodeD m).kind = (s1.nodeD m).kind := by
    intro m
    rw [← Q.kind m]
    by_cases hd : Dying s2 br.allNodesCreatedOnRhs m
    · exact (R.rel.dead m hd).2.1
    · rw [R.rel.other m hd]
  have cut13 : ∀ m, (s3.nodeD m).cutoff = (s1.nodeD m).cutoff := by
    intro m
    rw [← Q.cutoff m]
    by_cases hd : Dying s2 br.allNodesCreatedOnRhs m
    · exact (R.rel.dead m hd).2.2.2.1
    · rw [R.rel.other m hd]
  refine
    { grow := by rw [hsz3]; exact P.grow
      nk := fun m hm hd => ?_
      recO := fun m hm hd e => (key3 m hm hd e).recomputedAt
      chgO := fun m hm hd e => (key3 m hm hd e).changedAt
      recN := key3N.recomputedAt
      chgN := key3N.changedAt
      dead := fun m hm => ?_
      new := fun m h1 h2 => ?_
      bind := ((R.rel.binds b _ Q.rel.bind).2 (fun h => X.main_notDying A ((hD _).1 h)))
      lmem := fun m => by rw [P.lmem m, hsz3]
      bindsGrow := by
        rw [R.rel.bindsSize, Q.rel.bindsSize]; exact P.rel.bindsGrow
      bindsOld := fun b' br0 e h0 => ?_
      bindsNew := fun b' br' hge h => ?_
      lcCut := fun m b' hk => by
        rw [kind13] at hk
        rw [cut13]; exact P.lcCut m b' hk
      vars := by rw [R.rel.vars, Q.rel.vars]; exact P.rel.vars
      stabNum := by rw [R.rel.stabNum, Q.rel.stabNum]; exact P.stabNum
      top := by rw [top3]; exact P.rel.top }
  · by_cases e : m = n
    · subst e
      exact ⟨key3N.kind, key3N.valid, key3N.cutoff, key3N.createdIn, key3N.value, key3N.observers,
        key3N.forceNecessary, key3N.num⟩
    · exact CC.NK.of_key (key3 m hm hd e)
  · obtain ⟨hlt, -⟩ := X.dying_scope A hm
    have e := X.dying_ne_n A hm
    obtain ⟨d1, d2, d3, d4, -, d5, d6, -, -, d9, d10, d11⟩ := R.rel.dead m ((hD m).2 hm)
    have k := Q.key e
    rw [P.old_other hlt e] at k
    refine ⟨d1, d2.trans k.kind, d3.trans k.createdIn, d4.trans k.cutoff, d5, d6, ?_, ?_, ?_⟩
    · rw [Q.rel.stabNum, P.stabNum] at d9; exact d9
    · rw [Q.rel.stabNum, P.stabNum] at d10; exact d10
    · rw [d11, k.num]; exact A.noHandlers m
  · rw [hsz3] at h2
    have e : m ≠ n := by have := X.hlt; omega
    have hd : ¬ Dying s2 br.allNodesCreatedOnRhs m := fun h => by
      have := (X.dying_scope A ((hD m).1 h)).1; omega
    obtain ⟨c1, c2, c3, c4, c5, -, c7, c8, -, -, c11⟩ := P.new h1 h2
    have k := Q.key e
    rw [R.rel.other m hd]
    exact ⟨k.createdIn.trans c1, k.valid.trans c2, k.recomputedAt.trans c3, k.changedAt.trans c4,
      k.value.trans c5, k.observers.trans c7, k.forceNecessary.trans c8, k.num.trans c11⟩
  · have hlt := lt_of_getElem?_some h0
    have h2 : s2.binds[b']? = some br0 := by
      rw [Q.rel.bindsOther b' e, P.binds_old e hlt]; exact h0
    obtain ⟨k1, k2⟩ := R.rel.binds b' br0 h2
    exact ⟨fun hd => k1 ((hD _).2 hd), fun hd => k2 (fun h => hd ((hD _).1 h))⟩
  · have e : b' ≠ b := by have := X.blt; omega
    have hlt3 := lt_of_getElem?_some h
    rw [R.rel.bindsSize] at hlt3
    obtain ⟨br0, h2⟩ := getElem?_some_of_lt hlt3
    have h1 : s1.binds[b']? = some br0 := by rw [← Q.rel.bindsOther b' e]; exact h2
    obtain ⟨n1, n2, n3⟩ := P.binds_new hge h1
    obtain ⟨⟨f, hf⟩, n5⟩ := P.newRecs b' br0 hge h1
    have hf3 : BodyOK2 env rk' s3 br0.lhsChange f br0.body :=
      BodyOK2.mono top3 (fun r h _ => h) f _ hf
    have n5' : ∀ b'', (s3.nodeD br0.lhs).kind ≠ .bindLhsChange b'' := fun b'' => by
      rw [kind13]; exact n5 b''
    obtain ⟨k1, k2⟩ := R.rel.binds b' br0 h2
    by_cases hd : Dying s2 br.allNodesCreatedOnRhs br0.main
    · rw [k1 hd] at h
      cases h
      exact ⟨n1, rfl, n3, ⟨f, hf3⟩, n5'⟩
    · rw [k2 hd] at h
      cases h
      exact ⟨n1, n2, n3, ⟨f, hf3⟩, n5'⟩

/-- everything known about the state `t` after phase 3 and about the last step -/
structure Mid2 (env : Env) (rk rk' : Nat → Nat) (n b rhs : Nat) (br : BindRec) (l : List Nat) (r : Option Nat)
    (s t s' : State) : Prop where
  pre : Pre2 env rk n b br s
  ext : RkExt rk rk' s.nodes.size
  rel : MidRel2 env rk' n b rhs br l s t
  rhsK : ∀ b', (t.nodeD rhs).kind ≠ .bindLhsChange b'
  rhsOK : ((t.nodeD rhs).createdIn = .top ∧ rk' rhs < rk' n ∧ rhs < s.nodes.size) ∨
    (s.nodes.size ≤ rhs ∧ rhs < t.nodes.size)
  ginv : GInv2 env rk' t allClosed (· = br.main) []
  ahh : AhhEmpty t
  pinv : t.propagateInvalidity = []
  noForce : ∀ m, (t.nodeD m).forceNecessary = false
  noHandlers : ∀ m, (t.nodeD m).numOnUpdateHandlers = 0
  validMain : (t.nodeD br.main).valid = true
  necMain : t.isNecessary br.main = true
  necN : t.isNecessary n = true
  kidsMain : t.children br.main = [n, rhs]
  graph : BGraph env t
  step : StepRelB n .unit true r t s'
  last : BC.LastK t s'
  num : ∀ m, (s'.nodeD m).numOnUpdateHandlers = (t.nodeD m).numOnUpdateHandlers

theorem lc_mid2 {env : Env} (CS : ClosureSpec2 env) (RS : RelinkSpec2 env) (IS : InvalSpec2 env)
    {fuel n b : Nat} {rk : Nat → Nat} {s s' : State} {r : Option Nat}
    (I : DInv env s (some n)) (A : F2Inv env rk s) (hk : (s.nodeD n).kind = .bindLhsChange b)
    (h : (recomputeOne env fuel n).run.run s = (.ok r, s')) :
    ∃ rk' br rhs l t, Mid2 env rk rk' n b rhs br l r s t s' := by
  obtain ⟨br, X⟩ := lc_pre2 I A hk
  obtain ⟨rhs, s1, s2, s3, h1, h2, h3, h4⟩ := CC.lc_run_inv X.hlt X.hvn hk X.hb h
  obtain ⟨rk', l, P⟩ := phase1 CS X A h1
  have Q := phase2 RS X A P h2
  have R := phase3 IS X A P Q h3
  have M := midRel2_of X A P Q R
  have hD := dying_iff X A P Q
  have hnd := X.n_notDying A
  have hmd := X.main_notDying A
  have hsz3 : s3.nodes.size = s1.nodes.size := R.rel.size.trans Q.rel.size
  -- the adjust-heights heap
  have ahh3 : AhhEmpty s3 := by
    refine ⟨by rw [R.rel.ahh]; exact Q.ahh.length, ?_, fun m => ?_⟩
    · intro i hi
      have hi' : i < s2.ahh.queues.size := by rw [← R.rel.ahh]; exact hi
      have := Q.ahh.buckets i hi'
      simp only [R.rel.ahh]; exact this
    · by_cases hd : Dying s2 br.allNodesCreatedOnRhs m
      · rw [(R.rel.dead m hd).2.2.2.2.2.2.2.2.1]; exact Q.ahh.marks m
      · rw [R.rel.other m hd]; exact Q.ahh.marks m
  have nf3 : ∀ m, (s3.nodeD m).forceNecessary = false := by
    intro m
    by_cases hd : Dying s2 br.allNodesCreatedOnRhs m
    · exact (R.rel.dead m hd).2.2.2.2.2.2.1
    · rw [R.rel.other m hd]; exact Q.noForce m
  have nh3 : ∀ m, (s3.nodeD m).numOnUpdateHandlers = 0 := by
    intro m
    by_cases hd : Dying s2 br.allNodesCreatedOnRhs m
    · exact (M.dead m ((hD m).1 hd)).2.2.2.2.2.2.2.2
    · rw [R.rel.other m hd, Q.num]; exact P.noHandlers A m
  have hmd2 : ¬ Dying s2 br.allNodesCreatedOnRhs br.main := fun h => hmd ((hD _).1 h)
  have necMain : s3.isNecessary br.main = true := by
    show (s3.nodeD br.main).isNecessary = true
    rw [R.rel.other _ hmd2]; exact Q.necMain
  have hvm3 : (s3.nodeD br.main).valid = true := by
    rw [(M.nk br.main X.hml hmd).valid]; exact X.hvm
  have hcm : s3.children br.main = [n, rhs] := by
    have := R.g.main_children M.bind hvm3
    rw [← X.hlc]; exact this
  have necN : s3.isNecessary n = true := by
    have h0 : (s3.children br.main)[0]? = some n := by rw [hcm]; rfl
    exact nec_of_mem_parents (R.g.conv br.main 0 n h0 ((wants_closed rfl).2 necMain))
  have g : BGraph env s3 := by
    apply bgraph_of_ginv2 R.g nf3
    intro m c hm hkc
    cases hsc : (s3.nodeD m).createdIn with
    | bind b' => exact absurd hkc (((R.g.frag.node m hm).inScope b' hsc).1 c)
    | top =>
      by_cases hd : Dying s br.allNodesCreatedOnRhs m
      · exfalso
        rw [(M.dead m hd).2.2.1] at hsc
        exact X.notDying_of_top A hsc hd
      · by_cases hlt : m < s.nodes.size
        · have k := M.nk m hlt hd
          rw [k.kind] at hkc
          rw [k.createdIn] at hsc
          rw [M.vars]
          exact I.graph.var m c hlt ((A.frag.node m hlt).top hsc).1 hkc
        · exfalso
          rw [(M.new m (by omega) hm).1] at hsc; cases hsc
  obtain ⟨S, L⟩ := BC.mcv_last g (heapInv_of_ginv2 R.g) necN (by rw [M.recN, M.stabNum])
    (by rw [(M.nk n X.hlt hnd).cutoff]; exact A.lcCut n b hk) h4
  have kind13 : ∀ m, (s3.nodeD m).kind = (s1.nodeD m).kind := by
    intro m
    rw [← Q.kind m]
    by_cases hd : Dying s2 br.allNodesCreatedOnRhs m
    · exact (R.rel.dead m hd).2.1
    · rw [R.rel.other m hd]
  refine ⟨rk', br, rhs, l, s3, X, P.ext, M, fun b' => by rw [kind13]; exact P.rhsK b', ?_, R.g, ahh3,
    R.rel.pinv.trans Q.pinv, nf3, nh3, hvm3, necMain, necN,
    hcm, g, S, L, fun m => ((PresC.maybeChangeValue env fuel n .unit).h _ _ _ h4).num m⟩
  rcases P.rhs with ⟨h5, h6⟩ | h5
  · left
    have hlt := P.old_of_top P.rlt h5
    have hnd' : ¬ Dying s br.allNodesCreatedOnRhs rhs :=
      X.notDying_of_top A (by rw [← (P.sh hlt).2.2.1]; exact h5)
    refine ⟨?_, h6, hlt⟩
    rw [(M.nk rhs hlt hnd').createdIn, ← (P.sh hlt).2.2.1]; exact h5
  · exact Or.inr ⟨h5, by rw [hsz3]; exact P.rlt⟩

end NC
end IncrVerif.Proofs.NestH
