import IncrVerif.Proofs.ExpertH54
/-!
# Drivers, part 1 (pure logic): a REWIRING step keeps the drain invariant

A run of a driver `n` is split into two steps of the (virtual) state:
  (1) the REWIRING `StepW`: the effects of `n` edit the nodes `x` with `X x` (their child lists change, children become
      necessary/unnecessary, heights are adjusted, `x` is stale afterwards), while `n` itself is unchanged: it is
      still the current node, not yet recomputed;
  (2) an ordinary static step `BindH.StepRelB` of `n` in the new graph (`BindH.stepB_inv`).
`StepD` of `ExpertH54` asks for more than the model does: its clause `ret` demands that nothing queued is lower than a
handed-over parent, which is false when the driver's first parent is a one-child `map` (recompute-now shortcut) and
the rewiring has just queued a lower node (transient necessity).  `StepW` + `StepRelB` is the corrected contract.
-/
namespace IncrVerif.Proofs.DriverH
open IncrVerif.Engine IncrVerif.Proofs IncrVerif.Proofs.Step IncrVerif.Proofs.Sched IncrVerif.Proofs.BindH

/-- `s'` is `s` after the driver `n` (current, not yet recomputed) has rewired the nodes `x` with `X x` -/
structure StepW (env : Env) (X : Nat → Prop) (n : Nat) (s s' : State) : Prop where
  size : s'.nodes.size = s.nodes.size
  vars : s'.vars = s.vars
  binds : s'.binds = s.binds
  stabNum : s'.stabNum = s.stabNum
  /-- structure and heap of the new state, wholesale -/
  graph' : BGraph env s'
  heap' : HeapInv s'
  stamps' : Stamps s'
  qstale' : ∀ m, (s'.nodeD m).inRch = true → s'.isStale m = true
  pending' : ∀ m, s'.isNecessary m = true → s'.isStale m = true → (s'.nodeD m).inRch = true ∨ m = n
  /-- the driver itself is not rewired and is unchanged in what the invariant reads; it is not queued -/
  notX : ¬ X n
  selfNec : s'.isNecessary n = true
  selfQ : (s'.nodeD n).inRch = false
  /-- all nodes: unchanged in what evaluation reads; kind, own stamp and own edges unchanged unless rewired -/
  old : ∀ m, m < s.nodes.size →
    (s'.nodeD m).valid = (s.nodeD m).valid ∧
    (s'.nodeD m).createdIn = (s.nodeD m).createdIn ∧ (s'.nodeD m).value = (s.nodeD m).value ∧
    (s'.nodeD m).changedAt = (s.nodeD m).changedAt ∧
    (¬ X m → (s'.nodeD m).kind = (s.nodeD m).kind ∧
      (s'.nodeD m).recomputedAt = (s.nodeD m).recomputedAt ∧ s'.children m = s.children m)
  /-- the rewired nodes: the driver was (and is) their child, they are stale afterwards, and their own stamp is not
  of this round -/
  rewired : ∀ x, X x → n ∈ s.children x ∧ s'.isStale x = true ∧ (s'.nodeD x).recomputedAt < s.stabNum

section
variable {env : Env} {X : Nat → Prop} {n : Nat} {s s' : State}

/-- staleness of a node that is not rewired is unchanged -/
theorem StepW.stale_kept (R : StepW env X n s s') (g : BGraph env s) {m : Nat} (hm : m < s.nodes.size)
    (hX : ¬ X m) : s'.isStale m = s.isStale m := by
  obtain ⟨k0, -, -, -, k⟩ := R.old m hm
  obtain ⟨k1, k4, k6⟩ := k hX
  cases hv : (s.nodeD m).valid with
  | false => rw [isStale_invalid hv, isStale_invalid (by rw [k0]; exact hv)]
  | true =>
    have hB := (g.node m hm hv).1
    apply isStale_congr hB k1 k0 k4 (fun c => by rw [R.vars]) k6
    intro c hc
    have hclt := ((g.node m hm hv).2.2 c hc).1
    exact (R.old c hclt).2.2.2.1

/-- an edge of the new graph that leaves a node that is not rewired is an edge of the old graph -/
theorem StepW.edge_old (R : StepW env X n s s') {a c : Nat}
    (ha : a < s.nodes.size) (hX : ¬ X a) (he : Edge s' a c) : Edge s a c := by
  obtain ⟨k0, k2, -, -, k⟩ := R.old a ha
  cases he with
  | child hc => rw [(k hX).2.2] at hc; exact Edge.child hc
  | scope hv2 hsc hb =>
    rw [R.binds] at hb
    rw [k2] at hsc
    exact Edge.scope (by rw [← k0]; exact hv2) hsc hb

/-- a path of the new graph is, in the OLD graph, a path to its first rewired node, or (no rewired node on it) a path
to the same end -/
theorem StepW.path_old (R : StepW env X n s s') (g : BGraph env s) {a d : Nat} (h : Below s' a d)
    (ha : a < s.nodes.size) :
    (∃ x, X x ∧ Below s a x) ∨ (Below s a d ∧ ¬ X d ∧ d < s.nodes.size) := by
  induction h with
  | refl a =>
    by_cases haX : X a
    · exact Or.inl ⟨a, haX, Below.refl a⟩
    · exact Or.inr ⟨Below.refl a, haX, ha⟩
  | step he hcd ih =>
    rename_i a c d
    by_cases haX : X a
    · exact Or.inl ⟨a, haX, Below.refl a⟩
    have he0 : Edge s a c := R.edge_old ha haX he
    rcases ih (g.edge_target he0).1 with ⟨x, hx, hb⟩ | ⟨hb, hdX, hd⟩
    · exact Or.inl ⟨x, hx, Below.step he0 hb⟩
    · exact Or.inr ⟨Below.step he0 hb, hdX, hd⟩

/-- **A rewiring step keeps the drain invariant**, with the same current node. -/
theorem stepW_inv (I : DInv env s (some n)) (R : StepW env X n s s') : DInv env s' (some n) := by
  have g := I.graph
  obtain ⟨hn, hnlt, hnv, hnq, hnr⟩ := I.cur_facts
  refine ⟨R.graph', R.heap', R.stamps', R.qstale', ?_, ?_, ?_, ?_⟩
  · -- pending
    intro m h1 h2
    rcases R.pending' m h1 h2 with h | h
    · exact Or.inl h
    · exact Or.inr (by rw [h])
  · -- cons
    intro m hmlt' hmv hst
    have hm : m < s.nodes.size := by rw [← R.size]; exact hmlt'
    by_cases hmX : X m
    · rw [(R.rewired m hmX).2.1] at hst; cases hst
    obtain ⟨k0, -, k3, -, k⟩ := R.old m hm
    obtain ⟨k1, -, k6⟩ := k hmX
    have hv : (s.nodeD m).valid = true := by rw [← k0]; exact hmv
    have hB := (g.node m hm hv).1
    rw [R.stale_kept g hm hmX] at hst
    obtain ⟨w, hw, hval⟩ := I.cons m hm hv hst
    refine ⟨w, ?_, by rw [k3]; exact hval⟩
    apply TargetB.congr' hv hB k1 R.vars _ _ hw
    · intro b lc _; rw [R.binds]
    · intro c hc
      have hclt := ((g.node m hm hv).2.2 c hc).1
      exact (R.old c hclt).2.2.1
  · -- fresh
    intro a d hbel hd
    rw [R.stabNum]
    by_cases hnew : s.nodes.size ≤ a
    · rw [nodeD_default_of_ge s' a (by rw [R.size]; omega)]
      show (-1 : Int) < s.stabNum
      have := I.stamps.now; omega
    have ha : a < s.nodes.size := by omega
    have key : (s.nodeD a).recomputedAt < s.stabNum := by
      rcases R.path_old g hbel ha with ⟨x, hx, hb⟩ | ⟨hb, hdX, hdlt⟩
      · exact I.fresh a n (hb.snoc (Edge.child (R.rewired x hx).1)) (Or.inr rfl)
      · rcases hd with hd | hd
        · rw [R.stale_kept g hdlt hdX] at hd
          exact I.fresh a d hb (Or.inl hd)
        · exact I.fresh a d hb (Or.inr hd)
    by_cases haX : X a
    · exact (R.rewired a haX).2.2
    · rw [((R.old a ha).2.2.2.2 haX).2.1]
      exact key
  · -- cur
    intro p hp
    injection hp with hp
    subst hp
    refine ⟨R.selfNec, ?_⟩
    intro d hd
    rcases R.path_old g hd hnlt with ⟨x, hx, hb⟩ | ⟨hb, hdX, hdlt⟩
    · exact (g.no_cycle hb (Edge.child (R.rewired x hx).1)).elim
    · cases hq' : (s'.nodeD d).inRch with
      | false => rfl
      | true =>
        exfalso
        have hst' := R.qstale' d hq'
        have hdn : d ≠ n := by
          intro e
          rw [e, R.selfQ] at hq'
          cases hq'
        rw [R.stale_kept g hdlt hdX] at hst'
        have hnec := (g.below_nec hb hn).1
        rcases I.pending d hnec hst' with h3 | h3
        · rw [(I.cur n rfl).2 d hb] at h3; cases h3
        · injection h3 with h3; exact hdn h3.symm

end

end IncrVerif.Proofs.DriverH
