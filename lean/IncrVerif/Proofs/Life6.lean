import IncrVerif.Proofs.Life5
/-!
# Observer lifecycle over whole histories, part 6: the queue invariants `ObsWF`, the lifecycle
statement of `stabilise` under them
-/
namespace IncrVerif.Proofs.Life
open IncrVerif.Engine IncrVerif.Proofs.Obs

/-- the two observer queues agree with the lifecycle states: every created observer is queued in
`newObservers`, and `disallowedObservers` names exactly the disallowed observers.  True of
`State.init`, kept by every API action that is not a panicking `stabilise` (`ObsWF.step`). -/
structure ObsWF (s : State) : Prop where
  created : ∀ o, stOf s o = some .created → o ∈ s.newObservers
  disallowed : ∀ o, stOf s o = some .disallowed ↔ o ∈ s.disallowedObservers

theorem stOf_eq_some {s : State} {o : Nat} {st : ObsState} :
    stOf s o = some st ↔ ∃ ob : ObsRec, s.observers[o]? = some ob ∧ ob.state = st := by
  simp only [stOf]
  cases s.observers[o]? <;> simp

theorem ObsWF.init (maxHeight : Nat) (debug : Bool) : ObsWF (State.init maxHeight debug) :=
  ⟨fun o h => by simp [stOf, State.init] at h, fun o => by simp [stOf, State.init]⟩

theorem stOf_of_modify {s t : State} {o : Nat} {f : ObsRec → ObsRec}
    (h : t.observers = s.observers.modify o f) (m : Nat) :
    stOf t m = if o = m then (s.observers[m]?).map (fun x => (f x).state) else stOf s m := by
  simp only [stOf, h, Array.getElem?_modify]
  split
  · cases s.observers[m]? <;> rfl
  · rfl

theorem ObsWF.of_states {s s' : State} (hst : ∀ o, stOf s' o = stOf s o)
    (hn : s'.newObservers = s.newObservers) (hd : s'.disallowedObservers = s.disallowedObservers)
    (hw : ObsWF s) : ObsWF s' :=
  ⟨fun o e => by rw [hn]; exact hw.created o (by rw [← hst]; exact e),
   fun o => by rw [hd, hst]; exact hw.disallowed o⟩

theorem ObsWF.of_same {s s' : State} (h : Same s s') (hw : ObsWF s) : ObsWF s' :=
  ObsWF.of_states h.stOf_eq h.newObs h.dis hw

/-- a `modObs` that keeps the lifecycle state -/
theorem ObsWF.modObs {s : State} (hw : ObsWF s) (o : Nat) (f : ObsRec → ObsRec)
    (hf : ∀ x, (f x).state = x.state) :
    ObsWF { s with observers := s.observers.modify o f } := by
  refine ObsWF.of_states (s := s) (fun m => ?_) rfl rfl hw
  rw [stOf_of_modify (s := s) (o := o) (f := f) rfl]
  split
  · simp only [stOf]; cases s.observers[m]? <;> simp [hf]
  · rfl

theorem ObsWF.disallowState {s : State} (hw : ObsWF s) (o : Nat) : ObsWF (disallowState s o) := by
  unfold Life.disallowState
  cases hob : s.observers[o]? with
  | none => exact hw
  | some ob =>
    have hso : stOf s o = some ob.state := by simp [stOf, hob]
    cases hst : ob.state <;> simp only [hst]
    · -- created ↦ unlinked
      have key : ∀ m, stOf (afterDisCreated s o) m = if o = m then some .unlinked else stOf s m := by
        intro m
        rw [stOf_of_modify (s := s) (o := o) (f := fun x => { x with state := .unlinked, handlers := [] }) rfl]
        split
        · rename_i hm; subst hm; simp [hob]
        · rfl
      refine ⟨fun m e => ?_, fun m => ?_⟩
      · rw [key] at e
        split at e
        · cases e
        · exact hw.created m e
      · rw [key]
        split
        · rename_i hm; subst hm
          constructor
          · intro e; cases e
          · intro e
            have := (hw.disallowed o).2 e
            rw [hso, hst] at this; cases this
        · exact hw.disallowed m
    · -- in use ↦ disallowed
      have key : ∀ m, stOf (afterDisInUse s o) m = if o = m then some .disallowed else stOf s m := by
        intro m
        rw [stOf_of_modify (s := s) (o := o) (f := fun x => { x with state := .disallowed }) rfl]
        split
        · rename_i hm; subst hm; simp [hob]
        · rfl
      refine ⟨fun m e => ?_, fun m => ?_⟩
      · rw [key] at e
        split at e
        · cases e
        · exact hw.created m e
      · rw [key]
        show _ ↔ m ∈ s.disallowedObservers ++ [o]
        rw [List.mem_append, List.mem_singleton]
        split
        · rename_i hm; subst hm; simp
        · rename_i hm
          rw [hw.disallowed m]
          constructor
          · exact .inl
          · rintro (h | h)
            · exact h
            · exact absurd h.symm hm
    · exact hw
    · exact hw

theorem ObsWF.pushObserver {s : State} (hw : ObsWF s) (n : Nat) : ObsWF (Obs.pushObserver s n) := by
  have key : ∀ m, stOf (Obs.pushObserver s n) m
      = if m = s.observers.size then some .created else stOf s m := by
    intro m
    simp only [stOf, Obs.pushObserver, Array.getElem?_push]
    split <;> rfl
  have hnone : stOf s s.observers.size = none := by simp [stOf]
  refine ⟨fun m e => ?_, fun m => ?_⟩
  · show m ∈ s.newObservers ++ [s.observers.size]
    rw [key] at e
    rw [List.mem_append, List.mem_singleton]
    split at e
    · rename_i hm; exact .inr hm
    · exact .inl (hw.created m e)
  · rw [key]
    show _ ↔ m ∈ s.disallowedObservers
    split
    · rename_i hm; subst hm
      constructor
      · intro e; cases e
      · intro e
        have := (hw.disallowed _).2 e
        rw [hnone] at this; cases this
    · exact hw.disallowed m

theorem ObsWF.dropObsState {s : State} (hw : ObsWF s) (o : Nat) : ObsWF (dropObsState s o) := by
  unfold Life.dropObsState
  cases hob : s.observers[o]? with
  | none => exact hw
  | some ob =>
    simp only []
    have hs1 : ObsWF { s with observers := s.observers.modify o fun x => { x with clones := x.clones - 1 } } :=
      hw.modObs o _ (fun _ => rfl)
    split
    · exact hw
    · split
      · exact hs1.disallowState o
      · exact hs1

/-- O3 under the queue invariants: a `stabilise` that returns moves every created observer to in use
(or disallowed, if an effect disallowed it during this stabilisation), leaves an in-use observer in
use (or disallowed, likewise), unlinks every observer that was disallowed before the call, leaves
unlinked observers unlinked; afterwards `newObservers` is empty, `disallowedObservers` lists (once
each) exactly the observers whose state is disallowed, and the invariants hold again. -/
theorem stabilise_lifecycle (env : Env) (fuel : Nat) (s s' : State) (hw : ObsWF s)
    (hrun : (stabilise env fuel).run.run s = (.ok (), s')) :
    s'.observers.size = s.observers.size ∧
    (∀ (o : Nat) (ob : ObsRec), s.observers[o]? = some ob →
      ∃ ob' : ObsRec, s'.observers[o]? = some ob' ∧ ob'.node = ob.node ∧ ob'.clones = ob.clones ∧
        match ob.state with
        | .created => ob'.state = .inUse ∨ ob'.state = .disallowed
        | .inUse => ob'.state = .inUse ∨ ob'.state = .disallowed
        | .disallowed => ob'.state = .unlinked
        | .unlinked => ob'.state = .unlinked) ∧
    s'.newObservers = [] ∧ s'.disallowedObservers.Nodup ∧
    (∀ o, o ∈ s'.disallowedObservers ↔ stOf s' o = some .disallowed) ∧
    s.status = .notStabilising ∧ s'.status = .notStabilising ∧ ObsWF s' := by
  obtain ⟨h0, h1, hsz, hnew, hobs, hnd, hmem⟩ := stabilise_spec env fuel s s' hrun
  -- `phase2` under the invariants
  have hp : ∀ (o : Nat) (ob : ObsRec), s.observers[o]? = some ob →
      phase2 s o ob.state = match ob.state with
        | .created => .inUse | .inUse => .inUse | .disallowed => .unlinked | .unlinked => .unlinked := by
    intro o ob e
    have hso : stOf s o = some ob.state := by simp [stOf, e]
    unfold phase2
    cases hst : ob.state <;> simp only []
    · have h1 : o ∈ s.newObservers := hw.created o (by rw [hso, hst])
      have h2 : o ∉ s.disallowedObservers := fun h => by
        have := (hw.disallowed o).2 h; rw [hso, hst] at this; cases this
      simp [h1, h2]
    · have h2 : o ∉ s.disallowedObservers := fun h => by
        have := (hw.disallowed o).2 h; rw [hso, hst] at this; cases this
      simp [h2]
    · have h2 : o ∈ s.disallowedObservers := (hw.disallowed o).1 (by rw [hso, hst])
      simp [h2]
    · have h2 : o ∉ s.disallowedObservers := fun h => by
        have := (hw.disallowed o).2 h; rw [hso, hst] at this; cases this
      simp [h2]
  have hobs' : ∀ (o : Nat) (ob : ObsRec), s.observers[o]? = some ob →
      ∃ ob' : ObsRec, s'.observers[o]? = some ob' ∧ ob'.node = ob.node ∧ ob'.clones = ob.clones ∧
        match ob.state with
        | .created => ob'.state = .inUse ∨ ob'.state = .disallowed
        | .inUse => ob'.state = .inUse ∨ ob'.state = .disallowed
        | .disallowed => ob'.state = .unlinked
        | .unlinked => ob'.state = .unlinked := by
    intro o ob e
    obtain ⟨ob', e', n, c, st⟩ := hobs o ob e
    refine ⟨ob', e', n, c, ?_⟩
    rw [hp o ob e] at st
    cases hst : ob.state <;> simp only [hst, afterDisallow] at st ⊢
    · exact st
    · exact st
    · rcases st with st | st <;> exact st
    · rcases st with st | st <;> exact st
  have hdis : ∀ o, o ∈ s'.disallowedObservers ↔ stOf s' o = some .disallowed := by
    intro o
    rw [hmem]
    constructor
    · rintro ⟨ob, ob', _, e', _, d⟩
      simp [stOf, e', d]
    · intro e
      obtain ⟨ob', e', d⟩ := stOf_eq_some.1 e
      · have hlt : o < s.observers.size := by
          rw [← hsz]; exact (Array.getElem?_eq_some_iff.1 e').1
        have eo : s.observers[o]? = some s.observers[o] := Array.getElem?_eq_getElem hlt
        obtain ⟨ob'', e'', _, _, st⟩ := hobs' o _ eo
        rw [e'] at e''; cases e''
        refine ⟨_, ob', eo, e', ?_, d⟩
        rw [hp o _ eo]
        cases hst : (s.observers[o]).state <;> simp only [hst] at st ⊢
        · rw [d] at st; cases st
        · rw [d] at st; cases st
  refine ⟨hsz, hobs', hnew, hnd, hdis, h0, h1, ⟨fun o e => ?_, fun o => (hdis o).symm⟩⟩
  -- no created observer is left
  exfalso
  obtain ⟨ob', e', c⟩ := stOf_eq_some.1 e
  · have hlt : o < s.observers.size := by
      rw [← hsz]; exact (Array.getElem?_eq_some_iff.1 e').1
    have eo : s.observers[o]? = some s.observers[o] := Array.getElem?_eq_getElem hlt
    obtain ⟨ob'', e'', _, _, st⟩ := hobs' o _ eo
    rw [e'] at e''; cases e''
    cases hst : (s.observers[o]).state <;> simp only [hst] at st
    · rcases st with st | st <;> (rw [c] at st; cases st)
    · rcases st with st | st <;> (rw [c] at st; cases st)
    · rw [c] at st; cases st
    · rw [c] at st; cases st

/-- the queue invariants are kept by every API action, whatever its outcome, except by a `stabilise`
that panics -/
theorem ObsWF.step (env : Env) (a : Action) (tokens : Array Nat) (s s' : State)
    (r : Except Panic (String × Array Nat)) (hw : ObsWF s)
    (hok : a = .stabilise → ∃ v, r = .ok v)
    (hrun : (stepAction env a tokens).run.run s = (r, s')) : ObsWF s' := by
  by_cases ht : Action.touchesObs a = false
  · exact ObsWF.of_same ((PresS.stepAction_other env a tokens ht).h s r s' hrun) hw
  · cases a <;> simp only [Action.touchesObs, not_true_eq_false, Bool.true_eq_false] at ht
    · rename_i n
      rw [stepAction_observe_run] at hrun
      cases hres : resolvePure s [] n with
      | error e => rw [hres] at hrun; cases hrun; exact hw
      | ok m => rw [hres] at hrun; cases hrun; exact hw.pushObserver m
    · rename_i o
      rw [stepAction_cloneObs_run] at hrun; cases hrun
      exact hw.modObs o _ (fun _ => rfl)
    · rename_i o
      rw [stepAction_dropObs_run] at hrun; cases hrun
      exact hw.dropObsState o
    · rename_i o
      rw [stepAction_disallow_run] at hrun; cases hrun
      exact hw.disallowState o
    · obtain ⟨v, rfl⟩ := hok rfl
      simp only [stepAction] at hrun
      obtain ⟨u, s1, h1, h2⟩ := bind_ok_inv hrun
      rw [run_pure] at h2; cases h2
      exact (stabilise_lifecycle env fuelDefault s s' hw h1).2.2.2.2.2.2.2

/-- a state predicate kept by every allowed step and by the log reset is kept along histories -/
theorem Run.invariant {env : Env} {P : Action → Except Panic (String × Array Nat) → Prop}
    (I : State → Prop)
    (hstep : ∀ a tokens s r s', P a r → I s → (stepAction env a tokens).run.run s = (r, s') → I s')
    (hlog : ∀ s : State, I s → I { s with log := [] }) {s s' : State} (h : Run env P s s')
    (hi : I s) : I s' := by
  induction h with
  | nil => exact hi
  | step a tokens r hp hrun _ ih => exact ih (hstep a tokens _ r _ hp hi hrun)
  | clearLog _ ih => exact ih (hlog _ hi)

/-- histories in which no `stabilise` panics -/
def NoStabPanic (a : Action) (r : Except Panic (String × Array Nat)) : Prop :=
  a = .stabilise → ∃ v, r = .ok v

theorem Run.obsWF {env : Env} {s s' : State} (h : Run env NoStabPanic s s') (hw : ObsWF s) :
    ObsWF s' :=
  Run.invariant ObsWF (fun a tokens s r s' hp hi hrun => ObsWF.step env a tokens s s' r hi hp hrun)
    (fun s hi => ObsWF.of_states (s := s) (fun _ => rfl) rfl rfl hi) h hw

end IncrVerif.Proofs.Life
