import IncrVerif.Proofs.MapRef7
/-!
# map_ref fragment: simulation of the notification walk, part 2
(`maybeChangeValueManual`, `maybeChangeValue`)
-/
namespace IncrVerif.Proofs.MapRefH
open IncrVerif.Engine IncrVerif.Proofs IncrVerif.Proofs.Step IncrVerif.Proofs.Sched IncrVerif.Proofs.Quiet

section
variable {g : Nat → Option Val}

/-- `child_changed` with unrelated fuels: the virtual call only needs one unit -/
theorem St.childChanged' (env : Env) (fuel fuel' p c ci : Nat) (o o' : Option Val) (hf : 0 < fuel' ∨ fuel = 0) :
    Sim g (Engine.childChanged env fuel p c ci o) (Engine.childChanged (virtEnv env) fuel' p c ci o') := by
  intro s hfr r s' h
  cases fuel with
  | zero => unfold Engine.childChanged at h; cases h
  | succ fuel =>
    obtain ⟨f', rfl⟩ : ∃ f', fuel' = f' + 1 := ⟨fuel' - 1, by omega⟩
    have hv := childChanged_veq (g := g) hfr h
    unfold Engine.childChanged at h
    obtain ⟨nd, hnd, -⟩ := bind_getNode_inv h
    rw [virt_childChanged_run hnd (hfr.some hnd).2 (hfr.some hnd).1, hv.veq]
    exact ⟨rfl, hv.noExp hfr⟩

/-- optional notification on the actual side, (no-op) notification on the virtual side -/
theorem SimAt.ccThen {β : Type} {s : State} {b : Bool} {k k' : Unit → M β} {env : Env}
    {fuel fuel' p n ci : Nat} {o o' : Option Val}
    (hf : 0 < fuel' ∨ (b = true ∧ fuel = 0))
    (hex : ∀ r s', (k ()).run.run s = (.ok r, s') → ∃ nd, s.nodes[p]? = some nd)
    (hk : Sim g (k ()) (k' ())) :
    SimAt g s (if b = true then Engine.childChanged env fuel p n ci o >>= k else k ())
      (Engine.childChanged (virtEnv env) fuel' p n ci o' >>= k') := by
  cases b with
  | true =>
    rw [if_pos rfl]
    refine SimAt.seq (St.childChanged' env fuel fuel' p n ci o o' ?_ s) fun _ s1 _ => hk s1
    rcases hf with h | h
    · exact Or.inl h
    · exact Or.inr h.2
  | false =>
    rw [if_neg (by decide)]
    intro hfr r s' h
    obtain ⟨nd, hnd⟩ := hex r s' h
    obtain ⟨f', rfl⟩ : ∃ f', fuel' = f' + 1 := ⟨fuel' - 1, by rcases hf with h | h; omega; cases h.1⟩
    rw [run_bind_ok (virt_childChanged_run hnd (hfr.some hnd).2 (hfr.some hnd).1)]
    exact hk s hfr r s' h

theorem St.mcvm (env : Env) (fuel fuel' n : Nat) (o o' : Option Val) (did b : Bool)
    (hf : 0 < fuel' ∨ (b = true ∧ fuel = 0)) :
    Sim g (Engine.maybeChangeValueManual env fuel n o did b)
      (Engine.maybeChangeValueManual (virtEnv env) fuel' n o' did true) := by
  intro s
  unfold Engine.maybeChangeValueManual
  simp only [↓reduceIte]
  refine SimAt.cond Iff.rfl (fun _ => SimAt.ret _) (fun _ => ?_)
  sim
  split
  · sim
  · have hex : ∀ {β : Type} (p : Nat) (s : State) (k : Node → M β) (r : β) (s' : State),
        (do let t ← get
            dassert (t.needsToBeComputed p) "node:maybe_change_value:parent-needs-to-be-computed"
            let nd ← getNode p
            k nd : M β).run.run s = (.ok r, s') → ∃ nd, s.nodes[p]? = some nd := by
      intro β p s k r s' h
      rw [run_bind_get] at h
      obtain ⟨na, hna, -⟩ := bind_getNode_inv (bind_dassert_inv h)
      exact ⟨na, hna⟩
    refine SimAt.seq (Sim.at (Sim.forIn _ (fun a _ => ?_) _) _) fun _ s2 _ => ?_
    · intro s1
      refine SimAt.ccThen hf (hex _ _ _) ?_
      intro s3; sim
    · refine SimAt.ccThen hf (hex _ _ _) ?_
      intro s3; sim

theorem Sim.maybeChangeValueManual (env : Env) (fuel n : Nat) (o o' : Option Val) (did b : Bool)
    (hf : b = true ∨ 0 < fuel) :
    Sim g (Engine.maybeChangeValueManual env fuel n o did b)
      (Engine.maybeChangeValueManual (virtEnv env) fuel n o' did true) := by
  refine St.mcvm env fuel fuel n o o' did b ?_
  rcases hf with h | h
  · cases fuel with
    | zero => exact Or.inr ⟨h, rfl⟩
    | succ f => exact Or.inl (Nat.succ_pos _)
  · exact Or.inl h

/-! ## `maybe_change_value` on a node that is not a map_ref node -/

/-- writing the value of a node that is not a map_ref node commutes with `virt` -/
theorem SimAt.modNode_value {s : State} {n : Nat} (v : Option Val)
    (h : ∀ p i, (s.nodeD n).kind ≠ .mapRef p i) :
    SimAt g s (Engine.modNode n fun x => { x with value := v }) (Engine.modNode n fun x => { x with value := v }) := by
  intro hfr r s' hr
  rw [run_modNode] at hr ⊢
  cases hr
  refine ⟨?_, fr_modify hfr n _ (by vkind)⟩
  congr 1
  simp only [virt]
  congr 1
  apply Array.ext
  · simp
  · intro i h1 h2
    simp only [Array.getElem_mapIdx, Array.getElem_modify]
    split
    · rename_i e; subst e
      have hlt : n < s.nodes.size := by simpa using h1
      have hk : ∀ p i, (s.nodes[n]).kind ≠ .mapRef p i := by
        have e : s.nodeD n = s.nodes[n] := by simp [State.nodeD, hlt]
        rw [← e]; exact h
      generalize s.nodes[n] = x at hk
      rcases x with ⟨k⟩
      cases k <;> first | rfl | exact absurd rfl (hk _ _)
    · rfl

theorem SimAt.maybeChangeValue {env : Env} {fuel n : Nat} {v : Val} {t : State}
    (hk : ∀ p i, (t.nodeD n).kind ≠ .mapRef p i) :
    SimAt g t (Engine.maybeChangeValue env fuel n v) (Engine.maybeChangeValue (virtEnv env) fuel n v) := by
  unfold Engine.maybeChangeValue
  refine SimAt.getNode_seq fun nd hnd hne hval => ?_
  have hnk : ∀ p i, nd.kind ≠ .mapRef p i := by
    have := hk; rw [nodeD_of_some hnd] at this; exact this
  rw [virtNode_value_of_not_mapRef _ _ hnk]
  dsimp only
  refine SimAt.seq (SimAt.modNode_value none hk) fun _ s1 h1 => ?_
  rw [run_modNode] at h1; cases h1
  have hk1 : ∀ p i, (({ t with nodes := t.nodes.modify n fun x => { x with value := none } } : State).nodeD n).kind
      ≠ .mapRef p i := by
    intro p i; rw [nodeD_modify]; split <;> exact hk p i
  cases nd.value with
  | none =>
    simp only [pure_bind]
    refine SimAt.seq (SimAt.modNode_value _ hk1) fun _ _ _ => ?_
    exact Sim.maybeChangeValueManual env fuel n _ _ _ true (Or.inl rfl) _
  | some ov =>
    dsimp only
    refine SimAt.seq (Sim.shouldCutoff env n ov v _) fun c s2 h2 => ?_
    have q := (Step.Pres.shouldCutoff env n ov v).h _ _ _ h2
    have hk2 : ∀ p i, (s2.nodeD n).kind ≠ .mapRef p i := by
      intro p i; rw [(q.node n).kind]; exact hk1 p i
    simp only [pure_bind]
    refine SimAt.seq (SimAt.modNode_value _ hk2) fun _ _ _ => ?_
    exact Sim.maybeChangeValueManual env fuel n _ _ _ true (Or.inl rfl) _

end
end IncrVerif.Proofs.MapRefH
