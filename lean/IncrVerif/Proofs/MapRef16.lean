import IncrVerif.Proofs.MapRef15
/-!
# map_ref fragment, part 9: from-scratch evaluation, and the values after the drain (M1, L1)
-/
namespace IncrVerif.Proofs.MapRefH
open IncrVerif.Engine IncrVerif.Proofs IncrVerif.Proofs.Step IncrVerif.Proofs.Sched IncrVerif.Proofs.Quiet

/-- from-scratch evaluation of node `n` (fuel `k`) on the current values of the variables: as `Sched.eval`, and a
map_ref node `mapRef p i` evaluates to the projection `env.proj p` of the evaluation of its input -/
def evalR (env : Env) (s : State) : Nat → Nat → Option Val
  | 0, _ => none
  | k+1, n =>
    match (s.nodeD n).kind with
    | .const v => some v
    | .var c => (s.vars[c]?).map (·.value)
    | .map f args => (evalArgs (fun a => evalR env s k a) args).map (env.fn f)
    | .fold f init cs => (evalArgs (fun a => evalR env s k a) cs).map (List.foldl (env.foldStep f) init)
    | .mapRef p i => (evalR env s k i).map (env.proj p)
    | _ => none

/-- the evaluation of the virtual static graph is the evaluation of the actual graph -/
theorem eval_virt {env : Env} {s : State} (F : RFrag env s) (g : Nat → Option Val) (k n : Nat) :
    eval (virtEnv env) (virt g s) k n = evalR env s k n := by
  induction k generalizing n with
  | zero => rfl
  | succ k ih =>
    unfold Sched.eval evalR
    have hfun : (fun a => Sched.eval (virtEnv env) (virt g s) k a) = (fun a => evalR env s k a) := funext ih
    rw [hfun, virt_nodeD, virtNode_kind]
    cases hk : (s.nodeD n).kind with
    | map f args =>
      simp only [virtKind]
      have hlt : n < s.nodes.size := by
        by_cases h : n < s.nodes.size
        · exact h
        · rw [nodeD_default_of_ge s n (by omega)] at hk; cases hk
      have hR := F.kind n hlt
      rw [hk] at hR
      have : (virtEnv env).fn f = env.fn f := funext fun vals => virtEnv_fn_real env hR.1 vals
      rw [this]
    | mapRef p i =>
      simp only [virtKind, evalArgs]
      cases evalR env s k i with
      | none => rfl
      | some v => simp [virtEnv_fn_proj]
    | _ => rfl

theorem evalR_congr {env : Env} {s s' : State} (hk : ∀ m, (s'.nodeD m).kind = (s.nodeD m).kind)
    (hv : s'.vars = s.vars) (k n : Nat) : evalR env s' k n = evalR env s k n := by
  induction k generalizing n with
  | zero => rfl
  | succ k ih =>
    unfold evalR
    rw [hk n, hv]
    have : (fun a => evalR env s' k a) = (fun a => evalR env s k a) := funext ih
    rw [this]
    simp only [ih]

/-- on the kinds of the fragment, the virtual kind determines the kind -/
theorem virtKind_inj {env : Env} {k k' : Kind} (h : RKind env k) (h' : RKind env k') (e : virtKind k = virtKind k') :
    k = k' := by
  cases k <;> cases k' <;> simp only [virtKind] at e <;> simp only [RKind] at h h' <;> first
    | exact e
    | (exfalso; cases e; first | (have := h.1; omega) | (have := h'.1; omega))
    | (exfalso; cases e)
    | (exfalso; injection e with e1 e2; omega)
    | (injection e with e1 e2; injection e2 with e3; have : _ := Nat.add_left_cancel e1; subst this; subst e3; rfl)

theorem kind_of_frame {env : Env} {s s' : State} {g g' : Nat → Option Val} (F : RFrag env s) (F' : RFrag env s')
    (f : Frame (virt g s) (virt g' s')) (m : Nat) : (s'.nodeD m).kind = (s.nodeD m).kind := by
  have hsz : s'.nodes.size = s.nodes.size := by have := f.size; rwa [virt_size, virt_size] at this
  by_cases hm : m < s.nodes.size
  · have h1 := (f.shape m).kind
    rw [virt_nodeD, virt_nodeD, virtNode_kind, virtNode_kind] at h1
    exact virtKind_inj (F'.kind m (by rw [hsz]; exact hm)) (F.kind m hm) h1
  · rw [nodeD_default_of_ge s m (by omega), nodeD_default_of_ge s' m (by omega)]

/-- the drain invariant of the fragment static + map_ref, between two pops -/
def DrainInvR (env : Env) (s : State) : Prop := ∃ g, DInvR env s g none

section
variable {env : Env} {g : Nat → Option Val} {s : State}

/-- with an empty heap every necessary node READS its ghost value -/
theorem DInvR.reads_ghost (D : DInvR env s g none) (he : s.rch.length = 0) (n : Nat)
    (hn : s.isNecessary n = true) : s.value env n = tv g s n := by
  have he' : (virt g s).rch.length = 0 := he
  refine (settled D.frag D.inv.graph (fun e h1 h2 => D.inv.cons e h1 h2) n hn ?_).symm
  intro e hanc
  have hnv : (virt g s).isNecessary n = true := by rw [virt_isNecessary]; exact hn
  have hen := hanc.nec D.inv.graph hnv
  have := (DrainInv.all_consistent D.inv he' e hen).1
  rwa [virt_isStale] at this

/-- **M1, L1.** With the drain invariant and an empty recompute heap, every necessary node is valid, is not stale,
and what it READS (`State.value`, which computes through map_ref nodes) is its from-scratch evaluation. -/
theorem drainedR_values (D : DInvR env s g none) (he : s.rch.length = 0) (n : Nat)
    (hn : s.isNecessary n = true) (k : Nat) (hk : (s.nodeD n).height.toNat < k) :
    (s.nodeD n).valid = true ∧ s.isStale n = false ∧ s.value env n = evalR env s k n ∧
      (evalR env s k n).isSome = true := by
  have hnv : (virt g s).isNecessary n = true := by rw [virt_isNecessary]; exact hn
  have hk' : ((virt g s).nodeD n).height.toNat < k := by rw [virt_nodeD, virtNode_height]; exact hk
  obtain ⟨h1, h2, h3, -, h5⟩ := drained_values D.inv he n hnv k hk'
  rw [virt_nodeD, virtNode_valid] at h1
  rw [virt_isStale] at h2
  rw [eval_virt D.frag] at h3 h5
  exact ⟨h1, h2, by rw [D.reads_ghost he n hn]; exact h3, h5⟩

/-- **M1, L3 + L1.** After a successful `drainHeap` from the drain invariant: the drain invariant, an empty heap,
the same graph and variables, and every necessary node reads its from-scratch value. -/
theorem drainHeapR_values {fuel : Nat} {s' : State} (D : DInvR env s g none)
    (h : (drainHeap env fuel).run.run s = (.ok (), s')) :
    ∃ g', DInvR env s' g' none ∧ s'.rch.length = 0 ∧ DStep env s s' g g' ∧ s'.vars = s.vars ∧
      ∀ n, s.isNecessary n = true → ∀ k, (s.nodeD n).height.toNat < k →
        s'.isNecessary n = true ∧ s'.isStale n = false ∧ s'.value env n = evalR env s k n ∧
          (evalR env s k n).isSome = true := by
  obtain ⟨g', D', he, f⟩ := drainHeapR_inv fuel s s' g D h
  refine ⟨g', D', he, f, f.frame.vars, fun n hn k hk => ?_⟩
  have hn' : s'.isNecessary n = true := by
    have := f.frame.nec n; rw [virt_isNecessary, virt_isNecessary] at this; rw [this]; exact hn
  have hh : (s'.nodeD n).height = (s.nodeD n).height := by
    have := (f.frame.shape n).height
    rwa [virt_nodeD, virt_nodeD, virtNode_height, virtNode_height] at this
  obtain ⟨-, h2, h3, h4⟩ := drainedR_values D' he n hn' k (by rw [hh]; exact hk)
  have hkind := kind_of_frame D.frag D'.frag f.frame
  have hev : evalR env s' k n = evalR env s k n := evalR_congr hkind f.frame.vars k n
  rw [hev] at h3 h4
  exact ⟨hn', h2, h3, h4⟩

end
end IncrVerif.Proofs.MapRefH
