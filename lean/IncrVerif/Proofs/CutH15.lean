import IncrVerif.Proofs.CutH14
-- Port of Proofs/Quiet9.lean to ARBITRARY cutoffs (scratch name Q9); overview in Props/C06History.lean
/-!
# Part 8: the invariant between API actions (`QInv`), observer bookkeeping, frames
-/
namespace IncrVerif.Proofs.CutH
open IncrVerif.Engine IncrVerif.Proofs IncrVerif.Proofs.Step IncrVerif.Proofs.Sched

/-! ## observers -/

/-- observer bookkeeping, relative to the observers still waiting to be added (`pn`) and to be unlinked (`pd`) -/
structure ObsInv (s : State) (pn pd : List Nat) : Prop where
  /-- observers watch existing nodes and have no update handlers -/
  inRange : ∀ (o : Nat) (ob : ObsRec), s.observers[o]? = some ob → ob.node < s.nodes.size ∧ ob.handlers = []
  /-- the observer list of a node: exactly the linked (in use or disallowed) observers of that node -/
  mem : ∀ n o, o ∈ (s.nodeD n).observers ↔
    ∃ ob, s.observers[o]? = some ob ∧ ob.node = n ∧ (ob.state = .inUse ∨ ob.state = .disallowed)
  created : ∀ (o : Nat) (ob : ObsRec), s.observers[o]? = some ob → ob.state = .created → o ∈ pn
  newIn : ∀ o, o ∈ pn → ∃ ob, s.observers[o]? = some ob
  dis : ∀ (o : Nat) (ob : ObsRec), s.observers[o]? = some ob → (ob.state = .disallowed ↔ o ∈ pd)
  disIn : ∀ o, o ∈ pd → ∃ ob, s.observers[o]? = some ob
  disNodup : pd.Nodup

def ObsOK (s : State) : Prop := ObsInv s s.newObservers s.disallowedObservers

/-! ## the invariant between API actions -/

structure QInv (env : Env) (e : Bool) (s : State) : Prop where
  struct : Struct env s
  vars : VarsOK s
  obs : ObsOK s
  now : 0 ≤ s.stabNum
  /-- every stamp is from an earlier round -/
  stamps : ∀ m, (s.nodeD m).recomputedAt < s.stabNum ∧ (s.nodeD m).changedAt < s.stabNum
  varStamp : ∀ (c : Nat) (vc : VarCell), s.vars[c]? = some vc → vc.setAt ≤ s.stabNum
  /-- EVERY node that is not stale (necessary or not) has a value; it is consistent with its children if every
  cutoff ever in force was exact (`e`) -/
  cons : ∀ m, m < s.nodes.size → staleOf s m = false → ConsE env e s m
  /-- flag up: every cutoff is exact -/
  exact : e = true → ∀ m, ExactCut (s.nodeD m).cutoff
  status : s.status = .notStabilising
  alive : s.alive = true
  setDuringStab : s.setDuringStab = []
  deadVars : s.deadVars = []
  handleAfterStab : s.handleAfterStab = []
  handlers : ∀ m, (s.nodeD m).numOnUpdateHandlers ≤ 0
  pinv : s.propagateInvalidity = []
  /-- the naming table of top-level nodes -/
  top : ∀ (k n : Nat), s.top[k]? = some n → n < s.nodes.size

theorem QInv.weaken {env : Env} {e : Bool} {s : State} (Q : QInv env e s) : QInv env false s :=
  { Q with cons := fun m hm hs => (Q.cons m hm hs).weaken, exact := fun h => by cases h }

/-- with the flag up, every non-stale node is `Sched.Consistent` -/
theorem QInv.consistent {env : Env} {s : State} (Q : QInv env true s) (m : Nat) (hm : m < s.nodes.size)
    (hs : staleOf s m = false) : Consistent env s m := (Q.cons m hm hs).consistent

/-! ## what the prefix of `stabilise` (adding and unlinking observers) keeps -/

def nodeKeyP (nd : Node) :=
  (nd.kind, nd.createdIn, nd.cutoff, nd.value, nd.valid, nd.recomputedAt, nd.changedAt,
    nd.forceNecessary, nd.numOnUpdateHandlers)

def stateKeyP (s : State) :=
  (s.vars, s.stabNum, s.status, s.cfg, s.currentScope, s.setDuringStab, s.deadVars, s.top, s.handles,
    s.alive, s.rch.queues.size, s.ahh, s.binds, s.memos, s.slots)

structure PFrame (s s' : State) : Prop where
  size : s'.nodes.size = s.nodes.size
  node : ∀ m, nodeKeyP (s'.nodeD m) = nodeKeyP (s.nodeD m)
  key : stateKeyP s' = stateKeyP s
  pc : s.panicCountdown = none → s'.panicCountdown = none

theorem PFrame.refl (s : State) : PFrame s s := ⟨rfl, fun _ => rfl, rfl, id⟩
theorem PFrame.trans {a b c : State} (h1 : PFrame a b) (h2 : PFrame b c) : PFrame a c :=
  ⟨h2.size.trans h1.size, fun m => (h2.node m).trans (h1.node m), h2.key.trans h1.key,
    fun h => h2.pc (h1.pc h)⟩

theorem CFrame.toP {s s' : State} (h : CFrame s s') : PFrame s s' := by
  refine ⟨h.size, fun m => ?_, ?_, h.pc⟩
  · have := h.node m
    simp only [nodeKey, Prod.mk.injEq] at this
    simp only [nodeKeyP, Prod.mk.injEq]
    exact ⟨this.1, this.2.1, this.2.2.1, this.2.2.2.1, this.2.2.2.2.1, this.2.2.2.2.2.1,
      this.2.2.2.2.2.2.1, this.2.2.2.2.2.2.2.2.1, this.2.2.2.2.2.2.2.2.2⟩
  · have := h.key
    simp only [stateKey, Prod.mk.injEq] at this
    simp only [stateKeyP, Prod.mk.injEq]
    exact ⟨this.1, this.2.2.1, this.2.2.2.1, this.2.2.2.2.1, this.2.2.2.2.2.1, this.2.2.2.2.2.2.1, this.2.2.2.2.2.2.2.1, this.2.2.2.2.2.2.2.2.2.2.2.1, this.2.2.2.2.2.2.2.2.2.2.2.2.1, this.2.2.2.2.2.2.2.2.2.2.2.2.2.1, this.2.2.2.2.2.2.2.2.2.2.2.2.2.2.1, this.2.2.2.2.2.2.2.2.2.2.2.2.2.2.2.1, this.2.2.2.2.2.2.2.2.2.2.2.2.2.2.2.2.1, this.2.2.2.2.2.2.2.2.2.2.2.2.2.2.2.2.2.1, this.2.2.2.2.2.2.2.2.2.2.2.2.2.2.2.2.2.2⟩

end IncrVerif.Proofs.CutH
