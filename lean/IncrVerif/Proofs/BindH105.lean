import IncrVerif.Proofs.BindH104
import IncrVerif.Proofs.BindH86
import IncrVerif.Proofs.BindH87
import IncrVerif.Proofs.BindH88
/-!
# Binds, part 5g3: "generations are current" (`GenOK`) through `stabilise` and the API actions; observers read the from-scratch value `den`

* `stabilise_gen`: the observer prefix and `stabiliseEnd` keep everything `GenOK` reads; the drain keeps `GenOK` (`drainHeap_gen`);
* `step_gen`: every API action of the fragment keeps `GenOK` (a new bind's change detector has never run, hence is stale: no obligation);
* `genOK_init`;
* `stabilise_reads_den`: after a `stabilise` every in-use observer reads the from-scratch value `den` of the node it watches.
-/
namespace IncrVerif.Proofs.BindH
open IncrVerif.Engine IncrVerif.Driver IncrVerif.Proofs IncrVerif.Proofs.Step IncrVerif.Proofs.Sched IncrVerif.Proofs.Quiet

/-! ## `stabilise` -/

set_option maxHeartbeats 800000 in
/-- **`stabilise` keeps `GenOK`** -/
theorem stabilise_gen {env : Env} {fuel : Nat} {s s' : State} (Q : QInv1 env s) (G : GenOK env s)
    (h : (stabilise env fuel).run.run s = (.ok (), s')) : GenOK env s' := by
  unfold stabilise at h
  rw [run_bind_get] at h
  obtain ⟨_, sa, ha, h⟩ := bind_ok_inv h
  have hsa : sa = s := by
    rw [run_assertM] at ha
    split at ha <;> cases ha
    rfl
  rw [hsa] at h
  obtain ⟨s0, hs0, h⟩ := bind_modify_inv h
  obtain ⟨_, t1, h1, h⟩ := bind_ok_inv h
  obtain ⟨_, t2, h2, h⟩ := bind_ok_inv h
  obtain ⟨_, t3, h3, h4⟩ := bind_ok_inv h
  have S0 : SInv1 env s0 s0.newObservers s0.disallowedObservers := by
    rw [hs0]
    exact C2p.sInv1_congr ⟨Q.struct, Q.obs, Q.obsTop, Q.f1.pinv, Q.f1.noHandlers, Q.f1.noForce⟩
      rfl rfl rfl rfl rfl rfl rfl rfl
  -- the prefix
  obtain ⟨S1, hn1, hd1, F1, O1, -⟩ := addNewObservers_s1 S0 h1
  have M1 := addNewObservers_marks S0 h1
  obtain ⟨S2, hn2, hd2, F2, O2⟩ := unlinkDisallowedObservers_s1 S1 hn1 h2
  have M2 := unlinkDisallowedObservers_marks S1 hn1 h2
  have F : C2s.PreF s t2 := C2s.PreF.of hs0 (F1.trans F2) (fun m => (M2 m).trans (M1 m))
  obtain ⟨D2, A2⟩ := C2s.drain_start Q F S2
  have G2 : GenOK env t2 :=
    C3g.genOK_frame G Q.f1.frag F.binds F.top F.kind F.valid F.recomputedAt F.changedAt F.value
  -- the drain
  have X2 : AuxS env t2 t2 := ⟨A2, DKey.refl _, NKey.refl _⟩
  obtain ⟨D3, ⟨A3, K3, N3⟩, G3, he3, f3⟩ := drainHeap_gen D2 X2 G2 h3
  obtain ⟨V3, O3, T3⟩ := C2s.after_drain A3 K3 N3 f3.vars (F.varsOK Q.vars) S2.obs S2.obsTop
  -- the end
  have hsd : t3.setDuringStab = [] := by rw [K3.setDuringStab, F.setDuringStab]; exact Q.setDuringStab
  have hdv : t3.deadVars = [] := by rw [K3.deadVars, F.deadVars]; exact Q.deadVars
  have hoh : ∀ (o : Nat) (ob : ObsRec), t3.observers[o]? = some ob → ob.handlers = [] :=
    fun o ob ho => (O3.inRange o ob ho).2
  have E := stabiliseEnd_fin (env := env) (fuel := fuel) hsd hdv hoh h4
  have hb := C2s.stabiliseEnd_binds hsd hdv hoh h4
  have hno3 : t3.newObservers = [] := by rw [K3.newObservers]; exact hn2
  have hdo3 : t3.disallowedObservers = [] := by rw [K3.disallowedObservers]; exact hd2
  obtain ⟨-, GG, hval⟩ := C2s.qinv1_end D3 A3 E hb V3 O3 hno3 hdo3 T3
    (by rw [K3.alive, F.alive]; exact Q.alive)
  have K := BL.KeyEq.of_same GG
  exact C3g.genOK_frame G3 A3.frag hb E.top K.kind K.valid K.recomputedAt K.changedAt hval

/-! ## the API actions -/

namespace C3g

/-- nodes, bind table and naming table are unchanged -/
structure NBT (s s' : State) : Prop where
  nodes : s'.nodes = s.nodes
  binds : s'.binds = s.binds
  top : s'.top = s.top

instance : PreOrd NBT :=
  ⟨fun _ => ⟨rfl, rfl, rfl⟩, fun h1 h2 => ⟨h2.nodes.trans h1.nodes, h2.binds.trans h1.binds, h2.top.trans h1.top⟩⟩

theorem NBT.gen {env : Env} {s s' : State} (F : NBT s s') (A : All1 env s []) (G : GenOK env s) : GenOK env s' := by
  have hnd : ∀ m, s'.nodeD m = s.nodeD m := fun m => by simp [State.nodeD, F.nodes]
  exact genOK_frame G A F.binds F.top (fun m => by rw [hnd]) (fun m => by rw [hnd]) (fun m => by rw [hnd])
    (fun m => by rw [hnd]) (fun m => by rw [hnd])

theorem presN_modify {f : State → State} (h1 : ∀ s, (f s).nodes = s.nodes) (h2 : ∀ s, (f s).binds = s.binds)
    (h3 : ∀ s, (f s).top = s.top) : Step.Pres NBT (modify f : M Unit) :=
  Step.Pres.modify fun s => ⟨h1 s, h2 s, h3 s⟩

theorem presN_bumpCounter (f : Counters → Counters) : Step.Pres NBT (bumpCounter f) := by
  unfold Engine.bumpCounter; exact presN_modify (fun _ => rfl) (fun _ => rfl) (fun _ => rfl)

theorem presN_modObs (o : Nat) (f : ObsRec → ObsRec) : Step.Pres NBT (modObs o f) := by
  unfold Engine.modObs; exact presN_modify (fun _ => rfl) (fun _ => rfl) (fun _ => rfl)

theorem presN_getObs (o : Nat) : Step.Pres NBT (getObs o) :=
  Step.Pres.of_readonly _ fun s => by
    simp only [Engine.getObs, run_bind, run_get]; cases s.observers[o]? <;> rfl

theorem presN_resolveOpnd (l : List Nat) (o : Opnd) : Step.Pres NBT (resolveOpnd l o) :=
  Step.Pres.of_readonly _ fun s => by
    cases o with
    | outer k => simp only [Engine.resolveOpnd, run_bind, run_get]; cases s.top[k]? <;> rfl
    | abs n => simp only [Engine.resolveOpnd]; rfl
    | loc j => simp only [Engine.resolveOpnd]; cases l[j]? <;> rfl
    | slot k => simp only [Engine.resolveOpnd, run_bind, run_get]; cases s.slots.lookup k <;> rfl

theorem presN_disallowFutureUse (o : Nat) : Step.Pres NBT (disallowFutureUse o) := by
  unfold Engine.disallowFutureUse
  refine Step.Pres.bind (presN_getObs o) fun ob => ?_
  split
  · exact Step.Pres.pure _
  · exact Step.Pres.pure _
  · exact Step.Pres.bind (presN_bumpCounter _) fun _ => presN_modObs _ _
  · exact Step.Pres.bind (presN_bumpCounter _) fun _ => Step.Pres.bind (presN_modObs _ _) fun _ =>
      presN_modify (fun _ => rfl) (fun _ => rfl) (fun _ => rfl)

/-- the observer actions touch neither nodes, nor the bind table, nor the naming table -/
theorem presN_observe (env : Env) (n : Opnd) (tokens : Array Nat) : Step.Pres NBT (stepAction env (.observe n) tokens) := by
  unfold stepAction
  dsimp only
  refine Step.Pres.bind (presN_resolveOpnd _ _) fun m => Step.Pres.bind Step.Pres.get fun st => ?_
  refine Step.Pres.bind (presN_modify (fun _ => rfl) (fun _ => rfl) (fun _ => rfl)) fun _ => ?_
  exact Step.Pres.bind (presN_bumpCounter _) fun _ => Step.Pres.pure _

theorem presN_cloneObs (env : Env) (o : Nat) (tokens : Array Nat) : Step.Pres NBT (stepAction env (.cloneObs o) tokens) := by
  unfold stepAction
  dsimp only
  exact Step.Pres.bind (presN_modObs _ _) fun _ => Step.Pres.pure _

theorem presN_dropObs (env : Env) (o : Nat) (tokens : Array Nat) : Step.Pres NBT (stepAction env (.dropObs o) tokens) := by
  unfold stepAction
  dsimp only
  refine Step.Pres.bind (presN_getObs o) fun ob => ?_
  split
  · exact Step.Pres.pure _
  · refine Step.Pres.bind (presN_modObs _ _) fun _ => ?_
    split
    · exact Step.Pres.bind (presN_disallowFutureUse o) fun _ => Step.Pres.pure _
    · exact Step.Pres.pure _

theorem presN_disallow (env : Env) (o : Nat) (tokens : Array Nat) : Step.Pres NBT (stepAction env (.disallow o) tokens) := by
  unfold stepAction
  dsimp only
  exact Step.Pres.bind (presN_disallowFutureUse o) fun _ => Step.Pres.pure _

/-- a write keeps `GenOK`: it changes a cell, not the stored value or a stamp of a node -/
theorem writeVar_gen {env : Env} {s s' : State} {v : Nat} {f : Val → Val} {isSet : Bool} {r : Val}
    (Q : QInv1 env s) (G : GenOK env s) (h : (writeVar v f isSet).run.run s = (.ok r, s')) : GenOK env s' := by
  obtain ⟨vc, hv⟩ := writeVar_ok_cell h
  have hst : s.status ≠ .stabilising := by rw [Q.status]; intro e; cases e
  obtain ⟨hr, hs', -, -, hh⟩ := writeVar_outside_ok v f isSet s s' vc r hv hst h
  obtain ⟨R, -⟩ := C2w.wroteOutside_q (f vc.value) Q hv hh
  rw [← hs'] at R
  exact genOK_frame G Q.f1.frag R.binds R.top R.kind R.valid R.recomputedAt R.changedAt R.value

/-- node creation keeps `GenOK`: old nodes and records are untouched, the naming table only grows, and the change detector of a new bind is stale -/
theorem ext_gen {env : Env} {s s1 : State} (Q : QInv1 env s) (G : GenOK env s) (E : C2c.Ext s s1)
    (htop : ∀ (k n : Nat), s.top[k]? = some n → s1.top[k]? = some n)
    (hnew : ∀ (b : Nat) (br : BindRec), s.binds.size ≤ b → s1.binds[b]? = some br →
      s1.isStale br.lhsChange = true) : GenOK env s1 := by
  have A := Q.f1.frag
  refine genOK_transfer G htop ?_
  intro b br hb hst
  by_cases hlt : b < s.binds.size
  · rw [E.bold b hlt] at hb
    obtain ⟨f1, -, -, -, -, f6, -⟩ := rec_facts A hb
    refine ⟨hb, ?_, ?_, ?_⟩
    · rw [← E.isStale_old A Q.vars f1]; exact hst
    · rw [E.old br.lhs (by omega)]
    · intro m hm
      rw [E.old m ((A.gen b br hb m).1 (Or.inl hm)).1]
  · rw [hnew b br (by omega) hb] at hst; cases hst

theorem push_mono {a : Array Nat} (x : Nat) : ∀ (k n : Nat), a[k]? = some n → (a.push x)[k]? = some n := by
  intro k n h
  have hk : k < a.size := (Array.getElem?_eq_some_iff.1 h).1
  rw [Array.getElem?_push, if_neg (by omega)]
  exact h

theorem create_gen {env : Env} {s s' : State} {i : Instr} {tokens : Array Nat} {r : String × Array Nat}
    (Q : QInv1 env s) (G : GenOK env s) (hi : InstrTop env s.top.size i)
    (h : (stepAction env (.create i) tokens).run.run s = (.ok r, s')) : GenOK env s' := by
  have hsc := Q.struct.frag.scope
  unfold stepAction at h
  simp only at h
  obtain ⟨ro, s1, h1, h2⟩ := bind_ok_inv h
  by_cases hb : ∃ body lhs, i = .bind body lhs
  · obtain ⟨body, lhs, ei⟩ := hb
    rw [ei] at hi h1
    obtain ⟨⟨k, ek⟩, hB⟩ := hi
    rw [ek] at h1
    obtain ⟨l, hl, ero, C⟩ := C2c.elab_bind1 hsc h1
    rw [ero] at h2
    simp only at h2
    obtain ⟨s2, e2, h3⟩ := bind_modify_inv h2
    obtain ⟨-, e3⟩ := pure_ok_inv h3
    rw [e3, e2]
    refine ext_gen Q G (C.ext.withTop _ _) ?_ ?_
    · show ∀ (k n : Nat), s.top[k]? = some n → (s1.top.push _)[k]? = some n
      rw [C.top]; exact push_mono _
    · intro b br hge hbr
      have hbr' : s1.binds[b]? = some br := hbr
      obtain ⟨-, e⟩ := C.bind_inv hge hbr'
      rw [e]
      show s1.isStale s.nodes.size = true
      exact C.stale_lc
  · have hst : StaticInstr env i := by
      cases i <;> first | exact hi | exact (hb ⟨_, _, rfl⟩).elim
    obtain ⟨k, ero, hk, hkids, C⟩ := C2c.elab_static1 hsc hst h1
    rw [ero] at h2
    simp only at h2
    obtain ⟨s2, e2, h3⟩ := bind_modify_inv h2
    obtain ⟨-, e3⟩ := pure_ok_inv h3
    rw [e3, e2]
    refine ext_gen Q G (C.ext.withTop _ _) ?_ ?_
    · show ∀ (k n : Nat), s.top[k]? = some n → (s1.top.push _)[k]? = some n
      rw [C.top]; exact push_mono _
    · intro b br hge hbr
      exfalso
      have hbr' : s1.binds[b]? = some br := hbr
      rw [C.binds] at hbr'
      have := (Array.getElem?_eq_some_iff.1 hbr').1
      omega

end C3g

/-- **every API action of the fragment keeps `GenOK`** -/
theorem step_gen {env : Env} {s s' : State} {a : Action} {tokens : Array Nat} {r : String × Array Nat}
    (Q : QInv1 env s) (G : GenOK env s) (ha : ActionF1 env s.top.size a)
    (h : (stepAction env a tokens).run.run s = (.ok r, s')) : GenOK env s' := by
  have A := Q.f1.frag
  cases a <;> try exact ha.elim
  case create i => exact C3g.create_gen Q G ha h
  case observe n => exact ((C3g.presN_observe env n tokens).h s _ s' h).gen A G
  case cloneObs o => exact ((C3g.presN_cloneObs env o tokens).h s _ s' h).gen A G
  case dropObs o => exact ((C3g.presN_dropObs env o tokens).h s _ s' h).gen A G
  case disallow o => exact ((C3g.presN_disallow env o tokens).h s _ s' h).gen A G
  case set v x =>
    unfold stepAction at h
    dsimp only at h
    obtain ⟨_, s1, h1, h2⟩ := bind_ok_inv h
    obtain ⟨-, e2⟩ := pure_ok_inv h2
    obtain ⟨r1, h1⟩ := discard_ok_inv h1
    rw [e2]; exact C3g.writeVar_gen Q G h1
  case modify v d =>
    unfold stepAction at h
    dsimp only at h
    obtain ⟨_, s1, h1, h2⟩ := bind_ok_inv h
    obtain ⟨-, e2⟩ := pure_ok_inv h2
    obtain ⟨r1, h1⟩ := discard_ok_inv h1
    rw [e2]; exact C3g.writeVar_gen Q G h1
  case update v d =>
    unfold stepAction at h
    dsimp only at h
    obtain ⟨_, s1, h1, h2⟩ := bind_ok_inv h
    obtain ⟨-, e2⟩ := pure_ok_inv h2
    obtain ⟨r1, h1⟩ := discard_ok_inv h1
    rw [e2]; exact C3g.writeVar_gen Q G h1
  case replace v x =>
    unfold stepAction at h
    dsimp only at h
    obtain ⟨_, s1, h1, h2⟩ := bind_ok_inv h
    obtain ⟨-, e2⟩ := pure_ok_inv h2
    rw [e2]; exact C3g.writeVar_gen Q G h1
  case replaceWith v d =>
    unfold stepAction at h
    dsimp only at h
    obtain ⟨_, s1, h1, h2⟩ := bind_ok_inv h
    obtain ⟨-, e2⟩ := pure_ok_inv h2
    rw [e2]; exact C3g.writeVar_gen Q G h1
  case get v =>
    unfold stepAction at h
    dsimp only at h
    obtain ⟨_, s1, h1, h2⟩ := bind_ok_inv h
    obtain ⟨-, e2⟩ := pure_ok_inv h2
    rw [e2, getVar_ok_inv h1]; exact G
  case stabilise =>
    unfold stepAction at h
    dsimp only at h
    obtain ⟨_, s1, h1, h2⟩ := bind_ok_inv h
    obtain ⟨-, e2⟩ := pure_ok_inv h2
    rw [e2]; exact stabilise_gen Q G h1
  case isStable =>
    unfold stepAction at h
    dsimp only at h
    rw [run_bind_get] at h
    obtain ⟨-, e2⟩ := pure_ok_inv h
    rw [e2]; exact G
  case stats =>
    unfold stepAction at h
    dsimp only at h
    obtain ⟨-, e2⟩ := pure_ok_inv h
    rw [e2]; exact G

/-- the initial state has no binds -/
theorem genOK_init (env : Env) (N : Nat) (d : Bool) : GenOK env (State.init N d) := by
  intro b br hb
  have : (State.init N d).binds = #[] := rfl
  rw [this] at hb
  simp at hb

/-! ## what observers read -/

/-- **after a `stabilise` every in-use observer reads the from-scratch value of the node it watches**: evaluate the lhs of each bind, run the closure on that value,
evaluate the template it returns (`den`; no node created by a closure is looked at) -/
theorem stabilise_reads_den {env : Env} {fuel : Nat} {s s' : State} (Q : QInv1 env s) (G : GenOK env s)
    (h : (stabilise env fuel).run.run s = (.ok (), s')) :
    ∀ (o : Nat) (ob : ObsRec), s'.observers[o]? = some ob → ob.state = .inUse →
      ∃ v, s'.tryGetValue env o = .ok v ∧ ∀ k, ob.node < k → den env s' k ob.node = some v := by
  have R := stabilise_F1 Q h
  have G' := stabilise_gen Q G h
  have Q' := R.inv
  obtain ⟨hreads, -⟩ := stabilised_reads1 R
  have O' : ObsInv s' [] [] := by
    have := Q'.obs
    unfold ObsOK at this
    rw [R.newObservers, R.disallowedObservers] at this
    exact this
  have hall : ∀ m, s'.isNecessary m = true → s'.isStale m = false ∧ ConsistentB env s' m := by
    intro m hm
    obtain ⟨k1, k2, -⟩ := R.values m hm ((s'.nodeD m).height.toNat + 1) (Nat.lt_succ_self _)
    exact ⟨k2, Q'.cons m (Q'.bgraph.nec_lt hm) k1 k2⟩
  intro o ob ho hst
  have hmem : o ∈ (s'.nodeD ob.node).observers := (O'.mem ob.node o).2 ⟨ob, ho, rfl, Or.inl hst⟩
  have hn : s'.isNecessary ob.node = true := by
    rw [isNecessary_iff]; right; left; exact List.ne_nil_of_mem hmem
  obtain ⟨-, -, hv, -⟩ := R.values ob.node hn ((s'.nodeD ob.node).height.toNat + 1) (Nat.lt_succ_self _)
  obtain ⟨v, hread, hev⟩ := hreads o ob ho hst ((s'.nodeD ob.node).height.toNat + 1) (Nat.lt_succ_self _)
  refine ⟨v, hread, fun k hk => ?_⟩
  rw [den_of_consistent_fuel Q'.bgraph Q'.f1 G' hall ob.node hn (Q'.obsTop o ob ho).1 k hk, hv, hev]

end IncrVerif.Proofs.BindH
