import IncrVerif.Proofs.TidyH41
/-!
# Converse simulation, part 4: one `recomputeOne` of a node that is not an expert node (mirror of ExpertH29)
-/
namespace IncrVerif.Proofs.TidyH.XT
namespace XR
open IncrVerif.Engine IncrVerif.Driver IncrVerif.Proofs IncrVerif.Proofs.Step IncrVerif.Proofs.Sched
open IncrVerif.Proofs.ExpertH

theorem FrR.started {s : State} (h : FrR s) (n : Nat) : FrR (started n s) :=
  FrR.of_nodes (frr_modify h n (fun x => { x with recomputedAt := s.stabNum }) (by xkind)) rfl rfl rfl rfl

theorem FrR.logged {s : State} (h : FrR s) (es : List Event) : FrR (logged es s) := FrR.of_nodes h rfl rfl rfl rfl

/-- both steps reduce to `maybe_change_value` from corresponding states -/
theorem recomputeOne_simR_finish {env : Env} {s t : State} {fuel n : Nat} {r : Option Nat} {es : List Event} {v : Val}
    (hfr : FrR s) (hne : ∀ e, (s.nodeD n).kind ≠ .expert e) (hes : ∀ e, e ∈ es → keepEv e = true)
    (ha : (recomputeOne env fuel n).run.run s
      = (maybeChangeValue env fuel n v).run.run (logged es (started n s)))
    (hv : (recomputeOne (virtEnv env) fuel n).run.run (virt s)
      = (maybeChangeValue (virtEnv env) fuel n v).run.run (logged es (started n (virt s))))
    (h : (recomputeOne (virtEnv env) fuel n).run.run (virt s) = (.ok r, t)) :
    ∃ s', (recomputeOne env fuel n).run.run s = (.ok r, s') ∧ t = virt s' ∧ FrR s' := by
  rw [hv, ← virt_started n s hne, ← virt_logged es _ hes] at h
  rw [ha]
  exact SimR.maybeChangeValue env fuel n v _ ((hfr.started n).logged es) r t h

/-- one `recomputeOne` of a node of the fragment that is not an expert node: if the virtual step returns, so does
the actual step -/
theorem recomputeOne_simR {env : Env} {s t : State} {fuel n : Nat} {r : Option Nat}
    (hfr : FrR s) (hn : n < s.nodes.size) (hxk : XKind env (s.nodeD n).kind)
    (hne : ∀ e, (s.nodeD n).kind ≠ .expert e)
    (h : (recomputeOne (virtEnv env) fuel n).run.run (virt s) = (.ok r, t)) :
    ∃ s', (recomputeOne env fuel n).run.run s = (.ok r, s') ∧ t = virt s' ∧ FrR s' := by
  have hnd := some_of_lt hn
  have hval := hfr.fr.valid n
  have hpc := hfr.fr.pc
  have hvn : (virt s).nodes[n]? = some (s.nodeD n) := by
    rw [virt_getElem?, hnd]; simp only [Option.map_some]; rw [virtNode_of_not_expert _ _ hne]
  cases hkd : (s.nodeD n).kind with
  | const v =>
    refine recomputeOne_simR_finish (es := []) (v := v) hfr hne (by simp) ?_ ?_ h
    · exact recomputeOne_const_run env fuel n s _ v hnd hval hkd
    · exact recomputeOne_const_run (virtEnv env) fuel n (virt s) _ v hvn hval hkd
  | var c =>
    obtain ⟨vc, hvc⟩ := recomputeOne_ok_var hvn hval hkd h
    have hvc' : s.vars[c]? = some vc := hvc
    refine recomputeOne_simR_finish (es := []) (v := vc.value) hfr hne (by simp) ?_ ?_ h
    · exact recomputeOne_var_run env fuel n s _ c vc hnd hval hkd hvc'
    · exact recomputeOne_var_run (virtEnv env) fuel n (virt s) _ c vc hvn hval hkd hvc
  | map f args =>
    rw [hkd] at hxk
    obtain ⟨vals, hvvals⟩ := recomputeOne_ok_vals hvn hval (Or.inl ⟨f, hkd⟩) h
    have hvals : valuesOf env s args = some vals := by
      rw [← valuesOf_virt env s hfr.fr args]; exact hvvals
    by_cases hf : f < fnZip
    · refine recomputeOne_simR_finish (es := [.inv s!"f{f}" n vals (env.fn f vals).render]) (v := env.fn f vals)
        hfr hne ?_ ?_ ?_ h
      · intro e he; simp only [List.mem_singleton] at he; subst he; exact isF_f f
      · exact recomputeOne_map_run env fuel n s _ f args vals hnd hval hkd hf hvals (hxk.2 hf vals) hpc
      · exact recomputeOne_map_run (virtEnv env) fuel n (virt s) _ f args vals hvn hval hkd hf hvvals
          (hxk.2 hf vals) hpc
    · refine recomputeOne_simR_finish (es := []) (v := env.fn f vals) hfr hne (by simp) ?_ ?_ h
      · exact recomputeOne_mapBuiltin_run env fuel n s _ f args vals hnd hval hkd hf hxk.1 hvals
      · exact recomputeOne_mapBuiltin_run (virtEnv env) fuel n (virt s) _ f args vals hvn hval hkd hf hxk.1 hvvals
  | fold f init cs =>
    rw [hkd] at hxk
    obtain ⟨vals, hvvals⟩ := recomputeOne_ok_vals hvn hval (Or.inr ⟨f, init, hkd⟩) h
    have hvals : valuesOf env s cs = some vals := by
      rw [← valuesOf_virt env s hfr.fr cs]; exact hvvals
    refine recomputeOne_simR_finish (es := [.inv s!"fold{f}" n vals (vals.foldl (env.foldStep f) init).render])
      (v := vals.foldl (env.foldStep f) init) hfr hne ?_ ?_ ?_ h
    · intro e he; simp only [List.mem_singleton] at he; subst he; exact isF_fold f
    · exact recomputeOne_fold_run env fuel n s _ f init cs vals hnd hval hkd hvals hpc
    · have := recomputeOne_fold_run (virtEnv env) fuel n (virt s) _ f init cs vals hvn hval hkd hvvals hpc
      rw [virtEnv_foldStep_real env hxk] at this
      exact this
  | expert e => exact absurd hkd (hne e)
  | _ => rw [hkd] at hxk; exact hxk.elim

end XR
end IncrVerif.Proofs.TidyH.XT
